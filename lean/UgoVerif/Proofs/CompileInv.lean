import UgoVerif.Proofs.CompileSat
import UgoVerif.Proofs.CompileWalk
import UgoVerif.Proofs.CompileScan
/-
  C05: the invariant of the compiler state under which no Go panic is reachable, the relation
  between the state before and after a compile step, and the facts about the primitive operations.
-/
namespace UgoVerif.Compile
open UgoVerif UgoVerif.Go UgoVerif.Ast

/-! ### symbol tables -/

/-- a CONSTLIT symbol is constant and carries its literal value -/
def SymOK (y : Symbol) : Prop := y.scope = .constLit → (y.constant = true ∧ y.constLit.isSome = true)
def StoreOK (st : List (String × Symbol)) : Prop := ∀ p ∈ st, SymOK p.2
/-- a table: its symbols are fine and its parameters are among its definitions
    (`NumParams ≤ NumLocals` of the function compiled from it) -/
structure TableOK (t : Table) : Prop where
  store : StoreOK t.store
  params : t.numParams ≤ t.maxDefinition

def TablesOK (ts : List Table) : Prop := ∀ t ∈ ts, TableOK t

/-- a table changed in its store (and possibly raised in `maxDefinition`, other counters) -/
theorem TableOK.of_store {t t' : Table} (h : TableOK t) (hs : StoreOK t'.store) (hp : t'.numParams = t.numParams)
    (hm : t.maxDefinition ≤ t'.maxDefinition) : TableOK t' :=
  ⟨hs, by rw [hp]; exact Nat.le_trans h.params hm⟩

@[simp] theorem shadowBuiltin_numParams (bs : List (String × Nat)) (n : String) (t : Table) :
    (shadowBuiltin bs n t).numParams = t.numParams := by
  unfold shadowBuiltin; split <;> rfl

@[simp] theorem shadowBuiltin_maxDefinition (bs : List (String × Nat)) (n : String) (t : Table) :
    (shadowBuiltin bs n t).maxDefinition = t.maxDefinition := by
  unfold shadowBuiltin; split <;> rfl

theorem lookupSym_ok {n : String} {y : Symbol} : ∀ {st : List (String × Symbol)}, StoreOK st → lookupSym n st = some y → SymOK y
  | [], _, h => by simp [lookupSym] at h
  | (k, v) :: r, hs, h => by
    simp only [lookupSym] at h
    split at h
    · injection h with h; subst h; exact hs (k, v) (by simp)
    · exact lookupSym_ok (fun p hp => hs p (by simp [hp])) h

theorem putSym_ok {n : String} {y : Symbol} (hy : SymOK y) : ∀ {st : List (String × Symbol)}, StoreOK st → StoreOK (putSym n y st)
  | [], _ => by intro p hp; simp [putSym] at hp; subst hp; exact hy
  | (k, v) :: r, hs => by
    simp only [putSym]
    split
    · intro p hp
      simp at hp
      rcases hp with hp | hp
      · subst hp; exact hy
      · exact hs p (by simp [hp])
    · intro p hp
      simp at hp
      rcases hp with hp | hp
      · subst hp; exact hs (k, v) (by simp)
      · exact putSym_ok hy (fun p hp => hs p (by simp [hp])) p hp

@[simp] theorem shadowBuiltin_store (bs : List (String × Nat)) (n : String) (t : Table) :
    (shadowBuiltin bs n t).store = t.store := by
  unfold shadowBuiltin; split <;> rfl

theorem updateMaxDefs_length (n : Nat) : ∀ ts : List Table, (updateMaxDefs n ts).length = ts.length
  | [] => rfl
  | t :: r => by
    simp only [updateMaxDefs]
    split <;> simp [updateMaxDefs_length n r]

theorem updateMaxDefs_ok (n : Nat) : ∀ {ts : List Table}, TablesOK ts → TablesOK (updateMaxDefs n ts)
  | [], _ => by intro t ht; simp [updateMaxDefs] at ht
  | t :: r, h => by
    have ht : TableOK t := h t (by simp)
    have hr : TablesOK r := fun t' ht' => h t' (by simp [ht'])
    have h1 : TableOK (if n > t.maxDefinition then { t with maxDefinition := n } else t) := by
      split
      · exact ht.of_store ht.store rfl (by simp only; omega)
      · exact ht
    simp only [updateMaxDefs]
    split
    · intro t' ht'
      simp at ht'
      rcases ht' with ht' | ht'
      · subst ht'; exact h1
      · exact updateMaxDefs_ok n hr t' ht'
    · intro t' ht'
      simp at ht'
      rcases ht' with ht' | ht'
      · subst ht'; exact h1
      · exact hr t' ht'

theorem resolveIn_spec (bs : List (String × Nat)) (d : List String) (n : String) :
    ∀ {ts : List Table}, TablesOK ts →
      TablesOK (resolveIn bs d n ts).2 ∧ (resolveIn bs d n ts).2.length = ts.length ∧
      ∀ y, (resolveIn bs d n ts).1 = some y → SymOK y
  | [], _ => by simp [resolveIn, TablesOK]
  | t :: rest, h => by
    have htt : TableOK t := h t (by simp)
    have ht : StoreOK t.store := htt.store
    have hr : TablesOK rest := fun t' ht' => h t' (by simp [ht'])
    unfold resolveIn
    split
    · rename_i sym hl
      exact ⟨h, rfl, fun y hy => by injection hy with hy; subst hy; exact lookupSym_ok ht hl⟩
    · cases rest with
      | nil =>
        simp only
        split
        · split
          · rename_i idx _
            refine ⟨?_, rfl, ?_⟩
            · intro t' ht'
              simp at ht'
              subst ht'
              exact htt.of_store (putSym_ok (by intro hc; simp at hc) ht) rfl (Nat.le_refl _)
            · intro y hy; injection hy with hy; subst hy; intro hc; simp at hc
          · exact ⟨h, rfl, fun y hy => by simp at hy⟩
        · exact ⟨h, rfl, fun y hy => by simp at hy⟩
      | cons t2 r2 =>
        simp only
        have ih := resolveIn_spec bs d n hr
        cases hres : resolveIn bs d n (t2 :: r2) with
        | mk r rest' =>
          rw [hres] at ih
          simp only at ih ⊢
          obtain ⟨ih1, ih2, ih3⟩ := ih
          cases r with
          | none =>
            refine ⟨?_, by simp [ih2], fun y hy => by simp at hy⟩
            intro t' ht'
            simp at ht'
            rcases ht' with ht' | ht'
            · subst ht'; exact htt
            · exact ih1 t' ht'
          | some sym =>
            simp only
            split
            · refine ⟨?_, by simp [ih2], ?_⟩
              · intro t' ht'
                simp at ht'
                rcases ht' with ht' | ht'
                · subst ht'
                  exact htt.of_store (by simp only [shadowBuiltin_store]; exact putSym_ok (by intro hc; simp at hc) ht)
                    (by simp) (by simp)
                · exact ih1 t' ht'
              · intro y hy; injection hy with hy; subst hy; intro hc; simp at hc
            · refine ⟨?_, by simp [ih2], fun y hy => by injection hy with hy; subst hy; exact ih3 _ rfl⟩
              intro t' ht'
              simp at ht'
              rcases ht' with ht' | ht'
              · subst ht'; exact htt
              · exact ih1 t' ht'

theorem findByNameAll_ok {n : String} {y : Symbol} : ∀ {ts : List Table}, TablesOK ts → findByNameAll n ts = some y → SymOK y
  | [], _, h => by simp [findByNameAll] at h
  | t :: r, hs, h => by
    simp only [findByNameAll] at h
    split at h
    · rename_i s hl
      injection h with h; subst h
      exact lookupSym_ok (hs t (by simp)).store hl
    · exact findByNameAll_ok (fun t' ht' => hs t' (by simp [ht'])) h

/-! ### the invariant and the step relation -/

/-- an instruction stream that decodes completely, whose jump / try targets are boundaries and
    whose CONSTANT / CLOSURE operands are below `nc` (the size of the constant pool) -/
def StreamOK (nc : Nat) (a : Array UInt8) : Prop := Walk a 0 a.size ∧ TargetsOK nc a

theorem StreamOK.mono {nc nc' : Nat} {a : Array UInt8} (h : StreamOK nc a) (hn : nc ≤ nc') : StreamOK nc' a :=
  ⟨h.1, h.2.mono hn⟩

/-- the stream of a finished function (`Bytecode()`): moreover every jump target lies strictly
    inside the stream and the last instruction is RETURN -/
def FinStream (nc : Nat) (a : Array UInt8) : Prop := StreamOK nc a ∧ JumpsStrict a ∧ EndsInReturn a

theorem FinStream.mono {nc nc' : Nat} {a : Array UInt8} (h : FinStream nc a) (hn : nc ≤ nc') : FinStream nc' a :=
  ⟨h.1.mono hn, h.2⟩

/-- a finished function: its stream is fine and its parameters are among its locals -/
def FinFn (nc : Nat) (f : CFn) : Prop := FinStream nc f.insts ∧ f.numParams ≤ f.numLocals

theorem FinFn.mono {nc nc' : Nat} {f : CFn} (h : FinFn nc f) (hn : nc ≤ nc') : FinFn nc' f :=
  ⟨h.1.mono hn, h.2⟩

/-- a compiled function in the constant pool: its locals fit the frame, its stream is fine -/
def FnOK (nc : Nat) (f : CFn) : Prop := f.numLocals ≤ 256 ∧ FinFn nc f
def ConstsOK (cs : Array Const) : Prop := ∀ c ∈ cs.toList, ∀ f, c = .fn f → FnOK cs.size f

theorem ConstsOK.push {cs : Array Const} (h : ConstsOK cs) {c : Const} (hc : ∀ f, c = .fn f → FnOK (cs.size + 1) f) :
    ConstsOK (cs.push c) := by
  intro c' hc' f hf
  simp only [Array.size_push]
  simp at hc'
  rcases hc' with hc' | hc'
  · have := h c' (by simpa using hc') f hf
    exact ⟨this.1, this.2.mono (by omega)⟩
  · subst hc'; exact hc f hf

structure Inv (s : CState) : Prop where
  ne : s.tables ≠ []
  tabs : TablesOK s.tables
  walk : Walk s.insts 0 s.insts.size
  loops : ∀ l ∈ s.loops, ∀ p, (p ∈ l.breaks ∨ p ∈ l.continues) → Bd s.insts p ∧ Jumpy s.insts p
  consts : ConstsOK s.constants
  targets : TargetsOK s.constants.size s.insts

structure Rel (s s' : CState) : Prop where
  tlen : s'.tables.length = s.tables.length
  pre : Pre s.insts s'.insts
  llen : s'.loops.length = s.loops.length
  ltail : s'.loops.tail = s.loops.tail
  lhead : ∀ l l', s.loops.head? = some l → s'.loops.head? = some l' → ∀ p,
    (p ∈ l'.breaks → p ∈ l.breaks ∨ s.insts.size ≤ p) ∧ (p ∈ l'.continues → p ∈ l.continues ∨ s.insts.size ≤ p)
  csz : s.constants.size ≤ s'.constants.size

theorem Rel.refl (s : CState) : Rel s s :=
  ⟨rfl, Pre.refl _, rfl, rfl, fun l l' h h' p => by rw [h] at h'; injection h' with h'; subst h'; exact ⟨.inl, .inl⟩,
   Nat.le_refl _⟩

theorem Rel.trans {s s' s'' : CState} (h : Rel s s') (h' : Rel s' s'') : Rel s s'' := by
  refine ⟨h'.tlen.trans h.tlen, h.pre.trans h'.pre, h'.llen.trans h.llen, h'.ltail.trans h.ltail, ?_,
    Nat.le_trans h.csz h'.csz⟩
  intro l l'' hl hl'' p
  have hlen := h.llen
  cases hs' : s'.loops with
  | nil =>
    rw [hs'] at hlen
    cases hs : s.loops with
    | nil => rw [hs] at hl; simp at hl
    | cons a b => rw [hs] at hlen; simp at hlen
  | cons l' r' =>
    have h1 := h.lhead l l' hl (by simp [hs']) p
    have h2 := h'.lhead l' l'' (by simp [hs']) hl'' p
    have hsz := h.pre.1
    constructor
    · intro hp
      rcases h2.1 hp with hp | hp
      · exact h1.1 hp
      · right; omega
    · intro hp
      rcases h2.2 hp with hp | hp
      · exact h1.2 hp
      · right; omega

/-- a step that leaves the instruction stream and the loop stack alone -/
theorem Rel.of_same {s s' : CState} (h1 : s'.tables.length = s.tables.length) (h2 : s'.insts = s.insts)
    (h3 : s'.loops = s.loops) (h4 : s.constants.size ≤ s'.constants.size := by first | exact Nat.le_refl _ | simp) :
    Rel s s' := by
  refine ⟨h1, by rw [h2]; exact Pre.refl _, by rw [h3], by rw [h3], ?_, h4⟩
  intro l l' h h' p; rw [h3, h] at h'; injection h' with h'; subst h'; exact ⟨.inl, .inl⟩

theorem Inv.of_tables {s s' : CState} (h : Inv s) (h1 : s'.tables ≠ []) (h2 : TablesOK s'.tables)
    (h3 : s'.insts = s.insts) (h4 : s'.loops = s.loops) (h5 : s'.constants = s.constants := by rfl) : Inv s' :=
  ⟨h1, h2, by rw [h3]; exact h.walk, by rw [h3, h4]; exact h.loops, by rw [h5]; exact h.consts,
   by rw [h3, h5]; exact h.targets⟩

/-- `GoodP P m`: from a state satisfying the invariant `m` does not panic; on normal termination
    the invariant holds again, the states are related, and the result satisfies `P`. -/
def GoodP {α} (P : α → Prop) (m : CM α) : Prop :=
  ∀ s, Inv s → Sat m s (fun a s' => Inv s' ∧ Rel s s' ∧ P a)

abbrev Good {α} (m : CM α) : Prop := GoodP (fun _ => True) m

theorem GoodP.pure {α} {P : α → Prop} {a : α} (h : P a) : GoodP P (Pure.pure a : CM α) :=
  fun s hs => Sat.pure ⟨hs, Rel.refl s, h⟩

theorem GoodP.bind {α β} {P : α → Prop} {R : β → Prop} {m : CM α} {f : α → CM β}
    (hm : GoodP P m) (hf : ∀ a, P a → GoodP R (f a)) : GoodP R (m >>= f) := by
  intro s hs
  apply Sat.bind
  apply Sat.mono (hm s hs)
  intro a s' ⟨hs', hr, hp⟩
  apply Sat.mono (hf a hp s' hs')
  intro b s'' ⟨hs'', hr', hb⟩
  exact ⟨hs'', hr.trans hr', hb⟩

theorem GoodP.weaken {α} {P P' : α → Prop} {m : CM α} (h : GoodP P m) (hp : ∀ a, P a → P' a) : GoodP P' m :=
  fun s hs => Sat.mono (h s hs) fun a s' ⟨h1, h2, h3⟩ => ⟨h1, h2, hp a h3⟩

theorem GoodP.good {α} {P : α → Prop} {m : CM α} (h : GoodP P m) : Good m := h.weaken fun _ _ => trivial

theorem GoodP.cerr {α} {P : α → Prop} {pos : Pos} {msg : String} : GoodP P (cerr pos msg : CM α) := fun _ _ => Sat.cerr
theorem GoodP.throw_err {α} {P : α → Prop} {pos : Pos} {msg : String} : GoodP P (throw (CErr.err pos msg) : CM α) :=
  fun _ _ => Sat.throw_err
theorem GoodP.throw_bare {α} {P : α → Prop} {msg : String} : GoodP P (throw (CErr.bare msg) : CM α) :=
  fun _ _ => Sat.throw_bare
theorem GoodP.cunsupported {α} {P : α → Prop} {msg : String} : GoodP P (cunsupported msg : CM α) :=
  fun _ _ => Sat.cunsupported

/-- reading the state -/
theorem good_get : Good (get : CM CState) := fun s hs => Sat.get ⟨hs, Rel.refl s, trivial⟩

theorem good_curPos : Good curPos := by
  unfold curPos
  exact GoodP.bind good_get fun _ _ => GoodP.pure trivial

theorem good_currentLoop : Good currentLoop := by
  unfold currentLoop
  exact GoodP.bind good_get fun _ _ => GoodP.pure trivial

theorem good_headTable : Good headTable := by
  intro s hs
  unfold headTable
  apply Sat.bind
  apply Sat.get
  cases ht : s.tables with
  | nil => exact absurd ht hs.ne
  | cons t r => exact Sat.pure ⟨hs, Rel.refl s, trivial⟩

/-- a modification of the table list that keeps its length and the symbol invariant -/
theorem good_modTables {g : List Table → List Table} (hlen : ∀ ts, (g ts).length = ts.length)
    (hok : ∀ ts, TablesOK ts → TablesOK (g ts)) : Good (modTables g) := by
  intro s hs
  unfold modTables
  apply Sat.modify
  refine ⟨hs.of_tables ?_ (hok _ hs.tabs) rfl rfl, Rel.of_same (hlen _) rfl rfl, trivial⟩
  intro h
  have := hlen s.tables
  simp only at h
  rw [h] at this
  exact hs.ne (List.eq_nil_of_length_eq_zero this.symm)

theorem good_modHead {f : Table → Table} (hok : ∀ t, StoreOK t.store → StoreOK (f t).store)
    (hp : ∀ t, (f t).numParams = t.numParams := by intro t; simp)
    (hm : ∀ t, t.maxDefinition ≤ (f t).maxDefinition := by intro t; simp) : Good (modHead f) := by
  unfold modHead
  apply good_modTables
  · intro ts; cases ts <;> simp
  · intro ts h
    cases ts with
    | nil => exact h
    | cons t r =>
      intro t' ht'
      simp at ht'
      rcases ht' with ht' | ht'
      · subst ht'; exact (h t (by simp)).of_store (hok t (h t (by simp)).store) (hp t) (hm t)
      · exact h t' (by simp [ht'])

theorem good_updateMaxDefs (n : Nat) : Good (modTables (updateMaxDefs n)) :=
  good_modTables (updateMaxDefs_length n) (fun _ h => updateMaxDefs_ok n h)

theorem good_modify_misc {f : CState → CState} (h1 : ∀ s, (f s).tables = s.tables) (h2 : ∀ s, (f s).insts = s.insts)
    (h3 : ∀ s, (f s).loops = s.loops) (h4 : ∀ s, (f s).constants = s.constants := by intro _; rfl) :
    Good (modify f : CM Unit) := by
  intro s hs
  apply Sat.modify
  exact ⟨hs.of_tables (by rw [h1]; exact hs.ne) (by rw [h1]; exact hs.tabs) (h2 s) (h3 s) (h4 s),
    Rel.of_same (by rw [h1]) (h2 s) (h3 s) (by rw [h4]; exact Nat.le_refl _), trivial⟩

/-- `updateSym` with an update that does not touch scope, constant flag or literal -/
theorem good_updateSym {name : String} {f : Symbol → Symbol}
    (hf : ∀ y, SymOK y → SymOK (f y)) : Good (updateSym name f) := by
  unfold updateSym
  refine good_modHead ?_ ?_ ?_
  · intro t ht
    split
    · rename_i sym hl
      exact putSym_ok (hf _ (lookupSym_ok ht hl)) ht
    · exact ht
  · intro t; split <;> rfl
  · intro t; split <;> exact Nat.le_refl _

theorem good_addConstant (k : CVal) : Good (addConstant k) := by
  intro s hs
  unfold addConstant
  apply Sat.bind
  apply Sat.get
  split
  · exact Sat.pure ⟨hs, Rel.refl s, trivial⟩
  · apply Sat.bind
    apply Sat.set
    exact Sat.pure ⟨⟨hs.ne, hs.tabs, hs.walk, hs.loops, hs.consts.push (fun f hf => by cases hf),
      hs.targets.mono (by simp)⟩,
      Rel.of_same rfl rfl rfl, trivial⟩

theorem sat_addConstant {k : CVal} {s : CState} {Q : Nat → CState → Prop} (hs : Inv s)
    (h : ∀ i s', Inv s' → Rel s s' → i < s'.constants.size → s'.insts = s.insts → Q i s') :
    Sat (addConstant k) s Q := by
  unfold addConstant
  apply Sat.bind
  apply Sat.get
  split
  · rename_i i hi
    exact Sat.pure (h i s hs (Rel.refl s) (findConst_lt hi) rfl)
  · apply Sat.bind
    apply Sat.set
    apply Sat.pure
    exact h _ _ ⟨hs.ne, hs.tabs, hs.walk, hs.loops, hs.consts.push (fun f hf => by cases hf),
      hs.targets.mono (by simp)⟩ (Rel.of_same rfl rfl rfl) (by simp) rfl

theorem sat_addFnConstant {f : CFn} {s : CState} {Q : Nat → CState → Prop} (hs : Inv s)
    (hf : FnOK s.constants.size f)
    (h : ∀ i s', Inv s' → Rel s s' → i < s'.constants.size → s'.insts = s.insts → Q i s') :
    Sat (addFnConstant f) s Q := by
  unfold addFnConstant
  apply Sat.bind
  apply Sat.get
  split
  · rename_i i hi
    exact Sat.pure (h i s hs (Rel.refl s) (findFn_lt hi) rfl)
  · apply Sat.bind
    apply Sat.set
    apply Sat.pure
    refine h _ _ ⟨hs.ne, hs.tabs, hs.walk, hs.loops,
      hs.consts.push (fun g hg => by injection hg with hg; subst hg; exact ⟨hf.1, hf.2.mono (by omega)⟩),
      hs.targets.mono (by simp)⟩ (Rel.of_same rfl rfl rfl) (by simp) rfl

theorem goodP_resolve (name : String) : GoodP (fun r => ∀ y, r = some y → SymOK y) (resolve name) := by
  intro s hs
  unfold resolve
  apply Sat.bind
  apply Sat.get
  have hsp := resolveIn_spec s.builtins (rootDisabled s.tables) name hs.tabs
  cases hres : resolveIn s.builtins (rootDisabled s.tables) name s.tables with
  | mk r ts =>
    rw [hres] at hsp
    simp only at hsp ⊢
    apply Sat.bind
    apply Sat.set
    refine Sat.pure ⟨hs.of_tables ?_ hsp.1 rfl rfl, Rel.of_same hsp.2.1 rfl rfl, hsp.2.2⟩
    intro h
    simp only at h
    have := hsp.2.1
    rw [h] at this
    exact hs.ne (List.eq_nil_of_length_eq_zero this.symm)


/-! ### emit -/

theorem Rel.of_pre {s s' : CState} (h1 : s'.tables.length = s.tables.length) (h2 : Pre s.insts s'.insts)
    (h3 : s'.loops = s.loops) (h4 : s.constants.size ≤ s'.constants.size := by first | exact Nat.le_refl _ | simp) :
    Rel s s' := by
  refine ⟨h1, h2, by rw [h3], by rw [h3], ?_, h4⟩
  intro l l' h h' p; rw [h3, h] at h'; injection h' with h'; subst h'; exact ⟨.inl, .inl⟩

/-- transfer of a relation along states that agree on what the relation looks at -/
theorem Rel.transfer {a b a' b' : CState} (h : Rel a b) (hi : a.insts = a'.insts) (hl : a.loops = a'.loops)
    (hi' : b'.insts = b.insts) (hl' : b'.loops = b.loops) (ht : b'.tables.length = a'.tables.length)
    (hc : a'.constants.size ≤ b'.constants.size) : Rel a' b' := by
  refine ⟨ht, by rw [← hi, hi']; exact h.pre, by rw [hl', ← hl]; exact h.llen, by rw [hl', ← hl]; exact h.ltail, ?_, hc⟩
  intro l l' h1 h2 p
  rw [← hl] at h1; rw [hl'] at h2
  have := h.lhead l l' h1 h2 p
  rw [← hi]; exact this

theorem pre_append (a : Array UInt8) (bs : List UInt8) : Pre a (a ++ bs.toArray) :=
  ⟨by simp, fun k hk => by simp [Array.getElem?_append, hk]⟩

/-- operands that are fine for every stream: a jump-class instruction is emitted with the
    placeholder 0, SETUPTRY with 0 0 -/
def StaticArgs (op : Nat) (args : List Int) : Prop :=
  (isJumpOp op = true → args = [0]) ∧ (op = OpSetupTry → args = [0, 0]) ∧ isConstOp op = false

theorem StaticArgs.argsOK {op : Nat} {args : List Int} (h : StaticArgs op args) (nc : Nat) (a : Array UInt8) :
    ArgsOK nc a op args :=
  ⟨fun hj => ⟨0, by rw [h.1 hj]; rfl, .refl 0⟩, fun ht => ⟨0, 0, by rw [h.2.1 ht]; rfl, .refl 0, .refl 0⟩,
   fun hc => by rw [h.2.2] at hc; cases hc⟩

/-- `emit`: an error (never a panic) when the operands do not fit; otherwise the new instruction
    starts at the old end of the stream, which is a boundary of the new stream -/
theorem sat_emit {pos : Pos} {op : Nat} {args : List Int} {s : CState} {Q : Nat → CState → Prop}
    (hs : Inv s) (hop : op < numOpcodes) (harg : ArgsOK s.constants.size s.insts op args)
    (h : ∀ s', Inv s' → Rel s s' → Bd s'.insts s.insts.size → s'.tables = s.tables →
      (∃ opb, s'.insts[s.insts.size]? = some opb ∧ opb.toNat = op) →
      s'.insts.size = s.insts.size + 1 + opWidth op → Q s.insts.size s') :
    Sat (emit pos op args) s Q := by
  unfold emit
  rw [if_neg (by omega)]
  cases hm : makeInstruction op args with
  | error m =>
    simp only
    split
    · exact Sat.throw_bare
    · exact Sat.throw_err
  | ok bs =>
    simp only
    have htg := TargetsOK.append_inst hs.walk hs.targets hop hm harg
    obtain ⟨rest, hbs, hl⟩ := makeInstruction_ok hm
    subst hbs
    apply Sat.bind
    apply Sat.get
    apply Sat.bind
    apply Sat.set
    apply Sat.pure
    have hpre := pre_append s.insts (UInt8.ofNat op :: rest)
    apply h
    · exact ⟨hs.ne, hs.tabs, Walk.append_inst hs.walk hop hl,
        fun l hl p hp => ⟨(hs.loops l hl p hp).1.pre hpre, (hs.loops l hl p hp).2.pre hpre⟩, hs.consts, htg⟩
    · exact Rel.of_pre rfl hpre rfl
    · exact Bd.append_inst hs.walk
    · rfl
    · refine ⟨UInt8.ofNat op, by simp [Array.getElem?_append], ?_⟩
      simp [UInt8.toNat_ofNat']
      unfold numOpcodes at hop
      omega
    · simp [hl]; omega

theorem good_emit {pos : Pos} {op : Nat} {args : List Int} (hop : op < numOpcodes) (ha : StaticArgs op args) :
    Good (emit pos op args) :=
  fun s hs => sat_emit hs hop (ha.argsOK _ s.insts) fun _ h1 h2 _ _ _ _ => ⟨h1, h2, trivial⟩

theorem good_emit_ {pos : Pos} {op : Nat} {args : List Int} (hop : op < numOpcodes) (ha : StaticArgs op args) :
    Good (emit_ pos op args) := by
  unfold emit_
  exact GoodP.bind (good_emit hop ha) fun _ _ => GoodP.pure trivial

/-! ### sequences that patch earlier instructions -/

/-- `St s0 ps ts s`: `s` is reached from `s0`; the positions `ps` were emitted since `s0`, are
    inner boundaries of the current stream and hold a jump-class / SETUPTRY instruction; the offsets
    `ts` (values of `len(c.instructions)` read on the way, and emitted positions) are boundaries of
    the current stream -/
structure St (s0 : CState) (ps ts : List Nat) (s : CState) : Prop where
  inv : Inv s
  rel : Rel s0 s
  pend : ∀ p ∈ ps, (Bd s.insts p ∧ Jumpy s.insts p) ∧ s0.insts.size ≤ p
  tgt : ∀ t ∈ ts, Walk s.insts 0 t

theorem St.init {s : CState} (h : Inv s) : St s [] [] s :=
  ⟨h, Rel.refl s, fun _ hp => by simp at hp, fun _ hp => by simp at hp⟩

theorem St.step {s0 s s' : CState} {ps ts : List Nat} (h : St s0 ps ts s) (hi : Inv s') (hr : Rel s s') : St s0 ps ts s' :=
  ⟨hi, h.rel.trans hr, fun p hp => ⟨⟨(h.pend p hp).1.1.pre hr.pre, (h.pend p hp).1.2.pre hr.pre⟩, (h.pend p hp).2⟩,
   fun t ht => (h.tgt t ht).pre hr.pre⟩

theorem St.weaken {s0 s : CState} {ps ts ps' ts' : List Nat} (h : St s0 ps ts s) (hsub : ∀ p ∈ ps', p ∈ ps)
    (hsub' : ∀ t ∈ ts', t ∈ ts) : St s0 ps' ts' s :=
  ⟨h.inv, h.rel, fun p hp => h.pend p (hsub p hp), fun t ht => h.tgt t (hsub' t ht)⟩

theorem st_good_bind {α β} {P : α → Prop} {m : CM α} {f : α → CM β} {s0 s : CState} {ps ts : List Nat}
    {Q : β → CState → Prop} (hm : GoodP P m) (hst : St s0 ps ts s)
    (h : ∀ a s', P a → St s0 ps ts s' → Sat (f a) s' Q) : Sat (m >>= f) s Q := by
  apply Sat.bind
  apply Sat.mono (hm s hst.inv)
  intro a s' ⟨h1, h2, h3⟩
  exact h a s' h3 (hst.step h1 h2)

/-- reading `len(c.instructions)`: the value is a boundary from now on -/
theorem st_curPos_bind {β} {f : Nat → CM β} {s0 s : CState} {ps ts : List Nat} {Q : β → CState → Prop}
    (hst : St s0 ps ts s) (h : St s0 ps (s.insts.size :: ts) s → Sat (f s.insts.size) s Q) :
    Sat (curPos >>= f) s Q := by
  apply Sat.bind
  unfold curPos
  apply Sat.bind
  apply Sat.get
  apply Sat.pure
  apply h
  refine ⟨hst.inv, hst.rel, hst.pend, ?_⟩
  intro t ht
  simp at ht
  rcases ht with ht | ht
  · subst ht; exact hst.inv.walk
  · exact hst.tgt t ht

/-- the arguments of an instruction are tracked boundaries (or 0) -/
def ArgsIn (ts : List Nat) (args : List Int) : Prop := ∀ x ∈ args, ∃ t : Nat, x = (t : Int) ∧ (t = 0 ∨ t ∈ ts)

theorem ArgsIn.argsOK {ts : List Nat} {args : List Int} {a : Array UInt8} {op nc : Nat} (h : ArgsIn ts args)
    (hts : ∀ t ∈ ts, Walk a 0 t) (hlen : (operandWidths op).length = args.length)
    (hj : isJumpOp op = true ∨ op = OpSetupTry) : ArgsOK nc a op args := by
  have hw : ∀ x ∈ args, ∃ t : Nat, x = (t : Int) ∧ Walk a 0 t := by
    intro x hx
    obtain ⟨t, ht, h0⟩ := h x hx
    refine ⟨t, ht, ?_⟩
    rcases h0 with h0 | h0
    · subst h0; exact .refl 0
    · exact hts t h0
  refine ⟨?_, ?_, ?_⟩
  · intro hj
    rw [isJumpOp_widths hj] at hlen
    match args, hlen, hw with
    | [x], _, hw =>
      obtain ⟨t, ht, hwt⟩ := hw x (by simp)
      exact ⟨t, by rw [ht], hwt⟩
  · intro ht
    subst ht
    have : operandWidths OpSetupTry = [4, 4] := rfl
    rw [this] at hlen
    match args, hlen, hw with
    | [x, y], _, hw =>
      obtain ⟨t1, ht1, hw1⟩ := hw x (by simp)
      obtain ⟨t2, ht2, hw2⟩ := hw y (by simp)
      exact ⟨t1, t2, by rw [ht1, ht2], hw1, hw2⟩
  · intro hc
    rw [jumpy_not_const hj] at hc
    cases hc

theorem makeInstruction_len {op : Nat} {args : List Int} {bs : List UInt8} (h : makeInstruction op args = .ok bs) :
    (operandWidths op).length = args.length := by
  unfold makeInstruction at h
  split at h
  · cases h
  · rename_i hl; simpa using hl

/-- `emit` of an instruction whose position is only used as a jump *target* (and of any
    instruction whose position is not used): the position becomes a tracked boundary -/
theorem st_emit_tgt_bind {β} {pos : Pos} {op : Nat} {args : List Int} {f : Nat → CM β} {s0 s : CState} {ps ts : List Nat}
    {Q : β → CState → Prop} (hst : St s0 ps ts s) (hop : op < numOpcodes)
    (ha : StaticArgs op args ∨ (ArgsIn ts args ∧ (isJumpOp op = true ∨ op = OpSetupTry)))
    (h : ∀ s', St s0 ps (s.insts.size :: ts) s' → (Bd s'.insts s.insts.size ∧
      ∃ opb, s'.insts[s.insts.size]? = some opb ∧ opb.toNat = op) → Sat (f s.insts.size) s' Q) :
    Sat (emit pos op args >>= f) s Q := by
  apply Sat.bind
  by_cases hm : ∃ bs, makeInstruction op args = .ok bs
  · obtain ⟨bs, hm⟩ := hm
    have harg : ArgsOK s.constants.size s.insts op args := by
      rcases ha with ha | ha
      · exact ha.argsOK _ _
      · exact ha.1.argsOK hst.tgt (makeInstruction_len hm) ha.2
    apply sat_emit hst.inv hop harg
    intro s' h1 h2 h3 _ h5 _
    have h4 := hst.step h1 h2
    apply h
    · refine ⟨h4.inv, h4.rel, h4.pend, ?_⟩
      intro t ht
      simp at ht
      rcases ht with ht | ht
      · subst ht; exact h3.1
      · exact h4.tgt t ht
    · exact ⟨h3, h5⟩
  · -- the operands do not fit: an error
    unfold emit
    rw [if_neg (by omega)]
    cases hm' : makeInstruction op args with
    | ok bs => exact absurd ⟨bs, hm'⟩ hm
    | error m =>
      simp only
      split
      · exact Sat.throw_bare
      · exact Sat.throw_err

/-- `emit` of a jump-class / SETUPTRY instruction that is patched later: its position is pending -/
theorem st_emit_bind {β} {pos : Pos} {op : Nat} {args : List Int} {f : Nat → CM β} {s0 s : CState} {ps ts : List Nat}
    {Q : β → CState → Prop} (hst : St s0 ps ts s) (hop : op < numOpcodes) (hj : isJumpOp op = true ∨ op = OpSetupTry)
    (ha : StaticArgs op args ∨ ArgsIn ts args)
    (h : ∀ s', St s0 (s.insts.size :: ps) (s.insts.size :: ts) s' → Sat (f s.insts.size) s' Q) :
    Sat (emit pos op args >>= f) s Q := by
  apply st_emit_tgt_bind hst hop (ha.imp id fun h => ⟨h, hj⟩)
  intro s' hst' ⟨hbd, opb, hget, hopb⟩
  apply h
  refine ⟨hst'.inv, hst'.rel, ?_, hst'.tgt⟩
  intro p hp
  simp at hp
  rcases hp with hp | hp
  · subst hp
    exact ⟨⟨hbd, opb, hget, by rw [hopb]; exact hj⟩, hst.rel.pre.1⟩
  · exact hst'.pend p hp

theorem st_emit__bind {β} {pos : Pos} {op : Nat} {args : List Int} {f : Unit → CM β} {s0 s : CState} {ps ts : List Nat}
    {Q : β → CState → Prop} (hst : St s0 ps ts s) (hop : op < numOpcodes)
    (ha : StaticArgs op args ∨ (ArgsIn ts args ∧ (isJumpOp op = true ∨ op = OpSetupTry)))
    (h : ∀ s', St s0 ps ts s' → Sat (f ()) s' Q) : Sat (emit_ pos op args >>= f) s Q := by
  unfold emit_
  rw [bind_assoc]
  apply st_emit_tgt_bind hst hop ha
  intro s' hst' _
  rw [pure_bind]
  exact h s' (hst'.weaken (fun p hp => hp) (fun t ht => by simp [ht]))

theorem Bd.op {a : Array UInt8} {p : Nat} (h : Bd a p) (hw : Walk a 0 a.size) :
    ∃ op, a[p]? = some op ∧ op.toNat < numOpcodes := by
  rcases h.1.comparable hw with h' | h'
  · cases h' with
    | refl => exact absurd h.2 (Nat.lt_irrefl _)
    | step op h1 h2 h3 h4 => exact ⟨op, h1, h2⟩
  · have := h'.le; have := h.2; omega

/-- `changeOperand` at a pending position with tracked boundaries as operands: an error when an
    operand does not fit, never a panic -/
theorem st_changeOperand {p : Nat} {args : List Int} {s0 s : CState} {ps ts : List Nat} {Q : Unit → CState → Prop}
    (hst : St s0 ps ts s) (hp : p ∈ ps) (hargs : ArgsIn ts args) (h : ∀ s', St s0 ps ts s' → Q () s') :
    Sat (changeOperand p args) s Q := by
  unfold changeOperand
  apply Sat.bind
  apply Sat.get
  obtain ⟨⟨hbd, hjy⟩, hge⟩ := hst.pend p hp
  obtain ⟨op, hop, hlt⟩ := hbd.op hst.inv.walk
  have hjop : isJumpOp op.toNat = true ∨ op.toNat = OpSetupTry := by
    obtain ⟨op', h1, h2⟩ := hjy
    rw [hop] at h1; injection h1 with h1; subst h1; exact h2
  simp only [hop]
  rw [if_neg (by omega)]
  cases hm : makeInstruction op.toNat args with
  | error m => exact Sat.throw_bare
  | ok bs =>
    simp only
    have htg := TargetsOK.patch_inst hst.inv.walk hst.inv.targets hbd.1 hop hm
      (hargs.argsOK hst.tgt (makeInstruction_len hm) hjop)
    obtain ⟨rest, hbs, hl⟩ := makeInstruction_ok hm
    subst hbs
    have hofn : UInt8.ofNat op.toNat = op := by simp
    rw [hofn] at htg ⊢
    apply Sat.set
    apply h
    have hwalk : ∀ j, Walk s.insts 0 j → Walk (patch s.insts p (op :: rest)) 0 j :=
      fun j hj => Walk.patch_inst hj hbd.1 hop hl
    have hbd' : ∀ q, Bd s.insts q ∧ Jumpy s.insts q → Bd (patch s.insts p (op :: rest)) q ∧ Jumpy (patch s.insts p (op :: rest)) q := by
      intro q ⟨hq, ⟨oq, hoq, hjq⟩⟩
      exact ⟨⟨hwalk q hq.1, by rw [size_patch]; exact hq.2⟩,
        oq, by rw [Walk.patch_get hq.1 hbd.1 hop hl]; exact hoq, hjq⟩
    refine ⟨⟨hst.inv.ne, hst.inv.tabs, ?_, fun l hl q hq => hbd' q (hst.inv.loops l hl q hq), hst.inv.consts, htg⟩, ?_, ?_, ?_⟩
    · have := hwalk _ hst.inv.walk
      simpa [size_patch] using this
    · refine ⟨hst.rel.tlen, Pre.patch hst.rel.pre hge, hst.rel.llen, hst.rel.ltail, hst.rel.lhead, hst.rel.csz⟩
    · intro q hq
      exact ⟨hbd' q (hst.pend q hq).1, (hst.pend q hq).2⟩
    · intro t ht
      exact hwalk t (hst.tgt t ht)

theorem st_changeOperand_bind {β} {p : Nat} {args : List Int} {f : Unit → CM β} {s0 s : CState} {ps ts : List Nat}
    {Q : β → CState → Prop} (hst : St s0 ps ts s) (hp : p ∈ ps) (hargs : ArgsIn ts args)
    (h : ∀ s', St s0 ps ts s' → Sat (f ()) s' Q) : Sat (changeOperand p args >>= f) s Q :=
  Sat.bind (st_changeOperand hst hp hargs h)

theorem argsIn_one {ts : List Nat} {t : Nat} (h : t = 0 ∨ t ∈ ts) : ArgsIn ts [(t : Int)] := by
  intro x hx
  simp at hx
  exact ⟨t, hx, h⟩

theorem argsIn_two {ts : List Nat} {t1 t2 : Nat} (h1 : t1 = 0 ∨ t1 ∈ ts) (h2 : t2 = 0 ∨ t2 ∈ ts) :
    ArgsIn ts [(t1 : Int), (t2 : Int)] := by
  intro x hx
  simp at hx
  rcases hx with hx | hx
  · exact ⟨t1, hx, h1⟩
  · exact ⟨t2, hx, h2⟩

theorem st_patchAll {target : Nat} : ∀ {l : List Nat} {s0 s : CState} {ps ts : List Nat} {Q : Unit → CState → Prop},
    St s0 ps ts s → (∀ p ∈ l, p ∈ ps) → target ∈ ts → (∀ s', St s0 ps ts s' → Q () s') → Sat (patchAll target l) s Q
  | [], _, _, _, _, _, hst, _, _, h => Sat.pure (h _ hst)
  | p :: r, _, _, _, _, _, hst, hsub, ht, h => by
    simp only [patchAll]
    apply st_changeOperand_bind hst (hsub p (by simp)) (argsIn_one (.inr ht))
    intro s' hst'
    exact st_patchAll hst' (fun q hq => hsub q (by simp [hq])) ht h

theorem st_patchAll_bind {β} {target : Nat} {l : List Nat} {f : Unit → CM β} {s0 s : CState} {ps ts : List Nat}
    {Q : β → CState → Prop} (hst : St s0 ps ts s) (hsub : ∀ p ∈ l, p ∈ ps) (ht : target ∈ ts)
    (h : ∀ s', St s0 ps ts s' → Sat (f ()) s' Q) : Sat (patchAll target l >>= f) s Q :=
  Sat.bind (st_patchAll hst hsub ht h)

end UgoVerif.Compile
