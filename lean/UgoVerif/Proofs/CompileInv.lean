import UgoVerif.Proofs.CompileSat
import UgoVerif.Proofs.CompileWalk
import UgoVerif.Proofs.CompileScan
import UgoVerif.Proofs.CompileChain
import UgoVerif.Proofs.CompileTryLt
/-
  C05: the invariant of the compiler state under which no Go panic is reachable, the relation
  between the state before and after a compile step, and the facts about the primitive operations.
-/
namespace UgoVerif.Compile
open UgoVerif UgoVerif.Go UgoVerif.Ast

/-! ### the invariant and the step relation -/

theorem updateMaxDefs_length (n : Nat) : ∀ ts : List Table, (updateMaxDefs n ts).length = ts.length
  | [] => rfl
  | t :: r => by
    simp only [updateMaxDefs]
    split <;> simp [updateMaxDefs_length n r]

/-- a CONSTLIT symbol found anywhere in the chain is constant and carries its value -/
theorem findByNameAll_ok {cs : Array Const} {n : String} {y : Symbol} : ∀ {ts : List Table}, ChainOK cs ts →
    findByNameAll n ts = some y → y.scope = .constLit → y.constant = true ∧ y.constLit.isSome = true
  | [], _, h, _ => by simp [findByNameAll] at h
  | t :: r, hs, h, hc => by
    simp only [findByNameAll] at h
    split at h
    · rename_i s hl
      injection h with h; subst h
      exact (lookupSym_okx hs.1 hl).1 hc
    · exact findByNameAll_ok hs.tail h hc

/-- an instruction stream that decodes completely and whose operands are fine w.r.t. `L` -/
def StreamOK (L : Lims) (a : Array UInt8) : Prop := Walk a 0 a.size ∧ TargetsOK L a

theorem StreamOK.mono {L L' : Lims} {a : Array UInt8} (h : StreamOK L a) (hn : L.le L') : StreamOK L' a :=
  ⟨h.1, h.2.mono hn⟩

/-- the stream of a finished function (`Bytecode()`): moreover every jump target lies strictly
    inside the stream and the last instruction is RETURN -/
def FinStream (L : Lims) (a : Array UInt8) : Prop := StreamOK L a ∧ JumpsStrict a ∧ EndsInReturn a

theorem FinStream.mono {L L' : Lims} {a : Array UInt8} (h : FinStream L a) (hn : L.le L') : FinStream L' a :=
  ⟨h.1.mono hn, h.2⟩

/-- a finished function with `nf` free variables, against the constant pool `cs`: its stream is fine
    for `NumLocals` locals and `nf` free variables, its parameters are among its locals, and the
    operands of its SETUPTRY instructions lie strictly inside the stream -/
def FinFn (cs : Array Const) (nf : Nat) (f : CFn) : Prop :=
  FinStream ⟨cs, f.numLocals, nf⟩ f.insts ∧ f.numParams ≤ f.numLocals ∧ TryLt f.insts

theorem FinFn.mono {cs cs' : Array Const} {nf : Nat} {f : CFn} (h : FinFn cs nf f) (hc : CPre cs cs') : FinFn cs' nf f :=
  ⟨h.1.mono ⟨hc, Nat.le_refl _, Nat.le_refl _⟩, h.2⟩

/-- a compiled function in the constant pool: its locals fit the frame, it is finished -/
def FnOK (cs : Array Const) (f : CFn) : Prop := f.numLocals ≤ 256 ∧ ∃ nf, FinFn cs nf f

theorem FnOK.mono {cs cs' : Array Const} {f : CFn} (h : FnOK cs f) (hc : CPre cs cs') : FnOK cs' f :=
  ⟨h.1, h.2.imp fun _ h' => h'.mono hc⟩

def ConstsOK (cs : Array Const) : Prop := ∀ c ∈ cs.toList, ∀ f, c = .fn f → FnOK cs f

theorem ConstsOK.push {cs : Array Const} (h : ConstsOK cs) {c : Const} (hc : ∀ f, c = .fn f → FnOK (cs.push c) f) :
    ConstsOK (cs.push c) := by
  intro c' hc' f hf
  simp at hc'
  rcases hc' with hc' | hc'
  · exact (h c' (by simpa using hc') f hf).mono (CPre.push _ _)
  · subst hc'; exact hc f hf

/-- the limits the current instruction stream is judged against -/
def limsOf (s : CState) : Lims := ⟨s.constants, fmd s.tables, fnf s.tables⟩

structure Inv (s : CState) : Prop where
  ne : s.tables ≠ []
  chain : ChainOK s.constants s.tables
  walk : Walk s.insts 0 s.insts.size
  loops : ∀ l ∈ s.loops, ∀ p, (p ∈ l.breaks ∨ p ∈ l.continues) → Bd s.insts p ∧ Jumpy s.insts p
  consts : ConstsOK s.constants
  targets : TargetsOK (limsOf s) s.insts
  bok : ∀ p ∈ s.builtins, p.2 < NB
  /-- both operands of every SETUPTRY emitted so far are strictly below the current length -/
  tryLt : TryLt s.insts

structure Rel (s s' : CState) : Prop where
  chain : ChainLE s.tables s'.tables
  pre : Pre s.insts s'.insts
  llen : s'.loops.length = s.loops.length
  ltail : s'.loops.tail = s.loops.tail
  lhead : ∀ l l', s.loops.head? = some l → s'.loops.head? = some l' → ∀ p,
    (p ∈ l'.breaks → p ∈ l.breaks ∨ s.insts.size ≤ p) ∧ (p ∈ l'.continues → p ∈ l.continues ∨ s.insts.size ≤ p)
  cpre : CPre s.constants s'.constants

theorem Rel.tlen {s s' : CState} (h : Rel s s') : s'.tables.length = s.tables.length := h.chain.length
theorem Rel.csz {s s' : CState} (h : Rel s s') : s.constants.size ≤ s'.constants.size := h.cpre.1
theorem Rel.lims {s s' : CState} (h : Rel s s') : (limsOf s).le (limsOf s') := ⟨h.cpre, h.chain.fmd, h.chain.fnf⟩

theorem Rel.refl (s : CState) : Rel s s :=
  ⟨ChainLE.refl _, Pre.refl _, rfl, rfl, fun l l' h h' p => by rw [h] at h'; injection h' with h'; subst h'; exact ⟨.inl, .inl⟩,
   CPre.refl _⟩

theorem Rel.trans {s s' s'' : CState} (h : Rel s s') (h' : Rel s' s'') : Rel s s'' := by
  refine ⟨h.chain.trans h'.chain, h.pre.trans h'.pre, h'.llen.trans h.llen, h'.ltail.trans h.ltail, ?_,
    h.cpre.trans h'.cpre⟩
  intro l l'' hl hl'' p
  have hlen := h.llen
  cases hs' : s'.loops with
  | nil =>
    rw [hs'] at hlen
    cases hs : s.loops with
    | nil => rw [hs] at hl; simp at hl
    | cons a b => rw [hs] at hlen; simp at hlen
  | cons l' r' =>
    have h1 := h.lhead l l' hl (by simp [hs']) p
    have h2 := h'.lhead l' l'' (by simp [hs']) hl'' p
    have hsz := h.pre.1
    constructor
    · intro hp
      rcases h2.1 hp with hp | hp
      · exact h1.1 hp
      · right; omega
    · intro hp
      rcases h2.2 hp with hp | hp
      · exact h1.2 hp
      · right; omega

/-- a step that leaves the instruction stream and the loop stack alone -/
theorem Rel.of_same {s s' : CState} (h1 : ChainLE s.tables s'.tables) (h2 : s'.insts = s.insts)
    (h3 : s'.loops = s.loops) (h4 : CPre s.constants s'.constants := by first | exact CPre.refl _ | exact CPre.push _ _) :
    Rel s s' := by
  refine ⟨h1, by rw [h2]; exact Pre.refl _, by rw [h3], by rw [h3], ?_, h4⟩
  intro l l' h h' p; rw [h3, h] at h'; injection h' with h'; subst h'; exact ⟨.inl, .inl⟩

/-- a state that differs in its tables (and possibly grew its constant pool): the instruction stream
    is judged against limits that only grew -/
theorem Inv.of_tables {s s' : CState} (h : Inv s) (h1 : s'.tables ≠ []) (h2 : ChainOK s'.constants s'.tables)
    (hl : (limsOf s).le (limsOf s')) (h3 : s'.insts = s.insts) (h4 : s'.loops = s.loops)
    (h5 : s'.constants = s.constants := by rfl) (h6 : s'.builtins = s.builtins := by rfl) : Inv s' :=
  ⟨h1, h2, by rw [h3]; exact h.walk, by rw [h3, h4]; exact h.loops, by rw [h5]; exact h.consts,
   by rw [h3]; exact h.targets.mono hl, by rw [h6]; exact h.bok, by rw [h3]; exact h.tryLt⟩

theorem limsOf_le_of_chain {s s' : CState} (hc : ChainLE s.tables s'.tables) (h5 : s'.constants = s.constants) :
    (limsOf s).le (limsOf s') := ⟨by show CPre s.constants s'.constants; rw [h5]; exact CPre.refl _, hc.fmd, hc.fnf⟩

/-- `GoodP P m`: from a state satisfying the invariant `m` does not panic; on normal termination
    the invariant holds again, the states are related, and the result satisfies `P`. -/
def GoodP {α} (P : α → Prop) (m : CM α) : Prop :=
  ∀ s, Inv s → Sat m s (fun a s' => Inv s' ∧ Rel s s' ∧ P a)

abbrev Good {α} (m : CM α) : Prop := GoodP (fun _ => True) m

theorem GoodP.pure {α} {P : α → Prop} {a : α} (h : P a) : GoodP P (Pure.pure a : CM α) :=
  fun s hs => Sat.pure ⟨hs, Rel.refl s, h⟩

theorem GoodP.bind {α β} {P : α → Prop} {R : β → Prop} {m : CM α} {f : α → CM β}
    (hm : GoodP P m) (hf : ∀ a, P a → GoodP R (f a)) : GoodP R (m >>= f) := by
  intro s hs
  apply Sat.bind
  apply Sat.mono (hm s hs)
  intro a s' ⟨hs', hr, hp⟩
  apply Sat.mono (hf a hp s' hs')
  intro b s'' ⟨hs'', hr', hb⟩
  exact ⟨hs'', hr.trans hr', hb⟩

theorem GoodP.weaken {α} {P P' : α → Prop} {m : CM α} (h : GoodP P m) (hp : ∀ a, P a → P' a) : GoodP P' m :=
  fun s hs => Sat.mono (h s hs) fun a s' ⟨h1, h2, h3⟩ => ⟨h1, h2, hp a h3⟩

theorem GoodP.good {α} {P : α → Prop} {m : CM α} (h : GoodP P m) : Good m := h.weaken fun _ _ => trivial

theorem GoodP.cerr {α} {P : α → Prop} {pos : Pos} {msg : String} : GoodP P (cerr pos msg : CM α) := fun _ _ => Sat.cerr
theorem GoodP.throw_err {α} {P : α → Prop} {pos : Pos} {msg : String} : GoodP P (throw (CErr.err pos msg) : CM α) :=
  fun _ _ => Sat.throw_err
theorem GoodP.throw_bare {α} {P : α → Prop} {msg : String} : GoodP P (throw (CErr.bare msg) : CM α) :=
  fun _ _ => Sat.throw_bare
theorem GoodP.cunsupported {α} {P : α → Prop} {msg : String} : GoodP P (cunsupported msg : CM α) :=
  fun _ _ => Sat.cunsupported

/-- `GoodS`: like `GoodP`, with a result condition that may mention the final state -/
def GoodS {α} (P : α → CState → Prop) (m : CM α) : Prop :=
  ∀ s, Inv s → Sat m s (fun a s' => Inv s' ∧ Rel s s' ∧ P a s')

/-- reading the state -/
theorem good_get : Good (get : CM CState) := fun s hs => Sat.get ⟨hs, Rel.refl s, trivial⟩

theorem good_curPos : Good curPos := by
  unfold curPos
  exact GoodP.bind good_get fun _ _ => GoodP.pure trivial

theorem good_currentLoop : Good currentLoop := by
  unfold currentLoop
  exact GoodP.bind good_get fun _ _ => GoodP.pure trivial

theorem good_headTable : Good headTable := by
  intro s hs
  unfold headTable
  apply Sat.bind
  apply Sat.get
  cases ht : s.tables with
  | nil => exact absurd ht hs.ne
  | cons t r => exact Sat.pure ⟨hs, Rel.refl s, trivial⟩

theorem ne_of_chainLE {ts ts' : List Table} (h : ChainLE ts ts') (hne : ts ≠ []) : ts' ≠ [] := by
  intro he; have := h.length; rw [he] at this; simp at this; exact hne (List.eq_nil_of_length_eq_zero this.symm)

/-- a modification of the table list that keeps the chain invariant and only grows the chain -/
theorem good_modTables {g : List Table → List Table}
    (hok : ∀ cs ts, ChainOK cs ts → ChainOK cs (g ts) ∧ ChainLE ts (g ts)) : Good (modTables g) := by
  intro s hs
  unfold modTables
  apply Sat.modify
  obtain ⟨h1, h2⟩ := hok _ _ hs.chain
  exact ⟨hs.of_tables (ne_of_chainLE h2 hs.ne) h1 (limsOf_le_of_chain h2 rfl) rfl rfl, Rel.of_same h2 rfl rfl, trivial⟩

/-- a modification of the head table's store (and of fields the invariant does not read) -/
theorem good_modHead {f : Table → Table}
    (hok : ∀ cs nl nf t, StoreOKx cs nl nf t.store → StoreOKx cs nl nf (f t).store)
    (hb : ∀ t, (f t).block = t.block := by intro t; simp)
    (hm : ∀ t, (f t).maxDefinition = t.maxDefinition := by intro t; simp)
    (hf : ∀ t, (f t).frees = t.frees := by intro t; simp)
    (hp : ∀ t, (f t).numParams = t.numParams := by intro t; simp) : Good (modHead f) := by
  unfold modHead
  apply good_modTables
  intro cs ts h
  cases ts with
  | nil => exact ⟨h, trivial⟩
  | cons t r =>
    exact ⟨chain_replaceHead h (hb t) (hm t) (hf t) (hp t) (hok _ _ _ t h.1), chainLE_replaceHead (hb t) (hm t) (hf t)⟩

theorem good_modify_misc {f : CState → CState} (h1 : ∀ s, (f s).tables = s.tables) (h2 : ∀ s, (f s).insts = s.insts)
    (h3 : ∀ s, (f s).loops = s.loops) (h4 : ∀ s, (f s).constants = s.constants := by intro _; rfl)
    (h6 : ∀ s, (f s).builtins = s.builtins := by intro _; rfl) :
    Good (modify f : CM Unit) := by
  intro s hs
  apply Sat.modify
  have hc : ChainLE s.tables (f s).tables := by rw [h1]; exact ChainLE.refl _
  exact ⟨hs.of_tables (by rw [h1]; exact hs.ne) (by rw [h1, h4]; exact hs.chain) (limsOf_le_of_chain hc (h4 s))
      (h2 s) (h3 s) (h4 s) (h6 s),
    Rel.of_same hc (h2 s) (h3 s) (by rw [h4]; exact CPre.refl _), trivial⟩

/-- `updateSym` with an update that keeps the symbol's scope, index, constant flag and literal
    (or any update under which the symbol stays fine) -/
theorem good_updateSym {name : String} {f : Symbol → Symbol}
    (hf : ∀ cs nl nf y, SymOKx cs nl nf y → SymOKx cs nl nf (f y)) : Good (updateSym name f) := by
  unfold updateSym
  refine good_modHead ?_ ?_ ?_ ?_ ?_
  · intro cs nl nf t ht
    split
    · rename_i sym hl
      exact putSym_okx (hf _ _ _ _ (lookupSym_okx ht hl)) ht
    · exact ht
  all_goals (intro t; split <;> rfl)

/-! ### the constant pool -/

theorem findConst_spec {cs : Array Const} {k : CVal} {i : Nat} (h : findConst cs k = some i) :
    i < cs.size ∧ ∃ v, cs[i]? = some (.val v) ∧ keyEq v k = true := by
  have hlt := findConst_lt h
  refine ⟨hlt, ?_⟩
  unfold findConst at h
  split at h
  · cases h
  · have hp := List.find?_some h
    rw [getElem!_pos cs i hlt] at hp
    split at hp
    · rename_i v hv
      refine ⟨v, by rw [Array.getElem?_eq_getElem hlt, hv], ?_⟩
      simp at hp; exact hp.2
    · cases hp

theorem findFn_spec {cs : Array Const} {f : CFn} {i : Nat} (h : findFn cs f = some i) :
    i < cs.size ∧ ∃ g, cs[i]? = some (.fn g) ∧ g.insts = f.insts := by
  have hlt := findFn_lt h
  refine ⟨hlt, ?_⟩
  unfold findFn at h
  have hp := List.find?_some h
  rw [getElem!_pos cs i hlt] at hp
  split at hp
  · rename_i g hg
    refine ⟨g, by rw [Array.getElem?_eq_getElem hlt, hg], ?_⟩
    simp at hp
    exact hp.1.2
  · cases hp

theorem inv_push_const {s : CState} (hs : Inv s) (c : Const) (hc : ∀ f, c = .fn f → FnOK (s.constants.push c) f) :
    Inv { s with constants := s.constants.push c } ∧ Rel s { s with constants := s.constants.push c } :=
  ⟨⟨hs.ne, hs.chain.mono (CPre.push _ _), hs.walk, hs.loops, hs.consts.push hc,
     hs.targets.mono ⟨CPre.push _ _, Nat.le_refl _, Nat.le_refl _⟩, hs.bok, hs.tryLt⟩,
   Rel.of_same (ChainLE.refl _) rfl rfl⟩

/-- `addConstant`: the index returned names a value constant that is `k` (or the cached equal key) -/
theorem sat_addConstant {k : CVal} {s : CState} {Q : Nat → CState → Prop} (hs : Inv s)
    (h : ∀ i s', Inv s' → Rel s s' → s'.insts = s.insts → s'.tables = s.tables →
      (∃ v, s'.constants[i]? = some (.val v) ∧ (v = k ∨ keyEq v k = true)) → Q i s') :
    Sat (addConstant k) s Q := by
  unfold addConstant
  apply Sat.bind
  apply Sat.get
  split
  · rename_i i hi
    obtain ⟨_, v, hv, hk⟩ := findConst_spec hi
    exact Sat.pure (h i s hs (Rel.refl s) rfl rfl ⟨v, hv, .inr hk⟩)
  · apply Sat.bind
    apply Sat.set
    apply Sat.pure
    obtain ⟨hi, hr⟩ := inv_push_const hs (.val k) (fun f hf => by cases hf)
    exact h _ _ hi hr rfl rfl ⟨k, by simp, .inl rfl⟩

theorem good_addConstant (k : CVal) : Good (addConstant k) :=
  fun _ hs => sat_addConstant hs fun _ _ h1 h2 _ _ _ => ⟨h1, h2, trivial⟩

/-- `addCompiledFunction`: the index returned names a function with the same instructions -/
theorem sat_addFnConstant {f : CFn} {s : CState} {Q : Nat → CState → Prop} (hs : Inv s)
    (hf : ∀ cs', CPre s.constants cs' → FnOK cs' f)
    (h : ∀ i s', Inv s' → Rel s s' → s'.insts = s.insts → s'.tables = s.tables →
      (∃ g, s'.constants[i]? = some (.fn g) ∧ g.insts = f.insts) → Q i s') :
    Sat (addFnConstant f) s Q := by
  unfold addFnConstant
  apply Sat.bind
  apply Sat.get
  split
  · rename_i i hi
    obtain ⟨_, g, hg, he⟩ := findFn_spec hi
    exact Sat.pure (h i s hs (Rel.refl s) rfl rfl ⟨g, hg, he⟩)
  · apply Sat.bind
    apply Sat.set
    apply Sat.pure
    obtain ⟨hi, hr⟩ := inv_push_const hs (.fn f) (fun g hg => by injection hg with hg; subst hg; exact hf _ (CPre.push _ _))
    exact h _ _ hi hr rfl rfl ⟨f, by simp, rfl⟩

/-- `Resolve`: the symbol found is in range for the function being compiled (in the state after the call) -/
theorem sat_resolve {name : String} {s : CState} {Q : Option Symbol → CState → Prop} (hs : Inv s)
    (h : ∀ r s', Inv s' → Rel s s' → s'.insts = s.insts → s'.constants = s.constants →
      (∀ y, r = some y → SymOKx s'.constants (fmd s'.tables) (fnf s'.tables) y) → Q r s') :
    Sat (resolve name) s Q := by
  unfold resolve
  apply Sat.bind
  apply Sat.get
  have hsp := resolveIn_chain s.constants s.builtins hs.bok (rootDisabled s.tables) name hs.chain
  cases hres : resolveIn s.builtins (rootDisabled s.tables) name s.tables with
  | mk r ts =>
    rw [hres] at hsp
    simp only at hsp ⊢
    apply Sat.bind
    apply Sat.set
    apply Sat.pure
    exact h r _ (hs.of_tables (ne_of_chainLE hsp.2.1 hs.ne) hsp.1 (limsOf_le_of_chain hsp.2.1 rfl) rfl rfl)
      (Rel.of_same hsp.2.1 rfl rfl) rfl rfl hsp.2.2

theorem good_resolve (name : String) : Good (resolve name) :=
  fun _ hs => sat_resolve hs fun _ _ h1 h2 _ _ _ => ⟨h1, h2, trivial⟩

/-! ### emit -/

theorem Rel.of_pre {s s' : CState} (h1 : s'.tables = s.tables) (h2 : Pre s.insts s'.insts)
    (h3 : s'.loops = s.loops) (h4 : s'.constants = s.constants) : Rel s s' := by
  refine ⟨by rw [h1]; exact ChainLE.refl _, h2, by rw [h3], by rw [h3], ?_, by rw [h4]; exact CPre.refl _⟩
  intro l l' h h' p; rw [h3, h] at h'; injection h' with h'; subst h'; exact ⟨.inl, .inl⟩

/-- transfer of a relation along states that agree on what the relation looks at -/
theorem Rel.transfer {a b a' b' : CState} (h : Rel a b) (hi : a.insts = a'.insts) (hl : a.loops = a'.loops)
    (hi' : b'.insts = b.insts) (hl' : b'.loops = b.loops) (ht : ChainLE a'.tables b'.tables)
    (hc : CPre a'.constants b'.constants) : Rel a' b' := by
  refine ⟨ht, by rw [← hi, hi']; exact h.pre, by rw [hl', ← hl]; exact h.llen, by rw [hl', ← hl]; exact h.ltail, ?_, hc⟩
  intro l l' h1 h2 p
  rw [← hl] at h1; rw [hl'] at h2
  have := h.lhead l l' h1 h2 p
  rw [← hi]; exact this

theorem pre_append (a : Array UInt8) (bs : List UInt8) : Pre a (a ++ bs.toArray) :=
  ⟨by simp, fun k hk => by simp [Array.getElem?_append, hk]⟩

/-- operands that are fine for every stream: a jump-class instruction is emitted with the
    placeholder 0, SETUPTRY with 0 0, and no operand is an index -/
def StaticArgs (op : Nat) (args : List Int) : Prop :=
  (isJumpOp op = true → args = [0]) ∧ (op = OpSetupTry → args = [0, 0]) ∧ PlainIdx op

theorem PlainIdx.not_closure {op : Nat} (h : PlainIdx op) : op ≠ OpClosure := by
  intro hc; have := h.2.2.2; rw [hc] at this; cases this

theorem StaticArgs.argsOK {op : Nat} {args : List Int} (h : StaticArgs op args) (L : Lims) (a : Array UInt8) :
    ArgsOK L a op args :=
  ⟨fun hj => ⟨0, by rw [h.1 hj]; rfl, .refl 0⟩, fun ht => ⟨0, 0, by rw [h.2.1 ht]; rfl, .refl 0, .refl 0⟩,
   fun i _ _ => h.2.2.opnd L i, fun hc => absurd hc h.2.2.not_closure⟩

/-- `emit`: an error (never a panic) when the operands do not fit; otherwise the new instruction
    starts at the old end of the stream, which is a boundary of the new stream -/
theorem sat_emit {pos : Pos} {op : Nat} {args : List Int} {s : CState} {Q : Nat → CState → Prop}
    (hs : Inv s) (hop : op < numOpcodes) (harg : ArgsOK (limsOf s) s.insts op args)
    (h : ∀ s', Inv s' → Rel s s' → Bd s'.insts s.insts.size → s'.tables = s.tables →
      (∃ opb, s'.insts[s.insts.size]? = some opb ∧ opb.toNat = op) →
      s'.insts.size = s.insts.size + 1 + opWidth op → s'.constants = s.constants → Q s.insts.size s') :
    Sat (emit pos op args) s Q := by
  unfold emit
  rw [if_neg (by omega)]
  cases hm : makeInstruction op args with
  | error m =>
    simp only
    split
    · exact Sat.throw_bare
    · exact Sat.throw_err
  | ok bs =>
    simp only
    have htg := TargetsOK.append_inst hs.walk hs.targets hop hm harg
    have htl := TryLt.append_inst hs.walk hs.tryLt hop hm harg
    obtain ⟨rest, hbs, hl⟩ := makeInstruction_ok hm
    subst hbs
    apply Sat.bind
    apply Sat.get
    apply Sat.bind
    apply Sat.set
    apply Sat.pure
    have hpre := pre_append s.insts (UInt8.ofNat op :: rest)
    apply h
    · exact ⟨hs.ne, hs.chain, Walk.append_inst hs.walk hop hl,
        fun l hl p hp => ⟨(hs.loops l hl p hp).1.pre hpre, (hs.loops l hl p hp).2.pre hpre⟩, hs.consts, htg, hs.bok, htl⟩
    · exact Rel.of_pre rfl hpre rfl rfl
    · exact Bd.append_inst hs.walk
    · rfl
    · refine ⟨UInt8.ofNat op, by simp [Array.getElem?_append], ?_⟩
      simp [UInt8.toNat_ofNat']
      unfold numOpcodes at hop
      omega
    · simp [hl]; omega
    · rfl

theorem good_emit {pos : Pos} {op : Nat} {args : List Int} (hop : op < numOpcodes) (ha : StaticArgs op args) :
    Good (emit pos op args) :=
  fun s hs => sat_emit hs hop (ha.argsOK _ s.insts) fun _ h1 h2 _ _ _ _ _ => ⟨h1, h2, trivial⟩

theorem good_emit_ {pos : Pos} {op : Nat} {args : List Int} (hop : op < numOpcodes) (ha : StaticArgs op args) :
    Good (emit_ pos op args) := by
  unfold emit_
  exact GoodP.bind (good_emit hop ha) fun _ _ => GoodP.pure trivial

/-- `emit_` of an instruction whose first operand is an index that is fine in the current state -/
theorem sat_emit_idx {pos : Pos} {op : Nat} {i : Int} {s : CState} (hs : Inv s) (hop : op < numOpcodes)
    (hj : isJumpOp op = false) (ht : op ≠ OpSetupTry) (hc : op ≠ OpClosure)
    (hi : ∀ n : Nat, i = (n : Int) → Opnd1OK (limsOf s) op n) :
    Sat (emit_ pos op [i]) s (fun _ s' => Inv s' ∧ Rel s s' ∧ True) := by
  unfold emit_
  apply Sat.bind
  apply sat_emit hs hop
  · refine ⟨fun c => ?_, fun c => absurd c ht, ?_, fun c => absurd c hc⟩
    · rw [hj] at c; cases c
    · intro n rest hn
      injection hn with hn _
      exact hi n hn
  · intro s' h1 h2 _ _ _ _ _
    exact Sat.pure ⟨h1, h2, trivial⟩

/-! ### sequences that patch earlier instructions -/

/-- `St s0 ps ts s`: `s` is reached from `s0`; the positions `ps` were emitted since `s0`, are
    inner boundaries of the current stream and hold a jump-class / SETUPTRY instruction; the offsets
    `ts` (values of `len(c.instructions)` read on the way, and emitted positions) are boundaries of
    the current stream -/
structure St (s0 : CState) (ps ts : List Nat) (s : CState) : Prop where
  inv : Inv s
  rel : Rel s0 s
  pend : ∀ p ∈ ps, (Bd s.insts p ∧ Jumpy s.insts p) ∧ s0.insts.size ≤ p
  tgt : ∀ t ∈ ts, Walk s.insts 0 t

theorem St.init {s : CState} (h : Inv s) : St s [] [] s :=
  ⟨h, Rel.refl s, fun _ hp => by simp at hp, fun _ hp => by simp at hp⟩

theorem St.step {s0 s s' : CState} {ps ts : List Nat} (h : St s0 ps ts s) (hi : Inv s') (hr : Rel s s') : St s0 ps ts s' :=
  ⟨hi, h.rel.trans hr, fun p hp => ⟨⟨(h.pend p hp).1.1.pre hr.pre, (h.pend p hp).1.2.pre hr.pre⟩, (h.pend p hp).2⟩,
   fun t ht => (h.tgt t ht).pre hr.pre⟩

theorem St.weaken {s0 s : CState} {ps ts ps' ts' : List Nat} (h : St s0 ps ts s) (hsub : ∀ p ∈ ps', p ∈ ps)
    (hsub' : ∀ t ∈ ts', t ∈ ts) : St s0 ps' ts' s :=
  ⟨h.inv, h.rel, fun p hp => h.pend p (hsub p hp), fun t ht => h.tgt t (hsub' t ht)⟩

theorem st_good_bind {α β} {P : α → Prop} {m : CM α} {f : α → CM β} {s0 s : CState} {ps ts : List Nat}
    {Q : β → CState → Prop} (hm : GoodP P m) (hst : St s0 ps ts s)
    (h : ∀ a s', P a → St s0 ps ts s' → Sat (f a) s' Q) : Sat (m >>= f) s Q := by
  apply Sat.bind
  apply Sat.mono (hm s hst.inv)
  intro a s' ⟨h1, h2, h3⟩
  exact h a s' h3 (hst.step h1 h2)

/-- `st_good_bind` that also tells that the stream did not shrink -/
theorem st_good_bind_sz {α β} {P : α → Prop} {m : CM α} {f : α → CM β} {s0 s : CState} {ps ts : List Nat}
    {Q : β → CState → Prop} (hm : GoodP P m) (hst : St s0 ps ts s)
    (h : ∀ a s', P a → St s0 ps ts s' → s.insts.size ≤ s'.insts.size → Sat (f a) s' Q) : Sat (m >>= f) s Q := by
  apply Sat.bind
  apply Sat.mono (hm s hst.inv)
  intro a s' ⟨h1, h2, h3⟩
  exact h a s' h3 (hst.step h1 h2) h2.pre.1

/-- reading `len(c.instructions)`: the value is a boundary from now on -/
theorem st_curPos_bind {β} {f : Nat → CM β} {s0 s : CState} {ps ts : List Nat} {Q : β → CState → Prop}
    (hst : St s0 ps ts s) (h : St s0 ps (s.insts.size :: ts) s → Sat (f s.insts.size) s Q) :
    Sat (curPos >>= f) s Q := by
  apply Sat.bind
  unfold curPos
  apply Sat.bind
  apply Sat.get
  apply Sat.pure
  apply h
  refine ⟨hst.inv, hst.rel, hst.pend, ?_⟩
  intro t ht
  simp at ht
  rcases ht with ht | ht
  · subst ht; exact hst.inv.walk
  · exact hst.tgt t ht

/-- the arguments of an instruction are tracked boundaries (or 0) -/
def ArgsIn (ts : List Nat) (args : List Int) : Prop := ∀ x ∈ args, ∃ t : Nat, x = (t : Int) ∧ (t = 0 ∨ t ∈ ts)

theorem ArgsIn.argsOK {ts : List Nat} {args : List Int} {a : Array UInt8} {op : Nat} {nc : Lims} (h : ArgsIn ts args)
    (hts : ∀ t ∈ ts, Walk a 0 t) (hlen : (operandWidths op).length = args.length)
    (hj : isJumpOp op = true ∨ op = OpSetupTry) : ArgsOK nc a op args := by
  have hw : ∀ x ∈ args, ∃ t : Nat, x = (t : Int) ∧ Walk a 0 t := by
    intro x hx
    obtain ⟨t, ht, h0⟩ := h x hx
    refine ⟨t, ht, ?_⟩
    rcases h0 with h0 | h0
    · subst h0; exact .refl 0
    · exact hts t h0
  refine ⟨?_, ?_, fun i _ _ => (jumpy_plain hj).opnd nc i, fun hc => absurd hc (jumpy_plain hj).not_closure⟩
  · intro hj
    rw [isJumpOp_widths hj] at hlen
    match args, hlen, hw with
    | [x], _, hw =>
      obtain ⟨t, ht, hwt⟩ := hw x (by simp)
      exact ⟨t, by rw [ht], hwt⟩
  · intro ht
    subst ht
    have : operandWidths OpSetupTry = [4, 4] := rfl
    rw [this] at hlen
    match args, hlen, hw with
    | [x, y], _, hw =>
      obtain ⟨t1, ht1, hw1⟩ := hw x (by simp)
      obtain ⟨t2, ht2, hw2⟩ := hw y (by simp)
      exact ⟨t1, t2, by rw [ht1, ht2], hw1, hw2⟩

/-- `emit` of an instruction whose position is only used as a jump *target* (and of any
    instruction whose position is not used): the position becomes a tracked boundary -/
theorem st_emit_tgt_bind {β} {pos : Pos} {op : Nat} {args : List Int} {f : Nat → CM β} {s0 s : CState} {ps ts : List Nat}
    {Q : β → CState → Prop} (hst : St s0 ps ts s) (hop : op < numOpcodes)
    (ha : StaticArgs op args ∨ (ArgsIn ts args ∧ (isJumpOp op = true ∨ op = OpSetupTry)))
    (h : ∀ s', St s0 ps (s.insts.size :: ts) s' → (Bd s'.insts s.insts.size ∧
      ∃ opb, s'.insts[s.insts.size]? = some opb ∧ opb.toNat = op) → Sat (f s.insts.size) s' Q) :
    Sat (emit pos op args >>= f) s Q := by
  apply Sat.bind
  by_cases hm : ∃ bs, makeInstruction op args = .ok bs
  · obtain ⟨bs, hm⟩ := hm
    have harg : ArgsOK (limsOf s) s.insts op args := by
      rcases ha with ha | ha
      · exact ha.argsOK _ _
      · exact ha.1.argsOK hst.tgt (makeInstruction_len hm) ha.2
    apply sat_emit hst.inv hop harg
    intro s' h1 h2 h3 _ h5 _ _
    have h4 := hst.step h1 h2
    apply h
    · refine ⟨h4.inv, h4.rel, h4.pend, ?_⟩
      intro t ht
      simp at ht
      rcases ht with ht | ht
      · subst ht; exact h3.1
      · exact h4.tgt t ht
    · exact ⟨h3, h5⟩
  · -- the operands do not fit: an error
    unfold emit
    rw [if_neg (by omega)]
    cases hm' : makeInstruction op args with
    | ok bs => exact absurd ⟨bs, hm'⟩ hm
    | error m =>
      simp only
      split
      · exact Sat.throw_bare
      · exact Sat.throw_err

/-- `emit` of a jump-class / SETUPTRY instruction that is patched later: its position is pending -/
theorem st_emit_bind {β} {pos : Pos} {op : Nat} {args : List Int} {f : Nat → CM β} {s0 s : CState} {ps ts : List Nat}
    {Q : β → CState → Prop} (hst : St s0 ps ts s) (hop : op < numOpcodes) (hj : isJumpOp op = true ∨ op = OpSetupTry)
    (ha : StaticArgs op args ∨ ArgsIn ts args)
    (h : ∀ s', St s0 (s.insts.size :: ps) (s.insts.size :: ts) s' → Sat (f s.insts.size) s' Q) :
    Sat (emit pos op args >>= f) s Q := by
  apply st_emit_tgt_bind hst hop (ha.imp id fun h => ⟨h, hj⟩)
  intro s' hst' ⟨hbd, opb, hget, hopb⟩
  apply h
  refine ⟨hst'.inv, hst'.rel, ?_, hst'.tgt⟩
  intro p hp
  simp at hp
  rcases hp with hp | hp
  · subst hp
    exact ⟨⟨hbd, opb, hget, by rw [hopb]; exact hj⟩, hst.rel.pre.1⟩
  · exact hst'.pend p hp

theorem st_emit__bind {β} {pos : Pos} {op : Nat} {args : List Int} {f : Unit → CM β} {s0 s : CState} {ps ts : List Nat}
    {Q : β → CState → Prop} (hst : St s0 ps ts s) (hop : op < numOpcodes)
    (ha : StaticArgs op args ∨ (ArgsIn ts args ∧ (isJumpOp op = true ∨ op = OpSetupTry)))
    (h : ∀ s', St s0 ps ts s' → Sat (f ()) s' Q) : Sat (emit_ pos op args >>= f) s Q := by
  unfold emit_
  rw [bind_assoc]
  apply st_emit_tgt_bind hst hop ha
  intro s' hst' _
  rw [pure_bind]
  exact h s' (hst'.weaken (fun p hp => hp) (fun t ht => by simp [ht]))

/-- `st_emit__bind` that also tells that the stream grew -/
theorem st_emit__bind_sz {β} {pos : Pos} {op : Nat} {args : List Int} {f : Unit → CM β} {s0 s : CState} {ps ts : List Nat}
    {Q : β → CState → Prop} (hst : St s0 ps ts s) (hop : op < numOpcodes)
    (ha : StaticArgs op args ∨ (ArgsIn ts args ∧ (isJumpOp op = true ∨ op = OpSetupTry)))
    (h : ∀ s', St s0 ps ts s' → s.insts.size < s'.insts.size → Sat (f ()) s' Q) : Sat (emit_ pos op args >>= f) s Q := by
  unfold emit_
  rw [bind_assoc]
  apply st_emit_tgt_bind hst hop ha
  intro s' hst' hb
  rw [pure_bind]
  exact h s' (hst'.weaken (fun p hp => hp) (fun t ht => by simp [ht])) hb.1.2

theorem Bd.op {a : Array UInt8} {p : Nat} (h : Bd a p) (hw : Walk a 0 a.size) :
    ∃ op, a[p]? = some op ∧ op.toNat < numOpcodes := by
  rcases h.1.comparable hw with h' | h'
  · cases h' with
    | refl => exact absurd h.2 (Nat.lt_irrefl _)
    | step op h1 h2 h3 h4 => exact ⟨op, h1, h2⟩
  · have := h'.le; have := h.2; omega

/-- `changeOperand` at a pending position with tracked boundaries as operands: an error when an
    operand does not fit, never a panic.  `hstrict`: two operands (only SETUPTRY takes two) are
    strictly below the current length of the stream; void for the one operand of a jump. -/
theorem st_changeOperand {p : Nat} {args : List Int} {s0 s : CState} {ps ts : List Nat} {Q : Unit → CState → Prop}
    (hst : St s0 ps ts s) (hp : p ∈ ps) (hargs : ArgsIn ts args) (h : ∀ s', St s0 ps ts s' → Q () s')
    (hstrict : ∀ t1 t2 : Nat, args = [(t1 : Int), (t2 : Int)] → t1 < s.insts.size ∧ t2 < s.insts.size := by
      intro _ _ h; simp at h) :
    Sat (changeOperand p args) s Q := by
  unfold changeOperand
  apply Sat.bind
  apply Sat.get
  obtain ⟨⟨hbd, hjy⟩, hge⟩ := hst.pend p hp
  obtain ⟨op, hop, hlt⟩ := hbd.op hst.inv.walk
  have hjop : isJumpOp op.toNat = true ∨ op.toNat = OpSetupTry := by
    obtain ⟨op', h1, h2⟩ := hjy
    rw [hop] at h1; injection h1 with h1; subst h1; exact h2
  simp only [hop]
  rw [if_neg (by omega)]
  cases hm : makeInstruction op.toNat args with
  | error m => exact Sat.throw_bare
  | ok bs =>
    simp only
    have haok := hargs.argsOK (nc := limsOf s) hst.tgt (makeInstruction_len hm) hjop
    have htg := TargetsOK.patch_inst hst.inv.walk hst.inv.targets hbd.1 hop hm haok
    have htl := TryLt.patch_inst hst.inv.walk hst.inv.tryLt hbd.1 hop hm (fun htry => by
      obtain ⟨t1, t2, ha, _, _⟩ := haok.2.1 htry
      exact ⟨t1, t2, ha, hstrict t1 t2 ha⟩)
    obtain ⟨rest, hbs, hl⟩ := makeInstruction_ok hm
    subst hbs
    have hofn : UInt8.ofNat op.toNat = op := by simp
    rw [hofn] at htg htl ⊢
    apply Sat.set
    apply h
    have hwalk : ∀ j, Walk s.insts 0 j → Walk (patch s.insts p (op :: rest)) 0 j :=
      fun j hj => Walk.patch_inst hj hbd.1 hop hl
    have hbd' : ∀ q, Bd s.insts q ∧ Jumpy s.insts q → Bd (patch s.insts p (op :: rest)) q ∧ Jumpy (patch s.insts p (op :: rest)) q := by
      intro q ⟨hq, ⟨oq, hoq, hjq⟩⟩
      exact ⟨⟨hwalk q hq.1, by rw [size_patch]; exact hq.2⟩,
        oq, by rw [Walk.patch_get hq.1 hbd.1 hop hl]; exact hoq, hjq⟩
    refine ⟨⟨hst.inv.ne, hst.inv.chain, ?_, fun l hl q hq => hbd' q (hst.inv.loops l hl q hq), hst.inv.consts, htg,
      hst.inv.bok, htl⟩, ?_, ?_, ?_⟩
    · have := hwalk _ hst.inv.walk
      simpa [size_patch] using this
    · refine ⟨hst.rel.chain, Pre.patch hst.rel.pre hge, hst.rel.llen, hst.rel.ltail, hst.rel.lhead, hst.rel.cpre⟩
    · intro q hq
      exact ⟨hbd' q (hst.pend q hq).1, (hst.pend q hq).2⟩
    · intro t ht
      exact hwalk t (hst.tgt t ht)

theorem st_changeOperand_bind {β} {p : Nat} {args : List Int} {f : Unit → CM β} {s0 s : CState} {ps ts : List Nat}
    {Q : β → CState → Prop} (hst : St s0 ps ts s) (hp : p ∈ ps) (hargs : ArgsIn ts args)
    (h : ∀ s', St s0 ps ts s' → Sat (f ()) s' Q)
    (hstrict : ∀ t1 t2 : Nat, args = [(t1 : Int), (t2 : Int)] → t1 < s.insts.size ∧ t2 < s.insts.size := by
      intro _ _ h; simp at h) : Sat (changeOperand p args >>= f) s Q :=
  Sat.bind (st_changeOperand hst hp hargs h hstrict)

theorem argsIn_one {ts : List Nat} {t : Nat} (h : t = 0 ∨ t ∈ ts) : ArgsIn ts [(t : Int)] := by
  intro x hx
  simp at hx
  exact ⟨t, hx, h⟩

theorem argsIn_two {ts : List Nat} {t1 t2 : Nat} (h1 : t1 = 0 ∨ t1 ∈ ts) (h2 : t2 = 0 ∨ t2 ∈ ts) :
    ArgsIn ts [(t1 : Int), (t2 : Int)] := by
  intro x hx
  simp at hx
  rcases hx with hx | hx
  · exact ⟨t1, hx, h1⟩
  · exact ⟨t2, hx, h2⟩

theorem st_patchAll {target : Nat} : ∀ {l : List Nat} {s0 s : CState} {ps ts : List Nat} {Q : Unit → CState → Prop},
    St s0 ps ts s → (∀ p ∈ l, p ∈ ps) → target ∈ ts → (∀ s', St s0 ps ts s' → Q () s') → Sat (patchAll target l) s Q
  | [], _, _, _, _, _, hst, _, _, h => Sat.pure (h _ hst)
  | p :: r, _, _, _, _, _, hst, hsub, ht, h => by
    simp only [patchAll]
    apply st_changeOperand_bind hst (hsub p (by simp)) (argsIn_one (.inr ht))
    intro s' hst'
    exact st_patchAll hst' (fun q hq => hsub q (by simp [hq])) ht h

theorem st_patchAll_bind {β} {target : Nat} {l : List Nat} {f : Unit → CM β} {s0 s : CState} {ps ts : List Nat}
    {Q : β → CState → Prop} (hst : St s0 ps ts s) (hsub : ∀ p ∈ l, p ∈ ps) (ht : target ∈ ts)
    (h : ∀ s', St s0 ps ts s' → Sat (f ()) s' Q) : Sat (patchAll target l >>= f) s Q :=
  Sat.bind (st_patchAll hst hsub ht h)

end UgoVerif.Compile
