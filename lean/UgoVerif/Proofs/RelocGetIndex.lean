import UgoVerif.Proofs.RelocOps
/-
  Relocation relation: `OpGetIndex` (a loop with an early `return` out of the opcode function).
-/
set_option linter.unusedVariables false
set_option linter.unusedSimpArgs false
namespace UgoVerif.VM.Reloc
open UgoVerif UgoVerif.Go UgoVerif.VM

/-! ### more rules for `RelQ` -/

namespace RelQ
variable {A A' E : State → State → Prop}

/-- what a `RelQ` triple says about two runs (`RelQ` is irreducible) -/
theorem runG {α β} {Q : α → β → State → State → Prop} {m₁ : M α} {m₂ : M β} (h : RelQ A Q E m₁ m₂) :
    ∀ s t, A s t →
      match exec m₁ s, exec m₂ t with
      | (.ok a, s'), (.ok b, t') => Q a b s' t'
      | (.error e, s'), (.error e', t') => e = e' ∧ E s' t'
      | _, _ => False := by
  unfold RelQ at h; exact h

/-- a state-independent part of the precondition may be used to build the triple -/
theorem pre_and {α β} {p : Prop} {Q : α → β → State → State → Prop} {m₁ : M α} {m₂ : M β}
    (h : p → RelQ A Q E m₁ m₂) : RelQ (fun s t => p ∧ A s t) Q E m₁ m₂ :=
  RelQ.mk' (fun s t hA => (h hA.1).runG s t hA.2)

theorem or_pre {α β} {Q : α → β → State → State → Prop} {m₁ : M α} {m₂ : M β}
    (h : RelQ A Q E m₁ m₂) (h' : RelQ A' Q E m₁ m₂) : RelQ (fun s t => A s t ∨ A' s t) Q E m₁ m₂ :=
  RelQ.mk' (fun s t hA => hA.elim (h.runG s t) (h'.runG s t))

/-- a loop that may be left early: `Inv` holds as long as the body yields, `D` once it is done -/
theorem forIn_list {α β} (l : List α) (f : α → β → M (ForInStep β))
    (Inv D : β → State → State → Prop)
    (hf : ∀ a b, RelQ (Inv b)
      (fun x y s t => x = y ∧ match x with | .yield b' => Inv b' s t | .done b' => D b' s t) E (f a b) (f a b)) :
    ∀ init, RelQ (Inv init) (fun x y s t => x = y ∧ (Inv x s t ∨ D x s t)) E (forIn l init f) (forIn l init f) := by
  induction l with
  | nil => intro init; exact RelQ.pure (fun s t h => ⟨rfl, Or.inl h⟩)
  | cons a as ih =>
    intro init
    rw [List.forIn_cons]
    refine RelQ.bindQ (hf a init) ?_
    intro x y
    refine RelQ.pre_and ?_
    intro hxy
    subst hxy
    cases x with
    | done b => exact RelQ.pure (fun s t h => ⟨rfl, Or.inr h⟩)
    | yield b => exact ih b

theorem forIn_range {β} (r : Std.Legacy.Range) (f : Nat → β → M (ForInStep β))
    (Inv D : β → State → State → Prop)
    (hf : ∀ a b, RelQ (Inv b)
      (fun x y s t => x = y ∧ match x with | .yield b' => Inv b' s t | .done b' => D b' s t) E (f a b) (f a b))
    (init : β) :
    RelQ (Inv init) (fun x y s t => x = y ∧ (Inv x s t ∨ D x s t)) E (forIn r init f) (forIn r init f) := by
  rw [Std.Legacy.Range.forIn_eq_forIn_range']
  exact forIn_list _ _ Inv D hf init

end RelQ

/-! ### `OpGetIndex` -/

theorem rel_execGetIndex {P : Params} {ci : Nat → Nat} {c o : Nat}
    (hcr : CodeRel P.wide (P.Φ c) (P.BB c) (P.cs[c]!).insts (P.ct[c]!).insts) (hB : P.BB c o) (hfail : FailOK P)
    (hop : (((P.cs[c]!).insts)[o]!).toNat = OpGetIndex) : OpRel P ci c o execGetIndex execGetIndex := by
  obtain ⟨hw, hnext⟩ := plain_facts hcr hB _ hop (by decide) (by decide) 1 (by decide)
  unfold execGetIndex
  apply RelQ.bindEq; focus rlo_act
  intro n; dsimp only
  apply RelQ.bindEq; focus rlo_act
  intro sp
  apply RelQ.bindEq; focus rlo_act
  intro target
  refine RelQ.bindQ
    (RelQ.forIn_range _ _
      (fun b s t => b.1 = none ∧ R P ci c (Iat P c o) s t)
      (fun b s t => ∃ ctl, b.1 = some ctl ∧ RM P s t ∧ (ctl = .next → RB P s t)) ?_ _
      |>.pre (fun s t h => ⟨rfl, h⟩)) ?_
  · -- the loop body
    intro k b
    refine RelQ.pre_and ?_
    intro hb
    apply RelQ.bindEq; focus rlo_act
    intro index
    apply RelQ.bindEq; focus rlo_act
    intro _
    apply RelQ.bindEq; focus rlo_act
    intro r
    cases r with
    | error e =>
      dsimp only
      apply RelQ.bindEq; focus rlo_act
      intro e'
      refine RelQ.bindQ ((hfail e').pre (fun _ _ h => R.toRM h)) ?_
      intro x y
      exact RelQ.pure (fun s t h => ⟨by rw [h.1], x, rfl, h.2⟩)
    | ok v =>
      exact RelQ.pure (fun s t h => ⟨rfl, rfl, h⟩)
  · -- behind the loop
    intro x y
    refine RelQ.pre_and ?_
    intro hxy
    subst hxy
    refine RelQ.or_pre (RelQ.pre_and ?_) ?_
    · intro hx
      rw [hx]
      dsimp only
      rlo
    · apply RelQ.mk'
      rintro s t ⟨ctl, hx, h⟩
      rw [hx]
      exact ⟨rfl, h⟩

end UgoVerif.VM.Reloc
