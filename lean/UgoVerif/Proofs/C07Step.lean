import UgoVerif.Proofs.VMLiveRun
import Lean.Elab.Tactic
/-
  `step_live`: every action of the VM model gives the same result on two states that
  differ only in dead frame data (frames above the current one, the saved `ip` of the
  current frame) and in the recorded trace — the situation after `Clear`/`SetBytecode`,
  where the stacks agree completely.

  `Live m`: running `m` on `s` and on `s` with its frames replaced by a `FR`-related array
  gives the same result, the same non-frame state and again `FR`-related frames.
-/
namespace UgoVerif.VM
open UgoVerif UgoVerif.Go

/-- frames `fr` agree with the frames of `s` on everything live -/
structure FR (s : State) (fr : Array Frame) : Prop where
  size : fr.size = s.frames.size
  cur : FrameLive (s.frames[s.curFrame]!) (fr[s.curFrame]!)
  below : ∀ i : Nat, (i : Int) + 2 ≤ s.frameIndex → s.frames[i]! = fr[i]!
  link : (s.curFrame : Int) + 1 = s.frameIndex
  shape : s.frames.size = frameSize
  curLt : s.curFrame < frameSize

/-- `s` with other frames and another recorded trace -/
def wf (s : State) (fr : Array Frame) (tr : Array (Int × Int × Int × Nat × Nat)) : State :=
  { s with frames := fr, trace := tr }

def Live {α} (m : M α) : Prop :=
  ∀ s fr tr, FR s fr → ∃ fr' tr', exec m (wf s fr tr) = ((exec m s).1, wf (exec m s).2 fr' tr') ∧ FR (exec m s).2 fr'

theorem FrameLive.eq_with {a b : Frame} (h : FrameLive a b) : b = { a with ip := b.ip } := by
  cases a; cases b; cases h; simp_all

namespace Live

theorem pure {α} (a : α) : Live (Pure.pure a : M α) := fun _ fr tr h => ⟨fr, tr, rfl, h⟩
theorem panic {α} (m : String) : Live (VM.panic m : M α) := fun _ fr tr h => ⟨fr, tr, rfl, h⟩
theorem unsupported {α} (m : String) : Live (VM.unsupported m : M α) := fun _ fr tr h => ⟨fr, tr, rfl, h⟩
theorem throw {α} (e : Exc) : Live (MonadExcept.throw e : M α) := fun _ fr tr h => ⟨fr, tr, rfl, h⟩

theorem bind {α β} {m : M α} {f : α → M β} (hm : Live m) (hf : ∀ a, Live (f a)) : Live (m >>= f) := by
  intro s fr tr h
  obtain ⟨fr1, tr1, e1, h1⟩ := hm s fr tr h
  rw [exec_bind, exec_bind, e1]
  rcases hx : exec m s with ⟨r, s1⟩
  rw [hx] at h1
  cases r with
  | error e => exact ⟨fr1, tr1, rfl, h1⟩
  | ok a => exact hf a s1 fr1 tr1 h1

/-- a state update that neither reads nor writes frames, trace, `curFrame`, `frameIndex` -/
theorem modS {g : State → State} (h1 : ∀ s fr tr, g (wf s fr tr) = wf (g s) fr tr)
    (h2 : ∀ s, (g s).frames = s.frames ∧ (g s).curFrame = s.curFrame ∧ (g s).frameIndex = s.frameIndex) :
    Live (VM.modS g) := by
  intro s fr tr h
  refine ⟨fr, tr, ?_, ?_⟩
  · show ((Except.ok (), g (wf s fr tr)) : Except Exc Unit × State) = _
    rw [h1]; rfl
  · show FR (g s) fr
    obtain ⟨e1, e2, e3⟩ := h2 s
    exact ⟨by rw [e1]; exact h.size, by rw [e1, e2]; exact h.cur, by rw [e1, e3]; exact h.below, by rw [e2, e3]; exact h.link,
      by rw [e1]; exact h.shape, by rw [e2]; exact h.curLt⟩

/-- reading the state and using only fields that are not frames/trace -/
theorem getS_bind {β} {f : State → M β} (h1 : ∀ s fr tr, f (wf s fr tr) = f s) (h2 : ∀ s0, Live (f s0)) :
    Live (VM.getS >>= f) := by
  intro s fr tr h
  rw [exec_bind, exec_bind, exec_getS, exec_getS]
  show ∃ fr' tr', exec (f (wf s fr tr)) (wf s fr tr) = _ ∧ _
  rw [h1]
  exact h2 s s fr tr h

theorem getS_map {β} {g : State → β} (h1 : ∀ s fr tr, g (wf s fr tr) = g s) : Live (g <$> VM.getS) := by
  intro s fr tr h
  refine ⟨fr, tr, ?_, h⟩
  rw [exec_map, exec_map, exec_getS, exec_getS]
  show ((Except.ok (g (wf s fr tr)), wf s fr tr) : Except Exc β × State) = _
  rw [h1]

theorem exec_curFrame (s : State) : exec VM.curFrame s = (.ok (s.frames[s.curFrame]!), s) := rfl

/-- reading the current frame and using everything but its saved `ip` -/
theorem curFrame_bind {β} {f : Frame → M β} (h1 : ∀ a ip, f { a with ip := ip } = f a) (h2 : ∀ a, Live (f a)) :
    Live (VM.curFrame >>= f) := by
  intro s fr tr h
  rw [exec_bind, exec_bind, exec_curFrame, exec_curFrame]
  show ∃ fr' tr', exec (f (fr[s.curFrame]!)) (wf s fr tr) = _ ∧ _
  rw [h.cur.eq_with, h1]
  exact h2 _ s fr tr h

theorem curFrame_map {β} {g : Frame → β} (h1 : ∀ a ip, g { a with ip := ip } = g a) : Live (g <$> VM.curFrame) := by
  intro s fr tr h
  refine ⟨fr, tr, ?_, h⟩
  rw [exec_map, exec_map, exec_curFrame, exec_curFrame]
  show ((Except.ok (g (fr[s.curFrame]!)), wf s fr tr) : Except Exc β × State) = _
  rw [h.cur.eq_with, h1]

theorem exec_setCurFrame (g : Frame → Frame) (s : State) :
    exec (VM.setCurFrame g) s = (.ok (), { s with frames := s.frames.modify s.curFrame g }) := rfl

/-- updating the current frame by a function that respects `FrameLive` -/
theorem setCurFrame {g : Frame → Frame} (hg : ∀ a b, FrameLive a b → FrameLive (g a) (g b)) :
    Live (VM.setCurFrame g) := by
  intro s fr tr h
  refine ⟨fr.modify s.curFrame g, tr, rfl, ?_⟩
  rw [exec_setCurFrame]
  refine ⟨by simp [h.size], ?_, ?_, h.link, by simp [h.shape], h.curLt⟩
  · show FrameLive ((s.frames.modify s.curFrame g)[s.curFrame]!) ((fr.modify s.curFrame g)[s.curFrame]!)
    rw [getElem!_modify, getElem!_modify, h.size]
    by_cases hc : s.curFrame < s.frames.size
    · simp only [hc, and_self, if_true]; exact hg _ _ h.cur
    · simp only [hc, and_false, if_false]; exact h.cur
  · intro i hi
    have hi' : (i : Int) + 2 ≤ s.frameIndex := hi
    show (s.frames.modify s.curFrame g)[i]! = (fr.modify s.curFrame g)[i]!
    rw [getElem!_modify, getElem!_modify]
    have hne : ¬ (s.curFrame = i) := by
      intro e; have := h.link; subst e; omega
    simp only [hne, false_and, if_false]
    exact h.below i hi'

theorem ite {α} {c : Prop} [Decidable c] {a b : M α} (ha : Live a) (hb : Live b) : Live (if c then a else b) := by
  split <;> assumption

theorem forIn_list {α β} (l : List α) (init : β) (f : α → β → M (ForInStep β))
    (hf : ∀ a b, Live (f a b)) : Live (forIn l init f) := by
  induction l generalizing init with
  | nil => exact Live.pure _
  | cons a as ih =>
    rw [List.forIn_cons]
    refine Live.bind (hf a init) ?_
    intro x
    cases x with
    | done b => exact Live.pure _
    | yield b => exact ih b

theorem forIn_range {β} (r : Std.Legacy.Range) (init : β) (f : Nat → β → M (ForInStep β))
    (hf : ∀ a b, Live (f a b)) : Live (forIn r init f) := by
  rw [Std.Legacy.Range.forIn_eq_forIn_range']
  exact forIn_list _ _ _ hf

/-- a frame update that commutes with changing the saved `ip` respects `FrameLive` -/
theorem setCurFrame' {g : Frame → Frame} (hg : ∀ a ip, ∃ ip', g { a with ip := ip } = { g a with ip := ip' }) :
    Live (VM.setCurFrame g) := by
  apply Live.setCurFrame
  intro a b h
  rw [h.eq_with]
  obtain ⟨ip', e⟩ := hg a b.ip
  rw [e]
  exact ⟨rfl, rfl, rfl, rfl, rfl⟩

theorem intro' {α} {m : M α}
    (h : ∀ s fr tr, FR s fr → ∃ fr' tr', exec m (wf s fr tr) = ((exec m s).1, wf (exec m s).2 fr' tr') ∧ FR (exec m s).2 fr') :
    Live m := h

theorem elim {α} {m : M α} (h : Live m) (s : State) (fr : Array Frame) (tr) (hfr : FR s fr) :
    ∃ fr' tr', exec m (wf s fr tr) = ((exec m s).1, wf (exec m s).2 fr' tr') ∧ FR (exec m s).2 fr' := h s fr tr hfr

end Live
attribute [irreducible] Live

/-- closes the goal with a local hypothesis `∀ …, Live (f …)` (join points, induction hypotheses) -/
elab "live_hyp" : tactic => do
  let g ← Lean.Elab.Tactic.getMainGoal
  g.withContext do
    for d in (← Lean.getLCtx) do
      if d.isImplementationDetail then continue
      let ok ← Lean.commitWhen do
        try
          let gs ← Lean.Meta.withReducible (g.apply d.toExpr)
          pure gs.isEmpty
        catch _ => pure false
      if ok then
        Lean.Elab.Tactic.replaceMainGoal []
        return
    throwError "live_hyp: no hypothesis applies"

syntax "live_prim" : tactic
macro_rules | `(tactic| live_prim) => `(tactic| exact Live.pure _)
macro_rules | `(tactic| live_prim) => `(tactic| exact Live.panic _)
macro_rules | `(tactic| live_prim) => `(tactic| exact Live.unsupported _)
macro_rules | `(tactic| live_prim) => `(tactic| exact Live.throw _)
macro_rules | `(tactic| live_prim) => `(tactic| live_hyp)

/-- side condition of `Live.setCurFrame'` -/
macro "live_frame" : tactic => `(tactic|
  first
  | exact fun _ ip => ⟨ip, rfl⟩
  | exact fun _ _ => ⟨_, rfl⟩
  | (intro a ip; refine ⟨ip, ?_⟩; simp only [setLast, popHandler]; split <;> rfl))

syntax "live" : tactic
macro_rules | `(tactic| live) => `(tactic|
  repeat (first
    | with_reducible live_prim
    | ((with_reducible apply Live.getS_bind); (intro _ _ _; rfl))
    | ((with_reducible apply Live.getS_map); (intro _ _ _; rfl))
    | ((with_reducible apply Live.curFrame_bind); (intro _ _; rfl))
    | ((with_reducible apply Live.curFrame_map); (intro _ _; rfl))
    | ((with_reducible refine Live.modS ?_ ?_); (intro _ _ _; rfl); (intro _; exact ⟨rfl, rfl, rfl⟩))
    | ((with_reducible apply Live.setCurFrame'); live_frame)
    | with_reducible apply Live.bind
    | with_reducible apply Live.ite
    | with_reducible apply Live.forIn_range
    | with_reducible apply Live.forIn_list
    | ((first | lift_lets | skip); intro jp__;
       first
       | (have hjp__ : Live jp__ := by
            (dsimp only [jp__]; live)
          clear_value jp__)
       | (have hjp__ : ∀ a__, Live (jp__ a__) := by
            (intro a__; dsimp only [jp__]; live)
          clear_value jp__)
       | (have hjp__ : ∀ a__ b__, Live (jp__ a__ b__) := by
            (intro a__ b__; dsimp only [jp__]; live)
          clear_value jp__)
       | (have hjp__ : ∀ a__ b__ c__, Live (jp__ a__ b__ c__) := by
            (intro a__ b__ c__; dsimp only [jp__]; live)
          clear_value jp__)
       | clear_value jp__)
    | intro _
    | split
    | dsimp only))


theorem live_stackGet (i : Int) : Live (stackGet i) := by unfold stackGet; live
macro_rules | `(tactic| live_prim) => `(tactic| exact live_stackGet _)
theorem live_stackSet (i : Int) (v : V) : Live (stackSet i v) := by unfold stackSet; live
macro_rules | `(tactic| live_prim) => `(tactic| exact live_stackSet _ _)
theorem live_getSp : Live getSp := by unfold getSp; live
macro_rules | `(tactic| live_prim) => `(tactic| exact live_getSp)
theorem live_setSp (v : Int) : Live (setSp v) := by unfold setSp; live
macro_rules | `(tactic| live_prim) => `(tactic| exact live_setSp _)
theorem live_getIp : Live getIp := by unfold getIp; live
macro_rules | `(tactic| live_prim) => `(tactic| exact live_getIp)
theorem live_setIp (v : Int) : Live (setIp v) := by unfold setIp; live
macro_rules | `(tactic| live_prim) => `(tactic| exact live_setIp _)
theorem live_heapGet (a : Addr) : Live (heapGet a) := by unfold heapGet; live
macro_rules | `(tactic| live_prim) => `(tactic| exact live_heapGet _)
theorem live_heapSet (a : Addr) (c : Cell) : Live (heapSet a c) := by unfold heapSet; live
macro_rules | `(tactic| live_prim) => `(tactic| exact live_heapSet _ _)
theorem live_heapUpd (a : Addr) (c : Cell) : Live (heapUpd a c) := by unfold heapUpd; live
macro_rules | `(tactic| live_prim) => `(tactic| exact live_heapUpd _ _)
theorem live_boxSet (a : Addr) (v : V) : Live (boxSet a v) := by unfold boxSet; live
macro_rules | `(tactic| live_prim) => `(tactic| exact live_boxSet _ _)
theorem live_curCode : Live curCode := by unfold curCode; live
macro_rules | `(tactic| live_prim) => `(tactic| exact live_curCode)
theorem live_instAt (i : Int) : Live (instAt i) := by unfold instAt; live
macro_rules | `(tactic| live_prim) => `(tactic| exact live_instAt _)

theorem live_alloc (c : Cell) : Live (alloc c) := by
  apply Live.intro'; intro s fr tr h
  exact ⟨fr, tr, rfl, ⟨h.size, h.cur, h.below, h.link, h.shape, h.curLt⟩⟩
macro_rules | `(tactic| live_prim) => `(tactic| exact live_alloc _)

theorem exec_copyV (v : V) (s : State) :
    exec (copyV v) s = match copyVal (s.heap.size + 2) s.heap v with
      | some (v', h') => (.ok v', { s with heap := h' })
      | none => (.error (.unsupported "Copy() of a value outside the modelled subset (host object, dangling or cyclic value)"), s) := by
  simp only [copyV, exec_bind, exec_getS]
  cases copyVal (s.heap.size + 2) s.heap v with
  | none => rfl
  | some p => rfl

theorem live_copyV (v : V) : Live (copyV v) := by
  apply Live.intro'; intro s fr tr h
  rw [exec_copyV, exec_copyV]
  have e : (wf s fr tr).heap = s.heap := rfl
  rw [e]
  cases copyVal (s.heap.size + 2) s.heap v with
  | none => exact ⟨fr, tr, rfl, h⟩
  | some p => exact ⟨fr, tr, rfl, ⟨h.size, h.cur, h.below, h.link, h.shape, h.curLt⟩⟩
macro_rules | `(tactic| live_prim) => `(tactic| exact live_copyV _)

theorem exec_noteTrace (op : Nat) (s : State) :
    exec (noteTrace op) s =
      if s.traceOn = true then
        (.ok (), { s with trace := s.trace.push (s.frameIndex, s.ip, s.sp,
            (match (s.frames[s.curFrame]!).handlers with | some hs => hs.length | none => 0), op), steps := s.steps + 1 })
      else (.ok (), { s with steps := s.steps + 1 }) := by
  simp only [noteTrace, exec_bind, exec_getS]
  split <;> rfl

theorem live_noteTrace (op : Nat) : Live (noteTrace op) := by
  apply Live.intro'; intro s fr tr h
  rw [exec_noteTrace, exec_noteTrace]
  have e : (wf s fr tr).traceOn = s.traceOn := rfl
  rw [e]
  by_cases ht : s.traceOn = true
  · rw [if_pos ht, if_pos ht]
    exact ⟨fr, _, rfl, ⟨h.size, h.cur, h.below, h.link, h.shape, h.curLt⟩⟩
  · rw [if_neg ht, if_neg ht]
    exact ⟨fr, tr, rfl, ⟨h.size, h.cur, h.below, h.link, h.shape, h.curLt⟩⟩
macro_rules | `(tactic| live_prim) => `(tactic| exact live_noteTrace _)

theorem live_opnd1 (k : Int) : Live (opnd1 k) := by unfold opnd1; live
macro_rules | `(tactic| live_prim) => `(tactic| exact live_opnd1 _)
theorem live_opnd2 (k : Int) : Live (opnd2 k) := by unfold opnd2; live
macro_rules | `(tactic| live_prim) => `(tactic| exact live_opnd2 _)
theorem live_opnd4 (k : Int) : Live (opnd4 k) := by unfold opnd4; live
macro_rules | `(tactic| live_prim) => `(tactic| exact live_opnd4 _)
theorem live_constAt (i : Nat) : Live (constAt i) := by unfold constAt; live
macro_rules | `(tactic| live_prim) => `(tactic| exact live_constAt _)
theorem live_arrElems (a : Addr) (off len : Nat) : Live (arrElems a off len) := by unfold arrElems; live
macro_rules | `(tactic| live_prim) => `(tactic| exact live_arrElems _ _ _)
theorem live_mapEntries (a : Addr) : Live (mapEntries a) := by unfold mapEntries; live
macro_rules | `(tactic| live_prim) => `(tactic| exact live_mapEntries _)
theorem live_vString (v : V) : Live (vString v) := by unfold vString; live
macro_rules | `(tactic| live_prim) => `(tactic| exact live_vString _)
theorem live_isFalsy (v : V) : Live (isFalsy v) := by unfold isFalsy; live
macro_rules | `(tactic| live_prim) => `(tactic| exact live_isFalsy _)
theorem live_vEqual (F : FloatOps) (l r : V) : Live (vEqual F l r) := by unfold vEqual; live
macro_rules | `(tactic| live_prim) => `(tactic| exact live_vEqual _ _ _)
theorem live_vBinaryOp (F : FloatOps) (tok : Tok) (l r : V) : Live (vBinaryOp F tok l r) := by unfold vBinaryOp; live
macro_rules | `(tactic| live_prim) => `(tactic| exact live_vBinaryOp _ _ _ _)
theorem live_vUnary (F : FloatOps) (tok : Tok) (r : V) : Live (vUnary F tok r) := by unfold vUnary; live
macro_rules | `(tactic| live_prim) => `(tactic| exact live_vUnary _ _ _)
theorem live_vIndexGet (t i : V) : Live (vIndexGet t i) := by unfold vIndexGet; live
macro_rules | `(tactic| live_prim) => `(tactic| exact live_vIndexGet _ _)
theorem live_vIndexSet (t i v : V) : Live (vIndexSet t i v) := by unfold vIndexSet; live
macro_rules | `(tactic| live_prim) => `(tactic| exact live_vIndexSet _ _ _)
theorem live_mkErr (n m : String) (c : Option Addr) : Live (mkErr n m c) := by unfold mkErr; live
macro_rules | `(tactic| live_prim) => `(tactic| exact live_mkErr _ _ _)
theorem live_rtErrOfOpErr (e : OpErr) : Live (rtErrOfOpErr e) := by unfold rtErrOfOpErr; live
macro_rules | `(tactic| live_prim) => `(tactic| exact live_rtErrOfOpErr _)
theorem live_clearDown (hi lo : Int) : Live (clearDown hi lo) := by unfold clearDown; live
macro_rules | `(tactic| live_prim) => `(tactic| exact live_clearDown _ _)
theorem live_pushV (v : V) : Live (pushV v) := by unfold pushV; live
macro_rules | `(tactic| live_prim) => `(tactic| exact live_pushV _)
theorem live_bumpIp (n : Int) : Live (bumpIp n) := by unfold bumpIp; live
macro_rules | `(tactic| live_prim) => `(tactic| exact live_bumpIp _)
theorem live_jumpTarget  : Live (jumpTarget ) := by unfold jumpTarget; live
macro_rules | `(tactic| live_prim) => `(tactic| exact live_jumpTarget )
theorem live_clearCurrentFrame  : Live (clearCurrentFrame ) := by unfold clearCurrentFrame; live
macro_rules | `(tactic| live_prim) => `(tactic| exact live_clearCurrentFrame )
theorem live_fnCell (a : Addr) : Live (fnCell a) := by unfold fnCell; live
macro_rules | `(tactic| live_prim) => `(tactic| exact live_fnCell _)
theorem live_stackSlice (lo hi : Int) : Live (stackSlice lo hi) := by unfold stackSlice; live
macro_rules | `(tactic| live_prim) => `(tactic| exact live_stackSlice _ _)
theorem live_newArray (xs : List V) : Live (newArray xs) := by unfold newArray; live
macro_rules | `(tactic| live_prim) => `(tactic| exact live_newArray _)
theorem live_copyToStack (a : Int) (xs : List V) : Live (copyToStack a xs) := by unfold copyToStack; live
macro_rules | `(tactic| live_prim) => `(tactic| exact live_copyToStack _ _)
theorem live_fillUndefined (lo : Int) (n : Nat) : Live (fillUndefined lo n) := by unfold fillUndefined; live
macro_rules | `(tactic| live_prim) => `(tactic| exact live_fillUndefined _ _)
theorem live_copySlots (d : Int) (xs : List V) : Live (copySlots d xs) := by unfold copySlots; live
macro_rules | `(tactic| live_prim) => `(tactic| exact live_copySlots _ _)
theorem live_popArgs (n : Nat) : Live (popArgs n) := by unfold popArgs; live
macro_rules | `(tactic| live_prim) => `(tactic| exact live_popArgs _)
theorem live_bindArgs (code : Code) (bp na fl : Int) : Live (bindArgs code bp na fl) := by unfold bindArgs; live
macro_rules | `(tactic| live_prim) => `(tactic| exact live_bindArgs _ _ _ _)
theorem live_callBuiltin (i : Nat) (args : List V) : Live (callBuiltin i args) := by unfold callBuiltin; live
macro_rules | `(tactic| live_prim) => `(tactic| exact live_callBuiltin _ _)

end UgoVerif.VM
