import UgoVerif.Proofs.CompSimVM
/-
  C02, compile ⊑ Sem, statement slice — scalar values.

  The reference semantics keeps every variable in a heap box, the VM keeps uncaptured locals in
  stack slots, so the two heaps differ (in the boxes).  The fragment of this slice has no
  containers, closures or calls: every value it computes is a *scalar* (undefined, int, uint,
  float, char, bool, string, bytes — a value without a heap address).  On scalars the object-layer
  operations shared by the VM model and the reference semantics (`vBinaryOp`, `vUnary`, `vEqual`,
  `isFalsy`) neither read nor write the state: the same result on every state (`Pure`), a scalar
  result, and a `named` error.  That is what makes the simulation independent of the heap relation.
-/
set_option linter.unusedSimpArgs false
set_option linter.unusedVariables false
namespace UgoVerif.CompSim
open UgoVerif UgoVerif.Go UgoVerif.VM UgoVerif.Proofs.ModCache UgoVerif.Proofs.VMExec

/-- a value without a heap address -/
def Scalar : V → Prop
  | .undefined | .int _ | .uint _ | .float _ | .char _ | .bool _ | .str _ | .bytes _ => True
  | _ => False

theorem Scalar.not_box {v : V} (h : Scalar v) (a : Addr) : v ≠ .box a := by
  intro e; subst e; exact h

theorem ofScalarVal_scalar {x : Val} {v : V} (h : ofScalarVal x = some v) : Scalar v := by
  cases x <;> simp [ofScalarVal] at h <;> subst h <;> trivial

/-! ### computations that do not touch the state -/

/-- same result on every state, state unchanged -/
def Pure {α} (m : M α) : Prop := ∃ r, ∀ s, exec m s = (r, s)

theorem pure_pure {α} (a : α) : Pure (pure a : M α) := ⟨.ok a, fun _ => rfl⟩
theorem pure_throw {α} (e : Exc) : Pure (throw e : M α) := ⟨.error e, fun _ => rfl⟩
theorem pure_panic {α} (msg : String) : Pure (VM.panic msg : M α) := pure_throw _
theorem pure_unsupported {α} (msg : String) : Pure (VM.unsupported msg : M α) := pure_throw _

theorem pure_bind {α β} {m : M α} {f : α → M β} (hm : Pure m) (hf : ∀ a, Pure (f a)) : Pure (m >>= f) := by
  obtain ⟨r, hr⟩ := hm
  cases r with
  | ok a =>
    obtain ⟨r2, h2⟩ := hf a
    exact ⟨r2, fun s => by rw [exec_bind, hr]; exact h2 s⟩
  | error e => exact ⟨.error e, fun s => by rw [exec_bind, hr]⟩

theorem pure_ite {α} (c : Prop) [Decidable c] {a b : M α} (ha : Pure a) (hb : Pure b) : Pure (if c then a else b) := by
  split <;> assumption

syntax "pure_prim" : tactic
macro_rules | `(tactic| pure_prim) => `(tactic| exact pure_pure _)
macro_rules | `(tactic| pure_prim) => `(tactic| exact pure_panic _)
macro_rules | `(tactic| pure_prim) => `(tactic| exact pure_unsupported _)
macro_rules | `(tactic| pure_prim) => `(tactic| exact pure_throw _)

macro "pure_step" : tactic => `(tactic| first
  | with_reducible pure_prim
  | (apply pure_bind)
  | (intro _)
  | (apply pure_ite)
  | (split)
  | (dsimp only))

macro "purity" : tactic => `(tactic| repeat' pure_step)

/-- results of a computation satisfy `P` -/
structure Post {α} (P : α → Prop) (m : M α) : Prop where
  h : ∀ s a s', exec m s = (.ok a, s') → P a

theorem post_pure {α} {P : α → Prop} (a : α) (h : P a) : Post P (pure a : M α) := by
  constructor
  intro s b s' e
  rw [exec_pure] at e
  simp only [Prod.mk.injEq, Except.ok.injEq] at e
  rw [← e.1]; exact h

theorem post_throw {α} {P : α → Prop} (e : Exc) : Post P (throw e : M α) := by
  constructor
  intro s b s' h
  have : exec (throw e : M α) s = (.error e, s) := rfl
  rw [this] at h
  simp at h
theorem post_panic {α} {P : α → Prop} (msg : String) : Post P (VM.panic msg : M α) := post_throw _
theorem post_unsupported {α} {P : α → Prop} (msg : String) : Post P (VM.unsupported msg : M α) := post_throw _

theorem post_bind {α β} {P : β → Prop} {m : M α} {f : α → M β} (hf : ∀ a, Post P (f a)) : Post P (m >>= f) := by
  constructor
  intro s b s' h
  rw [exec_bind] at h
  cases hr : exec m s with
  | mk r s1 =>
    rw [hr] at h
    cases r with
    | ok a => exact (hf a).h s1 b s' h
    | error e => simp at h

theorem post_ite {α} {P : α → Prop} (c : Prop) [Decidable c] {a b : M α} (ha : Post P a) (hb : Post P b) :
    Post P (if c then a else b) := by
  split <;> assumption

syntax "post_prim" : tactic
macro_rules | `(tactic| post_prim) => `(tactic| exact post_panic _)
macro_rules | `(tactic| post_prim) => `(tactic| exact post_unsupported _)
macro_rules | `(tactic| post_prim) => `(tactic| exact post_throw _)

macro "post_step" : tactic => `(tactic| first
  | with_reducible post_prim
  | (apply post_bind)
  | (intro _)
  | (apply post_ite)
  | (split)
  | (dsimp only))

macro "posts" : tactic => `(tactic| repeat' post_step)


/-! ### the operations on scalars -/

theorem pure_vString {v : V} (h : Scalar v) : Pure (vString v) := by
  cases v <;> first | exact False.elim h | (unfold vString; purity)

theorem pure_isFalsy {v : V} (h : Scalar v) : Pure (isFalsy v) := by
  cases v <;> first | exact False.elim h | (unfold isFalsy; purity)

theorem pure_vBinaryOp (F : FloatOps) (tok : Tok) {l r : V} (hl : Scalar l) (hr : Scalar r) :
    Pure (vBinaryOp F tok l r) := by
  have hs := pure_vString hr
  cases l <;> first | exact False.elim hl | (simp only [vBinaryOp]; purity; all_goals exact hs)

/-- what an operator returns on scalars: a scalar, or a `named` error -/
def OpRes : Except OpErr V → Prop
  | .ok v => Scalar v
  | .error oe => ∃ n m, oe = .named n m

theorem opErrOfErr_named (e : Err) : ∃ n m, opErrOfErr e = .named n m := by
  cases e <;> exact ⟨_, _, rfl⟩

theorem post_vBinaryOp (F : FloatOps) (tok : Tok) {l r : V} (hl : Scalar l) :
    Post OpRes (vBinaryOp F tok l r) := by
  cases l <;> first
    | exact False.elim hl
    | (simp only [vBinaryOp]; posts
       all_goals first
         | exact post_pure _ (ofScalarVal_scalar ‹_›)
         | exact post_pure _ (opErrOfErr_named _))

theorem pure_vUnary (F : FloatOps) (tok : Tok) {r : V} (hr : Scalar r) : Pure (vUnary F tok r) := by
  have hf := pure_isFalsy hr
  cases r <;> first | exact False.elim hr | (simp only [vUnary]; purity; all_goals exact hf)

theorem post_vUnary (F : FloatOps) (tok : Tok) {r : V} (hr : Scalar r) : Post OpRes (vUnary F tok r) := by
  unfold vUnary; posts
  all_goals first
    | exact post_pure _ hr
    | exact post_pure _ (ofScalarVal_scalar ‹_›)
    | exact post_pure _ (opErrOfErr_named _)

theorem toValDeep_scalar (heap : Array Cell) (n : Nat) {v : V} (h : Scalar v) :
    toValDeep heap (n + 1) v = toValShallow v := by
  cases v <;> first | exact False.elim h | rfl

theorem pure_vEqual (F : FloatOps) {l r : V} (hl : Scalar l) (hr : Scalar r) : Pure (vEqual F l r) := by
  have key : ∀ s : State, exec (vEqual F l r) s =
      exec (match toValShallow l, toValShallow r with
        | some a, some b => pure (Model.valEqual F a b)
        | _, _ => VM.unsupported "Equal on cyclic or nil value" : M Bool) s := by
    intro s
    unfold vEqual
    rw [exec_bind, exec_getS]
    simp only
    have e1 := toValDeep_scalar s.heap (s.heap.size + 1) hl
    have e2 := toValDeep_scalar s.heap (s.heap.size + 1) hr
    cases l <;> first | exact False.elim hl | (simp only [e1, e2]; try rfl)
  have hp : Pure (match toValShallow l, toValShallow r with
        | some a, some b => pure (Model.valEqual F a b)
        | _, _ => VM.unsupported "Equal on cyclic or nil value" : M Bool) := by purity
  obtain ⟨res, hres⟩ := hp
  exact ⟨res, fun s => by rw [key]; exact hres s⟩

/-! ### consequences used by the simulation -/

/-- a pure computation that returns `a` on one state returns it on every state -/
theorem Pure.runsOn {α} {m : M α} (hp : Pure m) {t t1 : State} {a : α} (h : exec m t = (.ok a, t1)) :
    t = t1 ∧ ∀ hp' : Array Cell, RunsOn m hp' a hp' := by
  obtain ⟨r, hr⟩ := hp
  rw [hr] at h
  simp only [Prod.mk.injEq] at h
  obtain ⟨rfl, rfl⟩ := h
  refine ⟨rfl, fun hp' w hw => ⟨w, hr w, Grow.refl w, hw⟩⟩

end UgoVerif.CompSim
