import UgoVerif.VM.Run
import UgoVerif.VM.Invoke
import UgoVerif.Proofs.PmAttr
/-
  Frame lemmas for the module cache (helper lemmas for Props/C12): which model operations
  leave `State.modules` alone.  `PM m` = "the computation `m` never changes the module cache,
  whatever it returns (value, panic, unsupported)".
-/
namespace UgoVerif.Proofs.ModCache
open UgoVerif UgoVerif.Go UgoVerif.VM

/-- run a model computation on a state -/
def exec {α} (m : M α) (s : State) : Except Exc α × State := m.run.run s

theorem exec_pure {α} (a : α) (s : State) : exec (pure a : M α) s = (.ok a, s) := rfl

theorem exec_bind {α β} (m : M α) (f : α → M β) (s : State) :
    exec (m >>= f) s = match exec m s with
      | (.ok a, s') => exec (f a) s'
      | (.error e, s') => (.error e, s') := by
  simp only [exec, bind, ExceptT.bind, ExceptT.run, ExceptT.mk, StateT.bind, StateT.run, ExceptT.bindCont]
  cases h : m s with
  | mk r s' => cases r <;> rfl

structure PM {α} (m : M α) : Prop where
  h : ∀ s, (exec m s).2.modules = s.modules

theorem pm_pure {α} (a : α) : PM (pure a : M α) := ⟨fun _ => rfl⟩

theorem pm_bind {α β} {m : M α} {f : α → M β} (hm : PM m) (hf : ∀ a, PM (f a)) : PM (m >>= f) := by
  constructor
  intro s
  rw [exec_bind]
  have := hm.h s
  cases h : exec m s with
  | mk r s' =>
    rw [h] at this
    cases r with
    | ok a => simp only; rw [(hf a).h s']; exact this
    | error e => exact this

theorem pm_panic {α} (msg : String) : PM (VM.panic msg : M α) := ⟨fun _ => rfl⟩
theorem pm_unsupported {α} (msg : String) : PM (VM.unsupported msg : M α) := ⟨fun _ => rfl⟩
theorem pm_getS : PM getS := ⟨fun _ => rfl⟩
theorem pm_get : PM (get : M State) := ⟨fun _ => rfl⟩
theorem pm_modS (f : State → State) (hf : ∀ s, (f s).modules = s.modules) : PM (modS f) := ⟨fun s => hf s⟩
theorem pm_modify (f : State → State) (hf : ∀ s, (f s).modules = s.modules) : PM (modify f : M Unit) := ⟨fun s => hf s⟩

theorem pm_throw {α} (e : Exc) : PM (throw e : M α) := ⟨fun _ => rfl⟩

theorem pm_forIn_list {α β} (l : List α) (init : β) (f : α → β → M (ForInStep β))
    (hf : ∀ a b, PM (f a b)) : PM (forIn l init f) := by
  induction l generalizing init with
  | nil => simp only [List.forIn_nil]; exact pm_pure _
  | cons a l ih =>
    simp only [List.forIn_cons]
    apply pm_bind (hf a init)
    intro r
    cases r with
    | done b => exact pm_pure _
    | yield b => exact ih b

theorem pm_forIn_range {β} (r : Std.Legacy.Range) (init : β) (f : Nat → β → M (ForInStep β))
    (hf : ∀ a b, PM (f a b)) : PM (forIn r init f) := by
  rw [Std.Legacy.Range.forIn_eq_forIn_range']
  exact pm_forIn_list _ _ _ hf

theorem pm_ite {α} (c : Prop) [Decidable c] {a b : M α} (ha : PM a) (hb : PM b) : PM (if c then a else b) := by
  split <;> assumption

/-- closes `PM` goals about programs built from binds, matches, ifs, loops and known `PM` operations -/
macro "pm_step" : tactic => `(tactic| first
  | exact pm_pure _
  | exact pm_panic _
  | exact pm_unsupported _
  | exact pm_throw _
  | exact pm_getS
  | exact pm_get
  | assumption
  | (simp only [pm_simps]; done)
  | (solve_by_elim)
  | (apply pm_bind)
  | (apply pm_forIn_range)
  | (apply pm_forIn_list)
  | (apply pm_modS; intro _; rfl)
  | (apply pm_modify; intro _; rfl)
  | (intro _)
  | (apply pm_ite)
  | (split)
  | (dsimp only))

macro "pm" : tactic => `(tactic| repeat' pm_step)

@[pm_simps] theorem pm_stackGet (i : Int) : PM (stackGet i) := by unfold stackGet; pm
@[pm_simps] theorem pm_stackSet (i : Int) (v : V) : PM (stackSet i v) := by unfold stackSet; pm
@[pm_simps] theorem pm_getSp : PM getSp := by unfold getSp; pm
@[pm_simps] theorem pm_setSp (v : Int) : PM (setSp v) := by unfold setSp; pm
@[pm_simps] theorem pm_getIp : PM getIp := by unfold getIp; pm
@[pm_simps] theorem pm_setIp (v : Int) : PM (setIp v) := by unfold setIp; pm
@[pm_simps] theorem pm_curFrame : PM curFrame := by unfold curFrame; pm
@[pm_simps] theorem pm_setCurFrame (f : Frame → Frame) : PM (setCurFrame f) := by unfold setCurFrame; pm
@[pm_simps] theorem pm_heapGet (a : Addr) : PM (heapGet a) := by unfold heapGet; pm
@[pm_simps] theorem pm_heapSet (a : Addr) (c : Cell) : PM (heapSet a c) := by unfold heapSet; pm

@[pm_simps] theorem pm_alloc (c : Cell) : PM (alloc c) := ⟨fun _ => rfl⟩
@[pm_simps] theorem pm_curCode  : PM (curCode) := by unfold curCode; pm
@[pm_simps] theorem pm_instAt (i : Int) : PM (instAt i) := by unfold instAt; pm
@[pm_simps] theorem pm_opnd1 (k : Int) : PM (opnd1 k) := by unfold opnd1; pm
@[pm_simps] theorem pm_opnd2 (k : Int) : PM (opnd2 k) := by unfold opnd2; pm
@[pm_simps] theorem pm_opnd4 (k : Int) : PM (opnd4 k) := by unfold opnd4; pm
@[pm_simps] theorem pm_constAt (i : Nat) : PM (constAt i) := by unfold constAt; pm
@[pm_simps] theorem pm_arrElems (a : Addr) (off len : Nat) : PM (arrElems a off len) := by unfold arrElems; pm
@[pm_simps] theorem pm_mapEntries (a : Addr) : PM (mapEntries a) := by unfold mapEntries; pm
@[pm_simps] theorem pm_vString (v : V) : PM (vString v) := by unfold vString; pm
@[pm_simps] theorem pm_isFalsy (v : V) : PM (isFalsy v) := by unfold isFalsy; pm
@[pm_simps] theorem pm_vEqual (F : FloatOps) (l r : V) : PM (vEqual F l r) := by unfold vEqual; pm
@[pm_simps] theorem pm_vBinaryOp (F : FloatOps) (tok : Tok) (l r : V) : PM (vBinaryOp F tok l r) := by unfold vBinaryOp; pm
@[pm_simps] theorem pm_vUnary (F : FloatOps) (tok : Tok) (r : V) : PM (vUnary F tok r) := by unfold vUnary; pm
@[pm_simps] theorem pm_vIndexGet (t i : V) : PM (vIndexGet t i) := by unfold vIndexGet; pm
@[pm_simps] theorem pm_vIndexSet (t i v : V) : PM (vIndexSet t i v) := by unfold vIndexSet; pm
@[pm_simps] theorem pm_mkErr (n m : String) (c : Option Addr) : PM (mkErr n m c) := by unfold mkErr; pm
@[pm_simps] theorem pm_rtErrOfOpErr (e : OpErr) : PM (rtErrOfOpErr e) := by unfold rtErrOfOpErr; pm
@[pm_simps] theorem pm_clearDown (hi lo : Int) : PM (clearDown hi lo) := by unfold clearDown; pm


@[pm_simps] theorem pm_searchFrames (n : Nat) : PM (searchFrames n) := by
  induction n with
  | zero => unfold searchFrames; pm
  | succ n ih => unfold searchFrames; pm

theorem pm_throwF_handle (fuel : Nat) (h : ∀ err, PM (throwF fuel err)) (err : Addr) : PM (throwF.handle fuel err) := by
  unfold throwF.handle; pm

@[pm_simps] theorem pm_throwF (fuel : Nat) : ∀ err, PM (throwF fuel err) := by
  induction fuel with
  | zero => intro err; unfold throwF; pm
  | succ fuel ih =>
    intro err
    have hh := pm_throwF_handle fuel ih
    unfold throwF; pm

@[pm_simps] theorem pm_throwFuel : PM throwFuel := by unfold throwFuel; pm
@[pm_simps] theorem pm_noteTrace (op : Nat) : PM (noteTrace op) := by
  constructor; intro s
  unfold noteTrace
  rw [exec_bind]
  show (exec (if s.traceOn = true then _ else _) s).2.modules = _
  split <;> rfl

@[pm_simps] theorem pm_findFinally (fuel : Nat) : ∀ upto, PM (findFinally fuel upto) := by
  induction fuel with
  | zero => intro u; unfold findFinally; pm
  | succ fuel ih => intro u; unfold findFinally; pm

@[pm_simps] theorem pm_throwGenErr (e : OpErr) : PM (throwGenErr e) := by unfold throwGenErr; pm
@[pm_simps] theorem pm_failWith (e : OpErr) : PM (failWith e) := by unfold failWith; pm
@[pm_simps] theorem pm_pushV (v : V) : PM (pushV v) := by unfold pushV; pm
@[pm_simps] theorem pm_bumpIp (n : Int) : PM (bumpIp n) := by unfold bumpIp; pm
@[pm_simps] theorem pm_jumpTarget  : PM (jumpTarget) := by unfold jumpTarget; pm
@[pm_simps] theorem pm_clearCurrentFrame  : PM (clearCurrentFrame) := by unfold clearCurrentFrame; pm
@[pm_simps] theorem pm_fnCell (a : Addr) : PM (fnCell a) := by unfold fnCell; pm
@[pm_simps] theorem pm_stackSlice (lo hi : Int) : PM (stackSlice lo hi) := by unfold stackSlice; pm
@[pm_simps] theorem pm_newArray (xs : List V) : PM (newArray xs) := by unfold newArray; pm
@[pm_simps] theorem pm_copyToStack (at_ : Int) (xs : List V) : PM (copyToStack at_ xs) := by unfold copyToStack; pm
set_option maxHeartbeats 4000000 in
@[pm_simps] theorem pm_callCompiled (fa : Addr) (numArgs flags : Int) : PM (callCompiled fa numArgs flags) := by unfold callCompiled; pm
@[pm_simps] theorem pm_callBuiltin (i : Nat) (args : List V) : PM (callBuiltin i args) := by unfold callBuiltin; pm
@[pm_simps] theorem pm_callObject (callee : V) (numArgs flags : Int) : PM (callObject callee numArgs flags) := by unfold callObject; pm
@[pm_simps] theorem pm_callAny (callee : V) (numArgs flags : Int) : PM (callAny callee numArgs flags) := by unfold callAny; pm
@[pm_simps] theorem pm_execConstant : PM execConstant := by unfold execConstant; pm
@[pm_simps] theorem pm_execGetLocal : PM execGetLocal := by unfold execGetLocal; pm
@[pm_simps] theorem pm_execSetLocal : PM execSetLocal := by unfold execSetLocal; pm
@[pm_simps] theorem pm_execAndJump : PM execAndJump := by unfold execAndJump; pm
@[pm_simps] theorem pm_execOrJump : PM execOrJump := by unfold execOrJump; pm
@[pm_simps] theorem pm_execTrue : PM execTrue := by unfold execTrue; pm
@[pm_simps] theorem pm_execFalse : PM execFalse := by unfold execFalse; pm
@[pm_simps] theorem pm_execCall : PM execCall := by unfold execCall; pm
@[pm_simps] theorem pm_execCallName : PM execCallName := by unfold execCallName; pm
@[pm_simps] theorem pm_execReturn : PM execReturn := by unfold execReturn; pm
@[pm_simps] theorem pm_execGetBuiltin : PM execGetBuiltin := by unfold execGetBuiltin; pm
@[pm_simps] theorem pm_execClosure : PM execClosure := by unfold execClosure; pm
@[pm_simps] theorem pm_execJump : PM execJump := by unfold execJump; pm
@[pm_simps] theorem pm_execJumpFalsy : PM execJumpFalsy := by unfold execJumpFalsy; pm
@[pm_simps] theorem pm_execGetGlobal : PM execGetGlobal := by unfold execGetGlobal; pm
@[pm_simps] theorem pm_execSetGlobal : PM execSetGlobal := by unfold execSetGlobal; pm
@[pm_simps] theorem pm_execArray : PM execArray := by unfold execArray; pm
@[pm_simps] theorem pm_execMap : PM execMap := by unfold execMap; pm
@[pm_simps] theorem pm_execGetIndex : PM execGetIndex := by unfold execGetIndex; pm
@[pm_simps] theorem pm_execSetIndex : PM execSetIndex := by unfold execSetIndex; pm
@[pm_simps] theorem pm_execSliceIndex : PM execSliceIndex := by unfold execSliceIndex; pm
@[pm_simps] theorem pm_execGetFree : PM execGetFree := by unfold execGetFree; pm
@[pm_simps] theorem pm_execSetFree : PM execSetFree := by unfold execSetFree; pm
@[pm_simps] theorem pm_execGetLocalPtr : PM execGetLocalPtr := by unfold execGetLocalPtr; pm
@[pm_simps] theorem pm_execGetFreePtr : PM execGetFreePtr := by unfold execGetFreePtr; pm
@[pm_simps] theorem pm_execDefineLocal : PM execDefineLocal := by unfold execDefineLocal; pm
@[pm_simps] theorem pm_execNull : PM execNull := by unfold execNull; pm
@[pm_simps] theorem pm_execPop : PM execPop := by unfold execPop; pm
@[pm_simps] theorem pm_execIterInit : PM execIterInit := by unfold execIterInit; pm
@[pm_simps] theorem pm_execLoadModule : PM execLoadModule := by unfold execLoadModule; pm
@[pm_simps] theorem pm_execSetupTry : PM execSetupTry := by unfold execSetupTry; pm
@[pm_simps] theorem pm_execSetupCatch : PM execSetupCatch := by unfold execSetupCatch; pm
@[pm_simps] theorem pm_execSetupFinally : PM execSetupFinally := by unfold execSetupFinally; pm
@[pm_simps] theorem pm_execThrow : PM execThrow := by unfold execThrow; pm
@[pm_simps] theorem pm_execFinalizer : PM execFinalizer := by unfold execFinalizer; pm
@[pm_simps] theorem pm_execNoOp : PM execNoOp := by unfold execNoOp; pm
@[pm_simps] theorem pm_execBinaryOp (F : FloatOps) : PM (execBinaryOp F) := by unfold execBinaryOp; pm
@[pm_simps] theorem pm_execEqual (F : FloatOps) (op : Nat) : PM (execEqual F op) := by unfold execEqual; pm
@[pm_simps] theorem pm_execIterNext (op : Nat) : PM (execIterNext op) := by unfold execIterNext; pm
@[pm_simps] theorem pm_execUnary (F : FloatOps) : PM (execUnary F) := by unfold execUnary; pm
@[pm_simps] theorem pm_execUnknown (op : Nat) : PM (execUnknown op) := by unfold execUnknown; pm

/-! ### dispatch, step -/

theorem pm_dispatch (F : FloatOps) (op : Nat) (hop : op ≠ OpStoreModule) : PM (dispatch F op) := by
  have hne : (op == OpStoreModule) = false := by simp [hop]
  unfold dispatch
  simp only [hne, Bool.false_eq_true, ↓reduceIte]
  pm

/-- fetch and trace of `step` -/
def fetchOp : M Nat := do
  bumpIp 1
  let op ← instAt (← getIp)
  noteTrace op
  pure op

@[pm_simps] theorem pm_fetchOp : PM fetchOp := by unfold fetchOp; pm

theorem exec_step (F : FloatOps) (s : State) :
    exec (step F) s = match exec fetchOp s with
      | (.ok op, s1) => exec (dispatch F op) s1
      | (.error e, s1) => (.error e, s1) := by
  simp only [step, fetchOp, exec_bind, exec_pure]
  repeat' split
  all_goals simp_all

/-! ### STOREMODULE -/

@[pm_simps] theorem pm_copyV (v : V) : PM (copyV v) := by
  constructor; intro s
  unfold copyV
  rw [exec_bind]
  show (exec (match copyVal (s.heap.size + 2) s.heap v with | some (v', h') => _ | none => _) s).2.modules = _
  split <;> rfl

/-- `m` leaves the cache alone or overwrites exactly entry `midx` -/
structure PW {α} (midx : Nat) (m : M α) : Prop where
  h : ∀ s, (exec m s).2.modules = s.modules ∨ ∃ v, (exec m s).2.modules = s.modules.set! midx v

theorem pw_bind {α β} {midx : Nat} {m : M α} {f : α → M β} (hm : PM m) (hf : ∀ a, PW midx (f a)) : PW midx (m >>= f) := by
  constructor; intro s
  rw [exec_bind]
  have := hm.h s
  cases h : exec m s with
  | mk r s' =>
    rw [h] at this
    cases r with
    | ok a => simp only; simp only at this; rw [← this]; exact (hf a).h s'
    | error e => exact Or.inl this

theorem pw_bind_right {α β} {midx : Nat} {m : M α} {f : α → M β} (hm : PW midx m) (hf : ∀ a, PM (f a)) : PW midx (m >>= f) := by
  constructor; intro s
  rw [exec_bind]
  have := hm.h s
  cases h : exec m s with
  | mk r s' =>
    rw [h] at this
    cases r with
    | ok a => simp only; rw [(hf a).h s']; exact this
    | error e => exact this

theorem pw_set (midx : Nat) (v : V) : PW midx (modS fun s => { s with modules := s.modules.set! midx v }) :=
  ⟨fun s => Or.inr ⟨v, rfl⟩⟩

/-- read-only computations -/
structure RO {α} (m : M α) : Prop where
  h : ∀ s, (exec m s).2 = s

theorem ro_pure {α} (a : α) : RO (pure a : M α) := ⟨fun _ => rfl⟩
theorem ro_panic {α} (msg : String) : RO (VM.panic msg : M α) := ⟨fun _ => rfl⟩
theorem ro_unsupported {α} (msg : String) : RO (VM.unsupported msg : M α) := ⟨fun _ => rfl⟩
theorem ro_getS : RO getS := ⟨fun _ => rfl⟩
theorem ro_bind {α β} {m : M α} {f : α → M β} (hm : RO m) (hf : ∀ a, RO (f a)) : RO (m >>= f) := by
  constructor; intro s
  rw [exec_bind]
  have := hm.h s
  cases h : exec m s with
  | mk r s' =>
    rw [h] at this
    simp only at this
    subst this
    cases r with
    | ok a => exact (hf a).h _
    | error e => rfl

macro "ro_step" : tactic => `(tactic| first
  | exact ro_pure _ | exact ro_panic _ | exact ro_unsupported _ | exact ro_getS | assumption
  | (apply ro_bind) | (intro _) | (split) | (dsimp only))
macro "ro" : tactic => `(tactic| repeat' ro_step)

theorem ro_getIp : RO getIp := by unfold getIp; ro
theorem ro_curFrame : RO curFrame := by unfold curFrame; ro
theorem ro_heapGet (a : Addr) : RO (heapGet a) := by unfold heapGet; ro
theorem ro_curCode : RO curCode := by
  have := ro_curFrame; have := ro_heapGet
  unfold curCode; ro
theorem ro_instAt (i : Int) : RO (instAt i) := by
  have := ro_curCode
  unfold instAt; ro
theorem ro_opnd2 (k : Int) : RO (opnd2 k) := by
  have := ro_getIp; have := ro_instAt
  unfold opnd2; ro

theorem storeModule_spec (s : State) :
    (exec execStoreModule s).2.modules = s.modules ∨
    ∃ midx v, exec (opnd2 1) s = (.ok midx, s) ∧ (exec execStoreModule s).2.modules = s.modules.set! midx v := by
  unfold execStoreModule
  rw [exec_bind]
  have hro := (ro_opnd2 1).h s
  cases h : exec (opnd2 1) s with
  | mk r s' =>
    rw [h] at hro
    simp only at hro
    subst hro
    cases r with
    | error e => exact Or.inl rfl
    | ok midx =>
      simp only
      have hpw : PW midx (do
          let sp ← getSp
          let value ← stackGet (sp - 1)
          let value ← copyV value
          stackSet (sp - 1) value
          let s ← getS
          if midx ≥ s.modules.size then
            VM.panic s!"runtime error: index out of range [{midx}] with length {s.modules.size}"
          modS fun s => { s with modules := s.modules.set! midx value }
          bumpIp 2; return Ctl.next) := by
        apply pw_bind pm_getSp; intro sp
        apply pw_bind (pm_stackGet _); intro v
        apply pw_bind (pm_copyV _); intro v'
        apply pw_bind (pm_stackSet _ _); intro _
        apply pw_bind pm_getS; intro s0
        dsimp only
        split
        · apply pw_bind (pm_panic _); intro _
          apply pw_bind_right (pw_set _ _); intro _
          pm
        · apply pw_bind_right (pw_set _ _); intro _
          pm
      rcases hpw.h _ with h1 | ⟨v, h2⟩
      · exact Or.inl h1
      · exact Or.inr ⟨midx, v, rfl, h2⟩

/-! ### ghost counters along executions -/

structure Ghost where
  /-- STOREMODULE m instructions executed -/
  stores : Nat → Nat := fun _ => 0
  /-- LOADMODULE m instructions that found the entry nil (each one starts a load of m) -/
  misses : Nat → Nat := fun _ => 0

def Ghost.bumpStore (g : Ghost) (i : Nat) : Ghost := { g with stores := fun m => if m = i then g.stores m + 1 else g.stores m }
def Ghost.bumpMiss (g : Ghost) (i : Nat) : Ghost := { g with misses := fun m => if m = i then g.misses m + 1 else g.misses m }

/-- LOADMODULE would find entry `midx` nil -/
def isMiss (s : State) (midx : Nat) : Bool :=
  match s.modules[midx]? with
  | some .nil => true
  | _ => false

/-- one instruction with ghost bookkeeping; the state component is that of `step` (`gstep_state`) -/
def gstep (F : FloatOps) (gs : Ghost × State) : Ghost × State :=
  match exec fetchOp gs.2 with
  | (.ok op, s1) =>
    if op = OpStoreModule then
      match exec (opnd2 1) s1 with
      | (.ok midx, _) => (gs.1.bumpStore midx, (exec execStoreModule s1).2)
      | (.error _, _) => (gs.1, (exec execStoreModule s1).2)
    else if op = OpLoadModule then
      match exec (opnd2 3) s1 with
      | (.ok midx, _) => (if isMiss s1 midx then gs.1.bumpMiss midx else gs.1, (exec execLoadModule s1).2)
      | (.error _, _) => (gs.1, (exec execLoadModule s1).2)
    else (gs.1, (exec (dispatch F op) s1).2)
  | (.error _, s1) => (gs.1, s1)

theorem gstep_state (F : FloatOps) (g : Ghost) (s : State) : (gstep F (g, s)).2 = (exec (step F) s).2 := by
  rw [exec_step]
  unfold gstep
  cases h : exec fetchOp s with
  | mk r s1 =>
    cases r with
    | error e => rfl
    | ok op =>
      simp only
      by_cases h1 : op = OpStoreModule
      · subst h1
        simp only [↓reduceIte]
        have : dispatch F OpStoreModule = execStoreModule := rfl
        rw [this]
        split <;> rfl
      · by_cases h2 : op = OpLoadModule
        · subst h2
          simp only [h1, ↓reduceIte]
          have : dispatch F OpLoadModule = execLoadModule := rfl
          rw [this]
          split <;> rfl
        · simp only [h1, h2, ↓reduceIte]

/-- executions: any number of instructions -/
inductive Reach (F : FloatOps) : Ghost × State → Ghost × State → Prop
  | refl (a) : Reach F a a
  | step {a b} : Reach F a b → Reach F a (gstep F b)

/-- a cache entry that is not nil has an executed STOREMODULE behind it -/
def GInv (g : Ghost) (s : State) : Prop := ∀ m v, s.modules[m]? = some v → v ≠ .nil → 0 < g.stores m

theorem gstep_inv (F : FloatOps) (g : Ghost) (s : State) (hinv : GInv g s) :
    GInv (gstep F (g, s)).1 (gstep F (g, s)).2 := by
  unfold gstep
  have hf := pm_fetchOp.h s
  cases h : exec fetchOp s with
  | mk r s1 =>
    rw [h] at hf
    simp only at hf
    cases r with
    | error e => simp only; intro m v; rw [hf]; exact hinv m v
    | ok op =>
      simp only
      by_cases h1 : op = OpStoreModule
      · subst h1
        simp only [↓reduceIte]
        rcases storeModule_spec s1 with hs | ⟨midx, v, ho, hs⟩
        · split
          · intro m v hm hv
            rw [hs, hf] at hm
            have := hinv m v hm hv
            simp only [Ghost.bumpStore]; split <;> omega
          · intro m v hm hv
            rw [hs, hf] at hm
            exact hinv m v hm hv
        · rw [ho]
          simp only
          intro m w hm hv
          rw [hs, hf] at hm
          simp only [Ghost.bumpStore]
          by_cases e : m = midx
          · simp [e]
          · simp only [e, ↓reduceIte]
            have : (s.modules.set! midx v)[m]? = s.modules[m]? := by
              simp [Array.set!, Array.getElem?_setIfInBounds]; intro h; exact absurd h.symm e
            rw [this] at hm
            exact hinv m w hm hv
      · by_cases h2 : op = OpLoadModule
        · subst h2
          simp only [h1, ↓reduceIte]
          have hl := pm_execLoadModule.h s1
          split
          · intro m v hm hv
            rw [hl, hf] at hm
            have := hinv m v hm hv
            split
            · simpa [Ghost.bumpMiss] using this
            · exact this
          · intro m v hm hv
            rw [hl, hf] at hm
            exact hinv m v hm hv
        · simp only [h1, h2, ↓reduceIte]
          intro m v hm hv
          rw [(pm_dispatch F op h1).h s1, hf] at hm
          exact hinv m v hm hv

theorem reach_inv (F : FloatOps) {a b : Ghost × State} (hr : Reach F a b) (hinv : GInv a.1 a.2) : GInv b.1 b.2 := by
  induction hr with
  | refl => exact hinv
  | step _ ih => exact gstep_inv F _ _ ih

/-- counters only grow -/
theorem reach_mono (F : FloatOps) {a b : Ghost × State} (hr : Reach F a b) : ∀ m, a.1.stores m ≤ b.1.stores m := by
  induction hr with
  | refl => intro m; exact Nat.le_refl _
  | step _ ih =>
    intro m
    refine Nat.le_trans (ih m) ?_
    unfold gstep
    repeat' split
    all_goals first | exact Nat.le_refl _ | (simp only [Ghost.bumpStore, Ghost.bumpMiss]; split <;> omega) | (simp only [Ghost.bumpMiss]; exact Nat.le_refl _)

/-! ### prologue -/

/-- `m` keeps every existing cache entry (it may append) -/
structure PG {α} (m : M α) : Prop where
  h : ∀ s j, j < s.modules.size → (exec m s).2.modules[j]? = s.modules[j]?

theorem pg_bind {α β} {m : M α} {f : α → M β} (hm : PM m) (hf : ∀ a, PG (f a)) : PG (m >>= f) := by
  constructor; intro s j hj
  rw [exec_bind]
  have := hm.h s
  cases h : exec m s with
  | mk r s' =>
    rw [h] at this
    simp only at this
    cases r with
    | ok a => simp only; rw [← this] at hj ⊢; exact (hf a).h s' j hj
    | error e => simp only; rw [this]

@[pm_simps] theorem pm_initLocals (args : List V) : PM (initLocals args) := by unfold initLocals; pm
@[pm_simps] theorem pm_initCurrentFrame : PM initCurrentFrame := by unfold initCurrentFrame; pm

theorem pg_prologue (g : V) (args : List V) : PG (prologue g args) := by
  unfold prologue
  apply pg_bind (by pm); intro _
  apply pg_bind (by pm); intro _
  apply pg_bind (by pm); intro _
  apply pg_bind (by pm); intro _
  apply pg_bind (by pm); intro _
  apply pg_bind (by pm); intro _
  apply pg_bind (by pm); intro _
  apply pg_bind (by pm); intro _
  constructor; intro s j hj
  show (s.modules ++ Array.replicate (s.numModules - s.modules.size) V.nil)[j]? = s.modules[j]?
  rw [Array.getElem?_append_left hj]


theorem set_size (a : Array V) (i : Nat) (v : V) : (a.set! i v).size = a.size := by simp

end UgoVerif.Proofs.ModCache
