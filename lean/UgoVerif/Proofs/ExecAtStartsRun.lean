import UgoVerif.Proofs.ExecAtStartsCall
/-
  Control-flow integrity, part 5: one instruction (`step`), recovered Go panics (`handlePanic`),
  the prologue of `Run`, and every instruction boundary of a run:

  **`exec_at_starts`** — from a `Good` state, every state at which `loop` fetches an instruction
  (`Boundary`) is `Good`: `ip + 1 ≥ 0` is an instruction start of the code of the current frame's
  function; every suspended frame resumes at an instruction start; every position stored in an
  error handler is an instruction start.  "The VM never executes operand bytes."
-/
namespace UgoVerif.VM.Cfi
open UgoVerif UgoVerif.Go
open UgoVerif.Compile (Walk Bd readBE opWidth)

/-! ### one instruction -/

theorem Tq.instAt_bind {α} {code : Code} {iv : Int} {Q : α → State → Prop} {f : Nat → M α} (n : Nat)
    (hi : iv = n) (hn : n < code.insts.size) (hf : Tq (CtxI code iv) Q (f (code.insts[n]!).toNat)) :
    Tq (CtxI code iv) Q (instAt iv >>= f) := by
  apply Tq.assume; intro s0 hs0
  refine Tq.bind (R := fun a s => a = (code.insts[n]!).toNat ∧ s = s0) ?_ (fun a => ?_)
  · apply Tq.intro'; intro s hs; subst hs
    rw [exec_instAt_of hs0 iv n hi hn]
    exact ⟨rfl, rfl⟩
  · apply Tq.assume; intro s1 hs1
    obtain ⟨e, e'⟩ := hs1
    subst e e'
    exact hf.pre (fun s e => by rw [e]; exact hs0)

/-- **one instruction, every path**: from an instruction boundary (`Good`) `step` ends with
    `continue` at an instruction boundary, or — `return` from the loop, Go panic, outside the model —
    in a `Safe` state -/
theorem tq_step (F : FloatOps) : Tq Good StepQ (step F) := by
  apply Tq.assume; intro s0 hg
  obtain ⟨code, hctx, h0, hbd⟩ := hg
  have hw := hctx.wf
  generalize hn : (s0.ip + 1).toNat = n at hbd
  have hip : s0.ip = (n : Int) - 1 := by omega
  refine Tq.pre (X := CtxI code ((n : Int) - 1)) ?_ (fun s e => by rw [e, ← hip]; exact hctx)
  unfold step
  refine Tq.bumpIp_bind ?_
  have e1 : (n : Int) - 1 + 1 = n := by omega
  rw [e1]
  refine Tq.getIp_bind ?_
  refine Tq.instAt_bind n rfl hbd.2 ?_
  refine Tq.bind_keepsI (fun _ => xk_noteTrace _) (fun _ => ?_)
  have hget : code.insts[n]? = some (code.insts[n]!) := by
    rw [getElem!_pos code.insts n hbd.2]; simp [hbd.2]
  exact tq_dispatch F hw hbd _ hget

/-! ### recovered Go panics -/

theorem safe_throwFuel : Keeps Safe throwFuel := by unfold throwFuel; ckeeps Safe

/-- `handlePanic` on the partial state a Go panic leaves: the thrown error is taken by a handler
    (instruction boundary) or `vm.err` is set -/
theorem tq_handlePanic (msg : String) : Tq Safe (fun _ s => s.err = none → Good s) (handlePanic msg) := by
  unfold handlePanic
  refine Tq.getS_bind (fun s0 => ?_)
  refine Tq.pre (X := Safe) ?_ (fun _ h => h.1)
  apply Tq.ite
  · refine Tq.bind_keeps (safe_alloc _ (by simp [Cell.kind])) (fun _ h => h) (fun ea => ?_)
    refine Tq.bind_keeps (safe_alloc _ (by simp [Cell.kind])) (fun _ h => h) (fun ra => ?_)
    refine Tq.bind_keeps safe_throwFuel (fun _ h => h) (fun n => ?_)
    refine Tq.bind (tq_throwF n ra) (fun r => ?_)
    cases r with
    | none => exact Tq.pure (fun s h _ => h.2 rfl)
    | some a =>
      apply Tq.intro'; intro s hs
      rw [exec_modS]
      intro e; cases e
  · apply Tq.intro'; intro s hs
    rw [exec_modS]
    intro e; cases e

/-! ### every instruction boundary of a run -/

/-- **`boundary_good`**: `Good` holds at every instruction boundary of a run that starts `Good` -/
theorem boundary_good (F : FloatOps) {s0 : State} (h0 : Good s0) : ∀ s, Boundary F s0 s → Good s := by
  intro s hb
  induction hb with
  | init => exact h0
  | step hb hstep ih => exact ((tq_step F).elim_ok ih hstep).2 rfl
  | @recover s s1 s' msg hb hstep hp he ih =>
    exact (tq_handlePanic msg).elim_ok ((tq_step F).elim_err ih hstep) hp he

/-- what `Good` says in terms of the state alone -/
theorem Good.fetch {s : State} (h : Good s) : 0 ≤ s.ip + 1 ∧
    ∃ fa c fr, (s.frames[s.curFrame]!).fn = some fa ∧ s.heap[fa]? = some (Cell.fn c fr) ∧
      Bd (s.codes[c]!).insts (s.ip + 1).toNat := by
  obtain ⟨code, hctx, h0, hbd⟩ := h
  obtain ⟨fa, c, fr, g1, g2, g3⟩ := hctx.2.1
  exact ⟨h0, fa, c, fr, g1, g2, by rw [g3]; exact hbd⟩

/-- **`exec_at_starts`** (control-flow integrity): in a run that starts at an instruction boundary
    of well-formed code (`Good`), at every instruction boundary — after any number of instructions,
    calls, returns, thrown errors taken by handlers, finalizers, recovered Go panics — the offset
    `ip + 1` at which the next opcode is fetched is an instruction start of the code of the current
    frame's function.  The VM never executes operand bytes. -/
theorem exec_at_starts (F : FloatOps) {s0 : State} (h0 : Good s0) (s : State) (hb : Boundary F s0 s) :
    0 ≤ s.ip + 1 ∧ ∃ fa c fr, (s.frames[s.curFrame]!).fn = some fa ∧ s.heap[fa]? = some (Cell.fn c fr) ∧
      Bd (s.codes[c]!).insts (s.ip + 1).toNat :=
  (boundary_good F h0 s hb).fetch

/-- … and the frames below resume at instruction starts, handlers store instruction starts -/
theorem exec_at_starts_frames (F : FloatOps) {s0 : State} (h0 : Good s0) (s : State) (hb : Boundary F s0 s) :
    ∀ i, FrOK s.heap s.codes (i < s.curFrame) (s.frames[i]!) :=
  (boundary_good F h0 s hb).safe.2.2.2


/-! ### the prologue of `Run` -/

/-- before the prologue: the code of every function cell is well formed, the frame array has its
    size, no frame stores a bad handler (`Safe` as if the frame stack were `[frames[0]]`) -/
@[reducible] def Safe0 (s : State) : Prop := SafeF s.frames 0 1 s.heap s.codes

section
theorem s0_stackGet (i : Int) : Keeps Safe0 (stackGet i) := by unfold stackGet; ckeeps Safe0
macro_rules | `(tactic| ck_prim) => `(tactic| exact s0_stackGet _)
theorem s0_stackSet (i : Int) (x : V) : Keeps Safe0 (stackSet i x) := by unfold stackSet; ckeeps Safe0
macro_rules | `(tactic| ck_prim) => `(tactic| exact s0_stackSet _ _)
theorem s0_heapGet (a : Addr) : Keeps Safe0 (heapGet a) := by unfold heapGet; ckeeps Safe0
macro_rules | `(tactic| ck_prim) => `(tactic| exact s0_heapGet _)
theorem s0_fnCell (a : Addr) : Keeps Safe0 (fnCell a) := by unfold fnCell; ckeeps Safe0
macro_rules | `(tactic| ck_prim) => `(tactic| exact s0_fnCell _)
theorem s0_alloc (c : Cell) (hc : c.kind ≠ 3) : Keeps Safe0 (alloc c) := by
  apply Keeps.intro'; intro s h
  show Safe0 { s with heap := s.heap.push c }
  obtain ⟨h1, h2, h3, h4⟩ := h
  refine ⟨?_, h2, h3, fun i => (h4 i).mono (fun a' c' f' hs => (push_fn_iff s.heap c a' c' f').mpr (.inl hs)) (fun x => x)⟩
  intro a k fr hx
  rcases (push_fn_iff s.heap c a k fr).mp hx with hx | ⟨_, hx⟩
  · exact h1 a k fr hx
  · subst hx; exact absurd rfl hc
macro_rules | `(tactic| ck_prim) => `(tactic| exact s0_alloc _ (by simp [Cell.kind]))
theorem s0_fillUndefined (lo : Int) (k : Nat) : Keeps Safe0 (fillUndefined lo k) := by unfold fillUndefined; ckeeps Safe0
macro_rules | `(tactic| ck_prim) => `(tactic| exact s0_fillUndefined _ _)
theorem s0_newArray (xs : List V) : Keeps Safe0 (newArray xs) := by unfold newArray; ckeeps Safe0
macro_rules | `(tactic| ck_prim) => `(tactic| exact s0_newArray _)
theorem s0_setLocal (nl : Nat) (i : Int) (x : V) : Keeps Safe0 (setLocal nl i x) := by unfold setLocal; ckeeps Safe0
macro_rules | `(tactic| ck_prim) => `(tactic| exact s0_setLocal _ _ _)
theorem s0_copyLocals (nl : Nat) (xs : List V) : Keeps Safe0 (copyLocals nl xs) := by unfold copyLocals; ckeeps Safe0
macro_rules | `(tactic| ck_prim) => `(tactic| exact s0_copyLocals _ _)
theorem s0_initLocals (args : List V) : Keeps Safe0 (initLocals args) := by unfold initLocals; ckeeps Safe0
theorem s0_prologueA (g : V) : Keeps Safe0 (prologueA g) := by unfold prologueA; ckeeps Safe0
end

/-- the last part of the prologue makes frame 0 the current frame, running the main function from
    offset 0 -/
theorem good_prologueB {s s' : State} (h0 : Safe0 s) (h : exec prologueB s = (.ok (), s')) : Good s' := by
  simp only [prologueB, initCurrentFrame, exec_bind, exec_getS, exec_fnCell] at h
  cases hc : s.heap[s.mainFn]? with
  | none => rw [hc] at h; simp at h
  | some x =>
    rw [hc] at h
    cases x with
    | fn c fr =>
      simp only [exec_modS, hc] at h
      have := (Prod.mk.inj h).2
      subst this
      obtain ⟨h1, h2, h3, h4⟩ := h0
      have hwf : WfCode (s.codes[c]!) := h1 _ c fr hc
      have hsz : 0 < s.frames.size := by rw [h3]; decide
      refine ⟨s.codes[c]!, ⟨⟨h1, rfl, by simpa using h3, ?_⟩, ⟨s.mainFn, c, fr, ?_, hc, rfl⟩, rfl⟩,
        (by show (0 : Int) ≤ -1 + 1; decide), hwf.bd0⟩
      · intro i
        show FrOK s.heap s.codes (i < 0) ((s.frames.modify 0 _)[i]!)
        rw [getElem!_modify]
        split
        · exact .inr ⟨s.mainFn, c, fr, rfl, hc, (fun hs hhs => by cases hhs), fun hlt => absurd hlt (Nat.not_lt_zero _)⟩
        · exact h4 i
      · show ((s.frames.modify 0 _)[0]!).fn = some s.mainFn
        rw [getElem!_modify, if_pos ⟨rfl, hsz⟩]
    | _ => simp at h

/-- **`good_prologue`**: the state a successful prologue of `Run` leaves is an instruction
    boundary of the main function (`ip = -1`: the first fetch is at offset 0) -/
theorem good_prologue (g : V) (args : List V) {s s' : State} (h0 : Safe0 s)
    (h : exec (prologue g args) s = (.ok (), s')) : Good s' := by
  rw [prologue_eq, exec_bind] at h
  have k1 := (s0_prologueA g).elim s h0
  rcases h1 : exec (prologueA g) s with ⟨r1, s1⟩
  rw [h1] at h k1
  cases r1 with
  | error x => cases h
  | ok u1 =>
    simp only at h k1
    rw [exec_bind] at h
    have k2 := (s0_initLocals args).elim s1 k1
    rcases h2 : exec (initLocals args) s1 with ⟨r2, s2⟩
    rw [h2] at h k2
    cases r2 with
    | error x => cases h
    | ok u2 =>
      simp only at h k2
      exact good_prologueB k2 h

end UgoVerif.VM.Cfi
