import UgoVerif.Proofs.RelocRel
/-
  Relocation relation: the primitive accessors of `VM/Base.lean` / `VM/Step.lean`.
-/
set_option linter.unusedVariables false
set_option linter.unusedSimpArgs false
namespace UgoVerif.VM.Reloc
open UgoVerif UgoVerif.Go UgoVerif.VM

variable {P : Params} {ci : Nat → Nat} {c : Nat} {I : Int → Int → Prop}

/-! ### data -/

theorem rel_stackGet (i : Int) : RelE (R P ci c I) (R P ci c I) (RM P) Eq (stackGet i) (stackGet i) := by
  apply RelE.mk'
  intro s t h
  rw [exec_stackGet, exec_stackGet]
  by_cases hb : (decide (i < 0) || decide (i ≥ (stackSize : Int))) = true
  · rw [if_pos hb, if_pos hb]; exact ⟨rfl, h.toRM⟩
  · rw [if_neg hb, if_neg hb]; exact ⟨by rw [h.stack], h⟩

theorem rel_stackSet (i : Int) (v : V) : RelE (R P ci c I) (R P ci c I) (RM P) Eq (stackSet i v) (stackSet i v) := by
  apply RelE.mk'
  intro s t h
  rw [VM.exec_stackSet, VM.exec_stackSet]
  by_cases hb : (decide (i < 0) || decide (i ≥ (stackSize : Int))) = true
  · rw [if_pos hb, if_pos hb]; exact ⟨rfl, h.toRM⟩
  · rw [if_neg hb, if_neg hb]
    exact ⟨rfl, { h with stack := by show t.stack.set! _ _ = s.stack.set! _ _; rw [h.stack] }⟩

theorem rel_getSp : RelE (R P ci c I) (R P ci c I) (RM P) Eq getSp getSp := by
  apply RelE.mk'
  intro s t h
  exact ⟨h.sp.symm, h⟩

theorem rel_setSp (v : Int) : RelE (R P ci c I) (R P ci c I) (RM P) Eq (setSp v) (setSp v) := by
  apply RelE.mk'
  intro s t h
  exact ⟨rfl, { h with sp := rfl }⟩

theorem exec_constAt (i : Nat) (s : State) : exec (constAt i) s =
    match s.consts[i]? with
    | some v => (.ok v, s)
    | none => (.error (.panic s!"runtime error: index out of range [{i}] with length {s.consts.size}"), s) := by
  simp only [constAt, exec_bind, exec_getS]
  cases s.consts[i]? <;> rfl

theorem rel_constAt (i : Nat) : RelE (R P ci c I) (R P ci c I) (RM P) Eq (constAt i) (constAt i) := by
  apply RelE.mk'
  intro s t h
  rw [exec_constAt, exec_constAt, h.consts]
  cases s.consts[i]? with
  | none => exact ⟨rfl, h.toRM⟩
  | some v => exact ⟨rfl, h⟩

theorem rel_stackSlice (lo hi : Int) : RelE (R P ci c I) (R P ci c I) (RM P) Eq (stackSlice lo hi) (stackSlice lo hi) := by
  apply RelE.mk'
  intro s t h
  unfold stackSlice
  by_cases hb : (decide (lo < 0) || decide (hi > (stackSize : Int)) || decide (lo > hi)) = true
  · rw [if_pos hb]; exact ⟨rfl, h.toRM⟩
  · rw [if_neg hb]
    simp only [exec_bind, exec_getS, exec_pure, h.stack]
    exact ⟨trivial, h⟩

/-! ### heap -/

theorem rel_heapGet (a : Addr) : RelE (R P ci c I) (R P ci c I) (RM P)
    (fun x y => x = y ∧ ∀ k fr, x = Cell.fn k fr → P.Entry k) (heapGet a) (heapGet a) := by
  apply RelE.mk'
  intro s t h
  rw [exec_heapGet, exec_heapGet, h.heap]
  cases hc : s.heap[a]? with
  | none => exact ⟨rfl, h.toRM⟩
  | some x => exact ⟨⟨rfl, fun k fr e => h.fnok a k fr (by rw [hc, e])⟩, h⟩

theorem rel_heapGet' (a : Addr) : RelE (R P ci c I) (R P ci c I) (RM P) Eq (heapGet a) (heapGet a) :=
  (rel_heapGet a).conseq (fun _ _ h => h) (fun _ _ h => h) (fun _ _ h => h) (fun _ _ h => h.1)

theorem getElem?_set!_cell (h : Array Cell) (a b : Nat) (x : Cell) :
    (h.set! a x)[b]? = if a = b ∧ a < h.size then some x else h[b]? := by
  simp only [Array.set!_eq_setIfInBounds, Array.getElem?_setIfInBounds]
  by_cases hab : a = b
  · subst hab
    by_cases hl : a < h.size
    · simp [hl]
    · simp [hl]
  · simp [hab]

/-- heap writes of the model never store a function cell -/
theorem rel_heapSet (a : Addr) (x : Cell) (hx : ∀ k fr, x ≠ Cell.fn k fr) :
    RelE (R P ci c I) (R P ci c I) (RM P) Eq (heapSet a x) (heapSet a x) := by
  apply RelE.mk'
  intro s t h
  refine ⟨rfl, { h with heap := ?_, code := ?_, fnok := ?_ }⟩
  · show t.heap.set! a x = s.heap.set! a x
    rw [h.heap]
  · intro i hi b hb
    obtain ⟨h1, h2⟩ := h.code i hi b hb
    refine ⟨by show b < (s.heap.set! a x).size; simpa using h1, ?_⟩
    intro k fr hk
    have hk' : (s.heap.set! a x)[b]? = some (Cell.fn k fr) := hk
    rw [getElem?_set!_cell] at hk'
    split at hk'
    · cases hk'; exact absurd rfl (hx k fr)
    · exact h2 k fr hk'
  · intro b k fr hk
    have hk' : (s.heap.set! a x)[b]? = some (Cell.fn k fr) := hk
    rw [getElem?_set!_cell] at hk'
    split at hk'
    · cases hk'; exact absurd rfl (hx k fr)
    · exact h.fnok b k fr hk'

/-- pushing cells behind the heap: the frames' function cells stay, a new function cell must be enterable -/
theorem R.heapExt {s t : State} (h : R P ci c I s t) (h' : Array Cell)
    (hsz : s.heap.size ≤ h'.size) (hold : ∀ a, a < s.heap.size → h'[a]? = s.heap[a]?)
    (hnew : ∀ a k fr, s.heap.size ≤ a → h'[a]? = some (Cell.fn k fr) → P.Entry k) :
    R P ci c I { s with heap := h' } { t with heap := h' } := by
  refine { h with heap := rfl, code := ?_, fnok := ?_ }
  · intro i hi b hb
    obtain ⟨h1, h2⟩ := h.code i hi b hb
    refine ⟨Nat.lt_of_lt_of_le h1 hsz, ?_⟩
    intro k fr hk
    have hk' : h'[b]? = some (Cell.fn k fr) := hk
    rw [hold b h1] at hk'
    exact h2 k fr hk'
  · intro b k fr hk
    have hk' : h'[b]? = some (Cell.fn k fr) := hk
    by_cases hb : b < s.heap.size
    · rw [hold b hb] at hk'; exact h.fnok b k fr hk'
    · exact hnew b k fr (Nat.le_of_not_lt hb) hk'

theorem rel_alloc (x : Cell) (hx : ∀ k fr, x = Cell.fn k fr → P.Entry k) :
    RelE (R P ci c I) (R P ci c I) (RM P) Eq (alloc x) (alloc x) := by
  apply RelE.mk'
  intro s t h
  show (_ ∧ _)
  refine ⟨by show s.heap.size = t.heap.size; rw [h.heap], ?_⟩
  show R P ci c I { s with heap := s.heap.push x } { t with heap := t.heap.push x }
  rw [h.heap]
  refine h.heapExt _ (by simp) ?_ ?_
  · intro a ha
    rw [Array.getElem?_push]
    have : a ≠ s.heap.size := Nat.ne_of_lt ha
    simp [this]
  · intro a k fr ha hk
    rw [Array.getElem?_push] at hk
    split at hk
    · cases hk; exact hx k fr rfl
    · rw [Array.getElem?_eq_none (by omega)] at hk; cases hk

/-! ### the current frame -/

theorem rel_curFrame : RelE (R P ci c I) (R P ci c I) (RM P)
    (fun f g => FrRel (P.Φ c) (P.BB c) False f g) curFrame curFrame := by
  apply RelE.mk'
  intro s t h
  show (_ ∧ _)
  refine ⟨?_, h⟩
  show FrRel _ _ _ (s.frames[s.curFrame]!) (t.frames[t.curFrame]!)
  rw [h.curFrame]
  have := h.frames s.curFrame h.cur
  rw [h.curc] at this
  exact { this with ip := fun hf => hf.elim }

/-- an update of the current frame that keeps (or clears) its function -/
theorem rel_setCurFrame (f g : Frame → Frame)
    (hfg : ∀ fr gr, FrRel (P.Φ c) (P.BB c) False fr gr → FrRel (P.Φ c) (P.BB c) False (f fr) (g gr))
    (hfn : ∀ fr, (f fr).fn = fr.fn ∨ (f fr).fn = none) :
    RelE (R P ci c I) (R P ci c I) (RM P) Eq (setCurFrame f) (setCurFrame g) := by
  apply RelE.mk'
  intro s t h
  show (_ ∧ _)
  refine ⟨rfl, ?_⟩
  show R P ci c I { s with frames := s.frames.modify s.curFrame f } { t with frames := t.frames.modify t.curFrame g }
  refine { h with fsS := by simp [h.fsS], fsT := by simp [h.fsT], frames := ?_, code := ?_ }
  · intro i hi
    show FrRel _ _ _ ((s.frames.modify s.curFrame f)[i]!) ((t.frames.modify t.curFrame g)[i]!)
    rw [getElem!_modify, getElem!_modify, h.curFrame, h.fsS, h.fsT]
    have hfi := h.frames i hi
    by_cases hci : s.curFrame = i
    · subst hci
      simp only [hi, and_self, if_true]
      have hlt : ¬ (s.curFrame < s.curFrame) := Nat.lt_irrefl _
      rw [h.curc] at hfi ⊢
      have := hfg _ _ { hfi with ip := fun hf => hf.elim }
      exact { this with ip := fun hf => (hlt hf).elim }
    · simp only [hci, false_and, if_false]
      exact hfi
  · intro i hi a ha
    have ha' : ((s.frames.modify s.curFrame f)[i]!).fn = some a := ha
    rw [getElem!_modify, h.fsS] at ha'
    by_cases hci : s.curFrame = i ∧ i < frameSize
    · rw [if_pos hci] at ha'
      rcases hfn (s.frames[i]!) with h1 | h1
      · rw [h1] at ha'; exact h.code i hi a ha'
      · rw [h1] at ha'; cases ha'
    · rw [if_neg hci] at ha'
      exact h.code i hi a ha'

/-! ### whole state -/

theorem rel_getS : RelE (R P ci c I) (R P ci c I) (RM P) (fun a b => R P ci c I a b) getS getS := by
  apply RelE.mk'
  intro s t h
  exact ⟨h, h⟩

end UgoVerif.VM.Reloc
