import UgoVerif.Model.Eval
import UgoVerif.Proofs.ModCache
/-
  `initLocals` (VM/Run.lean) for a main function with `NumParams = NumLocals`, not variadic —
  what `Eval.Run` makes of every fragment — computed slot by slot.
-/
namespace UgoVerif.Proofs.EvalLocals
open UgoVerif UgoVerif.Go UgoVerif.VM UgoVerif.Proofs.ModCache

/-- `locals[i] = Undefined` for the listed `i` -/
def fillU (st : Array V) : List Nat → Array V
  | [] => st
  | i :: r => fillU (st.set! i .undefined) r

/-- `copy(locals, xs)` starting at slot `i`, `locals = stack[:nl]` -/
def copyL (nl : Nat) (st : Array V) : List V → Nat → Array V
  | [], _ => st
  | x :: r, i => copyL nl (if i < nl then st.set! i x else st) r (i + 1)

theorem fillU_size (st : Array V) (l : List Nat) : (fillU st l).size = st.size := by
  induction l generalizing st with
  | nil => rfl
  | cons i r ih => simp [fillU, ih]

theorem copyL_size (nl : Nat) (st : Array V) (xs : List V) (i : Nat) : (copyL nl st xs i).size = st.size := by
  induction xs generalizing st i with
  | nil => rfl
  | cons x r ih =>
    simp only [copyL]
    rw [ih]
    split <;> simp

/-- slots below the copied range keep their value; slot `i + k` receives `xs[k]` -/
theorem copyL_get (nl : Nat) : ∀ (xs : List V) (st : Array V) (i j : Nat), nl ≤ st.size →
    (copyL nl st xs i)[j]? =
      if i ≤ j ∧ j < i + xs.length ∧ j < nl then xs[j - i]? else st[j]? := by
  intro xs
  induction xs with
  | nil => intro st i j _; simp [copyL]; omega
  | cons x r ih =>
    intro st i j hsz
    simp only [copyL]
    have hsz' : nl ≤ (if i < nl then st.set! i x else st).size := by split <;> simp [hsz]
    rw [ih _ (i + 1) j hsz']
    by_cases hij : i = j
    · subst hij
      have h1 : ¬ (i + 1 ≤ i ∧ i < i + 1 + r.length ∧ i < nl) := by omega
      rw [if_neg h1]
      by_cases hnl : i < nl
      · have h2 : i ≤ i ∧ i < i + (x :: r).length ∧ i < nl := by simp; omega
        rw [if_pos h2, if_pos hnl]
        simp [Array.set!_eq_setIfInBounds, Array.getElem?_setIfInBounds]
        omega
      · have h2 : ¬ (i ≤ i ∧ i < i + (x :: r).length ∧ i < nl) := by omega
        rw [if_neg h2, if_neg hnl]
    · have hset : (if i < nl then st.set! i x else st)[j]? = st[j]? := by
        split
        · simp [Array.set!_eq_setIfInBounds, Array.getElem?_setIfInBounds, hij]
        · rfl
      rw [hset]
      by_cases hc : i + 1 ≤ j ∧ j < i + 1 + r.length ∧ j < nl
      · have hc' : i ≤ j ∧ j < i + (x :: r).length ∧ j < nl := by simp; omega
        rw [if_pos hc, if_pos hc']
        have : j - i = (j - (i + 1)) + 1 := by omega
        rw [this]; simp
      · have hc' : ¬ (i ≤ j ∧ j < i + (x :: r).length ∧ j < nl) := by simp at hc ⊢; omega
        rw [if_neg hc, if_neg hc']

theorem exec_stackSet (i : Nat) (v : V) (s : State) (hi : i < stackSize) :
    exec (stackSet (i : Int) v) s = (.ok (), { s with stack := s.stack.set! i v }) := by
  unfold stackSet
  have h1 : ¬ ((i : Int) < 0 || (i : Int) ≥ (stackSize : Int)) = true := by
    simp; omega
  rw [if_neg h1]
  simp [exec, modS, modify, modifyGet, MonadStateOf.modifyGet, monadLift, MonadLift.monadLift, ExceptT.lift,
    ExceptT.run, ExceptT.mk, StateT.run, StateT.modifyGet, Functor.map, StateT.map, bind, StateT.bind, pure, StateT.pure]

/-- the first loop of `initLocals` -/
theorem exec_fill (l : List Nat) (hl : ∀ i ∈ l, i < stackSize) (s : State) :
    exec (forIn l PUnit.unit fun (i : Nat) (_ : PUnit) => (do
        stackSet (↑i) V.undefined
        pure (ForInStep.yield PUnit.unit) : M (ForInStep PUnit))) s
      = (.ok PUnit.unit, { s with stack := fillU s.stack l }) := by
  induction l generalizing s with
  | nil => simp [fillU]; rfl
  | cons i r ih =>
    simp only [List.forIn_cons, exec_bind]
    rw [exec_stackSet i _ s (hl i (by simp))]
    simp only [exec_pure]
    rw [ih (fun j hj => hl j (by simp [hj]))]
    simp [fillU]

/-- `copy(locals, xs)` of `initLocals` -/
theorem exec_copy (nl : Nat) (hnl : nl ≤ stackSize) (xs : List V) (i : Nat) (s : State) :
    exec (forIn xs i fun (x : V) (k : Nat) => (if k < nl then do
          stackSet (↑k) x
          pure (ForInStep.yield (k + 1))
        else pure (ForInStep.yield (k + 1)) : M (ForInStep Nat))) s
      = (.ok (i + xs.length), { s with stack := copyL nl s.stack xs i }) := by
  induction xs generalizing s i with
  | nil => simp [copyL]; rfl
  | cons x r ih =>
    simp only [List.forIn_cons, exec_bind]
    by_cases hk : i < nl
    · rw [if_pos hk]
      simp only [exec_bind]
      rw [exec_stackSet i _ s (by omega)]
      simp only [exec_pure]
      rw [ih]
      simp [copyL, hk]
      omega
    · rw [if_neg hk]
      simp only [exec_pure]
      rw [ih]
      simp [copyL, hk]
      omega

theorem fillU_get : ∀ (l : List Nat) (st : Array V) (j : Nat),
    (fillU st l)[j]? = if j ∈ l ∧ j < st.size then some V.undefined else st[j]? := by
  intro l
  induction l with
  | nil => intro st j; simp [fillU]
  | cons i r ih =>
    intro st j
    simp only [fillU]
    rw [ih]
    by_cases hij : i = j
    · subst hij
      by_cases hsz : i < st.size
      · simp [Array.set!_eq_setIfInBounds, hsz]
      · simp [Array.set!_eq_setIfInBounds, hsz]
    · have hne : ¬ j = i := fun h => hij h.symm
      simp [Array.set!_eq_setIfInBounds, Array.getElem?_setIfInBounds, hij, hne]

theorem exec_fnCell (s : State) (a ci : Nat) (free : Option (List Addr))
    (h : s.heap[a]? = some (.fn ci free)) : exec (fnCell a) s = (.ok (s.codes[ci]!, free), s) := by
  unfold fnCell heapGet
  simp only [exec_bind]
  have : exec getS s = (.ok s, s) := rfl
  simp only [this, h, exec_pure, exec_bind]

/-- `initLocals` for `NumParams = NumLocals`, not variadic: slot `j` of the locals receives
    `args[j]` (undefined when there is none); no other slot changes; no panic -/
theorem initLocals_session (args : List V) (s : State) (ci : Nat) (free : Option (List Addr))
    (hfn : s.heap[s.mainFn]? = some (.fn ci free))
    (hnp : (s.codes[ci]!).numParams = (s.codes[ci]!).numLocals) (hva : (s.codes[ci]!).variadic = false)
    (hnl : (s.codes[ci]!).numLocals ≤ stackSize) (hsz : s.stack.size = stackSize) :
    ∃ st', exec (initLocals args) s = (.ok (), { s with stack := st' }) ∧ st'.size = stackSize ∧
      (∀ j, j < (s.codes[ci]!).numLocals → st'[j]? = some (args.getD j .undefined)) ∧
      (∀ j, (s.codes[ci]!).numLocals ≤ j → st'[j]? = s.stack[j]?) := by
  generalize hc : s.codes[ci]! = code at *
  obtain ⟨insts, np, nl, va⟩ := code
  simp only at hnp hva hnl
  subst hva
  subst hnp
  unfold initLocals
  simp only [exec_bind]
  have hg : exec getS s = (.ok s, s) := rfl
  simp only [hg, exec_fnCell s s.mainFn ci free hfn, hc]
  have h1 : ¬ np > stackSize := by omega
  simp only [h1, if_false, exec_bind]
  rw [Std.Legacy.Range.forIn_eq_forIn_range']
  have hr : List.range' [:np].start [:np].size [:np].step = List.range' 0 np 1 := by
    simp [Std.Legacy.Range.size]
  have hmem : ∀ i ∈ List.range' 0 np 1, i < stackSize := by
    intro i hi; simp [List.mem_range'] at hi; omega
  rw [hr, exec_fill _ hmem s]
  simp only
  -- the locals after the first loop
  generalize hF : fillU s.stack (List.range' 0 np 1) = F
  have hFsz : F.size = stackSize := by rw [← hF, fillU_size, hsz]
  have hFget : ∀ j, F[j]? = if j < np then some V.undefined else s.stack[j]? := by
    intro j
    rw [← hF, fillU_get]
    by_cases hj : j < np
    · have : j ∈ List.range' 0 np 1 ∧ j < s.stack.size := by simp [List.mem_range']; omega
      rw [if_pos this, if_pos hj]
    · have : ¬ (j ∈ List.range' 0 np 1 ∧ j < s.stack.size) := by simp [List.mem_range']; omega
      rw [if_neg this, if_neg hj]
  by_cases h0 : np = 0
  · subst h0
    refine ⟨F, by simp; rfl, hFsz, by simp, ?_⟩
    intro j _
    simpa using hFget j
  · have hnp0 : ¬ ((np : Int) ≤ 0) := by omega
    simp only [hnp0, if_false, Bool.false_eq_true]
    by_cases hlt : args.length < np
    · have hlt' : ((args.length : Int) < (np : Int)) := by omega
      simp only [hlt', if_true, exec_bind]
      rw [exec_copy np hnl args 0 _]
      simp only [exec_pure]
      refine ⟨copyL np F args 0, rfl, by rw [copyL_size, hFsz], ?_, ?_⟩
      · intro j hj
        rw [copyL_get np args F 0 j (by omega), hFget]
        by_cases hja : j < args.length
        · have : 0 ≤ j ∧ j < 0 + args.length ∧ j < np := by omega
          rw [if_pos this]
          simp [List.getD, List.getElem?_eq_getElem hja]
        · have : ¬ (0 ≤ j ∧ j < 0 + args.length ∧ j < np) := by omega
          rw [if_neg this, if_pos hj]
          simp [List.getD, List.getElem?_eq_none (by omega : args.length ≤ j)]
      · intro j hj
        rw [copyL_get np args F 0 j (by omega), hFget]
        have : ¬ (0 ≤ j ∧ j < 0 + args.length ∧ j < np) := by omega
        rw [if_neg this, if_neg (by omega)]
    · have hlt' : ¬ ((args.length : Int) < (np : Int)) := by omega
      have hb : ¬ ((decide ((np : Int) - 1 < 0) || decide ((np : Int) - 1 ≥ (np : Int))) = true) := by
        simp; omega
      have hcast : ((np : Int) - 1) = ((np - 1 : Nat) : Int) := by omega
      simp only [hlt', if_false, hb, exec_bind]
      rw [hcast]
      simp only [Bool.false_eq_true, if_false]
      rw [exec_stackSet (np - 1) _ _ (by omega)]
      simp only [Int.toNat_natCast]
      rw [exec_copy np hnl _ 0 _]
      simp only [exec_pure]
      refine ⟨copyL np (F.set! (np - 1) args[np - 1]!) (args.take (np - 1)) 0, rfl, by simp [copyL_size, hFsz], ?_, ?_⟩
      · intro j hj
        rw [copyL_get np _ _ 0 j (by simp [hFsz]; omega)]
        by_cases hja : j < np - 1
        · have : 0 ≤ j ∧ j < 0 + (args.take (np - 1)).length ∧ j < np := by simp; omega
          rw [if_pos this]
          have hjl : j < args.length := by omega
          simp [List.getD, List.getElem?_take, hja, List.getElem?_eq_getElem hjl]
        · have : ¬ (0 ≤ j ∧ j < 0 + (args.take (np - 1)).length ∧ j < np) := by simp; omega
          rw [if_neg this]
          have hje : j = np - 1 := by omega
          subst hje
          have hjl : np - 1 < args.length := by omega
          have h3 : np - 1 < F.size := by rw [hFsz]; omega
          simp [Array.set!_eq_setIfInBounds, h3, List.getD, List.getElem?_eq_getElem hjl,
            getElem!_pos args (np - 1) hjl]
      · intro j hj
        rw [copyL_get np _ _ 0 j (by simp [hFsz]; omega)]
        have : ¬ (0 ≤ j ∧ j < 0 + (args.take (np - 1)).length ∧ j < np) := by omega
        rw [if_neg this]
        have hne : ¬ np - 1 = j := by omega
        simp only [Array.set!_eq_setIfInBounds, Array.getElem?_setIfInBounds, hne, if_false]
        rw [hFget, if_neg (by omega)]

end UgoVerif.Proofs.EvalLocals
