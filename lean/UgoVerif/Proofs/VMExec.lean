import UgoVerif.Proofs.ModCache
/-
  Small-step execution lemmas for the VM model's primitive accessors (`exec m s` runs a
  model computation on a state; defined in Proofs/ModCache).
-/
namespace UgoVerif.Proofs.VMExec
open UgoVerif UgoVerif.Go UgoVerif.VM UgoVerif.Proofs.ModCache

theorem exec_getS (s : State) : exec getS s = (.ok s, s) := rfl
theorem exec_modS (f : State → State) (s : State) : exec (modS f) s = (.ok (), f s) := rfl
theorem exec_curFrame (s : State) : exec curFrame s = (.ok (s.frames[s.curFrame]!), s) := rfl
theorem exec_setCurFrame (f : Frame → Frame) (s : State) :
    exec (setCurFrame f) s = (.ok (), { s with frames := s.frames.modify s.curFrame f }) := rfl
theorem exec_getSp (s : State) : exec getSp s = (.ok s.sp, s) := rfl
theorem exec_setSp (v : Int) (s : State) : exec (setSp v) s = (.ok (), { s with sp := v }) := rfl
theorem exec_getIp (s : State) : exec getIp s = (.ok s.ip, s) := rfl
theorem exec_setIp (v : Int) (s : State) : exec (setIp v) s = (.ok (), { s with ip := v }) := rfl
theorem exec_bumpIp (n : Int) (s : State) : exec (bumpIp n) s = (.ok (), { s with ip := s.ip + n }) := rfl

theorem exec_stackSet (i : Int) (v : V) (s : State) (h : 0 ≤ i ∧ i < (stackSize : Int)) :
    exec (stackSet i v) s = (.ok (), { s with stack := s.stack.set! i.toNat v }) := by
  unfold stackSet
  have : ¬ (i < 0 || i ≥ (stackSize : Int)) = true := by
    simp; omega
  simp only [this, if_false]
  rfl

theorem exec_stackGet (i : Int) (s : State) (h : 0 ≤ i ∧ i < (stackSize : Int)) :
    exec (stackGet i) s = (.ok (s.stack[i.toNat]!), s) := by
  unfold stackGet
  have : ¬ (i < 0 || i ≥ (stackSize : Int)) = true := by
    simp; omega
  simp only [exec_bind, exec_getS]
  rw [if_neg this]
  rfl

theorem exec_heapSet (a : Addr) (c : Cell) (s : State) :
    exec (heapSet a c) s = (.ok (), { s with heap := s.heap.set! a c }) := rfl

theorem exec_pushV (v : V) (s : State) (h : 0 ≤ s.sp ∧ s.sp < (stackSize : Int)) :
    exec (pushV v) s = (.ok (), { s with stack := s.stack.set! s.sp.toNat v, sp := s.sp + 1 }) := by
  unfold pushV
  simp only [exec_bind, exec_getSp, exec_stackSet _ _ _ h, exec_setSp]

/-- handler stack of the current frame (innermost first) -/
def handlersOf (s : State) : Option (List Handler) := (s.frames[s.curFrame]!).handlers

theorem handlersOf_modify (s : State) (g : Frame → Frame) (hc : s.curFrame < s.frames.size) :
    handlersOf { s with frames := s.frames.modify s.curFrame g } = (g (s.frames[s.curFrame]!)).handlers := by
  unfold handlersOf
  simp [hc, Array.getElem_modify]

theorem hasHandler_of (s : State) (h : Handler) (r : List Handler) (hh : handlersOf s = some (h :: r)) :
    hasHandler (s.frames[s.curFrame]!) = true := by
  unfold handlersOf at hh
  simp [hasHandler, hh]

theorem lastHandler_of (s : State) (h : Handler) (r : List Handler) (hh : handlersOf s = some (h :: r)) :
    lastHandler (s.frames[s.curFrame]!) = some h := by
  unfold handlersOf at hh
  simp [lastHandler, hh]

/-! ### loops over stack slots, allocation, slices -/

set_option linter.unusedSimpArgs false
set_option linter.unusedVariables false

theorem exec_forIn_list_stackSet (v : V) (l : List Nat) (s : State)
    (f : Nat → Int) (hb : ∀ k ∈ l, 0 ≤ f k ∧ f k < (stackSize : Int)) :
    exec (forIn l () (fun k _ => do stackSet (f k) v; pure (ForInStep.yield ()))) s =
      (.ok (), { s with stack := l.foldl (fun st k => st.set! (f k).toNat v) s.stack }) := by
  induction l generalizing s with
  | nil => simp [exec_pure]
  | cons k r ih =>
    simp only [List.forIn_cons, exec_bind]
    rw [exec_stackSet _ _ _ (hb k (by simp))]
    simp only [exec_pure]
    rw [ih _ (fun k hk => hb k (by simp [hk]))]
    simp

/-- the Go loop `for k := 0; k < n; k++ { vm.stack[f(k)] = v }` -/
theorem exec_range_stackSet (v : V) (n : Nat) (s : State) (f : Nat → Int)
    (hb : ∀ k, k < n → 0 ≤ f k ∧ f k < (stackSize : Int)) :
    exec (forIn [:n] PUnit.unit (fun k _ => do stackSet (f k) v; pure (ForInStep.yield PUnit.unit))) s =
      (.ok PUnit.unit, { s with stack := (List.range' 0 n).foldl (fun st k => st.set! (f k).toNat v) s.stack }) := by
  simp only [Std.Legacy.Range.forIn_eq_forIn_range', Std.Legacy.Range.size]
  have := exec_forIn_list_stackSet v (List.range' 0 n) s f (by
    intro k hk; simp [List.mem_range'] at hk; exact hb k (by omega))
  simpa using this

theorem exec_alloc (c : Cell) (s : State) : exec (alloc c) s = (.ok s.heap.size, { s with heap := s.heap.push c }) := rfl

theorem exec_newArray (xs : List V) (s : State) :
    exec (newArray xs) s = (.ok (.arr s.heap.size 0 xs.length), { s with heap := s.heap.push (.arr xs.toArray) }) := by
  unfold newArray
  simp only [exec_bind, exec_alloc, exec_pure]

theorem exec_stackSlice (lo hi : Int) (s : State) (h : 0 ≤ lo ∧ lo ≤ hi ∧ hi ≤ (stackSize : Int)) :
    exec (stackSlice lo hi) s = (.ok ((s.stack.toList.drop lo.toNat).take (hi - lo).toNat), s) := by
  unfold stackSlice
  have : ¬ ((decide (lo < 0) || decide (hi > (stackSize : Int)) || decide (lo > hi)) = true) := by
    simp; omega
  simp only [this, Bool.false_eq_true, ↓reduceIte, exec_bind, exec_getS, exec_pure]


end UgoVerif.Proofs.VMExec
