import UgoVerif.Proofs.RelocMain
import UgoVerif.Proofs.RelocConv
/-
  The instance of the relocation parameters for the version-1 converter: source program = the
  functions in the version-1 layout, target program = each function through `convFn`, offset map
  `newOff`, instruction offsets = those of the version-1 decoding.
-/
set_option linter.unusedVariables false
set_option linter.unusedSimpArgs false
namespace UgoVerif.VM.Reloc
open UgoVerif UgoVerif.Go UgoVerif.VM
open UgoVerif.Model.Bytecode UgoVerif.Model.V1

/-- `convCompFuncV1ToV2` on one function of the VM model (fields other than the instructions are
    untouched; a stream the converter rejects is left as it is) -/
def convCode (c : Code) : Code :=
  match convFn c.insts.toList [] with
  | .ok (out, _) => { c with insts := out.toArray }
  | _ => c

/-- `convBytecodeV1ToV2` on the functions of a program -/
def convCodes (cs : Array Code) : Array Code := cs.map convCode

def convParams (cs : Array Code) : Params :=
  { wide := false, cs := cs, ct := convCodes cs,
    Φ := fun k => newOff (cs[k]!).insts.toList,
    BB := fun k o => ∃ is, decodeV1 (cs[k]!).insts.toList = some is ∧ ∃ x ∈ is, x.off = o }

/-- every function of the version-1 program decodes and is well formed (`WF1`: jump / try operands
    are instruction offsets, the last instruction is RETURN) -/
def WFProg (cs : Array Code) : Prop :=
  ∀ k, k < cs.size → ∃ is, decodeV1 (cs[k]!).insts.toList = some is ∧ WF1 is

theorem convCode_numParams (c : Code) : (convCode c).numParams = c.numParams := by
  unfold convCode; split <;> rfl
theorem convCode_numLocals (c : Code) : (convCode c).numLocals = c.numLocals := by
  unfold convCode; split <;> rfl
theorem convCode_variadic (c : Code) : (convCode c).variadic = c.variadic := by
  unfold convCode; split <;> rfl

theorem convCodes_get (cs : Array Code) (k : Nat) :
    (convCodes cs)[k]! = if k < cs.size then convCode cs[k]! else default := by
  unfold convCodes
  by_cases hk : k < cs.size
  · simp [hk]
  · simp [hk]


theorem convParams_OK (cs : Array Code) (h : WFProg cs) : (convParams cs).OK := by
  refine ⟨by simp [convParams, convCodes], ?_, ?_, ?_, ?_⟩
  · intro c
    show ((convCodes cs)[c]!).numParams = _
    rw [convCodes_get]; split
    · exact convCode_numParams _
    · rename_i hc
      have : cs[c]! = default := by simp [hc]
      show _ = (cs[c]!).numParams
      rw [this]
  · intro c
    show ((convCodes cs)[c]!).numLocals = _
    rw [convCodes_get]; split
    · exact convCode_numLocals _
    · rename_i hc
      have : cs[c]! = default := by simp [hc]
      show _ = (cs[c]!).numLocals
      rw [this]
  · intro c
    show ((convCodes cs)[c]!).variadic = _
    rw [convCodes_get]; split
    · exact convCode_variadic _
    · rename_i hc
      have : cs[c]! = default := by simp [hc]
      show _ = (cs[c]!).variadic
      rw [this]
  · intro c hc
    obtain ⟨is, hd, hwf⟩ := h c hc
    obtain ⟨out, m, hcv, _⟩ := Props.C11.conv_decodes (cs[c]!).insts.toList [] is hd
    have hrel := codeRel_conv _ [] is hd hwf out m hcv
    have hB : (convParams cs).BB c = fun o => ∃ x ∈ is, x.off = o := by
      funext o
      apply propext
      constructor
      · rintro ⟨is', hd', hx⟩
        rw [hd] at hd'; cases hd'; exact hx
      · intro hx; exact ⟨is, hd, hx⟩
    have hT : ((convParams cs).ct[c]!).insts = out.toArray := by
      show ((convCodes cs)[c]!).insts = _
      rw [convCodes_get, if_pos (show c < cs.size from hc)]
      unfold convCode
      rw [hcv]
    show CodeRel false (newOff (cs[c]!).insts.toList) ((convParams cs).BB c) (cs[c]!).insts ((convParams cs).ct[c]!).insts
    rw [hB, hT]
    simpa using hrel

/-- a decodable non-empty stream starts with an instruction at offset 0 -/
theorem decode_first (ins : Bytes) (is : List Instr) (hd : decodeV1 ins = some is) (hne : is ≠ []) :
    ∃ x ∈ is, x.off = 0 := by
  unfold decodeV1 decodeAll at hd
  cases ins with
  | nil => simp [decodeAllAux] at hd; exact absurd hd hne
  | cons b tail =>
    obtain ⟨ws, args, is', _, _, _, _, his⟩ :=
      decodeAux_cons (tbl := Gen.Opcodes.V1.opcodeOperands) (fun _ _ h => UgoVerif.Proofs.V1.v1_supported h) hd
    exact ⟨_, by rw [his]; exact List.mem_cons_self, rfl⟩

theorem convParams_entry (cs : Array Code) (h : WFProg cs) (k : Nat) (hk : k < cs.size) : (convParams cs).Entry k := by
  obtain ⟨is, hd, hwf⟩ := h k hk
  refine ⟨hk, ⟨is, hd, ?_⟩, Props.C11.newOff_zero _⟩
  apply decode_first _ is hd
  obtain ⟨pre, x, hx, _⟩ := hwf.last
  rw [hx]; simp

end UgoVerif.VM.Reloc
