import UgoVerif.Proofs.VMThrow
/-
  C06 helper layer 4: every opcode preserves the invariants.  From an instruction-boundary
  state (`VInvB`) each `exec<Op>` ends either normally in a boundary state again, or with an
  exception (Go panic / outside the model) in a state that still satisfies `VInv` — the
  partial state Go leaves at the panic site, which is what the recovery path starts from.
-/
set_option linter.unusedSimpArgs false
set_option linter.unusedVariables false
set_option mvcgen.warning false
namespace UgoVerif.Proofs.VM
open UgoVerif UgoVerif.Go UgoVerif.VM Std.Do

/-- before an instruction: boundary invariant, no error recorded yet -/
def StepPre (np : Bool) (s : State) : Prop := VInvB s ∧ s.err = none ∧ s.noPanic = np

/-- after an instruction that completed: boundary invariant; `continue` leaves `vm.err` unset;
    a `return` from `loop` without error leaves the result below a positive stack pointer -/
def StepOk (np : Bool) (r : Ctl) (s : State) : Prop :=
  VInv s ∧ s.noPanic = np ∧
    (match r with
     | .next => 0 ≤ s.sp ∧ curFn s ≠ none ∧ s.err = none
     | .ret => (s.err = none → 1 ≤ s.sp))

/-- after an instruction that panicked (or left the model): the recovery-path invariant -/
def StepExc (np : Bool) (s : State) : Prop := VInv s ∧ s.noPanic = np

abbrev StepSpec (np : Bool) (m : M Ctl) : Prop :=
  ⦃fun s => ⌜StepPre np s⌝⦄ m ⦃post⟨fun r s => ⌜StepOk np r s⌝, fun _ s => ⌜StepExc np s⌝⟩⦄

/-- the control part without `sp` and `ip` (loop invariants of opcodes that clear stack slots) -/
def cpx (s : State) : CP := { cp s with sp := 0, ip := 0 }

/-- closes the verification conditions of opcodes that only move `sp` -/
macro "vm_vc1" : tactic => `(tactic| (
  try simp only [cpx, cp, CP.mk.injEq] at *
  try simp_all +zetaDelta [stackSize]
  try omega
  try (intros; split <;> simp_all <;> omega)))

macro "vm_vc" : tactic => `(tactic| (
  try simp only [wrap_iff, StepOk, StepExc, StepPre, VInvB, VInv, curFn, FailOk, FailExc] at *
  intros
  first | (cases ‹Ctl› <;> vm_vc1) | vm_vc1))

macro "step_start" : tactic => `(tactic| (apply triple_of_fixed'; intro s0 hpre))

theorem clearDown_specF (hi lo : Int) (c0 : CP) :
    ⦃fun s => ⌜c0 = cp s ∧ (False → 0 ≤ lo ∧ hi < 2048)⌝⦄ clearDown hi lo
    ⦃post⟨fun _ s => ⌜cp s = c0⌝, fun e s => ⌜cp s = c0 ∧ ¬False ∧ ∃ m, e = .panic m⌝⟩⦄ := clearDown_spec hi lo c0 False

theorem throwF_specF (fuel : Nat) (err : Addr) (c0 : CP) :
    ⦃fun s => ⌜c0 = cp s ∧ ThrowPre False True fuel s⌝⦄ throwF fuel err
    ⦃post⟨fun r s => ⌜ThrowOk c0 err r s⌝, fun e s => ⌜ThrowExc False True c0 e s⌝⟩⦄ := throwF_spec False True fuel err c0

syntax "step_gen" "[" Lean.Parser.Tactic.simpLemma,* "]" : tactic
macro_rules
  | `(tactic| step_gen [$ids,*]) =>
    `(tactic| mvcgen [pushV, bumpIp, getIp, setIp, getSp, setSp, getS, modS, stackGet, stackSet, curFrame,
        UgoVerif.VM.panic, unsupported, $ids,*])

theorem execPop_ok (np : Bool) : StepSpec np execPop := by
  step_start; step_gen [execPop]; all_goals vm_vc

theorem execConstant_ok (np : Bool) : StepSpec np execConstant := by
  step_start; step_gen [execConstant]; all_goals vm_vc

theorem execGetLocal_ok (np : Bool) : StepSpec np execGetLocal := by
  step_start; step_gen [execGetLocal]; all_goals vm_vc

theorem execSetLocal_ok (np : Bool) : StepSpec np execSetLocal := by
  step_start; step_gen [execSetLocal]; all_goals vm_vc

theorem execBinaryOp_ok (np : Bool) (F : FloatOps) : StepSpec np (execBinaryOp F) := by
  step_start; step_gen [execBinaryOp, failWith_spec]; all_goals vm_vc

theorem execAndJump_ok (np : Bool) : StepSpec np execAndJump := by
  step_start; step_gen [execAndJump]; all_goals vm_vc

theorem execOrJump_ok (np : Bool) : StepSpec np execOrJump := by
  step_start; step_gen [execOrJump]; all_goals vm_vc

theorem execEqual_ok (np : Bool) (F : FloatOps) (op : Nat) : StepSpec np (execEqual F op) := by
  step_start; step_gen [execEqual]; all_goals vm_vc

theorem execTrue_ok (np : Bool) : StepSpec np execTrue := by
  step_start; step_gen [execTrue]; all_goals vm_vc

theorem execFalse_ok (np : Bool) : StepSpec np execFalse := by
  step_start; step_gen [execFalse]; all_goals vm_vc

theorem execGetBuiltin_ok (np : Bool) : StepSpec np execGetBuiltin := by
  step_start; step_gen [execGetBuiltin]; all_goals vm_vc

theorem execJump_ok (np : Bool) : StepSpec np execJump := by
  step_start; step_gen [execJump]; all_goals vm_vc

theorem execJumpFalsy_ok (np : Bool) : StepSpec np execJumpFalsy := by
  step_start; step_gen [execJumpFalsy]; all_goals vm_vc

theorem execGetGlobal_ok (np : Bool) : StepSpec np execGetGlobal := by
  step_start; step_gen [execGetGlobal, failWith_spec]; all_goals vm_vc

theorem execSetGlobal_ok (np : Bool) : StepSpec np execSetGlobal := by
  step_start; step_gen [execSetGlobal, failWith_spec]; all_goals vm_vc

theorem execSetIndex_ok (np : Bool) : StepSpec np execSetIndex := by
  step_start; step_gen [execSetIndex, failWith_spec]; all_goals vm_vc

theorem execGetFree_ok (np : Bool) : StepSpec np execGetFree := by
  step_start; step_gen [execGetFree]; all_goals vm_vc

theorem execSetFree_ok (np : Bool) : StepSpec np execSetFree := by
  step_start; step_gen [execSetFree]; all_goals vm_vc

theorem execGetLocalPtr_ok (np : Bool) : StepSpec np execGetLocalPtr := by
  step_start; step_gen [execGetLocalPtr]; all_goals vm_vc

theorem execGetFreePtr_ok (np : Bool) : StepSpec np execGetFreePtr := by
  step_start; step_gen [execGetFreePtr]; all_goals vm_vc

theorem execDefineLocal_ok (np : Bool) : StepSpec np execDefineLocal := by
  step_start; step_gen [execDefineLocal]; all_goals vm_vc

theorem execNull_ok (np : Bool) : StepSpec np execNull := by
  step_start; step_gen [execNull]; all_goals vm_vc

theorem execNoOp_ok (np : Bool) : StepSpec np execNoOp := by
  step_start; step_gen [execNoOp]; all_goals vm_vc

theorem execUnknown_ok (np : Bool) (op : Nat) : StepSpec np (execUnknown op) := by
  step_start; step_gen [execUnknown]; all_goals vm_vc

theorem execLoadModule_ok (np : Bool) : StepSpec np execLoadModule := by
  step_start; step_gen [execLoadModule]; all_goals vm_vc

theorem execStoreModule_ok (np : Bool) : StepSpec np execStoreModule := by
  step_start; step_gen [execStoreModule]; all_goals vm_vc

theorem execIterInit_ok (np : Bool) : StepSpec np execIterInit := by
  step_start; step_gen [execIterInit, failWith_spec]; all_goals vm_vc

theorem execIterNext_ok (np : Bool) (op : Nat) : StepSpec np (execIterNext op) := by
  step_start; step_gen [execIterNext]; all_goals vm_vc

theorem execUnary_ok (np : Bool) (F : FloatOps) : StepSpec np (execUnary F) := by
  step_start; step_gen [execUnary, failWith_spec]; all_goals vm_vc

theorem execSliceIndex_ok (np : Bool) : StepSpec np execSliceIndex := by
  step_start; step_gen [execSliceIndex, failWith_spec]; all_goals vm_vc

theorem execArray_ok (np : Bool) : StepSpec np execArray := by
  apply triple_of_fixed'; intro s0 hpre
  mvcgen [pushV, bumpIp, getIp, setIp, getSp, setSp, getS, modS, stackGet, stackSet, curFrame, UgoVerif.VM.panic, unsupported, execArray, stackSlice]
  invariants
  · post⟨fun _ s => ⌜cpx s = cpx s0⌝, fun _ s => ⌜Wrap (StepExc np s)⌝⟩
  all_goals vm_vc

theorem execMap_ok (np : Bool) : StepSpec np execMap := by
  apply triple_of_fixed'; intro s0 hpre
  mvcgen [pushV, bumpIp, getIp, setIp, getSp, setSp, getS, modS, stackGet, stackSet, curFrame, UgoVerif.VM.panic, unsupported, execMap]
  invariants
  · post⟨fun _ s => ⌜cp s = cp s0⌝, fun _ s => ⌜Wrap (StepExc np s)⌝⟩
  all_goals vm_vc

theorem execClosure_ok (np : Bool) : StepSpec np execClosure := by
  apply triple_of_fixed'; intro s0 hpre
  mvcgen [pushV, bumpIp, getIp, setIp, getSp, setSp, getS, modS, stackGet, stackSet, curFrame, UgoVerif.VM.panic, unsupported, execClosure]
  invariants
  · post⟨fun _ s => ⌜cp s = cp s0⌝, fun _ s => ⌜Wrap (StepExc np s)⌝⟩
  all_goals vm_vc

theorem execGetIndex_ok (np : Bool) : StepSpec np execGetIndex := by
  apply triple_of_fixed'; intro s0 hpre
  mvcgen [pushV, bumpIp, getIp, setIp, getSp, setSp, getS, modS, stackGet, stackSet, curFrame, UgoVerif.VM.panic, unsupported, execGetIndex, failWith_spec]
  invariants
  · post⟨fun p s => ⌜(p.2.1 = none ∧ cp s = cp s0) ∨ (∃ r, p.2.1 = some r ∧ p.1.suffix = [] ∧ Wrap (StepOk np r s))⌝,
         fun _ s => ⌜Wrap (StepExc np s)⌝⟩
  all_goals vm_vc

/-! ### opcodes that touch frames and handlers -/

theorem frameOK_pushHandler {f : Frame} (hf : FrameOK f) (hfn : f.fn ≠ none) (h : Handler) (hsp : 0 ≤ h.sp) :
    FrameOK { f with handlers := some (h :: f.handlers.getD []) } := by
  constructor
  · intro _; exact hfn
  · intro hs hhs x hx
    simp at hhs; subst hhs
    rcases List.mem_cons.mp hx with hx | hx
    · subst hx; exact hsp
    · cases hh : f.handlers with
      | none => simp [hh] at hx
      | some l => simp [hh] at hx; exact hf.2 l hh x hx

/-- a state that differs from a boundary state by an update `g` of the current frame -/
theorem vinv_setCur {s0 t : State} (hv : VInv s0) (g : Frame → Frame)
    (hfr : t.frames = s0.frames.modify s0.curFrame g) (hcur : t.curFrame = s0.curFrame)
    (hsz : t.stack.size = s0.stack.size) (hg : FrameOK (g s0.frames[s0.curFrame]!)) : VInv t := by
  simp only [VInv]; rw [hfr, hcur, hsz]; exact hv.modify _ _ hg

theorem curFn_setCur {s0 t : State} (hv : VInv s0) (g : Frame → Frame)
    (hfr : t.frames = s0.frames.modify s0.curFrame g) (hcur : t.curFrame = s0.curFrame)
    (hfn : (g s0.frames[s0.curFrame]!).fn ≠ none) : curFn t ≠ none := by
  simp only [curFn]; rw [hfr, hcur, get!_modify_self _ _ _ hv.lt_size]; exact hfn

/-- the current frame -/
abbrev curF (s : State) : Frame := s.frames[s.curFrame]!

/-- the control part without the frames array -/
def cpf (s : State) : CP := { cp s with frames := #[] }

/-- `setCurFrame g` (an update of `*vm.curFrame`): allowed when the updated frame is still OK;
    afterwards only the current frame differs, and it is `g` of the old one -/
theorem setCurFrame_spec (g : Frame → Frame) : ∀ (c0 : CP),
    ⦃fun s => ⌜c0 = cp s ∧ (VInv s ∧ FrameOK (g (curF s)))⌝⦄ setCurFrame g
    ⦃post⟨fun _ s => ⌜VInv s ∧ cpf s = { c0 with frames := #[] } ∧ curF s = g (c0.frames[c0.curFrame]!)⌝,
          fun _ _ => ⌜False⌝⟩⦄ := by
  apply triple_of_fixed
  intro s0 ⟨hv, hg⟩
  mvcgen [setCurFrame, modS]
  subst_vars
  rename_i s t
  rw [wrap_iff]
  refine ⟨vinv_setCur hv g rfl rfl rfl hg, by simp +zetaDelta [cpf, cp], ?_⟩
  show (s.frames.modify s.curFrame g)[s.curFrame]! = _
  rw [get!_modify_self _ _ _ hv.lt_size]; rfl

/-- `errHandlers.findFinally(upto)` only pops handlers of the current frame -/
def FFPost (c0 : CP) (s : State) : Prop :=
  VInv s ∧ cpf s = { c0 with frames := #[] } ∧ (curF s).fn = (c0.frames[c0.curFrame]!).fn

/-- before a call: the callee slot `stack[sp-numArgs-1]` was read, so it is a valid index -/
def CallPre (numArgs : Int) (s : State) : Prop :=
  VInv s ∧ 0 ≤ s.sp - numArgs - 1 ∧ 0 ≤ numArgs ∧ curFn s ≠ none

def CallOk (c0 : CP) (r : Except OpErr Unit) (s : State) : Prop :=
  VInv s ∧ s.noPanic = c0.noPanic ∧ s.err = c0.err ∧
    (match r with | .ok _ => 0 ≤ s.sp ∧ curFn s ≠ none | .error _ => True)

def CallExc (c0 : CP) (s : State) : Prop := VInv s ∧ s.noPanic = c0.noPanic

macro "vm_fvc1" : tactic => `(tactic| (
  try simp only [cpf, cpx, cp, CP.mk.injEq] at *
  try split_ands
  try simp_all +zetaDelta [stackSize, fn_setLast, fn_popHandler]
  try omega
  try grind [fn_setLast, fn_popHandler, frameOK_setLast, frameOK_popHandler, frameOK_pushHandler, CInv.get!,
    hasHandler_setLast, lastHandler_sp, hasHandler_of_last]
  try exact frameOK_noHandlers rfl
  try (simp only [CInv, frameSize] at *; simp_all; omega)))

macro "vm_fvc" : tactic => `(tactic| (
  try simp only [wrap_iff, StepOk, StepExc, StepPre, VInvB, FFPost, ThrowOk, ThrowExc, ThrowPre, RestSame, CallPre, CallOk,
    CallExc, VInv, curFn, curF, FailOk, FailExc] at *
  intros
  first | (cases ‹Ctl› <;> vm_fvc1) | vm_fvc1))

theorem frameOK_upd {f : Frame} (hf : FrameOK f) (fn : Option Addr) (hfn : f.fn = fn) (free : Option (List Addr))
    (ip bp : Int) (d : Bool) :
    FrameOK { fn := fn, free := free, ip := ip, bp := bp, handlers := f.handlers, discard := d } := by
  subst hfn; exact frameOK_congr hf rfl rfl

theorem execSetupTry_ok (np : Bool) : StepSpec np execSetupTry := by
  apply triple_of_fixed'; intro s0 hpre
  step_gen [execSetupTry, setCurFrame_spec]
  all_goals vm_fvc

theorem execSetupFinally_ok (np : Bool) : StepSpec np execSetupFinally := by
  apply triple_of_fixed'; intro s0 hpre
  step_gen [execSetupFinally, setCurFrame_spec]
  all_goals vm_fvc

theorem execSetupCatch_ok (np : Bool) : StepSpec np execSetupCatch := by
  apply triple_of_fixed'; intro s0 hpre
  step_gen [execSetupCatch, setCurFrame_spec]
  all_goals vm_fvc

theorem findFinally_spec (fuel : Nat) : ∀ (upto : Int) (c0 : CP),
    ⦃fun s => ⌜c0 = cp s ∧ VInv s⌝⦄ findFinally fuel upto
    ⦃post⟨fun _ s => ⌜FFPost c0 s⌝, fun _ s => ⌜FFPost c0 s⌝⟩⦄ := by
  induction fuel with
  | zero =>
    intro upto
    apply triple_of_fixed; intro s0 hv
    unfold findFinally
    mvcgen [unsupported]
    subst_vars; rw [wrap_iff]; exact ⟨hv, rfl, rfl⟩
  | succ fuel ih =>
    intro upto
    apply triple_of_fixed; intro s0 hv
    unfold findFinally
    mvcgen [curFrame, getS, setCurFrame_spec, ih]
    all_goals subst_vars
    all_goals (try simp only [wrap_iff, FFPost, VInv, curF] at *)
    all_goals (try simp only [cpf, cp, CP.mk.injEq] at *)
    all_goals (try (simp_all +zetaDelta [fn_popHandler]; done))
    all_goals (try grind [fn_popHandler, frameOK_popHandler, CInv.get!])

theorem execFinalizer_ok (np : Bool) : StepSpec np execFinalizer := by
  apply triple_of_fixed'; intro s0 hpre
  step_gen [execFinalizer, setCurFrame_spec, findFinally_spec]
  all_goals (first | (vm_fvc; done) | trace_state)

set_option maxHeartbeats 3200000 in
theorem execThrow_ok (np : Bool) : StepSpec np execThrow := by
  apply triple_of_fixed'; intro s0 hpre
  step_gen [execThrow, setCurFrame_spec, throwF_specF, throwFuel_spec, clearDown_specF]
  all_goals (first | (vm_fvc; done) | skip)
  all_goals (vm_fvc; exact lastHandler_sp (CInv.get! (by assumption) _) (by assumption))

set_option maxHeartbeats 3200000 in
theorem execReturn_ok (np : Bool) : StepSpec np execReturn := by
  apply triple_of_fixed'; intro s0 hpre
  step_gen [execReturn, clearCurrentFrame, setCurFrame_spec, clearDown_specF]
  all_goals (first | (vm_fvc; done) | skip)
  all_goals (
    vm_fvc
    have hb : (s0.frameIndex - 2).toNat < frameSize := by simp only [frameSize] at *; omega
    exact CInv.cur (by assumption) _ hb)

/-! ### calls -/

/-- `popArgs n` only lowers `sp` (and clears slots); every completed iteration proves `0 ≤ sp` -/
theorem popArgs_spec (n : Nat) : ∀ (c0 : CP),
    ⦃fun s => ⌜c0 = cp s ∧ 0 ≤ s.sp⌝⦄ popArgs n
    ⦃post⟨fun _ s => ⌜cpx s = { c0 with sp := 0, ip := 0 } ∧ 0 ≤ s.sp⌝,
          fun _ s => ⌜cpx s = { c0 with sp := 0, ip := 0 }⌝⟩⦄ := by
  apply triple_of_fixed; intro s0 hsp
  mvcgen [popArgs, getSp, setSp, getS, modS, stackSet, UgoVerif.VM.panic]
  invariants
  · post⟨fun _ s => ⌜cpx s = cpx s0 ∧ 0 ≤ s.sp⌝, fun _ s => ⌜Wrap (cpx s = { cp s0 with sp := 0, ip := 0 })⌝⟩
  all_goals (try simp only [wrap_iff] at *)
  all_goals (try simp only [cpx, cp, CP.mk.injEq] at *)
  all_goals (try simp_all +zetaDelta [stackSize])
  all_goals (try omega)

/-- entering the frame `fi` of a called function -/
theorem enterFrame_spec (fi : Nat) (fa : Addr) (free : Option (List Addr)) (bp : Int) : ∀ (c0 : CP),
    ⦃fun s => ⌜c0 = cp s ∧ (VInv s ∧ fi < frameSize)⌝⦄ enterFrame fi fa free bp
    ⦃post⟨fun _ s => ⌜VInv s ∧ curFn s = some fa ∧ cpf s = { c0 with frames := #[], curFrame := fi }⌝,
          fun _ _ => ⌜False⌝⟩⦄ := by
  apply triple_of_fixed
  intro s0 ⟨hv, hfi⟩
  mvcgen [enterFrame, modS]
  subst_vars
  rename_i s t
  rw [wrap_iff]
  have hsz : fi < s.frames.size := by rw [hv.1]; exact hfi
  refine ⟨?_, ?_, by simp +zetaDelta [cpf, cp]⟩
  · show CInv (s.frames.modify fi _) fi s.stack.size
    exact (hv.modify fi _ (frameOK_noHandlers rfl)).cur fi hfi
  · show ((s.frames.modify fi _)[fi]!).fn = some fa
    rw [get!_modify_self _ _ _ hsz]

set_option maxHeartbeats 6400000 in
theorem callCompiled_spec (fa : Addr) (numArgs flags : Int) : ∀ (c0 : CP),
    ⦃fun s => ⌜c0 = cp s ∧ CallPre numArgs s⌝⦄ callCompiled fa numArgs flags
    ⦃post⟨fun r s => ⌜CallOk c0 r s⌝, fun _ s => ⌜CallExc c0 s⌝⟩⦄ := by
  apply triple_of_fixed; intro s0 hpre
  step_gen [callCompiled, setCurFrame_spec, clearDown_specF, stackSlice_spec, enterFrame_spec]
  all_goals (first | (vm_fvc; done) | skip)
  all_goals (vm_fvc; first
    | exact frameOK_noHandlers rfl
    | (apply frameOK_upd (CInv.get! (by assumption) _) _ (by assumption))
    | exact frameOK_congr (CInv.get! (by assumption) _) rfl rfl
    | trace_state)

theorem callObject_spec (callee : V) (numArgs flags : Int) : ∀ (c0 : CP),
    ⦃fun s => ⌜c0 = cp s ∧ CallPre numArgs s⌝⦄ callObject callee numArgs flags
    ⦃post⟨fun r s => ⌜CallOk c0 r s⌝, fun _ s => ⌜CallExc c0 s⌝⟩⦄ := by
  apply triple_of_fixed; intro s0 hpre
  step_gen [callObject, stackSlice_spec, popArgs_spec]
  all_goals (first | (vm_fvc; done) | skip)
  all_goals (vm_fvc; trace_state)

theorem callAny_spec (callee : V) (numArgs flags : Int) : ∀ (c0 : CP),
    ⦃fun s => ⌜c0 = cp s ∧ CallPre numArgs s⌝⦄ callAny callee numArgs flags
    ⦃post⟨fun r s => ⌜CallOk c0 r s⌝, fun _ s => ⌜CallExc c0 s⌝⟩⦄ := by
  intro c0
  unfold callAny
  split
  · exact callCompiled_spec _ _ _ c0
  · exact callObject_spec _ _ _ c0

theorem execCall_ok (np : Bool) : StepSpec np execCall := by
  apply triple_of_fixed'; intro s0 hpre
  step_gen [execCall, callAny_spec, failWith_spec]
  all_goals (first | (vm_fvc; done) | skip)
  all_goals (vm_fvc; trace_state)

theorem execCallName_ok (np : Bool) : StepSpec np execCallName := by
  apply triple_of_fixed'; intro s0 hpre
  step_gen [execCallName, callAny_spec, failWith_spec]
  all_goals (first | (vm_fvc; done) | skip)
  all_goals (vm_fvc; trace_state)

/-! ### dispatch, step, loop -/

theorem stepSpec_ite (np : Bool) (c : Prop) [Decidable c] {a b : M Ctl} (ha : StepSpec np a) (hb : StepSpec np b) :
    StepSpec np (if c then a else b) := by
  split <;> assumption

theorem dispatch_ok (np : Bool) (F : FloatOps) (op : Nat) : StepSpec np (dispatch F op) := by
  unfold dispatch
  refine stepSpec_ite np _ (execConstant_ok np) ?_
  refine stepSpec_ite np _ (execGetLocal_ok np) ?_
  refine stepSpec_ite np _ (execSetLocal_ok np) ?_
  refine stepSpec_ite np _ (execBinaryOp_ok np F) ?_
  refine stepSpec_ite np _ (execAndJump_ok np) ?_
  refine stepSpec_ite np _ (execOrJump_ok np) ?_
  refine stepSpec_ite np _ (execEqual_ok np F op) ?_
  refine stepSpec_ite np _ (execTrue_ok np) ?_
  refine stepSpec_ite np _ (execFalse_ok np) ?_
  refine stepSpec_ite np _ (execCall_ok np) ?_
  refine stepSpec_ite np _ (execCallName_ok np) ?_
  refine stepSpec_ite np _ (execReturn_ok np) ?_
  refine stepSpec_ite np _ (execGetBuiltin_ok np) ?_
  refine stepSpec_ite np _ (execClosure_ok np) ?_
  refine stepSpec_ite np _ (execJump_ok np) ?_
  refine stepSpec_ite np _ (execJumpFalsy_ok np) ?_
  refine stepSpec_ite np _ (execGetGlobal_ok np) ?_
  refine stepSpec_ite np _ (execSetGlobal_ok np) ?_
  refine stepSpec_ite np _ (execArray_ok np) ?_
  refine stepSpec_ite np _ (execMap_ok np) ?_
  refine stepSpec_ite np _ (execGetIndex_ok np) ?_
  refine stepSpec_ite np _ (execSetIndex_ok np) ?_
  refine stepSpec_ite np _ (execSliceIndex_ok np) ?_
  refine stepSpec_ite np _ (execGetFree_ok np) ?_
  refine stepSpec_ite np _ (execSetFree_ok np) ?_
  refine stepSpec_ite np _ (execGetLocalPtr_ok np) ?_
  refine stepSpec_ite np _ (execGetFreePtr_ok np) ?_
  refine stepSpec_ite np _ (execDefineLocal_ok np) ?_
  refine stepSpec_ite np _ (execNull_ok np) ?_
  refine stepSpec_ite np _ (execPop_ok np) ?_
  refine stepSpec_ite np _ (execIterInit_ok np) ?_
  refine stepSpec_ite np _ (execIterNext_ok np op) ?_
  refine stepSpec_ite np _ (execLoadModule_ok np) ?_
  refine stepSpec_ite np _ (execStoreModule_ok np) ?_
  refine stepSpec_ite np _ (execSetupTry_ok np) ?_
  refine stepSpec_ite np _ (execSetupCatch_ok np) ?_
  refine stepSpec_ite np _ (execSetupFinally_ok np) ?_
  refine stepSpec_ite np _ (execThrow_ok np) ?_
  refine stepSpec_ite np _ (execFinalizer_ok np) ?_
  refine stepSpec_ite np _ (execUnary_ok np F) ?_
  refine stepSpec_ite np _ (execNoOp_ok np) ?_
  exact execUnknown_ok np op

/-- **one instruction preserves the invariants**, for arbitrary bytecode and an arbitrary
    boundary state: it completes in a boundary state, or raises (panic / outside the model)
    leaving a state that satisfies the recovery-path invariant -/
theorem step_ok (np : Bool) (F : FloatOps) : StepSpec np (step F) := by
  apply triple_of_fixed'; intro s0 hpre
  have dp := dispatch_ok np F
  step_gen [step, dp]
  all_goals (first | (vm_vc; done) | trace_state)

end UgoVerif.Proofs.VM
