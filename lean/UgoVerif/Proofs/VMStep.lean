import UgoVerif.Proofs.VMThrow
/-
  C06 helper layer 4: every opcode preserves the invariants.  From an instruction-boundary
  state (`VInvB`) each `exec<Op>` ends either normally in a boundary state again, or with an
  exception (Go panic / outside the model) in a state that still satisfies `VInv` — the
  partial state Go leaves at the panic site, which is what the recovery path starts from.
-/
set_option linter.unusedSimpArgs false
set_option linter.unusedVariables false
set_option mvcgen.warning false
namespace UgoVerif.Proofs.VM
open UgoVerif UgoVerif.Go UgoVerif.VM Std.Do

/-- before an instruction: boundary invariant, no error recorded yet -/
def StepPre (np : Bool) (s : State) : Prop := VInvB s ∧ s.err = none ∧ s.noPanic = np

/-- after an instruction that completed: boundary invariant; `continue` leaves `vm.err` unset;
    a `return` from `loop` without error leaves the result below a positive stack pointer -/
def StepOk (np : Bool) (r : Ctl) (s : State) : Prop :=
  VInv s ∧ s.noPanic = np ∧
    (match r with
     | .next => 0 ≤ s.sp ∧ curFn s ≠ none ∧ s.err = none
     | .ret => (s.err = none → 1 ≤ s.sp))

/-- after an instruction that panicked (or left the model): the recovery-path invariant -/
def StepExc (np : Bool) (s : State) : Prop := VInv s ∧ s.noPanic = np

abbrev StepSpec (np : Bool) (m : M Ctl) : Prop :=
  ⦃fun s => ⌜StepPre np s⌝⦄ m ⦃post⟨fun r s => ⌜StepOk np r s⌝, fun _ s => ⌜StepExc np s⌝⟩⦄

/-- the control part without `sp` and `ip` (loop invariants of opcodes that clear stack slots) -/
def cpx (s : State) : CP := { cp s with sp := 0, ip := 0 }

/-- closes the verification conditions of opcodes that only move `sp` -/
macro "vm_vc1" : tactic => `(tactic| (
  try simp only [cpx, cp, CP.mk.injEq] at *
  try simp_all +zetaDelta [stackSize]
  try omega
  try (intros; split <;> simp_all <;> omega)))

macro "vm_vc" : tactic => `(tactic| (
  try simp only [wrap_iff, StepOk, StepExc, StepPre, VInvB, VInv, curFn, FailOk, FailExc] at *
  intros
  first | (cases ‹Ctl› <;> vm_vc1) | vm_vc1))

macro "step_start" : tactic => `(tactic| (apply triple_of_fixed'; intro s0 hpre))

syntax "step_gen" "[" Lean.Parser.Tactic.simpLemma,* "]" : tactic
macro_rules
  | `(tactic| step_gen [$ids,*]) =>
    `(tactic| mvcgen [pushV, bumpIp, getIp, setIp, getSp, setSp, getS, modS, stackGet, stackSet, curFrame,
        UgoVerif.VM.panic, unsupported, $ids,*])

theorem execPop_ok (np : Bool) : StepSpec np execPop := by
  step_start; step_gen [execPop]; all_goals vm_vc

theorem execConstant_ok (np : Bool) : StepSpec np execConstant := by
  step_start; step_gen [execConstant]; all_goals vm_vc

theorem execGetLocal_ok (np : Bool) : StepSpec np execGetLocal := by
  step_start; step_gen [execGetLocal]; all_goals vm_vc

theorem execSetLocal_ok (np : Bool) : StepSpec np execSetLocal := by
  step_start; step_gen [execSetLocal]; all_goals vm_vc

theorem execBinaryOp_ok (np : Bool) (F : FloatOps) : StepSpec np (execBinaryOp F) := by
  step_start; have fw := failWith_spec; step_gen [execBinaryOp, fw]; all_goals vm_vc

theorem execAndJump_ok (np : Bool) : StepSpec np execAndJump := by
  step_start; step_gen [execAndJump]; all_goals vm_vc

theorem execOrJump_ok (np : Bool) : StepSpec np execOrJump := by
  step_start; step_gen [execOrJump]; all_goals vm_vc

theorem execEqual_ok (np : Bool) (F : FloatOps) (op : Nat) : StepSpec np (execEqual F op) := by
  step_start; step_gen [execEqual]; all_goals vm_vc

theorem execTrue_ok (np : Bool) : StepSpec np execTrue := by
  step_start; step_gen [execTrue]; all_goals vm_vc

theorem execFalse_ok (np : Bool) : StepSpec np execFalse := by
  step_start; step_gen [execFalse]; all_goals vm_vc

theorem execGetBuiltin_ok (np : Bool) : StepSpec np execGetBuiltin := by
  step_start; step_gen [execGetBuiltin]; all_goals vm_vc

theorem execJump_ok (np : Bool) : StepSpec np execJump := by
  step_start; step_gen [execJump]; all_goals vm_vc

theorem execJumpFalsy_ok (np : Bool) : StepSpec np execJumpFalsy := by
  step_start; step_gen [execJumpFalsy]; all_goals vm_vc

theorem execGetGlobal_ok (np : Bool) : StepSpec np execGetGlobal := by
  step_start; have fw := failWith_spec; step_gen [execGetGlobal, fw]; all_goals vm_vc

theorem execSetGlobal_ok (np : Bool) : StepSpec np execSetGlobal := by
  step_start; have fw := failWith_spec; step_gen [execSetGlobal, fw]; all_goals vm_vc

theorem execSetIndex_ok (np : Bool) : StepSpec np execSetIndex := by
  step_start; have fw := failWith_spec; step_gen [execSetIndex, fw]; all_goals vm_vc

theorem execGetFree_ok (np : Bool) : StepSpec np execGetFree := by
  step_start; step_gen [execGetFree]; all_goals vm_vc

theorem execSetFree_ok (np : Bool) : StepSpec np execSetFree := by
  step_start; step_gen [execSetFree]; all_goals vm_vc

theorem execGetLocalPtr_ok (np : Bool) : StepSpec np execGetLocalPtr := by
  step_start; step_gen [execGetLocalPtr]; all_goals vm_vc

theorem execGetFreePtr_ok (np : Bool) : StepSpec np execGetFreePtr := by
  step_start; step_gen [execGetFreePtr]; all_goals vm_vc

theorem execDefineLocal_ok (np : Bool) : StepSpec np execDefineLocal := by
  step_start; step_gen [execDefineLocal]; all_goals vm_vc

theorem execNull_ok (np : Bool) : StepSpec np execNull := by
  step_start; step_gen [execNull]; all_goals vm_vc

theorem execNoOp_ok (np : Bool) : StepSpec np execNoOp := by
  step_start; step_gen [execNoOp]; all_goals vm_vc

theorem execUnknown_ok (np : Bool) (op : Nat) : StepSpec np (execUnknown op) := by
  step_start; step_gen [execUnknown]; all_goals vm_vc

theorem execLoadModule_ok (np : Bool) : StepSpec np execLoadModule := by
  step_start; step_gen [execLoadModule]; all_goals vm_vc

theorem execStoreModule_ok (np : Bool) : StepSpec np execStoreModule := by
  step_start; step_gen [execStoreModule]; all_goals vm_vc

theorem execIterInit_ok (np : Bool) : StepSpec np execIterInit := by
  step_start; have fw := failWith_spec; step_gen [execIterInit, fw]; all_goals vm_vc

theorem execIterNext_ok (np : Bool) (op : Nat) : StepSpec np (execIterNext op) := by
  step_start; step_gen [execIterNext]; all_goals vm_vc

theorem execUnary_ok (np : Bool) (F : FloatOps) : StepSpec np (execUnary F) := by
  step_start; have fw := failWith_spec; step_gen [execUnary, fw]; all_goals vm_vc

theorem execSliceIndex_ok (np : Bool) : StepSpec np execSliceIndex := by
  step_start; have fw := failWith_spec; step_gen [execSliceIndex, fw]; all_goals vm_vc

theorem execArray_ok (np : Bool) : StepSpec np execArray := by
  apply triple_of_fixed'; intro s0 hpre
  mvcgen [pushV, bumpIp, getIp, setIp, getSp, setSp, getS, modS, stackGet, stackSet, curFrame, UgoVerif.VM.panic, unsupported, execArray, stackSlice]
  invariants
  · post⟨fun _ s => ⌜cpx s = cpx s0⌝, fun _ s => ⌜Wrap (StepExc np s)⌝⟩
  all_goals vm_vc

theorem execMap_ok (np : Bool) : StepSpec np execMap := by
  apply triple_of_fixed'; intro s0 hpre
  mvcgen [pushV, bumpIp, getIp, setIp, getSp, setSp, getS, modS, stackGet, stackSet, curFrame, UgoVerif.VM.panic, unsupported, execMap]
  invariants
  · post⟨fun _ s => ⌜cp s = cp s0⌝, fun _ s => ⌜Wrap (StepExc np s)⌝⟩
  all_goals vm_vc

theorem execClosure_ok (np : Bool) : StepSpec np execClosure := by
  apply triple_of_fixed'; intro s0 hpre
  mvcgen [pushV, bumpIp, getIp, setIp, getSp, setSp, getS, modS, stackGet, stackSet, curFrame, UgoVerif.VM.panic, unsupported, execClosure]
  invariants
  · post⟨fun _ s => ⌜cp s = cp s0⌝, fun _ s => ⌜Wrap (StepExc np s)⌝⟩
  all_goals vm_vc

theorem execGetIndex_ok (np : Bool) : StepSpec np execGetIndex := by
  apply triple_of_fixed'; intro s0 hpre
  have fw := failWith_spec
  mvcgen [pushV, bumpIp, getIp, setIp, getSp, setSp, getS, modS, stackGet, stackSet, curFrame, UgoVerif.VM.panic, unsupported, execGetIndex, fw]
  invariants
  · post⟨fun p s => ⌜(p.2.1 = none ∧ cp s = cp s0) ∨ (∃ r, p.2.1 = some r ∧ p.1.suffix = [] ∧ Wrap (StepOk np r s))⌝,
         fun _ s => ⌜Wrap (StepExc np s)⌝⟩
  all_goals vm_vc

end UgoVerif.Proofs.VM
