import UgoVerif.Model.Enc
/-
  Helper lemmas for C18: a Hoare-style predicate `Sat A P x` on the result-with-log
  monad ("x does not panic, every allocation it logs is at most N, and its value
  satisfies P"), specifications of the reader primitives, and the joint induction
  over the mutually recursive decoders.
-/
namespace UgoVerif.Proofs.Enc
open UgoVerif.Go UgoVerif.Model.Enc UgoVerif.Gen.EncTags

/-! ### `Res` level -/

/-- the artificial error of the fuel-based recursion -/
def oofErr : Err := .other "model" "out of fuel"

/-- `r` is not a panic, its value satisfies `P`, and — unless `O` ("out of fuel allowed") —
    it is not the artificial out-of-fuel error -/
def RSat {α} (O : Prop) (P : α → Prop) (r : Res α) : Prop :=
  match r with
  | .ok a => P a
  | .err e => O ∨ e ≠ oofErr
  | .panic _ => False

theorem RSat.mono {α} {O : Prop} {P Q : α → Prop} {r : Res α} (h : RSat O P r) (hpq : ∀ a, P a → Q a) : RSat O Q r := by
  cases r <;> simp_all [RSat]

theorem RSat_bind {α β} {O : Prop} {P : α → Prop} {Q : β → Prop} {x : Res α} {f : α → Res β}
    (hx : RSat O P x) (hf : ∀ a, P a → RSat O Q (f a)) : RSat O Q (x >>= f) := by
  cases x with
  | ok a => exact hf a hx
  | err e => exact hx
  | panic m => exact hx.elim

theorem fail_ne_oof (m : String) : Err.other "error" m ≠ oofErr := by
  intro h; injection h with h1 _; exact absurd h1 (by decide)

@[simp] theorem RSat_fail {α} (O : Prop) (P : α → Prop) (m : String) : RSat O P (fail m : Res α) :=
  Or.inr (fail_ne_oof m)
@[simp] theorem RSat_ok {α} (O : Prop) (P : α → Prop) (a : α) : RSat O P (.ok a) = P a := rfl
@[simp] theorem RSat_pure {α} (O : Prop) (P : α → Prop) (a : α) : RSat O P (pure a : Res α) = P a := rfl
theorem RSat_err {α} (O : Prop) (P : α → Prop) (e : Err) : RSat O P (.err e : Res α) = (O ∨ e ≠ oofErr) := rfl

/-! ### `DM` level -/

/-- no panic, every logged allocation size satisfies `A`, value satisfies `P`
    (and no out-of-fuel error unless `O`) -/
def Sat {α} (O : Prop) (A : Nat → Prop) (P : α → Prop) (x : DM α) : Prop :=
  RSat O P x.res ∧ ∀ a ∈ x.allocs, A a

theorem Sat.mono {α} {O : Prop} {A : Nat → Prop} {P Q : α → Prop} {x : DM α} (h : Sat O A P x) (hpq : ∀ a, P a → Q a) :
    Sat O A Q x :=
  ⟨h.1.mono hpq, h.2⟩

theorem Sat_bind {α β} {O : Prop} {A : Nat → Prop} {P : α → Prop} {Q : β → Prop} {x : DM α} {f : α → DM β}
    (hx : Sat O A P x) (hf : ∀ a, P a → Sat O A Q (f a)) : Sat O A Q (x >>= f) := by
  obtain ⟨h1, h2⟩ := hx
  show Sat O A Q (DM.bind x f)
  unfold DM.bind
  cases hr : x.res with
  | ok a =>
    rw [hr] at h1
    have := hf a h1
    refine ⟨this.1, ?_⟩
    intro n hn
    simp only [List.mem_append] at hn
    rcases hn with hn | hn
    · exact h2 n hn
    · exact this.2 n hn
  | err e => rw [hr] at h1; exact ⟨h1, h2⟩
  | panic m => rw [hr] at h1; exact h1.elim

theorem Sat_pure {α} {O : Prop} {A : Nat → Prop} {P : α → Prop} {a : α} (h : P a) : Sat O A P (pure a : DM α) :=
  ⟨h, by intro n hn; cases hn⟩

theorem Sat_ofRes {α} {O : Prop} {A : Nat → Prop} {P : α → Prop} {r : Res α} (h : RSat O P r) : Sat O A P (DM.ofRes r) :=
  ⟨h, by intro n hn; cases hn⟩

theorem Sat_tick {O : Prop} {A : Nat → Prop} {n} {P : Unit → Prop} (h : A n) (hp : P ()) : Sat O A P (DM.tick n) :=
  ⟨hp, by intro a ha; simp [DM.tick] at ha; subst ha; exact h⟩

theorem Sat_outOfFuel {α} {O : Prop} {A : Nat → Prop} {P : α → Prop} (h : O) : Sat O A P (outOfFuel : DM α) :=
  ⟨Or.inl h, by intro n hn; cases hn⟩

end UgoVerif.Proofs.Enc

namespace UgoVerif.Proofs.Enc
open UgoVerif.Go UgoVerif.Model.Enc UgoVerif.Gen.EncTags
variable {O : Prop}

/-! ### reader primitives -/

theorem uvarintGo_n_le (buf : Bytes) : ∀ i x s, (uvarintGo buf i x s).2 ≤ (i : Int) + buf.length := by
  induction buf with
  | nil => intro i x s; simp [uvarintGo]
  | cons b rest ih =>
    intro i x s
    unfold uvarintGo
    split
    · simp <;> omega
    · split
      · split
        · simp <;> omega
        · simp <;> omega
      · have := ih (i + 1) (x + b.toNat % 128 * 2 ^ s) (s + 7)
        simp only [List.length_cons]; push_cast at this ⊢; omega

theorem varint_n_le (buf : Bytes) : (varint buf).2 ≤ (buf.length : Int) := by
  have := uvarintGo_n_le buf 0 0 0
  simp [varint, uvarint] at this ⊢; exact this

theorem toVarint_spec (tl : Bytes) (h : tl ≠ []) :
    RSat O (fun p => p.2 ≤ tl.length) (toVarint tl) := by
  unfold toVarint
  cases tl with
  | nil => exact absurd rfl h
  | cons sz tl' =>
    simp only
    split
    · simp [RSat]
    · split
      · simp
      · split
        · split <;> simp
        · have := varint_n_le tl'
          simp only [RSat_ok, List.length_cons]; omega

theorem readByte_spec (r : Bytes) : RSat O (fun p => p.2.length + 1 = r.length) (readByte r) := by
  cases r <;> simp [readByte]

theorem readFull_spec (n : Nat) (r : Bytes) :
    RSat O (fun p => p.1.length = n ∧ p.2.length + n = r.length) (readFull n r) := by
  unfold readFull; split
  · simp
  · simp; omega

theorem viRead_spec (r : Bytes) : RSat O (fun p => p.2.length < r.length) (viRead r) := by
  unfold viRead
  cases r with
  | nil => simp
  | cons n r =>
    simp only
    split
    · simp
    · split
      · simp
      · split
        · simp
        · split
          · simp
          · simp; omega

theorem viReadBytes_spec (r : Bytes) :
    RSat O (fun p => p.2.1.length + p.2.2.length = r.length ∧ 1 ≤ p.2.1.length) (viReadBytes r) := by
  unfold viReadBytes
  cases r with
  | nil => simp
  | cons n r =>
    simp only
    split
    · simp
    · split
      · simp <;> omega
      · split
        · simp
        · split
          · simp
          · simp; omega

theorem slice_spec (data : Bytes) (lo hi : Nat) (h : lo ≤ hi ∧ hi ≤ data.length) :
    RSat O (fun p => p.length = hi - lo) (slice data lo hi) := by
  unfold slice; rw [if_pos h]; simp; omega

theorem sizedPayload_spec (tag : UInt8) (what : String) (data : Bytes) :
    RSat O (fun o => ∀ p, o = some p → p.length < data.length) (sizedPayload tag what data) := by
  unfold sizedPayload
  split
  · rename_i _ t a b
    split
    · simp
    · have hv := toVarint_spec (O := O) (a :: b) (by simp)
      cases hres : toVarint (a :: b) with
      | ok p =>
        obtain ⟨size, offset⟩ := p
        rw [hres] at hv
        simp only
        split
        · simp
        · split
          · simp
          · split
            · simp
            · rename_i h1 h2 h3
              have hs := slice_spec (O := O) (t :: a :: b) (1 + offset) (1 + offset + size.toNat) ⟨by omega, by omega⟩
              cases hsl : slice (t :: a :: b) (1 + offset) (1 + offset + size.toNat) with
              | ok p => rw [hsl] at hs; simp at hs ⊢; simp at h3; omega
              | err e => rw [hsl] at hs; exact hs
              | panic m => rw [hsl] at hs; exact hs.elim
      | err e => rw [hres] at hv; exact hv
      | panic m => rw [hres] at hv; exact hv.elim
  · simp

theorem unmarshalInt_spec (data : Bytes) : RSat O (fun _ => True) (unmarshalInt data) := by
  unfold unmarshalInt; split <;> (try simp) ; repeat (split <;> try simp)
theorem unmarshalUint_spec (data : Bytes) : RSat O (fun _ => True) (unmarshalUint data) := by
  unfold unmarshalUint; split <;> (try simp) ; repeat (split <;> try simp)
theorem unmarshalFloat_spec (data : Bytes) : RSat O (fun _ => True) (unmarshalFloat data) := by
  unfold unmarshalFloat; split <;> (try simp) ; repeat (split <;> try simp)
theorem unmarshalChar_spec (data : Bytes) : RSat O (fun _ => True) (unmarshalChar data) := by
  unfold unmarshalChar; split <;> (try simp) ; repeat (split <;> try simp)

theorem unmarshalString_spec (data : Bytes) : RSat O (fun _ => True) (unmarshalString data) := by
  have := sizedPayload_spec (O := O) binStringV1 "ugo.String" data
  unfold unmarshalString
  cases h : sizedPayload binStringV1 "ugo.String" data with
  | ok o => cases o <;> simp
  | err e => rw [h] at this; exact this
  | panic m => rw [h] at this; exact this.elim

theorem unmarshalBytes_spec (data : Bytes) : RSat O (fun _ => True) (unmarshalBytes data) := by
  have := sizedPayload_spec (O := O) binBytesV1 "ugo.Bytes" data
  unfold unmarshalBytes
  cases h : sizedPayload binBytesV1 "ugo.Bytes" data with
  | ok o => cases o <;> simp
  | err e => rw [h] at this; exact this
  | panic m => rw [h] at this; exact this.elim

theorem unmarshalFuncName_spec (tag : UInt8) (what : String) (data : Bytes) :
    RSat O (fun _ => True) (unmarshalFuncName tag what data) := by
  unfold unmarshalFuncName
  split
  · rename_i _ t a b
    split
    · simp
    · apply RSat_bind (toVarint_spec (a :: b) (by simp))
      rintro ⟨size, offset⟩ hoff
      simp only
      split
      · simp
      · apply RSat_bind (slice_spec (t :: a :: b) (1 + offset) (t :: a :: b).length ⟨by simp at hoff ⊢; omega, Nat.le_refl _⟩)
        intro inner _
        exact unmarshalString_spec inner
  · simp

theorem smLoop_spec : ∀ (sz : Nat) (rd : Bytes),
    RSat O (fun p => p.2.length ≤ rd.length) (smLoop sz rd) := by
  intro sz
  induction sz with
  | zero => intro rd; simp [smLoop]
  | succ n ih =>
    intro rd
    unfold smLoop
    apply RSat_bind (viRead_spec rd); rintro ⟨k, rd1⟩ h1
    apply RSat_bind (viRead_spec rd1); rintro ⟨v, rd2⟩ h2
    apply RSat_bind (ih rd2); rintro ⟨rest, rd3⟩ h3
    simp at h1 h2 h3 ⊢; omega

theorem linesLoop_spec : ∀ (n : Nat) (rd : Bytes),
    RSat O (fun p => p.2.length ≤ rd.length) (linesLoop n rd) := by
  intro n
  induction n with
  | zero => intro rd; simp [linesLoop]
  | succ n ih =>
    intro rd
    unfold linesLoop
    apply RSat_bind (viRead_spec rd); rintro ⟨k, rd1⟩ h1
    apply RSat_bind (ih rd1); rintro ⟨rest, rd3⟩ h3
    simp at h1 h3 ⊢; omega

end UgoVerif.Proofs.Enc

namespace UgoVerif.Proofs.Enc
open UgoVerif.Go UgoVerif.Model.Enc UgoVerif.Gen.EncTags
variable {O : Prop}

/-! ### the decoders -/

/-- assumptions on the gob parameter: it never hands back more unread bytes than it was
    given, and its allocations on inputs of length ≤ L stay below N -/
structure GobOK (C : Ctx) (A : Nat → Prop) (L : Nat) : Prop where
  rest : ∀ r o r', C.gobDec r = some (o, r') → r'.length ≤ r.length
  alloc : ∀ r, r.length ≤ L → A (C.gobAlloc r)

/-- `A` accepts every allocation size the decoders can request on readers of length ≤ L -/
def Dominates (A : Nat → Prop) (L : Nat) : Prop := ∀ n, n ≤ 24 * L + 268 → A n

theorem Sat_liftM {α} {O : Prop} {A : Nat → Prop} {P : α → Prop} {r : Res α} (h : RSat O P r) : Sat O A P (liftM r : DM α) :=
  Sat_ofRes h

theorem unmarshalArray_sat {O : Prop} {A : Nat → Prop} {L} (hN : Dominates A L) (loop : Bytes → DM (List Obj)) (data : Bytes)
    (hd : data.length ≤ L)
    (hloop : ∀ rd, rd.length ≤ L → rd.length + 2 ≤ data.length → Sat O A (fun _ => True) (loop rd)) :
    Sat O A (fun _ => True) (unmarshalArray loop data) := by
  unfold unmarshalArray
  have hs := sizedPayload_spec (O := O) binArrayV1 "ugo.Array" data
  cases h : sizedPayload binArrayV1 "ugo.Array" data with
  | ok o =>
    rw [h] at hs
    cases o with
    | none => exact Sat_pure trivial
    | some rd =>
      have hrd := hs rd rfl
      simp only
      apply Sat_bind (Sat_liftM (viRead_spec rd)); rintro ⟨length, rd1⟩ h1
      simp only
      split
      · exact Sat_liftM (by simp)
      · rename_i hlen
        apply Sat_bind (P := fun _ => True) (Sat_tick (hN _ (by simp at h1; omega)) trivial)
        intro _ _
        exact hloop rd1 (by simp at h1; omega) (by simp at h1; omega)
  | err e => rw [h] at hs; exact Sat_ofRes hs
  | panic m => rw [h] at hs; exact hs.elim

theorem unmarshalMap_sat {O : Prop} {A : Nat → Prop} {L} (loop : Bytes → DM (List (Bytes × Obj))) (data : Bytes)
    (hd : data.length ≤ L)
    (hloop : ∀ rd, rd.length ≤ L → rd.length + 1 ≤ data.length → Sat O A (fun _ => True) (loop rd)) :
    Sat O A (fun _ => True) (unmarshalMap loop data) := by
  unfold unmarshalMap
  have hs := sizedPayload_spec (O := O) binMapV1 "ugo.Map" data
  cases h : sizedPayload binMapV1 "ugo.Map" data with
  | ok o =>
    rw [h] at hs
    cases o with
    | none => exact Sat_pure trivial
    | some rd =>
      have hrd := hs rd rfl
      simp only
      apply Sat_bind (hloop rd (by omega) (by omega)); intro pairs _
      exact Sat_pure trivial
  | err e => rw [h] at hs; exact Sat_ofRes hs
  | panic m => rw [h] at hs; exact hs.elim

theorem unmarshalCF_sat {O : Prop} {A : Nat → Prop} {L} (loop : Bytes → CF → DM CF) (data : Bytes)
    (hd : data.length ≤ L)
    (hloop : ∀ rd f, rd.length ≤ L → rd.length + 1 ≤ data.length → Sat O A (fun _ => True) (loop rd f)) :
    Sat O A (fun _ => True) (unmarshalCF loop data) := by
  unfold unmarshalCF
  have hs := sizedPayload_spec (O := O) binCompiledFunctionV1 "ugo.CompiledFunction" data
  cases h : sizedPayload binCompiledFunctionV1 "ugo.CompiledFunction" data with
  | ok o =>
    rw [h] at hs
    cases o with
    | none => exact Sat_pure trivial
    | some rd =>
      have hrd := hs rd rfl
      exact hloop rd {} (by omega) (by omega)
  | err e => rw [h] at hs; exact Sat_ofRes hs
  | panic m => rw [h] at hs; exact hs.elim

end UgoVerif.Proofs.Enc

namespace UgoVerif.Proofs.Enc
open UgoVerif.Go UgoVerif.Model.Enc UgoVerif.Gen.EncTags

/-- joint specification of the four mutually recursive decoders at one fuel value.
    `O` = "the out-of-fuel error is allowed"; when it is not, the fuel must be at least
    2·|input|+1 (objects) resp. 2·|input|+2 (loops). -/
def DecSpec (O : Prop) (C : Ctx) (A : Nat → Prop) (L fuel : Nat) : Prop :=
  (∀ r : Bytes, r.length ≤ L → (O ∨ 2 * r.length + 1 ≤ fuel) →
    Sat O A (fun p => p.2.length + 1 ≤ r.length) (decodeObjectF C fuel r)) ∧
  (∀ rd : Bytes, rd.length ≤ L → (O ∨ 2 * rd.length + 2 ≤ fuel) → Sat O A (fun _ => True) (arrayLoopF C fuel rd)) ∧
  (∀ rd : Bytes, rd.length ≤ L → (O ∨ 2 * rd.length + 2 ≤ fuel) → Sat O A (fun _ => True) (mapLoopF C fuel rd)) ∧
  (∀ (rd : Bytes) (f : CF), rd.length ≤ L → (O ∨ 2 * rd.length + 2 ≤ fuel) →
    Sat O A (fun _ => True) (cfLoopF C fuel rd f))

theorem arrayLoop_step {O : Prop} {C} {A : Nat → Prop} {L fuel} (ih : DecSpec O C A L fuel) (rd : Bytes) (h : rd.length ≤ L)
    (hf : O ∨ 2 * rd.length + 2 ≤ fuel + 1) :
    Sat O A (fun _ => True) (arrayLoopF C (fuel + 1) rd) := by
  unfold arrayLoopF
  split
  · exact Sat_pure trivial
  · apply Sat_bind (ih.1 rd h (hf.imp id (by omega))); rintro ⟨o, rd1⟩ h1
    simp only
    apply Sat_bind (ih.2.1 rd1 (by simp at h1; omega) (hf.imp id (by simp at h1; omega))); intro rest _
    exact Sat_pure trivial

theorem mapLoop_step {O : Prop} {C} {A : Nat → Prop} {L fuel} (hN : Dominates A L) (ih : DecSpec O C A L fuel) (rd : Bytes)
    (h : rd.length ≤ L) (hf : O ∨ 2 * rd.length + 2 ≤ fuel + 1) :
    Sat O A (fun _ => True) (mapLoopF C (fuel + 1) rd) := by
  unfold mapLoopF
  split
  · exact Sat_pure trivial
  · apply Sat_bind (Sat_liftM (viRead_spec rd)); rintro ⟨value, rd1⟩ h1
    simp only
    apply Sat_bind (P := fun _ => True) (Sat_tick (hN _ (by simp at h1; omega)) trivial)
    intro _ _
    have hk : RSat O (fun p : Bytes × Bytes => p.2.length ≤ rd1.length)
        (if value > 0 then readFull value.toNat rd1 else .ok ([], rd1)) := by
      split
      · exact (readFull_spec _ _).mono (by intro p hp; omega)
      · simp
    apply Sat_bind (Sat_liftM hk); rintro ⟨k, rd2⟩ h2
    simp only
    apply Sat_bind (ih.1 rd2 (by simp at h1 h2; omega) (hf.imp id (by simp at h1 h2; omega))); rintro ⟨o, rd3⟩ h3
    simp only
    apply Sat_bind (ih.2.2.1 rd3 (by simp at h1 h2 h3; omega) (hf.imp id (by simp at h1 h2 h3; omega))); intro rest _
    exact Sat_pure trivial

theorem cfLoop_step {O : Prop} {C} {A : Nat → Prop} {L fuel} (hN : Dominates A L) (ih : DecSpec O C A L fuel) (rd : Bytes) (f : CF)
    (h : rd.length ≤ L) (hf : O ∨ 2 * rd.length + 2 ≤ fuel + 1) :
    Sat O A (fun _ => True) (cfLoopF C (fuel + 1) rd f) := by
  unfold cfLoopF
  split
  · exact Sat_pure trivial
  · apply Sat_bind (Sat_liftM (readByte_spec rd)); rintro ⟨field, rd1⟩ h1
    simp only
    simp only at h1
    split
    · apply Sat_bind (Sat_liftM (viRead_spec rd1)); rintro ⟨v, rd2⟩ h2
      exact ih.2.2.2 rd2 _ (by simp at h2; omega) (hf.imp id (by simp at h2; omega))
    split
    · apply Sat_bind (Sat_liftM (viRead_spec rd1)); rintro ⟨v, rd2⟩ h2
      exact ih.2.2.2 rd2 _ (by simp at h2; omega) (hf.imp id (by simp at h2; omega))
    split
    · apply Sat_bind (ih.1 rd1 (by omega) (hf.imp id (by omega))); rintro ⟨obj, rd2⟩ h2
      simp only
      split
      · exact ih.2.2.2 rd2 _ (by simp at h2; omega) (hf.imp id (by simp at h2; omega))
      · exact Sat_liftM (by simp)
    split
    · exact ih.2.2.2 rd1 _ (by omega) (hf.imp id (by omega))
    split
    · exact Sat_liftM (by simp)
    split
    · apply Sat_bind (Sat_liftM (viRead_spec rd1)); rintro ⟨length, rd2⟩ h2
      simp only
      split
      · exact Sat_liftM (by simp)
      · rename_i hlen
        simp only at h2
        apply Sat_bind (P := fun _ => True) (Sat_tick (hN _ (by omega)) trivial)
        intro _ _
        apply Sat_bind (Sat_liftM (smLoop_spec _ rd2)); rintro ⟨pairs, rd3⟩ h3
        exact ih.2.2.2 rd3 _ (by simp at h3; omega) (hf.imp id (by simp at h3; omega))
    · exact Sat_liftM (by simp)

end UgoVerif.Proofs.Enc

namespace UgoVerif.Proofs.Enc
open UgoVerif.Go UgoVerif.Model.Enc UgoVerif.Gen.EncTags

theorem decodeNum_sat {O : Prop} {A : Nat → Prop} {L} (hN : Dominates A L) (btype : UInt8) (r1 : Bytes) (h : r1.length ≤ L) :
    Sat O A (fun p => p.2.length ≤ r1.length) (decodeNum btype r1) := by
  unfold decodeNum
  apply Sat_bind (Sat_liftM (readByte_spec r1)); rintro ⟨size, r2⟩ h2
  dsimp only at h2 ⊢
  apply Sat_bind (P := fun _ => True)
    (Sat_tick (hN _ (by have := size.toNat_lt; omega)) trivial)
  intro _ _
  have hp : RSat O (fun p : Bytes × Bytes => p.2.length ≤ r2.length)
      (if size.toNat > 0 then readFull size.toNat r2 else .ok ([], r2)) := by
    split
    · exact (readFull_spec _ _).mono (by intro p hp; omega)
    · simp
  apply Sat_bind (Sat_liftM hp); rintro ⟨payload, r3⟩ h3
  dsimp only at h3 ⊢
  split
  · apply Sat_bind (Sat_liftM (unmarshalInt_spec _)); intro v _
    exact Sat_pure (by simp; omega)
  split
  · apply Sat_bind (Sat_liftM (unmarshalUint_spec _)); intro v _
    exact Sat_pure (by simp; omega)
  split
  · apply Sat_bind (Sat_liftM (unmarshalFloat_spec _)); intro v _
    exact Sat_pure (by simp; omega)
  · apply Sat_bind (Sat_liftM (unmarshalChar_spec _)); intro v _
    exact Sat_pure (by simp; omega)

theorem decodeSizedBuf_sat {O : Prop} {C} {A : Nat → Prop} {L} (hN : Dominates A L) (cfLoop arrLoop mapLoop) (btype : UInt8) (rb payload : Bytes)
    (hbuf : 1 + rb.length + payload.length ≤ L)
    (hcf : ∀ rd f, rd.length ≤ L → rd.length + 1 ≤ 1 + rb.length + payload.length → Sat O A (fun _ => True) (cfLoop rd f))
    (harr : ∀ rd, rd.length ≤ L → rd.length + 1 ≤ 1 + rb.length + payload.length → Sat O A (fun _ => True) (arrLoop rd))
    (hmap : ∀ rd, rd.length ≤ L → rd.length + 1 ≤ 1 + rb.length + payload.length → Sat O A (fun _ => True) (mapLoop rd)) :
    Sat O A (fun _ => True) (decodeSizedBuf C cfLoop arrLoop mapLoop btype rb payload) := by
  unfold decodeSizedBuf
  have hbuf1 : (btype :: rb ++ payload).length ≤ L := by simp; omega
  have hbuf2 : (binMapV1 :: rb ++ payload).length ≤ L := by simp; omega
  have hl1 : (btype :: rb ++ payload).length = 1 + rb.length + payload.length := by simp; omega
  have hl2 : (binMapV1 :: rb ++ payload).length = 1 + rb.length + payload.length := by simp; omega
  dsimp only
  split
  · apply Sat_bind (unmarshalCF_sat _ _ hbuf1 (fun rd f h1 h2 => hcf rd f h1 (by omega))); intro f _
    exact Sat_pure trivial
  split
  · apply Sat_bind (unmarshalArray_sat hN _ _ hbuf1 (fun rd h1 h2 => harr rd h1 (by omega))); intro f _
    exact Sat_pure trivial
  split
  · apply Sat_bind (Sat_liftM (unmarshalBytes_spec _)); intro v _
    exact Sat_pure trivial
  split
  · apply Sat_bind (Sat_liftM (unmarshalString_spec _)); intro v _
    exact Sat_pure trivial
  split
  · apply Sat_bind (unmarshalMap_sat _ _ hbuf1 (fun rd h1 h2 => hmap rd h1 (by omega))); intro f _
    exact Sat_pure trivial
  split
  · split
    · split
      · exact Sat_pure trivial
      · apply Sat_bind (unmarshalMap_sat _ _ hbuf2 (fun rd h1 h2 => hmap rd h1 (by omega))); intro f _
        exact Sat_pure trivial
    · exact Sat_liftM (by simp)
  split
  · apply Sat_bind (Sat_liftM (unmarshalFuncName_spec _ _ _)); intro v _
    exact Sat_pure trivial
  · apply Sat_bind (Sat_liftM (unmarshalFuncName_spec _ _ _)); intro v _
    split
    · exact Sat_pure trivial
    · exact Sat_liftM (by simp)

theorem decodeSized_sat {O : Prop} {C} {A : Nat → Prop} {L} (hN : Dominates A L) (cfLoop arrLoop mapLoop) (btype : UInt8) (r1 : Bytes)
    (h : r1.length + 1 ≤ L)
    (hcf : ∀ rd f, rd.length ≤ L → rd.length ≤ r1.length → Sat O A (fun _ => True) (cfLoop rd f))
    (harr : ∀ rd, rd.length ≤ L → rd.length ≤ r1.length → Sat O A (fun _ => True) (arrLoop rd))
    (hmap : ∀ rd, rd.length ≤ L → rd.length ≤ r1.length → Sat O A (fun _ => True) (mapLoop rd)) :
    Sat O A (fun p => p.2.length ≤ r1.length) (decodeSized C cfLoop arrLoop mapLoop btype r1) := by
  unfold decodeSized
  apply Sat_bind (Sat_liftM (viReadBytes_spec r1)); rintro ⟨value, rb, r2⟩ h2
  dsimp only at h2 ⊢
  split
  · exact Sat_liftM (by simp)
  · rename_i hneg
    apply Sat_bind (P := fun _ => True)
      (Sat_tick (hN _ (by have := Nat.min_le_right value.toNat r2.length; omega)) trivial)
    intro _ _
    have hp : RSat O (fun p : Bytes × Bytes => p.1.length + p.2.length = r2.length)
        (if value > 0 then readFull value.toNat r2 else .ok ([], r2)) := by
      split
      · exact (readFull_spec _ _).mono (by intro p hp; omega)
      · simp
    apply Sat_bind (Sat_liftM hp); rintro ⟨payload, r3⟩ h3
    dsimp only at h3 ⊢
    apply Sat_bind (decodeSizedBuf_sat hN cfLoop arrLoop mapLoop btype rb payload (by omega)
      (fun rd f h1 h2 => hcf rd f h1 (by omega)) (fun rd h1 h2 => harr rd h1 (by omega))
      (fun rd h1 h2 => hmap rd h1 (by omega)))
    intro o _
    exact Sat_pure (by simp; omega)

theorem decodeGob_sat {O : Prop} {C} {A : Nat → Prop} {L} (hG : GobOK C A L) (r1 : Bytes) (h : r1.length ≤ L) :
    Sat O A (fun p => p.2.length ≤ r1.length) (decodeGob C r1) := by
  unfold decodeGob
  split
  · rename_i o r' hg
    refine ⟨?_, ?_⟩
    · have := hG.rest _ _ _ hg
      simpa [RSat] using this
    · intro a ha; simp at ha; subst ha; exact hG.alloc _ h
  · refine ⟨RSat_fail _ _ _, ?_⟩
    intro a ha; simp at ha; subst ha; exact hG.alloc _ h

theorem decodeObject_step {O : Prop} {C} {A : Nat → Prop} {L fuel} (hN : Dominates A L) (hG : GobOK C A L) (ih : DecSpec O C A L fuel)
    (r : Bytes) (h : r.length ≤ L) (hf : O ∨ 2 * r.length + 1 ≤ fuel + 1) :
    Sat O A (fun p => p.2.length + 1 ≤ r.length) (decodeObjectF C (fuel + 1) r) := by
  unfold decodeObjectF
  apply Sat_bind (Sat_liftM (readByte_spec r)); rintro ⟨btype, r1⟩ h1
  dsimp only at h1 ⊢
  split
  · exact Sat_pure (by simp; omega)
  split
  · exact Sat_pure (by simp; omega)
  split
  · exact Sat_pure (by simp; omega)
  split
  · exact (decodeNum_sat hN btype r1 (by omega)).mono (by intro p hp; omega)
  split
  · exact (decodeSized_sat hN _ _ _ btype r1 (by omega)
      (fun rd f h1' h2' => ih.2.2.2 rd f h1' (hf.imp id (by omega)))
      (fun rd h1' h2' => ih.2.1 rd h1' (hf.imp id (by omega)))
      (fun rd h1' h2' => ih.2.2.1 rd h1' (hf.imp id (by omega)))).mono (by intro p hp; omega)
  split
  · exact (decodeGob_sat hG r1 (by omega)).mono (by intro p hp; omega)
  · exact Sat_liftM (by simp)

theorem decSpec (O : Prop) (C : Ctx) (A : Nat → Prop) (L : Nat) (hN : Dominates A L) (hG : GobOK C A L) :
    ∀ fuel, DecSpec O C A L fuel := by
  intro fuel
  induction fuel with
  | zero =>
    refine ⟨?_, ?_, ?_, ?_⟩
    · intro r _ hf; unfold decodeObjectF; exact Sat_outOfFuel (hf.resolve_right (by omega))
    · intro r _ hf; unfold arrayLoopF; exact Sat_outOfFuel (hf.resolve_right (by omega))
    · intro r _ hf; unfold mapLoopF; exact Sat_outOfFuel (hf.resolve_right (by omega))
    · intro r f _ hf; unfold cfLoopF; exact Sat_outOfFuel (hf.resolve_right (by omega))
  | succ n ih =>
    exact ⟨fun r h hf => decodeObject_step hN hG ih r h hf, fun r h hf => arrayLoop_step ih r h hf,
           fun r h hf => mapLoop_step hN ih r h hf, fun r f h hf => cfLoop_step hN ih r f h hf⟩

end UgoVerif.Proofs.Enc

namespace UgoVerif.Proofs.Enc
open UgoVerif.Go UgoVerif.Model.Enc UgoVerif.Gen.EncTags

/-! ### source files, bytecode -/

theorem unmarshalSourceFile_sat {O : Prop} {A : Nat → Prop} {L} (hN : Dominates A L) (dec : Bytes → DM (Obj × Bytes)) (data : Bytes)
    (hd : data.length ≤ L)
    (hdec : ∀ r, r.length ≤ L → r.length ≤ data.length → Sat O A (fun p => p.2.length + 1 ≤ r.length) (dec r)) :
    Sat O A (fun _ => True) (unmarshalSourceFile dec data) := by
  unfold unmarshalSourceFile
  apply Sat_bind (hdec data hd (Nat.le_refl _)); rintro ⟨obj, rd⟩ h0
  dsimp only at h0 ⊢
  split
  · apply Sat_bind (Sat_liftM (viRead_spec rd)); rintro ⟨base, rd1⟩ h1
    dsimp only at h1 ⊢
    apply Sat_bind (Sat_liftM (viRead_spec rd1)); rintro ⟨size, rd2⟩ h2
    dsimp only at h2 ⊢
    apply Sat_bind (Sat_liftM (viRead_spec rd2)); rintro ⟨v, rd3⟩ h3
    dsimp only at h3 ⊢
    split
    · exact Sat_liftM (by simp)
    · apply Sat_bind (P := fun _ => True) (Sat_tick (hN _ (by omega)) trivial)
      intro _ _
      apply Sat_bind (Sat_liftM (linesLoop_spec _ rd3)); rintro ⟨lines, rd4⟩ h4
      dsimp only
      split
      · exact Sat_liftM (by simp)
      · exact Sat_pure trivial
  · exact Sat_liftM (by simp)

theorem filesLoop_sat {O : Prop} {A : Nat → Prop} {L} (hN : Dominates A L) (dec : Bytes → DM (Obj × Bytes)) (M : Nat)
    (hdec : ∀ r, r.length ≤ L → r.length ≤ M → Sat O A (fun p => p.2.length + 1 ≤ r.length) (dec r)) :
    ∀ (n : Nat) (rd : Bytes), rd.length ≤ L → rd.length ≤ M →
      Sat O A (fun p => p.2.length ≤ rd.length) (filesLoop dec n rd) := by
  intro n
  induction n with
  | zero => intro rd _ _; unfold filesLoop; exact Sat_pure (Nat.le_refl _)
  | succ n ih =>
    intro rd hrd hM
    unfold filesLoop
    apply Sat_bind (Sat_liftM (viRead_spec rd)); rintro ⟨v, rd1⟩ h1
    dsimp only at h1 ⊢
    split
    · exact Sat_liftM (by simp)
    · apply Sat_bind (P := fun _ => True) (Sat_tick (hN _ (by omega)) trivial)
      intro _ _
      apply Sat_bind (Sat_liftM (readFull_spec v.toNat rd1)); rintro ⟨data, rd2⟩ h2
      dsimp only at h2 ⊢
      apply Sat_bind (unmarshalSourceFile_sat hN dec data (by omega)
        (fun r h1' h2' => hdec r h1' (by omega))); intro file _
      apply Sat_bind (ih rd2 (by omega) (by omega)); rintro ⟨rest, rd3⟩ h3
      exact Sat_pure (by simp at h3 ⊢; omega)

theorem unmarshalFileSet_sat {O : Prop} {A : Nat → Prop} {L} (hN : Dominates A L) (dec : Bytes → DM (Obj × Bytes)) (data : Bytes)
    (hd : data.length ≤ L)
    (hdec : ∀ r, r.length ≤ L → r.length ≤ data.length → Sat O A (fun p => p.2.length + 1 ≤ r.length) (dec r)) :
    Sat O A (fun _ => True) (unmarshalFileSet dec data) := by
  unfold unmarshalFileSet
  apply Sat_bind (Sat_liftM (viRead_spec data)); rintro ⟨base, rd1⟩ h1
  dsimp only at h1 ⊢
  apply Sat_bind (Sat_liftM (viRead_spec rd1)); rintro ⟨v, rd2⟩ h2
  dsimp only at h2 ⊢
  split
  · exact Sat_liftM (by simp)
  · apply Sat_bind (P := fun _ => True) (Sat_tick (hN _ (by omega)) trivial)
    intro _ _
    apply Sat_bind (filesLoop_sat hN dec data.length hdec _ rd2 (by omega) (by omega)); rintro ⟨files, rd3⟩ h3
    dsimp only
    split
    · exact Sat_liftM (by simp)
    · exact Sat_pure trivial

theorem bcLoop_sat {O : Prop} {C} {A : Nat → Prop} {L} (hN : Dominates A L) (hG : GobOK C A L) :
    ∀ (fuel : Nat) (r : Bytes) (bc : BC), r.length ≤ L → (O ∨ 2 * r.length + 2 ≤ fuel) →
      Sat O A (fun _ => True) (bcLoopF C fuel r bc) := by
  intro fuel
  induction fuel with
  | zero => intro r bc _ hf; unfold bcLoopF; exact Sat_outOfFuel (hf.resolve_right (by omega))
  | succ fuel ih =>
    intro r bc hr hf
    have hdec := (decSpec O C A L hN hG fuel).1
    unfold bcLoopF
    split
    · exact Sat_pure trivial
    · rename_i field r1
      simp only [List.length_cons] at hr hf
      split
      · apply Sat_bind (hdec r1 (by omega) (hf.imp id (by omega))); rintro ⟨obj, r2⟩ h2
        dsimp only at h2 ⊢
        split
        · split
          · exact ih _ _ (by omega) (hf.imp id (by omega))
          · split
            · exact Sat_liftM (by simp)
            · rename_i sz hpos hle
              apply Sat_bind (P := fun _ => True) (Sat_tick (hN _ (by
                have : sz.toInt ≤ (r2.length : Int) := by omega
                have h3 : (sz.toNat : Int) = sz.toInt := by
                  rw [BitVec.toInt_eq_toNat_cond]; split
                  · rfl
                  · rename_i hh; rw [BitVec.toInt_eq_toNat_cond, if_neg hh] at hpos; omega
                omega)) trivial)
              intro _ _
              apply Sat_bind (Sat_liftM (readFull_spec sz.toNat r2)); rintro ⟨data, r3⟩ h3
              dsimp only at h3 ⊢
              apply Sat_bind (unmarshalFileSet_sat hN _ data (by omega)
                (fun r' h1' h2' => hdec r' h1' (hf.imp id (by omega)))); intro fs _
              exact ih _ _ (by omega) (hf.imp id (by omega))
        · exact Sat_liftM (by simp)
      split
      · apply Sat_bind (hdec r1 (by omega) (hf.imp id (by omega))); rintro ⟨obj, r2⟩ h2
        dsimp only at h2 ⊢
        split
        · exact ih _ _ (by omega) (hf.imp id (by omega))
        · exact Sat_liftM (by simp)
      split
      · apply Sat_bind (hdec r1 (by omega) (hf.imp id (by omega))); rintro ⟨obj, r2⟩ h2
        dsimp only at h2 ⊢
        split
        · exact ih _ _ (by omega) (hf.imp id (by omega))
        · exact Sat_liftM (by simp)
      split
      · apply Sat_bind (hdec r1 (by omega) (hf.imp id (by omega))); rintro ⟨obj, r2⟩ h2
        dsimp only at h2 ⊢
        split
        · exact ih _ _ (by omega) (hf.imp id (by omega))
        · exact Sat_liftM (by simp)
      · exact Sat_liftM (by simp)

theorem fixItems_rsat {O : Prop} (attrs : List (Bytes × Obj)) : ∀ kvs, RSat O (fun _ => True) (fixItems attrs kvs) := by
  intro kvs
  induction kvs with
  | nil => simp [fixItems]
  | cons kv rest ih =>
    obtain ⟨item, v⟩ := kv
    unfold fixItems
    split
    · exact RSat_bind ih (by intro a _; simp)
    · dsimp only
      split
      · simp
      · exact RSat_bind ih (by intro a _; simp)

theorem fixConst_rsat {O : Prop} (mods : Mods) (o : Obj) : RSat O (fun _ => True) (fixConst mods o) := by
  unfold fixConst
  split
  · split
    · split
      · simp
      · exact RSat_bind (fixItems_rsat _ _) (by intro a _; simp)
    · simp
  · simp

theorem fixConsts_rsat {O : Prop} (mods : Mods) : ∀ cs, RSat O (fun _ => True) (fixConsts mods cs) := by
  intro cs
  induction cs with
  | nil => simp [fixConsts]
  | cons o rest ih =>
    unfold fixConsts
    apply RSat_bind (fixConst_rsat mods o); intro o' _
    apply RSat_bind ih; intro r _
    simp

theorem fixObjects_rsat {O : Prop} (mods : Mods) (bc : BC) : RSat O (fun _ => True) (fixObjects mods bc) := by
  unfold fixObjects
  split
  · simp
  · exact RSat_bind (fixConsts_rsat mods _) (by intro a _; simp)

theorem decodeBytecodeF_sat {O : Prop} {C} {A : Nat → Prop} (conv : BC → Res BC) (mods : Mods) (fuel : Nat) (data : Bytes)
    (hN : Dominates A data.length) (hG : GobOK C A data.length)
    (hconv : ∀ bc, RSat O (fun _ => True) (conv bc))
    (hf : O ∨ 2 * data.length + 2 ≤ fuel) :
    Sat O A (fun _ => True) (decodeBytecodeF C conv mods fuel data) := by
  unfold decodeBytecodeF
  split
  · exact Sat_liftM (by simp)
  split
  · exact Sat_liftM (by simp)
  dsimp only
  have hb : (data.drop 6).length ≤ data.length := by simp
  split
  · apply Sat_bind (bcLoop_sat hN hG fuel _ {} hb (hf.imp id (by omega))); intro bc _
    exact Sat_liftM (fixObjects_rsat mods bc)
  split
  · apply Sat_bind (bcLoop_sat hN hG fuel _ {} hb (hf.imp id (by omega))); intro bc _
    apply Sat_bind (Sat_liftM (hconv bc)); intro bc' _
    exact Sat_liftM (fixObjects_rsat mods bc')
  · exact Sat_liftM (by simp)

end UgoVerif.Proofs.Enc
