import UgoVerif.Proofs.CompileGbMain
import UgoVerif.Proofs.EvalMono
/-
  C13 over an Eval session (`Model/Eval.lean`): `compileSession` continues from the session's ROOT
  table and constant pool.  If the table is acceptable for `D` (`TableOK`: every BUILTIN-scope
  symbol cached in its store is the index of a builtin name outside `D`, and `D` is contained in its
  disabled set), then after the compile — successful or not — the table handed to the next fragment
  is acceptable again, and on success the GETBUILTIN operands of the Bytecode are acceptable.
-/
namespace UgoVerif.Compile.GB
open UgoVerif UgoVerif.Go UgoVerif.Ast UgoVerif.Compile UgoVerif.Eval UgoVerif.Proofs.EvalMono

/-- a session's root table that is acceptable for `c.D` -/
def TableOK (c : Ctx) (t : Table) : Prop := StoreOK c t.store ∧ ∀ n ∈ c.D, n ∈ t.disabled

variable {c : Ctx}

theorem TableOK.tabsInv {t : Table} (h : TableOK c t) : TabsInv c [t] :=
  ⟨by simp, fun t' ht' => by simp at ht'; subst ht'; exact h.1, fun n hn => h.2 n hn⟩

theorem TabsInv.last : ∀ {ts : List Table}, TabsInv c ts → ∀ t0, TableOK c ((ts.getLast?).getD t0)
  | [], h, _ => absurd rfl h.ne
  | [t], h, _ => ⟨h.ok t (by simp), fun n hn => h.dis n hn⟩
  | t :: t2 :: r, h, t0 => by
    have := TabsInv.last (h.tail (by simp)) t0
    simpa [List.getLast?_cons_cons] using this

theorem constsOK_maskFns (cs : Array Const) : ConstsOK c (maskFns cs) := by
  intro f hf
  simp only [maskFns, Array.toList_map, List.mem_map] at hf
  obtain ⟨k, _, hk⟩ := hf
  cases k with
  | val v => simp at hk
  | fn g => simp [maskConst] at hk

theorem constsOK_unmask {cs new : Array Const} (h1 : ConstsOK c cs) (h2 : ConstsOK c new) :
    ConstsOK c (unmaskFns cs new) := by
  intro f hf
  simp only [unmaskFns, Array.toList_append, List.mem_append, Array.toList_extract] at hf
  rcases hf with hf | hf
  · exact h1 f hf
  · rw [List.extract_eq_drop_take] at hf
    have h3 := List.mem_of_mem_take hf
    have h4 := List.mem_of_mem_drop h3
    exact h2 f h4

/-- **one fragment of an Eval session.** -/
theorem compileSession_gb (t : Table) (cs : Array Const) (file : List Stmt)
    (ht : TableOK c t) (hp : NoPending t) (hcs : ConstsOK c cs) :
    TableOK c (compileSession c.bs t cs file).table ∧
    (∀ bc, (compileSession c.bs t cs file).result = .ok bc → BcOK c bc) := by
  let init : CState := { tables := [t], constants := maskFns cs, builtins := c.bs }
  have hinit : Inv c init :=
    ⟨by simp [init], rfl, ht.tabsInv.ok, ht.tabsInv.dis, Walk.refl 0, fun l hl => by simp [init] at hl,
      constsOK_maskFns cs, gbOK_empty⟩
  let rest : CM Bytecode := do
    compileStmts file
    let fn ← finishFn
    if fn.numLocals > maxNumLocals then throw (.bare "SymbolLimitError: number of local symbols exceeds the limit")
    else pure { main := fn, constants := unmaskFns cs (← get).constants }
  have hrest : Sat c rest init (fun bc s' => TabsInv c s'.tables ∧ BcOK c bc) := by
    apply Sat.bind
    apply Sat.mono (good_compileStmts file init hinit)
    intro _ s1 ⟨hi1, _, _⟩
    apply Sat.bind
    apply Sat.mono (goodP_finishFn s1 hi1)
    intro fn s2 ⟨hi2, _, hfn⟩
    split
    · exact Sat.throw hi2.tinv
    · apply Sat.bind
      apply Sat.get
      apply Sat.pure
      exact ⟨hi2.tinv, hfn, constsOK_unmask hcs hi2.consts⟩
  have hrun : runCM (do
      setGlobalSymbolsIndex
      compileStmts file
      let fn ← finishFn
      if fn.numLocals > maxNumLocals then throw (.bare "SymbolLimitError: number of local symbols exceeds the limit")
      pure { main := fn, constants := unmaskFns cs (← get).constants } : CM Bytecode) init = runCM rest init := by
    rw [runCM_bind, runCM_setGlobalSymbolsIndex (s := init) (t := t) (r := []) rfl hp]
    rfl
  have hE : TabsInv c (runCM rest init).2.tables ∧ ∀ bc, (runCM rest init).1 = .ok bc → BcOK c bc := by
    unfold Sat at hrest
    cases hr : runCM rest init with
    | mk r s' =>
      rw [hr] at hrest
      cases r with
      | ok bc => exact ⟨hrest.1, fun bc' h => by injection h with h; subst h; exact hrest.2⟩
      | error e => exact ⟨hrest, fun bc' h => by cases h⟩
  have hout : compileSession c.bs t cs file =
      { result := (runCM rest init).1, table := ((runCM rest init).2.tables.getLast?).getD t } := by
    unfold compileSession
    simp only
    show _ = _
    have : (StateT.run (ExceptT.run (do
      setGlobalSymbolsIndex
      compileStmts file
      let fn ← finishFn
      if fn.numLocals > maxNumLocals then throw (.bare "SymbolLimitError: number of local symbols exceeds the limit")
      pure { main := fn, constants := unmaskFns cs (← get).constants } : CM Bytecode)) init) = runCM rest init := hrun
    rw [this]
  rw [hout]
  exact ⟨hE.1.last t, hE.2⟩

end UgoVerif.Compile.GB
