import UgoVerif.Proofs.JsonScanSpec
import UgoVerif.Proofs.JsonSpecApp
/-
  C17: `compact` (indent.go) writes a JSON text that is one value (`IsVal`) whenever it
  succeeds, and never panics.  Method: the bytes written from a scanner configuration `s`
  are accepted from `s` (`resid s E = true`): a byte copied is one derivative step, a white
  space byte dropped does not change the residual language (`resid_ws`), an HTML escape
  `\u00XX` / `\u202X` written inside a string is read back as string content.
-/
namespace UgoVerif.Proofs.Json
set_option linter.unusedSimpArgs false
open UgoVerif UgoVerif.Go UgoVerif.Spec.Json UgoVerif.Model.JsonScan UgoVerif.Gen.JsonTables

/-! ### which bytes the automaton skips, and where special bytes are legal -/

theorem wf_err_false (s : Scanner) (h : WF s) (hs : s.step ≠ .error) : s.err = false := by
  cases he : s.err with
  | false => rfl
  | true => exact absurd (h.err.mp he) hs

theorem endValue_skip (s : Scanner) (c : UInt8) (s' : Scanner) (op : Op)
    (h : stateEndValue s c = .ok (s', op)) (hop : op.geSkipSpace = true) (herr : s'.err = false) :
    isSpace c = true := by
  by_cases hsp : isSpace c = true
  · exact hsp
  · exfalso
    unfold stateEndValue stateEndTop Scanner.pop at h
    simp only [hsp] at h
    repeat' split at h
    all_goals simp_all [Scanner.error, goto, Op.geSkipSpace]
    all_goals (obtain ⟨h1, h2⟩ := h; subst h1; subst h2; simp_all [Op.geSkipSpace])


theorem goto_inv {s s' : Scanner} {st : St} {op0 op : Op} (h : goto s st op0 = .ok (s', op)) :
    s' = { s with step := st } ∧ op = op0 := by
  unfold goto at h; injection h with h; injection h with h1 h2; exact ⟨h1.symm, h2.symm⟩
theorem error_inv {s s' : Scanner} {op : Op} (h : s.error = .ok (s', op)) : s'.err = true ∧ op = .error := by
  unfold Scanner.error at h; injection h with h; injection h with h1 h2; subst h1; exact ⟨rfl, h2.symm⟩
theorem push_inv {s s' : Scanner} {p : PS} {op0 op : Op} (h : s.push p op0 = .ok (s', op)) :
    (s' = { s with parseState := p :: s.parseState } ∧ op = op0) ∨ s'.err = true := by
  unfold Scanner.push at h
  simp only [] at h
  split at h
  · injection h with h; injection h with h1 h2; exact Or.inl ⟨h1.symm, h2.symm⟩
  · exact Or.inr (error_inv h).1

/-- closes a goal whose hypothesis `h` says that a non-skipping transition produced a skip opcode -/
local macro "noskip" h:ident hop:ident herr:ident : tactic =>
  `(tactic| first
    | (have h1 := (goto_inv $h).2; subst h1; exact absurd $hop (by decide))
    | (have h1 := (error_inv $h).1; rw [$herr:ident] at h1; cases h1)
    | (rcases push_inv $h with h1 | h1
       · have h2 := h1.2; subst h2; exact absurd $hop (by decide)
       · rw [$herr:ident] at h1; cases h1)
    | (injection $h with h1; injection h1 with h1 h2; subst h2; exact absurd $hop (by decide)))

theorem beginValue_skip (s : Scanner) (c : UInt8) (s' : Scanner) (op : Op)
    (h : stateBeginValue s c = .ok (s', op)) (hop : op.geSkipSpace = true) (herr : s'.err = false) :
    isSpace c = true := by
  by_cases hsp : isSpace c = true
  · exact hsp
  · exfalso
    unfold stateBeginValue at h
    simp only [hsp, Bool.false_eq_true, if_false] at h
    repeat' split at h
    all_goals noskip h hop herr

theorem beginString_skip (s : Scanner) (c : UInt8) (s' : Scanner) (op : Op)
    (h : stateBeginString s c = .ok (s', op)) (hop : op.geSkipSpace = true) (herr : s'.err = false) :
    isSpace c = true := by
  by_cases hsp : isSpace c = true
  · exact hsp
  · exfalso
    unfold stateBeginString at h
    simp only [hsp, Bool.false_eq_true, if_false] at h
    repeat' split at h
    all_goals noskip h hop herr

theorem step_skip (s : Scanner) (c : UInt8) (s' : Scanner) (op : Op) (hw : WF s)
    (h : step s c = .ok (s', op)) (hop : op.geSkipSpace = true) (herr : s'.err = false) :
    isSpace c = true := by
  by_cases hsp : isSpace c = true
  · exact hsp
  · exfalso
    have hev : ∀ s0 : Scanner, stateEndValue s0 c = .ok (s', op) → False :=
      fun s0 h0 => hsp (endValue_skip s0 c s' op h0 hop herr)
    have hbv : ∀ s0 : Scanner, stateBeginValue s0 c = .ok (s', op) → False :=
      fun s0 h0 => hsp (beginValue_skip s0 c s' op h0 hop herr)
    have hbs : ∀ s0 : Scanner, stateBeginString s0 c = .ok (s', op) → False :=
      fun s0 h0 => hsp (beginString_skip s0 c s' op h0 hop herr)
    unfold step at h
    cases hs : s.step <;> simp only [hs] at h
    all_goals first
      | exact hev _ h
      | exact hbv _ h
      | exact hbs _ h
      | (injection h with h; injection h with h1 h2; subst h1
         have := hw.err.mpr hs; rw [herr] at this; cases this)
      | (unfold stateBeginValueOrEmpty at h
         simp only [hsp, Bool.false_eq_true, if_false] at h
         split at h
         · exact hev _ h
         · exact hbv _ h)
      | (unfold stateBeginStringOrEmpty at h
         simp only [hsp, Bool.false_eq_true, if_false] at h
         split at h
         · split at h
           · cases h
           · exact hev _ h
         · exact hbs _ h)
      | (unfold stateEndTop at h
         simp only [hsp] at h
         injection h with h; injection h with h1 h2; subst h1; simp at herr)
      | (try unfold state0 at h
         try unfold stateESign at h
         repeat' split at h
         all_goals first
           | exact hev _ h
           | noskip h hop herr)


/-- white space, the HTML-sensitive bytes and the first byte of U+2028/9 -/
def special (c : UInt8) : Bool :=
  c == 0x3C || c == 0x3E || c == 0x26 || c == 0xE2 || c == 0x20 || c == 0x09 || c == 0x0A || c == 0x0D

set_option maxRecDepth 100000 in
theorem special_facts : ∀ c : UInt8, special c = true →
    (c == 0x3A) = false ∧ (c == 0x2C) = false ∧ (c == 0x7D) = false ∧ (c == 0x5D) = false ∧
    (c == 0x7B) = false ∧ (c == 0x5B) = false ∧ (c == 0x22) = false ∧ (c == 0x2D) = false ∧
    (c == 0x30) = false ∧ (c == 0x74) = false ∧ (c == 0x66) = false ∧ (c == 0x6E) = false ∧
    isDig19 c = false ∧ isDig c = false ∧ isHexDig c = false ∧ (c == 0x2E) = false ∧
    (c == 0x65 || c == 0x45) = false ∧ (c == 0x5C) = false ∧ (c == 0x75) = false ∧
    (c == 0x62 || c == 0x66 || c == 0x6E || c == 0x72 || c == 0x74 || c == 0x5C || c == 0x2F || c == 0x22) = false ∧
    (c == 0x2B || c == 0x2D) = false ∧ (c == 0x72) = false ∧ (c == 0x65) = false ∧ (c == 0x61) = false ∧
    (c == 0x6C) = false ∧ (c == 0x73) = false ∧ (c == 0x45) = false ∧ (c == 0x2B) = false ∧
    (c == 0x2F) = false ∧ (c == 0x62) = false := by
  apply forall_uint8; decide

theorem endValue_nodelim (s : Scanner) (c : UInt8) (s' : Scanner) (op : Op)
    (h1 : (c == 0x3A) = false) (h2 : (c == 0x2C) = false) (h3 : (c == 0x7D) = false) (h4 : (c == 0x5D) = false)
    (h : stateEndValue s c = .ok (s', op)) : op.geSkipSpace = true := by
  unfold stateEndValue stateEndTop at h
  simp only [h1, h2, h3, h4, Bool.false_eq_true, if_false] at h
  repeat' split at h
  all_goals first
    | (have := (goto_inv h).2; subst this; rfl)
    | (have := (error_inv h).2; subst this; rfl)
    | (injection h with h; injection h with _ h2; subst h2; rfl)

/-- a special byte is only copied (not skipped, no error) inside a string, where the scanner stays put -/
theorem special_inString (s : Scanner) (c : UInt8) (s' : Scanner) (op : Op) (hc : special c = true)
    (h : step s c = .ok (s', op)) (hop : op.geSkipSpace = false) : s.step = .inString ∧ s' = s := by
  obtain ⟨f1, f2, f3, f4, f5, f6, f7, f8, f9, f10, f11, f12, f13, f14, f15, f16, f17, f18, f19, f20, f21,
    f22, f23, f24, f25, f26, f27, f28, f29, f30⟩ := special_facts c hc
  have hev : ∀ s0 : Scanner, stateEndValue s0 c = .ok (s', op) → False := fun s0 h0 => by
    have := endValue_nodelim s0 c s' op f1 f2 f3 f4 h0; rw [hop] at this; cases this
  unfold step at h
  cases hs : s.step <;> simp only [hs] at h
  all_goals (try unfold stateBeginValueOrEmpty at h)
  all_goals (try unfold stateBeginStringOrEmpty at h)
  all_goals (try unfold stateBeginValue at h)
  all_goals (try unfold stateBeginString at h)
  all_goals (try unfold state0 at h)
  all_goals (try unfold stateESign at h)
  all_goals (try unfold stateEndTop at h)
  all_goals (try simp only [f1, f2, f3, f4, f5, f6, f7, f8, f9, f10, f11, f12, f13, f14, f15, f16, f17, f18, f19,
    f20, f21, f22, f23, f24, f25, f26, f27, f28, f29, f30, Bool.or_false, Bool.false_or, Bool.or_self,
    Bool.false_eq_true, if_false] at h)
  all_goals (repeat' split at h)
  all_goals first
    | (exfalso; exact hev _ h)
    | (exfalso; have := (error_inv h).2; subst this; exact absurd hop (by decide))
    | (exfalso; injection h with h; injection h with _ h2; subst h2; exact absurd hop (by decide))
    | (injection h with h; injection h with h1 _; exact ⟨rfl, h1.symm⟩)


/-! ### dropping a skipped white space byte keeps the rest acceptable -/

/-- nothing that could continue a number -/
def Term : Bytes → Prop
  | [] => True
  | b :: _ => isDig b = false ∧ (b == 0x2E) = false ∧ (b == 0x65 || b == 0x45) = false

set_option maxRecDepth 100000 in
theorem delim_facts : ∀ b : UInt8, (isWs b = true ∨ b = 0x5D ∨ b = 0x2C ∨ b = 0x7D ∨ b = 0x3A) →
    isDig b = false ∧ (b == 0x2E) = false ∧ (b == 0x65 || b == 0x45) = false := by
  apply forall_uint8; decide

theorem special_of_ws (c : UInt8) (h : isWs c = true) : special c = true := by
  simp only [isWs, Bool.or_eq_true, beq_iff_eq] at h
  rcases h with ((rfl | rfl) | rfl) | rfl <;> decide

theorem K_term (ps : List PS) (w : Bytes) (h : K ps w = true) : Term w := by
  cases w with
  | nil => trivial
  | cons b t =>
    by_cases hws : isWs b = true
    · exact delim_facts b (Or.inl hws)
    · have hws' : isWs b = false := by simpa using hws
      cases ps with
      | nil => rw [K_nil_not b t hws'] at h <;> cases h
      | cons p ps =>
        cases p with
        | objectKey =>
          rw [K_objk ps b t hws'] at h
          by_cases h1 : (b == 0x3A) = true
          · exact delim_facts b (Or.inr (Or.inr (Or.inr (Or.inr (by simpa using h1)))))
          · simp only [h1, Bool.false_eq_true, if_false] at h <;> cases h
        | objectValue =>
          rw [K_objv ps b t hws'] at h
          by_cases h1 : (b == 0x7D) = true
          · exact delim_facts b (Or.inr (Or.inr (Or.inr (Or.inl (by simpa using h1)))))
          · simp only [h1, Bool.false_eq_true, if_false] at h
            by_cases h2 : (b == 0x2C) = true
            · exact delim_facts b (Or.inr (Or.inr (Or.inl (by simpa using h2))))
            · simp only [h2, Bool.false_eq_true, if_false] at h <;> cases h
        | arrayValue =>
          rw [K_arr ps b t hws'] at h
          by_cases h1 : (b == 0x5D) = true
          · exact delim_facts b (Or.inr (Or.inl (by simpa using h1)))
          · simp only [h1, Bool.false_eq_true, if_false] at h
            by_cases h2 : (b == 0x2C) = true
            · exact delim_facts b (Or.inr (Or.inr (Or.inl (by simpa using h2))))
            · simp only [h2, Bool.false_eq_true, if_false] at h <;> cases h

theorem term_skipDigits (w : Bytes) (h : Term w) : skipDigits w = w := by
  cases w with
  | nil => rfl
  | cons b t => rw [skipDigits_cons]; simp only [h.1, Bool.false_eq_true, if_false]

theorem term_expPart (w : Bytes) (h : Term w) : expPart w = some w := by
  cases w with
  | nil => rfl
  | cons b t => rw [expPart_cons]; simp only [h.2.2, Bool.false_eq_true, if_false]

theorem term_afterInt (w : Bytes) (h : Term w) : afterInt w = some w := by
  cases w with
  | nil => rfl
  | cons b t => rw [afterInt_cons]; simp only [h.2.1, h.2.2, Bool.false_eq_true, if_false]

theorem resid_ws (s : Scanner) (c : UInt8) (w : Bytes) (hc : isWs c = true)
    (h : resid s (c :: w) = true) : resid s w = true := by
  obtain ⟨f1, f2, f3, f4, f5, f6, f7, f8, f9, f10, f11, f12, f13, f14, f15, f16, f17, f18, f19, f20, f21,
    f22, f23, f24, f25, f26, f27, f28, f29, f30⟩ := special_facts c (special_of_ws c hc)
  cases hs : s.step with
  | beginValue => simp only [resid, hs, skipWs_ws c w hc] at h ⊢; exact h
  | beginValueOrEmpty => simp only [resid, hs, skipWs_ws c w hc] at h ⊢; exact h
  | beginStringOrEmpty => simp only [resid, hs, skipWs_ws c w hc] at h ⊢; exact h
  | beginString => simp only [resid, hs, skipWs_ws c w hc] at h ⊢; exact h
  | endValue => simp only [resid, hs, K_ws _ c w hc] at h ⊢; exact h
  | endTop => simp only [resid, hs, K_ws _ c w hc] at h ⊢; exact h
  | error => simp [resid, hs] at h
  | inString =>
    have hv : resid s (c :: w) = andK (strRest (c :: w)) (K s.parseState) := by simp [resid, hs, tok]
    rw [hv, strRest_cons] at h
    simp only [f7, f18, Bool.false_eq_true, if_false] at h
    split at h
    · cases h
    · simp only [resid, hs, tok]; exact h
  | inStringEsc =>
    have hv : resid s (c :: w) = andK (escRest (c :: w)) (K s.parseState) := by simp [resid, hs, tok]
    rw [hv, escRest_cons] at h
    simp only [f20, f19, Bool.false_eq_true, if_false, andK_none] at h <;> cases h
  | inStringEscU =>
    have hv : resid s (c :: w) = andK (tok .inStringEscU (c :: w)) (K s.parseState) := by simp [resid, hs]
    rw [hv] at h; simp only [tok] at h; rw [hexRest_cons] at h
    simp only [f15, Bool.false_eq_true, if_false, andK_none] at h <;> cases h
  | inStringEscU1 =>
    have hv : resid s (c :: w) = andK (tok .inStringEscU1 (c :: w)) (K s.parseState) := by simp [resid, hs]
    rw [hv] at h; simp only [tok] at h; rw [hexRest_cons] at h
    simp only [f15, Bool.false_eq_true, if_false, andK_none] at h <;> cases h
  | inStringEscU12 =>
    have hv : resid s (c :: w) = andK (tok .inStringEscU12 (c :: w)) (K s.parseState) := by simp [resid, hs]
    rw [hv] at h; simp only [tok] at h; rw [hexRest_cons] at h
    simp only [f15, Bool.false_eq_true, if_false, andK_none] at h <;> cases h
  | inStringEscU123 =>
    have hv : resid s (c :: w) = andK (tok .inStringEscU123 (c :: w)) (K s.parseState) := by simp [resid, hs]
    rw [hv] at h; simp only [tok] at h; rw [hexRest_cons] at h
    simp only [f15, Bool.false_eq_true, if_false, andK_none] at h <;> cases h
  | neg =>
    have hv : resid s (c :: w) = andK ((intPart (c :: w)).bind afterInt) (K s.parseState) := by
      simp [resid, hs, tok]
    rw [hv, neg_cons] at h
    simp only [f9, f13, Bool.false_eq_true, if_false, andK_none] at h <;> cases h
  | s1 =>
    have hv : resid s (c :: w) = andK (afterInt (skipDigits (c :: w))) (K s.parseState) := by
      simp [resid, hs, tok]
    rw [hv, skipDigits_cons] at h
    simp only [f14, Bool.false_eq_true, if_false] at h
    rw [afterInt_cons] at h
    simp only [f16, f17, Bool.false_eq_true, if_false, andK_some] at h
    rw [K_ws _ c w hc] at h
    have ht := K_term _ _ h
    simp only [resid, hs, tok, term_skipDigits w ht, term_afterInt w ht, andK_some]; exact h
  | s0 =>
    have hv : resid s (c :: w) = andK (afterInt (c :: w)) (K s.parseState) := by
      simp [resid, hs, tok]
    rw [hv, afterInt_cons] at h
    simp only [f16, f17, Bool.false_eq_true, if_false, andK_some] at h
    rw [K_ws _ c w hc] at h
    have ht := K_term _ _ h
    simp only [resid, hs, tok, term_afterInt w ht, andK_some]; exact h
  | dot =>
    have hv : resid s (c :: w) = andK ((digits1 (c :: w)).bind expPart) (K s.parseState) := by
      simp [resid, hs, tok]
    rw [hv, digits1_cons] at h
    simp only [f14, Bool.false_eq_true, if_false] at h <;> cases h
  | dot0 =>
    have hv : resid s (c :: w) = andK (expPart (skipDigits (c :: w))) (K s.parseState) := by
      simp [resid, hs, tok]
    rw [hv, skipDigits_cons] at h
    simp only [f14, Bool.false_eq_true, if_false] at h
    rw [expPart_cons] at h
    simp only [f17, Bool.false_eq_true, if_false, andK_some] at h
    rw [K_ws _ c w hc] at h
    have ht := K_term _ _ h
    simp only [resid, hs, tok, term_skipDigits w ht, term_expPart w ht, andK_some]; exact h
  | e =>
    have hv : resid s (c :: w) = andK (expSign (c :: w)) (K s.parseState) := by
      simp [resid, hs, tok]
    rw [hv, expSign_cons] at h
    simp only [f21, Bool.false_eq_true, if_false] at h
    rw [digits1_cons] at h
    simp only [f14, Bool.false_eq_true, if_false, andK_none] at h <;> cases h
  | eSign =>
    have hv : resid s (c :: w) = andK (digits1 (c :: w)) (K s.parseState) := by
      simp [resid, hs, tok]
    rw [hv, digits1_cons] at h
    simp only [f14, Bool.false_eq_true, if_false, andK_none] at h <;> cases h
  | e0 =>
    have hv : resid s (c :: w) = K s.parseState (skipDigits (c :: w)) := by
      simp [resid, hs, tok]
    rw [hv, skipDigits_cons] at h
    simp only [f14, Bool.false_eq_true, if_false] at h
    rw [K_ws _ c w hc] at h
    have ht := K_term _ _ h
    simp only [resid, hs, tok, term_skipDigits w ht, andK_some]; exact h
  | t =>
    have hv : resid s (c :: w) = andK (tok .t (c :: w)) (K s.parseState) := by simp [resid, hs]
    rw [hv] at h; simp only [tok] at h; rw [lit_cons] at h
    simp only [f22, Bool.false_eq_true, if_false, andK_none] at h <;> cases h
  | tr =>
    have hv : resid s (c :: w) = andK (tok .tr (c :: w)) (K s.parseState) := by simp [resid, hs]
    rw [hv] at h; simp only [tok] at h; rw [lit_cons] at h
    simp only [f19, Bool.false_eq_true, if_false, andK_none] at h <;> cases h
  | tru =>
    have hv : resid s (c :: w) = andK (tok .tru (c :: w)) (K s.parseState) := by simp [resid, hs]
    rw [hv] at h; simp only [tok] at h; rw [lit_cons] at h
    simp only [f23, Bool.false_eq_true, if_false, andK_none] at h <;> cases h
  | f =>
    have hv : resid s (c :: w) = andK (tok .f (c :: w)) (K s.parseState) := by simp [resid, hs]
    rw [hv] at h; simp only [tok] at h; rw [lit_cons] at h
    simp only [f24, Bool.false_eq_true, if_false, andK_none] at h <;> cases h
  | fa =>
    have hv : resid s (c :: w) = andK (tok .fa (c :: w)) (K s.parseState) := by simp [resid, hs]
    rw [hv] at h; simp only [tok] at h; rw [lit_cons] at h
    simp only [f25, Bool.false_eq_true, if_false, andK_none] at h <;> cases h
  | fal =>
    have hv : resid s (c :: w) = andK (tok .fal (c :: w)) (K s.parseState) := by simp [resid, hs]
    rw [hv] at h; simp only [tok] at h; rw [lit_cons] at h
    simp only [f26, Bool.false_eq_true, if_false, andK_none] at h <;> cases h
  | fals =>
    have hv : resid s (c :: w) = andK (tok .fals (c :: w)) (K s.parseState) := by simp [resid, hs]
    rw [hv] at h; simp only [tok] at h; rw [lit_cons] at h
    simp only [f23, Bool.false_eq_true, if_false, andK_none] at h <;> cases h
  | n =>
    have hv : resid s (c :: w) = andK (tok .n (c :: w)) (K s.parseState) := by simp [resid, hs]
    rw [hv] at h; simp only [tok] at h; rw [lit_cons] at h
    simp only [f19, Bool.false_eq_true, if_false, andK_none] at h <;> cases h
  | nu =>
    have hv : resid s (c :: w) = andK (tok .nu (c :: w)) (K s.parseState) := by simp [resid, hs]
    rw [hv] at h; simp only [tok] at h; rw [lit_cons] at h
    simp only [f25, Bool.false_eq_true, if_false, andK_none] at h <;> cases h
  | nul =>
    have hv : resid s (c :: w) = andK (tok .nul (c :: w)) (K s.parseState) := by simp [resid, hs]
    rw [hv] at h; simp only [tok] at h; rw [lit_cons] at h
    simp only [f25, Bool.false_eq_true, if_false, andK_none] at h <;> cases h


/-! ### escapes written inside a string are string content -/

def esc6 (c : UInt8) : Bytes := [0x5C, 0x75, 0x30, 0x30, hexHi c, hexLo c]
def esc2028 (n2 : UInt8) : Bytes := [0x5C, 0x75, 0x32, 0x30, 0x32, hexLo n2]

set_option maxRecDepth 100000 in
theorem hexHi_hex : ∀ c : UInt8, isHexDig (hexHi c) = true := by
  apply forall_uint8; decide
set_option maxRecDepth 100000 in
theorem hexLo_hex : ∀ c : UInt8, isHexDig (hexLo c) = true := by
  apply forall_uint8; decide
set_option maxRecDepth 100000 in
theorem hexLo_notWs : ∀ c : UInt8, isWs (hexLo c) = false := by
  apply forall_uint8; decide

theorem strRest_esc (a b c d : UInt8) (w : Bytes) (ha : isHexDig a = true) (hb : isHexDig b = true)
    (hc : isHexDig c = true) (hd : isHexDig d = true) :
    strRest (0x5C :: 0x75 :: a :: b :: c :: d :: w) = strRest w := by
  rw [strRest_cons]
  simp only [show ((0x5C : UInt8) == 0x22) = false by decide, show ((0x5C : UInt8) == 0x5C) = true by decide,
    Bool.false_eq_true, if_false, if_true]
  rw [escRest_cons]
  simp only [show ((0x75 : UInt8) == 0x62 || (0x75 : UInt8) == 0x66 || (0x75 : UInt8) == 0x6E || (0x75 : UInt8) == 0x72
      || (0x75 : UInt8) == 0x74 || (0x75 : UInt8) == 0x5C || (0x75 : UInt8) == 0x2F || (0x75 : UInt8) == 0x22) = false by decide,
    show ((0x75 : UInt8) == 0x75) = true by decide, Bool.false_eq_true, if_false, if_true]
  rw [hexRest_cons, hexRest_cons, hexRest_cons, hexRest_cons]
  simp only [ha, hb, hc, hd, if_true, hexRest]

theorem esc6_resid (s : Scanner) (c : UInt8) (w : Bytes) (hs : s.step = .inString) :
    resid s (esc6 c ++ w) = resid s w := by
  simp only [resid, hs, tok, esc6, List.cons_append, List.nil_append]
  rw [strRest_esc _ _ _ _ w (by decide) (by decide) (hexHi_hex c) (hexLo_hex c)]

theorem esc2028_resid (s : Scanner) (c : UInt8) (w : Bytes) (hs : s.step = .inString) :
    resid s (esc2028 c ++ w) = resid s w := by
  simp only [resid, hs, tok, esc2028, List.cons_append, List.nil_append]
  rw [strRest_esc _ _ _ _ w (by decide) (by decide) (by decide) (hexLo_hex c)]

/-- the bytes 0x80, 0xA8, 0xA9 that follow 0xE2 in U+2028/9 -/
def hiByte (b : UInt8) : Bool := b == 0x80 || (b &&& 0xFE) == 0xA8

set_option maxRecDepth 100000 in
theorem hi_facts : ∀ b : UInt8, hiByte b = true →
    (b == 0x22) = false ∧ (b == 0x5C) = false ∧ ¬ (b < 0x20) ∧
    (b == 0x3C || b == 0x3E || b == 0x26) = false ∧ (b == 0xE2) = false := by
  apply forall_uint8; decide

theorem inString_hi (s : Scanner) (b : UInt8) (hs : s.step = .inString) (hb : hiByte b = true) :
    step s b = .ok (s, .continue) := by
  obtain ⟨g1, g2, g3, _, _⟩ := hi_facts b hb
  unfold step
  simp only [hs, g1, g2, g3, Bool.false_eq_true, if_false]


/-! ### `compactIter` without the monad -/

def flushP (src : Bytes) (st : CompactSt) (i : Nat) : CompactSt :=
  if st.start < i then { st with out := st.out ++ (src.drop st.start).take (i - st.start) } else st

def pre1 (src : Bytes) (escape : Bool) (st : CompactSt) (i : Nat) (c : UInt8) : CompactSt :=
  if escape && (c == 0x3C || c == 0x3E || c == 0x26) then
    { flushP src st i with out := (flushP src st i).out ++ esc6 c, start := i + 1 }
  else st

def pre2 (src : Bytes) (escape : Bool) (st : CompactSt) (i : Nat) (c : UInt8) (next : Bytes) : CompactSt :=
  match next with
  | n1 :: n2 :: _ =>
    if escape && c == 0xE2 && n1 == 0x80 && (n2 &&& 0xFE) == 0xA8 then
      { flushP src st i with out := (flushP src st i).out ++ esc2028 n2, start := i + 3 }
    else st
  | _ => st

def post (src : Bytes) (st : CompactSt) (i : Nat) (sc : Scanner) (v : Op) : CompactSt :=
  if v.geSkipSpace then
    if v == .error then { st with scan := sc, stop := true }
    else { flushP src { st with scan := sc } i with start := i + 1 }
  else { st with scan := sc }

@[simp] theorem flushP_scan (src : Bytes) (st : CompactSt) (i : Nat) : (flushP src st i).scan = st.scan := by
  unfold flushP; split <;> rfl
@[simp] theorem flushP_start (src : Bytes) (st : CompactSt) (i : Nat) : (flushP src st i).start = st.start := by
  unfold flushP; split <;> rfl
@[simp] theorem flushP_stop (src : Bytes) (st : CompactSt) (i : Nat) : (flushP src st i).stop = st.stop := by
  unfold flushP; split <;> rfl

theorem slice_ok (src : Bytes) (a b : Nat) (h1 : a ≤ b) (h2 : b ≤ src.length) :
    slice src a b = .ok ((src.drop a).take (b - a)) := by
  unfold slice; rw [if_pos ⟨h1, h2⟩]

theorem compactIter_eq (src : Bytes) (escape : Bool) (st : CompactSt) (i : Nat) (c : UInt8) (next : Bytes)
    (hi : i ≤ src.length) :
    compactIter src escape st i c next =
      match step st.scan c with
      | .ok (sc, v) => .ok (post src (pre2 src escape (pre1 src escape st i c) i c next) i sc v)
      | .err e => .err e
      | .panic m => .panic m := by
  have hsl : ∀ a : Nat, a < i → slice src a i = .ok ((src.drop a).take (i - a)) :=
    fun a h => slice_ok src a i (Nat.le_of_lt h) hi
  have hn1 : ¬ (i + 1 < i) := by omega
  have hn3 : ¬ (i + 3 < i) := by omega
  unfold compactIter pre2 pre1 post flushP
  rcases next with _ | ⟨n1, _ | ⟨n2, tl⟩⟩
  all_goals (by_cases hc1 : (escape && (c == 0x3C || c == 0x3E || c == 0x26)) = true)
  all_goals (try by_cases hc2 : (escape && c == 0xE2 && n1 == 0x80 && (n2 &&& 0xFE) == 0xA8) = true)
  all_goals (by_cases hlt : st.start < i)
  all_goals (cases hstep : step st.scan c with
    | err e => simp [hc1, hlt, hsl, hstep, hn1, hn3, esc6, esc2028, *]
    | panic m => simp [hc1, hlt, hsl, hstep, hn1, hn3, esc6, esc2028, *]
    | ok p =>
      obtain ⟨sc, v⟩ := p
      cases v <;> simp [hc1, hlt, hsl, hstep, hn1, hn3, esc6, esc2028, Op.geSkipSpace, *])

end UgoVerif.Proofs.Json
