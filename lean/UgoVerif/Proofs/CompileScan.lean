import UgoVerif.Proofs.CompileWalk
/-
  C05 helper: what the scan of `Bytecode()` (`scanFn`) computes.  A jump whose target is the end
  of the stream is still pending when the scan ends, so a RETURN is appended behind it: in the
  finished function every jump target lies strictly inside the stream; and the finished stream
  ends with a RETURN instruction.
-/
namespace UgoVerif.Compile
open UgoVerif UgoVerif.Go UgoVerif.Ast

/-- the jump-class instruction at boundary `q` targets `t` -/
def JT (a : Array UInt8) (q t : Nat) : Prop :=
  Bd a q ∧ ∃ op, a[q]? = some op ∧ isJumpOp op.toNat = true ∧ readBE a (q + 1) 4 = t

/-- every jump before offset `i` whose target is at or behind `i` is pending -/
def PendOK (a : Array UInt8) (i : Nat) (pend : List Nat) : Prop := ∀ q t, JT a q t → q < i → i ≤ t → t ∈ pend

/-- the instruction that ends at offset `i` has opcode `l` -/
def LastAt (a : Array UInt8) (i l : Nat) : Prop :=
  ∃ q b, Walk a 0 q ∧ a[q]? = some b ∧ b.toNat = l ∧ q + 1 + opWidth l = i

theorem isJumpOp_iff (op : Nat) :
    (op == OpJump || op == OpJumpFalsy || op == OpAndJump || op == OpOrJump) = isJumpOp op := rfl

theorem scanFn_spec {a : Array UInt8} : ∀ (fuel i lo : Nat) (pend : List Nat) (l : Nat) (P : List Nat),
    Walk a 0 i → Walk a i a.size → a.size - i < fuel → PendOK a i pend → (i = 0 ∨ LastAt a i lo) →
    scanFn a fuel i lo pend = some (l, P) →
    PendOK a a.size P ∧ ((a.size = 0 ∧ l = lo) ∨ LastAt a a.size l)
  | 0, _, _, _, _, _, _, _, hf, _, _, _ => by omega
  | fuel + 1, i, lo, pend, l, P, h0, hw, hf, hp, hl, hs => by
    cases hw with
    | refl =>
      simp only [scanFn, Array.getElem?_eq_none (Nat.le_refl _)] at hs
      injection hs with hs
      injection hs with h1 h2
      subst h1 h2
      refine ⟨hp, ?_⟩
      rcases hl with hl | hl
      · exact .inl ⟨hl, rfl⟩
      · exact .inr hl
    | step op h1 h2 h3 h4 =>
      simp only [scanFn, h1] at hs
      rw [if_neg (by omega), if_neg (by omega)] at hs
      have hi : i < a.size := getElem?_lt_of_some h1
      have hnext : i + opWidth op.toNat + 1 = i + 1 + opWidth op.toNat := by omega
      rw [hnext] at hs
      have h0' : Walk a 0 (i + 1 + opWidth op.toNat) := h0.trans (.step op h1 h2 h3 (.refl _))
      have hrec := scanFn_spec fuel _ op.toNat _ l P h0' h4 (by omega) ?_ ?_ hs
      · refine ⟨hrec.1, ?_⟩
        rcases hrec.2 with ⟨h, _⟩ | h
        · omega
        · exact .inr h
      · -- the pending set at the next boundary
        intro q t hjt hq ht
        have hqb := hjt.1
        -- q is a boundary below the next one: q ≤ i
        have hqi : q ≤ i := by
          rcases h0.comparable hqb.1 with h | h
          · cases h with
            | refl => exact Nat.le_refl _
            | step op' g1 g2 g3 g4 =>
              have : op' = op := by rw [h1] at g1; injection g1 with g; exact g.symm
              subst this
              have := g4.le; omega
          · exact h.le
        simp only [List.mem_filter, bne_iff_ne, ne_eq]
        refine ⟨?_, by omega⟩
        rcases Nat.lt_or_ge q i with hlt | hge
        · have hmem := hp q t hjt hlt (by omega)
          split
          · split
            · exact hmem
            · exact List.mem_cons_of_mem _ hmem
          · exact hmem
        · have hqe : q = i := by omega
          subst hqe
          obtain ⟨_, op', g1, g2, g3⟩ := hjt
          have : op' = op := by rw [h1] at g1; injection g1 with g; exact g.symm
          subst this
          rw [isJumpOp_iff, g2]
          simp only [if_true, g3]
          split
          · rename_i hc; simpa using hc
          · exact List.mem_cons_self
      · -- the last instruction so far
        exact .inr ⟨i, op, h0, h1, rfl, rfl⟩


theorem Walk.le_size {a : Array UInt8} {i j : Nat} (h : Walk a i j) (hi : i ≤ a.size) : j ≤ a.size := by
  induction h with
  | refl => exact hi
  | step op h1 h2 h3 h4 ih => exact ih h3

/-- in a finished function every jump target lies strictly inside the stream -/
def JumpsStrict (a : Array UInt8) : Prop :=
  ∀ p op, Bd a p → a[p]? = some op → isJumpOp op.toNat = true → readBE a (p + 1) 4 < a.size

/-- a finished function ends with a RETURN instruction -/
def EndsInReturn (a : Array UInt8) : Prop := LastAt a a.size OpReturn

theorem jumpsStrict_of_pend {nc : Lims} {a : Array UInt8} (ht : TargetsOK nc a) (hp : PendOK a a.size []) :
    JumpsStrict a := by
  intro p op hbd hop hj
  rcases Nat.lt_or_ge (readBE a (p + 1) 4) a.size with h | h
  · exact h
  · have := hp p _ ⟨hbd, op, hop, hj, rfl⟩ hbd.2 h
    simp at this

/-- appending one non-jump instruction behind a stream whose jump targets are boundaries -/
theorem jumpsStrict_append {nc : Lims} {a a' : Array UInt8} {opb : UInt8} (ht : TargetsOK nc a) (hw : Walk a 0 a.size)
    (hpre : Pre a a') (hsz : a'.size = a.size + 1 + opWidth opb.toNat) (hop : a'[a.size]? = some opb)
    (hnj : isJumpOp opb.toNat = false) (hlt : opb.toNat < numOpcodes) : JumpsStrict a' := by
  intro p op hbd hget hj
  have hw' : Walk a' 0 a.size := hw.pre hpre
  rcases Nat.lt_or_ge p a.size with hlt' | hge
  · have hbdp : Walk a 0 p := Walk.restrict hw hpre hbd.1 (by omega)
    have hgeta : a[p]? = some op := by rw [← hpre.2 p hlt']; exact hget
    have hfit := Bd.fit ⟨hbdp, hlt'⟩ hw hgeta
    have hwd := opWidth_jump hj
    have hle : readBE a (p + 1) 4 ≤ a.size := ((ht p op ⟨hbdp, hlt'⟩ hgeta).1 hj).le_size (Nat.zero_le _)
    have heq : readBE a' (p + 1) 4 = readBE a (p + 1) 4 := readBE4_congr (fun k hk => hpre.2 _ (by omega))
    rw [heq]
    omega
  · have hpe : p = a.size := by
      rcases hw'.comparable hbd.1 with h | h
      · cases h with
        | refl => rfl
        | step op' h1 h2 h3 h4 =>
          have : op' = opb := by rw [hop] at h1; injection h1 with h; exact h.symm
          subst this
          have := h4.le; have := hbd.2; omega
      · have := h.le; omega
    subst hpe
    rw [hop] at hget; injection hget with hget; subst hget
    rw [hnj] at hj; cases hj

theorem endsInReturn_append {a a' : Array UInt8} {opb : UInt8} (hw : Walk a 0 a.size) (hpre : Pre a a')
    (hsz : a'.size = a.size + 1 + opWidth opb.toNat) (hop : a'[a.size]? = some opb) (hr : opb.toNat = OpReturn) :
    EndsInReturn a' :=
  ⟨a.size, opb, hw.pre hpre, hop, hr, by rw [hsz, hr]⟩

end UgoVerif.Compile
