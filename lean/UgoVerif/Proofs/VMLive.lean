import UgoVerif.Proofs.VMImmut
import Lean.Elab.Tactic
/-
  `liveEq` — liveness non-interference (DESIGN §5) — and the relational calculus used to
  prove that `Clear`/`SetBytecode` followed by the prologue of `Run` reaches a state that is
  `liveEq` to the prologue on a new VM, whatever the VM did before.
-/
namespace UgoVerif.VM
open UgoVerif UgoVerif.Go

/-- the fields of a frame that are read before they are written when the frame is
    (re)entered: everything except the saved `ip` -/
structure FrameLive (f g : Frame) : Prop where
  fn : f.fn = g.fn
  free : f.free = g.free
  bp : f.bp = g.bp
  handlers : f.handlers = g.handlers
  discard : f.discard = g.discard

/-- Two VM states that differ only in dead data: stack slots at or above `sp`, frames
    at or above `frameIndex`, the saved `ip` of the current frame (written by the next call
    before any return reads it) and the recorded trace. -/
structure liveEq (s t : State) : Prop where
  heap : s.heap = t.heap
  codes : s.codes = t.codes
  consts : s.consts = t.consts
  mainFn : s.mainFn = t.mainFn
  numModules : s.numModules = t.numModules
  globals : s.globals = t.globals
  modules : s.modules = t.modules
  noPanic : s.noPanic = t.noPanic
  err : s.err = t.err
  abort : s.abort = t.abort
  ip : s.ip = t.ip
  sp : s.sp = t.sp
  frameIndex : s.frameIndex = t.frameIndex
  curFrame : s.curFrame = t.curFrame
  steps : s.steps = t.steps
  traceOn : s.traceOn = t.traceOn
  stackSize : s.stack.size = t.stack.size
  framesSize : s.frames.size = t.frames.size
  stack : ∀ i : Nat, (i : Int) < s.sp → s.stack[i]! = t.stack[i]!
  cur : FrameLive (s.frames[s.curFrame]!) (t.frames[t.curFrame]!)
  below : ∀ i : Nat, (i : Int) + 2 ≤ s.frameIndex → s.frames[i]! = t.frames[i]!
  link : (s.curFrame : Int) + 1 = s.frameIndex

/-- the fixed-size Go arrays `stack [2048]Object`, `frames [1024]frame` -/
structure Shape (s : State) : Prop where
  stack : s.stack.size = stackSize
  frames : s.frames.size = frameSize

/-! ### relational triples -/

/-- `m₁` from `s` and `m₂` from `t` (with `A s t`) end the same way; when both end
    normally their results are related by `VR` and the states by `B`. -/
def Rel2 {α} (A B : State → State → Prop) (VR : α → α → Prop) (m₁ m₂ : M α) : Prop :=
  ∀ s t, A s t →
    match exec m₁ s, exec m₂ t with
    | (.ok a, s'), (.ok b, t') => VR a b ∧ B s' t'
    | (.error e, _), (.error e', _) => e = e'
    | _, _ => False

namespace Rel2
variable {A B C : State → State → Prop}

theorem pure {α} {VR : α → α → Prop} {a b : α} (h : VR a b) : Rel2 A A VR (Pure.pure a) (Pure.pure b) := by
  intro s t hA; exact ⟨h, hA⟩

theorem panic {α} {VR : α → α → Prop} (m : String) : Rel2 A B VR (VM.panic m) (VM.panic m) := by
  intro s t _; rfl

theorem unsupported {α} {VR : α → α → Prop} (m : String) : Rel2 A B VR (VM.unsupported m) (VM.unsupported m) := by
  intro s t _; rfl

theorem bind {α β} {VR : α → α → Prop} {VR' : β → β → Prop} {m₁ m₂ : M α} {f₁ f₂ : α → M β}
    (hm : Rel2 A B VR m₁ m₂) (hf : ∀ a b, VR a b → Rel2 B C VR' (f₁ a) (f₂ b)) :
    Rel2 A C VR' (m₁ >>= f₁) (m₂ >>= f₂) := by
  intro s t hA
  have h := hm s t hA
  rw [exec_bind, exec_bind]
  rcases h1 : exec m₁ s with ⟨r1, s1⟩
  rcases h2 : exec m₂ t with ⟨r2, t1⟩
  rw [h1, h2] at h
  cases r1 <;> cases r2 <;> simp only at h ⊢
  · exact h
  · exact hf _ _ h.1 _ _ h.2

theorem conseq {α} {A' B' : State → State → Prop} {VR : α → α → Prop} {m₁ m₂ : M α}
    (h : Rel2 A B VR m₁ m₂) (hA : ∀ s t, A' s t → A s t) (hB : ∀ s t, B s t → B' s t) :
    Rel2 A' B' VR m₁ m₂ := by
  intro s t h'
  have := h s t (hA s t h')
  rcases h1 : exec m₁ s with ⟨r1, s1⟩
  rcases h2 : exec m₂ t with ⟨r2, t1⟩
  rw [h1, h2] at this
  cases r1 <;> cases r2 <;> simp only at this ⊢
  · exact this
  · exact ⟨this.1, hB _ _ this.2⟩

theorem modS {f₁ f₂ : State → State} (h : ∀ s t, A s t → B (f₁ s) (f₂ t)) :
    Rel2 A B Eq (VM.modS f₁) (VM.modS f₂) := by
  intro s t hA; exact ⟨rfl, h s t hA⟩

theorem ite {α} {VR : α → α → Prop} {c : Prop} [Decidable c] {a₁ a₂ b₁ b₂ : M α}
    (ha : Rel2 A B VR a₁ a₂) (hb : Rel2 A B VR b₁ b₂) :
    Rel2 A B VR (if c then a₁ else b₁) (if c then a₂ else b₂) := by
  split <;> assumption

/-- a loop whose body keeps the invariant -/
theorem forIn_list {α β} (l : List α) (init : β) (f : α → β → M (ForInStep β))
    (hf : ∀ a b, Rel2 A A Eq (f a b) (f a b)) : Rel2 A A Eq (forIn l init f) (forIn l init f) := by
  induction l generalizing init with
  | nil => exact Rel2.pure rfl
  | cons a as ih =>
    rw [List.forIn_cons]
    refine Rel2.bind (hf a init) ?_
    intro x y hxy
    subst hxy
    cases x with
    | done b => exact Rel2.pure rfl
    | yield b => exact ih b

theorem forIn_range {β} (r : Std.Legacy.Range) (init : β) (f : Nat → β → M (ForInStep β))
    (hf : ∀ a b, Rel2 A A Eq (f a b) (f a b)) : Rel2 A A Eq (forIn r init f) (forIn r init f) := by
  rw [Std.Legacy.Range.forIn_eq_forIn_range']
  exact forIn_list _ _ _ hf

end Rel2

/-! ### the prologue -/

/-- A used VM after `Clear`/`SetBytecode` (`s`) and a new VM (`t`) while the prologue of
    `Run` executes: everything the prologue reads agrees, the stacks agree on the slots `W`
    (those already initialised).  `sp`, `ip`, the frames and the remaining slots are
    unrelated: that is the residue of the earlier runs. -/
structure PreEq (fc : Option (Nat × Option (List Addr))) (W : Nat → Prop) (s t : State) : Prop where
  heap : s.heap = t.heap
  codes : s.codes = t.codes
  consts : s.consts = t.consts
  mainFn : s.mainFn = t.mainFn
  numModules : s.numModules = t.numModules
  modules : s.modules = t.modules
  noPanic : s.noPanic = t.noPanic
  steps : s.steps = t.steps
  traceOn : s.traceOn = t.traceOn
  globals : s.globals = t.globals
  err : s.err = t.err
  abort : s.abort = t.abort
  shapeS : Shape s
  shapeT : Shape t
  stack : ∀ i, W i → s.stack[i]! = t.stack[i]!
  /-- once read, the function cell of `Main` stays where it is (allocation only appends) -/
  fnc : ∀ c fr, fc = some (c, fr) → s.heap[s.mainFn]? = some (.fn c fr)

theorem PreEq.mono {fc} {W W' : Nat → Prop} {s t : State} (h : PreEq fc W s t) (hw : ∀ i, W' i → W i) : PreEq fc W' s t :=
  { h with stack := fun i hi => h.stack i (hw i hi) }

theorem getElem!_set! (a : Array V) (i j : Nat) (v : V) :
    (a.set! i v)[j]! = if i = j ∧ i < a.size then v else a[j]! := by
  simp only [Array.set!_eq_setIfInBounds, getElem!_def, Array.getElem?_setIfInBounds]
  by_cases h : i = j
  · subst h
    by_cases h2 : i < a.size
    · simp [h2]
    · simp [h2]
  · simp [h]

theorem exec_stackSet (i : Int) (v : V) (s : State) :
    exec (stackSet i v) s =
      if i < 0 || i ≥ (stackSize : Int) then
        (.error (.panic s!"runtime error: index out of range [{i}] with length {stackSize}"), s)
      else (.ok (), { s with stack := s.stack.set! i.toNat v }) := by
  unfold stackSet
  split <;> rfl

/-- writing the same value into the same slot of both stacks: the slot agrees afterwards -/
theorem rel_stackSet_grow (fc) (W : Nat → Prop) (i : Int) (v : V) :
    Rel2 (PreEq fc W) (PreEq fc (fun j => W j ∨ (0 ≤ i ∧ j = i.toNat))) Eq (stackSet i v) (stackSet i v) := by
  intro s t h
  rw [exec_stackSet, exec_stackSet]
  by_cases hb : (decide (i < 0) || decide (i ≥ (stackSize : Int))) = true
  · rw [if_pos hb, if_pos hb]
  · rw [if_neg hb, if_neg hb]
    refine ⟨rfl, { h with shapeS := ⟨?_, h.shapeS.frames⟩, shapeT := ⟨?_, h.shapeT.frames⟩, stack := ?_ }⟩
    · simp [Array.set!_eq_setIfInBounds, h.shapeS.stack]
    · simp [Array.set!_eq_setIfInBounds, h.shapeT.stack]
    · intro j hj
      show (s.stack.set! i.toNat v)[j]! = (t.stack.set! i.toNat v)[j]!
      rw [getElem!_set!, getElem!_set!, h.shapeS.stack, h.shapeT.stack]
      by_cases hij : i.toNat = j ∧ i.toNat < stackSize
      · obtain ⟨h1, h2⟩ := hij
        subst h1
        simp [h2]
      · simp only [hij, if_false]
        rcases hj with hj | ⟨h0, hj⟩
        · exact h.stack j hj
        · exfalso
          apply hij
          simp only [Bool.or_eq_true, decide_eq_true_eq, not_or, Int.not_lt, ge_iff_le, Int.not_le] at hb
          refine ⟨hj.symm, ?_⟩
          have := hb.2
          omega

theorem rel_stackSet (fc) (W : Nat → Prop) (i : Int) (v : V) :
    Rel2 (PreEq fc W) (PreEq fc W) Eq (stackSet i v) (stackSet i v) :=
  (rel_stackSet_grow fc W i v).conseq (fun _ _ h => h) (fun _ _ h => h.mono (fun _ hi => Or.inl hi))

theorem rel_alloc (fc) (W : Nat → Prop) (c : Cell) : Rel2 (PreEq fc W) (PreEq fc W) Eq (alloc c) (alloc c) := by
  intro s t h
  show (_ ∧ _)
  refine ⟨?_, { h with heap := ?_, shapeS := ⟨h.shapeS.stack, h.shapeS.frames⟩, shapeT := ⟨h.shapeT.stack, h.shapeT.frames⟩, fnc := ?_ }⟩
  · show s.heap.size = t.heap.size
    rw [h.heap]
  · show s.heap.push c = t.heap.push c
    rw [h.heap]
  · intro c' fr hfc
    have := h.fnc c' fr hfc
    show (s.heap.push c)[s.mainFn]? = _
    rw [Array.getElem?_push]
    have hlt : s.mainFn < s.heap.size := by
      rcases Nat.lt_or_ge s.mainFn s.heap.size with hl | hl
      · exact hl
      · rw [Array.getElem?_eq_none hl] at this; cases this
    have hne : s.mainFn ≠ s.heap.size := Nat.ne_of_lt hlt
    rw [Array.getElem?_eq_getElem hlt] at this
    simp [hlt, hne, this]

theorem Rel2.bindEq {A B C : State → State → Prop} {α β} {VR' : β → β → Prop} {m : M α} {f : α → M β}
    (hm : Rel2 A B Eq m m) (hf : ∀ a, Rel2 B C VR' (f a) (f a)) : Rel2 A C VR' (m >>= f) (m >>= f) :=
  Rel2.bind hm (fun a b hab => by subst hab; exact hf a)

theorem rel_fnCell (fc) (W : Nat → Prop) (a : Addr) : Rel2 (PreEq fc W) (PreEq fc W) Eq (fnCell a) (fnCell a) := by
  intro s t h
  simp only [fnCell, heapGet, exec_bind, exec_getS, h.heap]
  cases hc : t.heap[a]? with
  | none => simp [exec_unsupported]
  | some c =>
    cases c <;> simp [exec_pure, exec_unsupported, exec_map, exec_getS, h.codes, h]

/-- both runs end the same way; when normally, the states are related by `B` -/
def SameEnd {α} (B : State → State → Prop) (x y : Except Exc α × State) : Prop :=
  match x, y with
  | (.ok a, s'), (.ok b, t') => a = b ∧ B s' t'
  | (.error e, _), (.error e', _) => e = e'
  | _, _ => False

theorem Rel2.sameEnd {α} {A B : State → State → Prop} {m : M α} (h : Rel2 A B Eq m m) {s t : State} (hA : A s t) :
    SameEnd B (exec m s) (exec m t) := h s t hA

theorem Rel2.ofFalse {α} {B : State → State → Prop} {VR : α → α → Prop} {m₁ m₂ : M α} :
    Rel2 (fun _ _ => False) B VR m₁ m₂ := fun _ _ h => h.elim

attribute [irreducible] Rel2

/-- closes the goal with a local hypothesis `∀ …, Rel2 … (f …) (f …)` (join points) -/
elab "rel_hyp" : tactic => do
  let g ← Lean.Elab.Tactic.getMainGoal
  g.withContext do
    for d in (← Lean.getLCtx) do
      if d.isImplementationDetail then continue
      let ok ← Lean.commitWhen do
        try
          let gs ← Lean.Meta.withReducible (g.apply d.toExpr)
          pure gs.isEmpty
        catch _ => pure false
      if ok then
        Lean.Elab.Tactic.replaceMainGoal []
        return
    throwError "rel_hyp: no hypothesis applies"

syntax "rel_prim" : tactic
macro_rules | `(tactic| rel_prim) => `(tactic| exact Rel2.pure rfl)
macro_rules | `(tactic| rel_prim) => `(tactic| apply Rel2.panic)
macro_rules | `(tactic| rel_prim) => `(tactic| apply Rel2.unsupported)
macro_rules | `(tactic| rel_prim) => `(tactic| exact rel_stackSet _ _ _ _)
macro_rules | `(tactic| rel_prim) => `(tactic| exact rel_alloc _ _ _)
macro_rules | `(tactic| rel_prim) => `(tactic| exact rel_fnCell _ _ _)
macro_rules | `(tactic| rel_prim) => `(tactic| rel_hyp)

/-- structural decomposition of one `do` block run on both sides under the invariant `PreEq W` -/
syntax "rel" : tactic
set_option hygiene false in
macro_rules | `(tactic| rel) => `(tactic|
  repeat (first
    | with_reducible rel_prim
    | apply Rel2.bindEq
    | apply Rel2.ite
    | apply Rel2.forIn_range
    | apply Rel2.forIn_list
    | ((first | lift_lets | skip); intro jp__;
       first
       | (have hjp__ : Rel2 (PreEq fc W) (PreEq fc W) Eq jp__ jp__ := by
            (dsimp only [jp__]; rel)
          clear_value jp__)
       | (have hjp__ : ∀ a__, Rel2 (PreEq fc W) (PreEq fc W) Eq (jp__ a__) (jp__ a__) := by
            (intro a__; dsimp only [jp__]; rel)
          clear_value jp__)
       | (have hjp__ : ∀ a__ b__, Rel2 (PreEq fc W) (PreEq fc W) Eq (jp__ a__ b__) (jp__ a__ b__) := by
            (intro a__ b__; dsimp only [jp__]; rel)
          clear_value jp__)
       | clear_value jp__)
    | intro _
    | split
    | dsimp only))

theorem rel_newArray (fc) (W : Nat → Prop) (xs : List V) : Rel2 (PreEq fc W) (PreEq fc W) Eq (newArray xs) (newArray xs) := by
  unfold newArray; rel
macro_rules | `(tactic| rel_prim) => `(tactic| exact rel_newArray _ _ _)

/-- the first loop of `initLocals`: `for i := 0; i < NumLocals; i++ { locals[i] = Undefined }` -/
theorem rel_initLoop (fc) (W : Nat → Prop) (n : Nat) :
    Rel2 (PreEq fc W) (PreEq fc (fun j => W j ∨ j < n)) Eq
      (forIn [:n] PUnit.unit fun (i : Nat) (_ : PUnit) => (do stackSet (↑i) V.undefined; pure (ForInStep.yield PUnit.unit) : M _))
      (forIn [:n] PUnit.unit fun (i : Nat) (_ : PUnit) => (do stackSet (↑i) V.undefined; pure (ForInStep.yield PUnit.unit) : M _)) := by
  rw [Std.Legacy.Range.forIn_eq_forIn_range']
  have hsz : ([:n] : Std.Legacy.Range).size = n := by simp [Std.Legacy.Range.size]
  rw [hsz]
  show Rel2 _ _ _ (forIn (List.range' 0 n 1) _ _) (forIn (List.range' 0 n 1) _ _)
  suffices H : ∀ (len start : Nat) (W : Nat → Prop),
      Rel2 (PreEq fc W) (PreEq fc (fun j => W j ∨ (start ≤ j ∧ j < start + len))) Eq
        (forIn (List.range' start len 1) PUnit.unit fun (i : Nat) (_ : PUnit) => (do stackSet (↑i) V.undefined; pure (ForInStep.yield PUnit.unit) : M _))
        (forIn (List.range' start len 1) PUnit.unit fun (i : Nat) (_ : PUnit) => (do stackSet (↑i) V.undefined; pure (ForInStep.yield PUnit.unit) : M _)) by
    refine (H n 0 W).conseq (fun _ _ h => h) (fun _ _ h => h.mono ?_)
    intro i hi
    rcases hi with hi | hi
    · exact Or.inl hi
    · exact Or.inr ⟨Nat.zero_le _, by omega⟩
  intro len
  induction len with
  | zero =>
    intro start W
    simp only [List.range'_zero, List.forIn_nil]
    refine (Rel2.pure rfl).conseq (fun _ _ h => h) (fun _ _ h => h.mono ?_)
    intro i hi
    rcases hi with hi | hi
    · exact hi
    · omega
  | succ len ih =>
    intro start W
    rw [List.range'_succ, List.forIn_cons]
    refine Rel2.bind (VR := fun a b => a = ForInStep.yield PUnit.unit ∧ b = ForInStep.yield PUnit.unit)
      (B := PreEq fc (fun j => W j ∨ j = start)) ?_ ?_
    · refine Rel2.bindEq (B := PreEq fc (fun j => W j ∨ j = start))
        ((rel_stackSet_grow fc W (↑start) V.undefined).conseq (fun _ _ h => h) (fun _ _ h => h.mono ?_)) ?_
      · intro i hi
        rcases hi with hi | hi
        · exact Or.inl hi
        · exact Or.inr ⟨Int.natCast_nonneg _, by simp [hi]⟩
      · intro _; exact Rel2.pure ⟨rfl, rfl⟩
    · intro a b hab
      obtain ⟨ha, hb⟩ := hab
      subst ha; subst hb
      refine (ih (start + 1) _).conseq (fun _ _ h => h) (fun _ _ h => h.mono ?_)
      intro i hi
      rcases hi with hi | hi
      · exact Or.inl (Or.inl hi)
      · by_cases h0 : i = start
        · exact Or.inl (Or.inr h0)
        · exact Or.inr ⟨by omega, by omega⟩

theorem exec_fnCell (a : Addr) (s : State) :
    exec (fnCell a) s = match s.heap[a]? with
      | some (.fn c fr) => (.ok (s.codes[c]!, fr), s)
      | some _ => (.error (.unsupported "model: not a function cell"), s)
      | none => (.error (.unsupported "model: dangling address"), s) := by
  simp only [fnCell, heapGet, exec_bind, exec_getS]
  cases hc : s.heap[a]? with
  | none => simp [exec_unsupported]
  | some c => cases c <;> simp [exec_pure, exec_unsupported, exec_map, exec_getS]

theorem rel_setLocal (fc) (W : Nat → Prop) (nl : Nat) (i : Int) (v : V) :
    Rel2 (PreEq fc W) (PreEq fc W) Eq (setLocal nl i v) (setLocal nl i v) := by
  unfold setLocal; rel
macro_rules | `(tactic| rel_prim) => `(tactic| exact rel_setLocal _ _ _ _ _)

theorem rel_copyLocals (fc) (W : Nat → Prop) (nl : Nat) (xs : List V) :
    Rel2 (PreEq fc W) (PreEq fc W) Eq (copyLocals nl xs) (copyLocals nl xs) := by
  unfold copyLocals; rel
macro_rules | `(tactic| rel_prim) => `(tactic| exact rel_copyLocals _ _ _ _)

/-- `fillUndefined 0 n`: afterwards the slots below `n` agree -/
theorem rel_fillUndefined (fc) (W : Nat → Prop) (n : Nat) :
    Rel2 (PreEq fc W) (PreEq fc (fun j => W j ∨ j < n)) Eq (fillUndefined 0 n) (fillUndefined 0 n) := by
  unfold fillUndefined
  simp only [Int.zero_add]
  refine Rel2.bind (VR := Eq) (rel_initLoop fc W n) ?_
  intro a b _
  exact Rel2.pure rfl

theorem rel_initShape {fc : Option (Nat × Option (List Addr))} {W0 : Nat → Prop} {n : Nat} (msg : String) (rest : M Unit)
    (hrest : ∀ W, Rel2 (PreEq fc W) (PreEq fc W) Eq rest rest) :
    Rel2 (PreEq fc W0) (PreEq fc (fun j => W0 j ∨ j < n)) Eq
      (if n > stackSize then (do
          VM.panic msg
          fillUndefined 0 n
          rest)
        else (do
          fillUndefined 0 n
          rest))
      (if n > stackSize then (do
          VM.panic msg
          fillUndefined 0 n
          rest)
        else (do
          fillUndefined 0 n
          rest)) := by
  apply Rel2.ite
  · refine Rel2.bind (VR := Eq) (B := fun _ _ => False) (Rel2.panic _) ?_
    intro a b _
    exact Rel2.ofFalse
  · refine Rel2.bind (VR := Eq) (rel_fillUndefined fc W0 n) ?_
    intro a b _
    exact hrest _

theorem rel_initLocals (args : List V) (W0 : Nat → Prop) (s t : State) (h : PreEq none W0 s t)
    (c : Nat) (fr : Option (List Addr)) (hc : s.heap[s.mainFn]? = some (.fn c fr)) :
    SameEnd (PreEq (some (c, fr)) (fun j => W0 j ∨ j < (s.codes[c]!).numLocals))
      (exec (initLocals args) s) (exec (initLocals args) t) := by
  have h' : PreEq (some (c, fr)) W0 s t :=
    { h with fnc := by intro c' fr' e; cases e; exact hc }
  simp only [initLocals, exec_bind, exec_getS, exec_fnCell, ← h.mainFn, ← h.heap, ← h.codes, hc]
  refine (rel_initShape _ _ ?_).sameEnd h'
  intro W
  generalize (some (c, fr) : Option (Nat × Option (List Addr))) = fc
  rel

theorem initLocals_notfn (args : List V) (W0 : Nat → Prop) (s t : State) (h : PreEq none W0 s t)
    (hc : ∀ c fr, s.heap[s.mainFn]? ≠ some (.fn c fr)) :
    ∃ e, (exec (initLocals args) s).1 = .error e ∧ (exec (initLocals args) t).1 = .error e := by
  simp only [initLocals, exec_bind, exec_getS, exec_fnCell, ← h.mainFn, ← h.heap, ← h.codes]
  cases hh : s.heap[s.mainFn]? with
  | none => exact ⟨_, rfl, rfl⟩
  | some cell =>
    cases cell with
    | fn c fr => exact absurd hh (hc c fr)
    | _ => exact ⟨_, rfl, rfl⟩

theorem SameEnd.mono {α} {B B' : State → State → Prop} {x y : Except Exc α × State}
    (h : SameEnd B x y) (hB : ∀ s t, B s t → B' s t) : SameEnd B' x y := by
  rcases x with ⟨r1, s1⟩
  rcases y with ⟨r2, t1⟩
  cases r1 <;> cases r2 <;> simp only [SameEnd] at h ⊢
  · exact h
  · exact ⟨h.1, hB _ _ h.2⟩

theorem SameEnd.bind {α β} {B C : State → State → Prop} {m : M α} {f : α → M β} {s t : State}
    (h : SameEnd B (exec m s) (exec m t))
    (hf : ∀ a s' t', exec m s = (.ok a, s') → exec m t = (.ok a, t') → B s' t' →
      SameEnd C (exec (f a) s') (exec (f a) t')) :
    SameEnd C (exec (m >>= f) s) (exec (m >>= f) t) := by
  rw [exec_bind, exec_bind]
  rcases h1 : exec m s with ⟨r1, s1⟩
  rcases h2 : exec m t with ⟨r2, t1⟩
  rw [h1, h2] at h
  cases r1 <;> cases r2 <;> simp only [SameEnd] at h ⊢
  · exact h
  · obtain ⟨hab, hB⟩ := h
    subst hab
    exact hf _ _ _ h1 h2 hB

/-- what `Clear` / `SetBytecode` establish between a used VM and a new one: everything
    except the residue (stack, sp, ip, frames, frameIndex, curFrame, err, abort, globals) -/
structure ResetEq (s t : State) : Prop where
  heap : s.heap = t.heap
  codes : s.codes = t.codes
  consts : s.consts = t.consts
  mainFn : s.mainFn = t.mainFn
  numModules : s.numModules = t.numModules
  modules : s.modules = t.modules
  noPanic : s.noPanic = t.noPanic
  steps : s.steps = t.steps
  traceOn : s.traceOn = t.traceOn
  shapeS : Shape s
  shapeT : Shape t

/-- first part of the prologue: `vm.err = nil; vm.abort.Store(0); vm.initGlobals(globals)` -/
def prologueA (globals : V) : M Unit := do
  modS fun s => { s with err := none, abort := false }
  let g ← (match globals with
    | .nil => do let a ← alloc (.map []); pure (V.map a)
    | g => pure g)
  modS fun s => { s with globals := g }

/-- last part: `initCurrentFrame(); frameIndex = 1; ip = -1; sp = NumLocals`; grow the module cache -/
def prologueB : M Unit := do
  initCurrentFrame
  let s ← getS
  let (code, _) ← fnCell s.mainFn
  modS fun s => { s with frameIndex := 1, ip := -1, sp := code.numLocals }
  modS fun s =>
    let diff := s.numModules - s.modules.size
    { s with modules := s.modules ++ Array.replicate diff .nil }

theorem prologue_eq (g : V) (args : List V) :
    prologue g args = (prologueA g >>= fun _ => initLocals args >>= fun _ => prologueB) := by
  simp only [prologue, prologueA, prologueB, bind_assoc]
  rfl

theorem relA (g : V) (W : Nat → Prop) (s t : State) (h : ResetEq s t)
    (hst : ∀ i, W i → s.stack[i]! = t.stack[i]!) :
    SameEnd (PreEq none W) (exec (prologueA g) s) (exec (prologueA g) t) := by
  have hS := h.shapeS
  have hT := h.shapeT
  cases g <;>
    simp only [prologueA, exec_bind, exec_modS, exec_pure, alloc, exec_getS, exec_set, SameEnd, true_and] <;>
    exact { heap := by simp [h.heap], codes := h.codes, consts := h.consts, mainFn := h.mainFn,
            numModules := h.numModules, modules := h.modules, noPanic := h.noPanic, steps := h.steps,
            traceOn := h.traceOn, globals := by simp [h.heap], err := rfl, abort := rfl,
            shapeS := ⟨hS.stack, hS.frames⟩, shapeT := ⟨hT.stack, hT.frames⟩,
            stack := hst, fnc := fun _ _ e => by cases e }

/-- `liveEq`, the stacks also agree on the slots `W` (all of them after `Clear`/`SetBytecode`),
    and the frame array has its Go size with the current frame inside -/
def liveEqW (W : Nat → Prop) (s t : State) : Prop :=
  liveEq s t ∧ (∀ i, W i → s.stack[i]! = t.stack[i]!) ∧ (s.frames.size = frameSize ∧ s.curFrame < frameSize)

theorem frames_modify_zero (a : Array Frame) (f : Frame → Frame) (h : 0 < a.size) :
    (a.modify 0 f)[0]! = f a[0]! := by
  simp [h, Array.getElem_modify]

theorem relB (c : Nat) (fr : Option (List Addr)) (W : Nat → Prop) (s t : State)
    (h : PreEq (some (c, fr)) W s t)
    (hW : ∀ j : Nat, (j : Int) < ((s.codes[c]!).numLocals : Int) → W j) :
    SameEnd (liveEqW W) (exec prologueB s) (exec prologueB t) := by
  have hc := h.fnc c fr rfl
  have hS := h.shapeS
  have hT := h.shapeT
  have hfs : 0 < s.frames.size := by rw [hS.frames]; decide
  have hft : 0 < t.frames.size := by rw [hT.frames]; decide
  simp only [prologueB, initCurrentFrame, exec_bind, exec_getS, exec_fnCell, exec_modS, ← h.mainFn, ← h.heap,
    ← h.codes, hc, SameEnd, true_and]
  refine ⟨?_, fun i hi => h.stack i hi, ⟨by simp [hS.frames], (by decide : (0 : Nat) < frameSize)⟩⟩
  exact {
    heap := rfl, codes := rfl, consts := h.consts, mainFn := rfl, numModules := h.numModules,
    globals := h.globals, modules := by simp [h.modules, h.numModules], noPanic := h.noPanic, err := h.err,
    abort := h.abort, ip := rfl, sp := rfl, frameIndex := rfl, curFrame := rfl, steps := h.steps,
    traceOn := h.traceOn, stackSize := by simp [hS.stack, hT.stack],
    framesSize := by simp [hS.frames, hT.frames],
    stack := fun i hi => h.stack i (hW i hi),
    cur := by
      show FrameLive ((s.frames.modify 0 _)[0]!) ((t.frames.modify 0 _)[0]!)
      rw [frames_modify_zero _ _ hfs, frames_modify_zero _ _ hft]
      exact ⟨by simp [h.mainFn], rfl, rfl, rfl, rfl⟩,
    below := fun i hi => by simp at hi; omega,
    link := by simp }

/-- **prologue_live (core).**  Whatever residue `s` carries, if `s` and `t` agree on what
    `Clear`/`SetBytecode` (re)initialise, the prologue of `Run` ends the same way on both
    and leaves `liveEq` states. -/
theorem prologue_live_core (g : V) (args : List V) (W : Nat → Prop) (s t : State) (h : ResetEq s t)
    (hst : ∀ i, W i → s.stack[i]! = t.stack[i]!) :
    SameEnd (liveEqW W) (exec (prologue g args) s) (exec (prologue g args) t) := by
  rw [prologue_eq]
  refine SameEnd.bind (relA g W s t h hst) ?_
  intro _ s1 t1 _ _ h1
  by_cases hfn : ∃ c fr, s1.heap[s1.mainFn]? = some (Cell.fn c fr)
  · obtain ⟨c, fr, hc⟩ := hfn
    refine SameEnd.bind (rel_initLocals args _ s1 t1 h1 c fr hc) ?_
    intro _ s2 t2 hs2 _ h2
    refine (?_ : SameEnd (liveEqW (fun j => W j ∨ j < (s1.codes[c]!).numLocals)) _ _).mono ?_
    rotate_left
    · intro s' t' h'
      exact ⟨h'.1, fun i hi => h'.2.1 i (Or.inl hi), h'.2.2⟩
    refine relB c fr _ s2 t2 h2 ?_
    intro j hj
    have hk := (keeps_initLocals (codes := s1.codes) (consts := s1.consts) (mainFn := s1.mainFn)
      (nm := s1.numModules) args).elim s1 ⟨rfl, rfl, rfl, rfl⟩
    rw [hs2] at hk
    have hcodes : s2.codes = s1.codes := hk.1
    rw [hcodes] at hj
    exact Or.inr (by omega)
  · have hne : ∀ c fr, s1.heap[s1.mainFn]? ≠ some (Cell.fn c fr) := fun c fr hc => hfn ⟨c, fr, hc⟩
    obtain ⟨e, he1, he2⟩ := initLocals_notfn args _ s1 t1 h1 hne
    rw [exec_bind, exec_bind]
    rcases h1' : exec (initLocals args) s1 with ⟨r1, s1'⟩
    rcases h2' : exec (initLocals args) t1 with ⟨r2, t1'⟩
    rw [h1'] at he1
    rw [h2'] at he2
    simp only at he1 he2
    subst he1; subst he2
    simp [SameEnd]

end UgoVerif.VM
