import UgoVerif.Proofs.CompSimExpr
/-
  C02, compile ⊑ Sem — first statement on top of the expression slice: the expression statement
  `e;` (code of `e`, then POP).  Normal completion leaves `sp` where it was; an error of `e` is the
  error of the statement.
-/
set_option linter.unusedSimpArgs false
set_option linter.unusedVariables false
namespace UgoVerif.CompSim
open UgoVerif UgoVerif.Go UgoVerif.Ast UgoVerif.VM UgoVerif.Proofs.ModCache UgoVerif.Proofs.VMExec
open UgoVerif.Compile (CState runCM compileExpr compileStmt IsPre Pre)

/-- POP -/
theorem step_pop (F : FloatOps) {s : State} {code : Code} (hc : CodeAt s code) (p : Nat) (hip : s.ip + 1 = (p : Int))
    (b0 : UInt8) (h0 : code.insts[p]? = some b0) (hb0 : b0.toNat = 22) (hsp : 1 ≤ s.sp ∧ s.sp ≤ 2048) :
    ∃ s', exec (step F) s = (.ok .next, s') ∧ Same s s' ∧ s'.heap = s.heap ∧ s'.ip = (p : Int) ∧ s'.sp = s.sp - 1 ∧
      s'.stack = s.stack.set! (s.sp - 1).toNat .nil := by
  rw [exec_step_fetch' F hc p b0 hip h0, hb0]
  have hd : dispatch F 22 = execPop := rfl
  rw [hd]; unfold execPop
  simp only [exec_bind, exec_getSp, tick_sp, exec_setSp]
  rw [exec_stackSet' _ _ _ (by omega)]
  simp only [exec_pure]
  refine ⟨_, rfl, (tick_same s _).trans ⟨rfl, rfl, rfl, rfl, rfl, rfl, rfl, rfl, rfl, rfl, rfl, rfl, rfl⟩, tick_heap s _, ?_, rfl, ?_⟩
  · show (tick s _).ip = _; rw [tick_ip]; exact hip
  · show (tick s _).stack.set! _ _ = _; rw [tick_stack]

theorem compileStmt_expr (pos : Pos) (e : Expr) :
    compileStmt (.expr pos e) = (do compileExpr e; Compile.emit_ pos Compile.OpPop) := rfl

/-- what the VM does for a statement of the fragment that completes with `c` -/
def OutcomeS (F : FloatOps) (s : State) (h1 : Array Cell) (q : Nat) : Sem.Comp → Prop
  | .normal => ∃ s', Reach F s s' ∧ Same s s' ∧ s'.heap = h1 ∧ s'.ip + 1 = (q : Int) ∧ s'.sp = s.sp ∧
      AgreeBelow s.sp.toNat s.stack s'.stack
  | .thr a => Outcome F s h1 q (.thr a)
  | _ => False

/-- the expression statement, over `evalF` -/
theorem sim_exprStmt (F : FloatOps) (pos : Pos) (e : Expr) (cs cs' : CState)
    (hc : runCM (compileStmt (.expr pos e)) cs = (.ok (), cs')) (hF : ExprF (localIdx cs) e = true) :
    Shape cs cs' ∧ ∀ (K : Array Compile.Const) (code : Code) (bp lo : Nat) (env : Sem.Env) (s t : State) (fuel : Nat)
      (r : Sem.ER) (t1 : State),
      IsPre cs'.constants K → CodeHas code cs'.insts cs.insts.size → VMOk K code bp lo s →
      s.ip + 1 = (cs.insts.size : Int) → s.sp + need e ≤ 2048 → t.heap = s.heap →
      LocalsOK (localIdx cs) env s bp lo → exec (evalF F fuel env e) t = (.ok r, t1) →
      OutcomeS F s t1.heap cs'.insts.size (match r with | .val _ => .normal | .thr a => .thr a) := by
  rw [compileStmt_expr] at hc
  obtain ⟨_, cs1, he, hc⟩ := bind_inv hc
  obtain ⟨she, sime⟩ := good_all F e cs cs1 he hF
  have shp := Shape.of_emit_ hc
  refine ⟨she.trans shp, ?_⟩
  intro K code bp lo env s t fuel r t1 hK hcode hvm hip hsp hh hloc hsem
  obtain ⟨bs, hbs, e2⟩ := emit__inv hc
  have hbs' : bs = [UInt8.ofNat 22] := by
    have : Compile.makeInstruction Compile.OpPop [] = .ok [UInt8.ofNat 22] := rfl
    rw [this] at hbs; injection hbs with h; exact h.symm
  subst hbs'
  have hsz : cs'.insts.size = cs1.insts.size + 1 := by rw [e2]; simp
  have hb0 : code.insts[cs1.insts.size]? = some (UInt8.ofNat 22) := by
    rw [hcode _ she.pre.1 (by omega), e2]
    exact emit_bytes (cs := cs1) [UInt8.ofNat 22] 0 (by simp)
  have hge := (grows_evalF F fuel env e).h t
  rw [hsem] at hge
  have oe := sime K code bp lo env s t fuel r t1 (Compile.IsPre.trans shp.cpre hK) (hcode.sub shp.pre (Nat.le_refl _))
    hvm hip hsp hh hloc hsem
  have hlo := hvm.lo
  cases r with
  | thr a => exact oe
  | val v =>
    obtain ⟨s1, hr1, hs1, hh1, hip1, hsp1, hag1, hget1⟩ := oe
    obtain ⟨hvm1, hloc1⟩ := carry hvm hloc hs1 (keep_of hh hge hh1) hag1 (by omega) (by omega)
    have hne := need_pos e
    obtain ⟨s2, hrun, hs2, hh2, hip2, hsp2, hst2⟩ := step_pop F hvm1.code cs1.insts.size hip1 _ hb0 rfl (by omega)
    have hidx : s1.sp - 1 = s.sp := by omega
    rw [hidx] at hst2
    exact ⟨s2, hr1.trans (Reach.step hvm1.abort hrun), hs1.trans hs2, by rw [hh2, hh1], by rw [hip2, hsz]; push_cast; rfl,
      by omega, by rw [hst2]; exact hag1.set _ _ (Nat.le_refl _)⟩


theorem execStmt_zero (F : FloatOps) (env : Sem.Env) (st : Stmt) :
    Sem.execStmt F 0 env st = Sem.liftM (unsupported "sem: fuel") := by
  cases st <;> rfl

theorem execStmt_expr (F : FloatOps) (fuel : Nat) (env : Sem.Env) (pos : Pos) (e : Expr) :
    Sem.execStmt F (fuel + 1) env (.expr pos e) = (do
      match (← Sem.evalExpr F fuel env e) with
      | .thr a => pure (.thr a, env)
      | .val _ => pure (.normal, env)) := rfl

/-- the expression statement of the reference semantics, on the fragment, in terms of `evalF` -/
theorem run_execStmt_expr (F : FloatOps) (σ : String → Option Nat) (env : Sem.Env)
    (henv : ∀ n, (σ n).isSome → (Sem.lookupEnv n env).isSome) (fuel : Nat) (pos : Pos) (e : Expr)
    (hF : ExprF σ e = true) (ss : Sem.SemSt) :
    (Sem.execStmt F (fuel + 1) env (.expr pos e)).run ss =
      withSt ss (do
        let r ← evalF F fuel env e
        pure ((match r with | .val _ => Sem.Comp.normal | .thr a => .thr a), env)) := by
  rw [execStmt_expr, run_bind_withSt _ _ _ _ (evalExpr_eq_evalF F σ env henv fuel e hF ss), withSt_bind]
  congr 1; funext r
  cases r <;> simp [withSt]

end UgoVerif.CompSim
