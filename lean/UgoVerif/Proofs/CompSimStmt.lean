import UgoVerif.Proofs.CompSimExpr
/-
  C02, compile ⊑ Sem — first statement on top of the expression slice: the expression statement
  `e;` (code of `e`, then POP).  Normal completion leaves `sp` where it was; an error of `e` is the
  error of the statement.
-/
set_option linter.unusedSimpArgs false
set_option linter.unusedVariables false
namespace UgoVerif.CompSim
open UgoVerif UgoVerif.Go UgoVerif.Ast UgoVerif.VM UgoVerif.Proofs.ModCache UgoVerif.Proofs.VMExec
open UgoVerif.Compile (CState runCM compileExpr compileStmt IsPre Pre)

/-- POP -/
theorem step_pop (F : FloatOps) {s : State} {code : Code} (hc : CodeAt s code) (p : Nat) (hip : s.ip + 1 = (p : Int))
    (b0 : UInt8) (h0 : code.insts[p]? = some b0) (hb0 : b0.toNat = 22) (hsp : 1 ≤ s.sp ∧ s.sp ≤ 2048) :
    ∃ s', exec (step F) s = (.ok .next, s') ∧ Same s s' ∧ s'.heap = s.heap ∧ s'.ip = (p : Int) ∧ s'.sp = s.sp - 1 ∧
      s'.stack = s.stack.set! (s.sp - 1).toNat .nil := by
  rw [exec_step_fetch' F hc p b0 hip h0, hb0]
  have hd : dispatch F 22 = execPop := rfl
  rw [hd]; unfold execPop
  simp only [exec_bind, exec_getSp, tick_sp, exec_setSp]
  rw [exec_stackSet' _ _ _ (by omega)]
  simp only [exec_pure]
  refine ⟨_, rfl, (tick_same s _).trans ⟨rfl, rfl, rfl, rfl, rfl, rfl, rfl, rfl, rfl, rfl, rfl, rfl, rfl⟩, tick_heap s _, ?_, rfl, ?_⟩
  · show (tick s _).ip = _; rw [tick_ip]; exact hip
  · show (tick s _).stack.set! _ _ = _; rw [tick_stack]

/-- DEFINELOCAL: the top of the stack goes to the local slot -/
theorem step_defineLocal (F : FloatOps) {s : State} {code : Code} (hc : CodeAt s code) (p : Nat) (hip : s.ip + 1 = (p : Int))
    (b0 b1 : UInt8) (h0 : code.insts[p]? = some b0) (hb0 : b0.toNat = 40) (h1 : code.insts[p + 1]? = some b1)
    (bp : Nat) (hbp : (s.frames[s.curFrame]!).bp = (bp : Int)) (hi : bp + b1.toNat < 2048) (hsp : 1 ≤ s.sp ∧ s.sp ≤ 2048) :
    ∃ s', exec (step F) s = (.ok .next, s') ∧ Same s s' ∧ s'.heap = s.heap ∧ s'.ip = (p : Int) + 1 ∧ s'.sp = s.sp - 1 ∧
      s'.stack = (s.stack.set! (bp + b1.toNat) (s.stack[(s.sp - 1).toNat]!)).set! (s.sp - 1).toNat .nil := by
  rw [exec_step_fetch' F hc p b0 hip h0, hb0]
  have hd : dispatch F 40 = execDefineLocal := rfl
  rw [hd]; unfold execDefineLocal
  have hipt : (tick s 40).ip = (p : Int) := by rw [tick_ip]; exact hip
  have hfr : (tick s 40).frames[(tick s 40).curFrame]! = s.frames[s.curFrame]! := by
    rw [(tick_same s 40).frames, (tick_same s 40).curFrame]
  simp only [exec_bind, exec_opnd1 (hc.tick 40) p hipt b1 h1, exec_curFrame, hfr, hbp, exec_getSp, tick_sp]
  rw [exec_stackGet' _ _ (by omega)]
  simp only
  rw [exec_stackSet' _ _ _ (by omega)]
  simp only [exec_setSp]
  rw [exec_stackSet' _ _ _ (by omega)]
  simp only [exec_bumpIp, exec_pure]
  have hidx : ((bp : Int) + (b1.toNat : Int)).toNat = bp + b1.toNat := by omega
  refine ⟨_, rfl, (tick_same s _).trans ⟨rfl, rfl, rfl, rfl, rfl, rfl, rfl, rfl, rfl, rfl, rfl, rfl, rfl⟩, tick_heap s _, ?_, rfl, ?_⟩
  · show (tick s _).ip + 1 = _; rw [hipt]
  · show ((tick s _).stack.set! _ _).set! _ _ = _; rw [tick_stack, hidx]

/-- SETLOCAL of a slot that does not hold a box: the top of the stack goes to the slot -/
theorem step_setLocal (F : FloatOps) {s : State} {code : Code} (hc : CodeAt s code) (p : Nat) (hip : s.ip + 1 = (p : Int))
    (b0 b1 : UInt8) (h0 : code.insts[p]? = some b0) (hb0 : b0.toNat = 6) (h1 : code.insts[p + 1]? = some b1)
    (bp : Nat) (hbp : (s.frames[s.curFrame]!).bp = (bp : Int)) (hi : bp + b1.toNat < 2048)
    (hv : ∀ a, s.stack[bp + b1.toNat]! ≠ .box a) (hsp : 1 ≤ s.sp ∧ s.sp ≤ 2048) :
    ∃ s', exec (step F) s = (.ok .next, s') ∧ Same s s' ∧ s'.heap = s.heap ∧ s'.ip = (p : Int) + 1 ∧ s'.sp = s.sp - 1 ∧
      s'.stack = (s.stack.set! (bp + b1.toNat) (s.stack[(s.sp - 1).toNat]!)).set! (s.sp - 1).toNat .nil := by
  rw [exec_step_fetch' F hc p b0 hip h0, hb0]
  have hd : dispatch F 6 = execSetLocal := rfl
  rw [hd]; unfold execSetLocal
  have hipt : (tick s 6).ip = (p : Int) := by rw [tick_ip]; exact hip
  have hfr : (tick s 6).frames[(tick s 6).curFrame]! = s.frames[s.curFrame]! := by
    rw [(tick_same s 6).frames, (tick_same s 6).curFrame]
  simp only [exec_bind, exec_opnd1 (hc.tick 6) p hipt b1 h1, exec_getSp, tick_sp]
  rw [exec_stackGet' _ _ (by omega)]
  simp only [exec_curFrame, hfr, hbp]
  rw [exec_stackGet' _ _ (by omega)]
  have hidx : ((bp : Int) + (b1.toNat : Int)).toNat = bp + b1.toNat := by omega
  simp only [hidx, tick_stack]
  cases hvv : s.stack[bp + b1.toNat]! with
  | box a => exact absurd hvv (hv a)
  | _ =>
    simp only [exec_bind]
    rw [exec_stackSet' _ _ _ (by omega)]
    simp only [exec_setSp]
    rw [exec_stackSet' _ _ _ (by omega)]
    simp only [exec_bumpIp, exec_pure]
    refine ⟨_, rfl, (tick_same s _).trans ⟨rfl, rfl, rfl, rfl, rfl, rfl, rfl, rfl, rfl, rfl, rfl, rfl, rfl⟩, tick_heap s _, ?_, rfl, ?_⟩
    · show (tick s _).ip + 1 = _; rw [hipt]
    · show ((tick s _).stack.set! _ _).set! _ _ = _; rw [tick_stack, hidx]

theorem execStmt_zero (F : FloatOps) (env : Sem.Env) (st : Stmt) :
    Sem.execStmt F 0 env st = Sem.liftM (unsupported "sem: fuel") := by
  cases st <;> rfl

theorem execStmt_expr (F : FloatOps) (fuel : Nat) (env : Sem.Env) (pos : Pos) (e : Expr) :
    Sem.execStmt F (fuel + 1) env (.expr pos e) = (do
      match (← Sem.evalExpr F fuel env e) with
      | .thr a => pure (.thr a, env)
      | .val _ => pure (.normal, env)) := rfl

/-- the expression statement of the reference semantics, on the fragment, in terms of `evalF` -/
theorem run_execStmt_expr (F : FloatOps) (σ : String → Option Nat) (env : Sem.Env)
    (henv : ∀ n, (σ n).isSome → (Sem.lookupEnv n env).isSome) (fuel : Nat) (pos : Pos) (e : Expr)
    (hF : ExprF σ e = true) (ss : Sem.SemSt) :
    (Sem.execStmt F (fuel + 1) env (.expr pos e)).run ss =
      withSt ss (do
        let r ← evalF F fuel env e
        pure ((match r with | .val _ => Sem.Comp.normal | .thr a => .thr a), env)) := by
  rw [execStmt_expr, run_bind_withSt _ _ _ _ (evalExpr_eq_evalF F σ env henv fuel e hF ss), withSt_bind]
  congr 1; funext r
  cases r <;> simp [withSt]

end UgoVerif.CompSim
