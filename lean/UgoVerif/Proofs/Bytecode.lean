import UgoVerif.Model.Bytecode
/-
  Helper lemmas about big-endian operands, `readOperands` and the stream walker.
-/
namespace UgoVerif.Proofs.Bytecode
open UgoVerif.Go UgoVerif.Gen.Opcodes UgoVerif.Model.Bytecode

theorem beBytes_length (w v : Nat) : (beBytes w v).length = w := by
  induction w with
  | zero => rfl
  | succ w ih => simp [beBytes, ih]

theorem foldl_be (bs : Bytes) (acc : Nat) :
    bs.foldl (fun acc b => acc * 256 + b.toNat) acc = acc * 256 ^ bs.length + beVal bs := by
  induction bs generalizing acc with
  | nil => simp [beVal]
  | cons b bs ih =>
    simp only [List.foldl_cons, beVal, List.length_cons]
    rw [ih, ih (0 * 256 + b.toNat)]
    simp [Nat.pow_succ, Nat.add_mul, Nat.mul_assoc, Nat.add_assoc, Nat.mul_comm 256]

theorem beVal_cons (b : UInt8) (bs : Bytes) : beVal (b :: bs) = b.toNat * 256 ^ bs.length + beVal bs := by
  simp only [beVal, List.foldl_cons]
  rw [foldl_be]; simp [beVal]

theorem beVal_beBytes (w v : Nat) : beVal (beBytes w v) = v % 256 ^ w := by
  induction w with
  | zero => simp [beBytes, beVal, Nat.mod_one]
  | succ w ih =>
    rw [beBytes, beVal_cons, ih, beBytes_length]
    have h1 : (UInt8.ofNat (v >>> (8 * w))).toNat = v / 256 ^ w % 256 := by
      simp [Nat.shiftRight_eq_div_pow, Nat.pow_mul]
    rw [h1, Nat.mod_pow_succ]
    rw [Nat.add_comm, Nat.mul_comm]

theorem beVal_lt (bs : Bytes) : beVal bs < 256 ^ bs.length := by
  induction bs with
  | nil => simp [beVal]
  | cons b bs ih =>
    rw [beVal_cons, List.length_cons, Nat.pow_succ]
    have := b.toNat_lt
    calc b.toNat * 256 ^ bs.length + beVal bs < b.toNat * 256 ^ bs.length + 256 ^ bs.length := by omega
      _ = (b.toNat + 1) * 256 ^ bs.length := by rw [Nat.add_mul, Nat.one_mul]
      _ ≤ 256 * 256 ^ bs.length := Nat.mul_le_mul_right _ (by omega)
      _ = 256 ^ bs.length * 256 := Nat.mul_comm _ _

/-- every width of the list is one `ReadOperands` understands -/
def Supported (ws : List Nat) : Prop := ∀ w ∈ ws, readOperandsWidths.contains w = true

instance (ws : List Nat) : Decidable (Supported ws) := by unfold Supported; infer_instance

theorem readOperands_ok : ∀ (ws : List Nat) (bs : Bytes) (args : List Nat) (rest : Bytes),
    Supported ws → readOperands ws bs = .ok (args, rest) →
    ws.sum ≤ bs.length ∧ rest = bs.drop ws.sum ∧ args.length = ws.length ∧
    (∀ X, readOperands ws (bs.take ws.sum ++ X) = .ok (args, X)) ∧
    (∀ a ∈ args, ∃ w ∈ ws, a < 256 ^ w) := by
  intro ws
  induction ws with
  | nil =>
    intro bs args rest _ h
    simp [readOperands] at h
    obtain ⟨rfl, rfl⟩ := h
    simp [readOperands]
  | cons w ws ih =>
    intro bs args rest hs h
    have hw : readOperandsWidths.contains w = true := hs w (by simp)
    have hs' : Supported ws := fun x hx => hs x (by simp [hx])
    rw [readOperands, if_pos hw] at h
    by_cases hl : w ≤ bs.length
    · rw [if_pos hl] at h
      cases hr : readOperands ws (bs.drop w) with
      | ok p =>
        obtain ⟨vs, r⟩ := p
        rw [hr] at h
        simp at h
        obtain ⟨rfl, rfl⟩ := h
        obtain ⟨h1, h2, h3, h4, h5⟩ := ih (bs.drop w) vs r hs' hr
        simp at h1
        refine ⟨by simp; omega, by simp [h2, List.drop_drop], by simp [h3], ?_, ?_⟩
        · intro X
          rw [readOperands, if_pos hw]
          have hlen : w ≤ (List.take (w :: ws).sum bs ++ X).length := by simp; omega
          rw [if_pos hlen]
          have hd : List.drop w (List.take (w :: ws).sum bs ++ X) = (bs.drop w).take ws.sum ++ X := by
            rw [List.drop_append_of_le_length (by simp; omega)]
            simp [List.drop_take]
          have ht : List.take w (List.take (w :: ws).sum bs ++ X) = bs.take w := by
            rw [List.take_append_of_le_length (by simp; omega)]
            simp [List.take_take]
          rw [hd, h4 X, ht]
        · intro a ha
          simp at ha
          rcases ha with rfl | ha
          · refine ⟨w, by simp, ?_⟩
            have := beVal_lt (bs.take w)
            simpa [Nat.min_eq_left hl] using this
          · obtain ⟨w', hw', hlt⟩ := h5 a ha
            exact ⟨w', by simp [hw'], hlt⟩
      | err e => rw [hr] at h; simp at h
      | panic m => rw [hr] at h; simp at h
    · rw [if_neg hl] at h; simp at h

theorem readOperands_total : ∀ (ws : List Nat) (bs : Bytes),
    Supported ws → ws.sum ≤ bs.length → ∃ args, readOperands ws bs = .ok (args, bs.drop ws.sum) := by
  intro ws
  induction ws with
  | nil => intro bs _ _; exact ⟨[], by simp [readOperands]⟩
  | cons w ws ih =>
    intro bs hs hl
    have hw : readOperandsWidths.contains w = true := hs w (by simp)
    have hs' : Supported ws := fun x hx => hs x (by simp [hx])
    simp at hl
    obtain ⟨args, h⟩ := ih (bs.drop w) hs' (by simp; omega)
    refine ⟨beVal (bs.take w) :: args, ?_⟩
    rw [readOperands, if_pos hw, if_pos (by omega), h]
    simp [List.drop_drop]

theorem readOperands_not_err (ws : List Nat) : ∀ (bs : Bytes) (e : Err), readOperands ws bs ≠ .err e := by
  induction ws with
  | nil => simp [readOperands]
  | cons w ws ih =>
    intro bs e
    rw [readOperands]
    split
    · split
      · split
        · simp
        · rename_i heq; exact absurd heq (ih _ _)
        · simp
      · simp
    · exact ih _ _

end UgoVerif.Proofs.Bytecode
