import UgoVerif.Proofs.C07Throw
/-
  `step_live`, opcode by opcode: every function of VM/Step.lean and `handlePanic` is `Live`.
-/
namespace UgoVerif.VM
open UgoVerif UgoVerif.Go

macro_rules | `(tactic| live_prim) => `(tactic| exact live_throwWithFuel _)
macro_rules | `(tactic| live_prim) => `(tactic| apply live_throwWithFuel_bind)

theorem live_throwGenErr (e : OpErr) : Live (throwGenErr e) := by unfold throwGenErr; live
macro_rules | `(tactic| live_prim) => `(tactic| exact live_throwGenErr _)
theorem live_failWith (e : OpErr) : Live (failWith e) := by unfold failWith; live
macro_rules | `(tactic| live_prim) => `(tactic| exact live_failWith _)

/-- the frame-pushing tail of `xOpCallCompiled` -/
@[reducible] def callTail (fa : Addr) (free : Option (List Addr)) (basePointer ip numLocals : Int) :
    M (Except OpErr Unit) := do
  let s ← getS
  let fi := s.frameIndex
  if fi + 1 > (frameSize : Int) - 1 then
    return .error .stackOverflow
  if fi < 0 || fi ≥ (frameSize : Int) then
    panic s!"runtime error: index out of range [{fi}] with length {frameSize}"
  modS fun s => { s with frameIndex := fi + 1 }
  setCurFrame fun f => { f with ip := ip + 2 }
  enterFrame fi.toNat fa free basePointer
  setSp (basePointer + numLocals)
  setIp (-1)
  return .ok ()

def enterF (fa : Addr) (free : Option (List Addr)) (bp : Int) (f : Frame) : Frame :=
  { f with fn := some fa, free := free, handlers := none, bp := bp, discard := false }

theorem exec_callTail (fa : Addr) (free : Option (List Addr)) (bp ip nl : Int) (s : State) :
    exec (callTail fa free bp ip nl) s =
      if s.frameIndex + 1 > (frameSize : Int) - 1 then (.ok (.error .stackOverflow), s)
      else if (decide (s.frameIndex < 0) || decide (s.frameIndex ≥ (frameSize : Int))) = true then
        (.error (.panic s!"runtime error: index out of range [{s.frameIndex}] with length {frameSize}"), s)
      else (.ok (.ok ()), { s with
        frameIndex := s.frameIndex + 1
        frames := (s.frames.modify s.curFrame fun f => { f with ip := ip + 2 }).modify s.frameIndex.toNat (enterF fa free bp)
        curFrame := s.frameIndex.toNat
        sp := bp + nl
        ip := -1 }) := by
  simp only [callTail, exec_bind, exec_getS]
  by_cases h1 : s.frameIndex + 1 > (frameSize : Int) - 1
  · simp only [h1, if_true, exec_pure]
  · simp only [h1, if_false]
    by_cases h2 : (decide (s.frameIndex < 0) || decide (s.frameIndex ≥ (frameSize : Int))) = true
    · simp only [h2, if_true, exec_bind, exec_panic]
    · simp only [h2, if_false, exec_bind, exec_pure]
      rfl

theorem dm_at (X : Array Frame) (c k : Nat) (g1 g2 : Frame → Frame) (hk : k < X.size) (hne : c ≠ k) :
    ((X.modify c g1).modify k g2)[k]! = g2 (X[k]!) := by
  rw [getElem!_modify, getElem!_modify]
  simp [hk, hne]

theorem dm_c (X : Array Frame) (c k : Nat) (g1 g2 : Frame → Frame) (hc : c < X.size) (hne : k ≠ c) :
    ((X.modify c g1).modify k g2)[c]! = g1 (X[c]!) := by
  rw [getElem!_modify, getElem!_modify]
  simp [hc, hne]

theorem dm_other (X : Array Frame) (c k j : Nat) (g1 g2 : Frame → Frame) (h1 : c ≠ j) (h2 : k ≠ j) :
    ((X.modify c g1).modify k g2)[j]! = X[j]! := by
  rw [getElem!_modify, getElem!_modify]
  simp [h1, h2]

theorem live_callTail (fa : Addr) (free : Option (List Addr)) (bp ip nl : Int) : Live (callTail fa free bp ip nl) := by
  apply Live.intro'; intro s fr tr h
  rw [exec_callTail, exec_callTail]
  have e1 : (wf s fr tr).frameIndex = s.frameIndex := rfl
  rw [e1]
  by_cases h1 : s.frameIndex + 1 > (frameSize : Int) - 1
  · rw [if_pos h1, if_pos h1]; exact ⟨fr, tr, rfl, h⟩
  · rw [if_neg h1, if_neg h1]
    by_cases h2 : (decide (s.frameIndex < 0) || decide (s.frameIndex ≥ (frameSize : Int))) = true
    · rw [if_pos h2, if_pos h2]; exact ⟨fr, tr, rfl, h⟩
    · rw [if_neg h2, if_neg h2]
      simp only [Bool.or_eq_true, decide_eq_true_eq, not_or, Int.not_lt, ge_iff_le, Int.not_le] at h2
      have hlink := h.link
      have hk : s.frameIndex.toNat < frameSize := by simp only [frameSize] at h2 ⊢; omega
      have hkc : s.curFrame + 1 = s.frameIndex.toNat := by omega
      have hks : s.frameIndex.toNat < s.frames.size := by rw [h.shape]; exact hk
      have hkf : s.frameIndex.toNat < fr.size := by rw [h.size]; exact hks
      have hcs : s.curFrame < s.frames.size := by rw [h.shape]; exact h.curLt
      have hcf : s.curFrame < fr.size := by rw [h.size]; exact hcs
      refine ⟨(fr.modify s.curFrame fun f => { f with ip := ip + 2 }).modify s.frameIndex.toNat (enterF fa free bp), tr, rfl, ?_⟩
      refine ⟨by simp [h.size], ?_, ?_, ?_, by simp [h.shape], hk⟩
      · show FrameLive (((s.frames.modify s.curFrame _).modify s.frameIndex.toNat (enterF fa free bp))[s.frameIndex.toNat]!)
            (((fr.modify s.curFrame _).modify s.frameIndex.toNat (enterF fa free bp))[s.frameIndex.toNat]!)
        rw [dm_at _ _ _ _ _ hks (by omega), dm_at _ _ _ _ _ hkf (by omega)]
        exact ⟨rfl, rfl, rfl, rfl, rfl⟩
      · intro j hj
        have hj' : (j : Int) + 2 ≤ s.frameIndex + 1 := hj
        show ((s.frames.modify s.curFrame _).modify s.frameIndex.toNat (enterF fa free bp))[j]! =
            ((fr.modify s.curFrame _).modify s.frameIndex.toNat (enterF fa free bp))[j]!
        by_cases hjc : s.curFrame = j
        · subst hjc
          rw [dm_c _ _ _ _ _ hcs (by omega), dm_c _ _ _ _ _ hcf (by omega)]
          have := h.cur
          rw [this.eq_with]
        · rw [dm_other _ _ _ _ _ _ hjc (by omega), dm_other _ _ _ _ _ _ hjc (by omega)]
          exact h.below j (by omega)
      · show ((s.frameIndex.toNat : Nat) : Int) + 1 = s.frameIndex + 1
        omega
macro_rules | `(tactic| live_prim) => `(tactic| exact live_callTail _ _ _ _ _)

theorem live_callCompiled (fa : Addr) (na fl : Int) : Live (callCompiled fa na fl) := by
  unfold callCompiled; live
macro_rules | `(tactic| live_prim) => `(tactic| exact live_callCompiled _ _ _)
theorem live_callObject (c : V) (na fl : Int) : Live (callObject c na fl) := by unfold callObject; live
macro_rules | `(tactic| live_prim) => `(tactic| exact live_callObject _ _ _)
theorem live_callAny (c : V) (na fl : Int) : Live (callAny c na fl) := by unfold callAny; live
macro_rules | `(tactic| live_prim) => `(tactic| exact live_callAny _ _ _)
theorem live_findFinally (fuel : Nat) : ∀ upto, Live (findFinally fuel upto) := by
  induction fuel with
  | zero => intro u; unfold findFinally; live
  | succ n ih => intro u; have ih' := ih u; unfold findFinally; live
macro_rules | `(tactic| live_prim) => `(tactic| exact live_findFinally _ _)
theorem live_execConstant  : Live (execConstant ) := by unfold execConstant; live
macro_rules | `(tactic| live_prim) => `(tactic| exact live_execConstant )
theorem live_execGetLocal  : Live (execGetLocal ) := by unfold execGetLocal; live
macro_rules | `(tactic| live_prim) => `(tactic| exact live_execGetLocal )
theorem live_execSetLocal  : Live (execSetLocal ) := by unfold execSetLocal; live
macro_rules | `(tactic| live_prim) => `(tactic| exact live_execSetLocal )
theorem live_execAndJump  : Live (execAndJump ) := by unfold execAndJump; live
macro_rules | `(tactic| live_prim) => `(tactic| exact live_execAndJump )
theorem live_execOrJump  : Live (execOrJump ) := by unfold execOrJump; live
macro_rules | `(tactic| live_prim) => `(tactic| exact live_execOrJump )
theorem live_execTrue  : Live (execTrue ) := by unfold execTrue; live
macro_rules | `(tactic| live_prim) => `(tactic| exact live_execTrue )
theorem live_execFalse  : Live (execFalse ) := by unfold execFalse; live
macro_rules | `(tactic| live_prim) => `(tactic| exact live_execFalse )
theorem live_execCall  : Live (execCall ) := by unfold execCall; live
macro_rules | `(tactic| live_prim) => `(tactic| exact live_execCall )
theorem live_execCallName  : Live (execCallName ) := by unfold execCallName; live
macro_rules | `(tactic| live_prim) => `(tactic| exact live_execCallName )
theorem live_execGetBuiltin  : Live (execGetBuiltin ) := by unfold execGetBuiltin; live
macro_rules | `(tactic| live_prim) => `(tactic| exact live_execGetBuiltin )
theorem live_execClosure  : Live (execClosure ) := by unfold execClosure; live
macro_rules | `(tactic| live_prim) => `(tactic| exact live_execClosure )
theorem live_execJump  : Live (execJump ) := by unfold execJump; live
macro_rules | `(tactic| live_prim) => `(tactic| exact live_execJump )
theorem live_execJumpFalsy  : Live (execJumpFalsy ) := by unfold execJumpFalsy; live
macro_rules | `(tactic| live_prim) => `(tactic| exact live_execJumpFalsy )
theorem live_execGetGlobal  : Live (execGetGlobal ) := by unfold execGetGlobal; live
macro_rules | `(tactic| live_prim) => `(tactic| exact live_execGetGlobal )
theorem live_execSetGlobal  : Live (execSetGlobal ) := by unfold execSetGlobal; live
macro_rules | `(tactic| live_prim) => `(tactic| exact live_execSetGlobal )
theorem live_execArray  : Live (execArray ) := by unfold execArray; live
macro_rules | `(tactic| live_prim) => `(tactic| exact live_execArray )
theorem live_execMap  : Live (execMap ) := by unfold execMap; live
macro_rules | `(tactic| live_prim) => `(tactic| exact live_execMap )
theorem live_execGetIndex  : Live (execGetIndex ) := by unfold execGetIndex; live
macro_rules | `(tactic| live_prim) => `(tactic| exact live_execGetIndex )
theorem live_execSetIndex  : Live (execSetIndex ) := by unfold execSetIndex; live
macro_rules | `(tactic| live_prim) => `(tactic| exact live_execSetIndex )
theorem live_execSliceIndex  : Live (execSliceIndex ) := by unfold execSliceIndex; live
macro_rules | `(tactic| live_prim) => `(tactic| exact live_execSliceIndex )
theorem live_execGetFree  : Live (execGetFree ) := by unfold execGetFree; live
macro_rules | `(tactic| live_prim) => `(tactic| exact live_execGetFree )
theorem live_execSetFree  : Live (execSetFree ) := by unfold execSetFree; live
macro_rules | `(tactic| live_prim) => `(tactic| exact live_execSetFree )
theorem live_execGetLocalPtr  : Live (execGetLocalPtr ) := by unfold execGetLocalPtr; live
macro_rules | `(tactic| live_prim) => `(tactic| exact live_execGetLocalPtr )
theorem live_execGetFreePtr  : Live (execGetFreePtr ) := by unfold execGetFreePtr; live
macro_rules | `(tactic| live_prim) => `(tactic| exact live_execGetFreePtr )
theorem live_execDefineLocal  : Live (execDefineLocal ) := by unfold execDefineLocal; live
macro_rules | `(tactic| live_prim) => `(tactic| exact live_execDefineLocal )
theorem live_execNull  : Live (execNull ) := by unfold execNull; live
macro_rules | `(tactic| live_prim) => `(tactic| exact live_execNull )
theorem live_execPop  : Live (execPop ) := by unfold execPop; live
macro_rules | `(tactic| live_prim) => `(tactic| exact live_execPop )
theorem live_execIterInit  : Live (execIterInit ) := by unfold execIterInit; live
macro_rules | `(tactic| live_prim) => `(tactic| exact live_execIterInit )
theorem live_execLoadModule  : Live (execLoadModule ) := by unfold execLoadModule; live
macro_rules | `(tactic| live_prim) => `(tactic| exact live_execLoadModule )
theorem live_execStoreModule  : Live (execStoreModule ) := by unfold execStoreModule; live
macro_rules | `(tactic| live_prim) => `(tactic| exact live_execStoreModule )
theorem live_execSetupTry  : Live (execSetupTry ) := by unfold execSetupTry; live
macro_rules | `(tactic| live_prim) => `(tactic| exact live_execSetupTry )
theorem live_execSetupCatch  : Live (execSetupCatch ) := by unfold execSetupCatch; live
macro_rules | `(tactic| live_prim) => `(tactic| exact live_execSetupCatch )
theorem live_execSetupFinally  : Live (execSetupFinally ) := by unfold execSetupFinally; live
macro_rules | `(tactic| live_prim) => `(tactic| exact live_execSetupFinally )
theorem live_execThrow  : Live (execThrow ) := by unfold execThrow; live
macro_rules | `(tactic| live_prim) => `(tactic| exact live_execThrow )
theorem live_execFinalizer  : Live (execFinalizer ) := by unfold execFinalizer; live
macro_rules | `(tactic| live_prim) => `(tactic| exact live_execFinalizer )
theorem live_execNoOp  : Live (execNoOp ) := by unfold execNoOp; live
macro_rules | `(tactic| live_prim) => `(tactic| exact live_execNoOp )
theorem live_execBinaryOp (F : FloatOps) : Live (execBinaryOp F) := by unfold execBinaryOp; live
macro_rules | `(tactic| live_prim) => `(tactic| exact live_execBinaryOp _)
theorem live_execUnary (F : FloatOps) : Live (execUnary F) := by unfold execUnary; live
macro_rules | `(tactic| live_prim) => `(tactic| exact live_execUnary _)
theorem live_execEqual (F : FloatOps) (op : Nat) : Live (execEqual F op) := by unfold execEqual; live
macro_rules | `(tactic| live_prim) => `(tactic| exact live_execEqual _ _)
theorem live_execIterNext (op : Nat) : Live (execIterNext op) := by unfold execIterNext; live
macro_rules | `(tactic| live_prim) => `(tactic| exact live_execIterNext _)
theorem live_execUnknown (op : Nat) : Live (execUnknown op) := by unfold execUnknown; live
macro_rules | `(tactic| live_prim) => `(tactic| exact live_execUnknown _)

/-- the frame-popping tail of `OpReturn` -/
@[reducible] def retTail : M Ctl := do
  let s ← getS
  if s.frameIndex == 1 then return .ret
  clearCurrentFrame
  let pi := s.frameIndex - 2
  if pi < 0 || pi ≥ (frameSize : Int) then
    panic s!"runtime error: index out of range [{pi}] with length {frameSize}"
  modS fun s => { s with frameIndex := s.frameIndex - 1, curFrame := pi.toNat }
  let parent ← curFrame
  setIp parent.ip
  match parent.fn with
  | none => panic "runtime error: invalid memory address or nil pointer dereference"
  | some _ => return .next

def clearF (f : Frame) : Frame := { f with free := none, fn := none, handlers := none }

/-- the state after `clearCurrentFrame; frameIndex--; curFrame = parent; ip = parent.ip` -/
def popped (s : State) : State :=
  { s with frames := s.frames.modify s.curFrame clearF, frameIndex := s.frameIndex - 1,
           curFrame := (s.frameIndex - 2).toNat,
           ip := ((s.frames.modify s.curFrame clearF)[(s.frameIndex - 2).toNat]!).ip }

theorem exec_retTail (s : State) :
    exec retTail s =
      if (s.frameIndex == 1) = true then (.ok .ret, s)
      else if (decide (s.frameIndex - 2 < 0) || decide (s.frameIndex - 2 ≥ (frameSize : Int))) = true then
        (.error (.panic s!"runtime error: index out of range [{s.frameIndex - 2}] with length {frameSize}"),
          { s with frames := s.frames.modify s.curFrame clearF })
      else
        match ((s.frames.modify s.curFrame clearF)[(s.frameIndex - 2).toNat]!).fn with
        | none => (.error (.panic "runtime error: invalid memory address or nil pointer dereference"), popped s)
        | some _ => (.ok .next, popped s) := by
  simp only [retTail, exec_bind, exec_getS]
  by_cases h1 : (s.frameIndex == 1) = true
  · simp only [h1, if_true, exec_pure]
  · simp only [h1, Bool.false_eq_true, if_false, exec_bind, exec_clearCurrentFrame]
    by_cases h2 : (decide (s.frameIndex - 2 < 0) || decide (s.frameIndex - 2 ≥ (frameSize : Int))) = true
    · simp only [h2, if_true, exec_bind, exec_panic]; rfl
    · simp only [h2, Bool.false_eq_true, if_false, exec_bind, exec_pure, exec_modS, Live.exec_curFrame]
      cases hfn : ((s.frames.modify s.curFrame clearF)[(s.frameIndex - 2).toNat]!).fn with
      | none =>
        have : ((s.frames.modify s.curFrame fun f => ({ f with free := none, fn := none, handlers := none } : Frame))[(s.frameIndex - 2).toNat]!).fn = none := hfn
        simp only [this]; rfl
      | some a =>
        have : ((s.frames.modify s.curFrame fun f => ({ f with free := none, fn := none, handlers := none } : Frame))[(s.frameIndex - 2).toNat]!).fn = some a := hfn
        simp only [this]; rfl

theorem live_retTail : Live retTail := by
  apply Live.intro'; intro s fr tr h
  rw [exec_retTail, exec_retTail]
  have e1 : (wf s fr tr).frameIndex = s.frameIndex := rfl
  rw [e1]
  by_cases h1 : (s.frameIndex == 1) = true
  · rw [if_pos h1, if_pos h1]; exact ⟨fr, tr, rfl, h⟩
  · rw [if_neg h1, if_neg h1]
    have hcs : s.curFrame < s.frames.size := by rw [h.shape]; exact h.curLt
    have hFR1 : FR { s with frames := s.frames.modify s.curFrame clearF } (fr.modify s.curFrame clearF) := by
      refine ⟨by simp [h.size], ?_, ?_, h.link, by simp [h.shape], h.curLt⟩
      · show FrameLive ((s.frames.modify s.curFrame clearF)[s.curFrame]!) ((fr.modify s.curFrame clearF)[s.curFrame]!)
        rw [getElem!_modify, getElem!_modify, h.size]
        simp only [hcs, and_self, if_true]
        exact ⟨rfl, rfl, h.cur.bp, rfl, h.cur.discard⟩
      · intro j hj
        have hj' : (j : Int) + 2 ≤ s.frameIndex := hj
        show (s.frames.modify s.curFrame clearF)[j]! = (fr.modify s.curFrame clearF)[j]!
        rw [getElem!_modify, getElem!_modify]
        have hne : ¬ (s.curFrame = j) := by have := h.link; omega
        simp only [hne, false_and, if_false]
        exact h.below j hj'
    by_cases h2 : (decide (s.frameIndex - 2 < 0) || decide (s.frameIndex - 2 ≥ (frameSize : Int))) = true
    · rw [if_pos h2, if_pos h2]
      exact ⟨fr.modify s.curFrame clearF, tr, rfl, hFR1⟩
    · rw [if_neg h2, if_neg h2]
      simp only [Bool.or_eq_true, decide_eq_true_eq, not_or, Int.not_lt, ge_iff_le, Int.not_le] at h2
      have hlink := h.link
      have hp : (((s.frameIndex - 2).toNat : Nat) : Int) + 2 ≤ s.frameIndex := by omega
      have hpe : (s.frames.modify s.curFrame clearF)[(s.frameIndex - 2).toNat]! =
          (fr.modify s.curFrame clearF)[(s.frameIndex - 2).toNat]! := hFR1.below _ hp
      have e2 : ((wf s fr tr).frames.modify (wf s fr tr).curFrame clearF)[(s.frameIndex - 2).toNat]! =
          (s.frames.modify s.curFrame clearF)[(s.frameIndex - 2).toNat]! := hpe.symm
      rw [e2]
      have hFR2 : FR (popped s) (fr.modify s.curFrame clearF) := by
        refine ⟨hFR1.size, ?_, ?_, ?_, hFR1.shape, ?_⟩
        · show FrameLive ((s.frames.modify s.curFrame clearF)[(s.frameIndex - 2).toNat]!)
              ((fr.modify s.curFrame clearF)[(s.frameIndex - 2).toNat]!)
          rw [hpe]; exact FrameLive.refl' _
        · intro j hj
          have hj' : (j : Int) + 2 ≤ s.frameIndex - 1 := hj
          exact hFR1.below j (by show (j : Int) + 2 ≤ s.frameIndex; omega)
        · show (((s.frameIndex - 2).toNat : Nat) : Int) + 1 = s.frameIndex - 1
          omega
        · show (s.frameIndex - 2).toNat < frameSize
          simp only [frameSize] at h2 ⊢; omega
      have hpop : popped (wf s fr tr) = wf (popped s) (fr.modify s.curFrame clearF) tr := by
        unfold popped wf
        simp only
        rw [show (fr.modify s.curFrame clearF)[(s.frameIndex - 2).toNat]! =
          (s.frames.modify s.curFrame clearF)[(s.frameIndex - 2).toNat]! from hpe.symm]
      rw [hpop]
      cases ((s.frames.modify s.curFrame clearF)[(s.frameIndex - 2).toNat]!).fn with
      | none => exact ⟨_, tr, rfl, hFR2⟩
      | some a => exact ⟨_, tr, rfl, hFR2⟩
macro_rules | `(tactic| live_prim) => `(tactic| exact live_retTail)

/-- `OpReturn` up to `vm.sp = bp` -/
def retHead : M Unit := do
  let numRet ← opnd1 1
  let f ← curFrame
  let mut bp := f.bp
  if bp == 0 then
    match f.fn with
    | none => panic "runtime error: invalid memory address or nil pointer dereference"
    | some fa => bp := ((← fnCell fa).1.numLocals : Int) + 1
  let sp ← getSp
  if numRet == 1 && !f.discard then
    stackSet (bp - 1) (← stackGet (sp - 1))
  else
    stackSet (bp - 1) .undefined
  clearDown (sp - 1) bp
  setSp bp

theorem execReturn_eq : execReturn = retHead >>= fun _ => retTail := by
  unfold execReturn retHead retTail
  simp only [bind_assoc, pure_bind, panic_bind]
  congr 1; funext numRet; congr 1; funext f
  by_cases hb : (f.bp == 0) = true
  · simp only [hb, if_true]
    cases hf : f.fn with
    | none => simp only [panic_bind]
    | some fa =>
      simp only [bind_assoc]
      congr 1; funext c; congr 1; funext sp
      by_cases hr : (numRet == 1 && !f.discard) = true
      · simp only [hr, if_true, bind_assoc]; rfl
      · simp only [hr, Bool.false_eq_true, if_false, bind_assoc]; rfl
  · simp only [hb, Bool.false_eq_true, if_false, bind_assoc]
    congr 1; funext sp
    by_cases hr : (numRet == 1 && !f.discard) = true
    · simp only [hr, if_true, bind_assoc]; rfl
    · simp only [hr, Bool.false_eq_true, if_false, bind_assoc]; rfl

theorem live_retHead : Live retHead := by unfold retHead; live

theorem live_execReturn : Live execReturn := by
  rw [execReturn_eq]
  exact Live.bind live_retHead (fun _ => live_retTail)
macro_rules | `(tactic| live_prim) => `(tactic| exact live_execReturn)

theorem live_dispatch (F : FloatOps) (op : Nat) : Live (dispatch F op) := by unfold dispatch; live
macro_rules | `(tactic| live_prim) => `(tactic| exact live_dispatch _ _)

/-- **step_live**: one instruction — fetch, trace hook, any of the 44 opcodes incl. its error
    and panic paths — gives the same result whatever the dead frame data are -/
theorem live_step (F : FloatOps) : Live (step F) := by unfold step; live

theorem live_handlePanic (m : String) : Live (handlePanic m) := by unfold handlePanic; live

/-! ### the relation after `Clear`/`SetBytecode` and the requirements of the lifting -/

/-- `t` is `s` with other dead frame data and another recorded trace -/
def LiveS (s t : State) : Prop := ∃ fr tr, t = wf s fr tr ∧ FR s fr

theorem LiveS.toLive {s t : State} (h : LiveS s t) : liveEq s t := by
  obtain ⟨fr, tr, rfl, hfr⟩ := h
  exact { heap := rfl, codes := rfl, consts := rfl, mainFn := rfl, numModules := rfl, globals := rfl, modules := rfl,
          noPanic := rfl, err := rfl, abort := rfl, ip := rfl, sp := rfl, frameIndex := rfl, curFrame := rfl,
          steps := rfl, traceOn := rfl, stackSize := rfl, framesSize := hfr.size.symm, stack := fun _ _ => rfl,
          cur := hfr.cur, below := hfr.below, link := hfr.link }

theorem LiveS.of_live {α} {m : M α} (hm : Live m) {s t : State} (h : LiveS s t) :
    Both LiveS (exec m s) (exec m t) := by
  obtain ⟨fr, tr, rfl, hfr⟩ := h
  obtain ⟨fr', tr', e, h'⟩ := hm.elim s fr tr hfr
  rw [e]
  exact ⟨rfl, fr', tr', rfl, h'⟩

theorem array_ext_get! (a b : Array V) (hs : a.size = b.size) (h : ∀ i : Nat, a[i]! = b[i]!) : a = b := by
  apply Array.ext hs
  intro i h1 h2
  have := h i
  simp only [getElem!_def, Array.getElem?_eq_getElem h1, Array.getElem?_eq_getElem h2] at this
  exact this

/-- what `prologue_live_core` establishes after `Clear`/`SetBytecode` is `LiveS` -/
theorem liveS_of_liveEqW {s t : State} (h : liveEqW (fun _ => True) s t) : LiveS s t := by
  obtain ⟨hl, hst, hsz, hcl⟩ := h
  have hstack : s.stack = t.stack := array_ext_get! _ _ hl.stackSize (fun i => hst i trivial)
  refine ⟨t.frames, t.trace, ?_, ⟨hl.framesSize.symm, by have := hl.cur; rw [← hl.curFrame] at this; exact this,
    hl.below, hl.link, hsz, hcl⟩⟩
  cases s; cases t
  have h1 := hl.heap; have h2 := hl.codes; have h3 := hl.consts; have h4 := hl.mainFn; have h5 := hl.numModules
  have h6 := hl.globals; have h7 := hl.modules; have h8 := hl.noPanic; have h9 := hl.err; have h10 := hl.abort
  have h11 := hl.ip; have h12 := hl.sp; have h13 := hl.frameIndex; have h14 := hl.curFrame; have h15 := hl.steps
  have h16 := hl.traceOn
  simp only at h1 h2 h3 h4 h5 h6 h7 h8 h9 h10 h11 h12 h13 h14 h15 h16 hstack
  subst h1 h2 h3 h4 h5 h6 h7 h8 h9 h10 h11 h12 h13 h14 h15 h16 hstack
  rfl

/-- **`LiveS` meets every requirement of the lifting** — `step_live` and `panic_live` are
    theorems now -/
theorem liveRel_LiveS (F : FloatOps) : LiveRel F LiveS :=
  { toLive := fun h => h.toLive
    step := fun _ _ h => LiveS.of_live (live_step F) h
    panic := fun m _ _ h => LiveS.of_live (live_handlePanic m) h
    abort := fun s t h => by
      obtain ⟨fr, tr, rfl, hfr⟩ := h
      exact ⟨fr, tr, rfl, ⟨hfr.size, hfr.cur, hfr.below, hfr.link, hfr.shape, hfr.curLt⟩⟩
    ccf := fun s t h => (LiveS.of_live live_clearCurrentFrame h).2 }

end UgoVerif.VM
