import UgoVerif.Proofs.CompileWalk
import UgoVerif.Proofs.CompileSat
/-
  C16, compile side: the source map the compiler model builds next to the instruction stream.

  `Chain a ks i`: the instructions of `a` from offset `i` to the end start exactly at the offsets
  `ks`.  The invariant of the compiler state is `Chain insts (keys sourceMap) 0`: `emit` records an
  entry for every instruction it appends, `changeOperand` rewrites the operands of an instruction
  whose start is a key.
  `CallsOK lab a m`: every CALL / CALLNAME instruction that has a successor has a successor whose
  recorded position carries the same label (`lab` = "line of", or any other labelling of
  positions) as the position recorded for the call itself.
-/
namespace UgoVerif.Compile
open UgoVerif UgoVerif.Go UgoVerif.Ast

/-! ### keys, lookup -/

def keys (m : List (Nat × Nat)) : List Nat := m.map (·.1)

/-- value recorded for instruction offset `k` -/
def smGet : List (Nat × Nat) → Nat → Option Nat
  | [], _ => none
  | (k', v) :: r, k => if k' = k then some v else smGet r k

@[simp] theorem keys_nil : keys [] = [] := rfl
@[simp] theorem keys_cons (x : Nat × Nat) (m : List (Nat × Nat)) : keys (x :: m) = x.1 :: keys m := rfl
@[simp] theorem keys_append (m m' : List (Nat × Nat)) : keys (m ++ m') = keys m ++ keys m' := by simp [keys]

theorem setSourceMap_fresh : ∀ (m : List (Nat × Nat)) (k v : Nat), k ∉ keys m → setSourceMap m k v = m ++ [(k, v)]
  | [], _, _, _ => rfl
  | (k', v') :: r, k, v, h => by
    simp only [keys_cons, List.mem_cons, not_or] at h
    have hne : (k == k') = false := by simp; exact h.1
    simp [setSourceMap, hne, setSourceMap_fresh r k v h.2]

/-! ### Chain -/

inductive Chain (a : Array UInt8) : List Nat → Nat → Prop
  | nil {i : Nat} (h : i = a.size) : Chain a [] i
  | cons {i : Nat} {ks : List Nat} (op : UInt8) (h1 : a[i]? = some op) (h2 : op.toNat < numOpcodes)
      (h3 : i + 1 + opWidth op.toNat ≤ a.size) (h4 : Chain a ks (i + 1 + opWidth op.toNat)) : Chain a (i :: ks) i

theorem Chain.ge {a : Array UInt8} {ks : List Nat} {i : Nat} (h : Chain a ks i) : ∀ k ∈ ks, i ≤ k := by
  induction h with
  | nil _ => intro k hk; simp at hk
  | cons op h1 h2 h3 h4 ih =>
    intro k hk
    rcases List.mem_cons.mp hk with rfl | hk
    · exact Nat.le_refl _
    · have := ih k hk; omega

theorem Chain.lt {a : Array UInt8} {ks : List Nat} {i : Nat} (h : Chain a ks i) : ∀ k ∈ ks, k < a.size := by
  induction h with
  | nil _ => intro k hk; simp at hk
  | cons op h1 h2 h3 h4 ih =>
    intro k hk
    rcases List.mem_cons.mp hk with rfl | hk
    · omega
    · exact ih k hk

theorem Chain.le_size {a : Array UInt8} {ks : List Nat} {i : Nat} (h : Chain a ks i) : i ≤ a.size := by
  cases h with
  | nil h => omega
  | cons op h1 h2 h3 h4 => omega

theorem Chain.walk {a : Array UInt8} {ks : List Nat} {i : Nat} (h : Chain a ks i) : Walk a i a.size := by
  induction h with
  | nil h => subst h; exact .refl _
  | cons op h1 h2 h3 h4 ih => exact .step op h1 h2 h3 ih

/-- every instruction start reached by decoding is one of the recorded offsets -/
theorem Chain.mem_of_walk {a : Array UInt8} {i p : Nat} (hw : Walk a i p) :
    ∀ {ks : List Nat}, Chain a ks i → p < a.size → p ∈ ks := by
  induction hw with
  | refl i =>
    intro ks hc hp
    cases hc with
    | nil h => omega
    | cons op h1 h2 h3 h4 => exact List.mem_cons_self
  | step op h1 h2 h3 h4 ih =>
    intro ks hc hp
    cases hc with
    | nil h =>
      rename_i i0 _
      have : i0 < a.size := by
        rcases Nat.lt_or_ge i0 a.size with h' | h'
        · exact h'
        · simp [Array.getElem?_eq_none h'] at h1
      omega
    | cons op' h1' h2' h3' h4' =>
      have : op' = op := by rw [h1] at h1'; injection h1' with h; exact h.symm
      subst this
      exact List.mem_cons_of_mem _ (ih h4' hp)

/-- … and every recorded offset is an instruction start -/
theorem Chain.walk_to {a : Array UInt8} {ks : List Nat} {i : Nat} (h : Chain a ks i) :
    ∀ k ∈ ks, Walk a i k := by
  induction h with
  | nil _ => intro k hk; simp at hk
  | cons op h1 h2 h3 h4 ih =>
    intro k hk
    rcases List.mem_cons.mp hk with rfl | hk
    · exact .refl _
    · exact .step op h1 h2 h3 (ih k hk)

theorem Chain.congr {a a' : Array UInt8} {ks : List Nat} {i : Nat} (h : Chain a ks i) (hs : a'.size = a.size)
    (hg : ∀ k ∈ ks, a'[k]? = a[k]?) : Chain a' ks i := by
  induction h with
  | nil h => exact .nil (by omega)
  | cons op h1 h2 h3 h4 ih =>
    refine .cons op (by rw [hg _ List.mem_cons_self]; exact h1) h2 (by omega) (ih ?_)
    intro k hk
    exact hg k (List.mem_cons_of_mem _ hk)

/-- appending one complete instruction -/
theorem Chain.append_inst {a : Array UInt8} {ks : List Nat} {i : Nat} (h : Chain a ks i) {op : Nat} {rest : List UInt8}
    (hop : op < numOpcodes) (hl : rest.length = opWidth op) :
    Chain (a ++ (UInt8.ofNat op :: rest).toArray) (ks ++ [a.size]) i := by
  have hto : (UInt8.ofNat op).toNat = op := by
    simp [UInt8.toNat_ofNat']
    unfold numOpcodes at hop
    omega
  induction h with
  | nil h =>
    subst h
    refine .cons (UInt8.ofNat op) (by simp [Array.getElem?_append]) (by rw [hto]; exact hop) ?_ (.nil ?_)
    · simp [hto, hl]; omega
    · simp [hto, hl]; omega
  | cons op' h1 h2 h3 h4 ih =>
    rename_i i0 ks0
    have hi : i0 < a.size := by omega
    have hget : (a ++ (UInt8.ofNat op :: rest).toArray)[i0]? = a[i0]? := by
      rw [Array.getElem?_append_left hi]
    refine .cons op' (by rw [hget]; exact h1) h2 (by simp; omega) ih

/-- the bytes at the recorded offsets survive the rewriting of the operands of one instruction -/
theorem Chain.get_patch {a : Array UInt8} {ks : List Nat} {i : Nat} (h : Chain a ks i) {p : Nat} {op : UInt8}
    {rest : List UInt8} (hop : a[p]? = some op) (hl : rest.length = opWidth op.toNat)
    (hp : p ∈ ks ∨ p + 1 + rest.length ≤ i) : ∀ k ∈ ks, (patch a p (op :: rest))[k]? = a[k]? := by
  have hps : p < a.size := by
    rcases Nat.lt_or_ge p a.size with h | h
    · exact h
    · simp [Array.getElem?_eq_none h] at hop
  induction h with
  | nil _ => intro k hk; simp at hk
  | cons op' h1 h2 h3 h4 ih =>
    rename_i i0 ks0
    intro k hk
    rcases List.mem_cons.mp hk with rfl | hk
    · -- k = i0
      rcases hp with hp | hp
      · rcases List.mem_cons.mp hp with rfl | hp
        · rw [patch_get_head _ _ _ _ hps, hop]
        · have := h4.ge p hp
          exact patch_get_lt _ _ _ _ (by omega)
      · exact patch_get_ge _ _ _ _ (by simp; omega)
    · refine ih ?_ k hk
      rcases hp with hp | hp
      · rcases List.mem_cons.mp hp with rfl | hp
        · right
          have : op' = op := by rw [hop] at h1; injection h1 with h; exact h.symm
          subst this; omega
        · exact .inl hp
      · right; omega

theorem Chain.patch_inst {a : Array UInt8} {ks : List Nat} (h : Chain a ks 0) {p : Nat} {op : UInt8}
    {rest : List UInt8} (hop : a[p]? = some op) (hl : rest.length = opWidth op.toNat) (hp : p ∈ ks) :
    Chain (patch a p (op :: rest)) ks 0 :=
  h.congr (size_patch _ _ _) (h.get_patch hop hl (.inl hp))

/-! ### calls and their successors -/

/-- the byte at `k` is a CALL or CALLNAME opcode -/
def isCallAt (a : Array UInt8) (k : Nat) : Bool :=
  match a[k]? with
  | some b => b.toNat == OpCall || b.toNat == OpCallName
  | none => false

def isCallOp (op : Nat) : Bool := op == OpCall || op == OpCallName

variable (lab : Nat → Nat)

/-- adjacent entries: a call's successor carries the call's label -/
def CallsOK (a : Array UInt8) : List (Nat × Nat) → Prop
  | x :: y :: r => (isCallAt a x.1 = true → lab x.2 = lab y.2) ∧ CallsOK a (y :: r)
  | _ => True

/-- position recorded for the last instruction when it is a call -/
def lastCall (a : Array UInt8) (m : List (Nat × Nat)) : Option Nat :=
  match m.getLast? with
  | some x => if isCallAt a x.1 then some x.2 else none
  | none => none

inductive Mode where
  | clean
  | pend (l : Nat)

/-- `clean`: the stream does not end in a call.  `pend l`: if it does, that call's position has
    label `l`. -/
def Tm : Mode → Array UInt8 → List (Nat × Nat) → Prop
  | .clean, a, m => CallsOK lab a m ∧ lastCall a m = none
  | .pend l, a, m => CallsOK lab a m ∧ ∀ v, lastCall a m = some v → lab v = l

theorem Tm.calls {lab : Nat → Nat} {X : Mode} {a : Array UInt8} {m : List (Nat × Nat)} (h : Tm lab X a m) : CallsOK lab a m := by
  cases X <;> exact h.1

theorem Tm.to_pend {lab : Nat → Nat} {a : Array UInt8} {m : List (Nat × Nat)} (h : Tm lab .clean a m) (l : Nat) : Tm lab (.pend l) a m :=
  ⟨h.1, fun v hv => by rw [h.2] at hv; cases hv⟩

theorem callsOK_congr {a a' : Array UInt8} : ∀ {m : List (Nat × Nat)}, (∀ k ∈ keys m, isCallAt a' k = isCallAt a k) →
    CallsOK lab a m → CallsOK lab a' m
  | [], _, _ => trivial
  | [_], _, _ => trivial
  | x :: y :: r, hk, h => by
    refine ⟨fun hc => h.1 ?_, callsOK_congr (fun k hk' => hk k (List.mem_cons_of_mem _ hk')) h.2⟩
    rw [← hk x.1 (by simp)]; exact hc

theorem lastCall_congr {a a' : Array UInt8} {m : List (Nat × Nat)} (hk : ∀ k ∈ keys m, isCallAt a' k = isCallAt a k) :
    lastCall a' m = lastCall a m := by
  unfold lastCall
  cases hl : m.getLast? with
  | none => rfl
  | some x =>
    have : x.1 ∈ keys m := by
      have := List.mem_of_getLast? hl
      exact List.mem_map_of_mem this
    simp only [hk _ this]

theorem Tm.congr {lab : Nat → Nat} {X : Mode} {a a' : Array UInt8} {m : List (Nat × Nat)}
    (hk : ∀ k ∈ keys m, isCallAt a' k = isCallAt a k) (h : Tm lab X a m) : Tm lab X a' m := by
  cases X with
  | clean => exact ⟨callsOK_congr lab hk h.1, by rw [lastCall_congr hk]; exact h.2⟩
  | pend l => exact ⟨callsOK_congr lab hk h.1, by rw [lastCall_congr hk]; exact h.2⟩

theorem callsOK_snoc {a : Array UInt8} (x : Nat × Nat) : ∀ {m : List (Nat × Nat)}, CallsOK lab a m →
    (∀ y, m.getLast? = some y → isCallAt a y.1 = true → lab y.2 = lab x.2) → CallsOK lab a (m ++ [x])
  | [], _, _ => trivial
  | [y], _, hl => ⟨fun hc => hl y rfl hc, trivial⟩
  | y :: z :: r, h, hl => by
    refine ⟨h.1, ?_⟩
    have := callsOK_snoc x (m := z :: r) h.2 (fun w hw => hl w (by simpa [List.getLast?_cons_cons] using hw))
    exact this

theorem isCallAt_append_lt {a : Array UInt8} {b : Array UInt8} {k : Nat} (h : k < a.size) :
    isCallAt (a ++ b) k = isCallAt a k := by
  simp [isCallAt, Array.getElem?_append, h]

theorem isCallAt_append_new {a : Array UInt8} {op : Nat} {rest : List UInt8} (hop : op < numOpcodes) :
    isCallAt (a ++ (UInt8.ofNat op :: rest).toArray) a.size = isCallOp op := by
  have hto : (UInt8.ofNat op).toNat = op := by
    simp [UInt8.toNat_ofNat']
    unfold numOpcodes at hop
    omega
  simp [isCallAt, Array.getElem?_append, hto, isCallOp]

/-- `emit`: the new instruction is recorded after the others -/
theorem Tm.emit {lab : Nat → Nat} {a : Array UInt8} {m : List (Nat × Nat)} {op pos : Nat} {rest : List UInt8}
    (hop : op < numOpcodes) (hlt : ∀ k ∈ keys m, k < a.size) :
    (∀ l, Tm lab (.pend l) a m → lab pos = l → Tm lab (.pend l) (a ++ (UInt8.ofNat op :: rest).toArray) (m ++ [(a.size, pos)])) ∧
    (∀ l, Tm lab (.pend l) a m → lab pos = l → isCallOp op = false →
        Tm lab .clean (a ++ (UInt8.ofNat op :: rest).toArray) (m ++ [(a.size, pos)])) ∧
    (Tm lab .clean a m → isCallOp op = false →
        Tm lab .clean (a ++ (UInt8.ofNat op :: rest).toArray) (m ++ [(a.size, pos)])) := by
  have hcong : ∀ k ∈ keys m, isCallAt (a ++ (UInt8.ofNat op :: rest).toArray) k = isCallAt a k :=
    fun k hk => isCallAt_append_lt (hlt k hk)
  have hnew := isCallAt_append_new (a := a) (rest := rest) hop
  have hlast : lastCall (a ++ (UInt8.ofNat op :: rest).toArray) (m ++ [(a.size, pos)])
      = if isCallOp op then some pos else none := by
    simp [lastCall, hnew]
  have hcalls : ∀ l, Tm lab (.pend l) a m → lab pos = l →
      CallsOK lab (a ++ (UInt8.ofNat op :: rest).toArray) (m ++ [(a.size, pos)]) := by
    intro l h hl
    refine callsOK_snoc lab _ (callsOK_congr lab hcong h.1) ?_
    intro y hy hc
    have hy' : y.1 ∈ keys m := List.mem_map_of_mem (List.mem_of_getLast? hy)
    rw [hcong _ hy'] at hc
    have := h.2 y.2 (by simp [lastCall, hy, hc])
    simp [this, hl]
  refine ⟨?_, ?_, ?_⟩
  · intro l h hl
    refine ⟨hcalls l h hl, ?_⟩
    intro v hv
    rw [hlast] at hv
    split at hv
    · injection hv with hv; subst hv; exact hl
    · cases hv
  · intro l h hl hnc
    exact ⟨hcalls l h hl, by rw [hlast, hnc]; rfl⟩
  · intro h hnc
    exact ⟨hcalls (lab pos) (h.to_pend _) rfl, by rw [hlast, hnc]; rfl⟩

end UgoVerif.Compile
