import UgoVerif.Proofs.Bytecode
import UgoVerif.Model.V1
/-
  Helper lemmas for C11: facts about the regenerated opcode tables (checked by
  `decide`), and the inductive steps of the two passes of the converter.
-/
set_option linter.unusedSimpArgs false
set_option linter.unusedVariables false
namespace UgoVerif.Proofs.V1
open UgoVerif.Go UgoVerif.Gen.Opcodes UgoVerif.Model.Bytecode UgoVerif.Model.V1 UgoVerif.Proofs.Bytecode

/-! ### table facts (re-checked against the regenerated tables on every run) -/

theorem v1_table_supported : ∀ ws ∈ V1.opcodeOperandsTable, Supported ws := by decide
theorem v2_table_supported : ∀ ws ∈ opcodeOperandsTable, Supported ws := by decide

theorem v1_supported {op : Nat} {ws : List Nat} (h : V1.opcodeOperands op = some ws) : Supported ws :=
  v1_table_supported ws (List.mem_of_getElem? h)
theorem v2_supported {op : Nat} {ws : List Nat} (h : opcodeOperands op = some ws) : Supported ws :=
  v2_table_supported ws (List.mem_of_getElem? h)

theorem opWidth_of_v1 {op : Nat} {ws : List Nat} (h : V1.opcodeOperands op = some ws) :
    opWidthTable[op]? = some ws.sum := by
  unfold V1.opcodeOperands at h
  simp [opWidthTable, h]

theorem v1_of_opWidth {op w : Nat} (h : opWidthTable[op]? = some w) :
    ∃ ws, V1.opcodeOperands op = some ws ∧ ws.sum = w := by
  unfold opWidthTable at h
  simp only [List.getElem?_map] at h
  cases hv : V1.opcodeOperandsTable[op]? with
  | none => simp [hv] at h
  | some ws => simp [hv] at h; exact ⟨ws, hv, h⟩

/-- opcodes the converter does not re-encode have the same operand layout in both formats -/
theorem nonjump_same_table : ∀ op, op < V1.opcodeOperandsTable.length → isJumpClass op = false →
    V1.opcodeOperandsTable[op]? = opcodeOperandsTable[op]? := by decide

theorem nonjump_same {op : Nat} {ws : List Nat} (hj : isJumpClass op = false)
    (h : V1.opcodeOperands op = some ws) : opcodeOperands op = some ws := by
  have hlt : op < V1.opcodeOperandsTable.length := by
    unfold V1.opcodeOperands at h
    exact (List.getElem?_eq_some_iff.mp h).1
  have := nonjump_same_table op hlt hj
  unfold opcodeOperands; unfold V1.opcodeOperands at h
  rw [← this]; exact h

/-- the two shapes of re-encoded instructions: one 2→4 byte operand, or (SETUPTRY) two -/
theorem jump_shape {op : Nat} (h : isJumpClass op = true) :
    (V1.opcodeOperands op = some [2] ∧ opcodeOperands op = some [4] ∧
      makeInstructionLayout op = some [(0, 24), (0, 16), (0, 8), (0, 0)] ∧ op < 256)
    ∨ (V1.opcodeOperands op = some [2, 2] ∧ opcodeOperands op = some [4, 4] ∧
      makeInstructionLayout op = some [(0, 24), (0, 16), (0, 8), (0, 0), (1, 24), (1, 16), (1, 8), (1, 0)] ∧ op < 256) := by
  simp [isJumpClass, convJumpClass] at h
  rcases h with rfl | rfl | rfl | rfl | rfl
  · left; decide
  · left; decide
  · left; decide
  · left; decide
  · right; decide

/-! ### MakeInstruction on the two shapes -/

theorem makeInstruction_1 {op a : Nat} (h2 : opcodeOperands op = some [4])
    (hl : makeInstructionLayout op = some [(0, 24), (0, 16), (0, 8), (0, 0)]) (ha : a ≤ 2147483647) :
    makeInstruction op [a] = .ok (UInt8.ofNat op :: beBytes 4 a) := by
  have : ¬ (2147483647 < a) := by omega
  simp [makeInstruction, h2, hl, makeInstructionMax, beBytes, this]

theorem makeInstruction_2 {op a b : Nat} (h2 : opcodeOperands op = some [4, 4])
    (hl : makeInstructionLayout op = some [(0, 24), (0, 16), (0, 8), (0, 0), (1, 24), (1, 16), (1, 8), (1, 0)])
    (ha : a ≤ 2147483647) (hb : b ≤ 2147483647) :
    makeInstruction op [a, b] = .ok (UInt8.ofNat op :: (beBytes 4 a ++ beBytes 4 b)) := by
  have : ¬ (2147483647 < a) := by omega
  have : ¬ (2147483647 < b) := by omega
  simp [makeInstruction, h2, hl, makeInstructionMax, beBytes, *]

/-- on a re-encoded opcode MakeInstruction never panics, whatever the operand values -/
theorem makeInstruction_no_panic_1 {op a : Nat} (h2 : opcodeOperands op = some [4])
    (hl : makeInstructionLayout op = some [(0, 24), (0, 16), (0, 8), (0, 0)]) :
    (makeInstruction op [a]).isPanic = false := by
  simp [makeInstruction, h2, hl, makeInstructionMax]
  split <;> simp [Res.isPanic]

theorem readOperands_be4 (a : Nat) (X : Bytes) (ha : a ≤ 2147483647) :
    readOperands [4] (beBytes 4 a ++ X) = .ok ([a], X) := by
  have h4 : readOperandsWidths.contains 4 = true := by decide
  have hl : 4 ≤ (beBytes 4 a ++ X).length := by simp [beBytes_length]
  rw [readOperands, if_pos h4, if_pos hl]
  have ht : List.take 4 (beBytes 4 a ++ X) = beBytes 4 a := by
    rw [List.take_append_of_le_length (by simp [beBytes_length])]; simp [List.take_of_length_le, beBytes_length]
  have hd : List.drop 4 (beBytes 4 a ++ X) = X := by
    rw [List.drop_append_of_le_length (by simp [beBytes_length])]; simp [List.drop_of_length_le, beBytes_length]
  rw [ht, hd, beVal_beBytes]
  simp [readOperands]
  omega

/-! ### second pass -/

theorem relocArg_le (φ : Nat → Nat) (hφ : ∀ p, p < 65536 → φ p ≤ 2147483647) (op v : Nat) (hv : v < 65536) :
    (if op ≠ convKeepZeroOp ∨ v ≠ 0 then φ v else v) ≤ 2147483647 := by
  split
  · exact hφ v hv
  · omega

theorem pass2_decodes (φ : Nat → Nat) (sm : SrcMap) (hφ : ∀ p, p < 65536 → φ p ≤ 2147483647) :
    ∀ (f1 : Nat) (rest : Bytes) (i n : Nat) (is : List Instr) (f2 : Nat),
      decodeAllAux V1.opcodeOperands f1 rest i = some is → rest.length < f2 →
      ∃ out m, pass2 φ sm f2 rest i n = .ok (out, m) ∧
        (∀ f3, out.length < f3 → decodeAllAux opcodeOperands f3 out n = some (relocInstrs φ is n)) ∧
        m = convSm sm is (relocInstrs φ is n) ∧ out.length = v2len is := by
  intro f1
  induction f1 with
  | zero => intro rest i n is f2 h; simp [decodeAllAux] at h
  | succ f1 ih =>
    intro rest i n is f2 h hf
    cases f2 with
    | zero => omega
    | succ f2 =>
    cases rest with
    | nil =>
      simp [decodeAllAux] at h; subst h
      refine ⟨[], [], by simp [pass2], ?_, by simp [relocInstrs, convSm], by simp [v2len]⟩
      intro f3 h3
      cases f3 with
      | zero => simp at h3
      | succ f3 => simp [decodeAllAux, relocInstrs]
    | cons b tail =>
      rw [decodeAllAux] at h
      cases hws : V1.opcodeOperands b.toNat with
      | none => simp [hws] at h
      | some ws1 =>
      rw [hws] at h; simp only at h
      cases hro : readOperands ws1 tail with
      | err e => rw [hro] at h; simp at h
      | panic e => rw [hro] at h; simp at h
      | ok p =>
      obtain ⟨args, rest'⟩ := p
      rw [hro] at h; simp only at h
      cases hrec : decodeAllAux V1.opcodeOperands f1 rest' (i + (ws1.sum + 1)) with
      | none => rw [hrec] at h; simp at h
      | some is' =>
      rw [hrec] at h; simp at h; subst h
      obtain ⟨hsum, hrest, hlen, happ, hbound⟩ := readOperands_ok ws1 tail args rest' (v1_supported hws) hro
      subst hrest
      have hw := opWidth_of_v1 hws
      simp at hf
      by_cases hj : isJumpClass b.toNat = true
      · rcases jump_shape hj with ⟨h1, h2, hl, hop⟩ | ⟨h1, h2, hl, hop⟩
        · -- one operand
          rw [hws] at h1; simp at h1; subst h1
          match args, hlen with
          | [v], _ =>
          have hv : v < 65536 := by
            obtain ⟨w, hw', hlt⟩ := hbound v (by simp)
            simp at hw'; subst hw'; simpa using hlt
          have hle := relocArg_le φ hφ b.toNat v hv
          obtain ⟨out, m, hp, hd, hm, hol⟩ := ih (List.drop 2 tail) (i + 3) (n + 5) is' f2 (by simpa using hrec)
            (by simp; omega)
          refine ⟨b :: (beBytes 4 (if b.toNat ≠ convKeepZeroOp ∨ v ≠ 0 then φ v else v) ++ out), _, ?_, ?_, rfl, by simp [v2len, h2, beBytes_length, hol]; omega⟩
          · rw [pass2]
            simp only [hw, hj, hws, hro, relocArgs, List.map, if_true]
            rw [makeInstruction_1 h2 hl hle]
            simp [beBytes_length, hp, hm, relocInstrs, convSm, h2, hj]
          · intro f3 h3
            cases f3 with
            | zero => simp at h3
            | succ f3 =>
              simp [beBytes_length] at h3
              rw [decodeAllAux, h2]
              simp only
              rw [readOperands_be4 _ _ hle]
              simp only
              have := hd f3 (by omega)
              simp [relocInstrs, h2, hj, relocArgs] at this ⊢
              rw [this]
        · -- two operands (SETUPTRY)
          rw [hws] at h1; simp at h1; subst h1
          match args, hlen with
          | [v1, v2], _ =>
          have hv1 : v1 < 65536 := by
            obtain ⟨w, hw', hlt⟩ := hbound v1 (by simp)
            simp at hw'; subst hw'; simpa using hlt
          have hv2 : v2 < 65536 := by
            obtain ⟨w, hw', hlt⟩ := hbound v2 (by simp)
            simp at hw'; subst hw'; simpa using hlt
          have hle1 := relocArg_le φ hφ b.toNat v1 hv1
          have hle2 := relocArg_le φ hφ b.toNat v2 hv2
          obtain ⟨out, m, hp, hd, hm, hol⟩ := ih (List.drop 4 tail) (i + 5) (n + 9) is' f2 (by simpa using hrec)
            (by simp; omega)
          refine ⟨b :: (beBytes 4 (if b.toNat ≠ convKeepZeroOp ∨ v1 ≠ 0 then φ v1 else v1) ++
            beBytes 4 (if b.toNat ≠ convKeepZeroOp ∨ v2 ≠ 0 then φ v2 else v2) ++ out), _, ?_, ?_, rfl, by simp [v2len, h2, beBytes_length, hol]; omega⟩
          · rw [pass2]
            simp only [hw, hj, hws, hro, relocArgs, List.map, if_true]
            rw [makeInstruction_2 h2 hl hle1 hle2]
            simp [beBytes_length, hp, hm, relocInstrs, convSm, h2, hj]
          · intro f3 h3
            cases f3 with
            | zero => simp at h3
            | succ f3 =>
              simp [beBytes_length] at h3
              rw [decodeAllAux, h2]
              simp only
              rw [readOperands, if_pos (by decide), if_pos (by simp [beBytes_length])]
              have ht : List.take 4 (beBytes 4 (if b.toNat ≠ convKeepZeroOp ∨ v1 ≠ 0 then φ v1 else v1) ++
                  beBytes 4 (if b.toNat ≠ convKeepZeroOp ∨ v2 ≠ 0 then φ v2 else v2) ++ out) =
                  beBytes 4 (if b.toNat ≠ convKeepZeroOp ∨ v1 ≠ 0 then φ v1 else v1) := by
                rw [List.append_assoc, List.take_append_of_le_length (by simp [beBytes_length])]
                simp [List.take_of_length_le, beBytes_length]
              have hdr : List.drop 4 (beBytes 4 (if b.toNat ≠ convKeepZeroOp ∨ v1 ≠ 0 then φ v1 else v1) ++
                  beBytes 4 (if b.toNat ≠ convKeepZeroOp ∨ v2 ≠ 0 then φ v2 else v2) ++ out) =
                  beBytes 4 (if b.toNat ≠ convKeepZeroOp ∨ v2 ≠ 0 then φ v2 else v2) ++ out := by
                rw [List.append_assoc, List.drop_append_of_le_length (by simp [beBytes_length])]
                simp [List.drop_of_length_le, beBytes_length]
              rw [ht, hdr, readOperands_be4 _ _ hle2, beVal_beBytes]
              simp only
              have := hd f3 (by omega)
              have hmod : (if b.toNat ≠ convKeepZeroOp ∨ v1 ≠ 0 then φ v1 else v1) % 256 ^ 4 =
                  (if b.toNat ≠ convKeepZeroOp ∨ v1 ≠ 0 then φ v1 else v1) := Nat.mod_eq_of_lt (by omega)
              simp [relocInstrs, h2, hj, relocArgs, hmod] at this ⊢
              rw [this]
      · -- copied unchanged
        have hj' : isJumpClass b.toNat = false := by simpa using hj
        have h2 := nonjump_same hj' hws
        obtain ⟨out, m, hp, hd, hm, hol⟩ := ih (List.drop ws1.sum tail) (i + (ws1.sum + 1)) (n + (ws1.sum + 1)) is' f2 hrec
          (by simp; omega)
        refine ⟨b :: (tail.take ws1.sum ++ out), _, ?_, ?_, rfl, by simp [v2len, h2, hol, Nat.min_eq_left hsum]; omega⟩
        · rw [pass2]
          have : ¬ tail.length < ws1.sum := by omega
          simp [hw, hj', this, hp, hm, relocInstrs, convSm, h2, Nat.min_eq_left hsum]
        · intro f3 h3
          cases f3 with
          | zero => simp at h3
          | succ f3 =>
            simp [Nat.min_eq_left hsum] at h3
            rw [decodeAllAux, h2]
            simp only
            rw [happ out]
            simp only
            have := hd f3 (by omega)
            simp [relocInstrs, h2, hj'] at this ⊢
            rw [this]

/-! ### first pass -/

theorem jump_widen {op w : Nat} {ws2 : List Nat} (hj : isJumpClass op = true)
    (hw : opWidthTable[op]? = some w) (h2 : opcodeOperands op = some ws2) :
    w ≤ ws2.sum ∧ ws2.sum ≤ 2 * w + 1 := by
  rcases jump_shape hj with ⟨h1, h2', _, _⟩ | ⟨h1, h2', _, _⟩
  · have := opWidth_of_v1 h1
    rw [hw] at this; rw [h2] at h2'
    simp at this h2'; subst this h2'; simp
  · have := opWidth_of_v1 h1
    rw [hw] at this; rw [h2] at h2'
    simp at this h2'; subst this h2'; simp

theorem seg_getElem? (w i shift j x : Nat)
    (h : ((List.range (1 + w)).map (fun k => i + k + shift))[j]? = some x) : j < 1 + w ∧ x = i + j + shift := by
  rw [List.getElem?_map] at h
  cases hr : (List.range (1 + w))[j]? with
  | none => simp [hr] at h
  | some a =>
    rw [hr] at h
    obtain ⟨hlt, heq⟩ := List.getElem?_eq_some_iff.mp hr
    simp at hlt heq h
    subst heq
    exact ⟨hlt, h.symm⟩

theorem seg_head (w : Nat) (f : Nat → Nat) (np' : List Nat) :
    ((List.range (1 + w)).map f ++ np')[0]? = some (f 0) := by
  rw [Nat.add_comm 1 w, List.range_succ_eq_map]; simp

/-- unfolding of one iteration of the first pass that succeeded -/
theorem pass1_cons_ok {f : Nat} {b : UInt8} {tail : Bytes} {i shift : Nat} {np : List Nat} {sh : Nat}
    (h : pass1 (f + 1) (b :: tail) i shift = .ok (np, sh)) :
    ∃ w shift' np', opWidthTable[b.toNat]? = some w ∧ w ≤ tail.length ∧
      pass1 f (tail.drop w) (i + (w + 1)) shift' = .ok (np', sh) ∧
      np = (List.range (1 + w)).map (fun k => i + k + shift) ++ np' ∧
      ((isJumpClass b.toNat = false ∧ shift' = shift) ∨
       (isJumpClass b.toNat = true ∧ ∃ ws2, opcodeOperands b.toNat = some ws2 ∧ shift' = shift + ws2.sum - w)) := by
  rw [pass1] at h
  cases hw : opWidthTable[b.toNat]? with
  | none => simp [hw] at h
  | some w =>
    simp only [hw] at h
    by_cases hl : tail.length < w
    · simp [hl] at h
    · simp only [hl, if_false] at h
      by_cases hj : isJumpClass b.toNat = true
      · simp only [hj, if_true] at h
        cases h2 : opcodeOperands b.toNat with
        | none => simp [h2] at h
        | some ws2 =>
          simp only [h2] at h
          cases hr : pass1 f (tail.drop w) (i + (w + 1)) (shift + ws2.sum - w) with
          | ok p =>
            obtain ⟨np', sh'⟩ := p
            simp [hr] at h
            obtain ⟨rfl, rfl⟩ := h
            exact ⟨w, _, np', rfl, by omega, hr, rfl, Or.inr ⟨hj, ws2, rfl, rfl⟩⟩
          | err e => simp [hr] at h
          | panic m => simp [hr] at h
      · have hj' : isJumpClass b.toNat = false := by simpa using hj
        simp only [hj', Bool.false_eq_true, if_false] at h
        cases hr : pass1 f (tail.drop w) (i + (w + 1)) shift with
        | ok p =>
          obtain ⟨np', sh'⟩ := p
          simp [hr] at h
          obtain ⟨rfl, rfl⟩ := h
          exact ⟨w, _, np', rfl, by omega, hr, rfl, Or.inl ⟨hj', rfl⟩⟩
        | err e => simp [hr] at h
        | panic m => simp [hr] at h

/-- shape of the table `newPos` the first pass builds from offset `i` with accumulated `shift` -/
theorem pass1_inv : ∀ (f : Nat) (rest : Bytes) (i shift : Nat) (np : List Nat) (sh : Nat),
    pass1 f rest i shift = .ok (np, sh) →
    np.length = rest.length + 1 ∧ shift ≤ sh ∧ np.Pairwise (· < ·) ∧
    (∀ x ∈ np, i + shift ≤ x ∧ x ≤ i + rest.length + sh) ∧
    (shift ≤ i → sh ≤ i + rest.length ∧ ∀ j x, np[j]? = some x → x ≤ 2 * (i + j)) := by
  intro f
  induction f with
  | zero => intro rest i shift np sh h; simp [pass1] at h
  | succ f ih =>
    intro rest i shift np sh h
    cases rest with
    | nil =>
      simp [pass1] at h
      obtain ⟨rfl, rfl⟩ := h
      refine ⟨by simp, Nat.le_refl _, by simp, by simp, ?_⟩
      intro hs
      refine ⟨by simpa using hs, ?_⟩
      intro j x hx
      cases j with
      | zero => simp at hx; omega
      | succ j => simp at hx
    | cons b tail =>
      obtain ⟨w, shift', np', hw, hl, hr, rfl, hcase⟩ := pass1_cons_ok h
      obtain ⟨h1, h2, h3, h4, h5⟩ := ih _ _ _ _ _ hr
      have hge : shift ≤ shift' ∧ shift' ≤ shift + w + 1 := by
        rcases hcase with ⟨_, rfl⟩ | ⟨hj, ws2, hws2, rfl⟩
        · omega
        · have := jump_widen hj hw hws2; omega
      simp at h1
      have hdl : (List.drop w tail).length = tail.length - w := List.length_drop
      refine ⟨by simp [h1]; omega, by omega, ?_, ?_, ?_⟩
      · rw [List.pairwise_append]
        refine ⟨?_, h3, ?_⟩
        · rw [List.pairwise_map]
          exact List.Pairwise.imp (fun hab => by omega) List.pairwise_lt_range
        · intro a ha c hc
          simp at ha
          obtain ⟨k, hk, rfl⟩ := ha
          have := (h4 c hc).1
          omega
      · intro x hx
        simp at hx
        rcases hx with ⟨k, hk, rfl⟩ | hx
        · simp; omega
        · have := h4 x hx
          simp; omega
      · intro hs
        obtain ⟨h6, h7⟩ := h5 (by omega)
        refine ⟨by simp; omega, ?_⟩
        intro j x hx
        rw [List.getElem?_append] at hx
        split at hx
        · obtain ⟨_, rfl⟩ := seg_getElem? _ _ _ _ _ hx; omega
        · rename_i hlt
          simp at hlt
          have := h7 _ _ hx
          simp at this
          omega

/-- one iteration of the version-1 walker that succeeded -/
theorem decodeV1_cons {f : Nat} {b : UInt8} {tail : Bytes} {i : Nat} {is : List Instr}
    (h : decodeAllAux V1.opcodeOperands (f + 1) (b :: tail) i = some is) :
    ∃ ws1 args is', V1.opcodeOperands b.toNat = some ws1 ∧
      readOperands ws1 tail = .ok (args, tail.drop ws1.sum) ∧ ws1.sum ≤ tail.length ∧
      decodeAllAux V1.opcodeOperands f (tail.drop ws1.sum) (i + (ws1.sum + 1)) = some is' ∧
      is = ⟨i, b.toNat, args⟩ :: is' := by
  rw [decodeAllAux] at h
  cases hws : V1.opcodeOperands b.toNat with
  | none => simp [hws] at h
  | some ws1 =>
    rw [hws] at h; simp only at h
    cases hro : readOperands ws1 tail with
    | err e => rw [hro] at h; simp at h
    | panic e => rw [hro] at h; simp at h
    | ok p =>
      obtain ⟨args, rest'⟩ := p
      rw [hro] at h; simp only at h
      obtain ⟨hsum, hrest, _, _, _⟩ := readOperands_ok ws1 tail args rest' (v1_supported hws) hro
      subst hrest
      cases hrec : decodeAllAux V1.opcodeOperands f (tail.drop ws1.sum) (i + (ws1.sum + 1)) with
      | none => rw [hrec] at h; simp at h
      | some is' =>
        rw [hrec] at h; simp at h
        exact ⟨ws1, args, is', rfl, hro, hsum, hrec, h.symm⟩

/-- on a decodable stream the first pass succeeds, and any offset map that agrees with its table
    sends every old instruction offset to the offset the second pass emits it at -/
theorem pass1_of_decodable : ∀ (f1 : Nat) (rest : Bytes) (i shift : Nat) (is : List Instr) (f2 : Nat),
    decodeAllAux V1.opcodeOperands f1 rest i = some is → rest.length < f2 →
    ∃ np sh, pass1 f2 rest i shift = .ok (np, sh) ∧
      (∀ φ : Nat → Nat, (∀ j x, np[j]? = some x → φ (i + j) = x) →
        relocInstrs φ is (i + shift) = is.map (relocInstr φ)) ∧
      np[rest.length]? = some (i + shift + v2len is) := by
  intro f1
  induction f1 with
  | zero => intro rest i shift is f2 h; simp [decodeAllAux] at h
  | succ f1 ih =>
    intro rest i shift is f2 h hf
    cases f2 with
    | zero => omega
    | succ f2 =>
    cases rest with
    | nil =>
      simp [decodeAllAux] at h; subst h
      exact ⟨[i + shift], shift, by simp [pass1], by intro φ _; simp [relocInstrs], by simp [v2len]⟩
    | cons b tail =>
      obtain ⟨ws1, args, is', hws, hro, hsum, hrec, rfl⟩ := decodeV1_cons h
      have hw := opWidth_of_v1 hws
      simp at hf
      have hnl : ¬ tail.length < ws1.sum := by omega
      by_cases hj : isJumpClass b.toNat = true
      · have ⟨ws2, h2⟩ : ∃ ws2, opcodeOperands b.toNat = some ws2 := by
          rcases jump_shape hj with ⟨_, h2, _⟩ | ⟨_, h2, _⟩ <;> exact ⟨_, h2⟩
        have hwd := jump_widen hj hw h2
        obtain ⟨np', sh, hp, hag, hlast⟩ := ih (tail.drop ws1.sum) (i + (ws1.sum + 1)) (shift + ws2.sum - ws1.sum) is' f2 hrec
          (by simp; omega)
        refine ⟨((List.range (1 + ws1.sum)).map (fun k => i + k + shift) ++ np'), sh, by rw [pass1]; simp only [hw, hnl, hj, h2, hp, if_true, if_false], ?_, ?_⟩
        rotate_left
        · rw [List.getElem?_append_right (by simp; omega)]
          have hidx : (b :: tail).length - ((List.range (1 + ws1.sum)).map (fun k => i + k + shift)).length =
              (List.drop ws1.sum tail).length := by simp; omega
          rw [hidx, hlast]
          simp [v2len, h2]; omega
        intro φ hφ
        have h0 : φ i = i + shift := by
          have := hφ 0 (i + 0 + shift) (seg_head _ _ _)
          simpa using this
        have htl := hag φ (by
          intro j x hx
          have := hφ (j + (1 + ws1.sum)) x (by
            rw [List.getElem?_append_right (by simp)]
            simpa using hx)
          rw [← this]; congr 1; omega)
        simp only [relocInstrs, List.map, relocInstr, h2, Option.getD_some, h0]
        congr 1
        rw [← htl]; congr 1; omega
      · have hj' : isJumpClass b.toNat = false := by simpa using hj
        have h2 := nonjump_same hj' hws
        obtain ⟨np', sh, hp, hag, hlast⟩ := ih (tail.drop ws1.sum) (i + (ws1.sum + 1)) shift is' f2 hrec
          (by simp; omega)
        refine ⟨((List.range (1 + ws1.sum)).map (fun k => i + k + shift) ++ np'), sh, by rw [pass1]; simp only [hw, hnl, hj', hp, if_false, Bool.false_eq_true], ?_, ?_⟩
        rotate_left
        · rw [List.getElem?_append_right (by simp; omega)]
          have hidx : (b :: tail).length - ((List.range (1 + ws1.sum)).map (fun k => i + k + shift)).length =
              (List.drop ws1.sum tail).length := by simp; omega
          rw [hidx, hlast]
          simp [v2len, h2]; omega
        intro φ hφ
        have h0 : φ i = i + shift := by
          have := hφ 0 (i + 0 + shift) (seg_head _ _ _)
          simpa using this
        have htl := hag φ (by
          intro j x hx
          have := hφ (j + (1 + ws1.sum)) x (by
            rw [List.getElem?_append_right (by simp)]
            simpa using hx)
          rw [← this]; congr 1; omega)
        simp only [relocInstrs, List.map, relocInstr, h2, Option.getD_some, h0]
        congr 1
        rw [← htl]; congr 1; omega

/-- the first pass accepts exactly the streams the version-1 walker decodes -/
theorem pass1_decodable : ∀ (f2 : Nat) (rest : Bytes) (i shift : Nat) (np : List Nat) (sh : Nat),
    pass1 f2 rest i shift = .ok (np, sh) →
    ∀ f1, rest.length < f1 → ∃ is, decodeAllAux V1.opcodeOperands f1 rest i = some is := by
  intro f2
  induction f2 with
  | zero => intro rest i shift np sh h; simp [pass1] at h
  | succ f2 ih =>
    intro rest i shift np sh h f1 hf
    cases f1 with
    | zero => omega
    | succ f1 =>
    cases rest with
    | nil => exact ⟨[], by simp [decodeAllAux]⟩
    | cons b tail =>
      obtain ⟨w, shift', np', hw, hl, hr, _, _⟩ := pass1_cons_ok h
      obtain ⟨ws1, hws, rfl⟩ := v1_of_opWidth hw
      obtain ⟨args, hro⟩ := readOperands_total ws1 tail (v1_supported hws) hl
      simp at hf
      obtain ⟨is', hrec⟩ := ih _ _ _ _ _ hr f1 (by simp; omega)
      exact ⟨⟨i, b.toNat, args⟩ :: is', by rw [decodeAllAux]; simp only [hws, hro, hrec]⟩

theorem pass1_no_panic : ∀ (f : Nat) (rest : Bytes) (i shift : Nat), rest.length < f →
    (pass1 f rest i shift).isPanic = false := by
  intro f
  induction f with
  | zero => intro rest i shift h; omega
  | succ f ih =>
    intro rest i shift hf
    cases rest with
    | nil => simp [pass1, Res.isPanic]
    | cons b tail =>
      simp at hf
      rw [pass1]
      cases hw : opWidthTable[b.toNat]? with
      | none => simp [Res.isPanic]
      | some w =>
        simp only
        by_cases hl : tail.length < w
        · simp [hl, Res.isPanic]
        · simp only [hl, if_false]
          by_cases hj : isJumpClass b.toNat = true
          · have ⟨ws2, h2⟩ : ∃ ws2, opcodeOperands b.toNat = some ws2 := by
              rcases jump_shape hj with ⟨_, h2, _⟩ | ⟨_, h2, _⟩ <;> exact ⟨_, h2⟩
            simp only [hj, if_true, h2]
            have := ih (tail.drop w) (i + (w + 1)) (shift + ws2.sum - w) (by simp; omega)
            cases hr : pass1 f (tail.drop w) (i + (w + 1)) (shift + ws2.sum - w) <;> simp_all [Res.isPanic]
          · have hj' : isJumpClass b.toNat = false := by simpa using hj
            simp only [hj', Bool.false_eq_true, if_false]
            have := ih (tail.drop w) (i + (w + 1)) shift (by simp; omega)
            cases hr : pass1 f (tail.drop w) (i + (w + 1)) shift <;> simp_all [Res.isPanic]

/-! ### the first loop -/

theorem hasJump_no_panic : ∀ (f : Nat) (rest : Bytes), rest.length < f → (hasJumpLoop f rest).isPanic = false := by
  intro f
  induction f with
  | zero => intro rest h; omega
  | succ f ih =>
    intro rest hf
    cases rest with
    | nil => simp [hasJumpLoop, Res.isPanic]
    | cons b tail =>
      simp at hf
      rw [hasJumpLoop]
      split
      · simp [Res.isPanic]
      · split
        · simp [Res.isPanic]
        · exact ih _ (by simp; omega)

/-- a stream without re-encoded opcodes: the first pass leaves every offset where it is and the
    stream reads the same under both tables -/
theorem nojump_spec : ∀ (f1 : Nat) (rest : Bytes) (i shift : Nat) (is : List Instr) (f f2 : Nat),
    decodeAllAux V1.opcodeOperands f1 rest i = some is → hasJumpLoop f rest = .ok false →
    rest.length < f2 →
    decodeAllAux opcodeOperands f1 rest i = some is ∧
    ∃ np, pass1 f2 rest i shift = .ok (np, shift) ∧ ∀ j x, np[j]? = some x → x = i + j + shift := by
  intro f1
  induction f1 with
  | zero => intro rest i shift is f f2 h; simp [decodeAllAux] at h
  | succ f1 ih =>
    intro rest i shift is f f2 h hh hf
    cases f2 with
    | zero => omega
    | succ f2 =>
    cases rest with
    | nil =>
      simp [decodeAllAux] at h; subst h
      refine ⟨by simp [decodeAllAux], [i + shift], by simp [pass1], ?_⟩
      intro j x hx
      cases j with
      | zero => simp at hx; omega
      | succ j => simp at hx
    | cons b tail =>
      obtain ⟨ws1, args, is', hws, hro, hsum, hrec, rfl⟩ := decodeV1_cons h
      have hw := opWidth_of_v1 hws
      cases f with
      | zero => simp [hasJumpLoop] at hh
      | succ f =>
      rw [hasJumpLoop] at hh
      by_cases hj : isJumpClass b.toNat = true
      · simp [hj] at hh
      · have hj' : isJumpClass b.toNat = false := by simpa using hj
        simp only [hj', Bool.false_eq_true, if_false, hw] at hh
        have h2 := nonjump_same hj' hws
        simp at hf
        have hnl : ¬ tail.length < ws1.sum := by omega
        obtain ⟨hd, np', hp, hnp⟩ := ih (tail.drop ws1.sum) (i + (ws1.sum + 1)) shift is' f f2 hrec hh (by simp; omega)
        refine ⟨by rw [decodeAllAux]; simp only [h2, hro, hd], ((List.range (1 + ws1.sum)).map (fun k => i + k + shift) ++ np'), by
          rw [pass1]; simp only [hw, hnl, hj', hp, if_false, Bool.false_eq_true], ?_⟩
        intro j x hx
        rw [List.getElem?_append] at hx
        split at hx
        · exact (seg_getElem? _ _ _ _ _ hx).2
        · rename_i hlt
          simp at hlt
          have := hnp _ _ hx
          simp at this
          omega

theorem hasJump_of_decodable : ∀ (f1 : Nat) (rest : Bytes) (i : Nat) (is : List Instr) (f : Nat),
    decodeAllAux V1.opcodeOperands f1 rest i = some is → rest.length < f →
    ∃ b, hasJumpLoop f rest = .ok b := by
  intro f1
  induction f1 with
  | zero => intro rest i is f h; simp [decodeAllAux] at h
  | succ f1 ih =>
    intro rest i is f h hf
    cases f with
    | zero => omega
    | succ f =>
    cases rest with
    | nil => exact ⟨false, by simp [hasJumpLoop]⟩
    | cons b tail =>
      obtain ⟨ws1, args, is', hws, hro, hsum, hrec, rfl⟩ := decodeV1_cons h
      have hw := opWidth_of_v1 hws
      simp at hf
      rw [hasJumpLoop]
      by_cases hj : isJumpClass b.toNat = true
      · exact ⟨true, by simp [hj]⟩
      · have hj' : isJumpClass b.toNat = false := by simpa using hj
        simp only [hj', Bool.false_eq_true, if_false, hw]
        exact ih _ _ _ _ hrec (by simp; omega)

end UgoVerif.Proofs.V1
