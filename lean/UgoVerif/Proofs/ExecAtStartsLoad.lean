import UgoVerif.Proofs.ExecAtStartsRun
import UgoVerif.Proofs.C16Bridge
/-
  Control-flow integrity, part 6: the loader.  The VM state a compile-model bytecode is loaded
  into (`Eval.setBytecode` on a new VM) satisfies `Safe0` when every function of the bytecode
  (function constants and main, `fnList`) has well-formed code: every function cell of the loaded
  heap names a code of the code memory, the code memory is `fnList bc` in order (`load_codes`),
  the frame array is the empty one.
-/
namespace UgoVerif.Proofs.C16
open UgoVerif UgoVerif.Go UgoVerif.Model UgoVerif.Compile UgoVerif.VM UgoVerif.VM.Cfi UgoVerif.Eval

/-- every function cell names a code of the code memory -/
def FnIdx (vm : State) : Prop :=
  ∀ (a c : Nat) (fr : Option (List Addr)), vm.heap[a]? = some (Cell.fn c fr) → c < vm.codes.size

theorem fnIdx_allocFn {vm : State} (h : FnIdx vm) (f : CFn) : FnIdx (allocFn vm f).2 := by
  intro a c fr hx
  have hx' : (vm.heap.push (Cell.fn vm.codes.size none))[a]? = some (Cell.fn c fr) := hx
  show c < (vm.codes.push (codeOfCFn f)).size
  rw [Array.size_push]
  rcases (push_fn_iff vm.heap _ a c fr).mp hx' with h1 | ⟨_, h2⟩
  · have := h a c fr h1; omega
  · cases h2; omega

theorem materialize_fnIdx : ∀ (cs : List Const) (acc : Array V × State), FnIdx acc.2 →
    FnIdx (cs.foldl (fun (acc : Array V × State) c =>
      match c with
      | .val v => (acc.1.push (scalarOfCVal v), acc.2)
      | .fn f => let (v, vm') := allocFn acc.2 f; (acc.1.push v, vm')) acc).2
  | [], acc, h => h
  | .val v :: r, acc, h => by
    simp only [List.foldl_cons]
    exact materialize_fnIdx r _ h
  | .fn f :: r, acc, h => by
    simp only [List.foldl_cons]
    exact materialize_fnIdx r _ (fnIdx_allocFn h f)

theorem load_fnIdx (bc : Compile.Bytecode) :
    FnIdx (Eval.setBytecode (newState #[] #[] #[] 0 0) bc.main 0 bc.constants #[]) := by
  unfold Eval.setBytecode
  simp only [List.drop_zero]
  have h0 : FnIdx (newState #[] #[] #[] 0 0) := by
    intro a c fr hx
    simp [newState] at hx
  have h1 : FnIdx (materialize (newState #[] #[] #[] 0 0) bc.constants.toList).2 :=
    materialize_fnIdx bc.constants.toList (#[], newState #[] #[] #[] 0 0) h0
  exact fnIdx_allocFn h1 bc.main

theorem load_frames_eq (bc : Compile.Bytecode) :
    (Eval.setBytecode (newState #[] #[] #[] 0 0) bc.main 0 bc.constants #[]).frames = emptyFrames := by
  unfold Eval.setBytecode
  simp only [List.drop_zero]
  show ((allocFn (materialize _ bc.constants.toList).2 bc.main).2.frames) = _
  have : (allocFn (materialize (newState #[] #[] #[] 0 0) bc.constants.toList).2 bc.main).2.frames
      = (materialize (newState #[] #[] #[] 0 0) bc.constants.toList).2.frames := rfl
  have h3 : (materialize (newState #[] #[] #[] 0 0) bc.constants.toList).2.frames
      = (newState #[] #[] #[] 0 0).frames :=
    materialize_frames bc.constants.toList (#[], newState #[] #[] #[] 0 0)
  rw [this, h3]
  rfl

theorem emptyFrames_get (i : Nat) : emptyFrames[i]! = (default : Frame) := by
  by_cases h : i < frameSize
  · simp [emptyFrames, h]; rfl
  · simp [emptyFrames, h]

/-- **the loaded VM is `Safe0`** when every function of the bytecode has well-formed code -/
theorem safe0_loaded (bc : Compile.Bytecode) (hwf : ∀ g ∈ fnList bc, WfCode (codeOfCFn g)) :
    Safe0 (Eval.setBytecode (newState #[] #[] #[] 0 0) bc.main 0 bc.constants #[]) := by
  refine ⟨?_, rfl, load_frames bc, ?_⟩
  · intro a c fr hx
    have hc := load_fnIdx bc a c fr hx
    have hcodes := load_codes bc
    generalize (Eval.setBytecode (newState #[] #[] #[] 0 0) bc.main 0 bc.constants #[]).codes = codes at hc hcodes
    have h1 : codes.toList[c]? = some (codes[c]!) := by
      rw [Array.getElem?_toList, getElem!_pos codes c hc]
      simp [hc]
    rw [hcodes, List.getElem?_map] at h1
    cases hg : (fnList bc)[c]? with
    | none => rw [hg] at h1; cases h1
    | some g =>
      rw [hg] at h1
      simp only [Option.map_some, Option.some.injEq] at h1
      rw [← h1]
      exact hwf g (List.mem_of_getElem? hg)
  · intro i
    rw [load_frames_eq, emptyFrames_get]
    exact frOK_default _ _ _

end UgoVerif.Proofs.C16
