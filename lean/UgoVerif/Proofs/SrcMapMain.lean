import UgoVerif.Proofs.SrcMapLeaf
import UgoVerif.Proofs.CompileMain
import UgoVerif.Spec.AstLab
/-
  C16, compile side: every function of the compiler's mutual block keeps the source-map invariant
  (`Tr`), for all ASTs that are labelled one statement per label (`labS`): strong induction on the
  size of the AST, as in Proofs/CompileMain.lean.
  Expressions: from `pend l` to `pend l` (every position they record has label `l`).
  Statements: from `clean` to `clean` (a statement never ends in a call).
-/
namespace UgoVerif.Compile
open UgoVerif UgoVerif.Go UgoVerif.Ast

variable {lab : Nat → Nat}

/-- the result of an action satisfies `P` -/
def Ret {α} (P : α → Prop) (m : CM α) : Prop := ∀ s a s', runCM m s = (.ok a, s') → P a

theorem Ret.pure {α} {P : α → Prop} {a : α} (h : P a) : Ret P (Pure.pure a : CM α) := by
  intro s a' s' hr; rw [runCM_pure] at hr; cases hr; exact h

theorem Ret.bind {α β} {P : β → Prop} (m : CM α) {f : α → CM β} (hf : ∀ a, Ret P (f a)) : Ret P (m >>= f) := by
  intro s b s2 hr
  rw [runCM_bind] at hr
  cases hm : runCM m s with
  | mk r s1 =>
    rw [hm] at hr
    cases r with
    | ok a => exact hf a s1 b s2 hr
    | error e => cases hr

theorem Tr.bind_ret {α β} {ps : List Nat} {X Y Z : Mode} {R : α → List Nat} {R' : β → List Nat} {m : CM α} {f : α → CM β}
    {P : α → Prop} (hm : Tr lab ps X Y R m) (hr : Ret P m) (hf : ∀ a, P a → Tr lab (R a ++ ps) Y Z R' (f a)) :
    Tr lab ps X Z R' (m >>= f) := by
  apply Tr.intro'
  intro s hI hT hps
  apply Post.bind
  intro a s1 hrun
  obtain ⟨hI1, hT1, hk1, hR1⟩ := hm.elim s hI hT hps a s1 hrun
  have hps1 : ∀ p ∈ R a ++ ps, p ∈ keys s1.sourceMap := by
    intro p hp
    rcases List.mem_append.mp hp with hp | hp
    · exact hR1 p hp
    · exact hk1 p (hps p hp)
  intro b s2 hr2
  obtain ⟨hI2, hT2, hk2, hR2⟩ := (hf a (hr s a s1 hrun)).elim s1 hI1 hT1 hps1 b s2 hr2
  exact ⟨hI2, hT2, fun p hp => hk2 p (hk1 p hp), hR2⟩

abbrev TrE (lab : Nat → Nat) (l : Nat) {α} (m : CM α) : Prop := ∀ ps, Tr lab ps (.pend l) (.pend l) R0 m
abbrev TrS (lab : Nat → Nat) {α} (m : CM α) : Prop := ∀ ps, Tr lab ps .clean .clean R0 m

/-- the induction hypothesis: everything of size `< n` is fine -/
structure AllTr (lab : Nat → Nat) (n : Nat) : Prop where
  expr : ∀ e l, sizeOf e < n → labE lab l e = true → TrE lab l (compileExpr e)
  exprs : ∀ es l, sizeOf es < n → labEs lab l es = true → TrE lab l (compileExprs es)
  mapElems : ∀ pos ms l, sizeOf ms < n → lab pos = l → labMs lab l ms = true → TrE lab l (compileMapElems pos ms)
  indexChain : ∀ e self l, sizeOf e < n → labE lab l e = true → TrE lab l self → TrE lab l (compileIndexChain e self)
  selChain : ∀ e l, sizeOf e < n → labE lab l e = true → TrE lab l (compileSelChain e)
  stmts : ∀ ss, sizeOf ss < n → labSs lab ss = true → TrS lab (compileStmts ss)
  defineAssign : ∀ pos lhs kw op allow l, sizeOf lhs < n → labE lab l lhs = true → lab pos = l →
    ∀ ps, Tr lab ps (.pend l) .clean R0 (compileDefineAssign pos lhs kw op allow)
  destructure : ∀ pos kw op num tmp es k found l, sizeOf es < n → labEs lab l es = true → lab pos = l →
    TrS lab (compileDestructure pos kw op num tmp es k found)
  valueIdents : ∀ pos tok ids vals last l, sizeOf vals < n → labVals lab l vals = true → lab pos = l → LastTr lab l last →
    TrS lab (compileValueIdents pos tok ids vals last) ∧ Ret (LastTr lab l) (compileValueIdents pos tok ids vals last)
  valueSpecs : ∀ pos tok specs last l, sizeOf specs < n → labSpecs lab l specs = true → lab pos = l → LastTr lab l last →
    TrS lab (compileValueSpecs pos tok specs last)
  stmt : ∀ st, sizeOf st < n → labS lab st = true → TrS lab (compileStmt st)

/-- size side conditions -/
syntax "szz" : tactic
macro_rules | `(tactic| szz) => `(tactic| (simp at *; omega))

theorem tstep_exprs {n : Nat} (ih : AllTr lab n) : ∀ es l, sizeOf es < n + 1 → labEs lab l es = true →
    TrE lab l (compileExprs es)
  | [], _, _, _ => by intro ps; unfold compileExprs; tr_e
  | e :: r, l, hsz, hl => by
    simp only [labEs, Bool.and_eq_true] at hl
    have h1 := ih.expr e l (by szz) hl.1
    have h2 := ih.exprs r l (by szz) hl.2
    intro ps; unfold compileExprs; tr_e

theorem tstep_mapElems {n : Nat} (ih : AllTr lab n) (pos : Pos) : ∀ ms l, sizeOf ms < n + 1 → lab pos = l →
    labMs lab l ms = true → TrE lab l (compileMapElems pos ms)
  | [], _, _, _, _ => by intro ps; unfold compileMapElems; tr_e
  | (k, v) :: r, l, hsz, hp, hl => by
    simp only [labMs, Bool.and_eq_true] at hl
    have h1 := ih.expr v l (by szz) hl.1
    have h2 := ih.mapElems pos r l (by szz) hp hl.2
    have h3 := fun (ps' : List Nat) (c : CVal) => tr_emitConstant_pend (lab := lab) (ps := ps') pos c hp
    intro ps; unfold compileMapElems; tr_e

theorem tstep_stmts {n : Nat} (ih : AllTr lab n) : ∀ ss, sizeOf ss < n + 1 → labSs lab ss = true → TrS lab (compileStmts ss)
  | [], _, _ => by intro ps; unfold compileStmts; tr_e
  | s :: r, hsz, hl => by
    simp only [labSs, Bool.and_eq_true] at hl
    have h1 := ih.stmt s (by szz) hl.1
    have h2 := ih.stmts r (by szz) hl.2
    intro ps; unfold compileStmts; tr_e

theorem tstep_indexChain {n : Nat} (ih : AllTr lab n) (e : Expr) (self : CM Unit) (l : Nat) (hsz : sizeOf e < n + 1)
    (hl : labE lab l e = true) (hself : TrE lab l self) : TrE lab l (compileIndexChain e self) := by
  cases e with
  | index p e' i =>
    simp only [labE, Bool.and_eq_true, beq_iff_eq] at hl
    have h0 := ih.expr e' l (by szz) hl.1.2
    have h1 := ih.indexChain e' (compileExpr e') l (by szz) hl.1.2 h0
    have h2 := ih.expr i l (by szz) hl.2
    intro ps; unfold compileIndexChain; tr_e
  | _ => intro ps; unfold compileIndexChain; tr_e

theorem tstep_selChain {n : Nat} (ih : AllTr lab n) (e : Expr) (l : Nat) (hsz : sizeOf e < n + 1)
    (hl : labE lab l e = true) : TrE lab l (compileSelChain e) := by
  cases e with
  | selector p e' s' =>
    simp only [labE, Bool.and_eq_true, beq_iff_eq] at hl
    have h1 := ih.selChain e' l (by szz) hl.1.2
    have h2 := ih.expr s' l (by szz) hl.2
    intro ps; unfold compileSelChain; tr_e
  | index p e' i =>
    simp only [labE, Bool.and_eq_true, beq_iff_eq] at hl
    have h1 := ih.selChain e' l (by szz) hl.1.2
    have h2 := ih.expr i l (by szz) hl.2
    intro ps; unfold compileSelChain; tr_e
  | _ => intro ps; unfold compileSelChain; tr_e

theorem tstep_expr {n : Nat} (ih : AllTr lab n) (e : Expr) (l : Nat) (hsz : sizeOf e < n + 1)
    (hl : labE lab l e = true) : TrE lab l (compileExpr e) := by
  cases e with
  | paren _ e =>
    rw [labE] at hl
    have := ih.expr e l (by szz) hl
    intro ps; unfold compileExpr; exact this ps
  | binary pos tok x y =>
    simp only [labE, Bool.and_eq_true, beq_iff_eq] at hl
    obtain ⟨⟨hp, hx⟩, hy⟩ := hl
    have h1 := ih.expr x l (by szz) hx
    have h2 := ih.expr y l (by szz) hy
    intro ps; unfold compileExpr; tr_e
  | int pos v =>
    simp only [labE, beq_iff_eq] at hl
    have h3 := fun (ps' : List Nat) (c : CVal) => tr_emitConstant_pend (lab := lab) (ps := ps') pos c hl
    intro ps; unfold compileExpr; tr_e
  | uint pos v =>
    simp only [labE, beq_iff_eq] at hl
    have h3 := fun (ps' : List Nat) (c : CVal) => tr_emitConstant_pend (lab := lab) (ps := ps') pos c hl
    intro ps; unfold compileExpr; tr_e
  | float pos v =>
    simp only [labE, beq_iff_eq] at hl
    have h3 := fun (ps' : List Nat) (c : CVal) => tr_emitConstant_pend (lab := lab) (ps := ps') pos c hl
    intro ps; unfold compileExpr; tr_e
  | bool pos b =>
    simp only [labE, beq_iff_eq] at hl
    intro ps; unfold compileExpr; tr_e
  | str pos v =>
    simp only [labE, beq_iff_eq] at hl
    have h3 := fun (ps' : List Nat) (c : CVal) => tr_emitConstant_pend (lab := lab) (ps := ps') pos c hl
    intro ps; unfold compileExpr; tr_e
  | char pos v =>
    simp only [labE, beq_iff_eq] at hl
    have h3 := fun (ps' : List Nat) (c : CVal) => tr_emitConstant_pend (lab := lab) (ps := ps') pos c hl
    intro ps; unfold compileExpr; tr_e
  | undef pos =>
    simp only [labE, beq_iff_eq] at hl
    intro ps; unfold compileExpr; tr_e
  | unary pos tok e =>
    simp only [labE, Bool.and_eq_true, beq_iff_eq] at hl
    obtain ⟨hp, he⟩ := hl
    have := ih.expr e l (by szz) he
    intro ps; unfold compileExpr; tr_e
  | ident pos name =>
    simp only [labE, beq_iff_eq] at hl
    intro ps; unfold compileExpr; exact tr_compileIdent_pend pos name hl
  | array pos es =>
    simp only [labE, Bool.and_eq_true, beq_iff_eq] at hl
    obtain ⟨hp, he⟩ := hl
    have := ih.exprs es l (by szz) he
    intro ps; unfold compileExpr; tr_e
  | map pos ms =>
    simp only [labE, Bool.and_eq_true, beq_iff_eq] at hl
    obtain ⟨hp, he⟩ := hl
    have := ih.mapElems pos ms l (by szz) hp he
    intro ps; unfold compileExpr; tr_e
  | selector pos e sel =>
    simp only [labE, Bool.and_eq_true, beq_iff_eq] at hl
    obtain ⟨⟨hp, he⟩, hs⟩ := hl
    have h0 := ih.expr e l (by szz) he
    have h1 := ih.indexChain e (compileExpr e) l (by szz) he h0
    have h2 := ih.expr sel l (by szz) hs
    intro ps; unfold compileExpr; tr_e
  | index pos e i =>
    simp only [labE, Bool.and_eq_true, beq_iff_eq] at hl
    obtain ⟨⟨hp, he⟩, hs⟩ := hl
    have h0 := ih.expr e l (by szz) he
    have h1 := ih.indexChain e (compileExpr e) l (by szz) he h0
    have h2 := ih.expr i l (by szz) hs
    intro ps; unfold compileExpr; tr_e
  | slice pos e lo hi =>
    unfold labE at hl
    simp only [Bool.and_eq_true, beq_iff_eq] at hl
    obtain ⟨⟨⟨hp, he⟩, hlo⟩, hhi⟩ := hl
    have h0 := ih.expr e l (by szz) he
    have h1 : TrE lab l (match lo with | some x => compileExpr x | none => emit_ pos OpNull) := by
      cases lo with
      | none => intro ps; tr_e
      | some x => exact ih.expr x l (by szz) hlo
    have h2 : TrE lab l (match hi with | some x => compileExpr x | none => emit_ pos OpNull) := by
      cases hi with
      | none => intro ps; tr_e
      | some x => exact ih.expr x l (by szz) hhi
    intro ps; unfold compileExpr; tr_e
  | func pos variadic params bp body =>
    simp only [labE, Bool.and_eq_true, beq_iff_eq] at hl
    obtain ⟨hp, hb⟩ := hl
    have hbody := ih.stmts body (by szz) hb
    have hblock : TrS lab (blockOf body (compileStmts body)) := fun ps' => tr_blockOf hbody
    intro ps; unfold compileExpr
    apply Tr.intro'
    intro s hI hT hps
    apply Post.bind
    refine (post_withFn pos variadic params hblock s hI).mono ?_
    rintro ⟨fn, ft⟩ s1 ⟨hI1, hi, hsm, hfn⟩
    have hrest : Tr lab ps (.pend l) (.pend l) R0 (do
        emitFreePtrs pos ft.frees
        if fn.numLocals > 256 then throw (.err pos "SymbolLimitError: number of local symbols exceeds the limit")
        else emitFnConstant pos fn ft.frees.length) := by
      have h1 := fun (ps' : List Nat) => tr_emitFreePtrs_pend (lab := lab) (ps := ps') pos hp ft.frees
      have h2 := fun (ps' : List Nat) => tr_emitFnConstant_pend (lab := lab) (ps := ps') pos fn ft.frees.length hfn hp
      tr_e
    refine (hrest.elim s1 hI1 (by rw [hi, hsm]; exact hT) (by rw [hsm]; exact hps)).mono ?_
    intro _ s2 ⟨hI2, hT2, hk2, hR2⟩
    exact ⟨hI2, hT2, by rw [← hsm]; exact hk2, hR2⟩
  | call pos ell f args =>
    simp only [labE, Bool.and_eq_true, beq_iff_eq] at hl
    obtain ⟨⟨hp, hf⟩, ha⟩ := hl
    have h1 := ih.exprs args l (by szz) ha
    have h2 := ih.expr f l (by szz) hf
    intro ps; unfold compileExpr
    split
    · rename_i p se ssel
      simp only [labE, Bool.and_eq_true, beq_iff_eq] at hf
      have h3 := ih.expr se l (by szz) hf.1.2
      have h4 := ih.expr ssel l (by szz) hf.2
      tr_e
    · tr_e
  | import_ pos name => intro ps; unfold compileExpr; tr_e
  | cond pos c t f =>
    simp only [labE, Bool.and_eq_true, beq_iff_eq] at hl
    obtain ⟨⟨⟨hp, hc⟩, ht⟩, hf⟩ := hl
    have h1 := ih.expr c l (by szz) hc
    have h2 := ih.expr t l (by szz) ht
    have h3 := ih.expr f l (by szz) hf
    intro ps; unfold compileExpr; tr_e

theorem tstep_defineAssign {n : Nat} (ih : AllTr lab n) (pos : Pos) (lhs : Expr) (kw op : Nat) (allow : Bool) (l : Nat)
    (hsz : sizeOf lhs < n + 1) (hl : labE lab l lhs = true) (hp : lab pos = l) :
    ∀ ps, Tr lab ps (.pend l) .clean R0 (compileDefineAssign pos lhs kw op allow) := by
  have hd := fun (ps' : List Nat) => tr_compileDefine_pc (lab := lab) (ps := ps') pos (lhsName lhs) allow kw hp
  have ha := fun (ps' : List Nat) (sym : Symbol) => tr_compileAssignSym_pc (lab := lab) (ps := ps') pos sym (lhsName lhs) hp
  cases lhs with
  | selector p e last =>
    simp only [labE, Bool.and_eq_true, beq_iff_eq] at hl
    have h1 := ih.selChain e l (by szz) hl.1.2
    have h2 := ih.expr last l (by szz) hl.2
    intro ps; unfold compileDefineAssign; tr_s
  | index p e last =>
    simp only [labE, Bool.and_eq_true, beq_iff_eq] at hl
    have h1 := ih.selChain e l (by szz) hl.1.2
    have h2 := ih.expr last l (by szz) hl.2
    intro ps; unfold compileDefineAssign; tr_s
  | _ => intro ps; unfold compileDefineAssign; tr_s

theorem tstep_destructure {n : Nat} (ih : AllTr lab n) (pos : Pos) (kw op num : Nat) (tmp : Int) (l : Nat) (hp : lab pos = l) :
    ∀ es k found, sizeOf es < n + 1 → labEs lab l es = true → TrS lab (compileDestructure pos kw op num tmp es k found)
  | [], _, _, _, _ => by intro ps; unfold compileDestructure; tr_s
  | e :: rest, k, found, hsz, hl => by
    simp only [labEs, Bool.and_eq_true] at hl
    have h1 := ih.defineAssign pos e kw op (kw != tConst) l (by szz) hl.1 hp
    have h2 := fun (found' : Nat) => ih.destructure pos kw op num tmp rest (k + 1) found' l (by szz) hl.2 hp
    have h3 := fun (ps' : List Nat) (c : CVal) => tr_emitConstant_cc (lab := lab) (ps := ps') pos c
    intro ps; unfold compileDestructure; tr_s

theorem tstep_valueIdents {n : Nat} (ih : AllTr lab n) (pos : Pos) (tok : Nat) (l : Nat) (hp : lab pos = l) :
    ∀ ids vals last, sizeOf vals < n + 1 → labVals lab l vals = true → LastTr lab l last →
      TrS lab (compileValueIdents pos tok ids vals last) ∧ Ret (LastTr lab l) (compileValueIdents pos tok ids vals last)
  | [], vals, last, _, _, hlast => by
    constructor
    · intro ps; unfold compileValueIdents; exact Tr.pure _
    · unfold compileValueIdents; exact Ret.pure hlast
  | id :: irest, [], last, _, _, hlast => by
    constructor
    · intro ps; unfold compileValueIdents
      exact Tr.bind (tr_compileIdentsNoValue pos tok hlast hp _ _) fun _ => Tr.pure _
    · unfold compileValueIdents
      exact Ret.bind _ fun _ => Ret.pure hlast
  | (ipos, name) :: irest, v? :: vrest, last, hsz, hl, hlast => by
    unfold labVals at hl
    simp only [Bool.and_eq_true] at hl
    cases v? with
    | some v =>
      have hv := ih.expr v l (by szz) hl.1
      have hlast' : LastTr lab l (some (compileExpr v, vsumOf v)) := by
        intro x hx ps'
        injection hx with hx; subst hx
        exact Tr.pre_clean (hv ps')
      have hrec := ih.valueIdents pos tok irest vrest (some (compileExpr v, vsumOf v)) l (by szz) hl.2 hp hlast'
      constructor
      · intro ps; unfold compileValueIdents
        exact Tr.bind (tr_compileValueIdent pos tok name (fun ps' => Tr.pre_clean (hv ps')) _ hp) fun _ => hrec.1 _
      · unfold compileValueIdents
        exact Ret.bind _ fun _ => hrec.2
    | none =>
      have hrec := ih.valueIdents pos tok irest vrest last l (by szz) hl.2 hp hlast
      constructor
      · intro ps; unfold compileValueIdents
        exact Tr.bind (tr_lastMatch pos tok ipos name hlast hp) fun _ => hrec.1 _
      · unfold compileValueIdents
        exact Ret.bind _ fun _ => hrec.2

theorem tstep_valueSpecs {n : Nat} (ih : AllTr lab n) (pos : Pos) (tok : Nat) (l : Nat) (hp : lab pos = l) :
    ∀ specs last, sizeOf specs < n + 1 → labSpecs lab l specs = true → LastTr lab l last →
      TrS lab (compileValueSpecs pos tok specs last)
  | [], _, _, _, _ => by intro ps; unfold compileValueSpecs; exact Tr.pure _
  | (iota, idents, values) :: rest, last, hsz, hl, hlast => by
    simp only [labSpecs, Bool.and_eq_true] at hl
    have h1 := ih.valueIdents pos tok idents values last l (by szz) hl.1 hp hlast
    intro ps; unfold compileValueSpecs
    apply Tr.bind (Y := .clean) (R := R0)
    · tr_s
    · intro _
      apply Tr.bind_ret (h1.1 _) h1.2
      intro last' hlast'
      exact ih.valueSpecs pos tok rest last' l (by szz) hl.2 hp hlast' _

/-- the optional BINARYOP of a compound assignment, between two expression actions -/
theorem tr_compoundOp {ps : List Nat} {l : Nat} (pos : Pos) (op : Nat) (hp : lab pos = l) :
    Tr lab ps (.pend l) (.pend l) R0
      (match compoundOp op with | some t => emit_ pos OpBinaryOp [t] | none => pure ()) := by
  split
  · exact tr_emit__pend _ _ _ hp
  · exact Tr.pure _

theorem tr_compileAssign {l : Nat} (pos : Pos) (lhs : List Expr) (nrhs : Nat) {rhsAct lhs0Act defAssign0 : CM Unit}
    {destruct : Int → CM Unit} (op : Nat) (hp : lab pos = l) (hr : TrE lab l rhsAct) (h0 : TrE lab l lhs0Act)
    (hd : ∀ ps, Tr lab ps (.pend l) .clean R0 defAssign0) (hdes : ∀ i, TrS lab (destruct i)) :
    TrS lab (compileAssign pos lhs nrhs rhsAct lhs0Act defAssign0 destruct op) := by
  intro ps
  have hc := fun (ps' : List Nat) (c : CVal) => tr_emitConstant_cc (lab := lab) (ps := ps') pos c
  unfold compileAssign
  split
  · apply Tr.cerr
  · split
    · apply Tr.cerr
    · split
      · exact Tr.bind (Tr.pre_clean (h0 _)) fun _ => Tr.bind (hr _) fun _ =>
          Tr.bind (tr_compoundOp pos op hp) fun _ => hd _
      · split
        · tr_s
        · tr_s

theorem tr_optStmt {n : Nat} (ih : AllTr lab n) (o : Option Stmt)
    (hl : (match o with | some i => labS lab i | none => true) = true) (hsz : sizeOf o < n) :
    TrS lab (match o with | some i => compileStmt i | none => pure ()) := by
  cases o with
  | none => intro ps; exact Tr.pure _
  | some i => exact ih.stmt i (by szz) hl

theorem tr_tryIdx {ps : List Nat} {X : Mode} (f : Int → Int) :
    Tr lab ps X X R0 (modify (fun s : CState => { s with tryCatchIndex := f s.tryCatchIndex }) : CM Unit) :=
  Tr.modify fun _ => ⟨rfl, rfl, rfl, rfl⟩

theorem tstep_stmt {n : Nat} (ih : AllTr lab n) (st : Stmt) (hsz : sizeOf st < n + 1) (hl : labS lab st = true) :
    TrS lab (compileStmt st) := by
  cases st with
  | empty pos => intro ps; rw [compileStmt_eq]; simp only; exact Tr.pure _
  | expr pos e =>
    rw [labS] at hl
    have := ih.expr e (lab pos) (by szz) hl
    intro ps; rw [compileStmt_eq]; simp only; tr_s
  | incdec pos tok tokPos e =>
    simp only [labS, Bool.and_eq_true, beq_iff_eq] at hl
    have h1 := ih.expr e (lab pos) (by szz) hl.2
    have h2 := ih.defineAssign pos e tVar (if tok == tDec then tSubAssign else tAddAssign) false (lab pos) (by szz) hl.2 rfl
    intro ps; rw [compileStmt_eq]; simp only
    exact Tr.bind (Tr.pre_clean (h1 _)) fun _ => Tr.bind (tr_emitConstant_pend tokPos _ hl.1) fun _ =>
      Tr.bind (tr_compoundOp pos _ rfl) fun _ => h2 _
  | assign pos tok lhs rhs =>
    simp only [labS, Bool.and_eq_true] at hl
    have h1 := ih.exprs rhs (lab pos) (by szz) hl.2
    rw [compileStmt_eq]; simp only
    cases lhs with
    | nil =>
      apply tr_compileAssign pos [] rhs.length tok rfl h1
      · intro ps; apply Tr.cpanic
      · intro ps; apply Tr.cpanic
      · intro i; exact ih.destructure pos tVar tok _ i [] 0 0 (lab pos) (by szz) hl.1 rfl
    | cons e0 rest =>
      have hl0 := hl.1
      rw [labEs, Bool.and_eq_true] at hl0
      apply tr_compileAssign pos (e0 :: rest) rhs.length tok rfl h1
      · exact ih.expr e0 (lab pos) (by szz) hl0.1
      · exact ih.defineAssign pos e0 tVar tok false (lab pos) (by szz) hl0.1 rfl
      · intro i; exact ih.destructure pos tVar tok _ i (e0 :: rest) 0 0 (lab pos) (by szz) hl.1 rfl
  | block pos body =>
    rw [labS] at hl
    have := ih.stmts body (by szz) hl
    intro ps; rw [compileStmt_eq]; simp only; exact tr_blockOf this
  | if_ pos init cond bp body els =>
    unfold labS at hl
    simp only [Bool.and_eq_true] at hl
    have hinit := tr_optStmt ih init hl.1.1.1 (by szz)
    have hc := ih.expr cond (lab pos) (by szz) hl.1.1.2
    have hb : TrS lab (blockOf body (compileStmts body)) := fun _ => tr_blockOf (ih.stmts body (by szz) hl.1.2)
    have hels : ∀ e, els = some e → TrS lab (compileStmt e) := by
      intro e he; subst he; exact ih.stmt e (by szz) hl.2
    intro ps; rw [compileStmt_eq]; simp only
    apply tr_withBlock
    intro ps'
    apply Tr.bind (hinit _)
    intro _
    split
    · exact hb _
    · cases els with
      | none => simp only; tr_s
      | some e => have := hels e rfl; simp only; tr_s
    · cases els with
      | none => simp only; tr_s
      | some e => have := hels e rfl; simp only; tr_s
  | for_ pos init cond post bp body =>
    unfold labS at hl
    simp only [Bool.and_eq_true] at hl
    have hinit := tr_optStmt ih init hl.1.1.1 (by szz)
    have hpost := tr_optStmt ih post hl.1.2 (by szz)
    have hb : TrS lab (blockOf body (compileStmts body)) := fun _ => tr_blockOf (ih.stmts body (by szz) hl.2)
    have hloop := fun (ps' : List Nat) => tr_withLoop (lab := lab) (ps := ps') hb
    have hcond : ∀ ps', Tr lab ps' .clean .clean (fun o : Option Nat => o.toList)
        (match cond with
         | some c => do compileExpr c; let p ← emit pos OpJumpFalsy [0]; pure (some p)
         | none => pure none) := by
      intro ps'
      cases cond with
      | none => exact Tr.pure_R _ (by simp)
      | some c =>
        have hc := ih.expr c (lab pos) (by szz) hl.1.1.2
        exact Tr.bind (Tr.pre_clean (hc _)) fun _ => Tr.bind (tr_emit_pc _ _ _ rfl (by decide)) fun p =>
          Tr.pure_R _ (by simp)
    intro ps; rw [compileStmt_eq]; simp only; tr_s
  | forin pos key value iter bp body =>
    simp only [labS, Bool.and_eq_true] at hl
    have hit := ih.expr iter (lab pos) (by szz) hl.1
    have hb : TrS lab (blockOf body (compileStmts body)) := fun _ => tr_blockOf (ih.stmts body (by szz) hl.2)
    have hk := fun (ps' : List Nat) (it : Int) (nm : String) =>
      tr_forinVar_cc (lab := lab) (ps := ps') pos it OpIterKey nm (by decide)
    have hv := fun (ps' : List Nat) (it : Int) (nm : String) =>
      tr_forinVar_cc (lab := lab) (ps := ps') pos it OpIterValue nm (by decide)
    have hloop := fun (ps' : List Nat) (it : Int) => tr_withLoop (lab := lab) (ps := ps')
      (body := do forinVar pos it OpIterKey key; forinVar pos it OpIterValue value; blockOf body (compileStmts body))
      (X := .clean) (Y := .clean) (fun ps'' => by tr_s)
    intro ps; rw [compileStmt_eq]; simp only; tr_s
  | branch pos tok => intro ps; rw [compileStmt_eq]; simp only; exact tr_compileBranch_cc pos tok
  | throw pos e =>
    unfold labS at hl
    intro ps; rw [compileStmt_eq]; simp only
    cases e with
    | none => simp only; tr_s
    | some x => have := ih.expr x (lab pos) (by szz) hl; simp only; tr_s
  | return_ pos e =>
    unfold labS at hl
    intro ps; rw [compileStmt_eq]; simp only
    cases e with
    | none => simp only; tr_s
    | some x =>
      have h1 := ih.expr x (lab pos) (by szz) hl
      simp only
      apply Tr.bind (Tr.pre_clean (h1 _)); intro _
      apply Tr.get_bind; intro s0
      apply Tr.bind (Y := .pend (lab pos)) (R := R0)
      · split
        · exact tr_emit__pend _ _ _ rfl
        · exact Tr.pure _
      · intro _; exact tr_emit__pc _ _ _ rfl (by decide)
  | declParam pos specs => intro ps; rw [compileStmt_eq]; simp only; tr_s
  | declGlobal pos specs => intro ps; rw [compileStmt_eq]; simp only; tr_s
  | declValue pos tok specs =>
    rw [labS] at hl
    have h1 := ih.valueSpecs pos tok specs none (lab pos) (by szz) hl rfl (fun x hx => by cases hx)
    have h2 : ∀ ps', Tr lab ps' .clean .clean R0 (modify (fun s : CState => { s with iotaVal := -1 }) : CM Unit) :=
      fun _ => Tr.modify fun _ => ⟨rfl, rfl, rfl, rfl⟩
    intro ps; rw [compileStmt_eq]; simp only; tr_s
  | try_ pos bp body c f =>
    unfold labS at hl
    simp only [Bool.and_eq_true] at hl
    have hbody := ih.stmts body (by szz) hl.1.1
    have hdc := fun (ps' : List Nat) (p : Pos) (nm : String) => tr_defineCatchIdent_cc (lab := lab) (ps := ps') p nm
    have hti := fun (ps' : List Nat) (g : Int → Int) => tr_tryIdx (lab := lab) (ps := ps') (X := .clean) g
    intro ps; rw [compileStmt_eq]; simp only
    cases c with
    | none =>
      cases f with
      | none => simp only; tr_s
      | some fv =>
        obtain ⟨f1, f2, fbody⟩ := fv
        have hf := ih.stmts fbody (by szz) hl.2
        simp only; tr_s
    | some cv =>
      obtain ⟨c1, c2, c3, cbody⟩ := cv
      have hcb := ih.stmts cbody (by szz) hl.1.2
      cases f with
      | none => simp only; tr_s
      | some fv =>
        obtain ⟨f1, f2, fbody⟩ := fv
        have hf := ih.stmts fbody (by szz) hl.2
        simp only; tr_s

theorem allTr (lab : Nat → Nat) : ∀ n, AllTr lab n
  | 0 => ⟨fun _ _ h => by omega, fun _ _ h => by omega, fun _ _ _ h => by omega, fun _ _ _ h => by omega,
          fun _ _ h => by omega, fun _ h => by omega, fun _ _ _ _ _ _ h => by omega,
          fun _ _ _ _ _ _ _ _ _ h => by omega, fun _ _ _ _ _ _ h => by omega, fun _ _ _ _ _ h => by omega,
          fun _ h => by omega⟩
  | n + 1 =>
    have ih := allTr lab n
    ⟨tstep_expr ih, tstep_exprs ih, fun pos ms l => tstep_mapElems ih pos ms l,
     fun e self l h1 h2 h3 => tstep_indexChain ih e self l h1 h2 h3,
     tstep_selChain ih, tstep_stmts ih, fun pos lhs kw op allow l => tstep_defineAssign ih pos lhs kw op allow l,
     fun pos kw op num tmp es k found l h1 h2 h3 => tstep_destructure ih pos kw op num tmp l h3 es k found h1 h2,
     fun pos tok ids vals last l h1 h2 h3 h4 => tstep_valueIdents ih pos tok l h3 ids vals last h1 h2 h4,
     fun pos tok specs last l h1 h2 h3 h4 => tstep_valueSpecs ih pos tok l h3 specs last h1 h2 h4,
     tstep_stmt ih⟩

/-- every statement list labelled one statement per label keeps the source-map invariant -/
theorem tr_compileStmts (lab : Nat → Nat) (ss : List Stmt) (hl : labSs lab ss = true) : TrS lab (compileStmts ss) :=
  (allTr lab (sizeOf ss + 1)).stmts ss (by omega) hl

theorem sinv_initState (lab : Nat → Nat) (builtins : List (String × Nat)) (disabled : List String) :
    SInv lab (initState builtins disabled) ∧ Tm lab .clean (initState builtins disabled).insts (initState builtins disabled).sourceMap :=
  ⟨⟨chain_empty, fun _ h => by simp [initState] at h, fun _ h => by simp [initState] at h⟩, tm_empty⟩

/-- `compileProg` from any state that satisfies the invariant with a stream that does not end in a
    call: the main function and every function constant satisfy `FnSM` -/
theorem post_compileProg (lab : Nat → Nat) (file : List Stmt) (hl : labSs lab file = true) (s : CState)
    (hI : SInv lab s) (hT : Tm lab .clean s.insts s.sourceMap) :
    Post (compileProg file) s fun bc _ => FnSM lab bc.main ∧ ∀ g, Const.fn g ∈ bc.constants.toList → FnSM lab g := by
  unfold compileProg
  apply Post.bind
  refine ((tr_compileStmts lab file hl []).elim s hI hT (fun _ h => by simp at h)).mono ?_
  intro _ s1 ⟨hI1, hT1, _, _⟩
  apply Post.bind
  refine (post_finishFn s1 hI1 hT1).mono ?_
  intro fn s2 ⟨hI2, hfn⟩
  split
  · exact Post.throw
  · apply Post.bind; apply Post.get
    show Post _ s2 _
    apply Post.pure
    exact ⟨hfn, hI2.consts⟩

end UgoVerif.Compile
