import UgoVerif.Model.Sym
/-
  Helper lemmas for C13: the invariant of symbol tables ("a BUILTIN symbol lives
  only in a root scope, under its own name, with the index of `BuiltinsMap`, and
  never for a disabled name") is preserved by every operation, on chains and on
  the heap of tables.
-/
set_option linter.unusedSimpArgs false
set_option linter.unusedVariables false
namespace UgoVerif.Proofs.Sym
open UgoVerif.Go UgoVerif.Model.Sym

/-! ### association lists -/

theorem mapGet_mapDelete {β} (m : List (Name × β)) (k k' : Name) :
    mapGet (mapDelete m k) k' = if k = k' then none else mapGet m k' := by
  induction m with
  | nil => simp [mapDelete, mapGet]
  | cons p r ih =>
    obtain ⟨a, v⟩ := p
    unfold mapDelete at ih ⊢
    by_cases h : a = k
    · subst h
      by_cases h2 : a = k'
      · subst h2; simpa [List.filter, mapGet] using ih
      · simpa [List.filter, mapGet, h2] using ih
    · by_cases h2 : k = k'
      · subst h2
        simp only [List.filter, h, ne_eq, not_false_eq_true, decide_true, mapGet, ↓reduceIte]
        simpa using ih
      · simp only [List.filter, h, ne_eq, not_false_eq_true, decide_true, mapGet]
        rw [ih]; simp [h2]

theorem mapGet_mapSet {β} (m : List (Name × β)) (k k' : Name) (v : β) :
    mapGet (mapSet m k v) k' = if k = k' then some v else mapGet m k' := by
  unfold mapSet
  by_cases h : k = k'
  · simp [mapGet, h]
  · simp [mapGet, h, mapGet_mapDelete]

theorem mem_setAdd (s : List Name) (k x : Name) : x ∈ setAdd s k ↔ x ∈ s ∨ x = k := by
  unfold setAdd
  by_cases h : k ∈ s
  · simp only [h, ↓reduceIte]
    constructor
    · exact Or.inl
    · rintro (h1 | h1)
      · exact h1
      · subst h1; exact h
  · simp [h]

/-! ### the invariant -/

def disabledSet (t : Tab) : List Name := t.disabledBuiltins.getD []

/-- a cached builtin symbol is legitimate in the root scope `t` -/
def BuiltinOK (B : Builtins) (t : Tab) (k : Name) (s : Symbol) : Prop :=
  k ∉ disabledSet t ∧ s.name = k ∧ mapGet B k = some s.index.toNat ∧ 0 ≤ s.index

/-- scope invariant: a non-root scope stores no BUILTIN symbol; a root scope only legitimate ones -/
def TabOK (B : Builtins) (isRoot : Bool) (t : Tab) : Prop :=
  ∀ k s, mapGet t.store k = some s → s.scope = .builtin → isRoot = true ∧ BuiltinOK B t k s

def ChainOK (B : Builtins) : Chain → Prop
  | [] => True
  | [r] => TabOK B true r
  | st :: p :: ps => TabOK B false st ∧ ChainOK B (p :: ps)

theorem TabOK.weaken {B : Builtins} {t : Tab} (h : TabOK B false t) : TabOK B true t := by
  intro k s h1 h2
  exact absurd (h k s h1 h2).1 (by simp)

theorem TabOK.congr {B : Builtins} {r : Bool} {t t' : Tab} (hs : t'.store = t.store)
    (hd : t'.disabledBuiltins = t.disabledBuiltins) (h : TabOK B r t) : TabOK B r t' := by
  intro k s h1 h2
  rw [hs] at h1
  have := h k s h1 h2
  simpa [BuiltinOK, disabledSet, hd] using this

theorem TabOK.empty {B : Builtins} {r : Bool} {t : Tab} (hs : t.store = []) : TabOK B r t := by
  intro k s h1; rw [hs] at h1; simp [mapGet] at h1

/-- adding a non-builtin symbol keeps the scope invariant -/
theorem TabOK.set {B : Builtins} {r : Bool} {t t' : Tab} {k : Name} {v : Symbol}
    (hs : t'.store = mapSet t.store k v) (hd : t'.disabledBuiltins = t.disabledBuiltins)
    (hv : v.scope ≠ .builtin) (h : TabOK B r t) : TabOK B r t' := by
  intro k' s h1 h2
  rw [hs, mapGet_mapSet] at h1
  by_cases hk : k = k'
  · simp only [hk, ↓reduceIte, Option.some.injEq] at h1
    subst h1; exact absurd h2 hv
  · simp only [hk, ↓reduceIte] at h1
    have := h k' s h1 h2
    simpa [BuiltinOK, disabledSet, hd] using this

theorem shadowBuiltin_store (B : Builtins) (t : Tab) (n : Name) :
    (shadowBuiltin B t n).store = t.store ∧
    (shadowBuiltin B t n).disabledBuiltins = t.disabledBuiltins := by
  unfold shadowBuiltin; split <;> simp

theorem ChainOK.head {B : Builtins} {st : Tab} {ps : Chain} (h : ChainOK B (st :: ps)) :
    TabOK B (ps.isEmpty) st := by
  cases ps with
  | nil => simpa [ChainOK] using h
  | cons p ps => simpa [ChainOK] using h.1

theorem ChainOK.tail {B : Builtins} {st : Tab} {ps : Chain} (h : ChainOK B (st :: ps)) :
    ChainOK B ps := by
  cases ps with
  | nil => simp [ChainOK]
  | cons p ps => exact h.2

theorem ChainOK.cons {B : Builtins} {st : Tab} {ps : Chain} (h1 : TabOK B (ps.isEmpty) st)
    (h2 : ChainOK B ps) : ChainOK B (st :: ps) := by
  cases ps with
  | nil => simpa [ChainOK] using h1
  | cons p ps => exact ⟨by simpa using h1, h2⟩

/-- the root scope of a chain (`[]` has none) -/
def rootTab : Chain → Option Tab
  | [] => none
  | [r] => some r
  | _ :: p :: ps => rootTab (p :: ps)

theorem root_eq (ch : Chain) : root ch = match rootTab ch with
    | none => nilDeref | some r => .ok r := by
  induction ch with
  | nil => simp [root, rootTab]
  | cons st ps ih =>
    cases ps with
    | nil => simp [root, rootTab]
    | cons p ps => simpa [root, rootTab] using ih

theorem rootTab_cons_ne_nil (st : Tab) {ps : Chain} (h : ps ≠ []) :
    rootTab (st :: ps) = rootTab ps := by
  cases ps with
  | nil => exact absurd rfl h
  | cons p ps => simp [rootTab]

/-- the disabled set that governs a chain -/
def rootDisabled (ch : Chain) : List Name :=
  match rootTab ch with
  | none => []
  | some r => disabledSet r


/-! ### relation between a chain before and after an operation -/

/-- the scope keeps (or extends) its disabled set and its invariant -/
def TabRel (B : Builtins) (isRoot : Bool) (t t' : Tab) : Prop :=
  (∀ n, n ∈ disabledSet t → n ∈ disabledSet t') ∧ (TabOK B isRoot t → TabOK B isRoot t')

def ChainRel (B : Builtins) : Chain → Chain → Prop
  | [], [] => True
  | st :: ps, st' :: ps' => TabRel B ps.isEmpty st st' ∧ ChainRel B ps ps'
  | _, _ => False

theorem TabRel.refl (B : Builtins) (r : Bool) (t : Tab) : TabRel B r t t := ⟨fun _ h => h, id⟩

theorem TabRel.of_same {B : Builtins} {r : Bool} {t t' : Tab} (hs : t'.store = t.store)
    (hd : t'.disabledBuiltins = t.disabledBuiltins) : TabRel B r t t' :=
  ⟨fun n h => by simpa [disabledSet, hd] using h, TabOK.congr hs hd⟩

theorem TabRel.of_set {B : Builtins} {r : Bool} {t t' : Tab} {k : Name} {v : Symbol}
    (hs : t'.store = mapSet t.store k v) (hd : t'.disabledBuiltins = t.disabledBuiltins)
    (hv : v.scope ≠ .builtin) : TabRel B r t t' :=
  ⟨fun n h => by simpa [disabledSet, hd] using h, TabOK.set hs hd hv⟩

theorem TabRel.trans {B : Builtins} {r : Bool} {a b c : Tab} (h1 : TabRel B r a b)
    (h2 : TabRel B r b c) : TabRel B r a c :=
  ⟨fun n h => h2.1 n (h1.1 n h), fun h => h2.2 (h1.2 h)⟩

theorem ChainRel.refl (B : Builtins) : ∀ ch : Chain, ChainRel B ch ch
  | [] => trivial
  | st :: ps => ⟨TabRel.refl B _ st, ChainRel.refl B ps⟩

theorem ChainRel.length {B : Builtins} : ∀ {ch ch' : Chain}, ChainRel B ch ch' → ch'.length = ch.length
  | [], [], _ => rfl
  | _ :: ps, _ :: ps', h => by simp [ChainRel.length (ch := ps) (ch' := ps') h.2]
  | [], _ :: _, h => h.elim
  | _ :: _, [], h => h.elim

theorem ChainRel.isEmpty {B : Builtins} {ch ch' : Chain} (h : ChainRel B ch ch') :
    ch'.isEmpty = ch.isEmpty := by
  have := h.length
  cases ch <;> cases ch' <;> simp_all

theorem ChainRel.trans {B : Builtins} : ∀ {a b c : Chain}, ChainRel B a b → ChainRel B b c → ChainRel B a c
  | [], [], [], _, _ => trivial
  | x :: xs, y :: ys, z :: zs, h1, h2 => by
    refine ⟨TabRel.trans h1.1 ?_, ChainRel.trans h1.2 h2.2⟩
    have := h1.2.isEmpty
    rw [← this]; exact h2.1
  | [], _ :: _, _, h, _ => h.elim
  | _ :: _, [], _, h, _ => h.elim
  | [], [], _ :: _, _, h => h.elim
  | _ :: _, _ :: _, [], _, h => h.elim

theorem ChainRel.ok {B : Builtins} : ∀ {ch ch' : Chain}, ChainRel B ch ch' → ChainOK B ch → ChainOK B ch'
  | [], [], _, _ => trivial
  | st :: ps, st' :: ps', h, hok => by
    have hl := h.2.isEmpty
    refine ChainOK.cons ?_ (ChainRel.ok h.2 hok.tail)
    rw [hl]; exact h.1.2 hok.head
  | [], _ :: _, h, _ => h.elim
  | _ :: _, [], h, _ => h.elim

theorem ChainRel.rootDisabled {B : Builtins} : ∀ {ch ch' : Chain}, ChainRel B ch ch' →
    ∀ n, n ∈ rootDisabled ch → n ∈ rootDisabled ch'
  | [], [], _, n, hn => hn
  | st :: ps, st' :: ps', h, n, hn => by
    cases ps with
    | nil =>
      cases ps' with
      | nil => simpa [Sym.rootDisabled, rootTab] using h.1.1 n (by simpa [Sym.rootDisabled, rootTab] using hn)
      | cons q qs => exact h.2.elim
    | cons p pps =>
      cases ps' with
      | nil => exact h.2.elim
      | cons q qs =>
        have := ChainRel.rootDisabled h.2 n (by simpa [Sym.rootDisabled, rootTab] using hn)
        simpa [Sym.rootDisabled, rootTab] using this
  | [], _ :: _, h, _, _ => h.elim
  | _ :: _, [], h, _, _ => h.elim

/-- head replaced, parents related -/
theorem ChainRel.mk {B : Builtins} {st st' : Tab} {ps ps' : Chain}
    (h1 : TabRel B ps.isEmpty st st') (h2 : ChainRel B ps ps') : ChainRel B (st :: ps) (st' :: ps') :=
  ⟨h1, h2⟩

/-! ### the operations -/

theorem updateMaxDefs_rel (B : Builtins) : ∀ (ps : Chain) (st : Tab) (n : Int) (st' : Tab) (ps' : Chain),
    updateMaxDefs st ps n = .ok (st', ps') →
    st'.store = st.store ∧ st'.disabledBuiltins = st.disabledBuiltins ∧ ChainRel B ps ps' := by
  intro ps
  induction ps with
  | nil =>
    intro st n st' ps' h
    unfold updateMaxDefs at h
    by_cases hb : st.block
    · simp [hb, nilDeref] at h
    · simp only [hb, Bool.false_eq_true, ↓reduceIte, Res.ok.injEq, Prod.mk.injEq] at h
      obtain ⟨h1, h2⟩ := h
      subst h1 h2
      refine ⟨?_, ?_, trivial⟩ <;> split <;> rfl
  | cons p pps ih =>
    intro st n st' ps' h
    unfold updateMaxDefs at h
    by_cases hb : st.block
    · simp only [hb, ↓reduceIte] at h
      cases hr : updateMaxDefs p pps n with
      | panic m => simp [hr, bind, Res.bind] at h
      | err e => simp [hr, bind, Res.bind] at h
      | ok v =>
        obtain ⟨p', pps'⟩ := v
        simp only [hr, bind, Res.bind, pure, Res.ok.injEq, Prod.mk.injEq] at h
        obtain ⟨h1, h2⟩ := h
        subst h1 h2
        obtain ⟨a, b, c⟩ := ih p n p' pps' hr
        refine ⟨?_, ?_, ?_⟩
        · split <;> rfl
        · split <;> rfl
        · refine ChainRel.mk ?_ c
          exact TabRel.of_same a b
    · simp only [hb, Bool.false_eq_true, ↓reduceIte, Res.ok.injEq, Prod.mk.injEq] at h
      obtain ⟨h1, h2⟩ := h
      subst h1 h2
      refine ⟨?_, ?_, ChainRel.refl B _⟩ <;> split <;> rfl

theorem defineNewLocal_spec (B : Builtins) (st : Tab) (ps : Chain) (n : Name) (ch' : Chain) (s : Symbol) (e : Bool)
    (h : defineNewLocal B st ps n = .ok (ch', s, e)) :
    ChainRel B (st :: ps) ch' ∧ s.scope ≠ .builtin ∧ ∃ st2 ps2, ch' = st2 :: ps2 ∧ mapGet st2.store n = some s := by
  unfold defineNewLocal at h
  cases hi : nextIndex (st :: ps) with
  | panic m => simp [hi, bind, Res.bind] at h
  | err e => simp [hi, bind, Res.bind] at h
  | ok idx =>
    simp only [hi, bind, Res.bind] at h
    cases hu : updateMaxDefs { st with numDefinition := st.numDefinition + 1, store := mapSet st.store n { name := n, index := idx, scope := .local } } ps (idx + 1) with
    | panic m => simp [hu] at h
    | err e => simp [hu] at h
    | ok v =>
      obtain ⟨st2, ps2⟩ := v
      simp only [hu, pure, Res.ok.injEq, Prod.mk.injEq] at h
      obtain ⟨h1, h2, h3⟩ := h
      subst h1 h2 h3
      obtain ⟨a, b, c⟩ := updateMaxDefs_rel B ps _ _ _ _ hu
      have hsb := shadowBuiltin_store B st2 n
      refine ⟨ChainRel.mk ?_ c, by simp, _, _, rfl, ?_⟩
      · exact TabRel.of_set (k := n) (v := { name := n, index := idx, scope := .local })
          (by rw [hsb.1, a]) (by rw [hsb.2, b]) (by simp)
      · rw [hsb.1, a]; simp [mapGet_mapSet]

theorem defineLocal_rel (B : Builtins) (ch : Chain) (n : Name) (ch' : Chain) (s : Symbol) (e : Bool)
    (h : defineLocal B ch n = .ok (ch', s, e)) : ChainRel B ch ch' ∧ s.scope ≠ .builtin ∨
      (ChainRel B ch ch' ∧ e = true ∧ ∃ st ps, ch = st :: ps ∧ mapGet st.store n = some s) := by
  cases ch with
  | nil => simp [defineLocal, nilDeref] at h
  | cons st ps =>
    unfold defineLocal at h
    cases hg : mapGet st.store n with
    | some sym =>
      simp only [hg] at h
      split at h
      · have := defineNewLocal_spec B st ps n ch' s e h
        exact Or.inl ⟨this.1, this.2.1⟩
      · simp only [Res.ok.injEq, Prod.mk.injEq] at h
        obtain ⟨h1, h2, h3⟩ := h
        subst h1 h2 h3
        exact Or.inr ⟨ChainRel.refl B _, rfl, st, ps, rfl, hg⟩
    | none =>
      simp only [hg] at h
      have := defineNewLocal_spec B st ps n ch' s e h
      exact Or.inl ⟨this.1, this.2.1⟩

theorem defineFree_rel (B : Builtins) (r : Bool) (st : Tab) (orig : Symbol) :
    TabRel B r st (defineFree B st orig).1 ∧ (defineFree B st orig).2.scope = .free := by
  unfold defineFree
  refine ⟨?_, rfl⟩
  have hsb := shadowBuiltin_store B
    { st with frees := st.frees ++ [orig],
              store := mapSet st.store orig.name
                { name := orig.name, index := ((st.frees ++ [orig]).length : Int) - 1, scope := .free,
                  constant := orig.constant } } orig.name
  exact TabRel.of_set (k := orig.name)
    (v := { name := orig.name, index := ((st.frees ++ [orig]).length : Int) - 1, scope := .free,
            constant := orig.constant })
    (by rw [hsb.1]) (by rw [hsb.2]) (by simp)

theorem resolve_hit (B : Builtins) (st : Tab) (ps : Chain) (n : Name) (sym : Symbol)
    (h : mapGet st.store n = some sym) : resolve B (st :: ps) n = .ok (st :: ps, some sym) := by
  unfold resolve; simp [h]

/-- what `Resolve` guarantees about a BUILTIN answer -/
def BuiltinAnswer (B : Builtins) (ch : Chain) (n : Name) (s : Symbol) : Prop :=
  n ∉ rootDisabled ch ∧ s.name = n ∧ mapGet B n = some s.index.toNat ∧ 0 ≤ s.index

theorem resolve_rel (B : Builtins) (n : Name) : ∀ (ch ch' : Chain) (r : Option Symbol),
    ChainOK B ch → resolve B ch n = .ok (ch', r) →
    ChainRel B ch ch' ∧ (∀ s, r = some s → s.scope = .builtin → BuiltinAnswer B ch n s) := by
  intro ch
  induction ch with
  | nil => intro ch' r _ h; simp [resolve, nilDeref] at h
  | cons st ps ih =>
    intro ch' r hok h
    unfold resolve at h
    cases hg : mapGet st.store n with
    | some sym =>
      simp only [hg, Res.ok.injEq, Prod.mk.injEq] at h
      obtain ⟨h1, h2⟩ := h
      subst h1 h2
      refine ⟨ChainRel.refl B _, ?_⟩
      intro s hs hb
      cases hs
      obtain ⟨hr, hbo⟩ := hok.head n sym hg hb
      have hps : ps = [] := by cases ps <;> simp_all
      subst hps
      simpa [BuiltinAnswer, Sym.rootDisabled, rootTab, BuiltinOK] using hbo
    | none =>
      simp only [hg] at h
      cases ps with
      | nil =>
        by_cases hd : memDisabled st n = true
        · simp only [hd, Bool.not_true, Bool.false_eq_true, ↓reduceIte, Res.ok.injEq, Prod.mk.injEq] at h
          obtain ⟨h1, h2⟩ := h
          subst h1 h2
          exact ⟨ChainRel.refl B _, by intro s hs; cases hs⟩
        · have hd' : memDisabled st n = false := by simpa using hd
          simp only [hd', Bool.not_false, ↓reduceIte] at h
          have hnd : n ∉ disabledSet st := by
            unfold disabledSet
            unfold memDisabled at hd'
            cases hdb : st.disabledBuiltins with
            | none => simp
            | some d => simpa [hdb] using hd'
          cases hb : mapGet B n with
          | none =>
            simp only [hb, Res.ok.injEq, Prod.mk.injEq] at h
            obtain ⟨h1, h2⟩ := h
            subst h1 h2
            exact ⟨ChainRel.refl B _, by intro s hs; cases hs⟩
          | some idx =>
            simp only [hb, Res.ok.injEq, Prod.mk.injEq] at h
            obtain ⟨h1, h2⟩ := h
            subst h1 h2
            refine ⟨⟨⟨fun _ h => h, ?_⟩, trivial⟩, ?_⟩
            · intro hst k s hk hsb
              simp only [mapGet_mapSet] at hk
              by_cases hkn : n = k
              · subst hkn
                simp only [↓reduceIte, Option.some.injEq] at hk
                subst hk
                exact ⟨rfl, by simpa [disabledSet] using hnd, rfl, by simpa using hb, by simp⟩
              · simp only [hkn, ↓reduceIte] at hk
                have := hst k s hk hsb
                simpa [BuiltinOK, disabledSet] using this
            · intro s hs _
              cases hs
              exact ⟨by simpa [Sym.rootDisabled, rootTab] using hnd, rfl, by simpa using hb, by simp⟩
      | cons p pps =>
        cases hr : resolve B (p :: pps) n with
        | panic m => simp [hr] at h
        | err e => simp [hr] at h
        | ok v =>
          obtain ⟨ps', r'⟩ := v
          obtain ⟨hrel, hans⟩ := ih ps' r' hok.tail hr
          have hemp : ps'.isEmpty = (p :: pps).isEmpty := hrel.isEmpty
          cases r' with
          | none =>
            simp only [hr, Res.ok.injEq, Prod.mk.injEq] at h
            obtain ⟨h1, h2⟩ := h
            subst h1 h2
            exact ⟨ChainRel.mk (TabRel.refl B _ _) hrel, by intro s hs; cases hs⟩
          | some symbol =>
            simp only [hr] at h
            split at h
            · simp only [Res.ok.injEq, Prod.mk.injEq] at h
              obtain ⟨h1, h2⟩ := h
              subst h1 h2
              obtain ⟨a, b⟩ := defineFree_rel B (p :: pps).isEmpty st symbol
              refine ⟨ChainRel.mk a hrel, ?_⟩
              intro s hs hsb
              cases hs
              rw [b] at hsb; cases hsb
            · simp only [Res.ok.injEq, Prod.mk.injEq] at h
              obtain ⟨h1, h2⟩ := h
              subst h1 h2
              refine ⟨ChainRel.mk (TabRel.refl B _ _) hrel, ?_⟩
              intro s hs hsb
              have := hans s hs hsb
              simpa [BuiltinAnswer, Sym.rootDisabled, rootTab] using this


theorem defineConstLit_rel (B : Builtins) (ch : Chain) (n : Name) (ch' : Chain) (s : Symbol) (e : Bool)
    (h : defineConstLit B ch n = .ok (ch', s, e)) : ChainRel B ch ch' := by
  cases ch with
  | nil => simp [defineConstLit, nilDeref] at h
  | cons st ps =>
    unfold defineConstLit at h
    cases hg : mapGet st.store n with
    | some sym =>
      simp only [hg, Res.ok.injEq, Prod.mk.injEq] at h
      obtain ⟨h1, _, _⟩ := h
      subst h1
      exact ChainRel.refl B _
    | none =>
      simp only [hg, Res.ok.injEq, Prod.mk.injEq] at h
      obtain ⟨h1, _, _⟩ := h
      subst h1
      refine ChainRel.mk ?_ (ChainRel.refl B _)
      have hsb := shadowBuiltin_store B
        { st with hasConstLit := true,
                  store := mapSet st.store n { name := n, index := -1, scope := .constLit, constant := true } } n
      exact TabRel.of_set (k := n) (v := { name := n, index := -1, scope := .constLit, constant := true })
        (by rw [hsb.1]) (by rw [hsb.2]) (by simp)

theorem defineGlobal_rel (B : Builtins) (q : String) (ch : Chain) (n : Name) (ch' : Chain) (r : GlobalRes)
    (h : defineGlobal B q ch n = .ok (ch', r)) : ChainRel B ch ch' := by
  cases ch with
  | nil => simp [defineGlobal, nilDeref] at h
  | cons st ps =>
    unfold defineGlobal at h
    cases ps with
    | cons p pps =>
      simp only [Res.ok.injEq, Prod.mk.injEq] at h
      obtain ⟨h1, _⟩ := h
      subst h1
      exact ChainRel.refl B _
    | nil =>
      simp only at h
      cases hg : mapGet st.store n with
      | some sym =>
        simp only [hg] at h
        split at h <;>
        · simp only [Res.ok.injEq, Prod.mk.injEq] at h
          obtain ⟨h1, _⟩ := h
          subst h1
          exact ChainRel.refl B _
      | none =>
        simp only [hg, Res.ok.injEq, Prod.mk.injEq] at h
        obtain ⟨h1, _⟩ := h
        subst h1
        refine ChainRel.mk ?_ trivial
        have hsb := shadowBuiltin_store B
          { st with store := mapSet st.store n { name := n, index := -1, scope := .global } } n
        exact TabRel.of_set (k := n) (v := { name := n, index := -1, scope := .global })
          (by rw [hsb.1]) (by rw [hsb.2]) (by simp)

theorem setParamsLoop_rel (B : Builtins) (q : Name → String) : ∀ (params : List Name) (k : Nat) (st : Tab) (ps : Chain)
    (st' : Tab) (ps' : Chain) (e : Option String),
    setParamsLoop B q params k st ps = .ok (st', ps', e) → ChainRel B (st :: ps) (st' :: ps') := by
  intro params
  induction params with
  | nil =>
    intro k st ps st' ps' e h
    simp only [setParamsLoop, Res.ok.injEq, Prod.mk.injEq] at h
    obtain ⟨h1, h2, _⟩ := h
    subst h1 h2
    exact ChainRel.refl B _
  | cons param rest ih =>
    intro k st ps st' ps' e h
    unfold setParamsLoop at h
    cases hg : mapGet st.store param with
    | some sym =>
      simp only [hg, Res.ok.injEq, Prod.mk.injEq] at h
      obtain ⟨h1, h2, _⟩ := h
      subst h1 h2
      exact ChainRel.mk (TabRel.of_same rfl rfl) (ChainRel.refl B _)
    | none =>
      simp only [hg] at h
      cases hi : nextIndex (st :: ps) with
      | panic m => simp [hi, bind, Res.bind] at h
      | err e => simp [hi, bind, Res.bind] at h
      | ok idx =>
        simp only [hi, bind, Res.bind] at h
        cases hu : updateMaxDefs { st with numDefinition := st.numDefinition + 1, store := mapSet st.store param { name := param, index := idx, scope := .local } } ps (idx + 1) with
        | panic m => simp [hu] at h
        | err e => simp [hu] at h
        | ok v =>
          obtain ⟨st2, ps2⟩ := v
          simp only [hu] at h
          obtain ⟨a, b, c⟩ := updateMaxDefs_rel B ps _ _ _ _ hu
          have hsb := shadowBuiltin_store B st2 param
          have h1 : ChainRel B (st :: ps) (shadowBuiltin B st2 param :: ps2) :=
            ChainRel.mk (TabRel.of_set (k := param) (v := { name := param, index := idx, scope := .local })
              (by rw [hsb.1, a]) (by rw [hsb.2, b]) (by simp)) c
          exact ChainRel.trans h1 (ih _ _ _ _ _ _ h)

theorem setParams_rel (B : Builtins) (q : Name → String) (ch : Chain) (ns : List Name) (ch' : Chain)
    (e : Option String) (h : setParams B q ch ns = .ok (ch', e)) : ChainRel B ch ch' := by
  unfold setParams at h
  split at h
  · simp only [Res.ok.injEq, Prod.mk.injEq] at h; obtain ⟨h1, _⟩ := h; subst h1; exact ChainRel.refl B _
  · cases ch with
    | nil => simp [nilDeref] at h
    | cons st ps =>
      simp only at h
      split at h
      · simp only [Res.ok.injEq, Prod.mk.injEq] at h; obtain ⟨h1, _⟩ := h; subst h1; exact ChainRel.refl B _
      · split at h
        · simp only [Res.ok.injEq, Prod.mk.injEq] at h; obtain ⟨h1, _⟩ := h; subst h1; exact ChainRel.refl B _
        · cases hl : setParamsLoop B q ns 0 { st with numParams := (ns.length : Int) } ps with
          | panic m => simp [hl, bind, Res.bind] at h
          | err e => simp [hl, bind, Res.bind] at h
          | ok v =>
            obtain ⟨st2, ps2, e2⟩ := v
            simp only [hl, bind, Res.bind, pure, Res.ok.injEq, Prod.mk.injEq] at h
            obtain ⟨h1, _⟩ := h
            subst h1
            have h1 : ChainRel B (st :: ps) ({ st with numParams := (ns.length : Int) } :: ps) :=
              ChainRel.mk (TabRel.of_same rfl rfl) (ChainRel.refl B _)
            exact ChainRel.trans h1 (setParamsLoop_rel B q _ _ _ _ _ _ _ hl)

theorem enableParams_rel (B : Builtins) (ch : Chain) (v : Bool) (ch' : Chain)
    (h : enableParams ch v = .ok ch') : ChainRel B ch ch' := by
  cases ch with
  | nil => simp [enableParams, nilDeref] at h
  | cons st ps =>
    simp only [enableParams, Res.ok.injEq] at h
    subst h
    exact ChainRel.mk (TabRel.of_same rfl rfl) (ChainRel.refl B _)

/-! ### DisableBuiltin -/

theorem memDisabled_iff (t : Tab) (n : Name) : memDisabled t n = true ↔ n ∈ disabledSet t := by
  unfold memDisabled disabledSet
  cases t.disabledBuiltins <;> simp

theorem disableOne_rel (B : Builtins) (r : Tab) (n : Name) :
    TabRel B true r (disableOne r n) ∧ n ∈ disabledSet (disableOne r n) ∧
    ((disableOne r n).store = r.store ∨ (disableOne r n).store = mapDelete r.store n) := by
  have key : ∀ t : Tab, t.disabledBuiltins = some (setAdd (r.disabledBuiltins.getD []) n) →
      (t.store = r.store ∨ (t.store = mapDelete r.store n)) →
      (t.store = r.store → ∀ s, mapGet r.store n = some s → s.scope ≠ .builtin) →
      TabRel B true r t ∧ n ∈ disabledSet t := by
    intro t hd hs hnb
    refine ⟨⟨?_, ?_⟩, ?_⟩
    · intro x hx
      simp only [disabledSet, hd, Option.getD_some, mem_setAdd]
      exact Or.inl hx
    · intro hok k s hk hsb
      have hk' : mapGet r.store k = some s ∧ k ≠ n := by
        rcases hs with hs | hs
        · rw [hs] at hk
          refine ⟨hk, ?_⟩
          intro hkn; subst hkn
          exact hnb hs s hk hsb
        · rw [hs, mapGet_mapDelete] at hk
          by_cases hnk : n = k
          · simp [hnk] at hk
          · simp only [hnk, ↓reduceIte] at hk
            exact ⟨hk, fun h => hnk h.symm⟩
      obtain ⟨h1, h2, h3⟩ := hok k s hk'.1 hsb
      refine ⟨h1, ?_, h3⟩
      simp only [disabledSet, hd, Option.getD_some, mem_setAdd]
      rintro (hx | hx)
      · exact h2 hx
      · exact hk'.2 hx
    · simp [disabledSet, hd, mem_setAdd]
  unfold disableOne
  cases hg : mapGet r.store n with
  | none =>
    simp only [hg]
    obtain ⟨a, b⟩ := key { r with disabledBuiltins := some (setAdd (r.disabledBuiltins.getD []) n) } rfl (by simp)
      (by intro _ s hs; rw [hg] at hs; cases hs)
    exact ⟨a, b, by simp⟩
  | some s =>
    simp only [hg]
    by_cases hsb : s.scope = .builtin
    · simp only [hsb, ↓reduceIte]
      obtain ⟨a, b⟩ := key { r with disabledBuiltins := some (setAdd (r.disabledBuiltins.getD []) n),
                                    store := mapDelete r.store n } rfl (by simp)
        (by
          intro hst s' hs'
          -- the store did not change: then `n` was not stored at all
          have : mapGet (mapDelete r.store n) n = mapGet r.store n := by
            have h2 : (mapDelete r.store n) = r.store := hst
            rw [h2]
          rw [mapGet_mapDelete] at this
          simp [hs'] at this)
      exact ⟨a, b, by simp⟩
    · simp only [hsb, ↓reduceIte]
      obtain ⟨a, b⟩ := key { r with disabledBuiltins := some (setAdd (r.disabledBuiltins.getD []) n) } rfl (by simp)
        (by intro _ s' hs'; rw [hg] at hs'; cases hs'; exact hsb)
      exact ⟨a, b, by simp⟩

theorem initDisabled_rel (B : Builtins) (r : Tab) : TabRel B true r (initDisabled r) := by
  unfold initDisabled
  split
  · rename_i h
    refine ⟨?_, ?_⟩
    · intro n hn; simp [disabledSet, h] at hn
    · intro hok k s hk hsb
      obtain ⟨h1, h2, h3⟩ := hok k s hk hsb
      exact ⟨h1, by simp [disabledSet], h3⟩
  · exact TabRel.refl B _ _

theorem foldl_disableOne_rel (B : Builtins) : ∀ (ns : List Name) (r : Tab),
    TabRel B true r (ns.foldl disableOne r) ∧ (∀ n ∈ ns, n ∈ disabledSet (ns.foldl disableOne r)) ∧
    (r.store = [] → (ns.foldl disableOne r).store = [])
  | [], r => ⟨TabRel.refl B _ _, by simp, id⟩
  | n :: ns, r => by
    obtain ⟨a, b, c⟩ := disableOne_rel B r n
    obtain ⟨a', b', c'⟩ := foldl_disableOne_rel B ns (disableOne r n)
    refine ⟨TabRel.trans a a', ?_, ?_⟩
    · intro x hx
      simp only [List.mem_cons] at hx
      rcases hx with hx | hx
      · subst hx; exact a'.1 _ b
      · exact b' x hx
    · intro he
      apply c'
      rcases c with c | c
      · rw [c, he]
      · rw [c, he]; rfl

theorem modifyRoot_rel (B : Builtins) (f : Tab → Tab) (hf : ∀ r, TabRel B true r (f r)) :
    ∀ (ch ch' : Chain), modifyRoot f ch = .ok ch' →
      ChainRel B ch ch' ∧ ∀ r, rootTab ch = some r → rootTab ch' = some (f r) := by
  intro ch
  induction ch with
  | nil => intro ch' h; simp [modifyRoot, nilDeref] at h
  | cons st ps ih =>
    intro ch' h
    cases ps with
    | nil =>
      simp only [modifyRoot, Res.ok.injEq] at h
      subst h
      exact ⟨⟨hf st, trivial⟩, by intro r hr; simp only [rootTab, Option.some.injEq] at hr; subst hr; rfl⟩
    | cons p pps =>
      unfold modifyRoot at h
      cases hm : modifyRoot f (p :: pps) with
      | panic m => simp [hm, bind, Res.bind] at h
      | err e => simp [hm, bind, Res.bind] at h
      | ok r' =>
        simp only [hm, bind, Res.bind, pure, Res.ok.injEq] at h
        subst h
        obtain ⟨a, b⟩ := ih r' hm
        refine ⟨ChainRel.mk (TabRel.refl B _ _) a, ?_⟩
        intro r hr
        have hne : r' ≠ [] := by
          intro he; subst he; exact a.elim
        rw [rootTab_cons_ne_nil st hne]
        exact b r (by simpa [rootTab] using hr)

theorem disableBuiltin_rel (B : Builtins) (ch : Chain) (ns : List Name) (ch' : Chain)
    (h : disableBuiltin ch ns = .ok ch') :
    ChainRel B ch ch' ∧ (ch ≠ [] → ∀ n ∈ ns, n ∈ rootDisabled ch') := by
  unfold disableBuiltin at h
  split at h
  · simp only [Res.ok.injEq] at h; subst h
    rename_i hl
    refine ⟨ChainRel.refl B _, ?_⟩
    intro _ n hn
    have : ns = [] := List.eq_nil_of_length_eq_zero hl
    subst this; cases hn
  · obtain ⟨a, b⟩ := modifyRoot_rel B (fun r => ns.foldl disableOne (initDisabled r))
      (fun r => TabRel.trans (initDisabled_rel B r) (foldl_disableOne_rel B ns _).1) ch ch' h
    refine ⟨a, ?_⟩
    intro hne n hn
    cases hr : rootTab ch with
    | none =>
      cases ch with
      | nil => exact absurd rfl hne
      | cons st ps =>
        exfalso
        clear a b h
        induction ps generalizing st with
        | nil => simp [rootTab] at hr
        | cons p pps ih => exact ih p (by intro h; cases h) (by simpa [rootTab] using hr)
    | some r =>
      simp only [Sym.rootDisabled, b r hr]
      exact (foldl_disableOne_rel B ns _).2.1 n hn


/-! ### the heap of tables -/

def HeapOK (B : Builtins) : Heap → Prop
  | [] => True
  | e :: older => (∀ p, e.parent = some p → p < older.length) ∧ TabOK B e.parent.isNone e.tab ∧ HeapOK B older

abbrev tabs (l : List (Nat × Tab)) : Chain := l.map (·.2)

theorem chainOf_eq_nil_iff : ∀ (H : Heap) (id : Nat), chainOf H id = [] ↔ H.length ≤ id
  | [], id => by simp [chainOf]
  | e :: older, id => by
    unfold chainOf
    by_cases h : older.length = id
    · simp [h]
    · simp only [h, ↓reduceIte, List.length_cons]
      rw [chainOf_eq_nil_iff older id]
      omega

theorem chainOf_ok (B : Builtins) : ∀ (H : Heap) (id : Nat), HeapOK B H → ChainOK B (tabs (chainOf H id))
  | [], id, _ => by simp [chainOf, ChainOK]
  | e :: older, id, h => by
    unfold chainOf
    by_cases hid : older.length = id
    · simp only [hid, ↓reduceIte, List.map_cons]
      cases hp : e.parent with
      | none =>
        have := h.2.1
        simp only [hp, Option.isNone_none] at this
        simpa [ChainOK] using this
      | some p =>
        have hlt := h.1 p hp
        have hne : chainOf older p ≠ [] := by
          intro he; rw [chainOf_eq_nil_iff] at he; omega
        have := h.2.1
        simp only [hp, Option.isNone_some] at this
        refine ChainOK.cons ?_ (chainOf_ok B older p h.2.2)
        have : (tabs (chainOf older p)).isEmpty = false := by
          cases hc : chainOf older p with
          | nil => exact absurd hc hne
          | cons a b => simp
        rw [this]; assumption
    · simp only [hid, ↓reduceIte]
      exact chainOf_ok B older id h.2.2

theorem writeChain_length : ∀ (H : Heap) (id : Nat) (ts : List Tab), (writeChain H id ts).length = H.length
  | [], _, _ => rfl
  | e :: older, id, ts => by
    unfold writeChain
    by_cases hid : older.length = id
    · simp only [hid, ↓reduceIte]
      cases ts with
      | nil => rfl
      | cons t ts' =>
        cases hp : e.parent with
        | none => simp
        | some p => simp [writeChain_length older p ts']
    · simp [hid, writeChain_length older id ts]

/-- parents are kept and disabled sets only grow -/
def HeapLe : Heap → Heap → Prop
  | [], [] => True
  | e :: H, e' :: H' => e'.parent = e.parent ∧ (∀ n, n ∈ disabledSet e.tab → n ∈ disabledSet e'.tab) ∧ HeapLe H H'
  | _, _ => False

theorem HeapLe.refl : ∀ H : Heap, HeapLe H H
  | [] => trivial
  | _ :: H => ⟨rfl, fun _ h => h, HeapLe.refl H⟩

theorem HeapLe.length : ∀ {H H' : Heap}, HeapLe H H' → H'.length = H.length
  | [], [], _ => rfl
  | _ :: H, _ :: H', h => by simp [HeapLe.length (H := H) (H' := H') h.2.2]
  | [], _ :: _, h => h.elim
  | _ :: _, [], h => h.elim

theorem writeChain_ok (B : Builtins) : ∀ (H : Heap) (id : Nat) (ts : List Tab), HeapOK B H →
    ChainRel B (tabs (chainOf H id)) ts → HeapOK B (writeChain H id ts) ∧ HeapLe H (writeChain H id ts)
  | [], _, _, _, _ => ⟨trivial, trivial⟩
  | e :: older, id, ts, h, hrel => by
    unfold writeChain
    unfold chainOf at hrel
    by_cases hid : older.length = id
    · simp only [hid, ↓reduceIte, List.map_cons] at hrel ⊢
      cases ts with
      | nil => exact hrel.elim
      | cons t ts' =>
        cases hp : e.parent with
        | none =>
          simp only [hp, List.map_nil] at hrel ⊢
          have hroot := h.2.1
          simp only [hp, Option.isNone_none] at hroot
          refine ⟨⟨by simp [hp], ?_, h.2.2⟩, by simp [hp], hrel.1.1, HeapLe.refl _⟩
          simpa [hp] using hrel.1.2 hroot
        | some p =>
          simp only [hp] at hrel ⊢
          have hlt := h.1 p hp
          have hne : (tabs (chainOf older p)).isEmpty = false := by
            cases hc : chainOf older p with
            | nil => rw [chainOf_eq_nil_iff] at hc; omega
            | cons a b => simp
          obtain ⟨ih1, ih2⟩ := writeChain_ok B older p ts' h.2.2 hrel.2
          have hst := h.2.1
          simp only [hp, Option.isNone_some] at hst
          refine ⟨⟨?_, ?_, ih1⟩, by simp [hp], hrel.1.1, ih2⟩
          · intro q hq
            simp only [hp, Option.some.injEq] at hq
            subst hq
            rw [writeChain_length]; exact hlt
          · have := hrel.1.2
            rw [hne] at this
            simpa [hp] using this hst
    · simp only [hid, ↓reduceIte] at hrel ⊢
      obtain ⟨ih1, ih2⟩ := writeChain_ok B older id ts h.2.2 hrel
      refine ⟨⟨?_, h.2.1, ih1⟩, rfl, fun _ h => h, ih2⟩
      intro q hq
      rw [writeChain_length]; exact h.1 q hq

/-- the disabled set governing every handle only grows along `HeapLe` -/
theorem HeapLe.rootDisabled : ∀ {H H' : Heap}, HeapLe H H' → ∀ (id : Nat) (n : Name),
    n ∈ rootDisabled (tabs (chainOf H id)) → n ∈ rootDisabled (tabs (chainOf H' id))
  | [], [], _, _, _, hn => hn
  | e :: H, e' :: H', h, id, n, hn => by
    have hl := h.2.2.length
    unfold chainOf at hn ⊢
    by_cases hid : H.length = id
    · have hid' : H'.length = id := by omega
      simp only [hid, hid', ↓reduceIte, List.map_cons] at hn ⊢
      rw [h.1]
      cases hp : e.parent with
      | none =>
        simp only [hp, List.map_nil, Sym.rootDisabled, rootTab] at hn ⊢
        exact h.2.1 n hn
      | some p =>
        simp only [hp] at hn ⊢
        cases hc : chainOf H p with
        | nil =>
          have hc' : chainOf H' p = [] := by
            rw [chainOf_eq_nil_iff] at hc ⊢; omega
          simp only [hc, hc', List.map_nil, Sym.rootDisabled, rootTab] at hn ⊢
          exact h.2.1 n hn
        | cons a b =>
          have ih := HeapLe.rootDisabled h.2.2 p n
          cases hc' : chainOf H' p with
          | nil =>
            rw [chainOf_eq_nil_iff] at hc'
            have : chainOf H p = [] := by rw [chainOf_eq_nil_iff]; omega
            rw [this] at hc; cases hc
          | cons a' b' =>
            rw [hc, hc'] at ih
            simp only [hc, hc', List.map_cons, Sym.rootDisabled, rootTab] at hn ih ⊢
            exact ih hn
    · have hid' : ¬ H'.length = id := by omega
      simp only [hid, hid', ↓reduceIte] at hn ⊢
      exact HeapLe.rootDisabled h.2.2 id n hn
  | [], _ :: _, h, _, _, _ => h.elim
  | _ :: _, [], h, _, _, _ => h.elim


/-! ### the evaluator's table (optimizer.go resetCompiler) -/

def addDisabled (r : Tab) (n : Name) : Tab :=
  { r with disabledBuiltins := some (setAdd (r.disabledBuiltins.getD []) n) }

theorem foldl_addDisabled (l : List Name) : ∀ (r : Tab),
    (l.foldl addDisabled r).store = r.store ∧
    ∀ x, x ∈ disabledSet (l.foldl addDisabled r) ↔ x ∈ disabledSet r ∨ x ∈ l := by
  induction l with
  | nil => intro r; simp
  | cons a l ih =>
    intro r
    obtain ⟨h1, h2⟩ := ih (addDisabled r a)
    refine ⟨by rw [List.foldl_cons, h1]; rfl, ?_⟩
    intro x
    rw [List.foldl_cons, h2]
    simp only [addDisabled, disabledSet, Option.getD_some, mem_setAdd, List.mem_cons]
    constructor
    · rintro ((h | h) | h)
      · exact Or.inl h
      · exact Or.inr (Or.inl h)
      · exact Or.inr (Or.inr h)
    · rintro (h | h | h)
      · exact Or.inl (Or.inl h)
      · exact Or.inl (Or.inr h)
      · exact Or.inr h

theorem hasAny_false : ∀ (src : Chain), hasAnyShadowedBuiltins src = false → shadowedAlong src = []
  | [], _ => rfl
  | st :: ps, h => by
    unfold hasAnyShadowedBuiltins at h
    split at h
    · cases h
    · rename_i hl
      have : st.shadowedBuiltins = [] := by
        cases hs : st.shadowedBuiltins with
        | nil => rfl
        | cons a b => simp [hs] at hl
      simp [shadowedAlong, this, hasAny_false ps h]

theorem disabledBuiltinsMap_getD (src : Chain) (m : Option (List Name))
    (h : disabledBuiltinsMap src = .ok m) : m.getD [] = rootDisabled src := by
  cases src with
  | nil => simp only [disabledBuiltinsMap, Res.ok.injEq] at h; subst h; rfl
  | cons st ps =>
    simp only [disabledBuiltinsMap] at h
    rw [root_eq] at h
    cases hr : rootTab (st :: ps) with
    | none => simp [hr, nilDeref, bind, Res.bind] at h
    | some r =>
      simp only [hr, bind, Res.bind, pure, Res.ok.injEq] at h
      subst h
      simp [Sym.rootDisabled, hr, disabledSet]

theorem initDisabled_mem (r : Tab) (x : Name) : x ∈ disabledSet (initDisabled r) ↔ x ∈ disabledSet r := by
  unfold initDisabled disabledSet
  split <;> simp_all

theorem optimCopy_single (t : Tab) (src c2 : Chain) (h : optimCopyBuiltinStates [t] src = .ok c2) :
    ∃ t2, c2 = [t2] ∧ t2.store = t.store ∧ (∀ n, n ∈ disabledSet t → n ∈ disabledSet t2) ∧
      (∀ n, n ∈ rootDisabled src → n ∈ disabledSet t2) ∧ (∀ n, n ∈ shadowedAlong src → n ∈ disabledSet t2) := by
  unfold optimCopyBuiltinStates at h
  cases hm : disabledBuiltinsMap src with
  | panic m => simp [hm, bind, Res.bind] at h
  | err e => simp [hm, bind, Res.bind] at h
  | ok m =>
    have hg := disabledBuiltinsMap_getD src m hm
    simp only [hm, bind, Res.bind] at h
    split at h
    · rename_i hc
      simp only [pure, Res.ok.injEq] at h
      subst h
      simp only [Bool.and_eq_true, decide_eq_true_eq, Bool.not_eq_eq_eq_not, Bool.not_true] at hc
      have h1 : rootDisabled src = [] := by
        rw [← hg]; exact List.eq_nil_of_length_eq_zero hc.1
      have h2 := hasAny_false src hc.2
      exact ⟨t, rfl, rfl, fun _ h => h, by simp [h1], by simp [h2]⟩
    · simp only [modifyRoot, Res.ok.injEq] at h
      subst h
      refine ⟨_, rfl, ?_, ?_, ?_, ?_⟩
      · change (List.foldl addDisabled (List.foldl addDisabled (initDisabled t) (m.getD [])) (shadowedAlong src)).store = _
        rw [(foldl_addDisabled _ _).1, (foldl_addDisabled _ _).1]
        unfold initDisabled; split <;> rfl
      · intro n hn
        change n ∈ disabledSet (List.foldl addDisabled (List.foldl addDisabled (initDisabled t) (m.getD [])) (shadowedAlong src))
        rw [(foldl_addDisabled _ _).2, (foldl_addDisabled _ _).2, initDisabled_mem]
        exact Or.inl (Or.inl hn)
      · intro n hn
        change n ∈ disabledSet (List.foldl addDisabled (List.foldl addDisabled (initDisabled t) (m.getD [])) (shadowedAlong src))
        rw [(foldl_addDisabled _ _).2, (foldl_addDisabled _ _).2, hg]
        exact Or.inl (Or.inr hn)
      · intro n hn
        change n ∈ disabledSet (List.foldl addDisabled (List.foldl addDisabled (initDisabled t) (m.getD [])) (shadowedAlong src))
        rw [(foldl_addDisabled _ _).2]
        exact Or.inr hn

theorem disableBuiltin'_single (B : Builtins) (t : Tab) (names : List Name) (c : Chain) (hs : t.store = [])
    (h : optimCopyBuiltinStatesFromScope.disableBuiltin' [t] names = .ok c) :
    ∃ t2, c = [t2] ∧ t2.store = [] ∧ (∀ n, n ∈ disabledSet t → n ∈ disabledSet t2) ∧
      (∀ n, n ∈ names → n ∈ disabledSet t2) := by
  unfold optimCopyBuiltinStatesFromScope.disableBuiltin' at h
  simp only [root, bind, Res.bind] at h
  split at h
  · rename_i hl
    simp only [pure, Res.ok.injEq] at h; subst h
    have : names = [] := List.eq_nil_of_length_eq_zero hl
    subst this
    exact ⟨t, rfl, hs, fun _ h => h, by simp⟩
  · simp only [modifyRoot, Res.ok.injEq] at h
    subst h
    obtain ⟨a, b, c⟩ := foldl_disableOne_rel B names (initDisabled t)
    refine ⟨_, rfl, c (by unfold initDisabled; split <;> simpa using hs), ?_, b⟩
    intro n hn
    exact a.1 n ((initDisabled_mem t n).2 hn)

theorem fromScope_single (B : Builtins) : ∀ (scopes : List (List Name)) (t : Tab) (c : Chain), t.store = [] →
    optimCopyBuiltinStatesFromScope [t] scopes = .ok c →
    ∃ t2, c = [t2] ∧ t2.store = [] ∧ (∀ n, n ∈ disabledSet t → n ∈ disabledSet t2) ∧
      (∀ sc, sc ∈ scopes → ∀ n, n ∈ sc → n ∈ disabledSet t2)
  | [], t, c, _, h => by simp [optimCopyBuiltinStatesFromScope, root, nilDeref, bind, Res.bind] at h
  | [s], t, c, hs, h => by
    unfold optimCopyBuiltinStatesFromScope at h
    obtain ⟨t2, a, b, c', d⟩ := disableBuiltin'_single B t s c hs h
    exact ⟨t2, a, b, c', by intro sc hsc; simp only [List.mem_singleton] at hsc; subst hsc; exact d⟩
  | s :: s' :: rest, t, c, hs, h => by
    unfold optimCopyBuiltinStatesFromScope at h
    cases hd : optimCopyBuiltinStatesFromScope.disableBuiltin' [t] s with
    | panic m => simp [hd, bind, Res.bind] at h
    | err e => simp [hd, bind, Res.bind] at h
    | ok d1 =>
      simp only [hd, bind, Res.bind] at h
      obtain ⟨t1, a, b, c', d⟩ := disableBuiltin'_single B t s d1 hs hd
      subst a
      obtain ⟨t2, a2, b2, c2, d2⟩ := fromScope_single B (s' :: rest) t1 c b h
      refine ⟨t2, a2, b2, fun n hn => c2 n (c' n hn), ?_⟩
      intro sc hsc n hn
      simp only [List.mem_cons] at hsc
      rcases hsc with hsc | hsc
      · subst hsc; exact c2 n (d n hn)
      · exact d2 sc (by simpa using hsc) n hn

/-- the table the optimizer's evaluator compiles with: empty, and every name disabled or
    shadowed at the call site is disabled in it -/
theorem evalResetTab_spec (B : Builtins) (ev : Option Tab) (comp : Chain) (scopes : List (List Name)) (t : Tab)
    (h : evalResetTab ev comp scopes = .ok t) :
    t.store = [] ∧ (∀ n, n ∈ rootDisabled comp → n ∈ disabledSet t) ∧
    (∀ n, n ∈ shadowedAlong comp → n ∈ disabledSet t) ∧
    (∀ sc, sc ∈ scopes → ∀ n, n ∈ sc → n ∈ disabledSet t) := by
  unfold evalResetTab at h
  simp only [enableParams, bind, Res.bind] at h
  have hst0 : (evalStartTab ev).store = [] := by
    unfold evalStartTab; cases ev <;> rfl
  generalize evalStartTab ev = t0 at h hst0
  have hst1 : ({ t0 with disableParams := !false } : Tab).store = [] := hst0
  generalize ({ t0 with disableParams := !false } : Tab) = t1 at h hst1
  cases h2 : optimCopyBuiltinStates [t1] comp with
  | panic m => simp [h2] at h
  | err e => simp [h2] at h
  | ok c2 =>
    simp only [h2] at h
    obtain ⟨t2, a, b, _, d, e⟩ := optimCopy_single _ comp c2 h2
    subst a
    cases h3 : optimCopyBuiltinStatesFromScope [t2] scopes with
    | panic m => simp [h3] at h
    | err e => simp [h3] at h
    | ok c3 =>
      simp only [h3] at h
      obtain ⟨t3, a3, b3, c3', d3⟩ := fromScope_single B scopes t2 c3 (by rw [b]; exact hst1) h3
      subst a3
      simp only [root, Res.ok.injEq] at h
      subst h
      exact ⟨b3, fun n hn => c3' n (d n hn), fun n hn => c3' n (e n hn), d3⟩


/-! ### every API call preserves the heap invariant -/

theorem setEntry_length : ∀ (H : Heap) (id : Nat) (e : Entry), (setEntry H id e).length = H.length
  | [], _, _ => rfl
  | x :: older, id, e => by
    unfold setEntry
    by_cases h : older.length = id
    · simp [h]
    · simp [h, setEntry_length older id e]

theorem setEntry_ok (B : Builtins) : ∀ (H : Heap) (id : Nat) (e : Entry), HeapOK B H → TabOK B true e.tab →
    e.parent = none → HeapOK B (setEntry H id e)
  | [], _, _, _, _, _ => trivial
  | x :: older, id, e, h, ht, hp => by
    unfold setEntry
    by_cases hid : older.length = id
    · simp only [hid, ↓reduceIte]
      exact ⟨by simp [hp], by simpa [hp] using ht, h.2.2⟩
    · simp only [hid, ↓reduceIte]
      refine ⟨?_, h.2.1, setEntry_ok B older id e h.2.2 ht hp⟩
      intro q hq; rw [setEntry_length]; exact h.1 q hq

/-- old handles stay valid and the disabled set that governs them only grows -/
def Mono (H H' : Heap) : Prop :=
  H.length ≤ H'.length ∧ ∀ id, id < H.length → ∀ n,
    n ∈ rootDisabled (tabs (chainOf H id)) → n ∈ rootDisabled (tabs (chainOf H' id))

theorem Mono.refl (H : Heap) : Mono H H := ⟨Nat.le_refl _, fun _ _ _ h => h⟩

theorem Mono.trans {A B' C : Heap} (h1 : Mono A B') (h2 : Mono B' C) : Mono A C :=
  ⟨Nat.le_trans h1.1 h2.1, fun id hid n hn => h2.2 id (Nat.lt_of_lt_of_le hid h1.1) n (h1.2 id hid n hn)⟩

theorem Mono.of_le {H H' : Heap} (h : HeapLe H H') : Mono H H' :=
  ⟨by rw [h.length]; exact Nat.le_refl _, fun id _ n hn => h.rootDisabled id n hn⟩

theorem chainOf_cons_old (e : Entry) (H : Heap) (id : Nat) (h : id < H.length) :
    chainOf (e :: H) id = chainOf H id := by
  have : ¬ H.length = id := by omega
  rw [chainOf]; simp [this]

theorem Mono.alloc (H : Heap) (t : Tab) (p : Option Nat) : Mono H (alloc H t p).1 :=
  ⟨by simp [Model.Sym.alloc], fun id hid n hn => by
    simp only [Model.Sym.alloc]; rw [chainOf_cons_old _ _ _ hid]; exact hn⟩

theorem bind_ok_inv {α β} {x : Res α} {g : α → Res β} {v : β} (h : x.bind g = .ok v) :
    ∃ a, x = .ok a ∧ g a = .ok v := by
  cases x with
  | ok a => exact ⟨a, rfl, h⟩
  | err e => simp [Res.bind] at h
  | panic m => simp [Res.bind] at h

theorem onChain_spec {α} (B : Builtins) (H : Heap) (h : Handle) (f : Chain → Res (Chain × α)) (k : α → Out)
    (hf : ∀ ch ch' a, ChainOK B ch → f ch = .ok (ch', a) → ChainRel B ch ch') (hH : HeapOK B H) :
    HeapOK B (onChain H h f k).1 ∧ HeapLe H (onChain H h f k).1 := by
  unfold onChain
  cases hr : f (tabsOf H h) with
  | ok v =>
    obtain ⟨ch', a⟩ := v
    cases h with
    | none => exact ⟨hH, HeapLe.refl _⟩
    | some id => exact writeChain_ok B H id ch' hH (hf _ _ _ (chainOf_ok B H id hH) hr)
  | err e => exact ⟨hH, HeapLe.refl _⟩
  | panic m => exact ⟨hH, HeapLe.refl _⟩

theorem tabsOf_ne_nil_lt {H : Heap} {h : Handle} {st : Tab} {r : Chain} (hh : tabsOf H h = st :: r) :
    ∃ id, h = some id ∧ id < H.length := by
  cases h with
  | none => simp [tabsOf] at hh
  | some id =>
    refine ⟨id, rfl, ?_⟩
    by_cases hlt : id < H.length
    · exact hlt
    · have : chainOf H id = [] := (chainOf_eq_nil_iff H id).2 (by omega)
      simp [tabsOf, this] at hh

/-- chain-level facts of every chain-modifying API call, bundled for `step` -/
theorem step_spec (B : Builtins) (H : Heap) (op : Op) (hH : HeapOK B H) :
    HeapOK B (step B H op).1 ∧
    ((∀ e c s, op ≠ .evalReset (some e) c s) → Mono H (step B H op).1) := by
  cases op with
  | newTable => exact ⟨⟨by simp, TabOK.empty rfl, hH⟩, fun _ => Mono.alloc H newTab none⟩
  | fork h block =>
    simp only [step]
    cases hh : tabsOf H h with
    | nil => exact ⟨hH, fun _ => Mono.refl H⟩
    | cons st r =>
      obtain ⟨id, hid, hlt⟩ := tabsOf_ne_nil_lt hh
      subst hid
      refine ⟨⟨?_, TabOK.empty rfl, hH⟩, fun _ => Mono.alloc H _ _⟩
      intro p hp; simp only [Option.some.injEq] at hp; subst hp; exact hlt
  | parent h sb =>
    simp only [step]
    split <;> exact ⟨hH, fun _ => Mono.refl H⟩
  | defineLocal h n =>
    have := onChain_spec B H h (fun ch => (defineLocal B ch n).bind fun (c, s, e) => .ok (c, (s, e)))
      (fun (s, e) => .sym (some s) e) (by
        intro ch ch' a _ hf
        obtain ⟨⟨c, s, e⟩, h1, h2⟩ := bind_ok_inv hf
        simp only [Res.ok.injEq, Prod.mk.injEq] at h2
        obtain ⟨h2, _⟩ := h2; subst h2
        rcases defineLocal_rel B ch n c s e h1 with h | h
        · exact h.1
        · exact h.1) hH
    exact ⟨this.1, fun _ => Mono.of_le this.2⟩
  | defineConstLit h n =>
    have := onChain_spec B H h (fun ch => (defineConstLit B ch n).bind fun (c, s, e) => .ok (c, (s, e)))
      (fun (s, e) => .sym (some s) e) (by
        intro ch ch' a _ hf
        obtain ⟨⟨c, s, e⟩, h1, h2⟩ := bind_ok_inv hf
        simp only [Res.ok.injEq, Prod.mk.injEq] at h2
        obtain ⟨h2, _⟩ := h2; subst h2
        exact defineConstLit_rel B ch n c s e h1) hH
    exact ⟨this.1, fun _ => Mono.of_le this.2⟩
  | defineGlobal h n =>
    have := onChain_spec B H h (fun ch => defineGlobal B (quoteName n) ch n)
      (fun r => match r with | .sym s => .sym (some s) true | .error m => .error m)
      (fun ch ch' a _ hf => defineGlobal_rel B _ ch n ch' a hf) hH
    exact ⟨this.1, fun _ => Mono.of_le this.2⟩
  | setParams h ns =>
    have := onChain_spec B H h (fun ch => setParams B quoteName ch ns)
      (fun e => match e with | none => .unit | some m => .error m)
      (fun ch ch' a _ hf => setParams_rel B _ ch ns ch' a hf) hH
    exact ⟨this.1, fun _ => Mono.of_le this.2⟩
  | enableParams h v =>
    have := onChain_spec B H h (fun ch => (enableParams ch v).bind fun c => .ok (c, ())) (fun _ => .unit) (by
        intro ch ch' a _ hf
        obtain ⟨c, h1, h2⟩ := bind_ok_inv hf
        simp only [Res.ok.injEq, Prod.mk.injEq] at h2
        obtain ⟨h2, _⟩ := h2; subst h2
        exact enableParams_rel B ch v c h1) hH
    exact ⟨this.1, fun _ => Mono.of_le this.2⟩
  | resolve h n =>
    have := onChain_spec B H h (fun ch => resolve B ch n) (fun r => .sym r r.isSome)
      (fun ch ch' a hok hf => (resolve_rel B n ch ch' a hok hf).1) hH
    exact ⟨this.1, fun _ => Mono.of_le this.2⟩
  | disable h ns =>
    have := onChain_spec B H h (fun ch => (disableBuiltin ch ns).bind fun c => .ok (c, ())) (fun _ => .unit) (by
        intro ch ch' a _ hf
        obtain ⟨c, h1, h2⟩ := bind_ok_inv hf
        simp only [Res.ok.injEq, Prod.mk.injEq] at h2
        obtain ⟨h2, _⟩ := h2; subst h2
        exact (disableBuiltin_rel B ch ns c h1).1) hH
    exact ⟨this.1, fun _ => Mono.of_le this.2⟩
  | disabled h =>
    simp only [step]
    split <;> exact ⟨hH, fun _ => Mono.refl H⟩
  | nextIndex h =>
    simp only [step]
    split <;> exact ⟨hH, fun _ => Mono.refl H⟩
  | state h =>
    simp only [step]
    split <;> exact ⟨hH, fun _ => Mono.refl H⟩
  | newModuleTable c =>
    simp only [step]
    cases hm : newModuleTab (tabsOf H c) with
    | ok t =>
      refine ⟨⟨by simp, ?_, hH⟩, fun _ => Mono.alloc H t none⟩
      apply TabOK.empty
      unfold newModuleTab at hm
      obtain ⟨m, _, h2⟩ := bind_ok_inv hm
      simp only [pure, Res.ok.injEq] at h2
      subst h2; rfl
    | err e => exact ⟨hH, fun _ => Mono.refl H⟩
    | panic m => exact ⟨hH, fun _ => Mono.refl H⟩
  | evalReset ev comp scopes =>
    cases ev with
    | none =>
      simp only [step]
      cases hm : evalResetTab none (tabsOf H comp) scopes with
      | ok t =>
        exact ⟨⟨by simp, TabOK.empty (evalResetTab_spec B _ _ _ _ hm).1, hH⟩, fun _ => Mono.alloc H t none⟩
      | err e => exact ⟨hH, fun _ => Mono.refl H⟩
      | panic m => exact ⟨hH, fun _ => Mono.refl H⟩
    | some id =>
      refine ⟨?_, fun hne => absurd rfl (hne id comp scopes)⟩
      simp only [step]
      cases hh : tabsOf H (some id) with
      | nil => exact hH
      | cons st r =>
        simp only
        have h1 : HeapOK B (setEntry H id { tab := resetTab st, parent := none }) :=
          setEntry_ok B H id _ hH (TabOK.empty rfl) rfl
        cases hm : evalResetTab (some st) (tabsOf (setEntry H id { tab := resetTab st, parent := none }) comp) scopes with
        | ok t => exact setEntry_ok B _ id _ h1 (TabOK.empty (evalResetTab_spec B _ _ _ _ hm).1) rfl
        | err e => exact h1
        | panic m => exact h1

theorem run_ok (B : Builtins) : ∀ (ops : List Op) (H : Heap), HeapOK B H → HeapOK B (run B H ops)
  | [], _, h => h
  | op :: ops, H, h => run_ok B ops _ (step_spec B H op h).1


/-! ### sequences of calls -/

def NoReset : Op → Prop
  | .evalReset (some _) _ _ => False
  | _ => True

theorem run_mono (B : Builtins) : ∀ (ops : List Op) (H : Heap), HeapOK B H → (∀ op, op ∈ ops → NoReset op) →
    Mono H (run B H ops)
  | [], H, _, _ => Mono.refl H
  | op :: ops, H, h, hn => by
    have hs := step_spec B H op h
    have h1 : Mono H (step B H op).1 := hs.2 (by
      intro e c s he
      have := hn op (by simp)
      rw [he] at this; exact this)
    exact Mono.trans h1 (run_mono B ops _ hs.1 (fun o ho => hn o (by simp [ho])))

theorem run_append (B : Builtins) : ∀ (a b : List Op) (H : Heap), run B H (a ++ b) = run B (run B H a) b
  | [], _, _ => rfl
  | x :: a, b, H => by simp [run, run_append B a b]

theorem chainOf_alloc_new (H : Heap) (e : Entry) :
    chainOf (e :: H) H.length =
      (H.length, e.tab) :: (match e.parent with | none => [] | some q => chainOf H q) := by
  rcases e with ⟨t, p⟩
  cases p <;> simp [chainOf]

theorem onChain_length {α} (H : Heap) (h : Handle) (f : Chain → Res (Chain × α)) (k : α → Out) :
    (onChain H h f k).1.length = H.length := by
  unfold onChain
  cases f (tabsOf H h) with
  | ok v => cases h <;> simp [writeBack, writeChain_length]
  | err e => rfl
  | panic m => rfl

def Allocates : Op → Prop
  | .newTable | .fork _ _ | .newModuleTable _ | .evalReset none _ _ => True
  | _ => False

theorem step_length_eq (B : Builtins) (H : Heap) (op : Op) (h : ¬ Allocates op) :
    (step B H op).1.length = H.length := by
  cases op with
  | newTable => exact absurd trivial h
  | fork _ _ => exact absurd trivial h
  | newModuleTable _ => exact absurd trivial h
  | evalReset ev c sc =>
    cases ev with
    | none => exact absurd trivial h
    | some id =>
      simp only [step]
      split
      · rfl
      · split <;> simp [setEntry_length]
  | parent h sb => simp only [step]; split <;> rfl
  | disabled h => simp only [step]; split <;> rfl
  | nextIndex h => simp only [step]; split <;> rfl
  | state h => simp only [step]; split <;> rfl
  | defineLocal h n => exact onChain_length _ _ _ _
  | defineConstLit h n => exact onChain_length _ _ _ _
  | defineGlobal h n => exact onChain_length _ _ _ _
  | setParams h ns => exact onChain_length _ _ _ _
  | enableParams h v => exact onChain_length _ _ _ _
  | resolve h n => exact onChain_length _ _ _ _
  | disable h ns => exact onChain_length _ _ _ _

/-- every name of `D` is disabled in the root that governs table `id` -/
def Covered (D : List Name) (H : Heap) (id : Nat) : Prop :=
  ∀ d, d ∈ D → d ∈ rootDisabled (tabs (chainOf H id))

theorem mem_foldl_setAdd (l : List Name) : ∀ (acc : List Name) (x : Name),
    x ∈ l.foldl setAdd acc ↔ x ∈ acc ∨ x ∈ l := by
  induction l with
  | nil => intro acc x; simp
  | cons a l ih =>
    intro acc x
    rw [List.foldl_cons, ih, mem_setAdd]
    simp only [List.mem_cons]
    constructor
    · rintro ((h | h) | h)
      · exact Or.inl h
      · exact Or.inr (Or.inl h)
      · exact Or.inr (Or.inr h)
    · rintro (h | h | h)
      · exact Or.inl (Or.inl h)
      · exact Or.inl (Or.inr h)
      · exact Or.inr h

theorem newModuleTab_spec (ch : Chain) (t : Tab) (h : newModuleTab ch = .ok t) :
    t.store = [] ∧ ∀ n, n ∈ disabledSet t ↔ n ∈ rootDisabled ch := by
  unfold newModuleTab at h
  obtain ⟨m, h1, h2⟩ := bind_ok_inv h
  simp only [pure, Res.ok.injEq] at h2
  subst h2
  refine ⟨rfl, ?_⟩
  intro n
  rw [← disabledBuiltinsMap_getD ch m h1]
  cases m with
  | none => simp [disabledSet, copyMapStringSet, newTab]
  | some l => simp [disabledSet, copyMapStringSet, newTab, mem_foldl_setAdd]

/-! ### the compiler as a trace of symbol-table calls and GETBUILTIN emissions -/

/-- `compileIdent` (compiler_nodes.go:1206-1234): what is emitted for an identifier -/
inductive IdentCode where
  | getGlobal (i : Int) | getLocal (i : Int) | getBuiltin (i : Int) | getFree (i : Int)
  | constLit | unresolved | goPanic
  deriving Repr, DecidableEq

def compileIdent (B : Builtins) (H : Heap) (h : Handle) (name : Name) : Heap × IdentCode :=
  -- symbol, ok := c.symbolTable.Resolve(node.Name)
  match resolve B (tabsOf H h) name with
  | .ok (ch', none) => (writeBack H h ch', .unresolved)   -- compile error (or the iota constant)
  | .ok (ch', some symbol) =>
    (writeBack H h ch',
      match symbol.scope with                              -- switch symbol.Scope
      | .global => .getGlobal symbol.index
      | .local => .getLocal symbol.index
      | .builtin => .getBuiltin symbol.index               -- c.emit(node, OpGetBuiltin, symbol.Index)
      | .free => .getFree symbol.index
      | .constLit => .constLit)
  | _ => (H, .goPanic)

inductive CEvent where
  /-- a call on a symbol table -/
  | api (op : Op)
  /-- `compileIdent` on the compiler's current table -/
  | ident (h : Handle) (name : Name)
  /-- `compileAssignStmt` with several left-hand sides: `GETBUILTIN BuiltinMakeArray` -/
  | destructure
  deriving Repr

structure CState where
  heap : Heap
  /-- tables that belong to this compilation (main table, scopes, module tables, evaluator tables) -/
  fam : List Nat
  /-- operands of the GETBUILTIN instructions emitted so far -/
  out : List Int

def cstep (B : Builtins) (mk : Nat) (s : CState) : CEvent → CState
  | .api op =>
    let H' := (step B s.heap op).1
    { heap := H', fam := if H'.length = s.heap.length + 1 then s.heap.length :: s.fam else s.fam, out := s.out }
  | .ident h name =>
    let (H', code) := compileIdent B s.heap h name
    { heap := H', fam := s.fam,
      out := match code with
        | .getBuiltin i => s.out ++ [i]
        | _ => s.out }
  | .destructure => { s with out := s.out ++ [(mk : Int)] }

def crun (B : Builtins) (mk : Nat) : CState → List CEvent → CState
  | s, [] => s
  | s, e :: es => crun B mk (cstep B mk s e) es

def InFam (fam : List Nat) : Handle → Prop
  | none => False
  | some id => id ∈ fam

/-- the calls a compilation makes: only on its own tables; tables are created by `Fork`, by
    `compileModule` (from the compiler's table) and by the evaluator's `resetCompiler` -/
def LegalOp (fam : List Nat) : Op → Prop
  | .newTable => False
  | .fork h _ | .parent h _ | .defineLocal h _ | .defineGlobal h _ | .defineConstLit h _
  | .setParams h _ | .enableParams h _ | .resolve h _ | .disable h _ | .disabled h
  | .nextIndex h | .state h | .newModuleTable h => InFam fam h
  | .evalReset ev comp _ => ev = none ∧ InFam fam comp

def LegalEvent (s : CState) : CEvent → Prop
  | .api op => LegalOp s.fam op
  | .ident h _ => InFam s.fam h
  | .destructure => True

def AllLegal (B : Builtins) (mk : Nat) : CState → List CEvent → Prop
  | _, [] => True
  | s, e :: es => LegalEvent s e ∧ AllLegal B mk (cstep B mk s e) es

/-- distinct builtin names have distinct indices -/
def BInj (B : Builtins) : Prop := ∀ a b i, mapGet B a = some i → mapGet B b = some i → a = b

def GoodOperand (B : Builtins) (mk : Nat) (D : List Name) (i : Int) : Prop :=
  i = (mk : Int) ∨ ∀ d, d ∈ D → mapGet B d ≠ some i.toNat

structure CInv (B : Builtins) (mk : Nat) (D : List Name) (s : CState) : Prop where
  heap : HeapOK B s.heap
  fam : ∀ id, id ∈ s.fam → id < s.heap.length ∧ Covered D s.heap id
  out : ∀ i, i ∈ s.out → GoodOperand B mk D i

theorem LegalOp.noReset {fam : List Nat} {op : Op} (h : LegalOp fam op) : NoReset op := by
  cases op <;> try trivial
  rename_i ev comp sc
  cases ev with
  | none => trivial
  | some e => exact absurd h.1 (by simp)

theorem covered_mono {D : List Name} {H H' : Heap} {id : Nat} (hm : Mono H H') (hid : id < H.length)
    (h : Covered D H id) : Covered D H' id := fun d hd => hm.2 id hid d (h d hd)

theorem rootDisabled_cons_of_ne_nil (t : Tab) {c : Chain} (h : c ≠ []) :
    rootDisabled (t :: c) = rootDisabled c := by
  simp [Sym.rootDisabled, rootTab_cons_ne_nil t h]

theorem cstep_inv (B : Builtins) (mk : Nat) (D : List Name) (hinj : BInj B) (s : CState) (e : CEvent)
    (hs : CInv B mk D s) (hl : LegalEvent s e) : CInv B mk D (cstep B mk s e) := by
  cases e with
  | destructure =>
    refine ⟨hs.heap, hs.fam, ?_⟩
    intro i hi
    simp only [cstep, List.mem_append, List.mem_singleton] at hi
    rcases hi with hi | hi
    · exact hs.out i hi
    · exact Or.inl hi
  | ident h name =>
    cases h with
    | none => exact hl.elim
    | some id =>
      have hfam := hs.fam id hl
      have hok := chainOf_ok B s.heap id hs.heap
      simp only [cstep, compileIdent]
      cases hr : resolve B (tabsOf s.heap (some id)) name with
      | panic m => exact ⟨hs.heap, hs.fam, hs.out⟩
      | err e => exact ⟨hs.heap, hs.fam, hs.out⟩
      | ok v =>
        obtain ⟨ch', r⟩ := v
        obtain ⟨hrel, hans⟩ := resolve_rel B name _ ch' r hok hr
        obtain ⟨hH', hle⟩ := writeChain_ok B s.heap id ch' hs.heap hrel
        have hm : Mono s.heap (writeChain s.heap id ch') := Mono.of_le hle
        have hfam' : ∀ j, j ∈ s.fam → j < (writeChain s.heap id ch').length ∧ Covered D (writeChain s.heap id ch') j := by
          intro j hj
          obtain ⟨a, b⟩ := hs.fam j hj
          exact ⟨by rw [writeChain_length]; exact a, covered_mono hm a b⟩
        cases r with
        | none => exact ⟨hH', hfam', hs.out⟩
        | some symbol =>
          refine ⟨hH', hfam', ?_⟩
          simp only [writeBack]
          cases hsc : symbol.scope <;> simp only <;> try exact hs.out
          intro i hi
          simp only [List.mem_append, List.mem_singleton] at hi
          rcases hi with hi | hi
          · exact hs.out i hi
          · subst hi
            obtain ⟨h1, _, h3, _⟩ := hans symbol rfl hsc
            refine Or.inr ?_
            intro d hd hmd
            have : d = name := hinj d name _ hmd h3
            subst this
            exact h1 (hfam.2 d hd)
  | api op =>
    have hnr : NoReset op := LegalOp.noReset hl
    have hsp := step_spec B s.heap op hs.heap
    have hm : Mono s.heap (step B s.heap op).1 := hsp.2 (by
      intro e c sc he; rw [he] at hnr; exact hnr)
    have hold : ∀ j, j ∈ s.fam → j < (step B s.heap op).1.length ∧ Covered D (step B s.heap op).1 j := by
      intro j hj
      obtain ⟨a, b⟩ := hs.fam j hj
      exact ⟨Nat.lt_of_lt_of_le a hm.1, covered_mono hm a b⟩
    refine ⟨hsp.1, ?_, hs.out⟩
    simp only [cstep]
    split
    · rename_i hlen
      intro j hj
      simp only [List.mem_cons] at hj
      rcases hj with hj | hj
      · subst hj
        refine ⟨by omega, ?_⟩
        -- the new table: which operation allocated it
        cases op with
        | newTable => exact hl.elim
        | fork h b =>
          cases h with
          | none => exact hl.elim
          | some id =>
            obtain ⟨hlt, hcov⟩ := hs.fam id hl
            have hne : chainOf s.heap id ≠ [] := by
              intro he; rw [chainOf_eq_nil_iff] at he; omega
            cases hc : chainOf s.heap id with
            | nil => exact absurd hc hne
            | cons a r =>
              simp only [step, tabsOf, hc, List.map_cons, Model.Sym.alloc]
              rw [Covered, chainOf_alloc_new]
              intro d hd
              simp only [List.map_cons, hc]
              have := hcov d hd
              rw [hc] at this
              simpa [Sym.rootDisabled, rootTab] using this
        | newModuleTable h =>
          cases h with
          | none => exact hl.elim
          | some id =>
            obtain ⟨hlt, hcov⟩ := hs.fam id hl
            simp only [step] at hlen ⊢
            cases hm' : newModuleTab (tabsOf s.heap (some id)) with
            | ok t =>
              simp only [Model.Sym.alloc]
              rw [Covered, chainOf_alloc_new]
              intro d hd
              simp only [List.map_cons, List.map_nil, Sym.rootDisabled, rootTab]
              exact ((newModuleTab_spec _ t hm').2 d).2 (hcov d hd)
            | err e => simp [hm'] at hlen
            | panic m => simp [hm'] at hlen
        | evalReset ev comp scopes =>
          obtain ⟨hev, hcomp⟩ := hl
          subst hev
          cases comp with
          | none => exact hcomp.elim
          | some id =>
            obtain ⟨hlt, hcov⟩ := hs.fam id hcomp
            simp only [step] at hlen ⊢
            cases hm' : evalResetTab none (tabsOf s.heap (some id)) scopes with
            | ok t =>
              simp only [Model.Sym.alloc]
              rw [Covered, chainOf_alloc_new]
              intro d hd
              simp only [List.map_cons, List.map_nil, Sym.rootDisabled, rootTab]
              exact (evalResetTab_spec B _ _ _ t hm').2.1 d (hcov d hd)
            | err e => simp [hm'] at hlen
            | panic m => simp [hm'] at hlen
        | parent h b => exfalso; have := step_length_eq B s.heap (.parent h b) (fun h => h); omega
        | disabled h => exfalso; have := step_length_eq B s.heap (.disabled h) (fun h => h); omega
        | nextIndex h => exfalso; have := step_length_eq B s.heap (.nextIndex h) (fun h => h); omega
        | state h => exfalso; have := step_length_eq B s.heap (.state h) (fun h => h); omega
        | defineLocal h n => exfalso; have := step_length_eq B s.heap (.defineLocal h n) (fun h => h); omega
        | defineConstLit h n => exfalso; have := step_length_eq B s.heap (.defineConstLit h n) (fun h => h); omega
        | defineGlobal h n => exfalso; have := step_length_eq B s.heap (.defineGlobal h n) (fun h => h); omega
        | setParams h n => exfalso; have := step_length_eq B s.heap (.setParams h n) (fun h => h); omega
        | enableParams h n => exfalso; have := step_length_eq B s.heap (.enableParams h n) (fun h => h); omega
        | resolve h n => exfalso; have := step_length_eq B s.heap (.resolve h n) (fun h => h); omega
        | disable h n => exfalso; have := step_length_eq B s.heap (.disable h n) (fun h => h); omega
      · exact hold j hj
    · exact hold

end UgoVerif.Proofs.Sym
