import UgoVerif.Model.Sym
/-
  Helper lemmas for C13: the invariant of symbol tables ("a BUILTIN symbol lives
  only in a root scope, under its own name, with the index of `BuiltinsMap`, and
  never for a disabled name") is preserved by every operation, on chains and on
  the heap of tables.
-/
set_option linter.unusedSimpArgs false
set_option linter.unusedVariables false
namespace UgoVerif.Proofs.Sym
open UgoVerif.Go UgoVerif.Model.Sym

/-! ### association lists -/

theorem mapGet_mapDelete {β} (m : List (Name × β)) (k k' : Name) :
    mapGet (mapDelete m k) k' = if k = k' then none else mapGet m k' := by
  induction m with
  | nil => simp [mapDelete, mapGet]
  | cons p r ih =>
    obtain ⟨a, v⟩ := p
    unfold mapDelete at ih ⊢
    by_cases h : a = k
    · subst h
      by_cases h2 : a = k'
      · subst h2; simpa [List.filter, mapGet] using ih
      · simpa [List.filter, mapGet, h2] using ih
    · by_cases h2 : k = k'
      · subst h2
        simp only [List.filter, h, ne_eq, not_false_eq_true, decide_true, mapGet, ↓reduceIte]
        simpa using ih
      · simp only [List.filter, h, ne_eq, not_false_eq_true, decide_true, mapGet]
        rw [ih]; simp [h2]

theorem mapGet_mapSet {β} (m : List (Name × β)) (k k' : Name) (v : β) :
    mapGet (mapSet m k v) k' = if k = k' then some v else mapGet m k' := by
  unfold mapSet
  by_cases h : k = k'
  · simp [mapGet, h]
  · simp [mapGet, h, mapGet_mapDelete]

theorem mem_setAdd (s : List Name) (k x : Name) : x ∈ setAdd s k ↔ x ∈ s ∨ x = k := by
  unfold setAdd
  by_cases h : k ∈ s
  · simp only [h, ↓reduceIte]
    constructor
    · exact Or.inl
    · rintro (h1 | h1)
      · exact h1
      · subst h1; exact h
  · simp [h]

/-! ### the invariant -/

def disabledSet (t : Tab) : List Name := t.disabledBuiltins.getD []

/-- a cached builtin symbol is legitimate in the root scope `t` -/
def BuiltinOK (B : Builtins) (t : Tab) (k : Name) (s : Symbol) : Prop :=
  k ∉ disabledSet t ∧ s.name = k ∧ mapGet B k = some s.index.toNat ∧ 0 ≤ s.index

/-- scope invariant: a non-root scope stores no BUILTIN symbol; a root scope only legitimate ones -/
def TabOK (B : Builtins) (isRoot : Bool) (t : Tab) : Prop :=
  ∀ k s, mapGet t.store k = some s → s.scope = .builtin → isRoot = true ∧ BuiltinOK B t k s

def ChainOK (B : Builtins) : Chain → Prop
  | [] => True
  | [r] => TabOK B true r
  | st :: p :: ps => TabOK B false st ∧ ChainOK B (p :: ps)

theorem TabOK.weaken {B : Builtins} {t : Tab} (h : TabOK B false t) : TabOK B true t := by
  intro k s h1 h2
  exact absurd (h k s h1 h2).1 (by simp)

theorem TabOK.congr {B : Builtins} {r : Bool} {t t' : Tab} (hs : t'.store = t.store)
    (hd : t'.disabledBuiltins = t.disabledBuiltins) (h : TabOK B r t) : TabOK B r t' := by
  intro k s h1 h2
  rw [hs] at h1
  have := h k s h1 h2
  simpa [BuiltinOK, disabledSet, hd] using this

theorem TabOK.empty {B : Builtins} {r : Bool} {t : Tab} (hs : t.store = []) : TabOK B r t := by
  intro k s h1; rw [hs] at h1; simp [mapGet] at h1

/-- adding a non-builtin symbol keeps the scope invariant -/
theorem TabOK.set {B : Builtins} {r : Bool} {t t' : Tab} {k : Name} {v : Symbol}
    (hs : t'.store = mapSet t.store k v) (hd : t'.disabledBuiltins = t.disabledBuiltins)
    (hv : v.scope ≠ .builtin) (h : TabOK B r t) : TabOK B r t' := by
  intro k' s h1 h2
  rw [hs, mapGet_mapSet] at h1
  by_cases hk : k = k'
  · simp only [hk, ↓reduceIte, Option.some.injEq] at h1
    subst h1; exact absurd h2 hv
  · simp only [hk, ↓reduceIte] at h1
    have := h k' s h1 h2
    simpa [BuiltinOK, disabledSet, hd] using this

theorem shadowBuiltin_store (B : Builtins) (t : Tab) (n : Name) :
    (shadowBuiltin B t n).store = t.store ∧
    (shadowBuiltin B t n).disabledBuiltins = t.disabledBuiltins := by
  unfold shadowBuiltin; split <;> simp

theorem ChainOK.head {B : Builtins} {st : Tab} {ps : Chain} (h : ChainOK B (st :: ps)) :
    TabOK B (ps.isEmpty) st := by
  cases ps with
  | nil => simpa [ChainOK] using h
  | cons p ps => simpa [ChainOK] using h.1

theorem ChainOK.tail {B : Builtins} {st : Tab} {ps : Chain} (h : ChainOK B (st :: ps)) :
    ChainOK B ps := by
  cases ps with
  | nil => simp [ChainOK]
  | cons p ps => exact h.2

theorem ChainOK.cons {B : Builtins} {st : Tab} {ps : Chain} (h1 : TabOK B (ps.isEmpty) st)
    (h2 : ChainOK B ps) : ChainOK B (st :: ps) := by
  cases ps with
  | nil => simpa [ChainOK] using h1
  | cons p ps => exact ⟨by simpa using h1, h2⟩

/-- the root scope of a chain (`[]` has none) -/
def rootTab : Chain → Option Tab
  | [] => none
  | [r] => some r
  | _ :: p :: ps => rootTab (p :: ps)

theorem root_eq (ch : Chain) : root ch = match rootTab ch with
    | none => nilDeref | some r => .ok r := by
  induction ch with
  | nil => simp [root, rootTab]
  | cons st ps ih =>
    cases ps with
    | nil => simp [root, rootTab]
    | cons p ps => simpa [root, rootTab] using ih

theorem rootTab_cons_ne_nil (st : Tab) {ps : Chain} (h : ps ≠ []) :
    rootTab (st :: ps) = rootTab ps := by
  cases ps with
  | nil => exact absurd rfl h
  | cons p ps => simp [rootTab]

/-- the disabled set that governs a chain -/
def rootDisabled (ch : Chain) : List Name :=
  match rootTab ch with
  | none => []
  | some r => disabledSet r


/-! ### relation between a chain before and after an operation -/

/-- the scope keeps (or extends) its disabled set and its invariant -/
def TabRel (B : Builtins) (isRoot : Bool) (t t' : Tab) : Prop :=
  (∀ n, n ∈ disabledSet t → n ∈ disabledSet t') ∧ (TabOK B isRoot t → TabOK B isRoot t')

def ChainRel (B : Builtins) : Chain → Chain → Prop
  | [], [] => True
  | st :: ps, st' :: ps' => TabRel B ps.isEmpty st st' ∧ ChainRel B ps ps'
  | _, _ => False

theorem TabRel.refl (B : Builtins) (r : Bool) (t : Tab) : TabRel B r t t := ⟨fun _ h => h, id⟩

theorem TabRel.of_same {B : Builtins} {r : Bool} {t t' : Tab} (hs : t'.store = t.store)
    (hd : t'.disabledBuiltins = t.disabledBuiltins) : TabRel B r t t' :=
  ⟨fun n h => by simpa [disabledSet, hd] using h, TabOK.congr hs hd⟩

theorem TabRel.of_set {B : Builtins} {r : Bool} {t t' : Tab} {k : Name} {v : Symbol}
    (hs : t'.store = mapSet t.store k v) (hd : t'.disabledBuiltins = t.disabledBuiltins)
    (hv : v.scope ≠ .builtin) : TabRel B r t t' :=
  ⟨fun n h => by simpa [disabledSet, hd] using h, TabOK.set hs hd hv⟩

theorem TabRel.trans {B : Builtins} {r : Bool} {a b c : Tab} (h1 : TabRel B r a b)
    (h2 : TabRel B r b c) : TabRel B r a c :=
  ⟨fun n h => h2.1 n (h1.1 n h), fun h => h2.2 (h1.2 h)⟩

theorem ChainRel.refl (B : Builtins) : ∀ ch : Chain, ChainRel B ch ch
  | [] => trivial
  | st :: ps => ⟨TabRel.refl B _ st, ChainRel.refl B ps⟩

theorem ChainRel.length {B : Builtins} : ∀ {ch ch' : Chain}, ChainRel B ch ch' → ch'.length = ch.length
  | [], [], _ => rfl
  | _ :: ps, _ :: ps', h => by simp [ChainRel.length (ch := ps) (ch' := ps') h.2]
  | [], _ :: _, h => h.elim
  | _ :: _, [], h => h.elim

theorem ChainRel.isEmpty {B : Builtins} {ch ch' : Chain} (h : ChainRel B ch ch') :
    ch'.isEmpty = ch.isEmpty := by
  have := h.length
  cases ch <;> cases ch' <;> simp_all

theorem ChainRel.trans {B : Builtins} : ∀ {a b c : Chain}, ChainRel B a b → ChainRel B b c → ChainRel B a c
  | [], [], [], _, _ => trivial
  | x :: xs, y :: ys, z :: zs, h1, h2 => by
    refine ⟨TabRel.trans h1.1 ?_, ChainRel.trans h1.2 h2.2⟩
    have := h1.2.isEmpty
    rw [← this]; exact h2.1
  | [], _ :: _, _, h, _ => h.elim
  | _ :: _, [], _, h, _ => h.elim
  | [], [], _ :: _, _, h => h.elim
  | _ :: _, _ :: _, [], _, h => h.elim

theorem ChainRel.ok {B : Builtins} : ∀ {ch ch' : Chain}, ChainRel B ch ch' → ChainOK B ch → ChainOK B ch'
  | [], [], _, _ => trivial
  | st :: ps, st' :: ps', h, hok => by
    have hl := h.2.isEmpty
    refine ChainOK.cons ?_ (ChainRel.ok h.2 hok.tail)
    rw [hl]; exact h.1.2 hok.head
  | [], _ :: _, h, _ => h.elim
  | _ :: _, [], h, _ => h.elim

theorem ChainRel.rootDisabled {B : Builtins} : ∀ {ch ch' : Chain}, ChainRel B ch ch' →
    ∀ n, n ∈ rootDisabled ch → n ∈ rootDisabled ch'
  | [], [], _, n, hn => hn
  | st :: ps, st' :: ps', h, n, hn => by
    cases ps with
    | nil =>
      cases ps' with
      | nil => simpa [Sym.rootDisabled, rootTab] using h.1.1 n (by simpa [Sym.rootDisabled, rootTab] using hn)
      | cons q qs => exact h.2.elim
    | cons p pps =>
      cases ps' with
      | nil => exact h.2.elim
      | cons q qs =>
        have := ChainRel.rootDisabled h.2 n (by simpa [Sym.rootDisabled, rootTab] using hn)
        simpa [Sym.rootDisabled, rootTab] using this
  | [], _ :: _, h, _, _ => h.elim
  | _ :: _, [], h, _, _ => h.elim

/-- head replaced, parents related -/
theorem ChainRel.mk {B : Builtins} {st st' : Tab} {ps ps' : Chain}
    (h1 : TabRel B ps.isEmpty st st') (h2 : ChainRel B ps ps') : ChainRel B (st :: ps) (st' :: ps') :=
  ⟨h1, h2⟩

/-! ### the operations -/

theorem updateMaxDefs_rel (B : Builtins) : ∀ (ps : Chain) (st : Tab) (n : Int) (st' : Tab) (ps' : Chain),
    updateMaxDefs st ps n = .ok (st', ps') →
    st'.store = st.store ∧ st'.disabledBuiltins = st.disabledBuiltins ∧ ChainRel B ps ps' := by
  intro ps
  induction ps with
  | nil =>
    intro st n st' ps' h
    unfold updateMaxDefs at h
    by_cases hb : st.block
    · simp [hb, nilDeref] at h
    · simp only [hb, Bool.false_eq_true, ↓reduceIte, Res.ok.injEq, Prod.mk.injEq] at h
      obtain ⟨h1, h2⟩ := h
      subst h1 h2
      refine ⟨?_, ?_, trivial⟩ <;> split <;> rfl
  | cons p pps ih =>
    intro st n st' ps' h
    unfold updateMaxDefs at h
    by_cases hb : st.block
    · simp only [hb, ↓reduceIte] at h
      cases hr : updateMaxDefs p pps n with
      | panic m => simp [hr, bind, Res.bind] at h
      | err e => simp [hr, bind, Res.bind] at h
      | ok v =>
        obtain ⟨p', pps'⟩ := v
        simp only [hr, bind, Res.bind, pure, Res.ok.injEq, Prod.mk.injEq] at h
        obtain ⟨h1, h2⟩ := h
        subst h1 h2
        obtain ⟨a, b, c⟩ := ih p n p' pps' hr
        refine ⟨?_, ?_, ?_⟩
        · split <;> rfl
        · split <;> rfl
        · refine ChainRel.mk ?_ c
          exact TabRel.of_same a b
    · simp only [hb, Bool.false_eq_true, ↓reduceIte, Res.ok.injEq, Prod.mk.injEq] at h
      obtain ⟨h1, h2⟩ := h
      subst h1 h2
      refine ⟨?_, ?_, ChainRel.refl B _⟩ <;> split <;> rfl

theorem defineLocal_rel (B : Builtins) (ch : Chain) (n : Name) (ch' : Chain) (s : Symbol) (e : Bool)
    (h : defineLocal B ch n = .ok (ch', s, e)) : ChainRel B ch ch' ∧ s.scope ≠ .builtin ∨
      (ChainRel B ch ch' ∧ e = true ∧ ∃ st ps, ch = st :: ps ∧ mapGet st.store n = some s) := by
  cases ch with
  | nil => simp [defineLocal, nilDeref] at h
  | cons st ps =>
    unfold defineLocal at h
    cases hg : mapGet st.store n with
    | some sym =>
      simp only [hg, Res.ok.injEq, Prod.mk.injEq] at h
      obtain ⟨h1, h2, h3⟩ := h
      subst h1 h2 h3
      exact Or.inr ⟨ChainRel.refl B _, rfl, st, ps, rfl, hg⟩
    | none =>
      simp only [hg] at h
      cases hi : nextIndex (st :: ps) with
      | panic m => simp [hi, bind, Res.bind] at h
      | err e => simp [hi, bind, Res.bind] at h
      | ok idx =>
        simp only [hi, bind, Res.bind] at h
        cases hu : updateMaxDefs { st with numDefinition := st.numDefinition + 1, store := mapSet st.store n { name := n, index := idx, scope := .local } } ps (idx + 1) with
        | panic m => simp [hu] at h
        | err e => simp [hu] at h
        | ok v =>
          obtain ⟨st2, ps2⟩ := v
          simp only [hu, pure, Res.ok.injEq, Prod.mk.injEq] at h
          obtain ⟨h1, h2, h3⟩ := h
          subst h1 h2 h3
          obtain ⟨a, b, c⟩ := updateMaxDefs_rel B ps _ _ _ _ hu
          refine Or.inl ⟨ChainRel.mk ?_ c, by simp⟩
          have hsb := shadowBuiltin_store B st2 n
          exact TabRel.of_set (k := n) (v := { name := n, index := idx, scope := .local })
            (by rw [hsb.1, a]) (by rw [hsb.2, b]) (by simp)


theorem defineFree_rel (B : Builtins) (r : Bool) (st : Tab) (orig : Symbol) :
    TabRel B r st (defineFree B st orig).1 ∧ (defineFree B st orig).2.scope = .free := by
  unfold defineFree
  refine ⟨?_, rfl⟩
  have hsb := shadowBuiltin_store B
    { st with frees := st.frees ++ [orig],
              store := mapSet st.store orig.name
                { name := orig.name, index := ((st.frees ++ [orig]).length : Int) - 1, scope := .free,
                  constant := orig.constant } } orig.name
  exact TabRel.of_set (k := orig.name)
    (v := { name := orig.name, index := ((st.frees ++ [orig]).length : Int) - 1, scope := .free,
            constant := orig.constant })
    (by rw [hsb.1]) (by rw [hsb.2]) (by simp)

/-- what `Resolve` guarantees about a BUILTIN answer -/
def BuiltinAnswer (B : Builtins) (ch : Chain) (n : Name) (s : Symbol) : Prop :=
  n ∉ rootDisabled ch ∧ s.name = n ∧ mapGet B n = some s.index.toNat ∧ 0 ≤ s.index

theorem resolve_rel (B : Builtins) (n : Name) : ∀ (ch ch' : Chain) (r : Option Symbol),
    ChainOK B ch → resolve B ch n = .ok (ch', r) →
    ChainRel B ch ch' ∧ (∀ s, r = some s → s.scope = .builtin → BuiltinAnswer B ch n s) := by
  intro ch
  induction ch with
  | nil => intro ch' r _ h; simp [resolve, nilDeref] at h
  | cons st ps ih =>
    intro ch' r hok h
    unfold resolve at h
    cases hg : mapGet st.store n with
    | some sym =>
      simp only [hg, Res.ok.injEq, Prod.mk.injEq] at h
      obtain ⟨h1, h2⟩ := h
      subst h1 h2
      refine ⟨ChainRel.refl B _, ?_⟩
      intro s hs hb
      cases hs
      obtain ⟨hr, hbo⟩ := hok.head n sym hg hb
      have hps : ps = [] := by cases ps <;> simp_all
      subst hps
      simpa [BuiltinAnswer, Sym.rootDisabled, rootTab, BuiltinOK] using hbo
    | none =>
      simp only [hg] at h
      cases ps with
      | nil =>
        by_cases hd : memDisabled st n = true
        · simp only [hd, Bool.not_true, Bool.false_eq_true, ↓reduceIte, Res.ok.injEq, Prod.mk.injEq] at h
          obtain ⟨h1, h2⟩ := h
          subst h1 h2
          exact ⟨ChainRel.refl B _, by intro s hs; cases hs⟩
        · have hd' : memDisabled st n = false := by simpa using hd
          simp only [hd', Bool.not_false, ↓reduceIte] at h
          have hnd : n ∉ disabledSet st := by
            unfold disabledSet
            unfold memDisabled at hd'
            cases hdb : st.disabledBuiltins with
            | none => simp
            | some d => simpa [hdb] using hd'
          cases hb : mapGet B n with
          | none =>
            simp only [hb, Res.ok.injEq, Prod.mk.injEq] at h
            obtain ⟨h1, h2⟩ := h
            subst h1 h2
            exact ⟨ChainRel.refl B _, by intro s hs; cases hs⟩
          | some idx =>
            simp only [hb, Res.ok.injEq, Prod.mk.injEq] at h
            obtain ⟨h1, h2⟩ := h
            subst h1 h2
            refine ⟨⟨⟨fun _ h => h, ?_⟩, trivial⟩, ?_⟩
            · intro hst k s hk hsb
              simp only [mapGet_mapSet] at hk
              by_cases hkn : n = k
              · subst hkn
                simp only [↓reduceIte, Option.some.injEq] at hk
                subst hk
                exact ⟨rfl, by simpa [disabledSet] using hnd, rfl, by simpa using hb, by simp⟩
              · simp only [hkn, ↓reduceIte] at hk
                have := hst k s hk hsb
                simpa [BuiltinOK, disabledSet] using this
            · intro s hs _
              cases hs
              exact ⟨by simpa [Sym.rootDisabled, rootTab] using hnd, rfl, by simpa using hb, by simp⟩
      | cons p pps =>
        cases hr : resolve B (p :: pps) n with
        | panic m => simp [hr] at h
        | err e => simp [hr] at h
        | ok v =>
          obtain ⟨ps', r'⟩ := v
          obtain ⟨hrel, hans⟩ := ih ps' r' hok.tail hr
          have hemp : ps'.isEmpty = (p :: pps).isEmpty := hrel.isEmpty
          cases r' with
          | none =>
            simp only [hr, Res.ok.injEq, Prod.mk.injEq] at h
            obtain ⟨h1, h2⟩ := h
            subst h1 h2
            exact ⟨ChainRel.mk (TabRel.refl B _ _) hrel, by intro s hs; cases hs⟩
          | some symbol =>
            simp only [hr] at h
            split at h
            · simp only [Res.ok.injEq, Prod.mk.injEq] at h
              obtain ⟨h1, h2⟩ := h
              subst h1 h2
              obtain ⟨a, b⟩ := defineFree_rel B (p :: pps).isEmpty st symbol
              refine ⟨ChainRel.mk a hrel, ?_⟩
              intro s hs hsb
              cases hs
              rw [b] at hsb; cases hsb
            · simp only [Res.ok.injEq, Prod.mk.injEq] at h
              obtain ⟨h1, h2⟩ := h
              subst h1 h2
              refine ⟨ChainRel.mk (TabRel.refl B _ _) hrel, ?_⟩
              intro s hs hsb
              have := hans s hs hsb
              simpa [BuiltinAnswer, Sym.rootDisabled, rootTab] using this


theorem defineConstLit_rel (B : Builtins) (ch : Chain) (n : Name) (ch' : Chain) (s : Symbol) (e : Bool)
    (h : defineConstLit B ch n = .ok (ch', s, e)) : ChainRel B ch ch' := by
  cases ch with
  | nil => simp [defineConstLit, nilDeref] at h
  | cons st ps =>
    unfold defineConstLit at h
    cases hg : mapGet st.store n with
    | some sym =>
      simp only [hg, Res.ok.injEq, Prod.mk.injEq] at h
      obtain ⟨h1, _, _⟩ := h
      subst h1
      exact ChainRel.refl B _
    | none =>
      simp only [hg, Res.ok.injEq, Prod.mk.injEq] at h
      obtain ⟨h1, _, _⟩ := h
      subst h1
      refine ChainRel.mk ?_ (ChainRel.refl B _)
      have hsb := shadowBuiltin_store B
        { st with hasConstLit := true,
                  store := mapSet st.store n { name := n, index := -1, scope := .constLit, constant := true } } n
      exact TabRel.of_set (k := n) (v := { name := n, index := -1, scope := .constLit, constant := true })
        (by rw [hsb.1]) (by rw [hsb.2]) (by simp)

theorem defineGlobal_rel (B : Builtins) (q : String) (ch : Chain) (n : Name) (ch' : Chain) (r : GlobalRes)
    (h : defineGlobal B q ch n = .ok (ch', r)) : ChainRel B ch ch' := by
  cases ch with
  | nil => simp [defineGlobal, nilDeref] at h
  | cons st ps =>
    unfold defineGlobal at h
    cases ps with
    | cons p pps =>
      simp only [Res.ok.injEq, Prod.mk.injEq] at h
      obtain ⟨h1, _⟩ := h
      subst h1
      exact ChainRel.refl B _
    | nil =>
      simp only at h
      cases hg : mapGet st.store n with
      | some sym =>
        simp only [hg] at h
        split at h <;>
        · simp only [Res.ok.injEq, Prod.mk.injEq] at h
          obtain ⟨h1, _⟩ := h
          subst h1
          exact ChainRel.refl B _
      | none =>
        simp only [hg, Res.ok.injEq, Prod.mk.injEq] at h
        obtain ⟨h1, _⟩ := h
        subst h1
        refine ChainRel.mk ?_ trivial
        have hsb := shadowBuiltin_store B
          { st with store := mapSet st.store n { name := n, index := -1, scope := .global } } n
        exact TabRel.of_set (k := n) (v := { name := n, index := -1, scope := .global })
          (by rw [hsb.1]) (by rw [hsb.2]) (by simp)

theorem setParamsLoop_rel (B : Builtins) (q : Name → String) : ∀ (params : List Name) (st : Tab) (ps : Chain)
    (st' : Tab) (ps' : Chain) (e : Option String),
    setParamsLoop B q params st ps = .ok (st', ps', e) → ChainRel B (st :: ps) (st' :: ps') := by
  intro params
  induction params with
  | nil =>
    intro st ps st' ps' e h
    simp only [setParamsLoop, Res.ok.injEq, Prod.mk.injEq] at h
    obtain ⟨h1, h2, _⟩ := h
    subst h1 h2
    exact ChainRel.refl B _
  | cons param rest ih =>
    intro st ps st' ps' e h
    unfold setParamsLoop at h
    cases hg : mapGet st.store param with
    | some sym =>
      simp only [hg, Res.ok.injEq, Prod.mk.injEq] at h
      obtain ⟨h1, h2, _⟩ := h
      subst h1 h2
      exact ChainRel.refl B _
    | none =>
      simp only [hg] at h
      cases hi : nextIndex (st :: ps) with
      | panic m => simp [hi, bind, Res.bind] at h
      | err e => simp [hi, bind, Res.bind] at h
      | ok idx =>
        simp only [hi, bind, Res.bind] at h
        cases hu : updateMaxDefs { st with numDefinition := st.numDefinition + 1, store := mapSet st.store param { name := param, index := idx, scope := .local } } ps (idx + 1) with
        | panic m => simp [hu] at h
        | err e => simp [hu] at h
        | ok v =>
          obtain ⟨st2, ps2⟩ := v
          simp only [hu] at h
          obtain ⟨a, b, c⟩ := updateMaxDefs_rel B ps _ _ _ _ hu
          have hsb := shadowBuiltin_store B st2 param
          have h1 : ChainRel B (st :: ps) (shadowBuiltin B st2 param :: ps2) :=
            ChainRel.mk (TabRel.of_set (k := param) (v := { name := param, index := idx, scope := .local })
              (by rw [hsb.1, a]) (by rw [hsb.2, b]) (by simp)) c
          exact ChainRel.trans h1 (ih _ _ _ _ _ h)

theorem setParams_rel (B : Builtins) (q : Name → String) (ch : Chain) (ns : List Name) (ch' : Chain)
    (e : Option String) (h : setParams B q ch ns = .ok (ch', e)) : ChainRel B ch ch' := by
  unfold setParams at h
  split at h
  · simp only [Res.ok.injEq, Prod.mk.injEq] at h; obtain ⟨h1, _⟩ := h; subst h1; exact ChainRel.refl B _
  · cases ch with
    | nil => simp [nilDeref] at h
    | cons st ps =>
      simp only at h
      split at h
      · simp only [Res.ok.injEq, Prod.mk.injEq] at h; obtain ⟨h1, _⟩ := h; subst h1; exact ChainRel.refl B _
      · split at h
        · simp only [Res.ok.injEq, Prod.mk.injEq] at h; obtain ⟨h1, _⟩ := h; subst h1; exact ChainRel.refl B _
        · cases hl : setParamsLoop B q ns { st with numParams := (ns.length : Int) } ps with
          | panic m => simp [hl, bind, Res.bind] at h
          | err e => simp [hl, bind, Res.bind] at h
          | ok v =>
            obtain ⟨st2, ps2, e2⟩ := v
            simp only [hl, bind, Res.bind, pure, Res.ok.injEq, Prod.mk.injEq] at h
            obtain ⟨h1, _⟩ := h
            subst h1
            have h1 : ChainRel B (st :: ps) ({ st with numParams := (ns.length : Int) } :: ps) :=
              ChainRel.mk (TabRel.of_same rfl rfl) (ChainRel.refl B _)
            exact ChainRel.trans h1 (setParamsLoop_rel B q _ _ _ _ _ _ hl)

theorem enableParams_rel (B : Builtins) (ch : Chain) (v : Bool) (ch' : Chain)
    (h : enableParams ch v = .ok ch') : ChainRel B ch ch' := by
  cases ch with
  | nil => simp [enableParams, nilDeref] at h
  | cons st ps =>
    simp only [enableParams, Res.ok.injEq] at h
    subst h
    exact ChainRel.mk (TabRel.of_same rfl rfl) (ChainRel.refl B _)

/-! ### DisableBuiltin -/

theorem memDisabled_iff (t : Tab) (n : Name) : memDisabled t n = true ↔ n ∈ disabledSet t := by
  unfold memDisabled disabledSet
  cases t.disabledBuiltins <;> simp

theorem disableOne_rel (B : Builtins) (r : Tab) (n : Name) :
    TabRel B true r (disableOne r n) ∧ n ∈ disabledSet (disableOne r n) ∧
    ((disableOne r n).store = r.store ∨ (disableOne r n).store = mapDelete r.store n) := by
  have key : ∀ t : Tab, t.disabledBuiltins = some (setAdd (r.disabledBuiltins.getD []) n) →
      (t.store = r.store ∨ (t.store = mapDelete r.store n)) →
      (t.store = r.store → ∀ s, mapGet r.store n = some s → s.scope ≠ .builtin) →
      TabRel B true r t ∧ n ∈ disabledSet t := by
    intro t hd hs hnb
    refine ⟨⟨?_, ?_⟩, ?_⟩
    · intro x hx
      simp only [disabledSet, hd, Option.getD_some, mem_setAdd]
      exact Or.inl hx
    · intro hok k s hk hsb
      have hk' : mapGet r.store k = some s ∧ k ≠ n := by
        rcases hs with hs | hs
        · rw [hs] at hk
          refine ⟨hk, ?_⟩
          intro hkn; subst hkn
          exact hnb hs s hk hsb
        · rw [hs, mapGet_mapDelete] at hk
          by_cases hnk : n = k
          · simp [hnk] at hk
          · simp only [hnk, ↓reduceIte] at hk
            exact ⟨hk, fun h => hnk h.symm⟩
      obtain ⟨h1, h2, h3⟩ := hok k s hk'.1 hsb
      refine ⟨h1, ?_, h3⟩
      simp only [disabledSet, hd, Option.getD_some, mem_setAdd]
      rintro (hx | hx)
      · exact h2 hx
      · exact hk'.2 hx
    · simp [disabledSet, hd, mem_setAdd]
  unfold disableOne
  cases hg : mapGet r.store n with
  | none =>
    simp only [hg]
    obtain ⟨a, b⟩ := key { r with disabledBuiltins := some (setAdd (r.disabledBuiltins.getD []) n) } rfl (by simp)
      (by intro _ s hs; rw [hg] at hs; cases hs)
    exact ⟨a, b, by simp⟩
  | some s =>
    simp only [hg]
    by_cases hsb : s.scope = .builtin
    · simp only [hsb, ↓reduceIte]
      obtain ⟨a, b⟩ := key { r with disabledBuiltins := some (setAdd (r.disabledBuiltins.getD []) n),
                                    store := mapDelete r.store n } rfl (by simp)
        (by
          intro hst s' hs'
          -- the store did not change: then `n` was not stored at all
          have : mapGet (mapDelete r.store n) n = mapGet r.store n := by
            have h2 : (mapDelete r.store n) = r.store := hst
            rw [h2]
          rw [mapGet_mapDelete] at this
          simp [hs'] at this)
      exact ⟨a, b, by simp⟩
    · simp only [hsb, ↓reduceIte]
      obtain ⟨a, b⟩ := key { r with disabledBuiltins := some (setAdd (r.disabledBuiltins.getD []) n) } rfl (by simp)
        (by intro _ s' hs'; rw [hg] at hs'; cases hs'; exact hsb)
      exact ⟨a, b, by simp⟩

theorem initDisabled_rel (B : Builtins) (r : Tab) : TabRel B true r (initDisabled r) := by
  unfold initDisabled
  split
  · rename_i h
    refine ⟨?_, ?_⟩
    · intro n hn; simp [disabledSet, h] at hn
    · intro hok k s hk hsb
      obtain ⟨h1, h2, h3⟩ := hok k s hk hsb
      exact ⟨h1, by simp [disabledSet], h3⟩
  · exact TabRel.refl B _ _

theorem foldl_disableOne_rel (B : Builtins) : ∀ (ns : List Name) (r : Tab),
    TabRel B true r (ns.foldl disableOne r) ∧ (∀ n ∈ ns, n ∈ disabledSet (ns.foldl disableOne r)) ∧
    (r.store = [] → (ns.foldl disableOne r).store = [])
  | [], r => ⟨TabRel.refl B _ _, by simp, id⟩
  | n :: ns, r => by
    obtain ⟨a, b, c⟩ := disableOne_rel B r n
    obtain ⟨a', b', c'⟩ := foldl_disableOne_rel B ns (disableOne r n)
    refine ⟨TabRel.trans a a', ?_, ?_⟩
    · intro x hx
      simp only [List.mem_cons] at hx
      rcases hx with hx | hx
      · subst hx; exact a'.1 _ b
      · exact b' x hx
    · intro he
      apply c'
      rcases c with c | c
      · rw [c, he]
      · rw [c, he]; rfl

theorem modifyRoot_rel (B : Builtins) (f : Tab → Tab) (hf : ∀ r, TabRel B true r (f r)) :
    ∀ (ch ch' : Chain), modifyRoot f ch = .ok ch' →
      ChainRel B ch ch' ∧ ∀ r, rootTab ch = some r → rootTab ch' = some (f r) := by
  intro ch
  induction ch with
  | nil => intro ch' h; simp [modifyRoot, nilDeref] at h
  | cons st ps ih =>
    intro ch' h
    cases ps with
    | nil =>
      simp only [modifyRoot, Res.ok.injEq] at h
      subst h
      exact ⟨⟨hf st, trivial⟩, by intro r hr; simp only [rootTab, Option.some.injEq] at hr; subst hr; rfl⟩
    | cons p pps =>
      unfold modifyRoot at h
      cases hm : modifyRoot f (p :: pps) with
      | panic m => simp [hm, bind, Res.bind] at h
      | err e => simp [hm, bind, Res.bind] at h
      | ok r' =>
        simp only [hm, bind, Res.bind, pure, Res.ok.injEq] at h
        subst h
        obtain ⟨a, b⟩ := ih r' hm
        refine ⟨ChainRel.mk (TabRel.refl B _ _) a, ?_⟩
        intro r hr
        have hne : r' ≠ [] := by
          intro he; subst he; exact a.elim
        rw [rootTab_cons_ne_nil st hne]
        exact b r (by simpa [rootTab] using hr)

theorem disableBuiltin_rel (B : Builtins) (ch : Chain) (ns : List Name) (ch' : Chain)
    (h : disableBuiltin ch ns = .ok ch') :
    ChainRel B ch ch' ∧ (ch ≠ [] → ∀ n ∈ ns, n ∈ rootDisabled ch') := by
  unfold disableBuiltin at h
  split at h
  · simp only [Res.ok.injEq] at h; subst h
    rename_i hl
    refine ⟨ChainRel.refl B _, ?_⟩
    intro _ n hn
    have : ns = [] := List.eq_nil_of_length_eq_zero hl
    subst this; cases hn
  · obtain ⟨a, b⟩ := modifyRoot_rel B (fun r => ns.foldl disableOne (initDisabled r))
      (fun r => TabRel.trans (initDisabled_rel B r) (foldl_disableOne_rel B ns _).1) ch ch' h
    refine ⟨a, ?_⟩
    intro hne n hn
    cases hr : rootTab ch with
    | none =>
      cases ch with
      | nil => exact absurd rfl hne
      | cons st ps =>
        exfalso
        clear a b h
        induction ps generalizing st with
        | nil => simp [rootTab] at hr
        | cons p pps ih => exact ih p (by intro h; cases h) (by simpa [rootTab] using hr)
    | some r =>
      simp only [Sym.rootDisabled, b r hr]
      exact (foldl_disableOne_rel B ns _).2.1 n hn

end UgoVerif.Proofs.Sym
