import UgoVerif.Proofs.OptimSound
/-
  Soundness of `Model.Optim.transform` (one call on an expression node) by recursion over the node.
-/
namespace UgoVerif.Proofs.OptimSem
open UgoVerif UgoVerif.Go UgoVerif.Ast UgoVerif.VM UgoVerif.Sem UgoVerif.Proofs.ModCache
open UgoVerif.Model.Optim
set_option linter.unusedSimpArgs false
set_option linter.unusedVariables false

/-- what one `transform` call guarantees -/
structure TOk (F : FloatOps) (st st' : OSt) (e e' : Expr) (ok : Bool) : Prop where
  eq : EvalEq F e e'
  lit : ok = true → isLit e' = true
  errs : ErrsFrom F st.errors st'.errors e

theorem litVal_of_isLit (F : FloatOps) {e : Expr} (h : isLit e = true) : ∃ v, LitVal F e v := by
  cases e <;> simp only [isLit, Bool.false_eq_true] at h <;>
    exact ⟨_, rfl, fun f env => by rw [Sem.evalExpr]⟩

theorem tok_leaf (F : FloatOps) (st : OSt) (e : Expr) : TOk F st (leaveLevel (enterLevel st)) e e false :=
  ⟨EvalEq.refl F e, fun h => (by cases h), ErrsFrom.none _ _ _⟩

theorem evalEq_paren_lit {F : FloatOps} {p : Pos} {x x' : Expr} (hl : isLit x' = true) (h : EvalEq F x x') :
    EvalEq F (.paren p x) x' := by
  obtain ⟨v, hv⟩ := litVal_of_isLit F hl
  intro fuel env
  cases fuel with
  | zero => exact Refines.of_fails (fails_zero F env _)
  | succ f => rw [eval_paren]; exact evalEq_lit_fuel hv h f env

theorem transform_sound (F : FloatOps) (hfact : BinFoldFact F) (lineOf : Pos → Nat) :
    ∀ (e : Expr) (st : OSt) (e' : Expr) (ok : Bool) (st' : OSt),
      transform F lineOf st e = some (e', ok, st') → TOk F st st' e e' ok
  | .int p v, st, e', ok, st', h => by simp only [transform, Option.some.injEq, Prod.mk.injEq] at h; obtain ⟨rfl, rfl, rfl⟩ := h; exact tok_leaf F st _
  | .uint p v, st, e', ok, st', h => by simp only [transform, Option.some.injEq, Prod.mk.injEq] at h; obtain ⟨rfl, rfl, rfl⟩ := h; exact tok_leaf F st _
  | .float p v, st, e', ok, st', h => by simp only [transform, Option.some.injEq, Prod.mk.injEq] at h; obtain ⟨rfl, rfl, rfl⟩ := h; exact tok_leaf F st _
  | .char p v, st, e', ok, st', h => by simp only [transform, Option.some.injEq, Prod.mk.injEq] at h; obtain ⟨rfl, rfl, rfl⟩ := h; exact tok_leaf F st _
  | .bool p v, st, e', ok, st', h => by simp only [transform, Option.some.injEq, Prod.mk.injEq] at h; obtain ⟨rfl, rfl, rfl⟩ := h; exact tok_leaf F st _
  | .str p v, st, e', ok, st', h => by simp only [transform, Option.some.injEq, Prod.mk.injEq] at h; obtain ⟨rfl, rfl, rfl⟩ := h; exact tok_leaf F st _
  | .undef p, st, e', ok, st', h => by simp only [transform, Option.some.injEq, Prod.mk.injEq] at h; obtain ⟨rfl, rfl, rfl⟩ := h; exact tok_leaf F st _
  | .ident p n, st, e', ok, st', h => by simp only [transform, Option.some.injEq, Prod.mk.injEq] at h; obtain ⟨rfl, rfl, rfl⟩ := h; exact tok_leaf F st _
  | .paren p x, st, e', ok, st', h => by
    simp only [transform] at h
    cases hx : transform F lineOf (enterLevel st) x with
    | none => simp [hx] at h
    | some r =>
      obtain ⟨x', okx, st1⟩ := r
      have ih := transform_sound F hfact lineOf x _ _ _ _ hx
      simp only [hx] at h
      have herr : ErrsFrom F st.errors st1.errors (.paren p x) :=
        ErrsFrom.mono (fun y hy => Sub.paren p hy) ih.errs
      cases okx with
      | true =>
        simp only [if_true, Option.some.injEq, Prod.mk.injEq] at h
        obtain ⟨rfl, rfl, rfl⟩ := h
        exact ⟨evalEq_paren_lit (ih.lit rfl) ih.eq, fun _ => ih.lit rfl, herr⟩
      | false =>
        simp only [Bool.false_eq_true, if_false, Option.some.injEq, Prod.mk.injEq] at h
        obtain ⟨rfl, rfl, rfl⟩ := h
        exact ⟨evalEq_paren ih.eq, fun h => (by cases h), herr⟩
  | .unary p tok x, st, e', ok, st', h => by
    simp only [transform] at h
    cases hx : transform F lineOf (enterLevel st) x with
    | none => simp [hx] at h
    | some r =>
      obtain ⟨x', okx, st1⟩ := r
      have ih := transform_sound F hfact lineOf x _ _ _ _ hx
      simp only [hx] at h
      have herr : ErrsFrom F st.errors st1.errors (.unary p tok x) :=
        ErrsFrom.mono (fun y hy => Sub.unary p tok hy) ih.errs
      have hcong : EvalEq F (.unary p tok x) (.unary x'.pos tok x') := evalEq_unary ih.eq
      cases hf : foldUnary F tok x' with
      | none => simp [hf] at h
      | some fo =>
        cases fo with
        | some lit =>
          simp only [hf, Option.some.injEq, Prod.mk.injEq] at h
          obtain ⟨rfl, rfl, rfl⟩ := h
          have hs := foldUnary_sound (p := x'.pos) hf
          exact ⟨EvalEq.trans hcong hs.1, fun _ => hs.2, herr⟩
        | none =>
          simp only [hf] at h
          cases hev : Model.Optim.evalExpr F lineOf st1 (.unary x'.pos tok x') with
          | none => simp [hev] at h
          | some r2 =>
            obtain ⟨ro, st2⟩ := r2
            have hs := evalExpr_sound F lineOf hev
            have herr2 : ErrsFrom F st.errors st2.errors (.unary p tok x) :=
              ErrsFrom.trans herr (hs.2.to_from hcong)
            cases ro with
            | some e2 =>
              simp only [hev, Option.some.injEq, Prod.mk.injEq] at h
              obtain ⟨rfl, rfl, rfl⟩ := h
              exact ⟨EvalEq.trans hcong (hs.1 _ rfl).1, fun _ => (hs.1 _ rfl).2, herr2⟩
            | none =>
              simp only [hev, Option.some.injEq, Prod.mk.injEq] at h
              obtain ⟨rfl, rfl, rfl⟩ := h
              exact ⟨hcong, fun h => (by cases h), herr2⟩
  | .binary p tok l r, st, e', ok, st', h => by
    simp only [transform] at h
    cases hl : transform F lineOf (enterLevel st) l with
    | none => simp [hl] at h
    | some rl =>
      obtain ⟨l', okl, st1⟩ := rl
      have ihl := transform_sound F hfact lineOf l _ _ _ _ hl
      simp only [hl] at h
      cases hr : transform F lineOf st1 r with
      | none => simp [hr] at h
      | some rr =>
        obtain ⟨r', okr, st2⟩ := rr
        have ihr := transform_sound F hfact lineOf r _ _ _ _ hr
        simp only [hr] at h
        have herr : ErrsFrom F st.errors st2.errors (.binary p tok l r) :=
          ErrsFrom.trans (ErrsFrom.mono (fun y hy => Sub.binL p tok r hy) ihl.errs)
            (ErrsFrom.mono (fun y hy => Sub.binR p tok l hy) ihr.errs)
        have hcong : EvalEq F (.binary p tok l r) (.binary l'.pos tok l' r') := evalEq_binary ihl.eq ihr.eq
        cases hf : foldBinary F tok l' r' with
        | none => simp [hf] at h
        | some fo =>
          cases fo with
          | some lit =>
            simp only [hf, Option.some.injEq, Prod.mk.injEq] at h
            obtain ⟨rfl, rfl, rfl⟩ := h
            have hs := foldBinary_sound hfact (p := l'.pos) hf
            exact ⟨EvalEq.trans hcong hs.1, fun _ => hs.2, herr⟩
          | none =>
            simp only [hf] at h
            cases hev : Model.Optim.evalExpr F lineOf st2 (.binary l'.pos tok l' r') with
            | none => simp [hev] at h
            | some r2 =>
              obtain ⟨ro, st3⟩ := r2
              have hs := evalExpr_sound F lineOf hev
              have herr2 : ErrsFrom F st.errors st3.errors (.binary p tok l r) :=
                ErrsFrom.trans herr (hs.2.to_from hcong)
              cases ro with
              | some e2 =>
                simp only [hev, Option.some.injEq, Prod.mk.injEq] at h
                obtain ⟨rfl, rfl, rfl⟩ := h
                exact ⟨EvalEq.trans hcong (hs.1 _ rfl).1, fun _ => (hs.1 _ rfl).2, herr2⟩
              | none =>
                simp only [hev, Option.some.injEq, Prod.mk.injEq] at h
                obtain ⟨rfl, rfl, rfl⟩ := h
                exact ⟨hcong, fun h => (by cases h), herr2⟩
  | .cond p c t f, st, e', ok, st', h => by
    simp only [transform] at h
    cases hc : transform F lineOf (enterLevel st) c with
    | none => simp [hc] at h
    | some rc =>
      obtain ⟨c1, okc, st1⟩ := rc
      have ihc := transform_sound F hfact lineOf c _ _ _ _ hc
      simp only [hc] at h
      cases hc2 : evalStep F lineOf st1 c1 with
      | none => simp [hc2] at h
      | some rc2 =>
        obtain ⟨c2, st2⟩ := rc2
        have hsc := evalStep_sound F lineOf hc2
        simp only [hc2] at h
        cases hc3 : condLit F c2 with
        | none => simp [hc3] at h
        | some c3 =>
          simp only [hc3] at h
          cases ht : transform F lineOf st2 t with
          | none => simp [ht] at h
          | some rt =>
            obtain ⟨t1, okt, st3⟩ := rt
            have iht := transform_sound F hfact lineOf t _ _ _ _ ht
            simp only [ht] at h
            cases ht2 : evalStep F lineOf st3 t1 with
            | none => simp [ht2] at h
            | some rt2 =>
              obtain ⟨t2, st4⟩ := rt2
              have hst := evalStep_sound F lineOf ht2
              simp only [ht2] at h
              cases hf : transform F lineOf st4 f with
              | none => simp [hf] at h
              | some rf =>
                obtain ⟨f1, okf, st5⟩ := rf
                have ihf := transform_sound F hfact lineOf f _ _ _ _ hf
                simp only [hf] at h
                cases hf2 : evalStep F lineOf st5 f1 with
                | none => simp [hf2] at h
                | some rf2 =>
                  obtain ⟨f2, st6⟩ := rf2
                  have hsf := evalStep_sound F lineOf hf2
                  simp only [hf2, Option.some.injEq, Prod.mk.injEq] at h
                  obtain ⟨rfl, rfl, rfl⟩ := h
                  have hcc : EvalEq F c c2 := EvalEq.trans ihc.eq hsc.1
                  have htt : EvalEq F t t2 := EvalEq.trans iht.eq hst.1
                  have hff : EvalEq F f f2 := EvalEq.trans ihf.eq hsf.1
                  have e1 : ErrsFrom F st.errors st2.errors (.cond p c t f) :=
                    ErrsFrom.mono (fun y hy => Sub.condC p t f hy) (ErrsFrom.trans ihc.errs (hsc.2.to_from ihc.eq))
                  have e2 : ErrsFrom F st2.errors st4.errors (.cond p c t f) :=
                    ErrsFrom.mono (fun y hy => Sub.condT p c f hy) (ErrsFrom.trans iht.errs (hst.2.to_from iht.eq))
                  have e3 : ErrsFrom F st4.errors st6.errors (.cond p c t f) :=
                    ErrsFrom.mono (fun y hy => Sub.condF p c t hy) (ErrsFrom.trans ihf.errs (hsf.2.to_from ihf.eq))
                  refine ⟨?_, fun h => (by cases h), ErrsFrom.trans (ErrsFrom.trans e1 e2) e3⟩
                  exact EvalEq.trans (evalEq_cond (p' := p) hcc htt hff) (condLit_sound hc3 p _ t2 f2)
  | .array .., st, e', ok, st', h | .map .., st, e', ok, st', h | .index .., st, e', ok, st', h
  | .selector .., st, e', ok, st', h | .slice .., st, e', ok, st', h | .call .., st, e', ok, st', h
  | .func .., st, e', ok, st', h | .import_ .., st, e', ok, st', h => by simp [transform] at h

end UgoVerif.Proofs.OptimSem
