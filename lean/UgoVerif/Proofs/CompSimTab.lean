import UgoVerif.Proofs.CompSimCompile
/-
  C02, compile ⊑ Sem, statement slice — what the simulation needs of the symbol tables
  (`Model/Compile` = symbol_table.go):

  * `localIdx` (the slot a name resolves to, if it is a local of the current function) is a plain
    lookup through the block tables of the function (`locOf`): it depends on `store` and `block` of
    the tables only;
  * `Tl`: tables equal up to `maxDefinition` (which only grows) — what `updateMaxDefs` does to the
    enclosing tables; `localIdx`, `nextIndex` are invariant, `fnMax` (the `NumLocals` of the
    function) grows;
  * a block (`Fork(true)` … `Parent`) leaves the enclosing tables `Tl`-related: the slot of a
    variable is stable while the variable is in scope;
  * `DefineLocal` of a new name gives it the slot `nextIndex`, above every slot in use, and raises
    `fnMax` above it; the other names keep their slots.
-/
set_option linter.unusedSimpArgs false
set_option linter.unusedVariables false
namespace UgoVerif.CompSim
open UgoVerif UgoVerif.Go UgoVerif.Ast UgoVerif.Compile

/-! ### lookups in a store -/

theorem lookupSym_putSym_eq (n : String) (sym : Symbol) : ∀ st : List (String × Symbol), lookupSym n (putSym n sym st) = some sym
  | [] => by simp [putSym, lookupSym]
  | (k, v) :: r => by
    simp only [putSym]
    split
    · simp [lookupSym]
    · rename_i h
      simp only [lookupSym, h, Bool.false_eq_true, if_false]
      exact lookupSym_putSym_eq n sym r

theorem lookupSym_putSym_ne (n m : String) (sym : Symbol) (h : m ≠ n) :
    ∀ st : List (String × Symbol), lookupSym m (putSym n sym st) = lookupSym m st
  | [] => by
    have : (n == m) = false := by simpa using fun e => h e.symm
    simp [putSym, lookupSym, this]
  | (k, v) :: r => by
    simp only [putSym]
    split
    · rename_i hk
      have hk' : k = n := by simpa using hk
      have : (n == m) = false := by simpa using fun e => h e.symm
      subst hk'
      simp [lookupSym, this]
    · simp only [lookupSym]
      split
      · rfl
      · exact lookupSym_putSym_ne n m sym h r

/-! ### `localIdx` as a lookup through block tables -/

def locOf (n : String) : List Table → Option Symbol
  | [] => none
  | t :: rest =>
    match lookupSym n t.store with
    | some sym => some sym
    | none => if t.block then locOf n rest else none

theorem resolveIn_of_locOf (bs : List (String × Nat)) (d : List String) (n : String) :
    ∀ (ts : List Table) (sym : Symbol), locOf n ts = some sym → (resolveIn bs d n ts).1 = some sym
  | [], _, h => by simp [locOf] at h
  | t :: rest, sym, h => by
    unfold locOf at h
    unfold resolveIn
    cases hl : lookupSym n t.store with
    | some s0 =>
      rw [hl] at h
      simp only [Option.some.injEq] at h
      simp [h]
    | none =>
      rw [hl] at h
      simp only at h
      split at h
      · rename_i hb
        cases rest with
        | nil => simp [locOf] at h
        | cons t2 r2 =>
          have ih := resolveIn_of_locOf bs d n (t2 :: r2) sym h
          simp only
          cases hr : resolveIn bs d n (t2 :: r2) with
          | mk r rest' =>
            rw [hr] at ih
            simp only at ih
            subst ih
            simp [hb]
      · cases h

theorem locOf_of_resolveIn (bs : List (String × Nat)) (d : List String) (n : String) :
    ∀ (ts : List Table) (sym : Symbol), (resolveIn bs d n ts).1 = some sym → sym.scope = .local_ → locOf n ts = some sym
  | [], _, h, _ => by simp [resolveIn] at h
  | t :: rest, sym, h, hs => by
    unfold resolveIn at h
    unfold locOf
    cases hl : lookupSym n t.store with
    | some s0 =>
      rw [hl] at h
      simpa using h
    | none =>
      rw [hl] at h
      simp only at h ⊢
      cases rest with
      | nil =>
        simp only at h
        split at h
        · split at h
          · simp only [Option.some.injEq] at h
            rw [← h] at hs
            simp at hs
          · simp at h
        · simp at h
      | cons t2 r2 =>
        simp only at h
        cases hr : resolveIn bs d n (t2 :: r2) with
        | mk r rest' =>
          rw [hr] at h
          simp only at h
          cases r with
          | none => simp at h
          | some sym0 =>
            simp only at h
            split at h
            · simp only [Option.some.injEq] at h
              rw [← h] at hs
              simp at hs
            · rename_i hcond
              simp only [Option.some.injEq] at h
              subst h
              have hb : t.block = true := by
                cases hbk : t.block with
                | true => rfl
                | false => simp [hbk, hs] at hcond
              simp only [hb, if_true]
              exact locOf_of_resolveIn bs d n (t2 :: r2) sym0 (by rw [hr]) hs

/-- the slot of a symbol that is a local -/
def slotOf : Option Symbol → Option Nat
  | some sym => if sym.scope = .local_ ∧ 0 ≤ sym.index then some sym.index.toNat else none
  | none => none

theorem localIdx_eq (cs : CState) (n : String) : localIdx cs n = slotOf (locOf n cs.tables) := by
  unfold localIdx
  cases hr : (resolveIn cs.builtins (rootDisabled cs.tables) n cs.tables).1 with
  | none =>
    cases hl : locOf n cs.tables with
    | none => rfl
    | some sym =>
      have := resolveIn_of_locOf cs.builtins (rootDisabled cs.tables) n cs.tables sym hl
      rw [hr] at this; cases this
  | some sym =>
    simp only
    by_cases hs : sym.scope = .local_
    · rw [locOf_of_resolveIn _ _ _ _ _ hr hs]
      rfl
    · have h1 : ¬ (sym.scope = .local_ ∧ 0 ≤ sym.index) := fun h => hs h.1
      rw [if_neg h1]
      cases hl : locOf n cs.tables with
      | none => rfl
      | some sym' =>
        have := resolveIn_of_locOf cs.builtins (rootDisabled cs.tables) n cs.tables sym' hl
        rw [hr] at this
        simp only [Option.some.injEq] at this
        subst this
        simp [slotOf, h1]

/-! ### tables equal up to `maxDefinition` -/

structure TSame (t t' : Table) : Prop where
  store : t'.store = t.store
  block : t'.block = t.block
  numDef : t'.numDefinition = t.numDefinition
  max : t.maxDefinition ≤ t'.maxDefinition
  params : t'.numParams = t.numParams

theorem TSame.refl (t : Table) : TSame t t := ⟨rfl, rfl, rfl, Nat.le_refl _, rfl⟩
theorem TSame.trans {a b c : Table} (h1 : TSame a b) (h2 : TSame b c) : TSame a c :=
  ⟨h2.store.trans h1.store, h2.block.trans h1.block, h2.numDef.trans h1.numDef, Nat.le_trans h1.max h2.max,
   h2.params.trans h1.params⟩

inductive Tl : List Table → List Table → Prop
  | nil : Tl [] []
  | cons {t t' : Table} {r r' : List Table} : TSame t t' → Tl r r' → Tl (t :: r) (t' :: r')

theorem Tl.refl : ∀ ts : List Table, Tl ts ts
  | [] => .nil
  | t :: r => .cons (TSame.refl t) (Tl.refl r)

theorem Tl.trans : ∀ {a b c : List Table}, Tl a b → Tl b c → Tl a c
  | _, _, _, .nil, .nil => .nil
  | _, _, _, .cons h1 r1, .cons h2 r2 => .cons (h1.trans h2) (Tl.trans r1 r2)

theorem Tl.locOf (n : String) : ∀ {ts ts' : List Table}, Tl ts ts' → locOf n ts' = locOf n ts
  | _, _, .nil => rfl
  | _, _, .cons h r => by
    simp only [CompSim.locOf, h.store, h.block, Tl.locOf n r]

theorem Tl.nextIndex : ∀ {ts ts' : List Table}, Tl ts ts' → nextIndex ts' = nextIndex ts
  | _, _, .nil => rfl
  | _, _, .cons h r => by
    simp only [Compile.nextIndex, h.block, h.numDef, Tl.nextIndex r]

/-- `NumLocals` of the current function: `maxDefinition` of the first table that is not a block -/
def fnMax : List Table → Nat
  | [] => 0
  | t :: rest => if t.block then fnMax rest else t.maxDefinition

theorem Tl.fnMax : ∀ {ts ts' : List Table}, Tl ts ts' → fnMax ts ≤ fnMax ts'
  | _, _, .nil => Nat.le_refl _
  | _, _, .cons h r => by
    simp only [CompSim.fnMax, h.block]
    split
    · exact Tl.fnMax r
    · exact h.max

/-- the chain has a function table -/
def hasFn : List Table → Bool
  | [] => false
  | t :: rest => !t.block || hasFn rest

theorem Tl.hasFn : ∀ {ts ts' : List Table}, Tl ts ts' → hasFn ts' = hasFn ts
  | _, _, .nil => rfl
  | _, _, .cons h r => by simp only [CompSim.hasFn, h.block, Tl.hasFn r]

theorem tl_updateMaxDefs (n : Nat) : ∀ ts : List Table, Tl ts (updateMaxDefs n ts)
  | [] => .nil
  | t :: r => by
    simp only [updateMaxDefs]
    have hh : TSame t (if n > t.maxDefinition then { t with maxDefinition := n } else t) := by
      split
      · exact ⟨rfl, rfl, rfl, by simp; omega, rfl⟩
      · exact TSame.refl t
    split
    · exact .cons hh (tl_updateMaxDefs n r)
    · exact .cons hh (Tl.refl r)

theorem fnMax_updateMaxDefs (n : Nat) : ∀ ts : List Table, hasFn ts = true → n ≤ fnMax (updateMaxDefs n ts)
  | [], h => by simp [hasFn] at h
  | t :: r, h => by
    simp only [updateMaxDefs]
    cases hb : t.block with
    | true =>
      simp only [hasFn, hb, Bool.not_true, Bool.false_or] at h
      have ih := fnMax_updateMaxDefs n r h
      by_cases hn : n > t.maxDefinition
      · simp only [if_pos hn, if_true, fnMax, hb]; exact ih
      · simp only [if_neg hn, if_true, fnMax, hb]; exact ih
    | false =>
      by_cases hn : n > t.maxDefinition
      · simp only [if_pos hn, Bool.false_eq_true, if_false, fnMax, hb]; exact Nat.le_refl _
      · simp only [if_neg hn, Bool.false_eq_true, if_false, fnMax, hb]; omega

theorem Tl.cons_inv {t : Table} {r ts' : List Table} (h : Tl (t :: r) ts') :
    ∃ t' r', ts' = t' :: r' ∧ TSame t t' ∧ Tl r r' := by
  generalize hts : t :: r = ts at h
  cases h with
  | nil => cases hts
  | cons h1 h2 =>
    simp only [List.cons.injEq] at hts
    obtain ⟨rfl, rfl⟩ := hts
    exact ⟨_, _, rfl, h1, h2⟩

/-! ### effect of a statement of the fragment on the tables -/

/-- the head table keeps `block`, its counters only grow; the enclosing tables are `Tl`-related -/
inductive TEff : List Table → List Table → Prop
  | mk {h h' : Table} {r r' : List Table} : h'.block = h.block → h.numDefinition ≤ h'.numDefinition →
      h.maxDefinition ≤ h'.maxDefinition → Tl r r' → h'.numParams = h.numParams → TEff (h :: r) (h' :: r')

theorem TEff.of_tl : ∀ {ts ts' : List Table}, ts ≠ [] → Tl ts ts' → TEff ts ts'
  | _, _, h, .nil => (h rfl).elim
  | _, _, _, .cons h r => .mk h.block (Nat.le_of_eq h.numDef.symm) h.max r h.params

theorem TEff.refl {ts : List Table} (h : ts ≠ []) : TEff ts ts := TEff.of_tl h (Tl.refl ts)

theorem TEff.trans : ∀ {a b c : List Table}, TEff a b → TEff b c → TEff a c
  | _, _, _, .mk b1 n1 m1 r1 p1, .mk b2 n2 m2 r2 p2 =>
    .mk (b2.trans b1) (Nat.le_trans n1 n2) (Nat.le_trans m1 m2) (r1.trans r2) (p2.trans p1)

theorem TEff.ne {a b : List Table} (h : TEff a b) : a ≠ [] ∧ b ≠ [] := by
  cases h; exact ⟨by simp, by simp⟩

theorem TEff.nextIndex {a b : List Table} (h : TEff a b) : nextIndex a ≤ nextIndex b := by
  cases h with
  | mk hb hn hm hr hp =>
    simp only [Compile.nextIndex, hb, hr.nextIndex]
    split <;> omega

theorem TEff.fnMax {a b : List Table} (h : TEff a b) : fnMax a ≤ fnMax b := by
  cases h with
  | mk hb hn hm hr hp =>
    simp only [CompSim.fnMax, hb]
    split
    · exact hr.fnMax
    · exact hm

theorem TEff.hasFn {a b : List Table} (h : TEff a b) : hasFn b = hasFn a := by
  cases h with
  | mk hb hn hm hr hp => simp only [CompSim.hasFn, hb, hr.hasFn]

/-- the tables after a block: what is left when the block's table is dropped -/
theorem TEff.drop_block {nt : Table} {ts ts' : List Table} (h : TEff (nt :: ts) ts') : Tl ts (ts'.drop 1) := by
  cases h with
  | mk hb hn hm hr hp => simpa using hr

/-! ### the state after `Fork(true)` -/

theorem locOf_fork (n : String) (nt : Table) (ts : List Table) (hs : nt.store = []) (hb : nt.block = true) :
    locOf n (nt :: ts) = locOf n ts := by
  simp [locOf, hs, hb, lookupSym]

theorem nextIndex_fork (nt : Table) (ts : List Table) (hn : nt.numDefinition = 0) (hb : nt.block = true) :
    nextIndex (nt :: ts) = nextIndex ts := by
  simp [nextIndex, hn, hb]

theorem fnMax_fork (nt : Table) (ts : List Table) (hb : nt.block = true) : fnMax (nt :: ts) = fnMax ts := by
  simp [fnMax, hb]

theorem hasFn_fork (nt : Table) (ts : List Table) (hb : nt.block = true) : hasFn (nt :: ts) = hasFn ts := by
  simp [hasFn, hb]

/-! ### the state after `DefineLocal` of a new name -/

/-- the tables `compileDefine` leaves for a new name `x` (before and after `updateSym`) -/
theorem define_tables (bs : List (String × Nat)) (x : String) (sym : Symbol) (t : Table) (r : List Table) (n : Nat)
    (ts' : List Table) (hts : ts' = updateMaxDefs n (defLocalTable bs x sym t :: r)) :
    TEff (t :: r) ts' ∧ nextIndex ts' = nextIndex (t :: r) + 1 ∧
    (∀ m, m ≠ x → locOf m ts' = locOf m (t :: r)) ∧ locOf x ts' = some sym ∧
    (hasFn (t :: r) = true → n ≤ fnMax ts') := by
  subst hts
  have htl := tl_updateMaxDefs n (defLocalTable bs x sym t :: r)
  have hst : (defLocalTable bs x sym t).store = putSym x sym t.store := by
    simp only [defLocalTable, shadowBuiltin]; split <;> rfl
  have hbk : (defLocalTable bs x sym t).block = t.block := by
    simp only [defLocalTable, shadowBuiltin]; split <;> rfl
  have hnd : (defLocalTable bs x sym t).numDefinition = t.numDefinition + 1 := by
    simp only [defLocalTable, shadowBuiltin]; split <;> rfl
  have hmx : (defLocalTable bs x sym t).maxDefinition = t.maxDefinition := by
    simp only [defLocalTable, shadowBuiltin]; split <;> rfl
  have hnp : (defLocalTable bs x sym t).numParams = t.numParams := by
    simp only [defLocalTable, shadowBuiltin]; split <;> rfl
  refine ⟨?_, ?_, ?_, ?_, ?_⟩
  · obtain ⟨t', r', e, h, hr⟩ := htl.cons_inv
    rw [e]
    exact .mk (h.block.trans hbk) (by rw [h.numDef, hnd]; omega) (by have := h.max; omega) hr (h.params.trans hnp)
  · rw [htl.nextIndex]
    simp only [nextIndex, hbk, hnd]
    split <;> omega
  · intro m hm
    rw [htl.locOf]
    simp only [locOf, hst, hbk, lookupSym_putSym_ne x m sym hm]
  · rw [htl.locOf]
    simp only [locOf, hst, lookupSym_putSym_eq]
  · intro hf
    apply fnMax_updateMaxDefs
    simpa [hasFn, hbk] using hf

/-- `updateSym` that rewrites the entry of `x` in the head table -/
theorem updateSym_tables (x : String) (y : Symbol) (t : Table) (r : List Table) :
    TEff (t :: r) ({ t with store := putSym x y t.store } :: r) ∧
    nextIndex ({ t with store := putSym x y t.store } :: r) = nextIndex (t :: r) ∧
    (∀ m, m ≠ x → locOf m ({ t with store := putSym x y t.store } :: r) = locOf m (t :: r)) ∧
    locOf x ({ t with store := putSym x y t.store } :: r) = some y ∧
    fnMax ({ t with store := putSym x y t.store } :: r) = fnMax (t :: r) := by
  refine ⟨.mk rfl (Nat.le_refl _) (Nat.le_refl _) (Tl.refl r) rfl, rfl, ?_, ?_, rfl⟩
  · intro m hm
    simp only [locOf, lookupSym_putSym_ne x m y hm]
  · simp only [locOf, lookupSym_putSym_eq]

/-- `NumParams` of the innermost table -/
def headParams : List Table → Nat
  | [] => 0
  | t :: _ => t.numParams

theorem TEff.headParams {a b : List Table} (h : TEff a b) : headParams b = headParams a := by
  cases h with
  | mk hb hn hm hr hp => exact hp

end UgoVerif.CompSim
