import UgoVerif.Proofs.EncRoundtrip
/-
  Helper lemmas for C04: source files / file sets survive exactly, and the bytecode
  field loop reads back what `encodeBytecodeCommon` wrote.
-/
set_option linter.unusedSimpArgs false
namespace UgoVerif.Proofs.Enc
open UgoVerif.Go UgoVerif.Model.Enc UgoVerif.Gen.EncTags UgoVerif.Spec.Enc

def encLines (ls : List (BitVec 64)) : Bytes := (ls.map fun l => toBytes l.toInt).flatten

theorem encLines_length (ls : List (BitVec 64)) : 2 * ls.length ≤ (encLines ls).length := by
  induction ls with
  | nil => simp [encLines]
  | cons l ls ih =>
    have h1 := toBytes_length l.toInt (inInt64_toInt _)
    simp only [encLines, List.map_cons, List.flatten_cons, List.length_append, List.length_cons] at ih ⊢
    omega

theorem linesLoop_enc (ls : List (BitVec 64)) (tl : Bytes) :
    linesLoop ls.length (encLines ls ++ tl) = .ok (ls, tl) := by
  induction ls with
  | nil => simp [linesLoop, encLines]
  | cons l ls ih =>
    simp only [encLines, List.map_cons, List.flatten_cons, List.length_cons, linesLoop, List.append_assoc] at ih ⊢
    rw [viRead_toBytes _ _ (inInt64_toInt _)]
    simp only [ok_bind]
    rw [ih]
    simp [BitVec.ofInt_toInt]

theorem encodeSrcFile_eq (sf : SrcFile) :
    encodeSrcFile sf = encodeSized binStringV1 sf.name ++ (toBytes sf.base.toInt ++ (toBytes sf.size.toInt ++
      (toBytes sf.lines.length ++ (encLines sf.lines ++ [])))) := by
  simp [encodeSrcFile, encLines]

theorem unmarshalSourceFile_enc (C : Ctx) (n : Nat) (sf : SrcFile) (hs : (encodeSrcFile sf).length < 2 ^ 63) :
    (unmarshalSourceFile (decodeObjectF C (n + 1)) (encodeSrcFile sf)).res = .ok sf := by
  rw [encodeSrcFile_eq] at hs ⊢
  simp only [List.length_append] at hs
  have hname : sf.name.length < 2 ^ 63 := by
    have : sf.name.length ≤ (encodeSized binStringV1 sf.name).length := by
      unfold encodeSized; split <;> simp <;> omega
    omega
  have hl := encLines_length sf.lines
  have hlin := inInt64_ofNat sf.lines.length (by omega)
  unfold unmarshalSourceFile
  simp only [res_bind, rt_str C n sf.name _ hname, ok_bind, res_liftM, viRead_toBytes _ _ (inInt64_toInt _),
    viRead_toBytes _ _ hlin]
  rw [res_ite, if_neg (by simp only [List.length_append]; omega)]
  have hnat : ((sf.lines.length : Int)).toNat = sf.lines.length := by omega
  simp only [res_bind, res_tick, ok_bind, res_liftM, hnat, linesLoop_enc]
  simp [BitVec.ofInt_toInt]

def encFiles (fs : List SrcFile) : Bytes :=
  (fs.map fun f => let d := encodeSrcFile f; toBytes d.length ++ d).flatten

theorem encFiles_cons (f : SrcFile) (fs : List SrcFile) :
    encFiles (f :: fs) = toBytes (encodeSrcFile f).length ++ (encodeSrcFile f ++ encFiles fs) := by
  simp [encFiles]

theorem filesLoop_enc (C : Ctx) (n : Nat) : ∀ (fs : List SrcFile) (tl : Bytes), (encFiles fs).length < 2 ^ 63 →
    (filesLoop (decodeObjectF C (n + 1)) fs.length (encFiles fs ++ tl)).res = .ok (fs, tl) := by
  intro fs
  induction fs with
  | nil => intro tl _; simp [filesLoop, encFiles]
  | cons f fs ih =>
    intro tl hs
    rw [encFiles_cons] at hs ⊢
    simp only [List.length_append] at hs
    have hd : (encodeSrcFile f).length < 2 ^ 63 := by omega
    have hin := inInt64_ofNat _ hd
    simp only [List.length_cons, filesLoop, List.append_assoc, res_bind, res_liftM, viRead_toBytes _ _ hin, ok_bind]
    rw [res_ite, if_neg (by simp only [List.length_append]; omega)]
    have hnat : (((encodeSrcFile f).length : Int)).toNat = (encodeSrcFile f).length := by omega
    simp only [res_bind, res_tick, ok_bind, res_liftM, hnat, readFull_append, unmarshalSourceFile_enc C n f hd,
      ih tl (by omega), res_pure]

theorem encFiles_length (fs : List SrcFile) : 2 * fs.length ≤ (encFiles fs).length := by
  induction fs with
  | nil => simp [encFiles]
  | cons f fs ih =>
    rw [encFiles_cons]
    have : 1 ≤ (toBytes ((encodeSrcFile f).length : Int)).length := by simp [toBytes]
    have : 1 ≤ (encodeSrcFile f).length := by
      rw [encodeSrcFile_eq]; simp only [List.length_append]
      have : 1 ≤ (encodeSized binStringV1 f.name).length := by unfold encodeSized; split <;> simp
      omega
    simp only [List.length_append, List.length_cons]; omega

theorem encodeFileSet_eq (fs : FileSet) :
    encodeFileSet fs = toBytes fs.base.toInt ++ (toBytes fs.files.length ++ (encFiles fs.files ++ [])) := by
  simp [encodeFileSet, encFiles]

/-- a file set survives the round trip exactly -/
theorem unmarshalFileSet_enc (C : Ctx) (n : Nat) (fs : FileSet) (hs : (encodeFileSet fs).length < 2 ^ 63) :
    (unmarshalFileSet (decodeObjectF C (n + 1)) (encodeFileSet fs)).res = .ok fs := by
  rw [encodeFileSet_eq] at hs ⊢
  simp only [List.length_append] at hs
  have hl := encFiles_length fs.files
  have hin := inInt64_ofNat fs.files.length (by omega)
  unfold unmarshalFileSet
  simp only [res_bind, res_liftM, viRead_toBytes _ _ (inInt64_toInt _), viRead_toBytes _ _ hin, ok_bind]
  rw [res_ite, if_neg (by simp only [List.length_append]; omega)]
  have hnat : ((fs.files.length : Int)).toNat = fs.files.length := by omega
  simp only [res_bind, res_tick, ok_bind, hnat, filesLoop_enc C n fs.files [] (by omega)]
  simp [BitVec.ofInt_toInt]

/-! ### the bytecode field loop -/

theorem bc_end (C : Ctx) (n : Nat) (bc : BC) : (bcLoopF C (n + 1) [] bc).res = .ok bc := by
  simp [bcLoopF]

theorem bc_step0 (C : Ctx) (n : Nat) (fs : FileSet) (tl : Bytes) (bc : BC)
    (hs : (encodeFileSet fs).length < 2 ^ 63) :
    (bcLoopF C (n + 2) (0 :: encodeInt (BitVec.ofNat 64 (encodeFileSet fs).length) ++ encodeFileSet fs ++ tl) bc).res =
      (bcLoopF C (n + 1) tl { bc with fileSet := some fs }).res := by
  have hpos : 1 ≤ (encodeFileSet fs).length := by
    rw [encodeFileSet_eq]; simp [toBytes]
  have hnat : (BitVec.ofNat 64 (encodeFileSet fs).length).toNat = (encodeFileSet fs).length := by
    simp only [BitVec.toNat_ofNat]; omega
  have hint : (BitVec.ofNat 64 (encodeFileSet fs).length).toInt = ((encodeFileSet fs).length : Int) := by
    rw [BitVec.toInt_eq_toNat_cond, hnat]; split <;> omega
  have hdec := rt_obj C (.int (BitVec.ofNat 64 (encodeFileSet fs).length)) (n + 1) (encodeFileSet fs ++ tl)
    (by simp [Encodable]) (by simp [need]) (by
      simp only [encodeObject]
      have : (encodeInt (BitVec.ofNat 64 (encodeFileSet fs).length)).length ≤ 12 := by
        unfold encodeInt; split
        · simp
        · have := (putVarint_len _ (inInt64_toInt (BitVec.ofNat 64 (encodeFileSet fs).length))).2
          simp; omega
      omega)
  simp only [encodeObject, norm] at hdec
  simp only [List.cons_append, List.append_assoc]
  rw [bcLoopF]
  simp only [List.cons_append, List.append_assoc, if_true, res_bind, hdec, ok_bind]
  rw [res_ite, if_neg (by omega), res_ite, if_neg (by rw [hint]; simp only [List.length_append]; omega)]
  simp only [res_bind, res_tick, ok_bind, res_liftM, hnat, readFull_append,
    unmarshalFileSet_enc C n fs hs]

theorem bc_step1 (C : Ctx) (n : Nat) (f : CF) (tl : Bytes) (bc : BC) (hn : 8 ≤ n)
    (hs : (encodeCF f).length < 2 ^ 63) :
    (bcLoopF C (n + 1) (1 :: encodeCF f ++ tl) bc).res =
      (bcLoopF C n tl { bc with main := some (normCF f) }).res := by
  obtain ⟨m, rfl⟩ := succ_of_pos (show 1 ≤ n by omega)
  simp only [List.cons_append, List.append_assoc]
  rw [bcLoopF]
  simp only [List.cons_append, show ¬ ((1 : UInt8) = 0) by decide, if_false, if_true, res_bind,
    rt_cf C f m (by omega) tl hs, ok_bind]

theorem bc_step2 (C : Ctx) (n : Nat) (cs : List Obj) (tl : Bytes) (bc : BC)
    (hE : EncodableL C cs) (hn : need (.array cs) ≤ n)
    (hs : (encodeObject C (.array cs)).length < 2 ^ 63) :
    (bcLoopF C (n + 1) (2 :: encodeObject C (.array cs) ++ tl) bc).res =
      (bcLoopF C n tl { bc with constants := some (normList cs) }).res := by
  have hdec := rt_obj C (.array cs) n tl (by simpa [Encodable] using hE) hn hs
  simp only [norm] at hdec
  simp only [List.cons_append, List.append_assoc]
  rw [bcLoopF]
  simp only [List.cons_append, show ¬ ((2 : UInt8) = 0) by decide, show ¬ ((2 : UInt8) = 1) by decide,
    if_false, if_true, res_bind, hdec, ok_bind]

theorem bc_step3 (C : Ctx) (n : Nat) (nm : BitVec 64) (tl : Bytes) (bc : BC) (hn : 1 ≤ n) :
    (bcLoopF C (n + 1) (3 :: encodeInt nm ++ tl) bc).res =
      (bcLoopF C n tl { bc with numModules := nm }).res := by
  have hdec := rt_obj C (.int nm) n tl (by simp [Encodable]) (by simpa [need] using hn) (by
      simp only [encodeObject]
      have : (encodeInt nm).length ≤ 12 := by
        unfold encodeInt; split
        · simp
        · have := (putVarint_len _ (inInt64_toInt nm)).2
          simp; omega
      omega)
  simp only [encodeObject, norm] at hdec
  simp only [List.cons_append, List.append_assoc]
  rw [bcLoopF]
  simp only [List.cons_append, show ¬ ((3 : UInt8) = 0) by decide, show ¬ ((3 : UInt8) = 1) by decide,
    show ¬ ((3 : UInt8) = 2) by decide, if_false, if_true, res_bind, hdec, ok_bind]

/-! ### the four optional bytecode fields in order -/

theorem bc_part0 (C : Ctx) (bc : BC) (n : Nat) (hn : 2 ≤ n) (tl : Bytes) (g : BC)
    (hs : ∀ fs, bc.fileSet = some fs → (encodeFileSet fs).length < 2 ^ 63) :
    (bcLoopF C n ((match bc.fileSet with
        | some fs => 0 :: encodeInt (BitVec.ofNat 64 (encodeFileSet fs).length) ++ encodeFileSet fs
        | none => []) ++ tl) g).res =
      (bcLoopF C (n - (if bc.fileSet.isSome then 1 else 0)) tl
        (match bc.fileSet with
         | some fs => { g with fileSet := some fs }
         | none => g)).res := by
  obtain ⟨m, rfl⟩ := succ_of_pos (show 1 ≤ n by omega)
  obtain ⟨k, rfl⟩ := succ_of_pos (show 1 ≤ m by omega)
  cases hf : bc.fileSet with
  | none => simp
  | some fs =>
    simp only [Option.isSome_some, if_true]
    rw [bc_step0 C k fs tl g (hs fs hf)]
    rfl

theorem bc_part1 (C : Ctx) (bc : BC) (n : Nat) (hn : 9 ≤ n) (tl : Bytes) (g : BC)
    (hs : ∀ f, bc.main = some f → (encodeCF f).length < 2 ^ 63) :
    (bcLoopF C n ((match bc.main with
        | some f => 1 :: encodeCF f
        | none => []) ++ tl) g).res =
      (bcLoopF C (n - (if bc.main.isSome then 1 else 0)) tl
        (match bc.main with
         | some f => { g with main := some (normCF f) }
         | none => g)).res := by
  obtain ⟨m, rfl⟩ := succ_of_pos (show 1 ≤ n by omega)
  cases hf : bc.main with
  | none => simp
  | some f =>
    simp only [Option.isSome_some, if_true]
    rw [bc_step1 C m f tl g (by omega) (hs f hf)]
    rfl

theorem bc_part2 (C : Ctx) (bc : BC) (n : Nat) (tl : Bytes) (g : BC)
    (hn : ∀ cs, bc.constants = some cs → need (.array cs) + 1 ≤ n) (hn1 : 1 ≤ n)
    (hE : ∀ cs, bc.constants = some cs → EncodableL C cs)
    (hs : ∀ cs, bc.constants = some cs → (encodeObject C (.array cs)).length < 2 ^ 63) :
    (bcLoopF C n ((match bc.constants with
        | some cs => 2 :: encodeObject C (.array cs)
        | none => []) ++ tl) g).res =
      (bcLoopF C (n - (if bc.constants.isSome then 1 else 0)) tl
        (match bc.constants with
         | some cs => { g with constants := some (normList cs) }
         | none => g)).res := by
  obtain ⟨m, rfl⟩ := succ_of_pos hn1
  cases hf : bc.constants with
  | none => simp
  | some cs =>
    simp only [Option.isSome_some, if_true]
    rw [bc_step2 C m cs tl g (hE cs hf) (by have := hn cs hf; omega) (hs cs hf)]
    rfl

theorem bc_part3 (C : Ctx) (bc : BC) (n : Nat) (hn : 2 ≤ n) (tl : Bytes) (g : BC) :
    (bcLoopF C n ((if 0 < bc.numModules.toInt then 3 :: encodeInt bc.numModules else []) ++ tl) g).res =
      (bcLoopF C (n - (if 0 < bc.numModules.toInt then 1 else 0)) tl
        (if 0 < bc.numModules.toInt then { g with numModules := bc.numModules } else g)).res := by
  obtain ⟨m, rfl⟩ := succ_of_pos (show 1 ≤ n by omega)
  split
  · rw [bc_step3 C m bc.numModules tl g (by omega)]; rfl
  · simp

/-- `encodeBytecodeCommon` without the local definition -/
def bcBody (C : Ctx) (bc : BC) : Bytes :=
  (match bc.fileSet with
   | some fs => 0 :: encodeInt (BitVec.ofNat 64 (encodeFileSet fs).length) ++ encodeFileSet fs
   | none => []) ++
  (match bc.main with
   | some f => 1 :: encodeCF f
   | none => []) ++
  (match bc.constants with
   | some cs => 2 :: encodeObject C (.array cs)
   | none => []) ++
  (if 0 < bc.numModules.toInt then 3 :: encodeInt bc.numModules else [])

theorem encodeBytecodeBody_eq (C : Ctx) (bc : BC) : encodeBytecodeBody C bc = bcBody C bc := rfl

/-- fuel the decoder model needs for the encoding of a bytecode -/
def needBC (bc : BC) : Nat :=
  16 + (match bc.constants with
        | some cs => need (.array cs)
        | none => 0)

/-- side conditions of the bytecode round trip: constants have an encoding, every length
    fits Go's `int` -/
structure EncodableBC (C : Ctx) (bc : BC) : Prop where
  consts : ∀ cs, bc.constants = some cs → EncodableL C cs
  small : (encodeBytecodeBody C bc).length < 2 ^ 63

theorem body_bounds (C : Ctx) (bc : BC) :
    (∀ fs, bc.fileSet = some fs → (encodeFileSet fs).length ≤ (encodeBytecodeBody C bc).length) ∧
    (∀ f, bc.main = some f → (encodeCF f).length ≤ (encodeBytecodeBody C bc).length) ∧
    (∀ cs, bc.constants = some cs → (encodeObject C (.array cs)).length ≤ (encodeBytecodeBody C bc).length) := by
  refine ⟨?_, ?_, ?_⟩
  · intro fs h; unfold encodeBytecodeBody; rw [h]; simp only [List.length_append, List.length_cons]; omega
  · intro f h; unfold encodeBytecodeBody; rw [h]; simp only [List.length_append, List.length_cons]; omega
  · intro cs h; unfold encodeBytecodeBody; rw [h]; simp only [List.length_append, List.length_cons]; omega

theorem rt_bcLoop (C : Ctx) (bc : BC) (n : Nat) (hn : needBC bc ≤ n) (hE : EncodableBC C bc) :
    (bcLoopF C n (encodeBytecodeBody C bc) {}).res = .ok (normBC bc) := by
  obtain ⟨hb0, hb1, hb2⟩ := body_bounds C bc
  have hsm := hE.small
  rw [encodeBytecodeBody_eq] at hb0 hb1 hb2 hsm ⊢
  unfold bcBody
  have e : ∀ (a b c d : Bytes), a ++ b ++ c ++ d = a ++ (b ++ (c ++ (d ++ []))) := by intros; simp
  rw [e]
  have c0 : (if bc.fileSet.isSome then 1 else 0) ≤ 1 := by split <;> omega
  have c1 : (if bc.main.isSome then 1 else 0) ≤ 1 := by split <;> omega
  have c2 : (if bc.constants.isSome then 1 else 0) ≤ 1 := by split <;> omega
  have c3 : (if 0 < bc.numModules.toInt then 1 else 0) ≤ 1 := by split <;> omega
  have hneed : ∀ cs, bc.constants = some cs → need (.array cs) + 16 ≤ n := by
    intro cs h; unfold needBC at hn; rw [h] at hn; simp only at hn; omega
  have h16 : 16 ≤ n := by unfold needBC at hn; omega
  rw [bc_part0 C bc n (by omega) _ _ (fun fs h => by have := hb0 fs h; omega),
    bc_part1 C bc _ (by omega) _ _ (fun f h => by have := hb1 f h; omega),
    bc_part2 C bc _ _ _ (fun cs h => by have := hneed cs h; omega) (by omega) hE.consts
      (fun cs h => by have := hb2 cs h; omega),
    bc_part3 C bc _ (by omega)]
  obtain ⟨m, hm⟩ := succ_of_pos (show 1 ≤ n - (if bc.fileSet.isSome then 1 else 0) -
      (if bc.main.isSome then 1 else 0) - (if bc.constants.isSome then 1 else 0) -
      (if 0 < bc.numModules.toInt then 1 else 0) by omega)
  rw [hm, bc_end]
  obtain ⟨fs, mn, cs, nm⟩ := bc
  unfold normBC
  simp only
  cases fs <;> cases mn <;> cases cs <;> by_cases h0 : 0 < nm.toInt <;> simp [h0]

theorem header2_eq : header BytecodeVersion2 = [0, 117, 71, 79, 0, 2] := by decide

/-- `DecodeBytecodeFrom (EncodeBytecodeTo bc)` = `fixObjects` of the normal form -/
theorem rt_bytecode (C : Ctx) (conv : BC → Res BC) (mods : Mods) (bc : BC) (n : Nat) (hn : needBC bc ≤ n)
    (hE : EncodableBC C bc) :
    (decodeBytecodeF C conv mods n (encodeBytecode C bc)).res = fixObjects mods (normBC bc) := by
  unfold decodeBytecodeF encodeBytecode
  rw [header2_eq]
  simp only [List.cons_append, List.nil_append, List.length_cons]
  rw [if_neg (by omega)]
  have h1 : beNat (List.take 4 (0 :: 117 :: 71 :: 79 :: 0 :: 2 :: encodeBytecodeBody C bc)) = BytecodeSignature := rfl
  rw [if_neg (by rw [h1]; simp)]
  have h2 : beNat (List.take 2 (List.drop 4 (0 :: 117 :: 71 :: 79 :: 0 :: 2 :: encodeBytecodeBody C bc))) =
      BytecodeVersion2 := rfl
  have h3 : List.drop 6 (0 :: 117 :: 71 :: 79 :: 0 :: 2 :: encodeBytecodeBody C bc) = encodeBytecodeBody C bc := rfl
  simp only [h2, h3, if_true, res_bind, rt_bcLoop C bc n hn hE, ok_bind, res_liftM]

end UgoVerif.Proofs.Enc

namespace UgoVerif.Proofs.Enc
open UgoVerif.Go UgoVerif.Model.Enc UgoVerif.Gen.EncTags UgoVerif.Spec.Enc

/-! ### the fuel of `decodeObject` / `decodeBytecode` (3·|input| + 16) always suffices -/

theorem encodeCF_length_ge (f : CF) : 3 ≤ (encodeCF f).length := by
  rw [encodeCF_eq]
  have : 2 ≤ (toBytes ((cfTmp f).length : Int)).length := by simp [toBytes]; exact putUvarint_length_pos _
  simp only [List.length_cons, List.length_append]; omega

theorem toBytes_length_ge (v : Int) : 2 ≤ (toBytes v).length := by
  simp [toBytes]; exact putUvarint_length_pos _

mutual
theorem need_le (C : Ctx) : ∀ o : Obj, need o + 1 ≤ 3 * (encodeObject C o).length
  | .array xs => by
    have := needL_le C xs
    simp only [need, encodeObject]
    split
    · rename_i h0
      have : xs = [] := List.eq_nil_of_length_eq_zero h0
      subst this; simp [needL]
    · have h1 := toBytes_length_ge ((toBytes (xs.length : Int) ++ encodeList C xs).length : Int)
      have h2 := toBytes_length_ge (xs.length : Int)
      simp only [List.length_cons, List.length_append] at h1 ⊢; omega
  | .map kvs => by
    have := needKV_le C kvs
    have h1 := toBytes_length_ge ((encodeKVs C kvs).length : Int)
    simp only [need, encodeObject, List.length_cons, List.length_append]; omega
  | .syncMap true kvs => by simp [need, encodeObject]
  | .syncMap false kvs => by
    have := needKV_le C kvs
    have h1 := toBytes_length_ge ((encodeKVs C kvs).length : Int)
    simp only [need, encodeObject, List.length_cons, List.length_append]; omega
  | .compiledFunction f => by
    have := encodeCF_length_ge f
    simp only [need, encodeObject]; omega
  | .nil => by simp [need, encodeObject]
  | .undefined => by simp [need, encodeObject]
  | .bool true => by simp [need, encodeObject]
  | .bool false => by simp [need, encodeObject]
  | .int v => by have := encodeObject_length_pos C (.int v); simp only [need]; omega
  | .uint v => by have := encodeObject_length_pos C (.uint v); simp only [need]; omega
  | .char v => by have := encodeObject_length_pos C (.char v); simp only [need]; omega
  | .float v => by have := encodeObject_length_pos C (.float v); simp only [need]; omega
  | .str v => by have := encodeObject_length_pos C (.str v); simp only [need]; omega
  | .bytes v => by have := encodeObject_length_pos C (.bytes v); simp only [need]; omega
  | .function v => by have := encodeObject_length_pos C (.function v); simp only [need]; omega
  | .builtinFunction v => by have := encodeObject_length_pos C (.builtinFunction v); simp only [need]; omega
  | .gob t i => by have := encodeObject_length_pos C (.gob t i); simp only [need]; omega
theorem needL_le (C : Ctx) : ∀ xs : List Obj, needL xs ≤ 3 * (encodeList C xs).length
  | [] => by simp [needL]
  | x :: xs => by
    have h1 := need_le C x
    have h2 := needL_le C xs
    simp only [needL, encodeList, List.length_append]; omega
theorem needKV_le (C : Ctx) : ∀ kvs : List (Bytes × Obj), needKV kvs ≤ 3 * (encodeKVs C kvs).length
  | [] => by simp [needKV]
  | (k, v) :: kvs => by
    have h1 := need_le C v
    have h2 := needKV_le C kvs
    simp only [needKV, encodeKVs, List.length_append]; omega
end

end UgoVerif.Proofs.Enc
