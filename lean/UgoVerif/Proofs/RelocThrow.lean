import UgoVerif.Proofs.RelocIp
/-
  Relocation relation: the error-throwing machinery (`throwFuel`, `searchFrames`, `throwF`,
  `failWith`, `handlePanic`) and the handler opcodes (SETUPCATCH, SETUPFINALLY, THROW, FINALIZER).
-/
set_option linter.unusedVariables false
set_option linter.unusedSimpArgs false
namespace UgoVerif.VM.Reloc
open UgoVerif UgoVerif.Go UgoVerif.VM

variable {P : Params} {ci : Nat → Nat} {c : Nat} {I : Int → Int → Prop}

/-! ### opening `RelQ` -/

theorem RelQ.run {α β} {A E : State → State → Prop} {Q : α → β → State → State → Prop} {m₁ : M α} {m₂ : M β}
    (h : RelQ A Q E m₁ m₂) : ∀ s t, A s t →
      match exec m₁ s, exec m₂ t with
      | (.ok a, s'), (.ok b, t') => Q a b s' t'
      | (.error e, s'), (.error e', t') => e = e' ∧ E s' t'
      | _, _ => False := by
  unfold RelQ at h; exact h

/-- the precondition may be an existential -/
theorem RelQ.exists_pre {α β ι} {A : ι → State → State → Prop} {E : State → State → Prop}
    {Q : α → β → State → State → Prop} {m₁ : M α} {m₂ : M β}
    (h : ∀ x, RelQ (A x) Q E m₁ m₂) : RelQ (fun s t => ∃ x, A x s t) Q E m₁ m₂ :=
  RelQ.mk' (fun s t ⟨x, hx⟩ => (h x).run s t hx)

/-! ### addresses and handlers -/

theorem ARel.zero {φ : Nat → Nat} {B : Nat → Prop} : ARel φ B 0 0 := Or.inl ⟨rfl, rfl⟩

theorem ARel.pos_iff {φ : Nat → Nat} {B : Nat → Prop} {a b : Int} (h : ARel φ B a b) : a > 0 ↔ b > 0 := by
  rcases h with ⟨h1, h2⟩ | ⟨n, h1, h2, _, h3, h4⟩ <;> omega

theorem ARel.le_zero_iff {φ : Nat → Nat} {B : Nat → Prop} {a b : Int} (h : ARel φ B a b) : a ≤ 0 ↔ b ≤ 0 := by
  rcases h with ⟨h1, h2⟩ | ⟨n, h1, h2, _, h3, h4⟩ <;> omega

theorem ARel.zero_iff {φ : Nat → Nat} {B : Nat → Prop} {a b : Int} (h : ARel φ B a b) : a = 0 ↔ b = 0 := by
  rcases h with ⟨h1, h2⟩ | ⟨n, h1, h2, _, h3, h4⟩ <;> omega

theorem ARel.target {φ : Nat → Nat} {B : Nat → Prop} {a b : Int} (h : ARel φ B a b) (ha : a > 0) :
    ∃ n : Nat, B n ∧ a = n ∧ b = φ n := by
  rcases h with ⟨h1, h2⟩ | ⟨n, h1, h2, hb, h3, h4⟩
  · omega
  · exact ⟨n, hb, h3, h4⟩

theorem HLRel.length {φ : Nat → Nat} {B : Nat → Prop} : ∀ {l l' : List Handler}, HLRel φ B l l' → l'.length = l.length
  | [], [], _ => rfl
  | _ :: r, _ :: r', h => by simp [HLRel.length h.2]
  | [], _ :: _, h => h.elim
  | _ :: _, [], h => h.elim

/-- number of handlers, as counted by `throwFuel`, `noteTrace`, `execFinalizer` -/
def nh (f : Frame) : Nat := match f.handlers with | some hs => hs.length | none => 0

theorem HsRel.cases {φ : Nat → Nat} {B : Nat → Prop} {x y : Option (List Handler)} (h : HsRel φ B x y) :
    (x = none ∧ y = none) ∨ (x = some [] ∧ y = some []) ∨
    (∃ a r b r', x = some (a :: r) ∧ y = some (b :: r') ∧ HRel φ B a b ∧ HLRel φ B r r') := by
  cases x with
  | none => cases y with
    | none => exact Or.inl ⟨rfl, rfl⟩
    | some l' => exact h.elim
  | some l => cases y with
    | none => exact h.elim
    | some l' =>
      cases l with
      | nil => cases l' with
        | nil => exact Or.inr (Or.inl ⟨rfl, rfl⟩)
        | cons b r' => exact h.elim
      | cons a r => cases l' with
        | nil => exact h.elim
        | cons b r' => exact Or.inr (Or.inr ⟨a, r, b, r', rfl, rfl, h.1, h.2⟩)

section frames
variable {φ : Nat → Nat} {B : Nat → Prop} {bl : Prop} {f g : Frame}

theorem FrRel.nh (h : FrRel φ B bl f g) : nh g = nh f := by
  unfold Reloc.nh
  rcases h.hs.cases with ⟨h1, h2⟩ | ⟨h1, h2⟩ | ⟨a, r, b, r', h1, h2, _, hr⟩
  · rw [h1, h2]
  · rw [h1, h2]
  · rw [h1, h2]; simp [hr.length]

theorem FrRel.hasHandler (h : FrRel φ B bl f g) : hasHandler g = hasHandler f := by
  unfold VM.hasHandler
  rcases h.hs.cases with ⟨h1, h2⟩ | ⟨h1, h2⟩ | ⟨a, r, b, r', h1, h2, _, hr⟩ <;> rw [h1, h2]

theorem FrRel.lastHandler (h : FrRel φ B bl f g) :
    (lastHandler f = none ∧ lastHandler g = none) ∨
    (∃ a b, lastHandler f = some a ∧ lastHandler g = some b ∧ HRel φ B a b) := by
  unfold VM.lastHandler
  rcases h.hs.cases with ⟨h1, h2⟩ | ⟨h1, h2⟩ | ⟨a, r, b, r', h1, h2, hab, hr⟩
  · rw [h1, h2]; exact Or.inl ⟨rfl, rfl⟩
  · rw [h1, h2]; exact Or.inl ⟨rfl, rfl⟩
  · rw [h1, h2]; exact Or.inr ⟨a, b, rfl, rfl, hab⟩

theorem FrRel.setLast (h : FrRel φ B bl f g) (u v : Handler → Handler)
    (huv : ∀ a b, HRel φ B a b → HRel φ B (u a) (v b)) : FrRel φ B bl (setLast f u) (setLast g v) := by
  unfold VM.setLast
  rcases h.hs.cases with ⟨h1, h2⟩ | ⟨h1, h2⟩ | ⟨a, r, b, r', h1, h2, hab, hr⟩
  · rw [h1, h2]; exact h
  · rw [h1, h2]; exact h
  · rw [h1, h2]
    exact { h with hs := ⟨huv a b hab, hr⟩ }

theorem FrRel.popHandler (h : FrRel φ B bl f g) : FrRel φ B bl (popHandler f) (popHandler g) := by
  unfold VM.popHandler
  rcases h.hs.cases with ⟨h1, h2⟩ | ⟨h1, h2⟩ | ⟨a, r, b, r', h1, h2, hab, hr⟩
  · rw [h1, h2]; exact h
  · rw [h1, h2]; exact h
  · rw [h1, h2]
    exact { h with hs := hr }

theorem setLast_fn (f : Frame) (u : Handler → Handler) : (setLast f u).fn = f.fn := by
  unfold VM.setLast; split <;> rfl

theorem popHandler_fn (f : Frame) : (popHandler f).fn = f.fn := by
  unfold VM.popHandler; split <;> rfl

end frames

/-- updating the innermost handler of the current frame -/
theorem rel_setLast (u v : Handler → Handler)
    (huv : ∀ a b, HRel (P.Φ c) (P.BB c) a b → HRel (P.Φ c) (P.BB c) (u a) (v b)) :
    RelE (R P ci c I) (R P ci c I) (RM P) Eq (setCurFrame fun f => setLast f u) (setCurFrame fun f => setLast f v) :=
  rel_setCurFrame _ _ (fun fr gr h => h.setLast u v huv) (fun fr => Or.inl (setLast_fn fr u))

theorem rel_popHandler :
    RelE (R P ci c I) (R P ci c I) (RM P) Eq (setCurFrame popHandler) (setCurFrame popHandler) :=
  rel_setCurFrame _ _ (fun fr gr h => h.popHandler) (fun fr => Or.inl (popHandler_fn fr))

/-- `vm.ip = …` with any new relation between the two pointers -/
theorem rel_setIp_gen {I' : Int → Int → Prop} (a b : Int) (h' : I' a b) :
    RelE (R P ci c I) (R P ci c I') (RM P) Eq (setIp a) (setIp b) := by
  apply RelE.mk'
  intro s t h
  rw [exec_setIp, exec_setIp]
  exact ⟨rfl, { h with ip := h' }⟩

theorem rel_setErr (e : VmErr) :
    RelE (R P ci c I) (R P ci c I) (RM P) Eq (modS fun s => { s with err := some e }) (modS fun s => { s with err := some e }) := by
  apply RelE.mk'
  intro s t h
  exact ⟨rfl, { h with err := rfl }⟩

/-! ### `throwFuel` -/

theorem foldl_nh_congr (a b : Array Frame) (hs : a.size = b.size) (h : ∀ i, i < a.size → nh b[i]! = nh a[i]!) (init : Nat) :
    b.foldl (fun n f => n + (match f.handlers with | some hs => hs.length | none => 0) + 1) init =
    a.foldl (fun n f => n + (match f.handlers with | some hs => hs.length | none => 0) + 1) init := by
  have e : ∀ x : Array Frame,
      x.foldl (fun n f => n + (match f.handlers with | some hs => hs.length | none => 0) + 1) init =
      (x.map nh).foldl (fun n k => n + k + 1) init := by
    intro x; rw [Array.foldl_map]; rfl
  have hm : b.map nh = a.map nh := by
    apply Array.ext
    · simp [hs]
    · intro i h1 h2
      have h1' : i < b.size := by simpa using h1
      have h2' : i < a.size := by simpa using h2
      have := h i h2'
      simp only [Array.getElem_map]
      rw [getElem!_pos b i h1', getElem!_pos a i h2'] at this
      exact this
  rw [e a, e b, hm]

theorem rel_throwFuel_R : RelE (R P ci c I) (R P ci c I) (RM P) Eq throwFuel throwFuel := by
  apply RelE.mk'
  intro s t h
  unfold throwFuel
  simp only [exec_bind, exec_getS, exec_pure]
  refine ⟨(foldl_nh_congr s.frames t.frames (by rw [h.fsS, h.fsT]) ?_ 4).symm, h⟩
  intro i hi
  rw [h.fsS] at hi
  exact (h.frames i hi).nh

theorem rel_throwFuel : RelE (RM P) (RM P) (RM P) Eq throwFuel throwFuel :=
  RelE.liftRM (fun ci c I => rel_throwFuel_R)

/-! ### the frame search of `throw` -/

theorem exec_searchFrames_succ (n : Nat) (s : State) : exec (searchFrames (n + 1)) s =
    if n ≥ frameSize then (.error (.panic s!"runtime error: index out of range [{n}] with length {frameSize}"), s)
    else if hasHandler (s.frames[n]!) = true then (.ok (some n), s)
    else exec (searchFrames n)
      { s with frames := s.frames.modify n fun f => { f with free := none, fn := none } } := by
  rw [searchFrames]
  by_cases h1 : n ≥ frameSize
  · simp only [h1, if_true, exec_bind, exec_panic]
  · simp only [h1, if_false, exec_bind, exec_pure, exec_getS]
    by_cases h2 : hasHandler (s.frames[n]!) = true
    · simp only [h2, if_true, exec_pure]
    · simp only [h2, if_false, exec_bind, exec_modS]
      rfl

/-- clearing the function of a frame on both sides -/
theorem R.clearFrame {s t : State} (h : R P ci c I s t) (n : Nat) :
    R P ci c I { s with frames := s.frames.modify n fun f => { f with free := none, fn := none } }
      { t with frames := t.frames.modify n fun f => { f with free := none, fn := none } } := by
  refine { h with fsS := by simp [h.fsS], fsT := by simp [h.fsT], frames := ?_, code := ?_ }
  · intro i hi
    show FrRel _ _ _ ((s.frames.modify n _)[i]!) ((t.frames.modify n _)[i]!)
    rw [getElem!_modify, getElem!_modify, h.fsS, h.fsT]
    have hfi := h.frames i hi
    by_cases hn : n = i ∧ i < frameSize
    · rw [if_pos hn, if_pos hn]
      exact { hfi with fn := rfl, free := rfl }
    · rw [if_neg hn, if_neg hn]
      exact hfi
  · intro i hi a ha
    have ha' : ((s.frames.modify n fun f => { f with free := none, fn := none })[i]!).fn = some a := ha
    rw [getElem!_modify] at ha'
    by_cases hn : n = i ∧ i < s.frames.size
    · rw [if_pos hn] at ha'; cases ha'
    · rw [if_neg hn] at ha'
      exact h.code i hi a ha'

theorem rel_searchFrames (n : Nat) :
    RelQ (fun s t => R P ci c I s t ∧ n ≤ s.curFrame)
      (fun a b s t => a = b ∧ R P ci c I s t ∧ ∀ i, a = some i → i < s.curFrame) (RM P)
      (searchFrames n) (searchFrames n) := by
  induction n with
  | zero =>
    rw [searchFrames]
    exact RelQ.pure (fun s t h => ⟨rfl, h.1, fun i e => by cases e⟩)
  | succ n ih =>
    apply RelQ.mk'
    intro s t ⟨h, hn⟩
    rw [exec_searchFrames_succ, exec_searchFrames_succ]
    have hlt : ¬ n ≥ frameSize := by have := h.cur; omega
    rw [if_neg hlt, if_neg hlt]
    have hf := h.frames n (by omega)
    rw [hf.hasHandler]
    by_cases hh : hasHandler (s.frames[n]!) = true
    · rw [if_pos hh, if_pos hh]
      exact ⟨rfl, h, fun i e => by cases e; omega⟩
    · rw [if_neg hh, if_neg hh]
      exact ih.run _ _ ⟨h.clearFrame n, by show n ≤ s.curFrame; omega⟩

/-- making the outer frame `i` current: `R` for function `ci i`, and the saved `ip` of that frame
    is at an instruction boundary -/
theorem R.toOuter {s t : State} (h : R P ci c I s t) (i : Nat) (hi : i < s.curFrame) :
    R P ci (ci i) (fun _ _ => True)
      { s with frameIndex := (i : Int) + 1, curFrame := ((i : Int)).toNat }
      { t with frameIndex := (i : Int) + 1, curFrame := ((i : Int)).toNat } ∧
    ∃ o : Nat, P.BB (ci i) o ∧ (s.frames[i]!).ip + 1 = o ∧ (t.frames[i]!).ip + 1 = P.Φ (ci i) o := by
  have hcur := h.cur
  refine ⟨{ h with ip := trivial, curFrame := rfl, frameIndex := rfl, link := ?_, cur := ?_, curc := ?_, cok := ?_,
                   cis := ?_, frames := ?_, code := ?_ }, ?_⟩
  · show (((i : Int).toNat : Nat) : Int) + 1 = (i : Int) + 1
    simp
  · show (i : Int).toNat < frameSize
    simp; omega
  · show ci (i : Int).toNat = ci i
    simp
  · exact h.cis i (by omega)
  · intro j hj
    have hj' : j ≤ (i : Int).toNat := hj
    exact h.cis j (by simp at hj'; omega)
  · intro j hj
    have := h.frames j hj
    exact { this with ip := fun hb => this.ip (by have hb' : j < (i : Int).toNat := hb; simp at hb'; omega) }
  · intro j hj a ha
    have hj' : j ≤ (i : Int).toNat := hj
    exact h.code j (by simp at hj'; omega) a ha
  · exact (h.frames i (by omega)).ip hi

/-! ### `throw` / `handleThrownError` -/

/-- result of `throw`: same result; related; at an instruction boundary when a handler took the error -/
def ThrowPost (P : Params) : Option Addr → Option Addr → State → State → Prop :=
  fun a b s t => a = b ∧ RM P s t ∧ (a = none → RB P s t)

/-- the end of `handleThrownError`: unwind the stack -/
def handleTail (hsp : Int) : M (Option Addr) := do
  let sp ← getSp
  if sp ≥ hsp then clearDown sp hsp
  setSp hsp
  return none

theorem rel_handleTail (hsp : Int) : RelE (R P ci c I) (R P ci c I) (RM P) Eq (handleTail hsp) (handleTail hsp) := by
  unfold handleTail; rlc

theorem rel_handle (fuel : Nat)
    (ih : ∀ err, RelQ (RM P) (ThrowPost P) (RM P) (throwF fuel err) (throwF fuel err)) (err : Addr) :
    RelQ (R P ci c I) (ThrowPost P) (RM P) (throwF.handle fuel err) (throwF.handle fuel err) := by
  unfold throwF.handle
  refine RelQ.bind (rel_setLast _ _ (fun a b hab => { hab with err := rfl })) ?_
  intro _ _ _
  refine RelQ.bind rel_curFrame ?_
  intro f g hfg
  rcases hfg.lastHandler with ⟨h1, h2⟩ | ⟨a, b, h1, h2, hab⟩
  · rw [h1, h2]
    exact RelQ.panic _ (fun _ _ h => h.toRM)
  · rw [h1, h2]
    dsimp only
    have tail : ∀ n, RelQ (R P ci c (Ibnd P c n)) (ThrowPost P) (RM P)
        (do let sp ← getSp
            have jp : Unit → M (Option Addr) := fun _ => do setSp a.sp; pure none
            if sp ≥ a.sp then do let r ← clearDown sp a.sp; jp r else jp ())
        (do let sp ← getSp
            have jp : Unit → M (Option Addr) := fun _ => do setSp b.sp; pure none
            if sp ≥ b.sp then do let r ← clearDown sp b.sp; jp r else jp ()) := by
      intro n
      rw [hab.sp]
      exact RelQ.post (RelQ.ofE (rel_handleTail a.sp)) (fun x y s t h => ⟨h.1, h.2.toRM, fun _ => ⟨ci, c, n, h.2⟩⟩)
    by_cases hc : a.catch_ > 0
    · have hc' : b.catch_ > 0 := hab.catch_.pos_iff.1 hc
      rw [if_pos hc, if_pos hc']
      obtain ⟨n, hB, e1, e2⟩ := hab.catch_.target hc
      refine RelQ.bind (rel_setIp_gen (I' := Ibnd P c n) _ _ ⟨hB, by omega, by omega⟩) ?_
      intro _ _ _
      exact tail n
    · have hc' : ¬ b.catch_ > 0 := fun h => hc (hab.catch_.pos_iff.2 h)
      rw [if_neg hc, if_neg hc']
      by_cases hf : a.finally_ > 0
      · have hf' : b.finally_ > 0 := hab.finally_.pos_iff.1 hf
        rw [if_pos hf, if_pos hf']
        obtain ⟨n, hB, e1, e2⟩ := hab.finally_.target hf
        refine RelQ.bind (rel_setIp_gen (I' := Ibnd P c n) _ _ ⟨hB, by omega, by omega⟩) ?_
        intro _ _ _
        exact tail n
      · have hf' : ¬ b.finally_ > 0 := fun h => hf (hab.finally_.pos_iff.2 h)
        rw [if_neg hf, if_neg hf']
        refine RelQ.bind rel_popHandler ?_
        intro _ _ _
        exact (ih err).pre (fun s t h => h.toRM)

/-- `throw` after the handling frame was made current: restore its saved `ip`, then handle -/
theorem rel_throwF_resume (fuel : Nat)
    (ih : ∀ err, RelQ (RM P) (ThrowPost P) (RM P) (throwF fuel err) (throwF fuel err)) (err : Addr)
    (f g : Frame) (hfn : g.fn = f.fn) (o : Nat) (hB : P.BB c o) (e1 : f.ip + 1 = o) (e2 : g.ip + 1 = P.Φ c o) :
    RelQ (R P ci c I) (ThrowPost P) (RM P)
      (have jp : Unit → M (Option Addr) := fun _ => do setIp f.ip; throwF.handle fuel err
       match f.fn with
       | none => do let r ← panic "runtime error: invalid memory address or nil pointer dereference"; jp r
       | some _ => jp ())
      (have jp : Unit → M (Option Addr) := fun _ => do setIp g.ip; throwF.handle fuel err
       match g.fn with
       | none => do let r ← panic "runtime error: invalid memory address or nil pointer dereference"; jp r
       | some _ => jp ()) := by
  rw [hfn]
  dsimp only
  cases f.fn with
  | none =>
    dsimp only
    exact RelQ.bind (VR := fun _ _ => True) (RelE.panic (B := fun _ _ => False) _ (fun _ _ h => h.toRM)) (fun _ _ _ => RelQ.ofFalse)
  | some a =>
    dsimp only
    refine RelQ.bind (rel_setIp_gen (I' := Ibnd P c o) _ _ ⟨hB, e1, e2⟩) ?_
    intro _ _ _
    exact rel_handle fuel ih err

theorem rel_throwF (fuel : Nat) : ∀ err : Addr, RelQ (RM P) (ThrowPost P) (RM P) (throwF fuel err) (throwF fuel err) := by
  induction fuel with
  | zero =>
    intro err
    rw [throwF]
    exact RelQ.unsupported _ (fun _ _ h => h)
  | succ n ih =>
    intro err
    show RelQ (fun s t => ∃ ci, ∃ c, R P ci c (fun _ _ => True) s t) _ _ _ _
    refine RelQ.exists_pre fun ci => RelQ.exists_pre fun c => ?_
    rw [throwF]
    refine RelQ.bind rel_curFrame ?_
    intro cf cg hcf
    rw [hcf.hasHandler]
    refine RelQ.ite (rel_handle n ih err) ?_
    apply RelQ.mk'
    intro s t h
    simp only [exec_bind, exec_getS]
    rw [h.frameIndex]
    have hn : (s.frameIndex - 1).toNat = s.curFrame := by have := h.link; omega
    rw [hn]
    have hs := (rel_searchFrames (P := P) (ci := ci) (c := c) (I := fun _ _ => True) s.curFrame).run s t
      ⟨h, Nat.le_refl _⟩
    rcases h1 : exec (searchFrames s.curFrame) s with ⟨r1, s1⟩
    rcases h2 : exec (searchFrames s.curFrame) t with ⟨r2, t1⟩
    rw [h1, h2] at hs
    cases r1 <;> cases r2 <;> simp only at hs ⊢
    · exact hs
    · obtain ⟨e, h', hi⟩ := hs
      subst e
      rename_i found
      cases found with
      | none =>
        simp only [exec_bind, exec_pure, Option.isNone_none, if_true]
        exact ⟨rfl, h'.toRM, fun e => by cases e⟩
      | some i =>
        obtain ⟨hR, o, hB, e1, e2⟩ := h'.toOuter i (hi i rfl)
        simp only [exec_bind, exec_pure, Option.isNone_some, Bool.false_eq_true, if_false, exec_modS, exec_curFrame]
        simp only [Int.toNat_natCast] at hR ⊢
        have hi' := hi i rfl
        have hcur := h'.cur
        exact (rel_throwF_resume n ih err _ _ (h'.frames i (by omega)).fn o hB e1 e2).run _ _ hR

/-! ### `throwGenErr`, `failWith`, `handlePanic` -/

theorem RelE.exists_pre {α β ι} {A : ι → State → State → Prop} {B E : State → State → Prop}
    {VR : α → β → Prop} {m₁ : M α} {m₂ : M β}
    (h : ∀ x, RelE (A x) B E VR m₁ m₂) : RelE (fun s t => ∃ x, A x s t) B E VR m₁ m₂ :=
  RelE.mk' (fun s t ⟨x, hx⟩ => (h x).run s t hx)

/-- `vm.throw(err)` with the fuel the model computes for it -/
theorem rel_throwNow (ra : Addr) :
    RelQ (R P ci c I) (ThrowPost P) (RM P) (throwFuel >>= fun n => throwF n ra) (throwFuel >>= fun n => throwF n ra) := by
  refine RelQ.bindEq rel_throwFuel_R ?_
  intro n
  exact (rel_throwF n ra).pre (fun _ _ h => h.toRM)

theorem rel_throwGenErr_R (e : OpErr) :
    RelQ (R P ci c I) (fun a b s t => a = b ∧ RM P s t ∧ (a = none → RB P s t)) (RM P)
      (throwGenErr e) (throwGenErr e) := by
  unfold throwGenErr
  refine RelQ.bindEq (rel_rtErrOfOpErr e) ?_
  intro ra
  refine RelQ.bindEq rel_throwFuel_R ?_
  intro n
  refine RelQ.bindQ ((rel_throwF n ra).pre (fun _ _ h => h.toRM)) ?_
  intro a b
  apply RelQ.mk'
  intro s t ⟨e, hM, hB⟩
  subst e
  cases a with
  | none => exact ⟨rfl, hM, fun _ => hB rfl⟩
  | some x => exact ⟨rfl, hM, fun e => by cases e⟩

theorem rel_failWith_R (e : OpErr) : RelQ (R P ci c I) (CtlPost P) (RM P) (failWith e) (failWith e) := by
  unfold failWith
  refine RelQ.bindQ (rel_throwGenErr_R e) ?_
  intro a b
  apply RelQ.mk'
  intro s t ⟨e, hM, hB⟩
  subst e
  cases a with
  | none => exact ⟨rfl, hM, fun _ => hB rfl⟩
  | some ve =>
    obtain ⟨ci', c', hR⟩ := hM
    exact ⟨rfl, ⟨ci', c', { hR with err := rfl }⟩, fun e => by cases e⟩

theorem rel_failWith (e : OpErr) : RelQ (RM P) (CtlPost P) (RM P) (failWith e) (failWith e) := by
  show RelQ (fun s t => ∃ ci, ∃ c, R P ci c (fun _ _ => True) s t) _ _ _ _
  exact RelQ.exists_pre fun ci => RelQ.exists_pre fun c => rel_failWith_R e

theorem rel_handlePanic_R (msg : String) :
    RelE (R P ci c I) (fun s t => RM P s t ∧ (s.err = none → RB P s t)) (RM P) Eq (handlePanic msg) (handlePanic msg) := by
  unfold handlePanic
  refine RelE.bind rel_getS ?_
  intro s0 t0 h0
  simp only [h0.sp, h0.frameIndex, h0.err]
  refine RelE.ite ?_ ?_
  · apply RelQ.toE
    refine RelQ.bindEq (rel_alloc _ (by intro k fr e; cases e)) ?_
    intro ea
    refine RelQ.bindEq (rel_alloc _ (by intro k fr e; cases e)) ?_
    intro ra
    refine RelQ.bindEq rel_throwFuel_R ?_
    intro n
    refine RelQ.bindQ ((rel_throwF n ra).pre (fun _ _ h => h.toRM)) ?_
    intro a b
    apply RelQ.mk'
    intro s t ⟨e, hM, hB⟩
    subst e
    cases a with
    | none => exact ⟨rfl, hM, fun _ => hB rfl⟩
    | some x =>
      obtain ⟨ci', c', hR⟩ := hM
      exact ⟨rfl, ⟨ci', c', { hR with err := rfl }⟩, fun e => by cases e⟩
  · apply RelE.mk'
    intro s t h
    exact ⟨rfl, ⟨ci, c, { h with err := rfl, ip := trivial }⟩, fun e => by cases e⟩

theorem rel_handlePanic (msg : String) :
    RelE (RM P) (fun s t => RM P s t ∧ (s.err = none → RB P s t)) (RM P) Eq (handlePanic msg) (handlePanic msg) := by
  show RelE (fun s t => ∃ ci, ∃ c, R P ci c (fun _ _ => True) s t) _ _ _ _ _
  exact RelE.exists_pre fun ci => RelE.exists_pre fun c => rel_handlePanic_R msg

/-! ### the handler opcodes -/

/-- what `CodeRel.plain` says of the instruction `op` at offset `o` -/
theorem plain_info (hP : P.OK) (hc : c < P.cs.size) {o op : Nat} (hB : P.BB c o)
    (hop : (((P.cs[c]!).insts)[o]!).toNat = op) (hj : isJ op = false) :
    Win (P.cs[c]!).insts (P.ct[c]!).insts (P.Φ c) o (opW op) ∧
    (op ≠ OpReturn → P.BB c (o + opW op + 1) ∧ P.Φ c (o + opW op + 1) = P.Φ c o + opW op + 1) := by
  have := (hP.rel c hc).plain o hB (by rw [hop]; exact hj)
  rw [hop] at this
  exact this

theorem ctl_next_bnd {n : Nat} :
    RelQ (R P ci c (Ibnd P c n)) (CtlPost P) (RM P) (pure Ctl.next) (pure Ctl.next) :=
  RelQ.pure (fun s t h => ⟨rfl, h.toRM, fun _ => ⟨ci, c, n, h⟩⟩)

theorem rel_getIp_at {o : Nat} :
    RelE (R P ci c (Iat P c o)) (R P ci c (Iat P c o)) (RM P) (fun a b => a = (o : Int) ∧ b = (P.Φ c o : Int))
      getIp getIp := by
  apply RelE.mk'
  intro s t h
  rw [exec_getIp, exec_getIp]
  exact ⟨⟨h.ip.2.1, h.ip.2.2⟩, h⟩

/-- `ip += n` over the operands, keeping the function of the current frame -/
theorem rel_bumpIp_c {o : Nat} (n : Int) (nn : Nat) (hn : n = nn)
    (hnext : P.BB c (o + nn + 1) ∧ P.Φ c (o + nn + 1) = P.Φ c o + nn + 1) :
    RelE (R P ci c (Iat P c o)) (R P ci c (Ibnd P c (o + nn + 1))) (RM P) Eq (bumpIp n) (bumpIp n) := by
  apply RelE.mk'
  intro s t h
  rw [exec_bumpIp, exec_bumpIp]
  refine ⟨rfl, { h with ip := ?_ }⟩
  refine ⟨hnext.1, ?_, ?_⟩
  · show s.ip + n + 1 = ((o + nn + 1 : Nat) : Int)
    rw [h.ip.2.1, hn]; simp
  · show t.ip + n + 1 = ((P.Φ c (o + nn + 1) : Nat) : Int)
    rw [h.ip.2.2, hn, hnext.2]; simp

theorem rel_execSetupCatch (hP : P.OK) {o : Nat} (hB : P.BB c o)
    (hop : (((P.cs[c]!).insts)[o]!).toNat = OpSetupCatch) :
    RelQ (R P ci c (Iat P c o)) (CtlPost P) (RM P) execSetupCatch execSetupCatch := by
  refine RelQ.assume fun s0 t0 h0 => RelQ.pre ?_
    (fun s' t' ⟨e1, e2⟩ => (by subst e1; subst e2; exact h0 : R P ci c (Iat P c o) s' t'))
  have hnext := (plain_info hP h0.cok hB hop (by decide)).2 (by decide)
  have hw : opW OpSetupCatch = 0 := by decide
  rw [hw] at hnext
  simp only [Nat.add_zero] at hnext
  clear h0 s0 t0
  unfold execSetupCatch
  refine RelQ.bind rel_curFrame ?_
  intro f g hfg
  dsimp only
  have jp : ∀ v, RelQ (R P ci c (Iat P c o)) (CtlPost P) (RM P)
      (pushV v >>= fun _ => pure Ctl.next) (pushV v >>= fun _ => pure Ctl.next) :=
    fun v => RelQ.bindEq (rel_pushV v) (fun _ => ctl_next_at hnext)
  rw [hfg.hasHandler]
  refine RelQ.ite ?_ (jp _)
  refine RelQ.bind (rel_setLast _ _ (fun a b hab => { hab with catch_ := ARel.zero })) ?_
  intro _ _ _
  rcases hfg.lastHandler with ⟨h1, h2⟩ | ⟨a, b, h1, h2, hab⟩
  · rw [h1, h2]; exact jp _
  · rw [h1, h2]
    dsimp only
    rw [hab.err]
    cases a.err with
    | none => exact jp _
    | some e =>
      dsimp only
      refine RelQ.bind (rel_setLast _ _ (fun a b hab => { hab with err := rfl })) ?_
      intro _ _ _
      exact jp _

theorem rel_execSetupFinally (hP : P.OK) {o : Nat} (hB : P.BB c o)
    (hop : (((P.cs[c]!).insts)[o]!).toNat = OpSetupFinally) :
    RelQ (R P ci c (Iat P c o)) (CtlPost P) (RM P) execSetupFinally execSetupFinally := by
  refine RelQ.assume fun s0 t0 h0 => RelQ.pre ?_
    (fun s' t' ⟨e1, e2⟩ => (by subst e1; subst e2; exact h0 : R P ci c (Iat P c o) s' t'))
  have hnext := (plain_info hP h0.cok hB hop (by decide)).2 (by decide)
  have hw : opW OpSetupFinally = 0 := by decide
  rw [hw] at hnext
  simp only [Nat.add_zero] at hnext
  clear h0 s0 t0
  unfold execSetupFinally
  refine RelQ.bind rel_curFrame ?_
  intro f g hfg
  dsimp only
  rw [hfg.hasHandler]
  refine RelQ.ite ?_ (ctl_next_at hnext)
  refine RelQ.bind (rel_setLast _ _ (fun a b hab => { hab with catch_ := ARel.zero, finally_ := ARel.zero })) ?_
  intro _ _ _
  exact ctl_next_at hnext

/-- `findFinally` returns `0` or the address of a finally block -/
theorem rel_findFinally (fuel : Nat) (upto : Int) :
    RelE (R P ci c I) (R P ci c I) (RM P) (ARel (P.Φ c) (P.BB c)) (findFinally fuel upto) (findFinally fuel upto) := by
  induction fuel with
  | zero =>
    rw [findFinally]
    exact RelE.unsupported _ (fun _ _ h => h.toRM)
  | succ n ih =>
    rw [findFinally]
    refine RelE.bind rel_curFrame ?_
    intro f g hfg
    rcases hfg.hs.cases with ⟨h1, h2⟩ | ⟨h1, h2⟩ | ⟨a, r, b, r', h1, h2, hab, hr⟩
    · rw [h1, h2]
      exact RelE.pure ARel.zero
    · rw [h1, h2]
      dsimp only
      exact RelE.ite (RelE.pure ARel.zero) (RelE.pure ARel.zero)
    · rw [h1, h2]
      dsimp only
      have hl : (b :: r').length = (a :: r).length := by simp [hr.length]
      rw [hl]
      refine RelE.ite (RelE.pure ARel.zero) ?_
      by_cases hz : a.finally_ = 0
      · have hz' : b.finally_ = 0 := hab.finally_.zero_iff.1 hz
        have e1 : (a.finally_ == 0) = true := by simp [hz]
        have e2 : (b.finally_ == 0) = true := by simp [hz']
        rw [if_pos e1, if_pos e2]
        exact RelE.bindEq rel_popHandler (fun _ => ih)
      · have hz' : ¬ b.finally_ = 0 := fun h => hz (hab.finally_.zero_iff.2 h)
        have e1 : ¬ (a.finally_ == 0) = true := by simp [hz]
        have e2 : ¬ (b.finally_ == 0) = true := by simp [hz']
        rw [if_neg e1, if_neg e2]
        exact RelE.pure hab.finally_

theorem rel_execFinalizer (hP : P.OK) {o : Nat} (hB : P.BB c o)
    (hop : (((P.cs[c]!).insts)[o]!).toNat = OpFinalizer) :
    RelQ (R P ci c (Iat P c o)) (CtlPost P) (RM P) execFinalizer execFinalizer := by
  refine RelQ.assume fun s0 t0 h0 => RelQ.pre ?_
    (fun s' t' ⟨e1, e2⟩ => (by subst e1; subst e2; exact h0 : R P ci c (Iat P c o) s' t'))
  have hpl := plain_info hP h0.cok hB hop (by decide)
  have hw : opW OpFinalizer = 1 := by decide
  rw [hw] at hpl
  have hnext := hpl.2 (by decide)
  have hret : ARel (P.Φ c) (P.BB c) (o : Int) (P.Φ c o : Int) := by
    by_cases ho : o = 0
    · subst ho
      have := (hP.rel c h0.cok).fin0 hB hop
      rw [this]
      exact ARel.zero
    · exact Or.inr ⟨o, by omega, by have := (hP.rel c h0.cok).mono 0 o (by omega); omega, hB, rfl, rfl⟩
  clear h0 s0 t0
  unfold execFinalizer
  refine RelQ.bindEq (rel_opnd1 hpl.1 1 1 rfl (Nat.le_refl _)) ?_
  intro upto
  refine RelQ.bind rel_curFrame ?_
  intro f g hfg
  dsimp only
  show RelQ _ _ _ (findFinally (nh f + 2) (upto : Int) >>= _) (findFinally (nh g + 2) (upto : Int) >>= _)
  rw [hfg.nh]
  refine RelQ.bind (rel_findFinally _ _) ?_
  intro pos pos' hpos
  by_cases hp : pos ≤ 0
  · rw [if_pos hp, if_pos (hpos.le_zero_iff.1 hp)]
    refine RelQ.bind (rel_bumpIp_next 1 1 rfl hnext) ?_
    intro _ _ _
    exact ctl_next_RB
  · rw [if_neg hp, if_neg (fun h => hp (hpos.le_zero_iff.2 h))]
    refine RelQ.bind rel_getIp_at ?_
    intro ip ip' ⟨e1, e2⟩
    subst e1
    subst e2
    refine RelQ.bindEq rel_getSp ?_
    intro sp
    refine RelQ.bind (rel_setLast _ _ (fun a b hab => { hab with returnTo := hret, sp := rfl, err := rfl })) ?_
    intro _ _ _
    obtain ⟨n, hBn, e1, e2⟩ := hpos.target (by omega)
    refine RelQ.bind (rel_setIp_target pos pos' n hBn e1 e2) ?_
    intro _ _ _
    exact ctl_next_RB

/-- THROW's conversion of the thrown object into a `*RuntimeError` -/
def throwObj (obj : V) : M Addr :=
  match obj with
  | .rterr a => pure a
  | .err a => alloc (.rterr (some a))
  | .nil => panic "runtime error: invalid memory address or nil pointer dereference"
  | v => do
    let msg ← vString v
    let ea ← alloc (.err [] msg none)
    alloc (.rterr (some ea))

theorem rel_throwObj (obj : V) : RelE (R P ci c I) (R P ci c I) (RM P) Eq (throwObj obj) (throwObj obj) := by
  unfold throwObj; rlc

/-- `if err := vm.throw(e); err != nil { vm.err = err; return }` -/
theorem rel_throwEnd (e : Addr) :
    RelQ (R P ci c I) (CtlPost P) (RM P)
      (do let n ← throwFuel
          let r ← throwF n e
          match r with
          | none => pure Ctl.next
          | some a => do modS (fun s => { s with err := some (.rt a) }); pure Ctl.ret)
      (do let n ← throwFuel
          let r ← throwF n e
          match r with
          | none => pure Ctl.next
          | some a => do modS (fun s => { s with err := some (.rt a) }); pure Ctl.ret) := by
  refine RelQ.bindEq rel_throwFuel_R ?_
  intro n
  refine RelQ.bindQ ((rel_throwF n e).pre (fun _ _ h => h.toRM)) ?_
  intro a b
  apply RelQ.mk'
  intro s t ⟨e, hM, hB⟩
  subst e
  cases a with
  | none => exact ⟨rfl, hM, fun _ => hB rfl⟩
  | some x =>
    obtain ⟨ci', c', hR⟩ := hM
    exact ⟨rfl, ⟨ci', c', { hR with err := rfl }⟩, fun e => by cases e⟩

theorem rel_execThrow (hP : P.OK) {o : Nat} (hB : P.BB c o)
    (hop : (((P.cs[c]!).insts)[o]!).toNat = OpThrow) :
    RelQ (R P ci c (Iat P c o)) (CtlPost P) (RM P) execThrow execThrow := by
  refine RelQ.assume fun s0 t0 h0 => RelQ.pre ?_
    (fun s' t' ⟨e1, e2⟩ => (by subst e1; subst e2; exact h0 : R P ci c (Iat P c o) s' t'))
  have hpl := plain_info hP h0.cok hB hop (by decide)
  have hw : opW OpThrow = 1 := by decide
  rw [hw] at hpl
  have hnext := hpl.2 (by decide)
  clear h0 s0 t0
  unfold execThrow
  refine RelQ.bindEq (rel_opnd1 hpl.1 1 1 rfl (Nat.le_refl _)) ?_
  intro k
  refine RelQ.bind (rel_bumpIp_c 1 1 rfl hnext) ?_
  intro _ _ _
  refine RelQ.ite ?_ (RelQ.ite ?_ ?_)
  · -- `throw` without operand: the end of a finally block
    refine RelQ.bind rel_curFrame ?_
    intro f g hfg
    rcases hfg.lastHandler with ⟨h1, h2⟩ | ⟨a, b, h1, h2, hab⟩
    · rw [h1, h2]; exact ctl_next_bnd
    · rw [h1, h2]
      dsimp only
      rw [hab.err]
      cases a.err with
      | some e =>
        dsimp only
        refine RelQ.bindEq rel_popHandler ?_
        intro _
        exact rel_throwEnd e
      | none =>
        dsimp only
        by_cases hr : a.returnTo > 0
        · rw [if_pos hr, if_pos (hab.returnTo.pos_iff.1 hr)]
          obtain ⟨n, hBn, e1, e2⟩ := hab.returnTo.target hr
          refine RelQ.bindEq rel_popHandler ?_
          intro _
          rw [hab.sp]
          refine RelQ.bindEq rel_getSp ?_
          intro sp
          have jp : RelQ (R P ci c (Ibnd P c (o + 1 + 1))) (CtlPost P) (RM P)
              (do setSp a.sp; setIp (a.returnTo - 1); pure Ctl.next)
              (do setSp a.sp; setIp (b.returnTo - 1); pure Ctl.next) := by
            refine RelQ.bindEq (rel_setSp _) ?_
            intro _
            refine RelQ.bind (rel_setIp_target _ _ n hBn e1 e2) ?_
            intro _ _ _
            exact ctl_next_RB
          exact RelQ.ite (RelQ.bindEq (rel_clearDown _ _) (fun _ => jp)) jp
        · rw [if_neg hr, if_neg (fun h => hr (hab.returnTo.pos_iff.2 h))]
          refine RelQ.bindEq rel_popHandler ?_
          intro _
          exact ctl_next_bnd
  · -- `throw obj`
    refine RelQ.bindEq rel_getSp ?_
    intro sp
    refine RelQ.bindEq (rel_stackGet _) ?_
    intro obj
    refine RelQ.bindEq (rel_stackSet _ _) ?_
    intro _
    refine RelQ.bindEq (rel_setSp _) ?_
    intro _
    refine RelQ.bindEq (rel_throwObj obj) ?_
    intro ra
    exact rel_throwEnd ra
  · exact RelQ.bindEq (rel_setErr _) (fun _ => ctl_ret)

end UgoVerif.VM.Reloc
