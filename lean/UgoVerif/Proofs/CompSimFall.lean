import UgoVerif.Proofs.CompSimProg
import UgoVerif.Proofs.CompileScan
import UgoVerif.Proofs.CompileEnc
/-
  C02, compile ⊑ Sem, statement slice — the fall-off-the-end RETURN of `Bytecode()`.

  `Bytecode()` (`Compile.finishFn`) scans the stream and appends `RETURN 0` unless the last
  instruction is a RETURN and no jump targets the end.  For scripts of the fragment `StmtF`:
  whenever the reference semantics completes the statement list normally, the syntactic predicate
  `fallL` holds (`normal_fall`), and `fallL` implies that the end of the stream the compile model
  produces is reachable for the scan (`Falls`: the stream is empty, or its last instruction is not
  a RETURN, or a jump instruction at a boundary targets the end) — hence the RETURN is appended
  (`appended_of_fall`).  Instruction boundaries come from builder-c05's invariant (`Compile.Inv`,
  `Walk`), the scan's meaning from `scanFn_spec` (`LastAt` / `PendOK`).
-/
set_option linter.unusedSimpArgs false
set_option linter.unusedVariables false
set_option linter.deprecated false
namespace UgoVerif.CompSim
open UgoVerif UgoVerif.Go UgoVerif.Ast UgoVerif.VM UgoVerif.Proofs.ModCache UgoVerif.Proofs.VMExec
open UgoVerif.Compile (CState runCM compileExpr compileStmt compileStmts IsPre Pre Table nextIndex)
open UgoVerif.Compile (Walk Inv Rel isJumpOp readBE opWidth)

/-! ### the end of a stretch of code is reachable for the scan -/

/-- `Falls`: the stretch `[i, j)` of `a` is empty, or (`FallsJ`) the instruction that ends at `j` is not a
    RETURN, or a jump instruction of the stretch targets `j` -/
def FallsJ (a : Array UInt8) (i j : Nat) : Prop :=
  ∃ q b, Walk a 0 q ∧ i ≤ q ∧ a[q]? = some b ∧
    ((b.toNat ≠ Compile.OpReturn ∧ q + 1 + opWidth b.toNat = j) ∨
     (isJumpOp b.toNat = true ∧ q + 5 ≤ j ∧ readBE a (q + 1) 4 = j))

def Falls (a : Array UInt8) (i j : Nat) : Prop := i = j ∨ FallsJ a i j

theorem FallsJ.mono {a : Array UInt8} {i i' j : Nat} (h : FallsJ a i j) (hi : i' ≤ i) : FallsJ a i' j := by
  obtain ⟨q, b, hw, hq, hb, h⟩ := h
  exact ⟨q, b, hw, by omega, hb, h⟩

theorem Falls.pre {a a' : Array UInt8} {i j : Nat} (h : Falls a i j) (hp : Pre a a') (hj : j ≤ a.size) :
    Falls a' i j := by
  rcases h with h | ⟨q, b, hw, hi, hb, h⟩
  · exact .inl h
  · refine .inr ⟨q, b, hw.pre hp, hi, getElem?_of_pre hp hb, ?_⟩
    rcases h with h | ⟨h1, h2, h3⟩
    · exact .inl h
    · refine .inr ⟨h1, h2, ?_⟩
      rw [Compile.readBE4_congr (a := a) (fun k hk => hp.2 _ (by omega))]
      exact h3

theorem Falls.seq {a : Array UInt8} {i j k : Nat} (h1 : Falls a i j) (h2 : Falls a j k) (hij : i ≤ j) :
    Falls a i k := by
  rcases h2 with h | ⟨q, b, hw, hq, hb, h⟩
  · subst h; exact h1
  · exact .inr ⟨q, b, hw, by omega, hb, h⟩

/-- on a stream whose end is reachable the scan of `Bytecode()` does not end with (RETURN, no pending
    jump): the RETURN is appended -/
theorem falls_scan {a : Array UInt8} (hw : Walk a 0 a.size) (hf : Falls a 0 a.size) {l : Nat} {P : List Nat}
    (hs : Compile.scanFn a (a.size + 1) 0 0 [] = some (l, P)) : l ≠ Compile.OpReturn ∨ P ≠ [] := by
  obtain ⟨hpend, hlast⟩ := Compile.scanFn_spec (a := a) (a.size + 1) 0 0 [] l P (.refl 0) hw (by omega)
    (fun q t _ hq _ => absurd hq (Nat.not_lt_zero _)) (.inl rfl) hs
  by_cases hl : l = Compile.OpReturn
  · right
    intro hP
    subst hP
    subst hl
    rcases hf with h0 | ⟨q, b, hwq, _, hb, h⟩
    · rcases hlast with ⟨_, hl0⟩ | ⟨q', b', _, _, _, hq'⟩
      · exact absurd hl0 (by decide)
      · omega
    · rcases h with ⟨hne, hend⟩ | ⟨hj, hq5, hrd⟩
      · rcases hlast with ⟨hz, _⟩ | ⟨q', b', hwq', hb', hbl, hq'⟩
        · omega
        · rcases hwq.comparable hwq' with hc | hc
          · cases hc with
            | refl => rw [hb] at hb'; injection hb' with e; subst e; exact hne hbl
            | step op g1 g2 g3 g4 =>
              have : op = b := by rw [hb] at g1; injection g1 with g; exact g.symm
              subst this
              have := g4.le; omega
          · cases hc with
            | refl => rw [hb] at hb'; injection hb' with e; subst e; exact hne hbl
            | step op g1 g2 g3 g4 =>
              have : op = b' := by rw [hb'] at g1; injection g1 with g; exact g.symm
              subst this
              have := g4.le; rw [hbl] at this; omega
      · have := hpend q a.size ⟨⟨hwq, by omega⟩, b, hb, hj, hrd⟩ (by omega) (Nat.le_refl _)
        simp at this
  · exact .inl hl

/-! ### builder-c05's invariant along a successful run -/

theorem good_run {α} {m : Compile.CM α} (h : Compile.Good m) {cs cs1 : CState} {a : α} (hi : Inv cs)
    (hr : runCM m cs = (.ok a, cs1)) : Inv cs1 ∧ Rel cs cs1 := by
  have h1 := h cs hi
  simp only [Compile.Sat, hr] at h1
  exact ⟨h1.1, h1.2.1⟩

theorem okE_of_exprF (σ : String → Option Nat) : ∀ e : Expr, ExprF σ e = true → okE e = true
  | .paren _ e, h => by
    simp only [ExprF] at h
    simp only [okE]; exact okE_of_exprF σ e h
  | .unary _ _ e, h => by
    simp only [ExprF] at h
    simp only [okE]; exact okE_of_exprF σ e h
  | .binary _ _ l r, h => by
    simp only [ExprF, Bool.and_eq_true] at h
    simp only [okE, Bool.and_eq_true]; exact ⟨okE_of_exprF σ l h.1, okE_of_exprF σ r h.2⟩
  | .cond _ c t f, h => by
    simp only [ExprF, Bool.and_eq_true] at h
    simp only [okE, Bool.and_eq_true]
    exact ⟨⟨okE_of_exprF σ c h.1.1, okE_of_exprF σ t h.1.2⟩, okE_of_exprF σ f h.2⟩
  | .int .., _ | .uint .., _ | .float .., _ | .char .., _ | .bool .., _ | .str .., _ | .undef _, _
  | .ident .., _ | .import_ .., _ => by simp [okE]
  | .array .., h | .map .., h | .index .., h | .selector .., h | .slice .., h | .call .., h | .func .., h => by
    simp [ExprF] at h

theorem good_expr_run {σ : String → Option Nat} {e : Expr} (hF : ExprF σ e = true) {cs cs1 : CState} (hi : Inv cs)
    (hr : runCM (compileExpr e) cs = (.ok (), cs1)) : Inv cs1 ∧ Rel cs cs1 :=
  good_run ((Compile.allGood (sizeOf e + 1)).expr e (Nat.lt_succ_self _) (okE_of_exprF σ e hF)) hi hr

theorem inv_fork {s : CState} (hs : Inv s) (tn : Table)
    (h1 : tn.store = []) (h2 : tn.frees = []) (h3 : tn.numParams = 0) (hb : tn.block = true) :
    Inv { s with tables := tn :: s.tables } := by
  refine hs.of_tables (s' := { s with tables := tn :: s.tables }) (by simp) ?_ ?_ rfl rfl
  · exact Compile.chain_fork hs.chain hs.ne tn h1 h2 h3
  · have e : Compile.limsOf ({ s with tables := tn :: s.tables } : CState) = Compile.limsOf s :=
      Compile.limsOf_tables (s := s) (s' := { s with tables := tn :: s.tables }) rfl
        (Compile.fmd_cons_block hb) (Compile.fnf_cons_block hb)
    rw [e]; exact Compile.Lims.le_refl _

/-! ### what may complete normally, syntactically -/

mutual
/-- over-approximation of "the statement may complete normally" that the code generator agrees
    with: `return` never does, a block does when its list does, `if true { … }` (only the body is compiled)
    does when the body does, everything else may -/
def fallS : Stmt → Bool
  | .return_ _ _ => false
  | .block _ body => fallL body
  | .if_ _ _ c _ body _ => !isTrueLit c || fallL body
  | _ => true
def fallL : List Stmt → Bool
  | [] => true
  | s :: r => fallS s && fallL r
end

theorem fallS_block (pos : Pos) (body : List Stmt) : fallS (.block pos body) = fallL body := by
  first | rfl | simp [fallS]
theorem fallS_return (pos : Pos) (e : Option Expr) : fallS (.return_ pos e) = false := by
  first | rfl | simp [fallS]
theorem fallS_if (pos : Pos) (init : Option Stmt) (c : Expr) (bp : Pos) (body : List Stmt) (els : Option Stmt) :
    fallS (.if_ pos init c bp body els) = (!isTrueLit c || fallL body) := by
  first | rfl | simp [fallS]
theorem execStmt_ifG (F : FloatOps) (fuel : Nat) (env : Sem.Env) (pos : Pos) (init : Option Stmt) (bp : Pos) (c : Expr)
    (body : List Stmt) (else_ : Option Stmt) :
    Sem.execStmt F (fuel + 1) env (.if_ pos init c bp body else_) = (do
      let (c0, env1) ← (match init with
        | some i => Sem.execStmt F fuel ([] :: env) i
        | none => pure (Sem.Comp.normal, [] :: env))
      match c0 with
      | .normal =>
        match (← Sem.evalExpr F fuel env1 c) with
        | .thr a => pure (.thr a, env)
        | .val cv =>
          if !(← Sem.liftM (isFalsy cv)) then do
            let (c, _) ← Sem.execBlock F fuel env1 body
            pure (c, env)
          else
            match else_ with
            | some e => do let (c, _) ← Sem.execStmt F fuel env1 e; pure (c, env)
            | none => pure (.normal, env)
      | c => pure (c, env)) := rfl
theorem fallL_nil : fallL [] = true := by first | rfl | simp [fallL]
theorem fallL_cons (s : Stmt) (r : List Stmt) : fallL (s :: r) = (fallS s && fallL r) := by
  first | rfl | simp [fallL]

/-- normal completion in the reference semantics implies the syntactic predicate -/
theorem normal_fall_aux (F : FloatOps) : ∀ (n fuel : Nat), fuel ≤ n →
    (∀ (st : Stmt) (env : Sem.Env) (ss ss' : Sem.SemSt) (t t' : State) (env' : Sem.Env),
      exec ((Sem.execStmt F fuel env st).run ss) t = (.ok ((.normal, env'), ss'), t') → fallS st = true) ∧
    (∀ (l : List Stmt) (env : Sem.Env) (ss ss' : Sem.SemSt) (t t' : State) (env' : Sem.Env),
      exec ((Sem.execList F fuel env l).run ss) t = (.ok ((.normal, env'), ss'), t') → fallL l = true)
  | n, 0, _ => ⟨fun st env ss ss' t t' env' hsem => (execStmt_zero' hsem).elim,
      fun l env ss ss' t t' env' hsem => by rw [execList_zero] at hsem; exact (sm_unsupported_ne hsem).elim⟩
  | 0, fuel + 1, h => by omega
  | n + 1, fuel + 1, h => by
    have ih := normal_fall_aux F n fuel (by omega)
    constructor
    · intro st env ss ss' t t' env' hsem
      cases st with
      | return_ pos e =>
        exfalso
        cases e with
        | none =>
          rw [execStmt_return0] at hsem
          obtain ⟨hce, _, _⟩ := sm_pure_inv hsem
          simp only [Prod.mk.injEq] at hce
          cases hce.1
        | some x =>
          rw [execStmt_return1] at hsem
          obtain ⟨rr, ss2, t2, _, h2⟩ := sm_bind_inv hsem
          cases rr with
          | thr a =>
            obtain ⟨hce, _, _⟩ := sm_pure_inv h2
            simp only [Prod.mk.injEq] at hce
            cases hce.1
          | val v =>
            obtain ⟨hce, _, _⟩ := sm_pure_inv h2
            simp only [Prod.mk.injEq] at hce
            cases hce.1
      | block pos body =>
        rw [execStmt_block] at hsem
        rw [fallS_block]
        cases fuel with
        | zero => rw [execBlock_zero] at hsem; exact (sm_unsupported_ne hsem).elim
        | succ f =>
          rw [execBlock_succ] at hsem
          obtain ⟨⟨c1, envX⟩, ss1, t1, h1, h2⟩ := sm_bind_inv hsem
          obtain ⟨hce, rfl, rfl⟩ := sm_pure_inv h2
          simp only [Prod.mk.injEq] at hce
          have hc1 := hce.1
          subst hc1
          exact (normal_fall_aux F n f (by omega)).2 body _ _ _ _ _ _ h1
      | if_ pos init c bp body els =>
        rw [fallS_if]
        cases hT : isTrueLit c with
        | false => rfl
        | true =>
          obtain ⟨p, rfl⟩ := isTrueLit_inv hT
          show fallL body = true
          rw [execStmt_ifG] at hsem
          obtain ⟨⟨c0, env1⟩, ss0, t0, h0, hsem⟩ := sm_bind_inv hsem
          cases c0 with
          | normal =>
            simp only at hsem
            obtain ⟨rc, ss1, t1, hev, hsem⟩ := sm_bind_inv hsem
            cases fuel with
            | zero =>
              have h00 : Sem.evalExpr F 0 env1 (.bool p true) = Sem.liftM (unsupported "sem: fuel") := rfl
              rw [h00] at hev; exact (sm_unsupported_ne hev).elim
            | succ f =>
              have h1 : Sem.evalExpr F (f + 1) env1 (.bool p true) = pure (.val (.bool true)) := rfl
              rw [h1] at hev
              obtain ⟨hrc, rfl, rfl⟩ := sm_pure_inv hev
              subst hrc
              simp only at hsem
              obtain ⟨fl, ss2, t2, hfl, hsem⟩ := sm_bind_inv hsem
              obtain ⟨rfl, hfl'⟩ := sm_liftM_inv hfl
              have hf : ∀ w : State, exec (isFalsy (.bool true)) w = (.ok false, w) := fun _ => rfl
              rw [hf] at hfl'
              simp only [Prod.mk.injEq, Except.ok.injEq] at hfl'
              obtain ⟨rfl, rfl⟩ := hfl'
              simp only [Bool.not_false, if_true] at hsem
              obtain ⟨⟨c1, envX⟩, ss3, t3, hb, hsem⟩ := sm_bind_inv hsem
              obtain ⟨hce, rfl, rfl⟩ := sm_pure_inv hsem
              simp only [Prod.mk.injEq] at hce
              have hc1 := hce.1
              subst hc1
              rw [execBlock_succ] at hb
              obtain ⟨⟨c2, envY⟩, ss4, t4, hl, hb⟩ := sm_bind_inv hb
              obtain ⟨hce2, rfl, rfl⟩ := sm_pure_inv hb
              simp only [Prod.mk.injEq] at hce2
              have hc2 := hce2.1
              subst hc2
              exact (normal_fall_aux F n f (by omega)).2 body _ _ _ _ _ _ hl
          | brk =>
            simp only at hsem
            obtain ⟨hce, _, _⟩ := sm_pure_inv hsem
            simp only [Prod.mk.injEq] at hce
            cases hce.1
          | cont =>
            simp only at hsem
            obtain ⟨hce, _, _⟩ := sm_pure_inv hsem
            simp only [Prod.mk.injEq] at hce
            cases hce.1
          | ret v =>
            simp only at hsem
            obtain ⟨hce, _, _⟩ := sm_pure_inv hsem
            simp only [Prod.mk.injEq] at hce
            cases hce.1
          | thr a =>
            simp only at hsem
            obtain ⟨hce, _, _⟩ := sm_pure_inv hsem
            simp only [Prod.mk.injEq] at hce
            cases hce.1
      | _ => first | rfl | simp [fallS]
    · intro l env ss ss' t t' env' hsem
      cases l with
      | nil => exact fallL_nil
      | cons s r =>
        rw [execList_cons] at hsem
        obtain ⟨⟨c1, env1⟩, ss1, t1, hs1, hsem⟩ := sm_bind_inv hsem
        cases c1 with
        | normal =>
          simp only at hsem
          rw [fallL_cons, Bool.and_eq_true]
          exact ⟨ih.1 s _ _ _ _ _ _ hs1, ih.2 r _ _ _ _ _ _ hsem⟩
        | ret v =>
          simp only at hsem
          obtain ⟨hce, _, _⟩ := sm_pure_inv hsem
          simp only [Prod.mk.injEq] at hce
          cases hce.1
        | thr a =>
          simp only at hsem
          obtain ⟨hce, _, _⟩ := sm_pure_inv hsem
          simp only [Prod.mk.injEq] at hce
          cases hce.1
        | brk =>
          simp only at hsem
          obtain ⟨hce, _, _⟩ := sm_pure_inv hsem
          simp only [Prod.mk.injEq] at hce
          cases hce.1
        | cont =>
          simp only at hsem
          obtain ⟨hce, _, _⟩ := sm_pure_inv hsem
          simp only [Prod.mk.injEq] at hce
          cases hce.1

/-- a statement list that completes normally in the reference semantics satisfies `fallL` -/
theorem normal_fall (F : FloatOps) {fuel : Nat} {l : List Stmt} {env env' : Sem.Env} {ss ss' : Sem.SemSt} {t t' : State}
    (h : exec ((Sem.execList F fuel env l).run ss) t = (.ok ((.normal, env'), ss'), t')) : fallL l = true :=
  (normal_fall_aux F fuel fuel (Nat.le_refl _)).2 l env ss ss' t t' env' h

/-! ### the code of a statement that may complete normally -/

/-- the last instruction emitted is not a RETURN -/
theorem falls_emit_last {pos : Pos} {op : Nat} {args : List Int} {csA csB : CState}
    (hw : Walk csA.insts 0 csA.insts.size) (hem : runCM (Compile.emit_ pos op args) csA = (.ok (), csB))
    (hop : op < Compile.numOpcodes) (hne : op ≠ Compile.OpReturn) (i : Nat) (hi : i ≤ csA.insts.size) :
    Falls csB.insts i csB.insts.size := by
  obtain ⟨bs, hbs, rfl⟩ := emit__inv hem
  obtain ⟨rest, rfl, hl⟩ := Compile.makeInstruction_ok hbs
  have hto : (UInt8.ofNat op).toNat = op := by
    simp [UInt8.toNat_ofNat']
    unfold Compile.numOpcodes at hop
    omega
  refine .inr ⟨csA.insts.size, UInt8.ofNat op, hw.pre (Compile.pre_append _ _), hi, ?_, .inl ⟨by rw [hto]; exact hne, ?_⟩⟩
  · simpa using emit_bytes (cs := csA) (UInt8.ofNat op :: rest) 0 (by simp)
  · show csA.insts.size + 1 + opWidth (UInt8.ofNat op).toNat = (csA.insts ++ (UInt8.ofNat op :: rest).toArray).size
    rw [hto]; simp [hl]; omega

/-- the property of the code of a statement / a statement list -/
def FallS (B : List String) (st : Stmt) : Prop :=
  ∀ cs cs' : CState, runCM (compileStmt st) cs = (.ok (), cs') → Cov B (localIdx cs) → CsOK cs → Inv cs →
    fallS st = true → Falls cs'.insts cs.insts.size cs'.insts.size

def FallL (B : List String) (l : List Stmt) : Prop :=
  ∀ cs cs' : CState, runCM (compileStmts l) cs = (.ok (), cs') → Cov B (localIdx cs) → CsOK cs → Inv cs →
    fallL l = true → Falls cs'.insts cs.insts.size cs'.insts.size

theorem fall_empty (B : List String) (pos : Pos) : FallS B (.empty pos) := by
  intro cs cs' hc _ _ _ _
  have hc' : runCM (pure () : Compile.CM Unit) cs = (.ok (), cs') := by
    rw [Compile.compileStmt_eq] at hc; exact hc
  obtain ⟨_, rfl⟩ := pure_inv hc'
  exact .inl rfl

theorem fall_exprStmt (B : List String) (pos : Pos) (e : Expr) (hF : ExprF (bnd B) e = true) :
    FallS B (.expr pos e) := by
  intro cs cs' hc hcov hok hinv _
  rw [compileStmt_expr] at hc
  obtain ⟨_, cs1, he, hc⟩ := bind_inv hc
  have hg := good_expr_run hF hinv he
  exact falls_emit_last hg.1.walk hc (by decide) (by decide) _ hg.2.pre.1

theorem fall_defineCore (F : FloatOps) (B : List String) (pos : Pos) (x : String) (r : Expr)
    (hF : ExprF (bnd B) r = true) (hx : x ≠ "_") {cs cs' : CState}
    (hc : runCM (do compileExpr r; Compile.compileDefine pos x false tVar) cs = (.ok (), cs'))
    (hcov : Cov B (localIdx cs)) (hok : CsOK cs) (hinv : Inv cs) :
    Falls cs'.insts cs.insts.size cs'.insts.size := by
  obtain ⟨_, cs1, he, hc⟩ := bind_inv hc
  have hFe := exprF_of_cov hcov hF
  obtain ⟨she, _⟩ := good_all F r cs cs1 he hFe
  have hok1 := hok.of_shape she
  obtain ⟨T1, T2, csB, hem, rfl, _⟩ := compileDefine_inv hx hok1 hc
  have hg := good_expr_run hF hinv he
  show Falls csB.insts cs.insts.size csB.insts.size
  exact falls_emit_last (csA := { cs1 with tables := T1 }) hg.1.walk hem (by decide) (by decide) _ hg.2.pre.1

theorem fall_define (F : FloatOps) (B : List String) (pos p : Pos) (x : String) (r : Expr)
    (hF : ExprF (bnd B) r = true) (hx : x ≠ "_") : FallS B (.assign pos tDefine [.ident p x] [r]) := by
  intro cs cs' hc hcov hok hinv _
  rw [compileStmt_assign1 _ _ _ _ _ (.inl rfl), cda_define] at hc
  exact fall_defineCore F B pos x r hF hx hc hcov hok hinv

theorem fall_varDecl (F : FloatOps) (B : List String) (pos ipos : Pos) (iota : Option Nat) (x : String) (e : Expr)
    (hF : ExprF (bnd B) e = true) (hx : x ≠ "_") :
    FallS B (.declValue pos tVar [(iota, [(ipos, x)], [some e])]) := by
  intro cs cs' hc hcov hok hinv _
  rw [compileStmt_var1] at hc
  exact fall_defineCore F B pos x e hF hx hc hcov hok hinv

theorem fall_assign (F : FloatOps) (B : List String) (pos p : Pos) (x : String) (r : Expr)
    (hF : ExprF (bnd B) r = true) (hx : x ∈ B) : FallS B (.assign pos tAssign [.ident p x] [r]) := by
  intro cs cs' hc hcov hok hinv _
  rw [compileStmt_assign1 _ _ _ _ _ (.inr rfl), cda_assign _ _ _ _ (by decide)] at hc
  obtain ⟨_, cs1, he, hc⟩ := bind_inv hc
  have hFe := exprF_of_cov hcov hF
  obtain ⟨she, _⟩ := good_all F r cs cs1 he hFe
  obtain ⟨i, hi⟩ := Option.isSome_iff_exists.mp (hcov x hx)
  have hi1 : localIdx cs1 x = some i := by rw [she.localIdx]; exact hi
  have hem := assignSym_inv hi1 hc
  have hg := good_expr_run hF hinv he
  exact falls_emit_last hg.1.walk hem (by decide) (by decide) _ hg.2.pre.1

theorem fall_compound (F : FloatOps) (B : List String) (pos p : Pos) (x : String) (r : Expr) (tok op : Nat)
    (hF : ExprF (bnd B) r = true) (hx : x ∈ B) (hop : Compile.compoundOp tok = some op) :
    FallS B (.assign pos tok [.ident p x] [r]) := by
  have h1 : tok ≠ tDefine := by
    rintro rfl
    have : Compile.compoundOp tDefine = none := by decide
    rw [this] at hop; cases hop
  have h2 : tok ≠ tAssign := by
    rintro rfl
    have : Compile.compoundOp tAssign = none := by decide
    rw [this] at hop; cases hop
  intro cs cs' hc hcov hok hinv _
  rw [compileStmt_compound _ _ _ _ _ h1 h2, hop, cda_assign _ _ _ _ h1] at hc
  simp only at hc
  obtain ⟨_, csa, hea, hc⟩ := bind_inv hc
  obtain ⟨_, csb, heb, hc⟩ := bind_inv hc
  obtain ⟨_, csc, hec, hc⟩ := bind_inv hc
  obtain ⟨i, hi⟩ := Option.isSome_iff_exists.mp (hcov x hx)
  have hFa : ExprF (localIdx cs) (.ident p x) = true := by simp [ExprF, hi]
  obtain ⟨sha, _⟩ := good_all F (.ident p x) cs csa hea hFa
  have hFb : ExprF (localIdx csa) r = true := by rw [sha.localIdx]; exact exprF_of_cov hcov hF
  obtain ⟨shb, _⟩ := good_all F r csa csb heb hFb
  have shc := Shape.of_emit_ hec
  have hic : localIdx csc x = some i := by rw [shc.localIdx, shb.localIdx, sha.localIdx]; exact hi
  have hem := assignSym_inv hic hc
  have ga := good_expr_run hFa hinv hea
  have gb := good_expr_run hFb ga.1 heb
  have gc := good_run (Compile.good_emit_ (pos := pos) (op := Compile.OpBinaryOp) (args := [(op : Int)]) (by decide)
    ⟨fun h => absurd h (by decide), fun h => absurd h (by decide), by decide⟩) gb.1 hec
  exact falls_emit_last gc.1.walk hem (by decide) (by decide) _
    (by have := sha.pre.1; have := shb.pre.1; have := shc.pre.1; omega)

/-! ### blocks -/

/-- a block: the state the body is compiled from / to -/
theorem withBlock_inv (F : FloatOps) {B B1 : List String} {nd : Nat} {act : Compile.CM Unit}
    {sem : Nat → Sem.Env → Sem.SM (Sem.Comp × Sem.Env)} {cs cs' : CState}
    (hc : runCM (Compile.withBlock act) cs = (.ok (), cs')) (h : GoodC F B B1 nd act sem)
    (hcov : Cov B (localIdx cs)) (hok : CsOK cs) (hinv : Inv cs) :
    ∃ cs1 cs2, runCM act cs1 = (.ok (), cs2) ∧ cs1.insts = cs.insts ∧ cs'.insts = cs2.insts ∧
      Cov B (localIdx cs1) ∧ CsOK cs1 ∧ Inv cs1 := by
  obtain ⟨t0, r0, htr⟩ := tables_cons_of_ok hok
  unfold Compile.withBlock at hc
  obtain ⟨_, cs1, hfork0, hc⟩ := bind_inv hc
  rw [Compile.runCM_forkTable true htr] at hfork0
  simp only [Prod.mk.injEq, Except.ok.injEq, true_and] at hfork0
  obtain ⟨nt, hnt⟩ : ∃ nt : Table, nt = ({ block := true, disableParams := t0.disableParams, hasParentConstLit := t0.hasConstLit || t0.hasParentConstLit } : Table) := ⟨_, rfl⟩
  rw [← hnt] at hfork0
  have hnb : nt.block = true := by rw [hnt]
  have hns : nt.store = [] := by rw [hnt]
  have hnn : nt.numDefinition = 0 := by rw [hnt]
  have hnf : nt.frees = [] := by rw [hnt]
  have hnp : nt.numParams = 0 := by rw [hnt]
  obtain ⟨_, cs2, hact, hc⟩ := bind_inv hc
  obtain ⟨tp, cs3, hpop, hc⟩ := bind_inv hc
  obtain ⟨_, rfl⟩ := pure_inv hc
  have ht1 : cs1.tables = nt :: cs.tables := by rw [← hfork0]
  have hi1 : cs1.insts = cs.insts := by rw [← hfork0]
  have hinv1 : Inv cs1 := by rw [← hfork0]; exact inv_fork hinv nt hns hnf hnp hnb
  have hl1 : localIdx cs1 = localIdx cs := by
    funext n
    rw [localIdx_eq, localIdx_eq, ht1, locOf_fork n nt cs.tables hns hnb]
  have hni1 : nextIndex cs1.tables = nextIndex cs.tables := by rw [ht1, nextIndex_fork nt _ hnn hnb]
  have hok1 : CsOK cs1 :=
    ⟨by rw [ht1, hasFn_fork nt _ hnb]; exact hok.fn, by rw [← hfork0]; exact hok.tci,
     by rw [hni1, ht1, fnMax_fork nt _ hnb]; exact hok.ni⟩
  have hcov1 : Cov B (localIdx cs1) := by rw [hl1]; exact hcov
  obtain ⟨hse1, _, _, _⟩ := h cs1 cs2 hact hcov1 hok1
  have hte := hse1.tabs
  rw [ht1] at hte
  obtain ⟨h', r', hts2, _, _, _, _⟩ := hte.cons_inv
  rw [Compile.runCM_popTable hts2] at hpop
  simp only [Prod.mk.injEq, Except.ok.injEq] at hpop
  obtain ⟨_, rfl⟩ := hpop
  exact ⟨cs1, cs2, hact, hi1, rfl, hcov1, hok1, hinv1⟩

theorem falls_blockOf (F : FloatOps) (B : List String) (body : List Stmt) (hb : StmtsF B body = true)
    (fb : FallL B body) {cs cs' : CState}
    (hc : runCM (Compile.blockOf body (compileStmts body)) cs = (.ok (), cs'))
    (hcov : Cov B (localIdx cs)) (hok : CsOK cs) (hinv : Inv cs) (hf : fallL body = true) :
    Falls cs'.insts cs.insts.size cs'.insts.size := by
  unfold Compile.blockOf at hc
  cases body with
  | nil =>
    simp only [List.isEmpty_nil, if_true] at hc
    obtain ⟨_, rfl⟩ := pure_inv hc
    exact .inl rfl
  | cons s r =>
    simp only [List.isEmpty_cons, Bool.false_eq_true, if_false] at hc
    obtain ⟨cs1, cs2, hact, hi1, hi', hcov1, hok1, hinv1⟩ :=
      withBlock_inv F hc (good_stmts F (s :: r) B hb) hcov hok hinv
    have := fb cs1 cs2 hact hcov1 hok1 hinv1 hf
    rw [hi', ← hi1]; exact this

theorem fall_block (F : FloatOps) (B : List String) (pos : Pos) (body : List Stmt) (hb : StmtsF B body = true)
    (fb : FallL B body) : FallS B (.block pos body) := by
  intro cs cs' hc hcov hok hinv hf
  rw [fallS_block] at hf
  rw [Compile.compileStmt_eq] at hc
  simp only at hc
  exact falls_blockOf F B body hb fb hc hcov hok hinv hf

/-- `if true { … }`: the body only -/
theorem fall_ifTrue (F : FloatOps) (B : List String) (pos bp p : Pos) (body : List Stmt) (els : Option Stmt)
    (hb : StmtsF B body = true) (fb : FallL B body) : FallS B (.if_ pos none (.bool p true) bp body els) := by
  intro cs cs' hc hcov hok hinv hf
  rw [fallS_if] at hf
  have hf' : fallL body = true := by simpa [isTrueLit] using hf
  have hT := good_blockOf F B _ _ body (good_stmts F body B hb)
  rw [Compile.compileStmt_eq] at hc
  simp only at hc
  obtain ⟨cs1, cs2, hact, hi1, hi', hcov1, hok1, hinv1⟩ := withBlock_inv F hc hT.toC.pure_bind hcov hok hinv
  obtain ⟨_, csx, hp, hact⟩ := bind_inv hact
  obtain ⟨_, rfl⟩ := pure_inv hp
  have := falls_blockOf F B body hb fb hact hcov1 hok1 hinv1 hf'
  rw [hi', ← hi1]; exact this

theorem fall_incdec (F : FloatOps) (B : List String) (pos : Pos) (tok : Nat) (tp p : Pos) (x : String) (hx : x ∈ B) :
    FallS B (.incdec pos tok tp (.ident p x)) := by
  intro cs cs' hc hcov hok hinv _
  rw [compileStmt_incdec] at hc
  have hop : ∃ op, Compile.compoundOp (if tok == tDec then tSubAssign else tAddAssign) = some op := by
    split
    · exact ⟨_, rfl⟩
    · exact ⟨_, rfl⟩
  obtain ⟨op, hop⟩ := hop
  exact fall_compound F B pos p x (.int tp 1#64) _ op rfl hx hop cs cs' hc hcov hok hinv rfl

theorem fall_varDecl0 (F : FloatOps) (B : List String) (pos ipos : Pos) (iota : Option Nat) (x : String)
    (hx : x ≠ "_") : FallS B (.declValue pos tVar [(iota, [(ipos, x)], [])]) := by
  intro cs cs' hc hcov hok hinv _
  rw [compileStmt_var0] at hc
  exact fall_defineCore F B pos x (.undef ipos) rfl hx hc hcov hok hinv

/-! ### `if`: a jump of the statement targets its end -/

theorem good_emit_jump (pos : Pos) (op : Nat) (hop : op < Compile.numOpcodes) (hj : isJumpOp op = true) :
    Compile.Good (Compile.emit pos op [0]) :=
  Compile.good_emit hop ⟨fun _ => rfl, fun h => by subst h; exact absurd hj (by decide), Compile.jumpy_plain (.inl hj)⟩

set_option maxHeartbeats 1600000 in
theorem falls_ifnoelse (F : FloatOps) (B : List String) (pos : Pos) (c : Expr) (hFc : ExprF (bnd B) c = true)
    (nT : Nat) (actT : Compile.CM Unit) (semT : Nat → Sem.Env → Sem.SM (Sem.Comp × Sem.Env))
    (hT : GoodB F B nT actT semT) {cs cs' : CState} (hcov : Cov B (localIdx cs)) (hok : CsOK cs) (hinv : Inv cs)
    (hc : runCM (do
        compileExpr c
        let j ← Compile.emit pos Compile.OpJumpFalsy [0]
        actT
        Compile.changeOperand j [(← Compile.curPos)]) cs = (.ok (), cs')) :
    FallsJ cs'.insts cs.insts.size cs'.insts.size := by
  obtain ⟨_, cs1, hcc, hc⟩ := bind_inv hc
  obtain ⟨j1, cs2, hj1, hc⟩ := bind_inv hc
  obtain ⟨_, cs3', hct, hc⟩ := bind_inv hc
  obtain ⟨x1, cs3, hx1, hc⟩ := bind_inv hc
  obtain ⟨rfl, rfl⟩ := curPos_inv hx1
  have hFc' := exprF_of_cov hcov hFc
  obtain ⟨shc, _⟩ := good_all F c cs cs1 hcc hFc'
  have she1 := Shape.of_emit hj1
  have hok1 := hok.of_shape shc
  have hok2 := hok1.of_shape she1
  have hl2 : localIdx cs2 = localIdx cs := by rw [she1.localIdx, shc.localIdx]
  obtain ⟨seT, hok3, htlT, simT⟩ := hT cs2 cs3 hct (by rw [hl2]; exact hcov) hok2
  obtain ⟨bsj1, hbsj1, hjp1, e2⟩ := emit_inv hj1
  obtain ⟨_, c1, c2, c3, c4, rfl, _⟩ := mk_w4 Compile.OpJumpFalsy rfl _ _ hbsj1
  obtain ⟨opb1, bs1, hopb1, hbs1, e5⟩ := changeOperand_inv hc
  have hsz2 : cs2.insts.size = cs1.insts.size + 5 := by rw [e2]; simp
  have hle23 : cs2.insts.size ≤ cs3.insts.size := seT.pre.1
  have hop1 : cs2.insts[cs1.insts.size]? = some (UInt8.ofNat Compile.OpJumpFalsy) := by
    rw [e2]; exact emit_bytes (cs := cs1) _ 0 (by simp)
  have hopb1' : opb1 = UInt8.ofNat Compile.OpJumpFalsy := by
    rw [hjp1, getElem?_of_pre seT.pre hop1] at hopb1
    injection hopb1 with h; exact h.symm
  rw [hopb1'] at hbs1
  obtain ⟨_, b1, b2, b3, b4, rfl, hdec1⟩ := mk_w4 Compile.OpJumpFalsy rfl _ _ hbs1
  have hsz' : cs'.insts.size = cs3.insts.size := by rw [e5]; exact Compile.size_patch _ _ _
  have hins' : cs'.insts = Compile.patch cs3.insts cs1.insts.size [UInt8.ofNat Compile.OpJumpFalsy, b1, b2, b3, b4] := by
    rw [e5, hjp1]
  have hlec : cs.insts.size ≤ cs1.insts.size := shc.pre.1
  have g1 := good_expr_run hFc hinv hcc
  have w1 : Walk cs'.insts 0 cs1.insts.size := by
    rw [hins']
    exact g1.1.walk.pre (Compile.Pre.patch (she1.pre.trans seT.pre) (Nat.le_refl _))
  have hat : Compile.InstAt cs'.insts cs1.insts.size [UInt8.ofNat Compile.OpJumpFalsy, b1, b2, b3, b4] := by
    intro k hk
    rw [hins']
    exact Compile.patch_get_mid _ _ _ _ hk (by simp; omega)
  have hrd : readBE cs'.insts (cs1.insts.size + 1) 4 = cs3.insts.size :=
    Compile.inst_read_jump hbs1 (by decide) rfl hat
  refine ⟨cs1.insts.size, UInt8.ofNat Compile.OpJumpFalsy, w1, hlec, ?_, .inr ⟨by decide, by omega, by rw [hrd, hsz']⟩⟩
  simpa using hat 0 (by simp)

set_option maxHeartbeats 1600000 in
theorem falls_ifelse (F : FloatOps) (B : List String) (pos : Pos) (c : Expr) (hFc : ExprF (bnd B) c = true)
    (nT nE : Nat) (actT actE : Compile.CM Unit) (semT semE : Nat → Sem.Env → Sem.SM (Sem.Comp × Sem.Env))
    (hT : GoodB F B nT actT semT) (hE : GoodB F B nE actE semE) (hTg : Compile.Good actT)
    {cs cs' : CState} (hcov : Cov B (localIdx cs)) (hok : CsOK cs) (hinv : Inv cs)
    (hc : runCM (do
        compileExpr c
        let j ← Compile.emit pos Compile.OpJumpFalsy [0]
        actT
        let j2 ← Compile.emit pos Compile.OpJump [0]
        Compile.changeOperand j [(← Compile.curPos)]
        actE
        Compile.changeOperand j2 [(← Compile.curPos)]) cs = (.ok (), cs')) :
    FallsJ cs'.insts cs.insts.size cs'.insts.size := by
  obtain ⟨_, cs1, hcc, hc⟩ := bind_inv hc
  obtain ⟨j1, cs2, hj1, hc⟩ := bind_inv hc
  obtain ⟨_, cs3, hct, hc⟩ := bind_inv hc
  obtain ⟨j2, cs4', hj2, hc⟩ := bind_inv hc
  obtain ⟨x1, cs4, hx1, hc⟩ := bind_inv hc
  obtain ⟨rfl, rfl⟩ := curPos_inv hx1
  obtain ⟨_, cs5, hp1, hc⟩ := bind_inv hc
  obtain ⟨_, cs6', hcf, hc⟩ := bind_inv hc
  obtain ⟨x2, cs6, hx2, hc⟩ := bind_inv hc
  obtain ⟨rfl, rfl⟩ := curPos_inv hx2
  have hFc' := exprF_of_cov hcov hFc
  obtain ⟨shc, _⟩ := good_all F c cs cs1 hcc hFc'
  have she1 := Shape.of_emit hj1
  have hok1 := hok.of_shape shc
  have hok2 := hok1.of_shape she1
  have hl2 : localIdx cs2 = localIdx cs := by rw [she1.localIdx, shc.localIdx]
  obtain ⟨seT, hok3, htlT, simT⟩ := hT cs2 cs3 hct (by rw [hl2]; exact hcov) hok2
  have hl3 : localIdx cs3 = localIdx cs := by rw [localIdx_of_tl htlT, hl2]
  have she2 := Shape.of_emit hj2
  have hok4 := hok3.of_shape she2
  obtain ⟨bsj1, hbsj1, hjp1, e2⟩ := emit_inv hj1
  obtain ⟨bsj2, hbsj2, hjp2, e4⟩ := emit_inv hj2
  obtain ⟨_, c1, c2, c3, c4, rfl, _⟩ := mk_w4 Compile.OpJumpFalsy rfl _ _ hbsj1
  obtain ⟨_, d1, d2, d3, d4, rfl, _⟩ := mk_w4 Compile.OpJump rfl _ _ hbsj2
  obtain ⟨opb1, bs1, hopb1, hbs1, e5⟩ := changeOperand_inv hp1
  have hsz2 : cs2.insts.size = cs1.insts.size + 5 := by rw [e2]; simp
  have hsz4 : cs4.insts.size = cs3.insts.size + 5 := by rw [e4]; simp
  have hle23 : cs2.insts.size ≤ cs3.insts.size := seT.pre.1
  have hop1 : cs2.insts[cs1.insts.size]? = some (UInt8.ofNat Compile.OpJumpFalsy) := by
    rw [e2]; exact emit_bytes (cs := cs1) _ 0 (by simp)
  have hop41 : cs4.insts[cs1.insts.size]? = some (UInt8.ofNat Compile.OpJumpFalsy) :=
    getElem?_of_pre (seT.pre.trans she2.pre) hop1
  have hopb1' : opb1 = UInt8.ofNat Compile.OpJumpFalsy := by
    rw [hjp1, hop41] at hopb1
    injection hopb1 with h; exact h.symm
  rw [hopb1'] at hbs1
  obtain ⟨_, b1, b2, b3, b4, rfl, hdec1⟩ := mk_w4 Compile.OpJumpFalsy rfl _ _ hbs1
  have hsz5 : cs5.insts.size = cs4.insts.size := by rw [e5]; exact Compile.size_patch _ _ _
  have hins5 : cs5.insts = Compile.patch cs4.insts cs1.insts.size [UInt8.ofNat Compile.OpJumpFalsy, b1, b2, b3, b4] := by
    rw [e5, hjp1]
  have ht5 : cs5.tables = cs4.tables := by rw [e5]
  have hok5 : CsOK cs5 := hok4.of_tables ht5 (by rw [e5])
  have ht4 : cs4.tables = cs3.tables := by rw [she2.eq]
  have hl5 : localIdx cs5 = localIdx cs := by
    have : localIdx cs5 = localIdx cs4 := by rw [e5]; rfl
    rw [this, she2.localIdx, hl3]
  obtain ⟨seE, hok6, htlE, simE⟩ := hE cs5 cs6 hcf (by rw [hl5]; exact hcov) hok5
  obtain ⟨opb2, bs2, hopb2, hbs2, e7⟩ := changeOperand_inv hc
  have hle56 : cs5.insts.size ≤ cs6.insts.size := seE.pre.1
  have hop2 : cs4.insts[cs3.insts.size]? = some (UInt8.ofNat Compile.OpJump) := by
    rw [e4]; exact emit_bytes (cs := cs3) _ 0 (by simp)
  have hlec : cs.insts.size ≤ cs1.insts.size := shc.pre.1
  have h5 : cs5.insts[cs3.insts.size]? = some (UInt8.ofNat Compile.OpJump) := by
    rw [hins5, Compile.patch_get_ge _ _ _ _ (by simp; omega)]; exact hop2
  have hop6 : cs6.insts[cs3.insts.size]? = some (UInt8.ofNat Compile.OpJump) := getElem?_of_pre seE.pre h5
  have hopb2' : opb2 = UInt8.ofNat Compile.OpJump := by
    rw [hjp2, hop6] at hopb2
    injection hopb2 with h; exact h.symm
  rw [hopb2'] at hbs2
  obtain ⟨_, e1, e2', e3, e4', rfl, hdec2⟩ := mk_w4 Compile.OpJump rfl _ _ hbs2
  have hsz' : cs'.insts.size = cs6.insts.size := by rw [e7]; exact Compile.size_patch _ _ _
  have hins' : cs'.insts = Compile.patch cs6.insts cs3.insts.size [UInt8.ofNat Compile.OpJump, e1, e2', e3, e4'] := by
    rw [e7, hjp2]
  -- boundaries
  have g1 := good_expr_run hFc hinv hcc
  have g2 := good_run (good_emit_jump pos Compile.OpJumpFalsy (by decide) (by decide)) g1.1 hj1
  have g3 := good_run hTg g2.1 hct
  have w4 : Walk cs4.insts 0 cs3.insts.size := g3.1.walk.pre she2.pre
  have w41 : Walk cs4.insts 0 cs1.insts.size := g1.1.walk.pre ((she1.pre.trans seT.pre).trans she2.pre)
  have w5 : Walk cs5.insts 0 cs3.insts.size := by
    rw [hins5]; exact Compile.Walk.patch_inst w4 w41 hop41 (by show (4 : Nat) = _; decide)
  have w6 : Walk cs6.insts 0 cs3.insts.size := w5.pre seE.pre
  have w' : Walk cs'.insts 0 cs3.insts.size := by
    rw [hins']; exact Compile.Walk.patch_inst w6 w6 hop6 (by show (4 : Nat) = _; decide)
  have hat : Compile.InstAt cs'.insts cs3.insts.size [UInt8.ofNat Compile.OpJump, e1, e2', e3, e4'] := by
    intro k hk
    rw [hins']
    exact Compile.patch_get_mid _ _ _ _ hk (by simp; omega)
  have hrd : readBE cs'.insts (cs3.insts.size + 1) 4 = cs6.insts.size :=
    Compile.inst_read_jump hbs2 (by decide) rfl hat
  refine ⟨cs3.insts.size, UInt8.ofNat Compile.OpJump, w', by omega, ?_, .inr ⟨by decide, by omega, by rw [hrd, hsz']⟩⟩
  simpa using hat 0 (by simp)

theorem fall_if_core (F : FloatOps) (B : List String) (pos : Pos) (c : Expr) (body : List Stmt)
    (hFc : ExprF (bnd B) c = true) (hb : StmtsF B body = true) {act : Compile.CM Unit}
    (hact : act = (pure () >>= fun _ => (do
        compileExpr c
        let j ← Compile.emit pos Compile.OpJumpFalsy [0]
        Compile.blockOf body (compileStmts body)
        Compile.changeOperand j [(← Compile.curPos)])))
    {cs cs' : CState} (hc : runCM (Compile.withBlock act) cs = (.ok (), cs'))
    (hcov : Cov B (localIdx cs)) (hok : CsOK cs) (hinv : Inv cs) :
    Falls cs'.insts cs.insts.size cs'.insts.size := by
  subst hact
  have hT := good_blockOf F B _ _ body (good_stmts F body B hb)
  have hin := good_ifnoelse F B pos c hFc _ _ _ hT
  obtain ⟨cs1, cs2, hact, hi1, hi', hcov1, hok1, hinv1⟩ := withBlock_inv F hc hin.toC.pure_bind hcov hok hinv
  obtain ⟨_, csx, hp, hact⟩ := bind_inv hact
  obtain ⟨_, rfl⟩ := pure_inv hp
  have := falls_ifnoelse F B pos c hFc _ _ _ hT hcov1 hok1 hinv1 hact
  rw [hi', ← hi1]; exact .inr this

theorem fall_if (F : FloatOps) (B : List String) (pos bp : Pos) (c : Expr) (body : List Stmt)
    (hFc : ExprF (bnd B) c = true) (hnb : isBoolLit c = false) (hb : StmtsF B body = true) :
    FallS B (.if_ pos none c bp body none) := by
  intro cs cs' hc hcov hok hinv _
  rw [Compile.compileStmt_eq] at hc
  simp only at hc
  cases c with
  | bool p b => simp [isBoolLit] at hnb
  | _ => exact fall_if_core F B pos _ body hFc hb rfl hc hcov hok hinv

theorem fall_ifElse_core (F : FloatOps) (B : List String) (pos : Pos) (c : Expr) (body : List Stmt) (e : Stmt)
    (hFc : ExprF (bnd B) c = true) (hb : StmtsF B body = true) (he : ElseF B e = true)
    (okb : okSs body = true) {act : Compile.CM Unit}
    (hact : act = (pure () >>= fun _ => (do
        compileExpr c
        let j ← Compile.emit pos Compile.OpJumpFalsy [0]
        Compile.blockOf body (compileStmts body)
        let j2 ← Compile.emit pos Compile.OpJump [0]
        Compile.changeOperand j [(← Compile.curPos)]
        compileStmt e
        Compile.changeOperand j2 [(← Compile.curPos)])))
    {cs cs' : CState} (hc : runCM (Compile.withBlock act) cs = (.ok (), cs'))
    (hcov : Cov B (localIdx cs)) (hok : CsOK cs) (hinv : Inv cs) :
    Falls cs'.insts cs.insts.size cs'.insts.size := by
  subst hact
  have hT := good_blockOf F B _ _ body (good_stmts F body B hb)
  have hE := (allS F (sizeOf e + 1)).els e (Nat.lt_succ_self _) B he
  have hin := good_ifelse F B pos c hFc _ _ _ _ _ _ hT hE
  have hTg : Compile.Good (Compile.blockOf body (compileStmts body)) :=
    Compile.good_blockOf (Compile.good_compileStmts body okb)
  obtain ⟨cs1, cs2, hact, hi1, hi', hcov1, hok1, hinv1⟩ := withBlock_inv F hc hin.toC.pure_bind hcov hok hinv
  obtain ⟨_, csx, hp, hact⟩ := bind_inv hact
  obtain ⟨_, rfl⟩ := pure_inv hp
  have := falls_ifelse F B pos c hFc _ _ _ _ _ _ hT hE hTg hcov1 hok1 hinv1 hact
  rw [hi', ← hi1]; exact .inr this

theorem fall_ifElse (F : FloatOps) (B : List String) (pos bp : Pos) (c : Expr) (body : List Stmt) (e : Stmt)
    (hFc : ExprF (bnd B) c = true) (hnb : isBoolLit c = false) (hb : StmtsF B body = true) (he : ElseF B e = true)
    (okb : okSs body = true) : FallS B (.if_ pos none c bp body (some e)) := by
  intro cs cs' hc hcov hok hinv _
  rw [Compile.compileStmt_eq] at hc
  simp only at hc
  cases c with
  | bool p b => simp [isBoolLit] at hnb
  | _ => exact fall_ifElse_core F B pos _ body e hFc hb he okb rfl hc hcov hok hinv

theorem fall_ifInit_core (F : FloatOps) (B : List String) (pos : Pos) (i : Stmt) (c : Expr) (body : List Stmt)
    (hFi : StmtF B i = true) (hFc : ExprF (bnd (defsOf B i)) c = true) (hb : StmtsF (defsOf B i) body = true)
    (oki : okS i = true) {act : Compile.CM Unit}
    (hact : act = (compileStmt i >>= fun _ => (do
        compileExpr c
        let j ← Compile.emit pos Compile.OpJumpFalsy [0]
        Compile.blockOf body (compileStmts body)
        Compile.changeOperand j [(← Compile.curPos)])))
    {cs cs' : CState} (hc : runCM (Compile.withBlock act) cs = (.ok (), cs'))
    (hcov : Cov B (localIdx cs)) (hok : CsOK cs) (hinv : Inv cs) :
    Falls cs'.insts cs.insts.size cs'.insts.size := by
  subst hact
  have hT := good_blockOf F (defsOf B i) _ _ body (good_stmts F body _ hb)
  have hin := good_ifnoelse F (defsOf B i) pos c hFc _ _ _ hT
  have hI := good_stmt F i B hFi
  obtain ⟨cs1, cs2, hact, hi1, hi', hcov1, hok1, hinv1⟩ :=
    withBlock_inv F hc (good_seq F B _ _ _ _ _ _ _ _ hI hin.toC) hcov hok hinv
  obtain ⟨_, csm, hci, hact⟩ := bind_inv hact
  obtain ⟨hsei, hokm, hcovm, _⟩ := hI cs1 csm hci hcov1 hok1
  have gi := good_run ((Compile.allGood (sizeOf i + 1)).stmt i (Nat.lt_succ_self _) oki) hinv1 hci
  have := (falls_ifnoelse F (defsOf B i) pos c hFc _ _ _ hT hcovm hokm gi.1 hact).mono gi.2.pre.1
  rw [hi', ← hi1]; exact .inr this

theorem fall_ifInit (F : FloatOps) (B : List String) (pos bp : Pos) (i : Stmt) (c : Expr) (body : List Stmt)
    (hFi : StmtF B i = true) (hFc : ExprF (bnd (defsOf B i)) c = true) (hnb : isBoolLit c = false)
    (hb : StmtsF (defsOf B i) body = true) (oki : okS i = true) : FallS B (.if_ pos (some i) c bp body none) := by
  intro cs cs' hc hcov hok hinv _
  rw [Compile.compileStmt_eq] at hc
  simp only at hc
  cases c with
  | bool p b => simp [isBoolLit] at hnb
  | _ => exact fall_ifInit_core F B pos i _ body hFi hFc hb oki rfl hc hcov hok hinv

theorem fall_ifInitElse_core (F : FloatOps) (B : List String) (pos : Pos) (i : Stmt) (c : Expr) (body : List Stmt)
    (e : Stmt) (hFi : StmtF B i = true) (hFc : ExprF (bnd (defsOf B i)) c = true)
    (hb : StmtsF (defsOf B i) body = true) (he : ElseF (defsOf B i) e = true)
    (oki : okS i = true) (okb : okSs body = true) {act : Compile.CM Unit}
    (hact : act = (compileStmt i >>= fun _ => (do
        compileExpr c
        let j ← Compile.emit pos Compile.OpJumpFalsy [0]
        Compile.blockOf body (compileStmts body)
        let j2 ← Compile.emit pos Compile.OpJump [0]
        Compile.changeOperand j [(← Compile.curPos)]
        compileStmt e
        Compile.changeOperand j2 [(← Compile.curPos)])))
    {cs cs' : CState} (hc : runCM (Compile.withBlock act) cs = (.ok (), cs'))
    (hcov : Cov B (localIdx cs)) (hok : CsOK cs) (hinv : Inv cs) :
    Falls cs'.insts cs.insts.size cs'.insts.size := by
  subst hact
  have hT := good_blockOf F (defsOf B i) _ _ body (good_stmts F body _ hb)
  have hE := (allS F (sizeOf e + 1)).els e (Nat.lt_succ_self _) (defsOf B i) he
  have hin := good_ifelse F (defsOf B i) pos c hFc _ _ _ _ _ _ hT hE
  have hTg : Compile.Good (Compile.blockOf body (compileStmts body)) :=
    Compile.good_blockOf (Compile.good_compileStmts body okb)
  have hI := good_stmt F i B hFi
  obtain ⟨cs1, cs2, hact, hi1, hi', hcov1, hok1, hinv1⟩ :=
    withBlock_inv F hc (good_seq F B _ _ _ _ _ _ _ _ hI hin.toC) hcov hok hinv
  obtain ⟨_, csm, hci, hact⟩ := bind_inv hact
  obtain ⟨hsei, hokm, hcovm, _⟩ := hI cs1 csm hci hcov1 hok1
  have gi := good_run ((Compile.allGood (sizeOf i + 1)).stmt i (Nat.lt_succ_self _) oki) hinv1 hci
  have := (falls_ifelse F (defsOf B i) pos c hFc _ _ _ _ _ _ hT hE hTg hcovm hokm gi.1 hact).mono gi.2.pre.1
  rw [hi', ← hi1]; exact .inr this

theorem fall_ifInitElse (F : FloatOps) (B : List String) (pos bp : Pos) (i : Stmt) (c : Expr) (body : List Stmt)
    (e : Stmt) (hFi : StmtF B i = true) (hFc : ExprF (bnd (defsOf B i)) c = true) (hnb : isBoolLit c = false)
    (hb : StmtsF (defsOf B i) body = true) (he : ElseF (defsOf B i) e = true)
    (oki : okS i = true) (okb : okSs body = true) : FallS B (.if_ pos (some i) c bp body (some e)) := by
  intro cs cs' hc hcov hok hinv _
  rw [Compile.compileStmt_eq] at hc
  simp only at hc
  cases c with
  | bool p b => simp [isBoolLit] at hnb
  | _ => exact fall_ifInitElse_core F B pos i _ body e hFi hFc hb he oki okb rfl hc hcov hok hinv

/-! ### `if false`: the JUMP (without `else`) / the second JUMP (with `else`) targets the end -/

theorem falls_ifFalse (pos : Pos) {cs cs' : CState} (hinv : Inv cs)
    (hc : runCM (do
        let j ← Compile.emit pos Compile.OpJump [0]
        Compile.changeOperand j [(← Compile.curPos)]) cs = (.ok (), cs')) :
    FallsJ cs'.insts cs.insts.size cs'.insts.size := by
  obtain ⟨j1, cs2, hj1, hc⟩ := bind_inv hc
  obtain ⟨x1, cs3, hx1, hc⟩ := bind_inv hc
  obtain ⟨rfl, rfl⟩ := curPos_inv hx1
  have she1 := Shape.of_emit hj1
  obtain ⟨bsj1, hbsj1, hjp1, e2⟩ := emit_inv hj1
  obtain ⟨_, c1, c2, c3, c4, rfl, _⟩ := mk_w4 Compile.OpJump rfl _ _ hbsj1
  obtain ⟨opb1, bs1, hopb1, hbs1, e5⟩ := changeOperand_inv hc
  have hsz2 : cs3.insts.size = cs.insts.size + 5 := by rw [e2]; simp
  have hop1 : cs3.insts[cs.insts.size]? = some (UInt8.ofNat Compile.OpJump) := by
    rw [e2]; exact emit_bytes (cs := cs) _ 0 (by simp)
  have hopb1' : opb1 = UInt8.ofNat Compile.OpJump := by
    rw [hjp1, hop1] at hopb1
    injection hopb1 with h; exact h.symm
  rw [hopb1'] at hbs1
  obtain ⟨_, b1, b2, b3, b4, rfl, hdec1⟩ := mk_w4 Compile.OpJump rfl _ _ hbs1
  have hsz' : cs'.insts.size = cs3.insts.size := by rw [e5]; exact Compile.size_patch _ _ _
  have hins' : cs'.insts = Compile.patch cs3.insts cs.insts.size [UInt8.ofNat Compile.OpJump, b1, b2, b3, b4] := by
    rw [e5, hjp1]
  have w1 : Walk cs'.insts 0 cs.insts.size := by
    rw [hins']; exact hinv.walk.pre (Compile.Pre.patch she1.pre (Nat.le_refl _))
  have hat : Compile.InstAt cs'.insts cs.insts.size [UInt8.ofNat Compile.OpJump, b1, b2, b3, b4] := by
    intro k hk
    rw [hins']
    exact Compile.patch_get_mid _ _ _ _ hk (by simp; omega)
  have hrd : readBE cs'.insts (cs.insts.size + 1) 4 = cs3.insts.size :=
    Compile.inst_read_jump hbs1 (by decide) rfl hat
  refine ⟨cs.insts.size, UInt8.ofNat Compile.OpJump, w1, Nat.le_refl _, ?_, .inr ⟨by decide, by omega, by rw [hrd, hsz']⟩⟩
  simpa using hat 0 (by simp)

set_option maxHeartbeats 1600000 in
theorem falls_ifFalseElse (F : FloatOps) (B : List String) (pos : Pos) (nE : Nat) (actE : Compile.CM Unit)
    (semE : Nat → Sem.Env → Sem.SM (Sem.Comp × Sem.Env)) (hE : GoodB F B nE actE semE)
    {cs cs' : CState} (hcov : Cov B (localIdx cs)) (hok : CsOK cs) (hinv : Inv cs)
    (hc : runCM (do
        let j ← Compile.emit pos Compile.OpJump [0]
        let j2 ← Compile.emit pos Compile.OpJump [0]
        Compile.changeOperand j [(← Compile.curPos)]
        actE
        Compile.changeOperand j2 [(← Compile.curPos)]) cs = (.ok (), cs')) :
    FallsJ cs'.insts cs.insts.size cs'.insts.size := by
  obtain ⟨j1, cs2, hj1, hc⟩ := bind_inv hc
  obtain ⟨j2, cs3', hj2, hc⟩ := bind_inv hc
  obtain ⟨x1, cs3, hx1, hc⟩ := bind_inv hc
  obtain ⟨rfl, rfl⟩ := curPos_inv hx1
  obtain ⟨_, cs4, hp1, hc⟩ := bind_inv hc
  obtain ⟨_, cs5', hcf, hc⟩ := bind_inv hc
  obtain ⟨x2, cs5, hx2, hc⟩ := bind_inv hc
  obtain ⟨rfl, rfl⟩ := curPos_inv hx2
  have she1 := Shape.of_emit hj1
  have she2 := Shape.of_emit hj2
  have hok2 := hok.of_shape she1
  have hok3 := hok2.of_shape she2
  obtain ⟨bsj1, hbsj1, hjp1, e2⟩ := emit_inv hj1
  obtain ⟨bsj2, hbsj2, hjp2, e3⟩ := emit_inv hj2
  obtain ⟨_, c1, c2, c3, c4, rfl, _⟩ := mk_w4 Compile.OpJump rfl _ _ hbsj1
  obtain ⟨_, d1, d2, d3, d4, rfl, _⟩ := mk_w4 Compile.OpJump rfl _ _ hbsj2
  obtain ⟨opb1, bs1, hopb1, hbs1, e4⟩ := changeOperand_inv hp1
  have hsz2 : cs2.insts.size = cs.insts.size + 5 := by rw [e2]; simp
  have hsz3 : cs3.insts.size = cs2.insts.size + 5 := by rw [e3]; simp
  have hop1 : cs2.insts[cs.insts.size]? = some (UInt8.ofNat Compile.OpJump) := by
    rw [e2]; exact emit_bytes (cs := cs) _ 0 (by simp)
  have hop13 : cs3.insts[cs.insts.size]? = some (UInt8.ofNat Compile.OpJump) := getElem?_of_pre she2.pre hop1
  have hopb1' : opb1 = UInt8.ofNat Compile.OpJump := by
    rw [hjp1, hop13] at hopb1
    injection hopb1 with h; exact h.symm
  rw [hopb1'] at hbs1
  obtain ⟨_, b1, b2, b3, b4, rfl, hdec1⟩ := mk_w4 Compile.OpJump rfl _ _ hbs1
  have hsz4 : cs4.insts.size = cs3.insts.size := by rw [e4]; exact Compile.size_patch _ _ _
  have hins4 : cs4.insts = Compile.patch cs3.insts cs.insts.size [UInt8.ofNat Compile.OpJump, b1, b2, b3, b4] := by
    rw [e4, hjp1]
  have ht4 : cs4.tables = cs3.tables := by rw [e4]
  have hok4 : CsOK cs4 := hok3.of_tables ht4 (by rw [e4])
  have hl4 : localIdx cs4 = localIdx cs := by
    have : localIdx cs4 = localIdx cs3 := by rw [e4]; rfl
    rw [this, she2.localIdx, she1.localIdx]
  obtain ⟨seE, hok5, htlE, simE⟩ := hE cs4 cs5 hcf (by rw [hl4]; exact hcov) hok4
  obtain ⟨opb2, bs2, hopb2, hbs2, e6⟩ := changeOperand_inv hc
  have hle45 : cs4.insts.size ≤ cs5.insts.size := seE.pre.1
  have hop2 : cs3.insts[cs2.insts.size]? = some (UInt8.ofNat Compile.OpJump) := by
    rw [e3]; exact emit_bytes (cs := cs2) _ 0 (by simp)
  have h4 : cs4.insts[cs2.insts.size]? = some (UInt8.ofNat Compile.OpJump) := by
    rw [hins4, Compile.patch_get_ge _ _ _ _ (by simp; omega)]; exact hop2
  have hop5 : cs5.insts[cs2.insts.size]? = some (UInt8.ofNat Compile.OpJump) := getElem?_of_pre seE.pre h4
  have hopb2' : opb2 = UInt8.ofNat Compile.OpJump := by
    rw [hjp2, hop5] at hopb2
    injection hopb2 with h; exact h.symm
  rw [hopb2'] at hbs2
  obtain ⟨_, e1, e2', e3', e4', rfl, hdec2⟩ := mk_w4 Compile.OpJump rfl _ _ hbs2
  have hsz' : cs'.insts.size = cs5.insts.size := by rw [e6]; exact Compile.size_patch _ _ _
  have hins' : cs'.insts = Compile.patch cs5.insts cs2.insts.size [UInt8.ofNat Compile.OpJump, e1, e2', e3', e4'] := by
    rw [e6, hjp2]
  have g2 := good_run (good_emit_jump pos Compile.OpJump (by decide) (by decide)) hinv hj1
  have w3 : Walk cs3.insts 0 cs2.insts.size := g2.1.walk.pre she2.pre
  have w30 : Walk cs3.insts 0 cs.insts.size := hinv.walk.pre (she1.pre.trans she2.pre)
  have w4 : Walk cs4.insts 0 cs2.insts.size := by
    rw [hins4]; exact Compile.Walk.patch_inst w3 w30 hop13 (by show (4 : Nat) = _; decide)
  have w5 : Walk cs5.insts 0 cs2.insts.size := w4.pre seE.pre
  have w' : Walk cs'.insts 0 cs2.insts.size := by
    rw [hins']; exact Compile.Walk.patch_inst w5 w5 hop5 (by show (4 : Nat) = _; decide)
  have hat : Compile.InstAt cs'.insts cs2.insts.size [UInt8.ofNat Compile.OpJump, e1, e2', e3', e4'] := by
    intro k hk
    rw [hins']
    exact Compile.patch_get_mid _ _ _ _ hk (by simp; omega)
  have hrd : readBE cs'.insts (cs2.insts.size + 1) 4 = cs5.insts.size :=
    Compile.inst_read_jump hbs2 (by decide) rfl hat
  refine ⟨cs2.insts.size, UInt8.ofNat Compile.OpJump, w', by omega, ?_, .inr ⟨by decide, by omega, by rw [hrd, hsz']⟩⟩
  simpa using hat 0 (by simp)

theorem fall_ifFalse_core (F : FloatOps) (B : List String) (pos : Pos) {act : Compile.CM Unit}
    (hact : act = (pure () >>= fun _ => (do
        let j ← Compile.emit pos Compile.OpJump [0]
        Compile.changeOperand j [(← Compile.curPos)])))
    {cs cs' : CState} (hc : runCM (Compile.withBlock act) cs = (.ok (), cs'))
    (hcov : Cov B (localIdx cs)) (hok : CsOK cs) (hinv : Inv cs) :
    Falls cs'.insts cs.insts.size cs'.insts.size := by
  subst hact
  obtain ⟨cs1, cs2, hact, hi1, hi', hcov1, hok1, hinv1⟩ :=
    withBlock_inv F hc (good_ifFalse F B pos).toC.pure_bind hcov hok hinv
  obtain ⟨_, csx, hp, hact⟩ := bind_inv hact
  obtain ⟨_, rfl⟩ := pure_inv hp
  have := falls_ifFalse pos hinv1 hact
  rw [hi', ← hi1]; exact .inr this

theorem fall_ifFalse (F : FloatOps) (B : List String) (pos bp p : Pos) (body : List Stmt) :
    FallS B (.if_ pos none (.bool p false) bp body none) := by
  intro cs cs' hc hcov hok hinv _
  rw [Compile.compileStmt_eq] at hc
  simp only at hc
  exact fall_ifFalse_core F B pos rfl hc hcov hok hinv

theorem fall_ifFalseElse_core (F : FloatOps) (B : List String) (pos : Pos) (e : Stmt) (he : ElseF B e = true)
    {act : Compile.CM Unit}
    (hact : act = (pure () >>= fun _ => (do
        let j ← Compile.emit pos Compile.OpJump [0]
        let j2 ← Compile.emit pos Compile.OpJump [0]
        Compile.changeOperand j [(← Compile.curPos)]
        compileStmt e
        Compile.changeOperand j2 [(← Compile.curPos)])))
    {cs cs' : CState} (hc : runCM (Compile.withBlock act) cs = (.ok (), cs'))
    (hcov : Cov B (localIdx cs)) (hok : CsOK cs) (hinv : Inv cs) :
    Falls cs'.insts cs.insts.size cs'.insts.size := by
  subst hact
  have hE := (allS F (sizeOf e + 1)).els e (Nat.lt_succ_self _) B he
  obtain ⟨cs1, cs2, hact, hi1, hi', hcov1, hok1, hinv1⟩ :=
    withBlock_inv F hc (good_ifFalseElse F B pos _ _ _ hE).toC.pure_bind hcov hok hinv
  obtain ⟨_, csx, hp, hact⟩ := bind_inv hact
  obtain ⟨_, rfl⟩ := pure_inv hp
  have := falls_ifFalseElse F B pos _ _ _ hE hcov1 hok1 hinv1 hact
  rw [hi', ← hi1]; exact .inr this

theorem fall_ifFalseElse (F : FloatOps) (B : List String) (pos bp p : Pos) (body : List Stmt) (e : Stmt)
    (he : ElseF B e = true) : FallS B (.if_ pos none (.bool p false) bp body (some e)) := by
  intro cs cs' hc hcov hok hinv _
  rw [Compile.compileStmt_eq] at hc
  simp only at hc
  exact fall_ifFalseElse_core F B pos e he rfl hc hcov hok hinv

/-! ### `var` groups: every specification ends with DEFINELOCAL -/

theorem okSpecs_of_specsF : ∀ (specs : List Spec) (B : List String), specsF B specs = true → okSpecs specs = true
  | [], _, _ => by simp [okSpecs]
  | sp :: rest, B, h => by
    have h' : specF B sp = true ∧ specsF (defsSpec B sp) rest = true := by
      have : specsF B (sp :: rest) = (specF B sp && specsF (defsSpec B sp) rest) := rfl
      rw [this, Bool.and_eq_true] at h; exact h
    have ih := okSpecs_of_specsF rest _ h'.2
    rcases specF_inv h'.1 with ⟨iota, ipos, x, e, rfl, hF, hx⟩ | ⟨iota, ipos, x, rfl, hx⟩
    · have oke := okE_of_exprF _ e hF
      simp [okSpecs, okVals, oke, ih]
    · simp [okSpecs, okVals, ih]

theorem fall_specs (F : FloatOps) (pos : Pos) : ∀ (specs : List Spec) (B : List String), specsF B specs = true →
    ∀ (last : Option (Compile.CM Unit × Compile.VSum)) (cs cs' : CState),
    runCM (Compile.compileValueSpecs pos tVar specs last) cs = (.ok (), cs') → Cov B (localIdx cs) → CsOK cs → Inv cs →
    Falls cs'.insts cs.insts.size cs'.insts.size
  | [], B, _, last, cs, cs', hc, _, _, _ => by
    rw [compileValueSpecs_nil] at hc
    obtain ⟨_, rfl⟩ := pure_inv hc
    exact .inl rfl
  | sp :: rest, B, h, last, cs, cs', hc, hcov, hok, hinv => by
    have h' : specF B sp = true ∧ specsF (defsSpec B sp) rest = true := by
      have : specsF B (sp :: rest) = (specF B sp && specsF (defsSpec B sp) rest) := rfl
      rw [this, Bool.and_eq_true] at h; exact h
    rcases specF_inv h'.1 with ⟨iota, ipos, x, e, rfl, hF, hx⟩ | ⟨iota, ipos, x, rfl, hx⟩
    · rw [compileValueSpecs_var1] at hc
      obtain ⟨_, cs1, hc1, hc2⟩ := bind_inv hc
      have h1 : GoodC F B (x :: B) (need e + 1) (do compileExpr e; Compile.compileDefine pos x false tVar)
          (fun fuel env => Sem.execValueSpecs F fuel env tVar [(iota, [(ipos, x)], [some e])] none) :=
        good_defineCore F B pos x e hF hx _ (fun fuel env ss t c env' ss' t' h => declRun_var1 F x e iota ipos none h)
      obtain ⟨hse1, hok1, hcov1, _⟩ := h1 cs cs1 hc1 hcov hok
      have g1 := good_run (Compile.GoodP.bind (P := fun _ => True) (R := fun _ => True)
        ((Compile.allGood (sizeOf e + 1)).expr e (Nat.lt_succ_self _) (okE_of_exprF _ e hF))
        (fun _ _ => Compile.good_compileDefine pos x false tVar)) hinv hc1
      obtain ⟨hse2, _, _, _⟩ := good_specs F pos rest (x :: B) h'.2 _ none cs1 cs' hc2 hcov1 hok1
      have e1 := fall_defineCore F B pos x e hF hx hc1 hcov hok hinv
      have e2 := fall_specs F pos rest (x :: B) h'.2 _ cs1 cs' hc2 hcov1 hok1 g1.1
      exact (e1.pre hse2.pre (Nat.le_refl _)).seq e2 hse1.pre.1
    · rw [compileValueSpecs_var0] at hc
      obtain ⟨_, cs1, hc1, hc2⟩ := bind_inv hc
      have h1 : GoodC F B (x :: B) 2 (do compileExpr (.undef ipos); Compile.compileDefine pos x false tVar)
          (fun fuel env => Sem.execValueSpecs F fuel env tVar [(iota, [(ipos, x)], [])] none) :=
        good_defineCore F B pos x (.undef ipos) rfl hx _
          (fun fuel env ss t c env' ss' t' h => declRun_var0 F x iota ipos none h)
      obtain ⟨hse1, hok1, hcov1, _⟩ := h1 cs cs1 hc1 hcov hok
      have g1 := good_run (Compile.GoodP.bind (P := fun _ => True) (R := fun _ => True)
        ((Compile.allGood (sizeOf (Expr.undef ipos) + 1)).expr (.undef ipos) (Nat.lt_succ_self _) (by simp [okE]))
        (fun _ _ => Compile.good_compileDefine pos x false tVar)) hinv hc1
      obtain ⟨hse2, _, _, _⟩ := good_specs F pos rest (x :: B) h'.2 _ none cs1 cs' hc2 hcov1 hok1
      have e1 := fall_defineCore F B pos x (.undef ipos) rfl hx hc1 hcov hok hinv
      have e2 := fall_specs F pos rest (x :: B) h'.2 _ cs1 cs' hc2 hcov1 hok1 g1.1
      exact (e1.pre hse2.pre (Nat.le_refl _)).seq e2 hse1.pre.1

/-! ### every statement (list) of the fragment -/

structure AllF (F : FloatOps) (n : Nat) : Prop where
  stmt : ∀ st, sizeOf st < n → ∀ B, StmtF B st = true → okS st = true ∧ FallS B st
  els : ∀ e, sizeOf e < n → ∀ B, ElseF B e = true → okS e = true
  stmts : ∀ ss, sizeOf ss < n → ∀ B, StmtsF B ss = true → okSs ss = true ∧ FallL B ss

theorem fstep_stmts {F : FloatOps} {n : Nat} (ih : AllF F n) : ∀ ss, sizeOf ss < n + 1 → ∀ B, StmtsF B ss = true →
    okSs ss = true ∧ FallL B ss
  | [], _, B, _ => ⟨by simp [okSs], fun cs cs' hc _ _ _ _ => by
      rw [compileStmts_nil'] at hc
      obtain ⟨_, rfl⟩ := pure_inv hc
      exact .inl rfl⟩
  | s :: r, hsz, B, h => by
    have h' : StmtF B s = true ∧ StmtsF (defsOf B s) r = true := by
      have : StmtsF B (s :: r) = (StmtF B s && StmtsF (defsOf B s) r) := rfl
      rw [this, Bool.and_eq_true] at h; exact h
    obtain ⟨ok1, f1⟩ := ih.stmt s (by ssz) B h'.1
    obtain ⟨ok2, f2⟩ := ih.stmts r (by ssz) _ h'.2
    refine ⟨by simp [okSs, ok1, ok2], ?_⟩
    intro cs cs' hc hcov hok hinv hfall
    rw [compileStmts_cons'] at hc
    obtain ⟨_, cs1, hc1, hc2⟩ := bind_inv hc
    obtain ⟨hse1, hok1, hcov1, _⟩ := good_stmt F s B h'.1 cs cs1 hc1 hcov hok
    have g1 := good_run ((Compile.allGood (sizeOf s + 1)).stmt s (Nat.lt_succ_self _) ok1) hinv hc1
    have g2 := good_run (Compile.good_compileStmts r ok2) g1.1 hc2
    rw [fallL_cons, Bool.and_eq_true] at hfall
    have e1 := f1 cs cs1 hc1 hcov hok hinv hfall.1
    have e2 := f2 cs1 cs' hc2 hcov1 hok1 g1.1 hfall.2
    exact (e1.pre g2.2.pre (Nat.le_refl _)).seq e2 g1.2.pre.1

theorem okE_of_condF {B : List String} {c : Expr} (h : condF B c = true) : okE c = true := by
  by_cases ht : isTrueLit c = true
  · obtain ⟨p, rfl⟩ := isTrueLit_inv ht
    simp [okE]
  · by_cases hf : isFalseLit c = true
    · obtain ⟨p, rfl⟩ := isFalseLit_inv hf
      simp [okE]
    · exact okE_of_exprF _ c (condF_split h ht hf).1

theorem fstep_else {F : FloatOps} {n : Nat} (ih : AllF F n) (e : Stmt) (hsz : sizeOf e < n + 1) (B : List String)
    (h : ElseF B e = true) : okS e = true := by
  cases e with
  | block pos body =>
    have := (ih.stmts body (by ssz) B h).1
    simpa [okS] using this
  | if_ pos init c bp body els =>
    cases init with
    | some i => cases els <;> cases h
    | none =>
      cases els with
      | none =>
        have h' : (condF B c && StmtsF B body) = true := h
        simp only [Bool.and_eq_true] at h'
        have okb := (ih.stmts body (by ssz) B h'.2).1
        have okc := okE_of_condF h'.1
        simp [okS, okc, okb]
      | some e' =>
        have h' : (condF B c && StmtsF B body && ElseF B e') = true := h
        simp only [Bool.and_eq_true] at h'
        have okb := (ih.stmts body (by ssz) B h'.1.2).1
        have okc := okE_of_condF h'.1.1
        have oke := ih.els e' (by ssz) B h'.2
        simp [okS, okc, okb, oke]
  | _ => cases h

theorem fstep_stmt {F : FloatOps} {n : Nat} (ih : AllF F n) (st : Stmt) (hsz : sizeOf st < n + 1) (B : List String)
    (h : StmtF B st = true) : okS st = true ∧ FallS B st := by
  cases st with
  | empty pos => exact ⟨by simp [okS], fall_empty B pos⟩
  | expr pos e =>
    have he : ExprF (bnd B) e = true := h
    exact ⟨by simpa [okS] using okE_of_exprF _ e he, fall_exprStmt B pos e he⟩
  | block pos body =>
    have hb : StmtsF B body = true := h
    obtain ⟨okb, fb⟩ := ih.stmts body (by ssz) B hb
    exact ⟨by simpa [okS] using okb, fall_block F B pos body hb fb⟩
  | return_ pos e =>
    refine ⟨?_, fun _ _ _ _ _ _ hf => by rw [fallS_return] at hf; cases hf⟩
    cases e with
    | none => simp [okS]
    | some e =>
      have he : ExprF (bnd B) e = true := h
      simpa [okS] using okE_of_exprF _ e he
  | if_ pos init c bp body els =>
    cases init with
    | some i =>
      cases els with
      | none =>
        have h' : (StmtF B i && (ExprF (bnd (defsOf B i)) c && !isBoolLit c) && StmtsF (defsOf B i) body) = true := h
        simp only [Bool.and_eq_true, Bool.not_eq_true'] at h'
        have oki := (ih.stmt i (by ssz) B h'.1.1).1
        have okb := (ih.stmts body (by ssz) _ h'.2).1
        have okc := okE_of_exprF _ c h'.1.2.1
        exact ⟨by simp [okS, oki, okc, okb], fall_ifInit F B pos bp i c body h'.1.1 h'.1.2.1 h'.1.2.2 h'.2 oki⟩
      | some e' =>
        have h' : (StmtF B i && (ExprF (bnd (defsOf B i)) c && !isBoolLit c) && StmtsF (defsOf B i) body &&
          ElseF (defsOf B i) e') = true := h
        simp only [Bool.and_eq_true, Bool.not_eq_true'] at h'
        have oki := (ih.stmt i (by ssz) B h'.1.1.1).1
        have okb := (ih.stmts body (by ssz) _ h'.1.2).1
        have okc := okE_of_exprF _ c h'.1.1.2.1
        have oke := ih.els e' (by ssz) _ h'.2
        exact ⟨by simp [okS, oki, okc, okb, oke],
          fall_ifInitElse F B pos bp i c body e' h'.1.1.1 h'.1.1.2.1 h'.1.1.2.2 h'.1.2 h'.2 oki okb⟩
    | none =>
      cases els with
      | none =>
        have h' : (condF B c && StmtsF B body) = true := h
        simp only [Bool.and_eq_true] at h'
        obtain ⟨okb, fb⟩ := ih.stmts body (by ssz) B h'.2
        have okc := okE_of_condF h'.1
        refine ⟨by simp [okS, okc, okb], ?_⟩
        by_cases ht : isTrueLit c = true
        · obtain ⟨p, rfl⟩ := isTrueLit_inv ht
          exact fall_ifTrue F B pos bp p body none h'.2 fb
        · by_cases hf : isFalseLit c = true
          · obtain ⟨p, rfl⟩ := isFalseLit_inv hf
            exact fall_ifFalse F B pos bp p body
          · obtain ⟨h1, h2⟩ := condF_split h'.1 ht hf
            exact fall_if F B pos bp c body h1 h2 h'.2
      | some e' =>
        have h' : (condF B c && StmtsF B body && ElseF B e') = true := h
        simp only [Bool.and_eq_true] at h'
        obtain ⟨okb, fb⟩ := ih.stmts body (by ssz) B h'.1.2
        have okc := okE_of_condF h'.1.1
        have oke := ih.els e' (by ssz) B h'.2
        refine ⟨by simp [okS, okc, okb, oke], ?_⟩
        by_cases ht : isTrueLit c = true
        · obtain ⟨p, rfl⟩ := isTrueLit_inv ht
          exact fall_ifTrue F B pos bp p body (some e') h'.1.2 fb
        · by_cases hf : isFalseLit c = true
          · obtain ⟨p, rfl⟩ := isFalseLit_inv hf
            exact fall_ifFalseElse F B pos bp p body e' h'.2
          · obtain ⟨h1, h2⟩ := condF_split h'.1.1 ht hf
            exact fall_ifElse F B pos bp c body e' h1 h2 h'.1.2 h'.2 okb
  | assign pos tok lhs rhs =>
    cases lhs with
    | nil => cases h
    | cons a l =>
      cases l with
      | cons b l' => cases a <;> cases h
      | nil =>
        cases rhs with
        | nil => cases a <;> cases h
        | cons r rr =>
          cases rr with
          | cons r' rr' => cases a <;> cases h
          | nil =>
            cases a with
            | ident p x =>
              have h' : (ExprF (bnd B) r &&
                  (if tok == tDefine then x != "_"
                   else if tok == tAssign then B.contains x
                   else (Compile.compoundOp tok).isSome && B.contains x)) = true := h
              rw [Bool.and_eq_true] at h'
              obtain ⟨hr, hk⟩ := h'
              have okr := okE_of_exprF _ r hr
              refine ⟨by simp [okS, okEs, okE, okr], ?_⟩
              by_cases hd : (tok == tDefine) = true
              · have : tok = tDefine := by simpa using hd
                subst this
                simp only [hd, if_true] at hk
                exact fall_define F B pos p x r hr (by simpa using hk)
              · simp only [hd, Bool.false_eq_true, if_false] at hk
                by_cases ha : (tok == tAssign) = true
                · have : tok = tAssign := by simpa using ha
                  subst this
                  simp only [ha, if_true] at hk
                  exact fall_assign F B pos p x r hr (by simpa using hk)
                · simp only [ha, Bool.false_eq_true, if_false, Bool.and_eq_true] at hk
                  obtain ⟨op, hop⟩ := Option.isSome_iff_exists.mp hk.1
                  exact fall_compound F B pos p x r tok op hr (by simpa using hk.2) hop
            | _ => cases h
  | declValue pos tok specs =>
    have h' : (tok == tVar && !specs.isEmpty && specsF B specs) = true := h
    simp only [Bool.and_eq_true, Bool.not_eq_true'] at h'
    have ht : tok = tVar := by simpa using h'.1.1
    subst ht
    refine ⟨by simpa [okS] using okSpecs_of_specsF specs B h'.2, ?_⟩
    intro cs cs' hc hcov hok hinv _
    cases specs with
    | nil => simp at h'
    | cons sp rest =>
      rw [compileStmt_varGroup] at hc
      exact fall_specs F pos (sp :: rest) B h'.2 none cs cs' hc hcov hok hinv
  | incdec pos tok tp e =>
    cases e with
    | ident p x =>
      have hx : B.contains x = true := h
      exact ⟨by simp [okS, okE], fall_incdec F B pos tok tp p x (by simpa using hx)⟩
    | _ => cases h
  | _ => cases h

theorem allF (F : FloatOps) : ∀ n, AllF F n
  | 0 => ⟨fun _ h => by omega, fun _ h => by omega, fun _ h => by omega⟩
  | n + 1 =>
    have ih := allF F n
    ⟨fstep_stmt ih, fstep_else ih, fstep_stmts ih⟩

/-- every statement list of the fragment: parser shape (`okSs`) and reachable end -/
theorem fall_stmts (F : FloatOps) (ss : List Stmt) (B : List String) (h : StmtsF B ss = true) :
    okSs ss = true ∧ FallL B ss :=
  (allF F (sizeOf ss + 1)).stmts ss (Nat.lt_succ_self _) B h

/-! ### `Bytecode()` appends its RETURN -/

/-- `compileFile`: the statement list's stream, the result of the scan, and when the RETURN is appended -/
theorem compileFile_scan {builtins : List (String × Nat)} {disabled : List String} {file : List Stmt} {bc : Compile.Bytecode}
    (h : Compile.compileFile builtins disabled file = .ok bc) :
    ∃ (cs' : CState) (l : Nat) (P : List Nat),
      runCM (compileStmts file) (Compile.initState builtins disabled) = (.ok (), cs') ∧
      Compile.scanFn cs'.insts (cs'.insts.size + 1) 0 0 [] = some (l, P) ∧
      ((l ≠ Compile.OpReturn ∨ P ≠ []) → cs'.insts.size < bc.main.insts.size) := by
  unfold Compile.compileFile at h
  change (runCM (Compile.compileProg file) (Compile.initState builtins disabled)).1 = .ok bc at h
  cases hr : runCM (Compile.compileProg file) (Compile.initState builtins disabled) with
  | mk r csf =>
    rw [hr] at h
    simp only at h
    subst h
    unfold Compile.compileProg at hr
    obtain ⟨_, cs', hst, hr⟩ := bind_inv hr
    obtain ⟨fn, cs2, hfin, hr⟩ := bind_inv hr
    split at hr
    · simp [Compile.runCM_throw] at hr
    rename_i hnl
    obtain ⟨csx, cs3, hg, hr⟩ := bind_inv hr
    rw [Compile.runCM_get] at hg
    simp only [Prod.mk.injEq, Except.ok.injEq] at hg
    obtain ⟨rfl, rfl⟩ := hg
    obtain ⟨hbc, _⟩ := pure_inv hr
    subst hbc
    unfold Compile.finishFn at hfin
    obtain ⟨s0, cs0, hg0, hfin⟩ := bind_inv hfin
    rw [Compile.runCM_get] at hg0
    simp only [Prod.mk.injEq, Except.ok.injEq] at hg0
    obtain ⟨rfl, rfl⟩ := hg0
    try simp only at hfin
    split at hfin
    · simp [Compile.cpanic, Compile.runCM_throw] at hfin
    rename_i lastOp pend hscan
    unfold Compile.finishTail at hfin
    obtain ⟨_, csr, hret, hfin⟩ := bind_inv hfin
    obtain ⟨sg, cs4, hg4, hfin⟩ := bind_inv hfin
    rw [Compile.runCM_get] at hg4
    simp only [Prod.mk.injEq, Except.ok.injEq] at hg4
    obtain ⟨rfl, rfl⟩ := hg4
    obtain ⟨th, cs5, hht, hfin⟩ := bind_inv hfin
    obtain ⟨hfn, rfl⟩ := pure_inv hfin
    subst hfn
    refine ⟨_, lastOp, pend, hst, hscan, ?_⟩
    intro hcond
    have hcnd : (lastOp != Compile.OpReturn || !pend.isEmpty) = true := by
      rcases hcond with h | h
      · simp [h]
      · cases pend with
        | nil => exact absurd rfl h
        | cons _ _ => simp
    rw [if_pos hcnd] at hret
    obtain ⟨bs, hbs, e⟩ := emit__inv hret
    obtain ⟨rest, rfl, _⟩ := Compile.makeInstruction_ok hbs
    show _ < csr.insts.size
    rw [e]; simp

/-- a script of the fragment for which `fallL` holds gets the RETURN of `Bytecode()` -/
theorem appended_of_fall (F : FloatOps) {builtins : List (String × Nat)} {disabled : List String} {file : List Stmt}
    {bc : Compile.Bytecode} (hb : ∀ p ∈ builtins, p.2 < Gen.numBuiltins) (hF : StmtsF [] file = true)
    (hc : Compile.compileFile builtins disabled file = .ok bc) (hfall : fallL file = true) :
    streamSize builtins disabled file < bc.main.insts.size := by
  obtain ⟨cs', l, P, hst, hscan, himp⟩ := compileFile_scan hc
  have hinv0 := Compile.inv_initState builtins disabled hb
  have hok0 : CsOK (Compile.initState builtins disabled) := ⟨rfl, (by show (-1 : Int) ≤ -1; omega), Nat.le_refl _⟩
  obtain ⟨hokss, hfl⟩ := fall_stmts F file [] hF
  have hg := good_run (Compile.good_compileStmts file hokss) hinv0 hst
  have hfalls := hfl _ cs' hst (by intro n hn; cases hn) hok0 hinv0 hfall
  have h0 : (Compile.initState builtins disabled).insts.size = 0 := rfl
  rw [h0] at hfalls
  have := himp (falls_scan hg.1.walk hfalls hscan)
  unfold streamSize
  rw [hst]
  exact this

/-- `Sem.runProgram` of ANY script of the fragment: `VM.Run` of the compile model's output returns the same
    value for every large enough step budget (`undefined` when the script falls off its end), or an
    uncaught error with the same name and message -/
theorem prog_sim_run_all (F : FloatOps) {builtins : List (String × Nat)} {disabled : List String} {file : List Stmt}
    {bc : Compile.Bytecode} (hb : ∀ p ∈ builtins, p.2 < Gen.numBuiltins) (hF : StmtsF [] file = true)
    (hc : Compile.compileFile builtins disabled file = .ok bc)
    (hsp : bc.main.numLocals + needL file ≤ 2048)
    (t : State) (hrel : HeapRel (startState bc) t)
    (fuel : Nat) (ss ss' : Sem.SemSt) (res : Sem.Result) (t' : State)
    (hsem : exec ((Sem.runProgram F fuel file []).run ss) t = (.ok (res, ss'), t')) :
    ss = ss' ∧
    match res with
    | .value v => ∃ n, ∀ fuel, n ≤ fuel → (runFrom F fuel .nil [] (loadProg bc)).1 = VM.Outcome.value v
    | .error a => ∃ (nm msg : String) (n : Nat), ErrIs t'.heap a nm msg ∧ ∀ fuel, n ≤ fuel →
        ∃ a' sfin, runFrom F fuel .nil [] (loadProg bc) = (VM.Outcome.error (.rt a'), sfin) ∧ ErrIs sfin.heap a' nm msg := by
  rw [runProgram_frag F fuel file [] (mainParams_frag file [] hF)] at hsem
  obtain ⟨⟨c, env'⟩, ss1, t1, hl, hsem⟩ := sm_bind_inv hsem
  obtain ⟨rfl, out⟩ := prog_sim F hF hc hsp t hrel fuel ss ss1 c env' t1 hl
  cases c with
  | ret v =>
    obtain ⟨hre, rfl, rfl⟩ := sm_pure_inv hsem
    subst hre
    exact ⟨rfl, out.2⟩
  | thr a =>
    obtain ⟨hre, rfl, rfl⟩ := sm_pure_inv hsem
    subst hre
    exact ⟨rfl, out⟩
  | normal =>
    obtain ⟨hre, rfl, rfl⟩ := sm_pure_inv hsem
    subst hre
    exact ⟨rfl, out (appended_of_fall F hb hF hc (normal_fall F hl))⟩
  | brk => exact out.elim
  | cont => exact out.elim

end UgoVerif.CompSim
