import UgoVerif.Model.Builtins
/-
  Helper lemmas for C19: `Call.Get` inside the argument list never panics, the
  read loops of the adapters and of the hand-written bodies stay inside it.
-/
namespace UgoVerif.Proofs.Builtins
open UgoVerif UgoVerif.Go UgoVerif.Gen.Adapters UgoVerif.Model.Builtins

theorem get_lt {c : Call} {n : Nat} (h : n < c.len) : ∃ v, c.get n = .ok v := by
  unfold Call.get
  by_cases h1 : n < c.args.length
  · simp only [h1, if_true]
    rw [List.getElem?_eq_getElem h1]; exact ⟨_, rfl⟩
  · have h2 : n - c.args.length < c.vargs.length := by unfold Call.len at h; omega
    simp only [h1, if_false]
    rw [List.getElem?_eq_getElem h2]; exact ⟨_, rfl⟩

/-- the converse: past the argument list `Get` does panic (the panic site is real) -/
theorem get_ge {c : Call} {n : Nat} (h : c.len ≤ n) : ∃ m, c.get n = .panic m := by
  unfold Call.get
  have h1 : ¬ n < c.args.length := by unfold Call.len at h; omega
  have h2 : c.vargs.length ≤ n - c.args.length := by unfold Call.len at h; omega
  simp only [h1, if_false]
  rw [List.getElem?_eq_none h2]; exact ⟨_, rfl⟩

theorem readAll_no_panic (c : Call) : ∀ (reads : List Nat), (∀ i ∈ reads, i < c.len) →
    (readAll c reads).isPanic = false
  | [], _ => rfl
  | i :: rest, h => by
    obtain ⟨v, hv⟩ := get_lt (c := c) (n := i) (h i (by simp))
    have ih := readAll_no_panic c rest (fun j hj => h j (by simp [hj]))
    unfold readAll
    rw [hv]
    cases hr : readAll c rest <;> simp_all [Res.isPanic]

theorem argPhase_no_panic (a : Adapter) (hs : adapterSafe a = true) (c : Call) :
    (argPhase a c).isPanic = false := by
  unfold argPhase
  unfold adapterSafe at hs
  cases hc : a.checked with
  | none =>
    simp only [hc] at hs ⊢
    have : a.reads = [] := by simpa using hs
    rw [this]; rfl
  | some n =>
    simp only [hc] at hs ⊢
    split
    · rfl
    · rename_i hlen
      have hlen : c.len = n := by simpa using hlen
      apply readAll_no_panic
      intro i hi
      have := List.all_eq_true.mp hs i hi
      simp at this; omega

theorem getRange_no_panic (c : Call) : ∀ (k i : Nat), i + k ≤ c.len → (getRange c i k).isPanic = false
  | 0, _, _ => rfl
  | k + 1, i, h => by
    obtain ⟨v, hv⟩ := get_lt (c := c) (n := i) (by omega)
    have ih := getRange_no_panic c k (i + 1) (by omega)
    unfold getRange
    rw [hv]
    cases hr : getRange c (i + 1) k <;> simp_all [Res.isPanic]

theorem shift_len {c c' : Call} {v : Val} (h : c.shift = some (v, c')) : c'.len + 1 = c.len := by
  unfold Call.shift at h
  cases ha : c.args with
  | cons a rest =>
    simp [ha] at h
    obtain ⟨_, h2⟩ := h
    subst h2; simp [Call.len, ha]; omega
  | nil =>
    cases hv : c.vargs with
    | cons a rest =>
      simp [ha, hv] at h
      obtain ⟨_, h2⟩ := h
      subst h2; simp [Call.len, ha, hv]
    | nil => simp [ha, hv] at h

theorem shift_none {c : Call} (h : c.shift = none) : c.len = 0 := by
  unfold Call.shift at h
  cases ha : c.args with
  | cons a rest => simp [ha] at h
  | nil =>
    cases hv : c.vargs with
    | cons a rest => simp [ha, hv] at h
    | nil => simp [Call.len, ha, hv]

theorem appendBytes_no_panic : ∀ (xs : List Val) (acc : Bytes) (n : Nat), (appendBytes acc n xs).isPanic = false
  | [], _, _ => rfl
  | v :: rest, acc, n => by
    unfold appendBytes
    cases byteOf v with
    | some b => exact appendBytes_no_panic rest _ _
    | none => rfl

theorem bytesLoop_no_panic : ∀ (xs : List Val) (acc : Bytes) (n : Nat), (bytesLoop acc n xs).isPanic = false
  | [], _, _ => rfl
  | v :: rest, acc, n => by
    unfold bytesLoop
    cases byteOf v with
    | some b => exact bytesLoop_no_panic rest _ _
    | none => rfl

theorem length_flatten_replicate {α} (s : List α) : ∀ k : Nat, (List.replicate k s).flatten.length = k * s.length
  | 0 => by simp
  | k + 1 => by
    simp [List.replicate_succ, length_flatten_replicate s k, Nat.succ_mul]; omega

theorem wrap64_id {x : Int} (h1 : minInt ≤ x) (h2 : x ≤ maxInt) : wrap64 x = x := by
  unfold wrap64; unfold minInt at h1; unfold maxInt at h2; omega

/-- `n > 0`, `count ≤ M / n` gives `n * count ≤ M` (the repair's guard) -/
theorem mul_le_of_le_div {n : Nat} {count M : Int} (hn : 0 < n)
    (h : count ≤ M / (n : Int)) : (n : Int) * count ≤ M := by
  have hn' : (0 : Int) < (n : Int) := by exact_mod_cast hn
  calc (n : Int) * count ≤ (n : Int) * (M / (n : Int)) := Int.mul_le_mul_of_nonneg_left h (Int.le_of_lt hn')
    _ ≤ M := Int.mul_ediv_self_le (Int.ne_of_gt hn')

end UgoVerif.Proofs.Builtins

namespace UgoVerif.Proofs.Builtins
open UgoVerif UgoVerif.Go UgoVerif.Model.Builtins

/-- the arithmetic of `pad`: with `0 < diff ≤ 2^31` and a pad string of length `0 < L ≤ B`,
    `r = (diff-L)/L + 2` copies are positive, at most `2B + 2^32` bytes, and at least `diff` bytes -/
theorem pad_arith (diff L q : Int) (hd0 : 0 < diff) (hL0 : 0 < L) (hq : q = Int.tdiv (diff - L) L) :
    0 < q + 2 ∧ q + 2 ≤ diff + 2 ∧ L * (q + 2) ≤ diff + 2 * L ∧ diff < L * (q + 2) + 1 := by
  by_cases hneg : diff - L < 0
  · have hx0 : 0 ≤ L - diff := by omega
    have hxl : L - diff < L := by omega
    have h1 : Int.tdiv (diff - L) L = 0 := by
      have : diff - L = -(L - diff) := by omega
      rw [this, Int.neg_tdiv, Int.tdiv_eq_ediv_of_nonneg hx0, Int.ediv_eq_zero_of_lt hx0 hxl]; rfl
    rw [h1] at hq; subst hq
    refine ⟨by omega, by omega, by omega, by omega⟩
  · have hnn : 0 ≤ diff - L := by omega
    have h1 : Int.tdiv (diff - L) L = (diff - L) / L := Int.tdiv_eq_ediv_of_nonneg hnn
    have h2 : L * ((diff - L) / L) ≤ diff - L := Int.mul_ediv_self_le (by omega)
    have h3 : diff - L < L * ((diff - L) / L) + L := Int.lt_mul_ediv_self_add hL0
    have h4 : 0 ≤ (diff - L) / L := Int.ediv_nonneg hnn (by omega)
    have h5 : (diff - L) / L ≤ diff - L := by
      have : (diff - L) / L * 1 ≤ (diff - L) / L * L := Int.mul_le_mul_of_nonneg_left (by omega) h4
      have h6 : (diff - L) / L * L = L * ((diff - L) / L) := Int.mul_comm _ _
      omega
    rw [h1] at hq; subst hq
    have hm : L * ((diff - L) / L + 2) = L * ((diff - L) / L) + 2 * L := by
      rw [Int.mul_add, Int.mul_comm L 2]
    refine ⟨by omega, by omega, by omega, by omega⟩

end UgoVerif.Proofs.Builtins

namespace UgoVerif.Proofs.Builtins
open UgoVerif UgoVerif.Go UgoVerif.Model.Builtins

theorem libRepeat_len (E : Env) (hM : (E.makeLimit : Int) ≤ maxInt) (s : Bytes) (count : Int)
    (h0 : 0 ≤ count) (hs : 0 < s.length) (hle : (s.length : Int) * count ≤ E.makeLimit) :
    ∃ r, libRepeat E s count = .ok r ∧ (r.length : Int) = (s.length : Int) * count := by
  unfold libRepeat
  have h1 : ¬ count < 0 := by omega
  have h2 : ¬ (s.length : Int) * count > maxInt := by omega
  have h3 : ¬ (s.length : Int) * count > (E.makeLimit : Int) := by omega
  have h4 : s.isEmpty = false := by
    cases s with
    | nil => simp at hs
    | cons _ _ => rfl
  simp only [h1, h2, h3, if_false, h4]
  refine ⟨_, rfl, ?_⟩
  simp only [Bool.false_eq_true, if_false]
  rw [length_flatten_replicate]
  have : ((count.toNat : Nat) : Int) = count := Int.toNat_of_nonneg h0
  rw [Int.natCast_mul, this, Int.mul_comm]

theorem padCont_no_panic (E : Env) (B : Nat) (hL : 2 * B + 4294967296 ≤ E.makeLimit)
    (hM : (E.makeLimit : Int) ≤ maxInt) (s : Bytes) (padLen diff : Int) (left : Bool) (padWith : Bytes)
    (hp0 : 0 ≤ padLen) (hp : padLen ≤ 2147483647) (hd0 : 0 < diff) (hd : diff ≤ 2147483647)
    (hw0 : 0 < padWith.length) (hw : padWith.length ≤ B) :
    (padCont E s padLen diff left padWith).isPanic = false := by
  unfold padCont
  have hMx : (E.makeLimit : Int) ≤ 9223372036854775807 := by unfold maxInt at hM; exact hM
  have hwr : wrap64 (diff - padWith.length) = diff - padWith.length :=
    wrap64_id (by unfold minInt; omega) (by unfold maxInt; omega)
  rw [hwr]
  have hdiv : goDiv (diff - padWith.length) padWith.length
      = .ok (Int.tdiv (diff - padWith.length) padWith.length) := by
    unfold goDiv
    have : ¬ ((padWith.length : Int) = 0) := by omega
    simp only [this, if_false]
  rw [hdiv]
  simp only
  obtain ⟨a1, a2, a3, a4⟩ := pad_arith diff padWith.length _ hd0 (by omega) rfl
  generalize Int.tdiv (diff - padWith.length) padWith.length = q at *
  have hr : wrap64 (q + 2) = q + 2 := wrap64_id (by unfold minInt; omega) (by unfold maxInt; omega)
  rw [hr]
  have hnle : ¬ q + 2 ≤ 0 := by omega
  simp only [hnle, if_false]
  have hgrow : libGrow E padLen = .ok () := by
    unfold libGrow
    have h1 : ¬ padLen < 0 := by omega
    have h2 : ¬ padLen > (E.makeLimit : Int) := by omega
    simp [h1, h2]
  rw [hgrow]
  simp only
  obtain ⟨rep, hrep, hlen⟩ := libRepeat_len E hM padWith (q + 2) (by omega) hw0 (by omega)
  rw [hrep]
  simp only
  have hsl : sliceTo rep diff = .ok (rep.take diff.toNat) := by
    unfold sliceTo
    have : ¬ (diff < 0 ∨ diff > (rep.length : Int)) := by omega
    simp [this]
  rw [hsl]
  rfl

end UgoVerif.Proofs.Builtins
