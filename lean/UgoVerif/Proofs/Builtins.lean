import UgoVerif.Model.Builtins
/-
  Helper lemmas for C19: `Call.Get` inside the argument list never panics, the
  read loops of the adapters and of the hand-written bodies stay inside it.
-/
namespace UgoVerif.Proofs.Builtins
open UgoVerif UgoVerif.Go UgoVerif.Gen.Adapters UgoVerif.Model.Builtins

theorem get_lt {c : Call} {n : Nat} (h : n < c.len) : ∃ v, c.get n = .ok v := by
  unfold Call.get
  by_cases h1 : n < c.args.length
  · simp only [h1, if_true]
    rw [List.getElem?_eq_getElem h1]; exact ⟨_, rfl⟩
  · have h2 : n - c.args.length < c.vargs.length := by unfold Call.len at h; omega
    simp only [h1, if_false]
    rw [List.getElem?_eq_getElem h2]; exact ⟨_, rfl⟩

/-- the converse: past the argument list `Get` does panic (the panic site is real) -/
theorem get_ge {c : Call} {n : Nat} (h : c.len ≤ n) : ∃ m, c.get n = .panic m := by
  unfold Call.get
  have h1 : ¬ n < c.args.length := by unfold Call.len at h; omega
  have h2 : c.vargs.length ≤ n - c.args.length := by unfold Call.len at h; omega
  simp only [h1, if_false]
  rw [List.getElem?_eq_none h2]; exact ⟨_, rfl⟩

theorem readAll_no_panic (c : Call) : ∀ (reads : List Nat), (∀ i ∈ reads, i < c.len) →
    (readAll c reads).isPanic = false
  | [], _ => rfl
  | i :: rest, h => by
    obtain ⟨v, hv⟩ := get_lt (c := c) (n := i) (h i (by simp))
    have ih := readAll_no_panic c rest (fun j hj => h j (by simp [hj]))
    unfold readAll
    rw [hv]
    cases hr : readAll c rest <;> simp_all [Res.isPanic]

theorem argPhase_no_panic (a : Adapter) (hs : adapterSafe a = true) (c : Call) :
    (argPhase a c).isPanic = false := by
  unfold argPhase
  unfold adapterSafe at hs
  cases hc : a.checked with
  | none =>
    simp only [hc] at hs ⊢
    have : a.reads = [] := by simpa using hs
    rw [this]; rfl
  | some n =>
    simp only [hc] at hs ⊢
    split
    · rfl
    · rename_i hlen
      have hlen : c.len = n := by simpa using hlen
      apply readAll_no_panic
      intro i hi
      have := List.all_eq_true.mp hs i hi
      simp at this; omega

theorem getRange_no_panic (c : Call) : ∀ (k i : Nat), i + k ≤ c.len → (getRange c i k).isPanic = false
  | 0, _, _ => rfl
  | k + 1, i, h => by
    obtain ⟨v, hv⟩ := get_lt (c := c) (n := i) (by omega)
    have ih := getRange_no_panic c k (i + 1) (by omega)
    unfold getRange
    rw [hv]
    cases hr : getRange c (i + 1) k <;> simp_all [Res.isPanic]

theorem shift_len {c c' : Call} {v : Val} (h : c.shift = some (v, c')) : c'.len + 1 = c.len := by
  unfold Call.shift at h
  cases ha : c.args with
  | cons a rest =>
    simp [ha] at h
    obtain ⟨_, h2⟩ := h
    subst h2; simp [Call.len, ha]; omega
  | nil =>
    cases hv : c.vargs with
    | cons a rest =>
      simp [ha, hv] at h
      obtain ⟨_, h2⟩ := h
      subst h2; simp [Call.len, ha, hv]
    | nil => simp [ha, hv] at h

theorem shift_none {c : Call} (h : c.shift = none) : c.len = 0 := by
  unfold Call.shift at h
  cases ha : c.args with
  | cons a rest => simp [ha] at h
  | nil =>
    cases hv : c.vargs with
    | cons a rest => simp [ha, hv] at h
    | nil => simp [Call.len, ha, hv]

theorem appendBytes_no_panic : ∀ (xs : List Val) (acc : Bytes) (n : Nat), (appendBytes acc n xs).isPanic = false
  | [], _, _ => rfl
  | v :: rest, acc, n => by
    unfold appendBytes
    cases byteOf v with
    | some b => exact appendBytes_no_panic rest _ _
    | none => rfl

theorem bytesLoop_no_panic : ∀ (xs : List Val) (acc : Bytes) (n : Nat), (bytesLoop acc n xs).isPanic = false
  | [], _, _ => rfl
  | v :: rest, acc, n => by
    unfold bytesLoop
    cases byteOf v with
    | some b => exact bytesLoop_no_panic rest _ _
    | none => rfl

theorem length_flatten_replicate {α} (s : List α) : ∀ k : Nat, (List.replicate k s).flatten.length = k * s.length
  | 0 => by simp
  | k + 1 => by
    simp [List.replicate_succ, length_flatten_replicate s k, Nat.succ_mul]; omega

theorem wrap64_id {x : Int} (h1 : minInt ≤ x) (h2 : x ≤ maxInt) : wrap64 x = x := by
  unfold wrap64; unfold minInt at h1; unfold maxInt at h2; omega

/-- `n > 0`, `count ≤ M / n` gives `n * count ≤ M` (the repair's guard) -/
theorem mul_le_of_le_div {n : Nat} {count M : Int} (hn : 0 < n)
    (h : count ≤ M / (n : Int)) : (n : Int) * count ≤ M := by
  have hn' : (0 : Int) < (n : Int) := by exact_mod_cast hn
  calc (n : Int) * count ≤ (n : Int) * (M / (n : Int)) := Int.mul_le_mul_of_nonneg_left h (Int.le_of_lt hn')
    _ ≤ M := Int.mul_ediv_self_le (Int.ne_of_gt hn')

end UgoVerif.Proofs.Builtins
