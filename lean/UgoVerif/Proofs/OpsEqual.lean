import UgoVerif.Model.Ops
import UgoVerif.Gen.NumericSimp
import Batteries.Data.List.Perm
/-
  Helper lemmas for C15 `equal_comm`: symmetry of `valEqual` on all values,
  by strong induction on the size of the left operand.
-/
namespace UgoVerif.Proofs
open UgoVerif UgoVerif.Go UgoVerif.Gen UgoVerif.Model

theorem feq_comm (a b : F64) : feq a b = feq b a := by
  unfold feq
  cases a.isNaN <;> cases b.isNaN <;> simp [Bool.beq_comm]

def isContainer : Val → Bool
  | .array _ | .map _ => true
  | _ => false

/-- Well-formed values: map keys are unique (a Go map cannot hold a key twice). -/
inductive WF : Val → Prop where
  | undefined : WF .undefined
  | int v : WF (.int v)
  | uint v : WF (.uint v)
  | float v : WF (.float v)
  | char v : WF (.char v)
  | bool b : WF (.bool b)
  | str s : WF (.str s)
  | bytes s : WF (.bytes s)
  | opaque tn i : WF (.opaque tn i)
  | array xs : (∀ x ∈ xs, WF x) → WF (.array xs)
  | map kvs : (kvs.map Prod.fst).Nodup → (∀ p ∈ kvs, WF p.2) → WF (.map kvs)

theorem scalar_comm (F : FloatOps) (a b : Val) (ha : isContainer a = false) (hb : isContainer b = false) :
    valEqual F a b = valEqual F b a := by
  cases a <;> cases b <;> simp [isContainer] at ha hb <;>
    simp [valEqual, ugo_cells] <;>
    (try simp [feq_comm, Bool.beq_comm]) <;> (try (split <;> simp_all))

/-- a container on one side and a non-container on the other are never equal, in either order -/
theorem container_scalar (F : FloatOps) (a b : Val) (ha : isContainer a = true) (hb : isContainer b = false) :
    valEqual F a b = false ∧ valEqual F b a = false := by
  cases a <;> cases b <;> simp [isContainer] at ha hb <;>
    simp [valEqual, ugo_cells]

theorem array_map (F : FloatOps) (xs : List Val) (m : List (Bytes × Val)) :
    valEqual F (.array xs) (.map m) = false ∧ valEqual F (.map m) (.array xs) = false := by
  simp [valEqual]

theorem listEqual_comm (F : FloatOps) (xs ys : List Val)
    (ih : ∀ x ∈ xs, ∀ y ∈ ys, valEqual F x y = valEqual F y x) :
    listEqual F xs ys = listEqual F ys xs := by
  induction xs generalizing ys with
  | nil => cases ys <;> simp [listEqual]
  | cons x xs ihx =>
    cases ys with
    | nil => simp [listEqual]
    | cons y ys =>
      simp only [listEqual]
      rw [ih x (by simp) y (by simp),
        ihx ys (fun x hx y hy => ih x (by simp [hx]) y (by simp [hy]))]

theorem lookup_some_mem {k : Bytes} {v : Val} {m : List (Bytes × Val)} (h : lookup k m = some v) : (k, v) ∈ m := by
  induction m with
  | nil => simp [lookup] at h
  | cons p rest ih =>
    obtain ⟨k', v'⟩ := p
    simp only [lookup] at h
    split at h
    · rename_i hk
      have : k = k' := by simpa using hk
      simp at h; subst h; subst this; simp
    · exact List.mem_cons_of_mem _ (ih h)

theorem lookup_none_iff {k : Bytes} {m : List (Bytes × Val)} : lookup k m = none ↔ k ∉ m.map Prod.fst := by
  induction m with
  | nil => simp [lookup]
  | cons p rest ih =>
    obtain ⟨k', v'⟩ := p
    simp only [lookup]
    split
    · rename_i hk
      have : k = k' := by simpa using hk
      simp [this]
    · rename_i hk
      have : k ≠ k' := by simpa using hk
      simp [ih, this]

theorem lookup_of_mem_nodup {k : Bytes} {v : Val} {m : List (Bytes × Val)}
    (hn : (m.map Prod.fst).Nodup) (h : (k, v) ∈ m) : lookup k m = some v := by
  induction m with
  | nil => simp at h
  | cons p rest ih =>
    obtain ⟨k', v'⟩ := p
    simp only [List.map_cons, List.nodup_cons] at hn
    simp only [lookup]
    rcases List.mem_cons.1 h with h1 | h2
    · simp at h1; obtain ⟨rfl, rfl⟩ := h1; simp
    · have hk : k ≠ k' := by
        intro e; subst e
        exact hn.1 (List.mem_map.2 ⟨(k, v), h2, rfl⟩)
      simp [hk, ih hn.2 h2]

/-- semantic reading of the `Map.Equal` loop -/
theorem mapEqual_iff (F : FloatOps) (m n : List (Bytes × Val)) :
    mapEqual F m n = true ↔ ∀ p ∈ m, ∃ y, lookup p.1 n = some y ∧ valEqual F p.2 y = true := by
  induction m with
  | nil => simp [mapEqual]
  | cons p rest ih =>
    obtain ⟨k, x⟩ := p
    simp only [mapEqual, Bool.and_eq_true, ih, List.mem_cons, forall_eq_or_imp]
    constructor
    · rintro ⟨h1, h2⟩
      refine ⟨?_, h2⟩
      split at h1
      · rename_i y hy; exact ⟨y, hy, h1⟩
      · simp at h1
    · rintro ⟨⟨y, hy, he⟩, h2⟩
      refine ⟨?_, h2⟩
      simp [hy, he]

theorem keys_subset_of_mapEqual (F : FloatOps) (m n : List (Bytes × Val)) (h : mapEqual F m n = true) :
    m.map Prod.fst ⊆ n.map Prod.fst := by
  intro k hk
  obtain ⟨p, hp, rfl⟩ := List.mem_map.1 hk
  obtain ⟨y, hy, _⟩ := (mapEqual_iff F m n).1 h p hp
  exact List.mem_map.2 ⟨(p.1, y), lookup_some_mem hy, rfl⟩

/-- one direction of the symmetry of `Map.Equal` -/
theorem mapEqual_flip (F : FloatOps) (m n : List (Bytes × Val))
    (hm : (m.map Prod.fst).Nodup) (hn : (n.map Prod.fst).Nodup)
    (hlen : m.length = n.length)
    (ih : ∀ p ∈ m, ∀ q ∈ n, valEqual F p.2 q.2 = valEqual F q.2 p.2)
    (h : mapEqual F m n = true) : mapEqual F n m = true := by
  rw [mapEqual_iff]
  intro q hq
  -- pigeonhole: keys n ⊆ keys m
  have hsub := keys_subset_of_mapEqual F m n h
  have hperm : List.Perm (m.map Prod.fst) (n.map Prod.fst) :=
    (List.subperm_of_subset hm hsub).perm_of_length_le (by simp [hlen])
  have hqk : q.1 ∈ m.map Prod.fst := hperm.symm.subset (List.mem_map.2 ⟨q, hq, rfl⟩)
  obtain ⟨p, hp, hpk⟩ := List.mem_map.1 hqk
  obtain ⟨y, hy, he⟩ := (mapEqual_iff F m n).1 h p hp
  have hq' : lookup q.1 n = some q.2 := lookup_of_mem_nodup hn (by simpa using hq)
  rw [hpk, hq'] at hy
  have : y = q.2 := by simpa using hy.symm
  subst this
  refine ⟨p.2, ?_, ?_⟩
  · rw [← hpk]; exact lookup_of_mem_nodup hm (by simpa using hp)
  · rw [← ih p hp q hq]; exact he

theorem sizeOf_snd_lt {p : Bytes × Val} {m : List (Bytes × Val)} (h : p ∈ m) : sizeOf p.2 < sizeOf m := by
  have := List.sizeOf_lt_of_mem h
  obtain ⟨k, v⟩ := p
  simp at this ⊢
  omega

theorem valEqual_comm_aux (F : FloatOps) : ∀ (sz : Nat) (a b : Val), sizeOf a ≤ sz → WF a → WF b →
    valEqual F a b = valEqual F b a := by
  intro sz
  induction sz with
  | zero =>
    intro a b h
    cases a <;> simp at h <;> omega
  | succ sz ihsz =>
    intro a b hsz wa wb
    by_cases hca : isContainer a = false
    · by_cases hcb : isContainer b = false
      · exact scalar_comm F a b hca hcb
      · have := container_scalar F b a (by simpa using hcb) hca
        rw [this.1, this.2]
    · have hca : isContainer a = true := by simpa using hca
      by_cases hcb : isContainer b = false
      · have := container_scalar F a b hca hcb
        rw [this.1, this.2]
      · have hcb : isContainer b = true := by simpa using hcb
        cases a with
        | array xs =>
          cases b with
          | array ys =>
            simp only [valEqual]
            cases wa with
            | array _ wxs =>
            cases wb with
            | array _ wys =>
            apply listEqual_comm
            intro x hx y hy
            have hlt : sizeOf x < sizeOf xs := List.sizeOf_lt_of_mem hx
            simp at hsz
            exact ihsz x y (by omega) (wxs x hx) (wys y hy)
          | map m =>
            have := array_map F xs m
            rw [this.1, this.2]
          | _ => simp [isContainer] at hcb
        | map m =>
          cases b with
          | array ys =>
            have := array_map F ys m
            rw [this.1, this.2]
          | map n =>
            simp only [valEqual]
            cases wa with
            | map _ nm wm =>
            cases wb with
            | map _ nn wn =>
            have ih : ∀ p ∈ m, ∀ q ∈ n, valEqual F p.2 q.2 = valEqual F q.2 p.2 := by
              intro p hp q hq
              have hlt := sizeOf_snd_lt hp
              simp at hsz
              exact ihsz p.2 q.2 (by omega) (wm p hp) (wn q hq)
            by_cases hlen : m.length = n.length
            · have h1 := mapEqual_flip F m n nm nn hlen ih
              have h2 := mapEqual_flip F n m nn nm hlen.symm (fun q hq p hp => (ih p hp q hq).symm)
              have : mapEqual F m n = mapEqual F n m := by
                cases hA : mapEqual F m n <;> cases hB : mapEqual F n m <;> simp_all
              simp [hlen, this]
            · have hlen' : ¬ n.length = m.length := fun e => hlen e.symm
              have e1 : (m.length == n.length) = false := by simpa using hlen
              have e2 : (n.length == m.length) = false := by simpa using hlen'
              rw [e1, e2]; rfl
          | _ => simp [isContainer] at hcb
        | _ => simp [isContainer] at hca

theorem valEqual_comm (F : FloatOps) (a b : Val) (wa : WF a) (wb : WF b) :
    valEqual F a b = valEqual F b a :=
  valEqual_comm_aux F (sizeOf a) a b (Nat.le_refl _) wa wb

end UgoVerif.Proofs
