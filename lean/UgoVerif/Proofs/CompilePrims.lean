import UgoVerif.Proofs.CompileInv
/-
  C05: the block / loop / function combinators and every non-recursive compile function keep the
  invariant and never panic.
-/
namespace UgoVerif.Compile
open UgoVerif UgoVerif.Go UgoVerif.Ast

theorem head_of_inv {s : CState} (hs : Inv s) : ∃ t r, s.tables = t :: r := by
  cases h : s.tables with
  | nil => exact absurd h hs.ne
  | cons t r => exact ⟨t, r, rfl⟩

theorem Sat.of_run {α} {m : CM α} {s s' : CState} {a : α} {Q : α → CState → Prop}
    (hr : runCM m s = (.ok a, s')) (h : Q a s') : Sat m s Q := by
  simp [Sat, hr, h]

theorem Sat.bind_of_run {α β} {m : CM α} {f : α → CM β} {s s' : CState} {a : α} {Q : β → CState → Prop}
    (hr : runCM m s = (.ok a, s')) (h : Sat (f a) s' Q) : Sat (m >>= f) s Q :=
  Sat.bind (Sat.of_run hr h)

theorem runCM_headTable {s : CState} {t : Table} {r : List Table} (h : s.tables = t :: r) :
    runCM headTable s = (.ok t, s) := by
  unfold headTable
  rw [runCM_bind, runCM_get]
  simp only [h]
  rfl

theorem runCM_forkTable {s : CState} {t : Table} {r : List Table} (block : Bool) (h : s.tables = t :: r) :
    runCM (forkTable block) s = (.ok (), { s with tables :=
      { block := block, disableParams := t.disableParams, hasParentConstLit := t.hasConstLit || t.hasParentConstLit } :: s.tables }) := by
  unfold forkTable
  rw [runCM_bind, runCM_headTable h]
  rfl

theorem runCM_popTable {s : CState} {t : Table} {r : List Table} (h : s.tables = t :: r) :
    runCM popTable s = (.ok t, { s with tables := r }) := by
  unfold popTable
  rw [runCM_bind, runCM_headTable h]
  simp only
  rw [runCM_bind]
  unfold modTables
  rw [runCM_modify]
  simp [h, runCM_pure]

theorem limsOf_tables {s s' : CState} (hc : s'.constants = s.constants) (h1 : fmd s'.tables = fmd s.tables)
    (h2 : fnf s'.tables = fnf s.tables) : limsOf s' = limsOf s := by
  simp [limsOf, hc, h1, h2]

theorem good_withBlock {body : CM Unit} (hb : Good body) : Good (withBlock body) := by
  intro s hs
  obtain ⟨t, r, htr⟩ := head_of_inv hs
  unfold withBlock
  apply Sat.bind_of_run (runCM_forkTable true htr)
  generalize htn : ({ block := true, disableParams := t.disableParams, hasParentConstLit := t.hasConstLit || t.hasParentConstLit } : Table) = tn
  have hblk : tn.block = true := by subst htn; rfl
  generalize hs1 : ({ s with tables := tn :: s.tables } : CState) = s1
  have ht1 : s1.tables = tn :: s.tables := by subst hs1; rfl
  have hin1 : s1.insts = s.insts := by subst hs1; rfl
  have hl1 : s1.loops = s.loops := by subst hs1; rfl
  have hc1 : s1.constants = s.constants := by subst hs1; rfl
  have hb1 : s1.builtins = s.builtins := by subst hs1; rfl
  have hi1 : Inv s1 := by
    refine hs.of_tables (by rw [ht1]; simp) ?_ ?_ hin1 hl1 hc1 hb1
    · rw [ht1, hc1]; exact chain_fork hs.chain hs.ne tn (by subst htn; rfl) (by subst htn; rfl) (by subst htn; rfl)
    · rw [limsOf_tables hc1 (by rw [ht1]; exact fmd_cons_block hblk) (by rw [ht1]; exact fnf_cons_block hblk)]
      exact Lims.le_refl _
  apply Sat.bind
  apply Sat.mono (hb s1 hi1)
  intro _ s2 ⟨hi2, hr2, _⟩
  obtain ⟨t2, r2, htr2⟩ := head_of_inv hi2
  apply Sat.bind_of_run (runCM_popTable htr2)
  apply Sat.pure
  have hch : ChainLE (tn :: s.tables) (t2 :: r2) := by rw [← ht1, ← htr2]; exact hr2.chain
  have hblk2 : t2.block = true := by rw [hch.1]; exact hblk
  have hrne : r2 ≠ [] := ne_of_chainLE hch.tail hs.ne
  have hlims : (limsOf s).le (limsOf { s2 with tables := r2 }) := by
    have h1 := hr2.lims
    have e1 : limsOf s1 = limsOf s :=
      limsOf_tables hc1 (by rw [ht1]; exact fmd_cons_block hblk) (by rw [ht1]; exact fnf_cons_block hblk)
    have e2 : limsOf { s2 with tables := r2 } = limsOf s2 :=
      limsOf_tables rfl (by rw [htr2]; exact (fmd_cons_block hblk2).symm) (by rw [htr2]; exact (fnf_cons_block hblk2).symm)
    rw [e1] at h1; rw [e2]; exact h1
  have hchain2 : ChainOK s2.constants r2 := by have := hi2.chain; rw [htr2] at this; exact this.tail
  refine ⟨⟨hrne, hchain2, hi2.walk, hi2.loops, hi2.consts, ?_, hi2.bok, hi2.tryLt⟩,
    hr2.transfer hin1 hl1 rfl rfl hch.tail (by rw [← hc1]; exact hr2.cpre), trivial⟩
  have e2 : limsOf { s2 with tables := r2 } = limsOf s2 :=
    limsOf_tables rfl (by rw [htr2]; exact (fmd_cons_block hblk2).symm) (by rw [htr2]; exact (fnf_cons_block hblk2).symm)
  rw [e2]; exact hi2.targets

theorem good_blockOf {body : List Stmt} {act : CM Unit} (h : Good act) : Good (blockOf body act) := by
  unfold blockOf
  split
  · exact GoodP.pure trivial
  · exact good_withBlock h

theorem good_ite {α} {c : Prop} [Decidable c] {P : α → Prop} {a b : CM α} (ha : GoodP P a) (hb : GoodP P b) :
    GoodP P (if c then a else b) := by
  split
  · exact ha
  · exact hb


/-! ### loops -/

/-- a condition on the state that only looks at the tables and survives their growth -/
def StableT (A : CState → Prop) : Prop :=
  ∀ s s', A s → ChainLE s.tables s'.tables → A s'

theorem st_withLoop_bindA {β} {body : CM Unit} {f : Loop → CM β} {s0 s : CState} {ps ts : List Nat}
    {Q : β → CState → Prop} (A : CState → Prop) (hA : A s) (hstab : StableT A)
    (hb : ∀ s1, Inv s1 → A s1 → Sat body s1 (fun _ s' => Inv s' ∧ Rel s1 s' ∧ True)) (hst : St s0 ps ts s)
    (h : ∀ loop s', St s0 (loop.breaks ++ loop.continues ++ ps) ts s' → Sat (f loop) s' Q) :
    Sat (withLoop body >>= f) s Q := by
  apply Sat.bind
  unfold withLoop pushLoop
  apply Sat.bind
  apply Sat.modify
  generalize hs1 : ({ s with loops := { lastTryCatchIndex := s.tryCatchIndex } :: s.loops } : CState) = s1
  have hi1 : Inv s1 := by
    subst hs1
    refine ⟨hst.inv.ne, hst.inv.chain, hst.inv.walk, ?_, hst.inv.consts, hst.inv.targets, hst.inv.bok, hst.inv.tryLt⟩
    intro l hl p hp
    simp at hl
    rcases hl with hl | hl
    · subst hl; simp at hp
    · exact hst.inv.loops l hl p hp
  have hin1 : s1.insts = s.insts := by subst hs1; rfl
  have ht1 : s1.tables = s.tables := by subst hs1; rfl
  have hl1 : s1.loops = { lastTryCatchIndex := s.tryCatchIndex } :: s.loops := by subst hs1; rfl
  apply Sat.bind
  apply Sat.mono (hb s1 hi1 (hstab s s1 hA (by rw [ht1]; exact ChainLE.refl _)))
  intro _ s2 ⟨hi2, hr2, _⟩
  unfold popLoop
  apply Sat.bind
  apply Sat.get
  apply Sat.bind
  apply Sat.set
  apply Sat.pure
  -- the loop stack after the body: the loop object on top of the old stack
  obtain ⟨l2, hl2⟩ : ∃ l2, s2.loops = l2 :: s.loops := by
    have h1 := hr2.llen
    have h2 := hr2.ltail
    rw [hl1] at h1 h2
    cases h3 : s2.loops with
    | nil => rw [h3] at h1; simp at h1
    | cons a b => rw [h3] at h2; simp at h2; exact ⟨a, by rw [h2]⟩
  simp only [hl2, List.head?_cons, Option.getD_some, List.drop_succ_cons, List.drop_zero]
  apply h
  have hsz : s.insts.size ≤ s2.insts.size := by rw [← hin1]; exact hr2.pre.1
  have hpre : Pre s.insts s2.insts := by rw [← hin1]; exact hr2.pre
  refine ⟨⟨hi2.ne, hi2.chain, hi2.walk, ?_, hi2.consts, hi2.targets, hi2.bok, hi2.tryLt⟩, ?_, ?_, ?_⟩
  · intro l hl p hp
    exact hi2.loops l (by rw [hl2]; simp [hl]) p hp
  · have hc1 : s1.constants = s.constants := by subst hs1; rfl
    refine ⟨hst.rel.chain.trans (by rw [← ht1]; exact hr2.chain), hst.rel.pre.trans hpre, hst.rel.llen, hst.rel.ltail, ?_,
      hst.rel.cpre.trans (by rw [← hc1]; exact hr2.cpre)⟩
    intro l l' h1 h2 p
    have := hst.rel.lhead l l' h1 h2 p
    exact this
  · intro p hp
    simp only [List.mem_append] at hp
    have hh := hr2.lhead { lastTryCatchIndex := s.tryCatchIndex } l2 (by rw [hl1]; rfl) (by rw [hl2]; rfl) p
    have hs0 := hst.rel.pre.1
    rcases hp with (hp | hp) | hp
    · refine ⟨hi2.loops l2 (by rw [hl2]; simp) p (.inl hp), ?_⟩
      rcases hh.1 hp with h' | h'
      · simp at h'
      · rw [hin1] at h'; omega
    · refine ⟨hi2.loops l2 (by rw [hl2]; simp) p (.inr hp), ?_⟩
      rcases hh.2 hp with h' | h'
      · simp at h'
      · rw [hin1] at h'; omega
    · exact ⟨⟨(hst.pend p hp).1.1.pre hpre, (hst.pend p hp).1.2.pre hpre⟩, (hst.pend p hp).2⟩
  · intro t ht
    exact (hst.tgt t ht).pre hpre


theorem st_withLoop_bind {β} {body : CM Unit} {f : Loop → CM β} {s0 s : CState} {ps ts : List Nat}
    {Q : β → CState → Prop} (hb : Good body) (hst : St s0 ps ts s)
    (h : ∀ loop s', St s0 (loop.breaks ++ loop.continues ++ ps) ts s' → Sat (f loop) s' Q) :
    Sat (withLoop body >>= f) s Q :=
  st_withLoop_bindA (fun _ => True) trivial (fun _ _ _ _ => trivial) (fun s1 h1 _ => hb s1 h1) hst h

/-! ### a small tactic for compositional goals `Good (do …)` -/

/-- side goals `op < numOpcodes` -/
syntax "opc" : tactic
macro_rules | `(tactic| opc) => `(tactic| first | decide | (split <;> decide))

/-- side goals `StaticArgs op args` -/
syntax "opa1" : tactic
macro_rules | `(tactic| opa1) => `(tactic| first
  | exact ⟨fun h => absurd h (by decide), fun h => absurd h (by decide), by decide⟩
  | exact ⟨fun _ => rfl, fun h => absurd h (by decide), by decide⟩
  | exact ⟨fun h => absurd h (by decide), fun _ => rfl, by decide⟩)
syntax "opa" : tactic
macro_rules | `(tactic| opa) => `(tactic| first | opa1 | (split <;> opa1))

syntax "good_leaf" : tactic
macro_rules | `(tactic| good_leaf) => `(tactic| first
  | with_reducible assumption
  | with_reducible exact GoodP.pure trivial
  | with_reducible exact GoodP.cerr | with_reducible exact GoodP.throw_err
  | with_reducible exact GoodP.throw_bare | with_reducible exact GoodP.cunsupported
  | ((with_reducible refine good_emit_ ?_ ?_) <;> first | opc | opa)
  | ((with_reducible refine good_emit ?_ ?_) <;> first | opc | opa)
  | with_reducible exact good_addConstant _
  | with_reducible exact good_get | with_reducible exact good_curPos
  | with_reducible exact good_currentLoop | with_reducible exact good_headTable
  | with_reducible exact good_resolve _
  | (with_reducible apply good_withBlock) | (with_reducible apply good_blockOf))

syntax "good_bind" : tactic
macro_rules | `(tactic| good_bind) => `(tactic| (refine GoodP.bind (P := fun _ => True) ?_ (fun _ _ => ?_)))

syntax "good" : tactic
macro_rules | `(tactic| good) => `(tactic| repeat' (first | good_leaf | good_bind | split))


/-! ### index operands -/

theorem opnd_free {L : Lims} {op n : Nat} (hop : isFreeOp op = true) (h : n < L.nf) : Opnd1OK L op n := by
  have hcases : op = OpGetFree ∨ op = OpSetFree ∨ op = OpGetFreePtr := by
    simpa [isFreeOp, or_assoc] using hop
  refine ⟨fun _ => h, ?_, ?_, ?_, ?_⟩
  all_goals (intro c; rcases hcases with rfl | rfl | rfl <;> first | cases c | (revert c; decide))

theorem opnd_builtin {L : Lims} {n : Nat} (h : n < NB) : Opnd1OK L OpGetBuiltin n := by
  refine ⟨?_, fun _ => h, ?_, ?_, ?_⟩
  all_goals (intro c; first | cases c | (revert c; decide))

theorem opnd_global {L : Lims} {op n : Nat} (hop : isGlobalOp op = true) (h : ∃ b, L.cs[n]? = some (.val (.str b))) :
    Opnd1OK L op n := by
  have hcases : op = OpGetGlobal ∨ op = OpSetGlobal := by simpa [isGlobalOp] using hop
  refine ⟨?_, ?_, fun _ => h, ?_, ?_⟩
  all_goals (intro c; rcases hcases with rfl | rfl <;> first | cases c | (revert c; decide))

theorem sat_emit_free {pos : Pos} {op : Nat} {y : Symbol} {s : CState} (hs : Inv s) (hop : isFreeOp op = true)
    (hy : SymOKx s.constants (fmd s.tables) (fnf s.tables) y) (hsc : y.scope = .free) :
    Sat (emit_ pos op [y.index]) s (fun _ s' => Inv s' ∧ Rel s s' ∧ True) := by
  have hcases : op = OpGetFree ∨ op = OpSetFree ∨ op = OpGetFreePtr := by simpa [isFreeOp, or_assoc] using hop
  obtain ⟨n, hn, hlt⟩ := hy.2.2.1 hsc
  refine sat_emit_idx hs ?_ ?_ ?_ ?_ ?_
  · rcases hcases with rfl | rfl | rfl <;> decide
  · rcases hcases with rfl | rfl | rfl <;> rfl
  · rcases hcases with rfl | rfl | rfl <;> decide
  · rcases hcases with rfl | rfl | rfl <;> decide
  · intro m hm
    have : m = n := by rw [hn] at hm; exact_mod_cast hm.symm
    subst this
    exact opnd_free hop hlt

theorem sat_emit_global {pos : Pos} {op : Nat} {y : Symbol} {s : CState} (hs : Inv s) (hop : isGlobalOp op = true)
    (hy : SymOKx s.constants (fmd s.tables) (fnf s.tables) y) (hsc : y.scope = .global) :
    Sat (emit_ pos op [y.index]) s (fun _ s' => Inv s' ∧ Rel s s' ∧ True) := by
  have hcases : op = OpGetGlobal ∨ op = OpSetGlobal := by simpa [isGlobalOp] using hop
  refine sat_emit_idx hs ?_ ?_ ?_ ?_ ?_
  · rcases hcases with rfl | rfl <;> decide
  · rcases hcases with rfl | rfl <;> rfl
  · rcases hcases with rfl | rfl <;> decide
  · rcases hcases with rfl | rfl <;> decide
  · intro m hm
    rcases hy.2.2.2.2 hsc with h | ⟨n, b, hn, hb⟩
    · rw [h] at hm; omega
    · have : m = n := by rw [hn] at hm; exact_mod_cast hm.symm
      subst this
      exact opnd_global hop ⟨b, hb⟩

theorem sat_emit_builtin {pos : Pos} {i : Int} {s : CState} (hs : Inv s) (hi : ∃ n : Nat, i = (n : Int) ∧ n < NB) :
    Sat (emit_ pos OpGetBuiltin [i]) s (fun _ s' => Inv s' ∧ Rel s s' ∧ True) := by
  obtain ⟨n, hn, hlt⟩ := hi
  refine sat_emit_idx hs (by decide) rfl (by decide) (by decide) ?_
  intro m hm
  have : m = n := by rw [hn] at hm; exact_mod_cast hm.symm
  subst this
  exact opnd_builtin hlt


/-! ### constants -/

/-- the free-variable operands of a stream that is fine for `nf` free variables -/
theorem freeBound_of_targets {L : Lims} {a : Array UInt8} (h : TargetsOK L a) : FreeBound L.nf a := by
  intro p op hbd hop hf
  have hcases : op.toNat = OpGetFree ∨ op.toNat = OpSetFree ∨ op.toNat = OpGetFreePtr := by
    simpa [isFreeOp, or_assoc] using hf
  have hw : operandWidths op.toNat = [1] := by rcases hcases with h | h | h <;> rw [h] <;> rfl
  exact ((h p op hbd hop).2.2.1 1 [] hw).1 hf

theorem good_emitConstant (pos : Pos) (v : CVal) : Good (emitConstant pos v) := by
  intro s hs
  unfold emitConstant
  apply Sat.bind
  apply sat_addConstant hs
  intro i s1 hi1 hr1 _ _ ⟨v', hv', _⟩
  apply Sat.mono (sat_emit_idx hi1 (by decide) rfl (by decide) (by decide) ?_)
  · intro _ s2 ⟨hi2, hr2, _⟩
    exact ⟨hi2, hr1.trans hr2, trivial⟩
  · intro n hn
    have hn' : n = i := by exact_mod_cast hn.symm
    subst hn'
    have hlt : n < s1.constants.size := by
      rcases Nat.lt_or_ge n s1.constants.size with h | h
      · exact h
      · simp [Array.getElem?_eq_none h] at hv'
    refine ⟨?_, ?_, ?_, fun _ => hlt, ?_⟩
    · intro c; exact absurd c (by decide)
    · intro c; exact absurd c (by decide)
    · intro c; exact absurd c (by decide)
    · intro _ f hf
      simp only [limsOf] at hf
      rw [hv'] at hf; cases hf

macro_rules | `(tactic| good_leaf) => `(tactic| with_reducible exact good_emitConstant _ _)

/-- `emitFnConstant` for a finished function with `nfree` free variables -/
theorem sat_emitFnConstant {pos : Pos} {fn : CFn} {nfree : Nat} {s : CState} (hs : Inv s)
    (hl : fn.numLocals ≤ 256) (hf : FinFn s.constants nfree fn) :
    Sat (emitFnConstant pos fn nfree) s (fun _ s' => Inv s' ∧ Rel s s' ∧ True) := by
  unfold emitFnConstant
  apply Sat.bind
  apply sat_addFnConstant hs (fun cs' hc => ⟨hl, nfree, hf.mono hc⟩)
  intro i s1 hi1 hr1 _ _ ⟨g, hg, hge⟩
  have hfb : FreeBound nfree g.insts := by rw [hge]; exact freeBound_of_targets hf.1.1.2
  have hlt : i < s1.constants.size := by
    rcases Nat.lt_or_ge i s1.constants.size with h | h
    · exact h
    · simp [Array.getElem?_eq_none h] at hg
  have hop1 : ∀ (op : Nat), isConstOp op = true → (op = OpConstant → nfree = 0) → ∀ n : Nat, (i : Int) = (n : Int) →
      Opnd1OK (limsOf s1) op n := by
    intro op hc hz n hn
    have hn' : n = i := by exact_mod_cast hn.symm
    subst hn'
    have hcases := isConstOp_cases hc
    refine ⟨?_, ?_, ?_, fun _ => hlt, ?_⟩
    · intro c; rcases hcases with rfl | rfl <;> exact absurd c (by decide)
    · intro c; rcases hcases with rfl | rfl <;> exact absurd c (by decide)
    · intro c; rcases hcases with rfl | rfl <;> exact absurd c (by decide)
    · intro c f hf'
      simp only [limsOf] at hf'
      rw [hg] at hf'
      injection hf' with hf'
      injection hf' with hf'
      subst hf'
      rw [← hz c]; exact hfb
  split
  · -- CLOSURE idx nfree
    unfold emit_
    apply Sat.bind
    apply sat_emit hi1 (by decide)
    · refine ⟨fun c => absurd c (by decide), fun c => absurd c (by decide), ?_, ?_⟩
      · intro n rest hn
        injection hn with hn _
        exact hop1 OpClosure (by decide) (fun c => absurd c (by decide)) n hn
      · intro _ i' n' hargs
        injection hargs with h1 h2
        injection h2 with h2 _
        have e1 : i' = i := by exact_mod_cast h1.symm
        have e2 : n' = nfree := by exact_mod_cast h2.symm
        subst e1 e2
        exact ⟨g, hg, hfb⟩
    · intro s2 hi2 hr2 _ _ _ _ _
      exact Sat.pure ⟨hi2, hr1.trans hr2, trivial⟩
  · rename_i hz
    have hz' : nfree = 0 := by omega
    apply Sat.mono (sat_emit_idx hi1 (by decide) rfl (by decide) (by decide)
      (fun n hn => hop1 OpConstant (by decide) (fun _ => hz') n hn))
    intro _ s2 ⟨hi2, hr2, _⟩
    exact ⟨hi2, hr1.trans hr2, trivial⟩


/-! ### symbol-table operations -/

theorem good_findSymbolSelf (name : String) : Good (findSymbolSelf name) := by
  unfold findSymbolSelf; good

theorem good_hasAnyConstLit : Good hasAnyConstLit := by
  unfold hasAnyConstLit; good

theorem lookupSym_putSym_self (n : String) (y : Symbol) : ∀ st : List (String × Symbol), lookupSym n (putSym n y st) = some y
  | [] => by simp [putSym, lookupSym]
  | (k, v) :: r => by
    simp only [putSym]
    split
    · simp [lookupSym]
    · rename_i h
      simp only [lookupSym, h]
      exact lookupSym_putSym_self n y r

theorem updateMaxDefs_head (n : Nat) (t : Table) (r : List Table) :
    ∃ t' r', updateMaxDefs n (t :: r) = t' :: r' ∧ t'.store = t.store ∧ t'.numDefinition = t.numDefinition ∧
      t'.numParams = t.numParams ∧ n ≤ t'.maxDefinition ∧ t.maxDefinition ≤ t'.maxDefinition := by
  simp only [updateMaxDefs]
  split
  · refine ⟨_, _, rfl, ?_⟩; split <;> simp <;> omega
  · refine ⟨_, _, rfl, ?_⟩; split <;> simp <;> omega

theorem nextIndex_ge (t : Table) (r : List Table) : t.numDefinition ≤ nextIndex (t :: r) := by
  simp only [nextIndex]; split <;> omega

theorem runCM_modTables (g : List Table → List Table) (s : CState) :
    runCM (modTables g) s = (.ok (), { s with tables := g s.tables }) := rfl

theorem runCM_modHead (f : Table → Table) {s : CState} {t : Table} {r : List Table} (h : s.tables = t :: r) :
    runCM (modHead f) s = (.ok (), { s with tables := f t :: r }) := by
  unfold modHead
  rw [runCM_modTables, h]


/-- the state after `DefineLocal` / `SetParams` created a new local symbol `name` in the head table -/
theorem defineNew_state {name : String} {s : CState} {t : Table} {r : List Table} (hs : Inv s) (htr : s.tables = t :: r)
    (s2 : CState) (hs2 : s2 = { s with tables := updateMaxDefs (nextIndex s.tables + 1) (shadowBuiltin s.builtins name { t with numDefinition := t.numDefinition + 1, store := putSym name { name := name, index := (nextIndex s.tables : Int), scope := Scope.local_ } t.store } :: r) }) :
    Inv s2 ∧ Rel s s2 ∧ ∃ t' r', s2.tables = t' :: r' ∧
      lookupSym name t'.store = some { name := name, index := (nextIndex s.tables : Int), scope := Scope.local_ } ∧
      t'.numDefinition = t.numDefinition + 1 ∧ t.numDefinition + 1 ≤ t'.maxDefinition ∧ t'.numParams = t.numParams ∧
      nextIndex s.tables < fmd s2.tables := by
  subst hs2
  generalize hsym : ({ name := name, index := (nextIndex s.tables : Int), scope := Scope.local_ } : Symbol) = sym
  generalize ht1 : shadowBuiltin s.builtins name { t with numDefinition := t.numDefinition + 1, store := putSym name sym t.store } = t1
  have hst1 : t1.store = putSym name sym t.store := by subst ht1; simp
  have hnd1 : t1.numDefinition = t.numDefinition + 1 := by subst ht1; simp
  have hnp1 : t1.numParams = t.numParams := by subst ht1; simp
  have hmd1 : t1.maxDefinition = t.maxDefinition := by subst ht1; simp
  have hb1 : t1.block = t.block := by subst ht1; simp
  have hf1 : t1.frees = t.frees := by subst ht1; simp
  have hch : ChainOK s.constants (t :: r) := by rw [← htr]; exact hs.chain
  obtain ⟨c1, c2⟩ := chain_define (name := name) (sym := sym) (idx := nextIndex s.tables) hch hb1 hmd1 hf1 hnp1 hst1
    (by subst hsym; rfl) (by subst hsym; rfl)
  obtain ⟨t', r', hu, hst', hnd', hnp', hge, hmd'⟩ := updateMaxDefs_head (nextIndex s.tables + 1) t1 r
  have hni := nextIndex_ge t r
  rw [← htr] at hni c2
  -- the new index is a slot of the function
  have hfm : nextIndex s.tables < fmd (updateMaxDefs (nextIndex s.tables + 1) (t1 :: r)) := by
    have c1' := c1
    rw [hu] at c1' ⊢
    have hy := lookupSym_okx c1'.1 (n := name) (y := sym) (by rw [hst', hst1]; exact lookupSym_putSym_self name sym t.store)
    obtain ⟨n, hn, hlt⟩ := hy.2.1 (by subst hsym; rfl)
    have : n = nextIndex s.tables := by subst hsym; simp at hn; exact_mod_cast hn.symm
    rw [← this]; exact hlt
  refine ⟨hs.of_tables (by simp [hu]) c1 (limsOf_le_of_chain c2 rfl) rfl rfl, Rel.of_same c2 rfl rfl,
    t', r', hu, by rw [hst', hst1]; exact lookupSym_putSym_self _ _ _, by rw [hnd', hnd1], by omega, by rw [hnp', hnp1], hfm⟩

/-- `DefineLocal`: the symbol returned is stored under `name` in the head table and is in range -/
theorem sat_defineLocal {name : String} {s : CState} {Q : Symbol × Bool → CState → Prop} (hs : Inv s)
    (h : ∀ sym ex s', Inv s' → Rel s s' → s'.insts = s.insts →
      (∃ t r, s'.tables = t :: r ∧ lookupSym name t.store = some sym) →
      SymOKx s'.constants (fmd s'.tables) (fnf s'.tables) sym → sym.scope ≠ .builtin → Q (sym, ex) s') :
    Sat (defineLocal name) s Q := by
  obtain ⟨t, r, htr⟩ := head_of_inv hs
  unfold defineLocal
  apply Sat.bind
  apply Sat.get
  apply Sat.bind_of_run (runCM_headTable htr)
  split
  · rename_i sym hd
    have hl : lookupSym name t.store = some sym ∧ sym.scope ≠ .builtin := by
      unfold definedSym at hd
      split at hd
      · split at hd
        · cases hd
        · rename_i hnb
          injection hd with hd; subst hd
          exact ⟨by assumption, by simpa using hnb⟩
      · cases hd
    apply Sat.pure
    have hch := hs.chain
    rw [htr] at hch
    exact h sym true s hs (Rel.refl s) rfl ⟨t, r, htr, hl.1⟩ (by rw [htr]; exact lookupSym_okx hch.1 hl.1) hl.2
  · rename_i hl
    apply Sat.bind_of_run (runCM_modHead _ htr)
    apply Sat.bind_of_run (runCM_modTables _ _)
    apply Sat.pure
    obtain ⟨hi2, hr2, t', r', hu, hlk, _, _, _, hfm⟩ := defineNew_state (name := name) hs htr _ rfl
    exact h _ false _ hi2 hr2 rfl ⟨t', r', hu, hlk⟩ (symOKx_local rfl rfl hfm) (by simp)

theorem good_defineLocal (name : String) : Good (defineLocal name) :=
  fun _ hs => sat_defineLocal hs fun _ _ _ h1 h2 _ _ _ _ => ⟨h1, h2, trivial⟩

macro_rules | `(tactic| good_leaf) => `(tactic| with_reducible exact good_defineLocal _)

/-- the loop of `SetParams`: `k` parameters are defined so far -/
theorem sat_setParamsLoop (pos : Pos) : ∀ (ps : List String) (k : Nat) (s : CState), Inv s →
    (∃ t r, s.tables = t :: r ∧ k ≤ t.numDefinition ∧ k ≤ t.maxDefinition) →
    Sat (setParamsLoop pos ps k) s (fun _ s' => Inv s' ∧ Rel s s' ∧
      ∃ t r, s'.tables = t :: r ∧ k + ps.length ≤ t.maxDefinition)
  | [], k, s, hs, ⟨t, r, htr, _, hk⟩ => by
    unfold setParamsLoop
    exact Sat.pure ⟨hs, Rel.refl s, t, r, htr, by simpa using hk⟩
  | p :: rest, k, s, hs, ⟨t, r, htr, hk1, hk2⟩ => by
    unfold setParamsLoop
    apply Sat.bind
    apply Sat.get
    apply Sat.bind_of_run (runCM_headTable htr)
    split
    · apply Sat.bind_of_run (runCM_modHead _ htr)
      exact Sat.cerr
    · apply Sat.bind_of_run (runCM_modHead _ htr)
      apply Sat.bind_of_run (runCM_modTables _ _)
      obtain ⟨hi2, hr2, t', r', hu, _, hnd, hmd, _, _⟩ := defineNew_state (name := p) hs htr _ rfl
      apply Sat.mono (sat_setParamsLoop pos rest (k + 1) _ hi2 ⟨t', r', hu, by omega, by omega⟩)
      intro _ s3 ⟨hi3, hr3, t3, r3, h3, hle⟩
      exact ⟨hi3, hr2.trans hr3, t3, r3, h3, by simp only [List.length_cons]; omega⟩

theorem chain_setNumParams {cs : Array Const} {t : Table} {r : List Table} (h : ChainOK cs (t :: r)) (n : Nat)
    (hn : n ≤ t.maxDefinition) : ChainOK cs ({ t with numParams := n } :: r) := by
  obtain ⟨h1, _, h3, h4, h5⟩ := h
  exact ⟨h1, hn, h3, h4, h5⟩

theorem good_setParams (pos : Pos) (ps : List String) : Good (setParams pos ps) := by
  intro s hs
  obtain ⟨t, r, htr⟩ := head_of_inv hs
  unfold setParams
  split
  · exact Sat.pure ⟨hs, Rel.refl s, trivial⟩
  · apply Sat.bind_of_run (runCM_headTable htr)
    split
    · exact Sat.cerr
    · split
      · exact Sat.cerr
      · apply Sat.bind
        apply Sat.mono (sat_setParamsLoop pos ps 0 s hs ⟨t, r, htr, Nat.zero_le _, Nat.zero_le _⟩)
        intro _ s1 ⟨hi1, hr1, t1, r1, h1, hle⟩
        apply Sat.of_run (runCM_modHead _ h1)
        have hch : ChainOK s1.constants (t1 :: r1) := by rw [← h1]; exact hi1.chain
        have hle2 : ChainLE s1.tables ({ t1 with numParams := ps.length } :: r1) := by
          rw [h1]; exact chainLE_replaceHead rfl rfl rfl
        exact ⟨hi1.of_tables (by simp) (chain_setNumParams hch _ (by simpa using hle)) (limsOf_le_of_chain hle2 rfl) rfl rfl,
          hr1.trans (Rel.of_same hle2 rfl rfl), trivial⟩

macro_rules | `(tactic| good_leaf) => `(tactic| with_reducible exact good_setParams _ _)

theorem good_defineConstLitSym (name : String) {v : Option CVal} (hv : v.isSome = true) :
    Good (defineConstLitSym name v) := by
  unfold defineConstLitSym
  good
  exact good_modHead fun cs nl nf t ht => by
    simpa using putSym_okx (y := { name := name, index := -1, scope := .constLit, constant := true, constLit := v })
      (symOKx_constLit rfl rfl hv) ht

theorem goodP_get_inv : GoodP (fun st => Inv st) (get : CM CState) := fun s hs => Sat.get ⟨hs, Rel.refl s, hs⟩

theorem good_defineConstLit (name : String) (v : VSum) : Good (defineConstLit name v) := by
  unfold defineConstLit
  split
  · good
  · split
    · have := good_defineConstLitSym name (v := some ‹CVal›) rfl
      good
    · split
      · refine GoodP.bind (good_findSymbolSelf _) fun r _ => ?_
        split
        · refine GoodP.bind good_get fun st _ => ?_
          have := good_defineConstLitSym name (v := some (.int (BitVec.ofInt 64 st.iotaVal))) rfl
          good
        · good
      · split
        · refine GoodP.bind good_hasAnyConstLit fun b _ => ?_
          split
          · refine GoodP.bind goodP_get_inv fun st hst => ?_
            split
            · rename_i s1 hf
              split
              · rename_i hsc
                have hok := findByNameAll_ok hst.chain hf (by simpa using hsc)
                have := good_defineConstLitSym name (v := s1.constLit) hok.2
                good
              · good
            · good
          · good
        · good
    · good

/-! ### identifiers -/

theorem good_compileDefine (pos : Pos) (ident : String) (allow : Bool) (keyword : Nat) :
    Good (compileDefine pos ident allow keyword) := by
  intro s hs
  unfold compileDefine
  apply Sat.bind
  apply sat_defineLocal hs
  intro sym ex s1 hi1 hr1 _ ⟨t, r, htr, hl⟩ hok _
  simp only
  split
  · exact Sat.cerr
  · split
    · exact Sat.cerr
    · split
      · exact Sat.cerr
      · rename_i hc
        apply Sat.bind
        apply Sat.get
        split
        · exact Sat.cerr
        · apply Sat.bind
          unfold emit_
          apply Sat.bind
          apply sat_emit hi1 (by decide) (StaticArgs.argsOK (by opa) _ _)
          intro s2 hi2 hr2 _ ht2 _ _ _
          apply Sat.pure
          -- the symbol under `ident` in the head table is still `sym`, which is not a CONSTLIT symbol
          unfold updateSym
          apply Sat.of_run (runCM_modHead _ (ht2.trans htr))
          simp only [hl]
          have hnc : sym.scope ≠ .constLit := fun h => hc (hok.1 h).1
          have hch : ChainOK s2.constants (t :: r) := by rw [← htr, ← ht2]; exact hi2.chain
          have hy0 := lookupSym_okx hch.1 hl
          have hy : SymOKx s2.constants (fmd (t :: r)) (fnf (t :: r))
              { sym with constant := keyword == tConst && ident != "_" } := ⟨fun h => absurd h hnc, hy0.2⟩
          have hch2 := chain_putHead (t2 := { t with store := putSym ident { sym with constant := keyword == tConst && ident != "_" } t.store })
            hch rfl rfl rfl rfl rfl hy
          have hle : ChainLE s2.tables ({ t with store := putSym ident { sym with constant := keyword == tConst && ident != "_" } t.store } :: r) := by
            rw [ht2, htr]; exact chainLE_replaceHead rfl rfl rfl
          exact ⟨hi2.of_tables (by simp) hch2 (limsOf_le_of_chain hle rfl) rfl rfl,
            hr1.trans (hr2.trans (Rel.of_same hle rfl rfl)), trivial⟩

/-- `compileAssign(node, symbol, ident)` for a symbol that is in range in the current state -/
theorem sat_compileAssignSym {pos : Pos} {sym : Symbol} {ident : String} {s : CState} (hs : Inv s)
    (hy : SymOKx s.constants (fmd s.tables) (fnf s.tables) sym) :
    Sat (compileAssignSym pos sym ident) s (fun _ s' => Inv s' ∧ Rel s s' ∧ True) := by
  unfold compileAssignSym
  split
  · exact Sat.cerr
  · split
    · exact good_emit_ (by decide) (by opa) s hs
    · exact sat_emit_free hs rfl hy ‹_›
    · exact sat_emit_global hs rfl hy ‹_›
    · exact Sat.cerr

theorem good_emitConstLit (pos : Pos) (v : CVal) : Good (emitConstLit pos v) := by
  unfold emitConstLit; good

theorem good_compileIdent (pos : Pos) (name : String) : Good (compileIdent pos name) := by
  intro s hs
  unfold compileIdent
  apply Sat.bind
  apply sat_resolve hs
  intro r s1 hi1 hr1 _ _ hr
  have hmono : ∀ {m : CM Unit}, Sat m s1 (fun _ s' => Inv s' ∧ Rel s1 s' ∧ True) →
      Sat m s1 (fun _ s' => Inv s' ∧ Rel s s' ∧ True) :=
    fun h => Sat.mono h fun _ _ ⟨a, b, _⟩ => ⟨a, hr1.trans b, trivial⟩
  split
  · apply hmono
    have : Good (do
        let s ← get
        if (s.iotaVal < 0 || name != "iota") = true then cerr pos s!"unresolved reference \"{name}\""
        else emitConstant pos (.int (BitVec.ofInt 64 s.iotaVal)) : CM Unit) := by good
    exact this s1 hi1
  · rename_i sym
    have hok := hr sym rfl
    apply hmono
    split
    · exact sat_emit_global hi1 rfl hok ‹_›
    · exact good_emit_ (by decide) (by opa) s1 hi1
    · rename_i hsc
      exact sat_emit_builtin hi1 (hok.2.2.2.1 hsc)
    · exact sat_emit_free hi1 rfl hok ‹_›
    · rename_i hsc
      obtain ⟨h1, h2⟩ := hok.1 hsc
      rw [if_pos h1]
      cases hv : sym.constLit with
      | none => rw [hv] at h2; simp at h2
      | some v => exact good_emitConstLit pos v s1 hi1

theorem good_compileValueIdent (pos : Pos) (tok : Nat) (name : String) {act : CM Unit} (ha : Good act) (sum : VSum) :
    Good (compileValueIdent pos tok name act sum) := by
  have := good_defineConstLit name sum
  have := good_compileDefine pos name false tok
  unfold compileValueIdent
  good

theorem good_compileIdentsNoValue (pos : Pos) (tok : Nat) {last : Option (CM Unit × VSum)}
    (hl : ∀ x, last = some x → Good x.1) : ∀ ids : List (Pos × String), Good (compileIdentsNoValue pos tok last ids)
  | [] => by unfold compileIdentsNoValue; good
  | (ipos, name) :: rest => by
    have := good_compileIdentsNoValue pos tok hl rest
    unfold compileIdentsNoValue
    split
    · rename_i act sum h
      refine GoodP.bind (P := fun _ => True) ?_ (fun _ _ => this)
      refine good_compileValueIdent pos tok name (hl (act, sum) ?_) sum
      split at h
      · exact h
      · cases h
    · refine GoodP.bind (P := fun _ => True) ?_ (fun _ _ => this)
      exact good_compileValueIdent pos tok name (good_emit_ (by decide) (by opa)) _

theorem good_declParamVariadic (pos : Pos) : ∀ l : List (Pos × String × Bool), Good (declParamVariadic pos l)
  | [] => by unfold declParamVariadic; good
  | (_, _, va) :: rest => by
    have := good_declParamVariadic pos rest
    have : Good (modify (fun s : CState => { s with variadic := true }) : CM Unit) :=
      good_modify_misc (fun _ => rfl) (fun _ => rfl) (fun _ => rfl)
    unfold declParamVariadic
    good

theorem good_defineCatchIdent (pos : Pos) (name : String) : Good (defineCatchIdent pos name) := by
  have := good_defineLocal name
  unfold defineCatchIdent; good

theorem good_forinVar (pos : Pos) (it : Int) {op : Nat} (hop : op < numOpcodes) (ha : StaticArgs op []) (name : String) :
    Good (forinVar pos it op name) := by
  have := good_defineLocal name
  have : Good (emit_ pos op) := good_emit_ hop ha
  unfold forinVar; good

/-! ### globals, free-variable pointers -/

/-- `updateSym` when the symbol under `name` in the head table is known -/
theorem sat_updateSym {name : String} {f : Symbol → Symbol} {s : CState} {t : Table} {r : List Table} {sym : Symbol}
    (hs : Inv s) (htr : s.tables = t :: r) (hl : lookupSym name t.store = some sym)
    (hy : SymOKx s.constants (fmd s.tables) (fnf s.tables) (f sym)) :
    Sat (updateSym name f) s (fun _ s' => Inv s' ∧ Rel s s' ∧ True) := by
  unfold updateSym
  apply Sat.of_run (runCM_modHead _ htr)
  simp only [hl]
  have hch : ChainOK s.constants (t :: r) := by rw [← htr]; exact hs.chain
  rw [htr] at hy
  have hch2 := chain_putHead (t2 := { t with store := putSym name (f sym) t.store }) hch rfl rfl rfl rfl rfl hy
  have hle : ChainLE s.tables ({ t with store := putSym name (f sym) t.store } :: r) := by
    rw [htr]; exact chainLE_replaceHead rfl rfl rfl
  exact ⟨hs.of_tables (by simp) hch2 (limsOf_le_of_chain hle rfl) rfl rfl, Rel.of_same hle rfl rfl, trivial⟩

theorem keyEq_str {v : CVal} {b : Bytes} (h : keyEq v (.str b) = true) : ∃ b', v = .str b' := by
  cases v <;> first | exact ⟨_, rfl⟩ | exact Bool.noConfusion h

/-- the constant index of a global: `addConstant` of the name, stored into the (global) symbol -/
theorem sat_globalIndex {name : String} {s : CState} {t : Table} {r : List Table} {sym : Symbol} {m : CM Unit}
    (hs : Inv s) (htr : s.tables = t :: r) (hl : lookupSym name t.store = some sym) (hsc : sym.scope = .global)
    (hm : Good m) :
    Sat (addConstant (.str name.toUTF8.toList) >>= fun idx =>
      (updateSym name fun y => { y with index := idx }) >>= fun _ => m) s (fun _ s' => Inv s' ∧ Rel s s' ∧ True) := by
  apply Sat.bind
  apply sat_addConstant hs
  intro i s1 hi1 hr1 _ ht1 ⟨v, hv, hk⟩
  obtain ⟨b, hb⟩ : ∃ b, v = .str b := by
    rcases hk with hk | hk
    · exact ⟨_, hk⟩
    · exact keyEq_str hk
  subst hb
  apply Sat.bind
  have hy : SymOKx s1.constants (fmd s1.tables) (fnf s1.tables) { sym with index := (i : Int) } :=
    symOKx_global hsc (.inr ⟨i, b, rfl, hv⟩)
  apply Sat.mono (sat_updateSym (f := fun y => { y with index := (i : Int) }) hi1 (ht1.trans htr) hl hy)
  intro _ s2 ⟨hi2, hr2, _⟩
  apply Sat.mono (hm s2 hi2)
  intro _ s3 ⟨hi3, hr3, _⟩
  exact ⟨hi3, hr1.trans (hr2.trans hr3), trivial⟩

theorem good_declGlobals (pos : Pos) : ∀ l : List (Pos × String × Bool), Good (declGlobals pos l)
  | [] => by unfold declGlobals; good
  | (_, name, _) :: rest => by
    have ih := good_declGlobals pos rest
    intro s hs
    obtain ⟨t, r, htr⟩ := head_of_inv hs
    unfold declGlobals
    apply Sat.bind
    apply Sat.get
    apply Sat.bind_of_run (runCM_headTable htr)
    split
    · rename_i sym hl
      split
      · exact Sat.cerr
      · rename_i hsc
        exact sat_globalIndex hs htr hl (by simpa using hsc) ih
    · apply Sat.bind_of_run (runCM_modHead _ htr)
      generalize hgs : ({ name := name, index := -1, scope := Scope.global } : Symbol) = gs
      generalize ht1 : shadowBuiltin s.builtins name { t with store := putSym name gs t.store } = t1
      have hch : ChainOK s.constants (t :: r) := by rw [← htr]; exact hs.chain
      have hch1 : ChainOK s.constants (t1 :: r) :=
        chain_putHead (n := name) (y := gs) hch (by subst ht1; simp) (by subst ht1; simp) (by subst ht1; simp)
          (by subst ht1; simp) (by subst ht1; simp) (symOKx_global (by subst hgs; rfl) (.inl (by subst hgs; rfl)))
      have hle : ChainLE s.tables (t1 :: r) := by
        rw [htr]; exact chainLE_replaceHead (by subst ht1; simp) (by subst ht1; simp) (by subst ht1; simp)
      have hi1 : Inv { s with tables := t1 :: r } := hs.of_tables (by simp) hch1 (limsOf_le_of_chain hle rfl) rfl rfl
      apply Sat.mono (sat_globalIndex (sym := gs) hi1 rfl (by subst ht1; simp; exact lookupSym_putSym_self _ _ _)
        (by subst hgs; rfl) ih)
      intro _ s2 ⟨hi2, hr2, _⟩
      exact ⟨hi2, (Rel.of_same (s' := { s with tables := t1 :: r }) hle rfl rfl).trans hr2, trivial⟩

/-- `emit_` of a free-variable instruction whose index is in range -/
theorem sat_emit_freeIdx {pos : Pos} {op : Nat} {i : Int} {s : CState} (hs : Inv s) (hop : isFreeOp op = true)
    (hi : ∃ n : Nat, i = (n : Int) ∧ n < fnf s.tables) :
    Sat (emit_ pos op [i]) s (fun _ s' => Inv s' ∧ Rel s s' ∧ True) := by
  have hcases : op = OpGetFree ∨ op = OpSetFree ∨ op = OpGetFreePtr := by simpa [isFreeOp, or_assoc] using hop
  obtain ⟨n, hn, hlt⟩ := hi
  refine sat_emit_idx hs ?_ ?_ ?_ ?_ ?_
  · rcases hcases with rfl | rfl | rfl <;> decide
  · rcases hcases with rfl | rfl | rfl <;> rfl
  · rcases hcases with rfl | rfl | rfl <;> decide
  · rcases hcases with rfl | rfl | rfl <;> decide
  · intro m hm
    have : m = n := by rw [hn] at hm; exact_mod_cast hm.symm
    subst this
    exact opnd_free hop hlt

/-- the GETLOCALPTR / GETFREEPTR instructions for the originals of a closure's free variables -/
theorem sat_emitFreePtrs (pos : Pos) : ∀ (l : List Symbol) (s : CState), Inv s →
    (∀ y ∈ l, OrigOK (fmd s.tables) (fnf s.tables) y) →
    Sat (emitFreePtrs pos l) s (fun _ s' => Inv s' ∧ Rel s s' ∧ True)
  | [], s, hs, _ => by unfold emitFreePtrs; exact Sat.pure ⟨hs, Rel.refl s, trivial⟩
  | y :: r, s, hs, hl => by
    unfold emitFreePtrs
    have hrest : ∀ s1, Inv s1 → Rel s s1 → Sat (emitFreePtrs pos r) s1 (fun _ s' => Inv s' ∧ Rel s s' ∧ True) := by
      intro s1 hi1 hr1
      apply Sat.mono (sat_emitFreePtrs pos r s1 hi1 fun z hz =>
        (hl z (by simp [hz])).mono hr1.chain.fmd hr1.chain.fnf)
      intro _ s2 ⟨hi2, hr2, _⟩
      exact ⟨hi2, hr1.trans hr2, trivial⟩
    apply Sat.bind
    split
    · apply Sat.mono (good_emit_ (by decide) (by opa) s hs)
      intro _ s1 ⟨hi1, hr1, _⟩
      exact hrest s1 hi1 hr1
    · rename_i hsc
      apply Sat.mono (sat_emit_freeIdx hs rfl ((hl y (by simp)).2 hsc))
      intro _ s1 ⟨hi1, hr1, _⟩
      exact hrest s1 hi1 hr1
    · exact Sat.pure (hrest s hs (Rel.refl s))

/-! ### break / continue -/

/-- adding a pending position to the innermost loop -/
theorem sat_modLoop_add {f : Loop → Loop} {p : Nat} {s0 s : CState} {ps ts : List Nat} (hst : St s0 ps ts s) (hp : p ∈ ps)
    (hf : ∀ l q, (q ∈ (f l).breaks → q ∈ l.breaks ∨ q = p) ∧ (q ∈ (f l).continues → q ∈ l.continues ∨ q = p)) :
    Sat (modLoop f) s (fun _ s' => Inv s' ∧ Rel s0 s' ∧ True) := by
  unfold modLoop
  apply Sat.modify
  obtain ⟨hbd, hge⟩ := hst.pend p hp
  cases hl : s.loops with
  | nil =>
    simp only
    refine ⟨⟨hst.inv.ne, hst.inv.chain, hst.inv.walk, fun l h => by simp at h, hst.inv.consts, hst.inv.targets, hst.inv.bok, hst.inv.tryLt⟩,
      ⟨hst.rel.chain, hst.rel.pre, ?_, ?_, fun l0 l' _ h' => by simp at h', hst.rel.cpre⟩, trivial⟩
    · have := hst.rel.llen; rw [hl] at this; simpa using this
    · have := hst.rel.ltail; rw [hl] at this; simpa using this
  | cons l r =>
    simp only [hl]
    refine ⟨⟨hst.inv.ne, hst.inv.chain, hst.inv.walk, ?_, hst.inv.consts, hst.inv.targets, hst.inv.bok, hst.inv.tryLt⟩,
      ⟨hst.rel.chain, hst.rel.pre, ?_, ?_, ?_, hst.rel.cpre⟩, trivial⟩
    · intro l' hl' q hq
      simp at hl'
      rcases hl' with hl' | hl'
      · subst hl'
        have hold := hst.inv.loops l (by simp [hl]) q
        rcases hq with hq | hq
        · rcases (hf l q).1 hq with h | h
          · exact hold (.inl h)
          · subst h; exact hbd
        · rcases (hf l q).2 hq with h | h
          · exact hold (.inr h)
          · subst h; exact hbd
      · exact hst.inv.loops l' (by simp [hl, hl']) q hq
    · have := hst.rel.llen; rw [hl] at this; simpa using this
    · have := hst.rel.ltail; rw [hl] at this; simpa using this
    · intro l0 l' h0 h' q
      simp at h'
      subst h'
      have := hst.rel.lhead l0 l h0 (by simp [hl]) q
      constructor
      · intro hq
        rcases (hf l q).1 hq with h | h
        · exact this.1 h
        · subst h; exact .inr hge
      · intro hq
        rcases (hf l q).2 hq with h | h
        · exact this.2 h
        · subst h; exact .inr hge

theorem good_compileBranch (pos : Pos) (tok : Nat) : Good (compileBranch pos tok) := by
  intro s hs
  have hst := St.init hs
  unfold compileBranch
  split
  · apply st_good_bind good_currentLoop hst
    intro cl s1 _ hst
    split
    · exact Sat.cerr
    · apply st_good_bind good_get hst
      intro st s2 _ hst
      have hf : Good (if (‹Loop›.lastTryCatchIndex != st.tryCatchIndex) = true then
          emit_ pos OpFinalizer [‹Loop›.lastTryCatchIndex + 1] else Pure.pure ()) := by good
      apply st_good_bind hf hst
      intro _ s3 _ hst
      apply st_emit_bind hst (by decide) (.inl rfl) (.inl (by opa))
      intro s4 hst
      split
      · exact sat_modLoop_add (p := s3.insts.size) hst (by simp) (fun l q => by simp; exact fun h => .inl h)
      · exact sat_modLoop_add (p := s3.insts.size) hst (by simp) (fun l q => by simp; exact fun h => .inl h)
  · exact Sat.cerr


/-! ### functions -/

/-- `finishTail` on the result of the scan of the current stream, in a function table -/
theorem sat_finishTail (lastOp : Nat) (pend : List Nat) (s : CState) (hs : Inv s) {t : Table} {r : List Table}
    (htr : s.tables = t :: r) (hnb : t.block = false)
    (hp : PendOK s.insts s.insts.size pend)
    (hl : (s.insts.size = 0 ∧ lastOp = 0) ∨ LastAt s.insts s.insts.size lastOp) :
    Sat (finishTail lastOp pend) s (fun fn s' => Inv s' ∧ Rel s s' ∧ s'.tables = s.tables ∧
      FinFn s'.constants t.frees.length fn) := by
  have hlims : ∀ s' : CState, s'.tables = s.tables → limsOf s' = ⟨s'.constants, t.maxDefinition, t.frees.length⟩ := by
    intro s' h'
    simp only [limsOf, h', htr, fmd_cons_fn hnb, fnf_cons_fn hnb]
  unfold finishTail
  by_cases hc : (lastOp != OpReturn || !pend.isEmpty) = true
  · rw [if_pos hc]
    unfold emit_
    apply Sat.bind
    apply Sat.bind
    apply sat_emit hs (by decide) (StaticArgs.argsOK (by opa) _ _)
    intro s1 hi1 hr1 hbd ht1 ⟨opb, hget, hopb⟩ hsz _
    apply Sat.pure
    apply Sat.bind
    apply Sat.get
    apply Sat.bind_of_run (runCM_headTable (ht1.trans htr))
    apply Sat.pure
    have hch := hi1.chain
    rw [ht1, htr] at hch
    refine ⟨hi1, hr1, ht1, ⟨⟨hi1.walk, ?_⟩, ?_, ?_⟩, hch.2.1, hi1.tryLt⟩
    · have := hi1.targets; rw [hlims s1 ht1] at this; exact this
    · exact jumpsStrict_append hs.targets hs.walk hr1.pre (by rw [hsz, hopb]) hget (by rw [hopb]; rfl) (by rw [hopb]; decide)
    · exact endsInReturn_append hs.walk hr1.pre (by rw [hsz, hopb]) hget hopb
  · rw [if_neg hc]
    have hc' : lastOp = OpReturn ∧ pend = [] := by
      simp only [Bool.or_eq_true, bne_iff_ne, ne_eq, Bool.not_eq_true', not_or, Decidable.not_not, Bool.not_eq_false] at hc
      exact ⟨hc.1, by simpa using hc.2⟩
    obtain ⟨hlo, hpe⟩ := hc'
    subst hpe
    apply Sat.bind
    apply Sat.pure
    apply Sat.bind
    apply Sat.get
    apply Sat.bind_of_run (runCM_headTable htr)
    apply Sat.pure
    have hch := hs.chain
    rw [htr] at hch
    refine ⟨hs, Rel.refl s, rfl, ⟨⟨hs.walk, ?_⟩, jumpsStrict_of_pend hs.targets hp, ?_⟩, hch.2.1, hs.tryLt⟩
    · have := hs.targets; rw [hlims s rfl] at this; exact this
    · rcases hl with ⟨_, h0⟩ | hl
      · rw [hlo] at h0; cases h0
      · rw [hlo] at hl; exact hl

theorem sat_finishFn (s : CState) (hs : Inv s) {t : Table} {r : List Table} (htr : s.tables = t :: r) (hnb : t.block = false) :
    Sat finishFn s (fun fn s' => Inv s' ∧ Rel s s' ∧ s'.tables = s.tables ∧ FinFn s'.constants t.frees.length fn) := by
  unfold finishFn
  apply Sat.bind
  apply Sat.get
  have := scanFn_some (s.insts.size + 1) 0 0 [] hs.walk
  cases hsc : scanFn s.insts (s.insts.size + 1) 0 0 [] with
  | none => rw [hsc] at this; simp at this
  | some r =>
    obtain ⟨l, P⟩ := r
    have hspec := scanFn_spec (s.insts.size + 1) 0 0 [] l P (.refl 0) hs.walk (by omega)
      (fun q t _ hq _ => by omega) (.inl rfl) hsc
    exact sat_finishTail l P s hs htr hnb hspec.1 hspec.2

theorem chainLE_cons_left {t : Table} {r ts' : List Table} (h : ChainLE (t :: r) ts') :
    ∃ t' r', ts' = t' :: r' ∧ t'.block = t.block ∧ ChainLE r r' := by
  cases ts' with
  | nil => exact absurd h (by simp [ChainLE])
  | cons t' r' => exact ⟨t', r', rfl, h.1, h.2.2.2⟩

/-- `withFn`: the function returned is finished for as many free variables as its table lists,
    and the originals of those are in range in the enclosing function -/
theorem goodS_withFn (pos : Pos) (variadic : Bool) (params : List String) {body : CM Unit} (hb : Good body) :
    GoodS (fun r s' => FinFn s'.constants r.2.frees.length r.1 ∧
      ∀ y ∈ r.2.frees, OrigOK (fmd s'.tables) (fnf s'.tables) y) (withFn pos variadic params body) := by
  intro s hs
  obtain ⟨t, r, htr⟩ := head_of_inv hs
  unfold withFn
  unfold enterFn
  apply Sat.bind
  apply Sat.bind
  apply Sat.get
  apply Sat.bind
  apply Sat.set
  apply Sat.pure
  generalize hs1 : ({ s with insts := #[], sourceMap := [], loops := [], tryCatchIndex := -1, iotaVal := -1, variadic := variadic } : CState) = s1
  have ht1 : s1.tables = s.tables := by subst hs1; rfl
  have hc1 : s1.constants = s.constants := by subst hs1; rfl
  have hin1 : s1.insts = #[] := by subst hs1; rfl
  have hl1 : s1.loops = [] := by subst hs1; rfl
  have hb1 : s1.builtins = s.builtins := by subst hs1; rfl
  apply Sat.bind_of_run (runCM_forkTable false (ht1.trans htr))
  generalize htn : ({ block := false, disableParams := t.disableParams, hasParentConstLit := t.hasConstLit || t.hasParentConstLit } : Table) = tn
  have hblk : tn.block = false := by subst htn; rfl
  generalize hs2 : ({ s1 with tables := tn :: s1.tables } : CState) = s2
  have ht2 : s2.tables = tn :: s.tables := by subst hs2; rw [← ht1]
  have hc2 : s2.constants = s.constants := by subst hs2; exact hc1
  have hin2 : s2.insts = #[] := by subst hs2; exact hin1
  have hl2 : s2.loops = [] := by subst hs2; exact hl1
  have hb2 : s2.builtins = s.builtins := by subst hs2; exact hb1
  have hi2 : Inv s2 := by
    refine ⟨by rw [ht2]; simp, ?_, by rw [hin2]; exact Walk.refl 0, by rw [hl2]; intro l hl; simp at hl, by rw [hc2]; exact hs.consts,
      ?_, by rw [hb2]; exact hs.bok, by rw [hin2]; exact TryLt.empty⟩
    · rw [ht2, hc2]; exact chain_fork hs.chain hs.ne tn (by subst htn; rfl) (by subst htn; rfl) (by subst htn; rfl)
    · rw [hin2]; intro p op hbd _; exact absurd hbd.2 (by simp)
  apply Sat.bind
  apply Sat.mono (good_setParams pos params s2 hi2)
  intro _ s3 ⟨hi3, hr3, _⟩
  apply Sat.bind
  apply Sat.mono (hb s3 hi3)
  intro _ s4 ⟨hi4, hr4, _⟩
  have hch4 : ChainLE (tn :: s.tables) s4.tables := by rw [← ht2]; exact hr3.chain.trans hr4.chain
  obtain ⟨t4, r4, htr4, hblk4, hle4⟩ := chainLE_cons_left hch4
  rw [hblk] at hblk4
  apply Sat.bind
  apply Sat.mono (sat_finishFn s4 hi4 htr4 hblk4)
  intro fn s5 ⟨hi5, hr5, ht5, hfn⟩
  have htr5 : s5.tables = t4 :: r4 := ht5.trans htr4
  unfold leaveFn
  apply Sat.bind
  apply Sat.bind
  apply Sat.get
  apply Sat.bind_of_run (runCM_popTable htr5)
  apply Sat.bind
  apply Sat.get
  apply Sat.bind
  apply Sat.set
  apply Sat.pure
  apply Sat.pure
  have hcp : CPre s.constants s5.constants := by
    rw [← hc2]; exact hr3.cpre.trans (hr4.cpre.trans hr5.cpre)
  have hch5 := hi5.chain
  rw [htr5] at hch5
  have hne : r4 ≠ [] := ne_of_chainLE hle4 hs.ne
  refine ⟨⟨hne, hch5.tail, hs.walk, hs.loops, hi5.consts, hs.targets.mono ⟨hcp, hle4.fmd, hle4.fnf⟩, hs.bok, hs.tryLt⟩,
    Rel.of_same hle4 rfl rfl hcp, hfn, hch5.2.2.1 hblk4⟩

theorem good_emitMakeArray (pos : Pos) : Good (emit_ pos OpGetBuiltin [Gen.builtinMakeArray]) :=
  fun _ hs => sat_emit_builtin hs ⟨Gen.builtinMakeArray, rfl, by decide⟩

theorem good_compileAssign (pos : Pos) (lhs : List Expr) (nrhs : Nat) {rhsAct lhs0Act defAssign0 : CM Unit}
    {destruct : Int → CM Unit} (op : Nat) (h1 : Good rhsAct) (h2 : Good lhs0Act) (h3 : Good defAssign0)
    (h4 : ∀ i, Good (destruct i)) : Good (compileAssign pos lhs nrhs rhsAct lhs0Act defAssign0 destruct op) := by
  have := good_defineLocal ":array"
  have := good_emitMakeArray pos
  unfold compileAssign
  good
  exact h4 _


end UgoVerif.Compile
