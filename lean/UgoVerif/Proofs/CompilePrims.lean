import UgoVerif.Proofs.CompileInv
/-
  C05: the block / loop / function combinators and every non-recursive compile function keep the
  invariant and never panic.
-/
namespace UgoVerif.Compile
open UgoVerif UgoVerif.Go UgoVerif.Ast

theorem tablesOK_cons {t : Table} {ts : List Table} (ht : TableOK t) (h : TablesOK ts) : TablesOK (t :: ts) := by
  intro t' ht'
  simp at ht'
  rcases ht' with ht' | ht'
  · subst ht'; exact ht
  · exact h t' ht'

theorem tablesOK_tail {t : Table} {ts : List Table} (h : TablesOK (t :: ts)) : TablesOK ts :=
  fun t' ht' => h t' (by simp [ht'])

theorem storeOK_nil : StoreOK [] := fun _ h => by simp at h

theorem Sat.of_run {α} {m : CM α} {s s' : CState} {a : α} {Q : α → CState → Prop}
    (hr : runCM m s = (.ok a, s')) (h : Q a s') : Sat m s Q := by
  simp [Sat, hr, h]

theorem Sat.bind_of_run {α β} {m : CM α} {f : α → CM β} {s s' : CState} {a : α} {Q : β → CState → Prop}
    (hr : runCM m s = (.ok a, s')) (h : Sat (f a) s' Q) : Sat (m >>= f) s Q :=
  Sat.bind (Sat.of_run hr h)

theorem runCM_headTable {s : CState} {t : Table} {r : List Table} (h : s.tables = t :: r) :
    runCM headTable s = (.ok t, s) := by
  unfold headTable
  rw [runCM_bind, runCM_get]
  simp only [h]
  rfl

theorem runCM_forkTable {s : CState} {t : Table} {r : List Table} (block : Bool) (h : s.tables = t :: r) :
    runCM (forkTable block) s = (.ok (), { s with tables :=
      { block := block, disableParams := t.disableParams, hasParentConstLit := t.hasConstLit || t.hasParentConstLit } :: s.tables }) := by
  unfold forkTable
  rw [runCM_bind, runCM_headTable h]
  rfl

theorem runCM_popTable {s : CState} {t : Table} {r : List Table} (h : s.tables = t :: r) :
    runCM popTable s = (.ok t, { s with tables := r }) := by
  unfold popTable
  rw [runCM_bind, runCM_headTable h]
  simp only
  rw [runCM_bind]
  unfold modTables
  rw [runCM_modify]
  simp [h, runCM_pure]

theorem good_withBlock {body : CM Unit} (hb : Good body) : Good (withBlock body) := by
  intro s hs
  obtain ⟨t, r, htr⟩ : ∃ t r, s.tables = t :: r := by
    cases h : s.tables with
    | nil => exact absurd h hs.ne
    | cons t r => exact ⟨t, r, rfl⟩
  unfold withBlock
  apply Sat.bind_of_run (runCM_forkTable true htr)
  generalize hs1 : ({ s with tables := _ :: s.tables } : CState) = s1
  have hi1 : Inv s1 := by
    subst hs1
    exact hs.of_tables (by simp) (tablesOK_cons ⟨storeOK_nil, Nat.le_refl _⟩ hs.tabs) rfl rfl
  have ht1 : s1.tables.length = s.tables.length + 1 := by subst hs1; simp
  have hin1 : s1.insts = s.insts := by subst hs1; rfl
  have hl1 : s1.loops = s.loops := by subst hs1; rfl
  apply Sat.bind
  apply Sat.mono (hb s1 hi1)
  intro _ s2 ⟨hi2, hr2, _⟩
  obtain ⟨t2, r2, htr2⟩ : ∃ t r, s2.tables = t :: r := by
    cases h : s2.tables with
    | nil => exact absurd h hi2.ne
    | cons t r => exact ⟨t, r, rfl⟩
  apply Sat.bind_of_run (runCM_popTable htr2)
  apply Sat.pure
  have hlen : r2.length = s.tables.length := by
    have := hr2.tlen
    rw [htr2, ht1] at this
    simpa using this
  have hc1 : s1.constants = s.constants := by subst hs1; rfl
  refine ⟨hi2.of_tables ?_ ?_ rfl rfl, hr2.transfer hin1 hl1 rfl rfl hlen (by rw [← hc1]; exact hr2.csz), trivial⟩
  · intro h
    simp only at h
    rw [h, htr] at hlen
    simp at hlen
  · have := hi2.tabs
    rw [htr2] at this
    exact tablesOK_tail this

theorem good_blockOf {body : List Stmt} {act : CM Unit} (h : Good act) : Good (blockOf body act) := by
  unfold blockOf
  split
  · exact GoodP.pure trivial
  · exact good_withBlock h

theorem good_ite {α} {c : Prop} [Decidable c] {P : α → Prop} {a b : CM α} (ha : GoodP P a) (hb : GoodP P b) :
    GoodP P (if c then a else b) := by
  split
  · exact ha
  · exact hb

/-! ### loops -/

theorem st_withLoop_bind {β} {body : CM Unit} {f : Loop → CM β} {s0 s : CState} {ps ts : List Nat}
    {Q : β → CState → Prop} (hb : Good body) (hst : St s0 ps ts s)
    (h : ∀ loop s', St s0 (loop.breaks ++ loop.continues ++ ps) ts s' → Sat (f loop) s' Q) :
    Sat (withLoop body >>= f) s Q := by
  apply Sat.bind
  unfold withLoop pushLoop
  apply Sat.bind
  apply Sat.modify
  generalize hs1 : ({ s with loops := { lastTryCatchIndex := s.tryCatchIndex } :: s.loops } : CState) = s1
  have hi1 : Inv s1 := by
    subst hs1
    refine ⟨hst.inv.ne, hst.inv.tabs, hst.inv.walk, ?_, hst.inv.consts, hst.inv.targets⟩
    intro l hl p hp
    simp at hl
    rcases hl with hl | hl
    · subst hl; simp at hp
    · exact hst.inv.loops l hl p hp
  have hin1 : s1.insts = s.insts := by subst hs1; rfl
  have ht1 : s1.tables = s.tables := by subst hs1; rfl
  have hl1 : s1.loops = { lastTryCatchIndex := s.tryCatchIndex } :: s.loops := by subst hs1; rfl
  apply Sat.bind
  apply Sat.mono (hb s1 hi1)
  intro _ s2 ⟨hi2, hr2, _⟩
  unfold popLoop
  apply Sat.bind
  apply Sat.get
  apply Sat.bind
  apply Sat.set
  apply Sat.pure
  -- the loop stack after the body: the loop object on top of the old stack
  obtain ⟨l2, hl2⟩ : ∃ l2, s2.loops = l2 :: s.loops := by
    have h1 := hr2.llen
    have h2 := hr2.ltail
    rw [hl1] at h1 h2
    cases h3 : s2.loops with
    | nil => rw [h3] at h1; simp at h1
    | cons a b => rw [h3] at h2; simp at h2; exact ⟨a, by rw [h2]⟩
  simp only [hl2, List.head?_cons, Option.getD_some, List.drop_succ_cons, List.drop_zero]
  apply h
  have hsz : s.insts.size ≤ s2.insts.size := by rw [← hin1]; exact hr2.pre.1
  have hpre : Pre s.insts s2.insts := by rw [← hin1]; exact hr2.pre
  refine ⟨⟨hi2.ne, hi2.tabs, hi2.walk, ?_, hi2.consts, hi2.targets⟩, ?_, ?_, ?_⟩
  · intro l hl p hp
    exact hi2.loops l (by rw [hl2]; simp [hl]) p hp
  · have hc1 : s1.constants = s.constants := by subst hs1; rfl
    refine ⟨by rw [← hst.rel.tlen, ← ht1]; exact hr2.tlen, hst.rel.pre.trans hpre, hst.rel.llen, hst.rel.ltail, ?_,
      Nat.le_trans hst.rel.csz (by rw [← hc1]; exact hr2.csz)⟩
    intro l l' h1 h2 p
    have := hst.rel.lhead l l' h1 h2 p
    exact this
  · intro p hp
    simp only [List.mem_append] at hp
    have hh := hr2.lhead { lastTryCatchIndex := s.tryCatchIndex } l2 (by rw [hl1]; rfl) (by rw [hl2]; rfl) p
    have hs0 := hst.rel.pre.1
    rcases hp with (hp | hp) | hp
    · refine ⟨hi2.loops l2 (by rw [hl2]; simp) p (.inl hp), ?_⟩
      rcases hh.1 hp with h' | h'
      · simp at h'
      · rw [hin1] at h'; omega
    · refine ⟨hi2.loops l2 (by rw [hl2]; simp) p (.inr hp), ?_⟩
      rcases hh.2 hp with h' | h'
      · simp at h'
      · rw [hin1] at h'; omega
    · exact ⟨⟨(hst.pend p hp).1.1.pre hpre, (hst.pend p hp).1.2.pre hpre⟩, (hst.pend p hp).2⟩
  · intro t ht
    exact (hst.tgt t ht).pre hpre


/-! ### a small tactic for compositional goals `Good (do …)` -/

/-- side goals `op < numOpcodes` -/
syntax "opc" : tactic
macro_rules | `(tactic| opc) => `(tactic| first | decide | (split <;> decide))

/-- side goals `StaticArgs op args` -/
syntax "opa1" : tactic
macro_rules | `(tactic| opa1) => `(tactic| first
  | exact ⟨fun h => absurd h (by decide), fun h => absurd h (by decide), by decide⟩
  | exact ⟨fun _ => rfl, fun h => absurd h (by decide), by decide⟩
  | exact ⟨fun h => absurd h (by decide), fun _ => rfl, by decide⟩)
syntax "opa" : tactic
macro_rules | `(tactic| opa) => `(tactic| first | opa1 | (split <;> opa1))

syntax "good_leaf" : tactic
macro_rules | `(tactic| good_leaf) => `(tactic| first
  | with_reducible assumption
  | with_reducible exact GoodP.pure trivial
  | with_reducible exact GoodP.cerr | with_reducible exact GoodP.throw_err
  | with_reducible exact GoodP.throw_bare | with_reducible exact GoodP.cunsupported
  | ((with_reducible refine good_emit_ ?_ ?_) <;> first | opc | opa)
  | ((with_reducible refine good_emit ?_ ?_) <;> first | opc | opa)
  | with_reducible exact good_addConstant _
  | with_reducible exact good_get | with_reducible exact good_curPos
  | with_reducible exact good_currentLoop | with_reducible exact good_headTable
  | with_reducible exact (goodP_resolve _).good
  | with_reducible exact good_updateMaxDefs _
  | (with_reducible apply good_withBlock) | (with_reducible apply good_blockOf))

syntax "good_bind" : tactic
macro_rules | `(tactic| good_bind) => `(tactic| (refine GoodP.bind (P := fun _ => True) ?_ (fun _ _ => ?_)))

syntax "good" : tactic
macro_rules | `(tactic| good) => `(tactic| repeat' (first | good_leaf | good_bind | split))

theorem argsOK_const {nc : Nat} {a : Array UInt8} {op : Nat} {i : Nat} {rest : List Int}
    (hc : isConstOp op = true) (hi : i < nc) : ArgsOK nc a op ((i : Int) :: rest) := by
  have hnj : ¬ (isJumpOp op = true) := by
    rcases isConstOp_cases hc with h | h <;> subst h <;> decide
  have hnt : op ≠ OpSetupTry := by
    rcases isConstOp_cases hc with h | h <;> subst h <;> decide
  exact ⟨fun h => absurd h hnj, fun h => absurd h hnt, fun _ => ⟨i, rest, rfl, hi⟩⟩

theorem good_emitConstant (pos : Pos) (v : CVal) : Good (emitConstant pos v) := by
  intro s hs
  unfold emitConstant
  apply Sat.bind
  apply sat_addConstant hs
  intro i s1 hi1 hr1 hlt _
  unfold emit_
  apply Sat.bind
  apply sat_emit hi1 (by decide) (argsOK_const (by decide) hlt)
  intro s2 hi2 hr2 _ _ _ _
  exact Sat.pure ⟨hi2, hr1.trans hr2, trivial⟩

macro_rules | `(tactic| good_leaf) => `(tactic| with_reducible exact good_emitConstant _ _)

/-- `emitFnConstant` for a function that is well formed w.r.t. the current constant pool -/
theorem sat_emitFnConstant {pos : Pos} {fn : CFn} {nfree : Nat} {s : CState} (hs : Inv s)
    (hf : FnOK s.constants.size fn) :
    Sat (emitFnConstant pos fn nfree) s (fun _ s' => Inv s' ∧ Rel s s' ∧ True) := by
  unfold emitFnConstant
  apply Sat.bind
  apply sat_addFnConstant hs hf
  intro i s1 hi1 hr1 hlt _
  split
  · unfold emit_
    apply Sat.bind
    apply sat_emit hi1 (by decide) (argsOK_const (by decide) hlt)
    intro s2 hi2 hr2 _ _ _ _
    exact Sat.pure ⟨hi2, hr1.trans hr2, trivial⟩
  · unfold emit_
    apply Sat.bind
    apply sat_emit hi1 (by decide) (argsOK_const (by decide) hlt)
    intro s2 hi2 hr2 _ _ _ _
    exact Sat.pure ⟨hi2, hr1.trans hr2, trivial⟩

theorem good_findSymbolSelf (name : String) : Good (findSymbolSelf name) := by
  unfold findSymbolSelf; good

theorem good_hasAnyConstLit : Good hasAnyConstLit := by
  unfold hasAnyConstLit; good

theorem good_defineLocal (name : String) : Good (defineLocal name) := by
  unfold defineLocal
  good
  exact good_modHead fun t ht => by simpa using putSym_ok (by intro hc; simp at hc) ht

theorem good_defineConstLitSym (name : String) {v : Option CVal} (hv : v.isSome = true) :
    Good (defineConstLitSym name v) := by
  unfold defineConstLitSym
  good
  exact good_modHead fun t ht => by
    simpa using putSym_ok (y := { name := name, index := -1, scope := .constLit, constant := true, constLit := v })
      (by intro _; exact ⟨rfl, hv⟩) ht


theorem goodP_get_inv : GoodP (fun st => Inv st) (get : CM CState) := fun s hs => Sat.get ⟨hs, Rel.refl s, hs⟩

theorem good_defineConstLit (name : String) (v : VSum) : Good (defineConstLit name v) := by
  unfold defineConstLit
  split
  · good
  · split
    · have := good_defineConstLitSym name (v := some ‹CVal›) rfl
      good
    · split
      · refine GoodP.bind (good_findSymbolSelf _) fun r _ => ?_
        split
        · refine GoodP.bind good_get fun st _ => ?_
          have := good_defineConstLitSym name (v := some (.int (BitVec.ofInt 64 st.iotaVal))) rfl
          good
        · good
      · split
        · refine GoodP.bind good_hasAnyConstLit fun b _ => ?_
          split
          · refine GoodP.bind goodP_get_inv fun st hst => ?_
            split
            · rename_i s1 hf
              have hok := findByNameAll_ok hst.tabs hf
              split
              · rename_i hsc
                have := good_defineConstLitSym name (v := s1.constLit) (hok (by simpa using hsc)).2
                good
              · good
            · good
          · good
        · good
    · good

theorem lookupSym_putSym_self (n : String) (y : Symbol) : ∀ st : List (String × Symbol), lookupSym n (putSym n y st) = some y
  | [] => by simp [putSym, lookupSym]
  | (k, v) :: r => by
    simp only [putSym]
    split
    · simp [lookupSym]
    · rename_i h
      simp only [lookupSym, h]
      exact lookupSym_putSym_self n y r

theorem updateMaxDefs_head (n : Nat) (t : Table) (r : List Table) :
    ∃ t' r', updateMaxDefs n (t :: r) = t' :: r' ∧ t'.store = t.store ∧ t'.numDefinition = t.numDefinition ∧
      t'.numParams = t.numParams ∧ n ≤ t'.maxDefinition ∧ t.maxDefinition ≤ t'.maxDefinition := by
  simp only [updateMaxDefs]
  split
  · refine ⟨_, _, rfl, ?_⟩; split <;> simp <;> omega
  · refine ⟨_, _, rfl, ?_⟩; split <;> simp <;> omega

theorem nextIndex_ge (t : Table) (r : List Table) : t.numDefinition ≤ nextIndex (t :: r) := by
  simp only [nextIndex]; split <;> omega

theorem runCM_modTables (g : List Table → List Table) (s : CState) :
    runCM (modTables g) s = (.ok (), { s with tables := g s.tables }) := rfl

theorem runCM_modHead (f : Table → Table) {s : CState} {t : Table} {r : List Table} (h : s.tables = t :: r) :
    runCM (modHead f) s = (.ok (), { s with tables := f t :: r }) := by
  unfold modHead
  rw [runCM_modTables, h]

/-- the state after `DefineLocal` / `SetParams` created a new local symbol `name` in the head table -/
theorem defineNew_state {name : String} {s : CState} {t : Table} {r : List Table} (hs : Inv s) (htr : s.tables = t :: r)
    (s2 : CState) (hs2 : s2 = { s with tables := updateMaxDefs (nextIndex s.tables + 1) (shadowBuiltin s.builtins name { t with numDefinition := t.numDefinition + 1, store := putSym name { name := name, index := (nextIndex s.tables : Int), scope := Scope.local_ } t.store } :: r) }) :
    Inv s2 ∧ Rel s s2 ∧ ∃ t' r', s2.tables = t' :: r' ∧
      lookupSym name t'.store = some { name := name, index := (nextIndex s.tables : Int), scope := Scope.local_ } ∧
      t'.numDefinition = t.numDefinition + 1 ∧ t.numDefinition + 1 ≤ t'.maxDefinition ∧ t'.numParams = t.numParams := by
  subst hs2
  generalize hsym : ({ name := name, index := (nextIndex s.tables : Int), scope := Scope.local_ } : Symbol) = sym
  have hsok : SymOK sym := by subst hsym; intro hc; simp at hc
  generalize ht1 : shadowBuiltin s.builtins name { t with numDefinition := t.numDefinition + 1, store := putSym name sym t.store } = t1
  have hst1 : t1.store = putSym name sym t.store := by subst ht1; simp
  have hnd1 : t1.numDefinition = t.numDefinition + 1 := by subst ht1; unfold shadowBuiltin; split <;> rfl
  have hnp1 : t1.numParams = t.numParams := by subst ht1; simp
  have hmd1 : t1.maxDefinition = t.maxDefinition := by subst ht1; simp
  obtain ⟨t', r', hu, hst', hnd', hnp', hge, hmd'⟩ := updateMaxDefs_head (nextIndex s.tables + 1) t1 r
  have htt := hs.tabs t (by simp [htr])
  have htabs : TablesOK (updateMaxDefs (nextIndex s.tables + 1) (t1 :: r)) := by
    apply updateMaxDefs_ok
    apply tablesOK_cons
    · exact htt.of_store (by rw [hst1]; exact putSym_ok hsok htt.store) hnp1 (by rw [hmd1]; exact Nat.le_refl _)
    · have := hs.tabs; rw [htr] at this; exact tablesOK_tail this
  have hni := nextIndex_ge t r
  rw [← htr] at hni
  refine ⟨hs.of_tables (by simp [hu]) htabs rfl rfl, Rel.of_same (by simp [updateMaxDefs_length, htr]) rfl rfl,
    t', r', hu, by rw [hst', hst1]; exact lookupSym_putSym_self _ _ _, by rw [hnd', hnd1], by omega, by rw [hnp', hnp1]⟩

theorem sat_defineLocal {name : String} {s : CState} {Q : Symbol × Bool → CState → Prop} (hs : Inv s)
    (h : ∀ sym ex s', Inv s' → Rel s s' →
      (∃ t r, s'.tables = t :: r ∧ lookupSym name t.store = some sym) → SymOK sym → Q (sym, ex) s') :
    Sat (defineLocal name) s Q := by
  obtain ⟨t, r, htr⟩ : ∃ t r, s.tables = t :: r := by
    cases h : s.tables with
    | nil => exact absurd h hs.ne
    | cons t r => exact ⟨t, r, rfl⟩
  unfold defineLocal
  apply Sat.bind
  apply Sat.get
  apply Sat.bind_of_run (runCM_headTable htr)
  split
  · rename_i sym hd
    have hl : lookupSym name t.store = some sym := by
      unfold definedSym at hd
      split at hd
      · split at hd
        · cases hd
        · injection hd with hd; subst hd; assumption
      · cases hd
    apply Sat.pure
    exact h sym true s hs (Rel.refl s) ⟨t, r, htr, hl⟩ (lookupSym_ok (hs.tabs t (by simp [htr])).store hl)
  · rename_i hl
    apply Sat.bind_of_run (runCM_modHead _ htr)
    apply Sat.bind_of_run (runCM_modTables _ _)
    apply Sat.pure
    obtain ⟨hi2, hr2, t', r', hu, hlk, _⟩ := defineNew_state (name := name) hs htr _ rfl
    exact h _ false _ hi2 hr2 ⟨t', r', hu, hlk⟩ (by intro hc; simp at hc)

/-- the loop of `SetParams`: `k` parameters are defined so far -/
theorem sat_setParamsLoop (pos : Pos) : ∀ (ps : List String) (k : Nat) (s : CState), Inv s →
    (∃ t r, s.tables = t :: r ∧ k ≤ t.numDefinition ∧ k ≤ t.maxDefinition) →
    Sat (setParamsLoop pos ps k) s (fun _ s' => Inv s' ∧ Rel s s' ∧
      ∃ t r, s'.tables = t :: r ∧ k + ps.length ≤ t.maxDefinition)
  | [], k, s, hs, ⟨t, r, htr, _, hk⟩ => by
    unfold setParamsLoop
    exact Sat.pure ⟨hs, Rel.refl s, t, r, htr, by simpa using hk⟩
  | p :: rest, k, s, hs, ⟨t, r, htr, hk1, hk2⟩ => by
    unfold setParamsLoop
    apply Sat.bind
    apply Sat.get
    apply Sat.bind_of_run (runCM_headTable htr)
    split
    · apply Sat.bind_of_run (runCM_modHead _ htr)
      exact Sat.cerr
    · apply Sat.bind_of_run (runCM_modHead _ htr)
      apply Sat.bind_of_run (runCM_modTables _ _)
      obtain ⟨hi2, hr2, t', r', hu, _, hnd, hmd, _⟩ := defineNew_state (name := p) hs htr _ rfl
      apply Sat.mono (sat_setParamsLoop pos rest (k + 1) _ hi2 ⟨t', r', hu, by omega, by omega⟩)
      intro _ s3 ⟨hi3, hr3, t3, r3, h3, hle⟩
      exact ⟨hi3, hr2.trans hr3, t3, r3, h3, by simp only [List.length_cons]; omega⟩

theorem good_setParams (pos : Pos) (ps : List String) : Good (setParams pos ps) := by
  intro s hs
  obtain ⟨t, r, htr⟩ : ∃ t r, s.tables = t :: r := by
    cases h : s.tables with
    | nil => exact absurd h hs.ne
    | cons t r => exact ⟨t, r, rfl⟩
  unfold setParams
  split
  · exact Sat.pure ⟨hs, Rel.refl s, trivial⟩
  · apply Sat.bind_of_run (runCM_headTable htr)
    split
    · exact Sat.cerr
    · split
      · exact Sat.cerr
      · apply Sat.bind
        apply Sat.mono (sat_setParamsLoop pos ps 0 s hs ⟨t, r, htr, Nat.zero_le _, Nat.zero_le _⟩)
        intro _ s1 ⟨hi1, hr1, t1, r1, h1, hle⟩
        apply Sat.of_run (runCM_modHead _ h1)
        have htt := hi1.tabs t1 (by simp [h1])
        have htabs : TablesOK ({ t1 with numParams := ps.length } :: r1) := by
          apply tablesOK_cons
          · exact ⟨htt.store, by simpa using hle⟩
          · have := hi1.tabs; rw [h1] at this; exact tablesOK_tail this
        exact ⟨hi1.of_tables (by simp) htabs rfl rfl, hr1.trans (Rel.of_same (by simp [h1]) rfl rfl), trivial⟩

theorem good_compileDefine (pos : Pos) (ident : String) (allow : Bool) (keyword : Nat) :
    Good (compileDefine pos ident allow keyword) := by
  intro s hs
  unfold compileDefine
  apply Sat.bind
  apply sat_defineLocal hs
  intro sym ex s1 hi1 hr1 ⟨t, r, htr, hl⟩ hok
  simp only
  split
  · exact Sat.cerr
  · split
    · exact Sat.cerr
    · split
      · exact Sat.cerr
      · rename_i hc
        apply Sat.bind
        apply Sat.get
        split
        · exact Sat.cerr
        · apply Sat.bind
          unfold emit_
          apply Sat.bind
          apply sat_emit hi1 (by decide) (StaticArgs.argsOK (by opa) _ _)
          intro s2 hi2 hr2 _ ht2 _ _
          apply Sat.pure
          -- the symbol under `ident` in the head table is still `sym`, which is not a CONSTLIT symbol
          unfold updateSym
          apply Sat.of_run (runCM_modHead _ (ht2.trans htr))
          simp only [hl]
          have hnc : sym.scope ≠ .constLit := fun h => hc (hok h).1
          have htabs : TablesOK ({ t with store := putSym ident { sym with constant := keyword == tConst && ident != "_" } t.store } :: r) := by
            apply tablesOK_cons
            · have htt := hi2.tabs t (by rw [ht2, htr]; simp)
              exact ⟨putSym_ok (y := { sym with constant := keyword == tConst && ident != "_" })
                (fun h => absurd h hnc) htt.store, htt.params⟩
            · have := hi2.tabs; rw [ht2, htr] at this; exact tablesOK_tail this
          refine ⟨hi2.of_tables (by simp) htabs rfl rfl, hr1.trans (hr2.trans (Rel.of_same ?_ rfl rfl)), trivial⟩
          simp [ht2, htr]

theorem good_compileAssignSym (pos : Pos) (sym : Symbol) (ident : String) : Good (compileAssignSym pos sym ident) := by
  unfold compileAssignSym; good

theorem good_emitConstLit (pos : Pos) (v : CVal) : Good (emitConstLit pos v) := by
  unfold emitConstLit; good

theorem good_compileIdent (pos : Pos) (name : String) : Good (compileIdent pos name) := by
  unfold compileIdent
  refine GoodP.bind (goodP_resolve name) fun r hr => ?_
  split
  · good
  · rename_i sym
    have hok := hr sym rfl
    have := good_emitConstLit pos
    split
    · good
    · good
    · good
    · good
    · rename_i hsc
      obtain ⟨h1, h2⟩ := hok hsc
      rw [if_pos h1]
      cases hv : sym.constLit with
      | none => rw [hv] at h2; simp at h2
      | some v => exact this v

theorem good_compileValueIdent (pos : Pos) (tok : Nat) (name : String) {act : CM Unit} (ha : Good act) (sum : VSum) :
    Good (compileValueIdent pos tok name act sum) := by
  have := good_defineConstLit name sum
  have := good_compileDefine pos name false tok
  unfold compileValueIdent
  good

theorem good_compileIdentsNoValue (pos : Pos) (tok : Nat) {last : Option (CM Unit × VSum)}
    (hl : ∀ x, last = some x → Good x.1) : ∀ ids : List (Pos × String), Good (compileIdentsNoValue pos tok last ids)
  | [] => by unfold compileIdentsNoValue; good
  | (ipos, name) :: rest => by
    have := good_compileIdentsNoValue pos tok hl rest
    unfold compileIdentsNoValue
    split
    · rename_i act sum h
      refine GoodP.bind (P := fun _ => True) ?_ (fun _ _ => this)
      refine good_compileValueIdent pos tok name (hl (act, sum) ?_) sum
      split at h
      · exact h
      · cases h
    · refine GoodP.bind (P := fun _ => True) ?_ (fun _ _ => this)
      exact good_compileValueIdent pos tok name (good_emit_ (by decide) (by opa)) _

theorem good_declParamVariadic (pos : Pos) : ∀ l : List (Pos × String × Bool), Good (declParamVariadic pos l)
  | [] => by unfold declParamVariadic; good
  | (_, _, va) :: rest => by
    have := good_declParamVariadic pos rest
    have : Good (modify (fun s : CState => { s with variadic := true }) : CM Unit) :=
      good_modify_misc (fun _ => rfl) (fun _ => rfl) (fun _ => rfl)
    unfold declParamVariadic
    good

theorem good_declGlobals (pos : Pos) : ∀ l : List (Pos × String × Bool), Good (declGlobals pos l)
  | [] => by unfold declGlobals; good
  | (_, name, _) :: rest => by
    have := good_declGlobals pos rest
    have hu : ∀ idx : Nat, Good (updateSym name fun y => { y with index := idx }) :=
      fun idx => good_updateSym fun y hy => hy
    unfold declGlobals
    good
    · exact hu _
    · exact good_modHead fun t ht => by simpa using putSym_ok (by intro hc; simp at hc) ht
    · exact hu _

theorem good_emitFreePtrs (pos : Pos) : ∀ l : List Symbol, Good (emitFreePtrs pos l)
  | [] => by unfold emitFreePtrs; good
  | y :: r => by
    have := good_emitFreePtrs pos r
    unfold emitFreePtrs
    good

theorem good_defineCatchIdent (pos : Pos) (name : String) : Good (defineCatchIdent pos name) := by
  have := good_defineLocal name
  unfold defineCatchIdent; good

theorem good_forinVar (pos : Pos) (it : Int) {op : Nat} (hop : op < numOpcodes) (ha : StaticArgs op []) (name : String) :
    Good (forinVar pos it op name) := by
  have := good_defineLocal name
  have : Good (emit_ pos op) := good_emit_ hop ha
  unfold forinVar; good


/-- adding a pending position to the innermost loop -/
theorem sat_modLoop_add {f : Loop → Loop} {p : Nat} {s0 s : CState} {ps ts : List Nat} (hst : St s0 ps ts s) (hp : p ∈ ps)
    (hf : ∀ l q, (q ∈ (f l).breaks → q ∈ l.breaks ∨ q = p) ∧ (q ∈ (f l).continues → q ∈ l.continues ∨ q = p)) :
    Sat (modLoop f) s (fun _ s' => Inv s' ∧ Rel s0 s' ∧ True) := by
  unfold modLoop
  apply Sat.modify
  obtain ⟨hbd, hge⟩ := hst.pend p hp
  have hcz := hst.rel.csz
  cases hl : s.loops with
  | nil =>
    simp only
    refine ⟨⟨hst.inv.ne, hst.inv.tabs, hst.inv.walk, fun l h => by simp at h, hst.inv.consts, hst.inv.targets⟩,
      ⟨hst.rel.tlen, hst.rel.pre, ?_, ?_, fun l0 l' _ h' => by simp at h', hcz⟩, trivial⟩
    · have := hst.rel.llen; rw [hl] at this; simpa using this
    · have := hst.rel.ltail; rw [hl] at this; simpa using this
  | cons l r =>
    simp only [hl]
    refine ⟨⟨hst.inv.ne, hst.inv.tabs, hst.inv.walk, ?_, hst.inv.consts, hst.inv.targets⟩, ⟨hst.rel.tlen, hst.rel.pre, ?_, ?_, ?_, hcz⟩, trivial⟩
    · intro l' hl' q hq
      simp at hl'
      rcases hl' with hl' | hl'
      · subst hl'
        have hold := hst.inv.loops l (by simp [hl]) q
        rcases hq with hq | hq
        · rcases (hf l q).1 hq with h | h
          · exact hold (.inl h)
          · subst h; exact hbd
        · rcases (hf l q).2 hq with h | h
          · exact hold (.inr h)
          · subst h; exact hbd
      · exact hst.inv.loops l' (by simp [hl, hl']) q hq
    · have := hst.rel.llen; rw [hl] at this; simpa using this
    · have := hst.rel.ltail; rw [hl] at this; simpa using this
    · intro l0 l' h0 h' q
      simp at h'
      subst h'
      have := hst.rel.lhead l0 l h0 (by simp [hl]) q
      constructor
      · intro hq
        rcases (hf l q).1 hq with h | h
        · exact this.1 h
        · subst h; exact .inr hge
      · intro hq
        rcases (hf l q).2 hq with h | h
        · exact this.2 h
        · subst h; exact .inr hge

theorem good_compileBranch (pos : Pos) (tok : Nat) : Good (compileBranch pos tok) := by
  intro s hs
  have hst := St.init hs
  unfold compileBranch
  split
  · apply st_good_bind good_currentLoop hst
    intro cl s1 _ hst
    split
    · exact Sat.cerr
    · apply st_good_bind good_get hst
      intro st s2 _ hst
      have hf : Good (if (‹Loop›.lastTryCatchIndex != st.tryCatchIndex) = true then
          emit_ pos OpFinalizer [‹Loop›.lastTryCatchIndex + 1] else Pure.pure ()) := by good
      apply st_good_bind hf hst
      intro _ s3 _ hst
      apply st_emit_bind hst (by decide) (.inl rfl) (.inl (by opa))
      intro s4 hst
      split
      · exact sat_modLoop_add (p := s3.insts.size) hst (by simp) (fun l q => by simp; exact fun h => .inl h)
      · exact sat_modLoop_add (p := s3.insts.size) hst (by simp) (fun l q => by simp; exact fun h => .inl h)
  · exact Sat.cerr

theorem good_finishTail (lastOp : Nat) (pend : List Nat) : Good (finishTail lastOp pend) := by
  unfold finishTail; good

theorem good_finishFn : Good finishFn := by
  intro s hs
  unfold finishFn
  apply Sat.bind
  apply Sat.get
  have := scanFn_some (s.insts.size + 1) 0 0 [] hs.walk
  cases hsc : scanFn s.insts (s.insts.size + 1) 0 0 [] with
  | none => rw [hsc] at this; simp at this
  | some r => exact good_finishTail r.1 r.2 s hs

/-- `GoodS`: like `GoodP`, with a result condition that may mention the final state -/
def GoodS {α} (P : α → CState → Prop) (m : CM α) : Prop :=
  ∀ s, Inv s → Sat m s (fun a s' => Inv s' ∧ Rel s s' ∧ P a s')

/-- `finishTail` on the result of the scan of the current stream -/
theorem sat_finishTail (lastOp : Nat) (pend : List Nat) (s : CState) (hs : Inv s)
    (hp : PendOK s.insts s.insts.size pend)
    (hl : (s.insts.size = 0 ∧ lastOp = 0) ∨ LastAt s.insts s.insts.size lastOp) :
    Sat (finishTail lastOp pend) s (fun fn s' => Inv s' ∧ Rel s s' ∧ FinFn s'.constants.size fn) := by
  unfold finishTail
  by_cases hc : (lastOp != OpReturn || !pend.isEmpty) = true
  · rw [if_pos hc]
    unfold emit_
    apply Sat.bind
    apply Sat.bind
    apply sat_emit hs (by decide) (StaticArgs.argsOK (by opa) _ _)
    intro s1 hi1 hr1 hbd _ ⟨opb, hget, hopb⟩ hsz
    apply Sat.pure
    apply Sat.bind
    apply Sat.get
    obtain ⟨t0, r0, h0⟩ : ∃ t0 r0, s1.tables = t0 :: r0 := by
      cases h : s1.tables with
      | nil => exact absurd h hi1.ne
      | cons t r => exact ⟨t, r, rfl⟩
    apply Sat.bind_of_run (runCM_headTable h0)
    apply Sat.pure
    refine ⟨hi1, hr1, ⟨⟨hi1.walk, hi1.targets⟩, ?_, ?_⟩, (hi1.tabs t0 (by simp [h0])).params⟩
    · exact jumpsStrict_append hs.targets hs.walk hr1.pre (by rw [hsz, hopb]) hget (by rw [hopb]; rfl) (by rw [hopb]; decide)
    · exact endsInReturn_append hs.walk hr1.pre (by rw [hsz, hopb]) hget hopb
  · rw [if_neg hc]
    have hc' : lastOp = OpReturn ∧ pend = [] := by
      simp only [Bool.or_eq_true, bne_iff_ne, ne_eq, Bool.not_eq_true', not_or, Decidable.not_not, Bool.not_eq_false] at hc
      exact ⟨hc.1, by simpa using hc.2⟩
    obtain ⟨hlo, hpe⟩ := hc'
    subst hpe
    apply Sat.bind
    apply Sat.pure
    apply Sat.bind
    apply Sat.get
    obtain ⟨t0, r0, h0⟩ : ∃ t0 r0, s.tables = t0 :: r0 := by
      cases h : s.tables with
      | nil => exact absurd h hs.ne
      | cons t r => exact ⟨t, r, rfl⟩
    apply Sat.bind_of_run (runCM_headTable h0)
    apply Sat.pure
    refine ⟨hs, Rel.refl s, ⟨⟨hs.walk, hs.targets⟩, jumpsStrict_of_pend hs.targets hp, ?_⟩, (hs.tabs t0 (by simp [h0])).params⟩
    rcases hl with ⟨_, h0⟩ | hl
    · rw [hlo] at h0; cases h0
    · rw [hlo] at hl; exact hl

theorem goodS_finishFn : GoodS (fun fn s' => FinFn s'.constants.size fn) finishFn := by
  intro s hs
  unfold finishFn
  apply Sat.bind
  apply Sat.get
  have := scanFn_some (s.insts.size + 1) 0 0 [] hs.walk
  cases hsc : scanFn s.insts (s.insts.size + 1) 0 0 [] with
  | none => rw [hsc] at this; simp at this
  | some r =>
    obtain ⟨l, P⟩ := r
    have hspec := scanFn_spec (s.insts.size + 1) 0 0 [] l P (.refl 0) hs.walk (by omega)
      (fun q t _ hq _ => by omega) (.inl rfl) hsc
    exact sat_finishTail l P s hs hspec.1 hspec.2

theorem goodS_withFn (pos : Pos) (variadic : Bool) (params : List String) {body : CM Unit} (hb : Good body) :
    GoodS (fun r s' => FinFn s'.constants.size r.1) (withFn pos variadic params body) := by
  intro s hs
  obtain ⟨t, r, htr⟩ : ∃ t r, s.tables = t :: r := by
    cases h : s.tables with
    | nil => exact absurd h hs.ne
    | cons t r => exact ⟨t, r, rfl⟩
  unfold withFn
  apply Sat.bind_of_run (runCM_forkTable false htr)
  generalize hs1 : ({ s with tables := _ :: s.tables } : CState) = s1
  have hi1 : Inv s1 := by
    subst hs1
    exact hs.of_tables (by simp) (tablesOK_cons ⟨storeOK_nil, Nat.le_refl _⟩ hs.tabs) rfl rfl
  have ht1 : s1.tables.length = s.tables.length + 1 := by subst hs1; simp
  have hin1 : s1.insts = s.insts := by subst hs1; rfl
  have hl1 : s1.loops = s.loops := by subst hs1; rfl
  apply Sat.bind
  apply Sat.mono (good_setParams pos params s1 hi1)
  intro _ s2 ⟨hi2, hr2, _⟩
  unfold enterFn
  apply Sat.bind
  apply Sat.bind
  apply Sat.get
  apply Sat.bind
  apply Sat.set
  apply Sat.pure
  generalize hs3 : ({ s2 with insts := #[], sourceMap := [], loops := [], tryCatchIndex := -1, iotaVal := -1, variadic := variadic } : CState) = s3
  have hi3 : Inv s3 := by
    subst hs3
    exact ⟨hi2.ne, hi2.tabs, Walk.refl 0, fun l hl => by simp at hl, hi2.consts,
      fun p op hbd _ => absurd hbd.2 (by simp)⟩
  have ht3 : s3.tables = s2.tables := by subst hs3; rfl
  apply Sat.bind
  apply Sat.mono (hb s3 hi3)
  intro _ s4 ⟨hi4, hr4, _⟩
  apply Sat.bind
  apply Sat.mono (goodS_finishFn s4 hi4)
  intro fn s5 ⟨hi5, hr5, hfn⟩
  obtain ⟨t5, r5, htr5⟩ : ∃ t r, s5.tables = t :: r := by
    cases h : s5.tables with
    | nil => exact absurd h hi5.ne
    | cons t r => exact ⟨t, r, rfl⟩
  unfold leaveFn
  apply Sat.bind
  apply Sat.bind
  apply Sat.get
  apply Sat.bind_of_run (runCM_popTable htr5)
  apply Sat.bind
  apply Sat.get
  apply Sat.bind
  apply Sat.set
  apply Sat.pure
  apply Sat.pure
  have hlen : r5.length = s.tables.length := by
    have h5 := hr5.tlen
    have h4 := hr4.tlen
    have h2 := hr2.tlen
    rw [htr5] at h5
    rw [ht3] at h4
    simp at h5
    omega
  have hc3 : s3.constants = s2.constants := by subst hs3; rfl
  have hc1 : s1.constants = s.constants := by subst hs1; rfl
  have hcz : s2.constants.size ≤ s5.constants.size := by
    have := hr4.csz; have := hr5.csz; rw [hc3] at *; omega
  refine ⟨⟨?_, ?_, hi2.walk, hi2.loops, hi5.consts, hi2.targets.mono hcz⟩,
    hr2.transfer hin1 hl1 rfl rfl hlen (by have := hr2.csz; rw [hc1] at this; exact Nat.le_trans this hcz), hfn⟩
  · intro h
    simp only at h
    rw [h, htr] at hlen
    simp at hlen
  · have := hi5.tabs
    rw [htr5] at this
    exact tablesOK_tail this

theorem good_compileAssign (pos : Pos) (lhs : List Expr) (nrhs : Nat) {rhsAct lhs0Act defAssign0 : CM Unit}
    {destruct : Int → CM Unit} (op : Nat) (h1 : Good rhsAct) (h2 : Good lhs0Act) (h3 : Good defAssign0)
    (h4 : ∀ i, Good (destruct i)) : Good (compileAssign pos lhs nrhs rhsAct lhs0Act defAssign0 destruct op) := by
  have := good_defineLocal ":array"
  unfold compileAssign
  good
  exact h4 _

end UgoVerif.Compile
