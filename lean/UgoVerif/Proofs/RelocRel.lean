import UgoVerif.Spec.RelocVM
import UgoVerif.Proofs.VMLiveRun
import UgoVerif.Gen.Opcodes
/-
  The relocation relation between two states of the VM model and the relational calculus
  `RelE` used to push it through every function of `VM/Step.lean`.

  Source side: a program whose instruction streams `cs[c]` are in the layout `wide`
  (`false` = version 1); target side: the streams `ct[c]` in the current layout, related to
  `cs[c]` by the per-function offset map `Φ c` (`CodeRel`).  Two states are related when they
  are equal except for: the code, `ip`, the saved `ip` of the frames below the current one and
  the `catch/finally/returnTo` addresses of the handlers, which correspond through `Φ` of the
  function each frame runs; the recorded trace (which holds `ip`s) is not compared.
-/
set_option linter.unusedVariables false
namespace UgoVerif.VM.Reloc
open UgoVerif UgoVerif.Go UgoVerif.VM

/-! ### relational triples with a relation on the states at abnormal ends -/

/-- `m₁` from `s` and `m₂` from `t` (with `A s t`) end the same way; when both end normally the
    results are related by `VR` and the states by `B`; when both end abnormally (Go panic, outside
    the model) it is with the same exception and the states are related by `E` -/
def RelE {α β} (A B E : State → State → Prop) (VR : α → β → Prop) (m₁ : M α) (m₂ : M β) : Prop :=
  ∀ s t, A s t →
    match exec m₁ s, exec m₂ t with
    | (.ok a, s'), (.ok b, t') => VR a b ∧ B s' t'
    | (.error e, s'), (.error e', t') => e = e' ∧ E s' t'
    | _, _ => False

namespace RelE
variable {A B C E : State → State → Prop}

theorem pure {α β} {VR : α → β → Prop} {a : α} {b : β} (h : VR a b) :
    RelE A A E VR (Pure.pure a) (Pure.pure b) := by
  intro s t hA; exact ⟨h, hA⟩

theorem pure' {α β} {VR : α → β → Prop} {a : α} {b : β} (h : VR a b) (hAB : ∀ s t, A s t → B s t) :
    RelE A B E VR (Pure.pure a) (Pure.pure b) := by
  intro s t hA; exact ⟨h, hAB s t hA⟩

theorem panic {α β} {VR : α → β → Prop} (m : String) (hE : ∀ s t, A s t → E s t) :
    RelE A B E VR (VM.panic m) (VM.panic m) := by
  intro s t hA; exact ⟨rfl, hE s t hA⟩

theorem unsupported {α β} {VR : α → β → Prop} (m : String) (hE : ∀ s t, A s t → E s t) :
    RelE A B E VR (VM.unsupported m) (VM.unsupported m) := by
  intro s t hA; exact ⟨rfl, hE s t hA⟩

theorem bind {α α' β β'} {VR : α → α' → Prop} {VR' : β → β' → Prop} {m₁ : M α} {m₂ : M α'}
    {f₁ : α → M β} {f₂ : α' → M β'}
    (hm : RelE A B E VR m₁ m₂) (hf : ∀ a b, VR a b → RelE B C E VR' (f₁ a) (f₂ b)) :
    RelE A C E VR' (m₁ >>= f₁) (m₂ >>= f₂) := by
  intro s t hA
  have h := hm s t hA
  rw [exec_bind, exec_bind]
  rcases h1 : exec m₁ s with ⟨r1, s1⟩
  rcases h2 : exec m₂ t with ⟨r2, t1⟩
  rw [h1, h2] at h
  cases r1 <;> cases r2 <;> simp only at h ⊢
  · exact h
  · exact hf _ _ h.1 _ _ h.2

theorem bindEq {α β β'} {VR' : β → β' → Prop} {m : M α} {f₁ : α → M β} {f₂ : α → M β'}
    (hm : RelE A B E Eq m m) (hf : ∀ a, RelE B C E VR' (f₁ a) (f₂ a)) :
    RelE A C E VR' (m >>= f₁) (m >>= f₂) :=
  bind hm (fun a b hab => by subst hab; exact hf a)

theorem conseq {α β} {A' B' E' : State → State → Prop} {VR VR' : α → β → Prop} {m₁ : M α} {m₂ : M β}
    (h : RelE A B E VR m₁ m₂) (hA : ∀ s t, A' s t → A s t) (hB : ∀ s t, B s t → B' s t)
    (hE : ∀ s t, E s t → E' s t) (hV : ∀ a b, VR a b → VR' a b) :
    RelE A' B' E' VR' m₁ m₂ := by
  intro s t h'
  have := h s t (hA s t h')
  rcases h1 : exec m₁ s with ⟨r1, s1⟩
  rcases h2 : exec m₂ t with ⟨r2, t1⟩
  rw [h1, h2] at this
  cases r1 <;> cases r2 <;> simp only at this ⊢
  · exact ⟨this.1, hE _ _ this.2⟩
  · exact ⟨hV _ _ this.1, hB _ _ this.2⟩

theorem post {α β} {B' : State → State → Prop} {VR : α → β → Prop} {m₁ : M α} {m₂ : M β}
    (h : RelE A B E VR m₁ m₂) (hB : ∀ s t, B s t → B' s t) : RelE A B' E VR m₁ m₂ :=
  h.conseq (fun _ _ h => h) hB (fun _ _ h => h) (fun _ _ h => h)

theorem pre {α β} {A' : State → State → Prop} {VR : α → β → Prop} {m₁ : M α} {m₂ : M β}
    (h : RelE A B E VR m₁ m₂) (hA : ∀ s t, A' s t → A s t) : RelE A' B E VR m₁ m₂ :=
  h.conseq hA (fun _ _ h => h) (fun _ _ h => h) (fun _ _ h => h)

theorem modS {f₁ f₂ : State → State} (h : ∀ s t, A s t → B (f₁ s) (f₂ t)) :
    RelE A B E Eq (VM.modS f₁) (VM.modS f₂) := by
  intro s t hA; exact ⟨rfl, h s t hA⟩

theorem ite {α β} {VR : α → β → Prop} {c : Prop} [Decidable c] {a₁ b₁ : M α} {a₂ b₂ : M β}
    (ha : RelE A B E VR a₁ a₂) (hb : RelE A B E VR b₁ b₂) :
    RelE A B E VR (if c then a₁ else b₁) (if c then a₂ else b₂) := by
  split <;> assumption

theorem ofFalse {α β} {VR : α → β → Prop} {m₁ : M α} {m₂ : M β} :
    RelE (fun _ _ => False) B E VR m₁ m₂ := fun _ _ h => h.elim

/-- a hypothesis about the related pre-states may be used to build the triple -/
theorem assume {α β} {VR : α → β → Prop} {m₁ : M α} {m₂ : M β}
    (h : ∀ s t, A s t → RelE (fun s' t' => s' = s ∧ t' = t) B E VR m₁ m₂) : RelE A B E VR m₁ m₂ := by
  intro s t hA
  exact h s t hA s t ⟨rfl, rfl⟩

theorem forIn_list {α β} (l : List α) (init : β) (f : α → β → M (ForInStep β))
    (hf : ∀ a b, RelE A A E Eq (f a b) (f a b)) : RelE A A E Eq (forIn l init f) (forIn l init f) := by
  induction l generalizing init with
  | nil => exact RelE.pure rfl
  | cons a as ih =>
    rw [List.forIn_cons]
    refine RelE.bind (hf a init) ?_
    intro x y hxy
    subst hxy
    cases x with
    | done b => exact RelE.pure rfl
    | yield b => exact ih b

theorem forIn_range {β} (r : Std.Legacy.Range) (init : β) (f : Nat → β → M (ForInStep β))
    (hf : ∀ a b, RelE A A E Eq (f a b) (f a b)) : RelE A A E Eq (forIn r init f) (forIn r init f) := by
  rw [Std.Legacy.Range.forIn_eq_forIn_range']
  exact forIn_list _ _ _ hf

/-- what a triple says about two concrete runs -/
theorem elim {α β} {VR : α → β → Prop} {m₁ : M α} {m₂ : M β} (h : RelE A B E VR m₁ m₂) {s t : State}
    (hA : A s t) :
    (∃ a b s' t', exec m₁ s = (.ok a, s') ∧ exec m₂ t = (.ok b, t') ∧ VR a b ∧ B s' t') ∨
    (∃ e s' t', exec m₁ s = (.error e, s') ∧ exec m₂ t = (.error e, t') ∧ E s' t') := by
  have := h s t hA
  rcases h1 : exec m₁ s with ⟨r1, s1⟩
  rcases h2 : exec m₂ t with ⟨r2, t1⟩
  rw [h1, h2] at this
  cases r1 <;> cases r2 <;> simp only at this
  · obtain ⟨he, hE⟩ := this
    subst he
    exact Or.inr ⟨_, _, _, rfl, rfl, hE⟩
  · exact Or.inl ⟨_, _, _, _, rfl, rfl, this.1, this.2⟩

theorem mk' {α β} {VR : α → β → Prop} {m₁ : M α} {m₂ : M β}
    (h : ∀ s t, A s t →
      match exec m₁ s, exec m₂ t with
      | (.ok a, s'), (.ok b, t') => VR a b ∧ B s' t'
      | (.error e, s'), (.error e', t') => e = e' ∧ E s' t'
      | _, _ => False) : RelE A B E VR m₁ m₂ := h

theorem run {α β} {VR : α → β → Prop} {m₁ : M α} {m₂ : M β} (h : RelE A B E VR m₁ m₂) :
    ∀ s t, A s t →
      match exec m₁ s, exec m₂ t with
      | (.ok a, s'), (.ok b, t') => VR a b ∧ B s' t'
      | (.error e, s'), (.error e', t') => e = e' ∧ E s' t'
      | _, _ => False := h

end RelE
attribute [irreducible] RelE

/-! ### code -/

open UgoVerif.Gen.Opcodes in
/-- total operand width of an opcode in the current layout (0 for an unknown opcode) -/
def opW (op : Nat) : Nat := ((opcodeOperands op).getD []).sum

/-- the re-encoded opcodes -/
def isJ (op : Nat) : Bool :=
  op == OpJump || op == OpJumpFalsy || op == OpAndJump || op == OpOrJump || op == OpSetupTry

/-- `int(ins[i+1]) | int(ins[i])<<8` -/
def rd2 (a : Array UInt8) (i : Nat) : Nat := (a[i+1]!).toNat ||| ((a[i]!).toNat <<< 8)
def rd4 (a : Array UInt8) (i : Nat) : Nat :=
  (a[i+3]!).toNat ||| ((a[i+2]!).toNat <<< 8) ||| ((a[i+1]!).toNat <<< 16) ||| ((a[i]!).toNat <<< 24)
def rdJ (wide : Bool) (a : Array UInt8) (i : Nat) : Nat := if wide then rd4 a i else rd2 a i

/-- the `w+1` bytes of the instruction at `o` are the bytes at `φ o` of the target -/
structure Win (src tgt : Array UInt8) (φ : Nat → Nat) (o w : Nat) : Prop where
  s : o + w < src.size
  t : φ o + w < tgt.size
  eq : ∀ k, k ≤ w → tgt[φ o + k]! = src[o + k]!

/-- a jump / catch / finally / return address and its image: `0` (absent) stays `0`, every other
    address is an instruction offset and goes through `φ` -/
def ARel (φ : Nat → Nat) (B : Nat → Prop) (a b : Int) : Prop :=
  (a = 0 ∧ b = 0) ∨ (∃ n : Nat, 0 < n ∧ 0 < φ n ∧ B n ∧ a = n ∧ b = φ n)

/-- What relocation needs of one function: `B` = its instruction offsets in the source stream.
    * an instruction that is not re-encoded has the same bytes at `φ o`, and the instruction behind
      it (if it can fall through: every opcode but RETURN) starts at an offset that `φ` moves by
      the same amount;
    * a jump's operand is an instruction offset and the target holds its image;
    * SETUPTRY's operands are `0` or instruction offsets, likewise. -/
structure CodeRel (wide : Bool) (φ : Nat → Nat) (B : Nat → Prop) (src tgt : Array UInt8) : Prop where
  mono : ∀ a b, a < b → φ a < φ b
  fin0 : B 0 → (src[0]!).toNat = OpFinalizer → φ 0 = 0
  plain : ∀ o, B o → isJ (src[o]!).toNat = false →
    Win src tgt φ o (opW (src[o]!).toNat) ∧
    ((src[o]!).toNat ≠ OpReturn →
      B (o + opW (src[o]!).toNat + 1) ∧ φ (o + opW (src[o]!).toNat + 1) = φ o + opW (src[o]!).toNat + 1)
  jump : ∀ o, B o → isJ (src[o]!).toNat = true → (src[o]!).toNat ≠ OpSetupTry →
    o + jw wide < src.size ∧ φ o + 4 < tgt.size ∧ tgt[φ o]! = src[o]! ∧
    B (rdJ wide src (o + 1)) ∧ rd4 tgt (φ o + 1) = φ (rdJ wide src (o + 1)) ∧
    B (o + jw wide + 1) ∧ φ (o + jw wide + 1) = φ o + 5
  try_ : ∀ o, B o → (src[o]!).toNat = OpSetupTry →
    o + 2 * jw wide < src.size ∧ φ o + 8 < tgt.size ∧ tgt[φ o]! = src[o]! ∧
    ARel φ B (rdJ wide src (o + 1)) (rd4 tgt (φ o + 1)) ∧
    ARel φ B (rdJ wide src (o + 1 + jw wide)) (rd4 tgt (φ o + 5)) ∧
    B (o + 2 * jw wide + 1) ∧ φ (o + 2 * jw wide + 1) = φ o + 9

/-- the two programs: per function index its source and target code, offset map and instruction
    offsets -/
structure Params where
  wide : Bool
  cs : Array Code
  ct : Array Code
  Φ : Nat → Nat → Nat
  BB : Nat → Nat → Prop

/-- a function that may be entered: it exists, starts with an instruction and offset 0 stays 0 -/
def Params.Entry (P : Params) (c : Nat) : Prop := c < P.cs.size ∧ P.BB c 0 ∧ P.Φ c 0 = 0

structure Params.OK (P : Params) : Prop where
  size : P.ct.size = P.cs.size
  numParams : ∀ c : Nat, (P.ct[c]!).numParams = (P.cs[c]!).numParams
  numLocals : ∀ c : Nat, (P.ct[c]!).numLocals = (P.cs[c]!).numLocals
  variadic : ∀ c : Nat, (P.ct[c]!).variadic = (P.cs[c]!).variadic
  rel : ∀ c, c < P.cs.size → CodeRel P.wide (P.Φ c) (P.BB c) (P.cs[c]!).insts (P.ct[c]!).insts

/-! ### states -/

structure HRel (φ : Nat → Nat) (B : Nat → Prop) (h g : Handler) : Prop where
  sp : g.sp = h.sp
  err : g.err = h.err
  catch_ : ARel φ B h.catch_ g.catch_
  finally_ : ARel φ B h.finally_ g.finally_
  returnTo : ARel φ B h.returnTo g.returnTo

def HLRel (φ : Nat → Nat) (B : Nat → Prop) : List Handler → List Handler → Prop
  | [], [] => True
  | h :: r, g :: r' => HRel φ B h g ∧ HLRel φ B r r'
  | _, _ => False

def HsRel (φ : Nat → Nat) (B : Nat → Prop) : Option (List Handler) → Option (List Handler) → Prop
  | none, none => True
  | some l, some l' => HLRel φ B l l'
  | _, _ => False

/-- frames: everything equal but the handler addresses and, for a frame below the current one
    (`below`), the saved `ip` (the offset of the instruction behind the call, minus one) -/
structure FrRel (φ : Nat → Nat) (B : Nat → Prop) (below : Prop) (f g : Frame) : Prop where
  fn : g.fn = f.fn
  free : g.free = f.free
  bp : g.bp = f.bp
  discard : g.discard = f.discard
  hs : HsRel φ B f.handlers g.handlers
  ip : below → ∃ o : Nat, B o ∧ f.ip + 1 = o ∧ g.ip + 1 = φ o

/-- The relocation relation.  `ci i` = the function index frame `i` runs (ghost), `c = ci curFrame`,
    `I` relates the two instruction pointers. -/
structure R (P : Params) (ci : Nat → Nat) (c : Nat) (I : Int → Int → Prop) (s t : State) : Prop where
  stack : t.stack = s.stack
  sp : t.sp = s.sp
  heap : t.heap = s.heap
  codesS : s.codes = P.cs
  codesT : t.codes = P.ct
  consts : t.consts = s.consts
  mainFn : t.mainFn = s.mainFn
  numModules : t.numModules = s.numModules
  globals : t.globals = s.globals
  modules : t.modules = s.modules
  err : t.err = s.err
  abort : t.abort = s.abort
  steps : t.steps = s.steps
  traceOn : t.traceOn = s.traceOn
  noPanic : t.noPanic = s.noPanic
  ip : I s.ip t.ip
  curFrame : t.curFrame = s.curFrame
  frameIndex : t.frameIndex = s.frameIndex
  link : (s.curFrame : Int) + 1 = s.frameIndex
  fsS : s.frames.size = frameSize
  fsT : t.frames.size = frameSize
  cur : s.curFrame < frameSize
  curc : ci s.curFrame = c
  cok : c < P.cs.size
  cis : ∀ i, i ≤ s.curFrame → ci i < P.cs.size
  frames : ∀ i, i < frameSize →
    FrRel (P.Φ (ci i)) (P.BB (ci i)) (i < s.curFrame) (s.frames[i]!) (t.frames[i]!)
  code : ∀ i, i ≤ s.curFrame → ∀ a, (s.frames[i]!).fn = some a →
    a < s.heap.size ∧ (∀ k fr, s.heap[a]? = some (Cell.fn k fr) → k = ci i ∧ k < P.cs.size)
  fnok : ∀ (a : Nat) k fr, s.heap[a]? = some (Cell.fn k fr) → P.Entry k

/-- between two instructions: `ip + 1` is the offset `o` of the next one -/
def Ibnd (P : Params) (c o : Nat) : Int → Int → Prop := fun a b => P.BB c o ∧ a + 1 = o ∧ b + 1 = P.Φ c o
/-- inside the instruction at offset `o`, before `ip` is advanced over its operands -/
def Iat (P : Params) (c o : Nat) : Int → Int → Prop := fun a b => P.BB c o ∧ a = o ∧ b = P.Φ c o

/-- related at an instruction boundary -/
def RB (P : Params) (s t : State) : Prop := ∃ ci c o, R P ci c (Ibnd P c o) s t
/-- related, instruction pointers arbitrary (states at a panic site, or after `vm.err` is set) -/
def RM (P : Params) (s t : State) : Prop := ∃ ci c, R P ci c (fun _ _ => True) s t

theorem R.weaken {P ci c I I' s t} (h : R P ci c I s t) (hI : I s.ip t.ip → I' s.ip t.ip) : R P ci c I' s t :=
  { h with ip := hI h.ip }

theorem R.toRM {P ci c I s t} (h : R P ci c I s t) : RM P s t := ⟨ci, c, h.weaken (fun _ => trivial)⟩
theorem RB.toRM {P s t} (h : RB P s t) : RM P s t := by
  obtain ⟨ci, c, o, h⟩ := h; exact h.toRM

end UgoVerif.VM.Reloc
