import UgoVerif.Model.JsonEnc
import UgoVerif.Spec.Json
/-
  Helper lemmas for C17: string escaping produces JSON string tokens
  (for every byte string, including invalid UTF-8).
-/
namespace UgoVerif.Proofs.Json
open UgoVerif UgoVerif.Go UgoVerif.Gen.JsonTables UgoVerif.Model.JsonScan UgoVerif.Model.JsonEnc UgoVerif.Spec.Json

/-- a byte that may stand for itself inside a JSON string -/
def plain (c : UInt8) : Prop := c.toNat ≠ 0x22 ∧ c.toNat ≠ 0x5C ∧ 0x20 ≤ c.toNat

theorem strRest_plain (c : UInt8) (X : Bytes) (h : plain c) : strRest (c :: X) = strRest X := by
  obtain ⟨h1, h2, h3⟩ := h
  have e1 : (c == 0x22) = false := by
    apply beq_false_of_ne; intro h; apply h1; rw [h]; rfl
  have e2 : (c == 0x5C) = false := by
    apply beq_false_of_ne; intro h; apply h2; rw [h]; rfl
  have e3 : ¬ (c < 0x20) := by
    rw [UInt8.lt_iff_toNat_lt]; simp; omega
  conv => lhs; rw [strRest.eq_def]
  simp [e1, e2, e3]

theorem strRest_plain_prefix (p X : Bytes) (h : ∀ x ∈ p, plain x) : strRest (p ++ X) = strRest X := by
  induction p with
  | nil => rfl
  | cons c p ih =>
    rw [List.cons_append, strRest_plain c _ (h c (by simp))]
    exact ih (fun x hx => h x (by simp [hx]))

set_option maxRecDepth 8000 in
theorem htmlSafe_tab : ∀ i : Fin 128, htmlSafeSet[i.val]'(by rw [htmlSafeSet_size]; exact i.isLt) = true →
    i.val ≠ 0x22 ∧ i.val ≠ 0x5C ∧ 0x20 ≤ i.val := by decide
set_option maxRecDepth 8000 in
theorem safe_tab : ∀ i : Fin 128, safeSet[i.val]'(by rw [safeSet_size]; exact i.isLt) = true →
    i.val ≠ 0x22 ∧ i.val ≠ 0x5C ∧ 0x20 ≤ i.val := by decide

theorem htmlSafeAt_plain (b : UInt8) (h : b.toNat < 128) (hs : htmlSafeAt b h = true) : plain b :=
  htmlSafe_tab ⟨b.toNat, h⟩ hs
theorem safeAt_plain (b : UInt8) (h : b.toNat < 128) (hs : safeAt b h = true) : plain b :=
  safe_tab ⟨b.toNat, h⟩ hs

theorem hex_tab : ∀ i : Fin 16, isHex (hex[i.val]'(by rw [hex_size]; exact i.isLt)) = true := by decide
theorem hexAt_isHex (i : Nat) (h : i < 16) : isHex (hexAt i h) = true := hex_tab ⟨i, h⟩

theorem strRest_u4 (h1 h2 h3 h4 : UInt8) (X : Bytes)
    (e1 : isHex h1 = true) (e2 : isHex h2 = true) (e3 : isHex h3 = true) (e4 : isHex h4 = true) :
    strRest (0x5C :: 0x75 :: h1 :: h2 :: h3 :: h4 :: X) = strRest X := by
  conv => lhs; rw [strRest.eq_def]
  simp [isEscChar, e1, e2, e3, e4]

theorem strRest_esc1 (c : UInt8) (X : Bytes) (e : isEscChar c = true) :
    strRest (0x5C :: c :: X) = strRest X := by
  conv => lhs; rw [strRest.eq_def]
  simp [e]

theorem strRest_escByte (b : UInt8) (X : Bytes) : strRest (0x5C :: (escByte b ++ X)) = strRest X := by
  unfold escByte
  split
  · rename_i h
    apply strRest_esc1
    simp only [Bool.or_eq_true, beq_iff_eq] at h
    rcases h with rfl | rfl <;> decide
  split
  · exact strRest_esc1 _ _ (by decide)
  split
  · exact strRest_esc1 _ _ (by decide)
  split
  · exact strRest_esc1 _ _ (by decide)
  split
  · exact strRest_esc1 _ _ (by decide)
  split
  · exact strRest_esc1 _ _ (by decide)
  · exact strRest_u4 _ _ _ _ _ (by decide) (by decide) (hexAt_isHex _ _) (hexAt_isHex _ _)

theorem isCont_ge (b : UInt8) (h : isCont b = true) : 0x80 ≤ b.toNat := by
  simp [isCont, UInt8.le_iff_toNat_le] at h; omega
theorem lo3_ge (c : Nat) (b : UInt8) (h : lo3 c ≤ b) : 0x80 ≤ b.toNat := by
  rw [UInt8.le_iff_toNat_le] at h; unfold lo3 at h; split at h <;> simp at h <;> omega
theorem lo4_ge (c : Nat) (b : UInt8) (h : lo4 c ≤ b) : 0x80 ≤ b.toNat := by
  rw [UInt8.le_iff_toNat_le] at h; unfold lo4 at h; split at h <;> simp at h <;> omega

theorem decodeRune_shape (b : UInt8) (r : Bytes) (hb : ¬ b.toNat < 0x80)
    (h : ¬ ((decodeRune (b :: r)).1 = runeError ∧ (decodeRune (b :: r)).2 = 1)) :
    ∃ p q, b :: r = p ++ q ∧ p.length = (decodeRune (b :: r)).2 ∧ p ≠ [] ∧ ∀ x ∈ p, 0x80 ≤ x.toNat := by
  have hb' : 0x80 ≤ b.toNat := by omega
  by_cases h1 : b.toNat < 0xC2
  · simp [decodeRune, hb, h1] at h
  by_cases h2 : b.toNat < 0xE0
  · cases r with
    | nil => simp [decodeRune, hb, h1, h2] at h
    | cons b1 r1 =>
      by_cases hc : isCont b1 = true
      · refine ⟨[b, b1], r1, rfl, by simp [decodeRune, hb, h1, h2, hc], by simp, ?_⟩
        intro x hx; simp at hx; rcases hx with rfl | rfl
        · exact hb'
        · exact isCont_ge _ hc
      · simp [decodeRune, hb, h1, h2, hc] at h
  by_cases h3 : b.toNat < 0xF0
  · match r with
    | [] => simp [decodeRune, hb, h1, h2, h3] at h
    | [_] => simp [decodeRune, hb, h1, h2, h3] at h
    | b1 :: b2 :: r2 =>
      by_cases hc : (decide (lo3 b.toNat ≤ b1) && decide (b1 ≤ hi3 b.toNat) && isCont b2) = true
      · refine ⟨[b, b1, b2], r2, rfl, by simp [decodeRune, hb, h1, h2, h3, hc], by simp, ?_⟩
        simp only [Bool.and_eq_true, decide_eq_true_eq] at hc
        obtain ⟨⟨c1, _⟩, c3⟩ := hc
        intro x hx; simp at hx; rcases hx with rfl | rfl | rfl
        · exact hb'
        · exact lo3_ge _ _ c1
        · exact isCont_ge _ c3
      · simp [decodeRune, hb, h1, h2, h3, hc] at h
  by_cases h4 : b.toNat < 0xF5
  · match r with
    | [] => simp [decodeRune, hb, h1, h2, h3, h4] at h
    | [_] => simp [decodeRune, hb, h1, h2, h3, h4] at h
    | [_, _] => simp [decodeRune, hb, h1, h2, h3, h4] at h
    | b1 :: b2 :: b3 :: r3 =>
      by_cases hc : (decide (lo4 b.toNat ≤ b1) && decide (b1 ≤ hi4 b.toNat) && isCont b2 && isCont b3) = true
      · refine ⟨[b, b1, b2, b3], r3, rfl, by simp [decodeRune, hb, h1, h2, h3, h4, hc], by simp, ?_⟩
        simp only [Bool.and_eq_true, decide_eq_true_eq] at hc
        obtain ⟨⟨⟨c1, _⟩, c3⟩, c4⟩ := hc
        intro x hx; simp at hx; rcases hx with rfl | rfl | rfl | rfl
        · exact hb'
        · exact lo4_ge _ _ c1
        · exact isCont_ge _ c3
        · exact isCont_ge _ c4
      · simp [decodeRune, hb, h1, h2, h3, h4, hc] at h
  · simp [decodeRune, hb, h1, h2, h3, h4] at h

theorem plain_of_ge (x : UInt8) (h : 0x80 ≤ x.toNat) : plain x := by
  unfold plain; omega

/-- the escaped body of a string never ends the string token and never contains a
    malformed escape: scanning it leaves the recogniser inside the string -/
theorem escapeAux_valid (esc : Bool) : ∀ (fuel : Nat) (s : Bytes), s.length ≤ fuel →
    ∀ X, strRest (escapeAux esc fuel s ++ X) = strRest X := by
  intro fuel
  induction fuel with
  | zero =>
    intro s hs X
    have : s = [] := List.eq_nil_of_length_eq_zero (by omega)
    subst this; rfl
  | succ n ih =>
    intro s hs X
    cases s with
    | nil => rfl
    | cons b r =>
      have hr : r.length ≤ n := by simp at hs; omega
      unfold escapeAux
      split
      · rename_i h
        split
        · rename_i hsafe
          have hp : plain b := by
            simp only [Bool.or_eq_true, Bool.and_eq_true] at hsafe
            rcases hsafe with h1 | ⟨_, h2⟩
            · exact htmlSafeAt_plain b h h1
            · exact safeAt_plain b h h2
          rw [List.cons_append, strRest_plain b _ hp]
          exact ih r hr X
        · rw [List.cons_append, List.append_assoc, strRest_escByte]
          exact ih r hr X
      · rename_i h
        simp only []
        split
        · rw [show ([0x5C, 0x75, 0x66, 0x66, 0x66, 0x64] ++ escapeAux esc n r) ++ X
              = 0x5C :: 0x75 :: 0x66 :: 0x66 :: 0x66 :: 0x64 :: (escapeAux esc n r ++ X) from rfl]
          rw [strRest_u4 _ _ _ _ _ (by decide) (by decide) (by decide) (by decide)]
          exact ih r hr X
        · rename_i hinv
          have hinv' : ¬ ((decodeRune (b :: r)).1 = runeError ∧ (decodeRune (b :: r)).2 = 1) := by
            simpa using hinv
          obtain ⟨p, q, hpq, hlen, hne, hall⟩ := decodeRune_shape b r h hinv'
          have hq : q.length ≤ n := by
            have : (b :: r).length = p.length + q.length := by rw [hpq]; simp
            have : 0 < p.length := List.length_pos_iff.mpr hne
            simp at *; omega
          have hdrop : (b :: r).drop (decodeRune (b :: r)).2 = q := by
            rw [← hlen, hpq]; simp
          have htake : (b :: r).take (decodeRune (b :: r)).2 = p := by
            rw [← hlen, hpq]; simp
          split
          · rw [hdrop]
            rw [show ∀ (h6 : UInt8) (Y : Bytes), ([0x5C, 0x75, 0x32, 0x30, 0x32, h6] ++ Y) ++ X
              = 0x5C :: 0x75 :: 0x32 :: 0x30 :: 0x32 :: h6 :: (Y ++ X) from fun _ _ => rfl]
            rw [strRest_u4 _ _ _ _ _ (by decide) (by decide) (by decide) (hexAt_isHex _ _)]
            exact ih q hq X
          · rw [hdrop, htake, List.append_assoc,
              strRest_plain_prefix p _ (fun x hx => plain_of_ge x (hall x hx))]
            exact ih q hq X

/-- `e.string(s, escapeHTML)` writes exactly one JSON string token -/
theorem quoteString_string (esc : Bool) (s rest : Bytes) :
    Spec.Json.string (quoteString esc s ++ rest) = some rest := by
  unfold quoteString
  simp only [List.cons_append, List.append_assoc, Spec.Json.string]
  simp only [beq_self_eq_true, if_true]
  rw [escapeAux_valid esc s.length s (Nat.le_refl _)]
  conv => lhs; rw [strRest.eq_def]
  simp

end UgoVerif.Proofs.Json
