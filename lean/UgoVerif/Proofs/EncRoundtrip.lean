import UgoVerif.Proofs.EncVarint
import UgoVerif.Spec.EncNorm
/-
  Helper lemmas for C04: the decoder model applied to the encoder model's output.
-/
set_option linter.unusedSimpArgs false
namespace UgoVerif.Proofs.Enc
open UgoVerif.Go UgoVerif.Model.Enc UgoVerif.Gen.EncTags UgoVerif.Spec.Enc

/-- discharge `if`s whose conditions are linear arithmetic facts -/
macro "ifs" : tactic =>
  `(tactic| repeat (first | rw [if_neg (by omega)] | rw [if_pos (by omega)]))

/-! ### projecting the result out of the log monad -/

@[simp] theorem res_bind {α β} (x : DM α) (f : α → DM β) :
    (x >>= f).res = x.res >>= fun a => (f a).res := by
  show (DM.bind x f).res = _
  unfold DM.bind
  cases h : x.res <;> simp
@[simp] theorem res_pure {α} (a : α) : (pure a : DM α).res = .ok a := rfl
@[simp] theorem res_liftM {α} (r : Res α) : (liftM r : DM α).res = r := rfl
@[simp] theorem res_ofRes {α} (r : Res α) : (DM.ofRes r).res = r := rfl
@[simp] theorem res_tick (n : Nat) : (DM.tick n).res = .ok () := rfl
theorem res_ite {α} (c : Prop) [Decidable c] (x y : DM α) :
    (if c then x else y).res = if c then x.res else y.res := by split <;> rfl

@[simp] theorem ok_bind {α β} (a : α) (f : α → Res β) : (Res.ok a >>= f) = f a := rfl

/-! ### tags -/

theorem tags_distinct : (allTags.map (·.2)).Nodup := by decide

/-! ### scalars -/

theorem inInt64_toInt (v : BitVec 64) : inInt64 v.toInt = true := by
  have h1 := BitVec.toInt_lt (x := v)
  have h2 := BitVec.le_toInt (x := v)
  simp [inInt64]; omega

theorem inInt64_toInt32 (v : BitVec 32) : inInt64 v.toInt = true ∧ inInt32 v.toInt = true := by
  have h1 := BitVec.toInt_lt (x := v)
  have h2 := BitVec.le_toInt (x := v)
  simp [inInt64, inInt32]; omega

theorem inInt64_ofNat (n : Nat) (h : n < 2 ^ 63) : inInt64 (n : Int) = true := by
  simp [inInt64]; omega

theorem readFull_append (p rest : Bytes) : readFull p.length (p ++ rest) = .ok (p, rest) := by
  unfold readFull
  rw [if_neg (by simp)]
  simp

theorem decodeNum_int (v : BitVec 64) (rest : Bytes) :
    (decodeNum binIntV1 ((encodeInt v).tail ++ rest)).res = .ok (.int v, rest) := by
  unfold encodeInt decodeNum
  split
  · rename_i h; subst h
    simp [readByte, unmarshalInt, binIntV1]
  · rename_i hv
    obtain ⟨h1, h10⟩ := putVarint_len v.toInt (inInt64_toInt v)
    have hb := lenByte _ h10
    have hne := lenByte_ne_zero _ h1 h10
    have hv' := varint_put v.toInt [] (inInt64_toInt v)
    simp only [List.append_nil] at hv'
    simp [readByte, hb, show (putVarint v.toInt).length > 0 by omega, readFull_append, unmarshalInt, hne, hv',
      binIntV1]
    ifs
    rfl

theorem decodeNum_uint (v : BitVec 64) (rest : Bytes) :
    (decodeNum binUintV1 ((encodeUint v).tail ++ rest)).res = .ok (.uint v, rest) := by
  unfold encodeUint decodeNum
  split
  · rename_i h; subst h
    simp [readByte, unmarshalUint, binIntV1, binUintV1]
  · rename_i hv
    have h1 := putUvarint_length_pos v.toNat
    have h10 := putUvarint_len10 v.toNat v.isLt
    have hb := lenByte _ h10
    have hne := lenByte_ne_zero _ h1 h10
    have hv' := uvarint_put v.toNat [] v.isLt
    simp only [List.append_nil] at hv'
    simp [readByte, hb, show (putUvarint v.toNat).length > 0 by omega, readFull_append, unmarshalUint, hne, hv',
      binIntV1, binUintV1]
    ifs
    rfl

theorem decodeNum_float (v : F64) (rest : Bytes) :
    (decodeNum binFloatV1 ((encodeFloat v).tail ++ rest)).res = .ok (.float v, rest) := by
  unfold encodeFloat decodeNum
  split
  · rename_i h; subst h
    simp [readByte, unmarshalFloat, binIntV1, binUintV1, binFloatV1]
  · rename_i hv
    have h1 := putUvarint_length_pos v.toNat
    have h10 := putUvarint_len10 v.toNat v.isLt
    have hb := lenByte _ h10
    have hne := lenByte_ne_zero _ h1 h10
    have hv' := uvarint_put v.toNat [] v.isLt
    simp only [List.append_nil] at hv'
    simp [readByte, hb, show (putUvarint v.toNat).length > 0 by omega, readFull_append, unmarshalFloat, hne, hv',
      binIntV1, binUintV1, binFloatV1]
    ifs
    rfl

theorem decodeNum_char (v : BitVec 32) (rest : Bytes) :
    (decodeNum binCharV1 ((encodeChar v).tail ++ rest)).res = .ok (.char v, rest) := by
  unfold encodeChar decodeNum
  split
  · rename_i h; subst h
    simp [readByte, unmarshalChar, binIntV1, binUintV1, binFloatV1, binCharV1]
  · rename_i hv
    obtain ⟨hi64, hi32⟩ := inInt64_toInt32 v
    obtain ⟨h1, h10⟩ := putVarint_len v.toInt hi64
    have hb := lenByte _ h10
    have hne := lenByte_ne_zero _ h1 h10
    have hv' := varint_put v.toInt [] hi64
    simp only [List.append_nil] at hv'
    simp [readByte, hb, show (putVarint v.toInt).length > 0 by omega, readFull_append, unmarshalChar, hne, hv',
      binIntV1, binUintV1, binFloatV1, binCharV1, hi32]
    ifs
    rfl

/-! ### size-prefixed objects -/

/-- reading the size prefix and the payload of a size-prefixed object written by the encoder -/
theorem decodeSized_enc (C : Ctx) (cfL arrL mapL) (btype : UInt8) (p rest : Bytes) (hp : p.length < 2 ^ 63) :
    (decodeSized C cfL arrL mapL btype (toBytes p.length ++ p ++ rest)).res =
      (decodeSizedBuf C cfL arrL mapL btype (toBytes p.length) p).res >>= fun o => .ok (o, rest) := by
  unfold decodeSized
  have hin := inInt64_ofNat p.length hp
  simp only [res_bind, res_liftM, List.append_assoc, viReadBytes_toBytes _ _ hin, ok_bind]
  rw [res_ite]
  rw [if_neg (by omega)]
  simp only [res_bind, res_tick, ok_bind, res_liftM]
  by_cases h0 : p.length = 0
  · have : p = [] := List.eq_nil_of_length_eq_zero h0
    subst this
    simp
  · rw [if_pos (by omega)]
    simp [readFull_append]

/-- the `[tag, 0]` short form: size prefix byte 0, no payload -/
theorem decodeSized_zero (C : Ctx) (cfL arrL mapL) (btype : UInt8) (rest : Bytes) :
    (decodeSized C cfL arrL mapL btype (0 :: rest)).res =
      (decodeSizedBuf C cfL arrL mapL btype [0] []).res >>= fun o => .ok (o, rest) := by
  unfold decodeSized
  simp [viReadBytes]

theorem slice_mid (a p : Bytes) : slice (a ++ p) a.length (a.length + p.length) = .ok p := by
  unfold slice
  rw [if_pos (by simp)]
  simp

theorem sizedPayload_enc (tag : UInt8) (what : String) (p : Bytes) (h0 : 0 < p.length) (hp : p.length < 2 ^ 63) :
    sizedPayload tag what (tag :: toBytes p.length ++ p) = .ok (some p) := by
  have hin := inInt64_ofNat p.length hp
  obtain ⟨hl2, hl11⟩ := toBytes_length p.length hin
  unfold sizedPayload
  cases htb : toBytes (p.length : Int) with
  | nil => rw [htb] at hl2; simp at hl2
  | cons a b =>
    simp only [List.cons_append]
    rw [if_neg (by simp)]
    have := toVarint_toBytes p.length p hin
    rw [htb] at this
    simp only [List.cons_append] at this
    rw [this]
    simp only
    rw [if_neg (by omega), if_neg (by simp; omega)]
    have hs := slice_mid (tag :: a :: b) p
    simp only [List.cons_append, List.length_cons] at hs
    simp only [List.length_cons, List.length_append]
    rw [if_neg (by omega)]
    have e1 : 1 + (b.length + 1) = b.length + 1 + 1 := by omega
    have e2 : ((p.length : Int)).toNat = p.length := by omega
    rw [e1, e2, hs]

theorem sizedPayload_zero (tag : UInt8) (what : String) : sizedPayload tag what [tag, 0] = .ok none := by
  simp [sizedPayload, toVarint]

/-- empty payload written in the long form `tag :: toBytes 0` (maps) -/
theorem sizedPayload_toBytes0 (tag : UInt8) (what : String) :
    sizedPayload tag what (tag :: toBytes 0 ++ []) = .ok none := by
  have := toVarint_toBytes 0 [] (by decide)
  unfold sizedPayload
  cases htb : toBytes 0 with
  | nil => simp [toBytes] at htb
  | cons a b =>
    rw [htb] at this
    simp only [List.cons_append, List.append_nil] at this ⊢
    rw [if_neg (by simp), this]
    simp

theorem unmarshalString_enc (s : Bytes) (hp : s.length < 2 ^ 63) :
    unmarshalString (encodeSized binStringV1 s) = .ok s := by
  unfold encodeSized unmarshalString
  by_cases h0 : s.length = 0
  · have : s = [] := List.eq_nil_of_length_eq_zero h0
    subst this
    rw [if_pos h0, sizedPayload_zero]
  · rw [if_neg h0, sizedPayload_enc _ _ s (by omega) hp]

theorem unmarshalBytes_enc (s : Bytes) (hp : s.length < 2 ^ 63) :
    unmarshalBytes (encodeSized binBytesV1 s) = .ok s := by
  unfold encodeSized unmarshalBytes
  by_cases h0 : s.length = 0
  · have : s = [] := List.eq_nil_of_length_eq_zero h0
    subst this
    rw [if_pos h0, sizedPayload_zero]
  · rw [if_neg h0, sizedPayload_enc _ _ s (by omega) hp]

theorem encodeSized_length (tag : UInt8) (s : Bytes) (hp : s.length < 2 ^ 63) :
    2 ≤ (encodeSized tag s).length ∧ s.length ≤ (encodeSized tag s).length := by
  unfold encodeSized
  split
  · simp; omega
  · have := toBytes_length s.length (inInt64_ofNat _ hp)
    simp; omega

theorem unmarshalFuncName_enc (tag : UInt8) (what : String) (name : Bytes)
    (hs : (encodeSized binStringV1 name).length < 2 ^ 63) :
    unmarshalFuncName tag what (encodeFuncName tag name) = .ok name := by
  have hname : name.length < 2 ^ 63 := by
    have : name.length ≤ (encodeSized binStringV1 name).length := by
      unfold encodeSized; split <;> simp <;> omega
    omega
  obtain ⟨h2, _⟩ := encodeSized_length binStringV1 name hname
  have hin := inInt64_ofNat _ hs
  obtain ⟨hl2, hl11⟩ := toBytes_length _ hin
  unfold encodeFuncName unmarshalFuncName
  simp only
  cases htb : toBytes ((encodeSized binStringV1 name).length : Int) with
  | nil => rw [htb] at hl2; simp at hl2
  | cons a b =>
    simp only [List.cons_append]
    rw [if_neg (by simp)]
    have := toVarint_toBytes _ (encodeSized binStringV1 name) hin
    rw [htb] at this
    simp only [List.cons_append] at this
    rw [this]
    simp only [ok_bind]
    rw [if_neg (by omega)]
    have hsl : slice (tag :: a :: (b ++ encodeSized binStringV1 name)) (1 + (a :: b).length)
        (tag :: a :: (b ++ encodeSized binStringV1 name)).length = .ok (encodeSized binStringV1 name) := by
      have := slice_mid (tag :: a :: b) (encodeSized binStringV1 name)
      simp only [List.cons_append, List.length_cons, List.length_append] at this ⊢
      have e1 : 1 + (b.length + 1) = b.length + 1 + 1 := by omega
      have e2 : b.length + (encodeSized binStringV1 name).length + 1 + 1 =
          b.length + 1 + 1 + (encodeSized binStringV1 name).length := by omega
      rw [e1, e2, this]
    rw [hsl]
    simp only [ok_bind]
    exact unmarshalString_enc name hname

/-! ### compiled functions -/

def encPairs (sm : List (BitVec 64 × BitVec 64)) : Bytes :=
  (sm.map fun kv => toBytes kv.1.toInt ++ toBytes kv.2.toInt).flatten

theorem encPairs_cons (kv : BitVec 64 × BitVec 64) (sm) :
    encPairs (kv :: sm) = toBytes kv.1.toInt ++ toBytes kv.2.toInt ++ encPairs sm := by
  simp [encPairs]

theorem encPairs_length (sm : List (BitVec 64 × BitVec 64)) : 4 * sm.length ≤ (encPairs sm).length := by
  induction sm with
  | nil => simp [encPairs]
  | cons kv sm ih =>
    have h1 := toBytes_length kv.1.toInt (inInt64_toInt _)
    have h2 := toBytes_length kv.2.toInt (inInt64_toInt _)
    rw [encPairs_cons]; simp only [List.length_append, List.length_cons]; omega

theorem smLoop_enc (sm : List (BitVec 64 × BitVec 64)) (tl : Bytes) :
    smLoop sm.length (encPairs sm ++ tl) = .ok (sm, tl) := by
  induction sm with
  | nil => simp [smLoop, encPairs]
  | cons kv sm ih =>
    rw [encPairs_cons]
    simp only [List.length_cons, smLoop, List.append_assoc]
    rw [viRead_toBytes _ _ (inInt64_toInt _)]
    simp only [ok_bind]
    rw [viRead_toBytes _ _ (inInt64_toInt _)]
    simp only [ok_bind]
    rw [ih]
    simp [BitVec.ofInt_toInt]

theorem cf_end (C : Ctx) (n : Nat) (g : CF) : (cfLoopF C (n + 1) [] g).res = .ok g := by
  simp [cfLoopF]

theorem cf_step0 (C : Ctx) (n : Nat) (v : BitVec 64) (tl : Bytes) (g : CF) :
    (cfLoopF C (n + 1) (0 :: toBytes v.toInt ++ tl) g).res =
      (cfLoopF C n tl { g with numParams := v }).res := by
  rw [cfLoopF]
  simp [readByte, viRead_toBytes _ _ (inInt64_toInt _), BitVec.ofInt_toInt]

theorem cf_step1 (C : Ctx) (n : Nat) (v : BitVec 64) (tl : Bytes) (g : CF) :
    (cfLoopF C (n + 1) (1 :: toBytes v.toInt ++ tl) g).res =
      (cfLoopF C n tl { g with numLocals := v }).res := by
  rw [cfLoopF]
  simp [readByte, viRead_toBytes _ _ (inInt64_toInt _), BitVec.ofInt_toInt]

theorem cf_step3 (C : Ctx) (n : Nat) (tl : Bytes) (g : CF) :
    (cfLoopF C (n + 1) (3 :: tl) g).res = (cfLoopF C n tl { g with variadic := true }).res := by
  rw [cfLoopF]
  simp [readByte]

theorem cf_step5 (C : Ctx) (n : Nat) (sm : List (BitVec 64 × BitVec 64)) (tl : Bytes) (g : CF)
    (hsm : (encPairs sm).length < 2 ^ 63) :
    (cfLoopF C (n + 1) (5 :: toBytes ((sm.length : Int) * 2) ++ encPairs sm ++ tl) g).res =
      (cfLoopF C n tl { g with sourceMap := some (mapOfList sm) }).res := by
  have hl := encPairs_length sm
  have hin : inInt64 ((sm.length : Int) * 2) = true := by simp [inInt64]; omega
  rw [cfLoopF]
  simp only [List.cons_append, List.isEmpty_cons, Bool.false_eq_true, if_false, res_bind, res_liftM, readByte, ok_bind,
    List.append_assoc, viRead_toBytes _ _ hin]
  simp only [show ¬ ((5 : UInt8) = 0) by decide, show ¬ ((5 : UInt8) = 1) by decide,
    show ¬ ((5 : UInt8) = 2) by decide, show ¬ ((5 : UInt8) = 3) by decide,
    show ¬ ((5 : UInt8) = 4) by decide, if_false, if_true, res_bind, res_liftM, viRead_toBytes _ _ hin, ok_bind]
  rw [res_ite, if_neg (by simp only [List.length_append]; omega)]
  have hsz : ((sm.length : Int) * 2 / 2).toNat = sm.length := by omega
  simp only [res_bind, res_tick, ok_bind, res_liftM, hsz, smLoop_enc]

/-- field 2: the instructions, an embedded `Bytes` object -/
theorem cf_step2 (C : Ctx) (n : Nat) (i : Bytes) (tl : Bytes) (g : CF)
    (hdec : (decodeObjectF C n (encodeSized binBytesV1 i ++ tl)).res = .ok (.bytes i, tl)) :
    (cfLoopF C (n + 1) (2 :: encodeSized binBytesV1 i ++ tl) g).res =
      (cfLoopF C n tl { g with instructions := some i }).res := by
  rw [cfLoopF]
  simp only [List.cons_append, List.isEmpty_cons, Bool.false_eq_true, if_false, res_bind, res_liftM, readByte,
    ok_bind, show ¬ ((2 : UInt8) = 0) by decide, show ¬ ((2 : UInt8) = 1) by decide, if_true, hdec]

/-! ### `DecodeObject` dispatch on the tag byte -/

theorem dispatch_sized (C : Ctx) (n : Nat) (t : UInt8) (r : Bytes)
    (h : t = binCompiledFunctionV1 ∨ t = binArrayV1 ∨ t = binBytesV1 ∨ t = binStringV1 ∨ t = binMapV1 ∨
         t = binSyncMapV1 ∨ t = binFunctionV1 ∨ t = binBuiltinFunctionV1) :
    (decodeObjectF C (n + 1) (t :: r)).res =
      (decodeSized C (cfLoopF C n) (arrayLoopF C n) (mapLoopF C n) t r).res := by
  rw [decodeObjectF]
  rcases h with h | h | h | h | h | h | h | h <;> subst h <;>
    simp [readByte, isNumTag, isSizedTag, binUndefinedV1, binTrueV1, binFalseV1, binIntV1, binUintV1, binCharV1,
      binFloatV1, binStringV1, binBytesV1, binArrayV1, binMapV1, binSyncMapV1, binCompiledFunctionV1,
      binFunctionV1, binBuiltinFunctionV1]

theorem dispatch_num (C : Ctx) (n : Nat) (t : UInt8) (r : Bytes)
    (h : t = binIntV1 ∨ t = binUintV1 ∨ t = binFloatV1 ∨ t = binCharV1) :
    (decodeObjectF C (n + 1) (t :: r)).res = (decodeNum t r).res := by
  rw [decodeObjectF]
  rcases h with h | h | h | h <;> subst h <;>
    simp [readByte, isNumTag, binUndefinedV1, binTrueV1, binFalseV1, binIntV1, binUintV1, binCharV1, binFloatV1]

theorem dispatch_gob (C : Ctx) (n : Nat) (r : Bytes) :
    (decodeObjectF C (n + 1) (binUnkownType :: r)).res = (decodeGob C r).res := by
  rw [decodeObjectF]
  simp [readByte, isNumTag, isSizedTag, binUndefinedV1, binTrueV1, binFalseV1, binIntV1, binUintV1, binCharV1,
      binFloatV1, binStringV1, binBytesV1, binArrayV1, binMapV1, binSyncMapV1, binCompiledFunctionV1,
      binFunctionV1, binBuiltinFunctionV1, binUnkownType]

theorem cons_tail_of_head {t : UInt8} {l : Bytes} (h : l.head? = some t) : l = t :: l.tail := by
  cases l with
  | nil => simp at h
  | cons a b => simp at h; subst h; rfl

/-- `Bytes` objects round-trip (needed for the instructions of a compiled function) -/
theorem rt_bytes (C : Ctx) (n : Nat) (s rest : Bytes) (hp : s.length < 2 ^ 63) :
    (decodeObjectF C (n + 1) (encodeSized binBytesV1 s ++ rest)).res = .ok (.bytes s, rest) := by
  have hu := unmarshalBytes_enc s hp
  unfold encodeSized at hu ⊢
  by_cases h0 : s.length = 0
  · have : s = [] := List.eq_nil_of_length_eq_zero h0
    subst this
    rw [if_pos h0] at hu ⊢
    simp only [List.cons_append, List.nil_append]
    rw [dispatch_sized C n _ _ (by simp), decodeSized_zero]
    unfold decodeSizedBuf
    simp only [binBytesV1, binCompiledFunctionV1, binArrayV1] at hu ⊢
    simp [hu]
  · rw [if_neg h0] at hu ⊢
    simp only [List.cons_append]
    rw [dispatch_sized C n _ _ (by simp), decodeSized_enc _ _ _ _ _ _ _ hp]
    unfold decodeSizedBuf
    simp only [binBytesV1, binCompiledFunctionV1, binArrayV1, List.cons_append] at hu ⊢
    simp [hu]

/-! ### compiled functions: the five optional fields in order -/

theorem succ_of_pos {n : Nat} (h : 1 ≤ n) : ∃ m, n = m + 1 := ⟨n - 1, by omega⟩

theorem cf_part0 (C : Ctx) (f : CF) (n : Nat) (hn : 1 ≤ n) (tl : Bytes) (g : CF) :
    (cfLoopF C n ((if 0 < f.numParams.toInt then 0 :: toBytes f.numParams.toInt else []) ++ tl) g).res =
      (cfLoopF C (n - (if 0 < f.numParams.toInt then 1 else 0)) tl
        (if 0 < f.numParams.toInt then { g with numParams := f.numParams } else g)).res := by
  obtain ⟨m, rfl⟩ := succ_of_pos hn
  split
  · simp only [List.cons_append]; rw [← List.cons_append, cf_step0]; rfl
  · simp

theorem cf_part1 (C : Ctx) (f : CF) (n : Nat) (hn : 1 ≤ n) (tl : Bytes) (g : CF) :
    (cfLoopF C n ((if 0 < f.numLocals.toInt then 1 :: toBytes f.numLocals.toInt else []) ++ tl) g).res =
      (cfLoopF C (n - (if 0 < f.numLocals.toInt then 1 else 0)) tl
        (if 0 < f.numLocals.toInt then { g with numLocals := f.numLocals } else g)).res := by
  obtain ⟨m, rfl⟩ := succ_of_pos hn
  split
  · simp only [List.cons_append]; rw [← List.cons_append, cf_step1]; rfl
  · simp

theorem cf_part2 (C : Ctx) (f : CF) (n : Nat) (hn : 2 ≤ n) (tl : Bytes) (g : CF)
    (hi : ∀ i, f.instructions = some i → i.length < 2 ^ 63) :
    (cfLoopF C n ((match f.instructions with
        | some i => 2 :: encodeSized binBytesV1 i
        | none => []) ++ tl) g).res =
      (cfLoopF C (n - (if f.instructions.isSome then 1 else 0)) tl
        (match f.instructions with
         | some i => { g with instructions := some i }
         | none => g)).res := by
  obtain ⟨m, rfl⟩ := succ_of_pos (show 1 ≤ n by omega)
  obtain ⟨k, rfl⟩ := succ_of_pos (show 1 ≤ m by omega)
  cases hfi : f.instructions with
  | none => simp
  | some i =>
    simp only [List.cons_append, Option.isSome_some, if_true]
    rw [← List.cons_append, cf_step2 C (k + 1) i tl g (rt_bytes C k i tl (hi i hfi))]
    rfl

theorem cf_part3 (C : Ctx) (f : CF) (n : Nat) (hn : 1 ≤ n) (tl : Bytes) (g : CF) :
    (cfLoopF C n ((if f.variadic then [3] else []) ++ tl) g).res =
      (cfLoopF C (n - (if f.variadic then 1 else 0)) tl
        (if f.variadic then { g with variadic := true } else g)).res := by
  obtain ⟨m, rfl⟩ := succ_of_pos hn
  split
  · simp only [List.cons_append, List.nil_append]; rw [cf_step3]; rfl
  · simp

theorem cf_part5 (C : Ctx) (f : CF) (n : Nat) (hn : 1 ≤ n) (tl : Bytes) (g : CF)
    (hs : ∀ sm, f.sourceMap = some sm → (encPairs sm).length < 2 ^ 63) :
    (cfLoopF C n ((match f.sourceMap with
        | some sm => 5 :: toBytes ((sm.length : Int) * 2) ++ encPairs sm
        | none => []) ++ tl) g).res =
      (cfLoopF C (n - (if f.sourceMap.isSome then 1 else 0)) tl
        (match f.sourceMap with
         | some sm => { g with sourceMap := some (mapOfList sm) }
         | none => g)).res := by
  obtain ⟨m, rfl⟩ := succ_of_pos hn
  cases hfs : f.sourceMap with
  | none => simp
  | some sm =>
    simp only [Option.isSome_some, if_true]
    rw [cf_step5 C m sm tl g (hs sm hfs)]
    rfl

theorem rt_cf_loop (C : Ctx) (f : CF) (n : Nat) (hn : 7 ≤ n)
    (hi : ∀ i, f.instructions = some i → i.length < 2 ^ 63)
    (hs : ∀ sm, f.sourceMap = some sm → (encPairs sm).length < 2 ^ 63) :
    (cfLoopF C n
      ((if 0 < f.numParams.toInt then 0 :: toBytes f.numParams.toInt else []) ++
       (if 0 < f.numLocals.toInt then 1 :: toBytes f.numLocals.toInt else []) ++
       (match f.instructions with
        | some i => 2 :: encodeSized binBytesV1 i
        | none => []) ++
       (if f.variadic then [3] else []) ++
       (match f.sourceMap with
        | some sm => 5 :: toBytes ((sm.length : Int) * 2) ++ encPairs sm
        | none => [])) {}).res = .ok (normCF f) := by
  have e : ∀ (a b c d e : Bytes), a ++ b ++ c ++ d ++ e = a ++ (b ++ (c ++ (d ++ (e ++ [])))) := by
    intros; simp
  rw [e]
  have c0 : (if 0 < f.numParams.toInt then 1 else 0) ≤ 1 := by split <;> omega
  have c1 : (if 0 < f.numLocals.toInt then 1 else 0) ≤ 1 := by split <;> omega
  have c2 : (if f.instructions.isSome then 1 else 0) ≤ 1 := by split <;> omega
  have c3 : (if f.variadic then 1 else 0) ≤ 1 := by split <;> omega
  have c5 : (if f.sourceMap.isSome then 1 else 0) ≤ 1 := by split <;> omega
  rw [cf_part0 C f n (by omega), cf_part1 C f _ (by omega), cf_part2 C f _ (by omega) _ _ hi,
    cf_part3 C f _ (by omega), cf_part5 C f _ (by omega) _ _ hs]
  obtain ⟨m, hm⟩ := succ_of_pos (show 1 ≤ n - (if 0 < f.numParams.toInt then 1 else 0) -
      (if 0 < f.numLocals.toInt then 1 else 0) - (if f.instructions.isSome then 1 else 0) -
      (if f.variadic then 1 else 0) - (if f.sourceMap.isSome then 1 else 0) by omega)
  rw [hm, cf_end]
  obtain ⟨np, nl, ins, va, nf, sm⟩ := f
  unfold normCF
  simp only
  cases ins <;> cases sm <;> cases va <;> by_cases h0 : 0 < np.toInt <;> by_cases h1 : 0 < nl.toInt <;> simp [h0, h1]

/-- the field bytes of an encoded compiled function -/
def cfTmp (f : CF) : Bytes :=
  (if 0 < f.numParams.toInt then 0 :: toBytes f.numParams.toInt else []) ++
  (if 0 < f.numLocals.toInt then 1 :: toBytes f.numLocals.toInt else []) ++
  (match f.instructions with
   | some i => 2 :: encodeSized binBytesV1 i
   | none => []) ++
  (if f.variadic then [3] else []) ++
  (match f.sourceMap with
   | some sm => 5 :: toBytes ((sm.length : Int) * 2) ++ encPairs sm
   | none => [])

theorem encodeCF_eq (f : CF) : encodeCF f = binCompiledFunctionV1 :: toBytes (cfTmp f).length ++ cfTmp f := rfl

theorem cfTmp_bounds (f : CF) :
    (∀ i, f.instructions = some i → i.length ≤ (cfTmp f).length) ∧
    (∀ sm, f.sourceMap = some sm → (encPairs sm).length ≤ (cfTmp f).length) := by
  refine ⟨?_, ?_⟩
  · intro i hi
    unfold cfTmp
    rw [hi]
    simp only [List.length_append, List.length_cons]
    have : i.length ≤ (encodeSized binBytesV1 i).length := by
      unfold encodeSized; split <;> simp <;> omega
    omega
  · intro sm hs
    unfold cfTmp
    rw [hs]
    simp only [List.length_append, List.length_cons]
    omega

theorem rt_cf (C : Ctx) (f : CF) (n : Nat) (hn : 7 ≤ n) (rest : Bytes) (hsmall : (encodeCF f).length < 2 ^ 63) :
    (decodeObjectF C (n + 1) (encodeCF f ++ rest)).res = .ok (.compiledFunction (normCF f), rest) := by
  rw [encodeCF_eq] at hsmall ⊢
  have htmp : (cfTmp f).length < 2 ^ 63 := by
    simp only [List.length_cons, List.length_append] at hsmall; omega
  obtain ⟨hb1, hb2⟩ := cfTmp_bounds f
  have hloop := rt_cf_loop C f n hn (fun i hi => by have := hb1 i hi; omega)
    (fun sm hs => by have := hb2 sm hs; omega)
  change (cfLoopF C n (cfTmp f) {}).res = _ at hloop
  simp only [List.cons_append]
  rw [dispatch_sized C n _ _ (by simp), decodeSized_enc _ _ _ _ _ _ _ htmp]
  unfold decodeSizedBuf
  simp only [if_true, res_bind, res_pure]
  unfold unmarshalCF
  by_cases h0 : (cfTmp f).length = 0
  · have hnil : cfTmp f = [] := List.eq_nil_of_length_eq_zero h0
    rw [hnil] at hloop ⊢
    obtain ⟨m, rfl⟩ := succ_of_pos (show 1 ≤ n by omega)
    rw [cf_end] at hloop
    have hd : normCF f = {} := by injection hloop with h; exact h.symm
    simp only [List.length_nil, Int.natCast_zero] at *
    rw [sizedPayload_toBytes0]
    simp [hd]
  · rw [sizedPayload_enc _ _ _ (by omega) htmp]
    simp only [res_bind, hloop, ok_bind, res_pure]

/-! ### lengths -/

mutual
theorem encodeObject_length_pos (C : Ctx) : ∀ o : Obj, 1 ≤ (encodeObject C o).length
  | .array xs => by simp [encodeObject]; split <;> simp
  | .nil => by simp [encodeObject]
  | .map kvs => by simp [encodeObject]
  | .undefined => by simp [encodeObject]
  | .bool true => by simp [encodeObject]
  | .bool false => by simp [encodeObject]
  | .int v => by simp [encodeObject, encodeInt]; split <;> simp
  | .uint v => by simp [encodeObject, encodeUint]; split <;> simp
  | .char v => by simp [encodeObject, encodeChar]; split <;> simp
  | .float v => by simp [encodeObject, encodeFloat]; split <;> simp
  | .str v => by simp [encodeObject, encodeSized]; split <;> simp
  | .bytes v => by simp [encodeObject, encodeSized]; split <;> simp
  | .syncMap true _ => by simp [encodeObject]
  | .syncMap false _ => by simp [encodeObject]
  | .compiledFunction f => by simp [encodeObject, encodeCF]
  | .function f => by simp [encodeObject, encodeFuncName]
  | .builtinFunction f => by simp [encodeObject, encodeFuncName]
  | .gob _ _ => by simp [encodeObject]
theorem encodeList_length (C : Ctx) : ∀ xs : List Obj, xs.length ≤ (encodeList C xs).length
  | [] => by simp
  | x :: xs => by
    have h1 := encodeObject_length_pos C x
    have h2 := encodeList_length C xs
    simp [encodeList]; omega
end

theorem encodeInt_cons (v : BitVec 64) : encodeInt v = binIntV1 :: (encodeInt v).tail := by
  unfold encodeInt; split <;> rfl
theorem encodeUint_cons (v : BitVec 64) : encodeUint v = binUintV1 :: (encodeUint v).tail := by
  unfold encodeUint; split <;> rfl
theorem encodeFloat_cons (v : F64) : encodeFloat v = binFloatV1 :: (encodeFloat v).tail := by
  unfold encodeFloat; split <;> rfl
theorem encodeChar_cons (v : BitVec 32) : encodeChar v = binCharV1 :: (encodeChar v).tail := by
  unfold encodeChar; split <;> rfl

/-- `String` objects round-trip -/
theorem rt_str (C : Ctx) (n : Nat) (s rest : Bytes) (hp : s.length < 2 ^ 63) :
    (decodeObjectF C (n + 1) (encodeSized binStringV1 s ++ rest)).res = .ok (.str s, rest) := by
  have hu := unmarshalString_enc s hp
  unfold encodeSized at hu ⊢
  by_cases h0 : s.length = 0
  · have : s = [] := List.eq_nil_of_length_eq_zero h0
    subst this
    rw [if_pos h0] at hu ⊢
    simp only [List.cons_append, List.nil_append]
    rw [dispatch_sized C n _ _ (by simp), decodeSized_zero]
    unfold decodeSizedBuf
    simp only [binStringV1, binBytesV1, binCompiledFunctionV1, binArrayV1] at hu ⊢
    simp [hu]
  · rw [if_neg h0] at hu ⊢
    simp only [List.cons_append]
    rw [dispatch_sized C n _ _ (by simp), decodeSized_enc _ _ _ _ _ _ _ hp]
    unfold decodeSizedBuf
    simp only [binStringV1, binBytesV1, binCompiledFunctionV1, binArrayV1, List.cons_append] at hu ⊢
    simp [hu]

theorem encodeFuncName_small (tag : UInt8) (name : Bytes) (h : (encodeFuncName tag name).length < 2 ^ 63) :
    (encodeSized binStringV1 name).length < 2 ^ 63 := by
  unfold encodeFuncName at h
  simp only [List.length_cons, List.length_append] at h
  omega

theorem rt_function (C : Ctx) (n : Nat) (name rest : Bytes)
    (hsmall : (encodeFuncName binFunctionV1 name).length < 2 ^ 63) :
    (decodeObjectF C (n + 1) (encodeFuncName binFunctionV1 name ++ rest)).res = .ok (.function name, rest) := by
  have hs := encodeFuncName_small _ _ hsmall
  have hu := unmarshalFuncName_enc binFunctionV1 "ugo.Function" name hs
  unfold encodeFuncName at hu ⊢
  simp only [List.cons_append] at hu ⊢
  rw [dispatch_sized C n _ _ (by simp), decodeSized_enc _ _ _ _ _ _ _ hs]
  unfold decodeSizedBuf
  simp only [binFunctionV1, binStringV1, binBytesV1, binCompiledFunctionV1, binArrayV1, binMapV1, binSyncMapV1,
    List.cons_append] at hu ⊢
  simp [hu]

theorem rt_builtin (C : Ctx) (n : Nat) (name rest : Bytes) (hb : C.isBuiltinFn name = true)
    (hsmall : (encodeFuncName binBuiltinFunctionV1 name).length < 2 ^ 63) :
    (decodeObjectF C (n + 1) (encodeFuncName binBuiltinFunctionV1 name ++ rest)).res =
      .ok (.builtinFunction name, rest) := by
  have hs := encodeFuncName_small _ _ hsmall
  have hu := unmarshalFuncName_enc binBuiltinFunctionV1 "ugo.BuiltinFunction" name hs
  unfold encodeFuncName at hu ⊢
  simp only [List.cons_append] at hu ⊢
  rw [dispatch_sized C n _ _ (by simp), decodeSized_enc _ _ _ _ _ _ _ hs]
  unfold decodeSizedBuf
  simp only [binBuiltinFunctionV1, binFunctionV1, binStringV1, binBytesV1, binCompiledFunctionV1, binArrayV1,
    binMapV1, binSyncMapV1, List.cons_append] at hu ⊢
  simp [hu, hb]

/-! ### containers, given the loops -/

theorem unmarshalArray_enc (C : Ctx) (loop : Bytes → DM (List Obj)) (xs : List Obj) (r : List Obj)
    (_hne : xs.length ≠ 0)
    (hsmall : (toBytes xs.length ++ encodeList C xs).length < 2 ^ 63)
    (hloop : (loop (encodeList C xs)).res = .ok r) :
    (unmarshalArray loop (binArrayV1 :: toBytes (toBytes xs.length ++ encodeList C xs).length ++
      (toBytes xs.length ++ encodeList C xs))).res = .ok r := by
  have hlen := encodeList_length C xs
  have hxs : xs.length < 2 ^ 63 := by simp only [List.length_append] at hsmall; omega
  have hin := inInt64_ofNat _ hxs
  obtain ⟨hl2, _⟩ := toBytes_length _ hin
  unfold unmarshalArray
  rw [sizedPayload_enc _ _ _ (by simp only [List.length_append]; omega) hsmall]
  simp only [res_bind, res_liftM, viRead_toBytes _ _ hin, ok_bind]
  rw [res_ite, if_neg (by omega)]
  simp only [res_bind, res_tick, ok_bind, hloop]

theorem unmarshalMap_enc (C : Ctx) (loop : Bytes → DM (List (Bytes × Obj))) (kvs : List (Bytes × Obj))
    (r : List (Bytes × Obj))
    (hsmall : (encodeKVs C kvs).length < 2 ^ 63)
    (hloop : (loop (encodeKVs C kvs)).res = .ok r)
    (hnil : (encodeKVs C kvs).length = 0 → r = []) :
    (unmarshalMap loop (binMapV1 :: toBytes (encodeKVs C kvs).length ++ encodeKVs C kvs)).res =
      .ok (mapOfList r) := by
  unfold unmarshalMap
  by_cases h0 : (encodeKVs C kvs).length = 0
  · have hn : encodeKVs C kvs = [] := List.eq_nil_of_length_eq_zero h0
    rw [hnil h0, hn]
    simp only [List.length_nil, Int.natCast_zero]
    rw [sizedPayload_toBytes0]
    simp [mapOfList]
  · rw [sizedPayload_enc _ _ _ (by omega) hsmall]
    simp only [res_bind, hloop, ok_bind, res_pure]

theorem toBytes_head_ne_zero (v : Int) (h : inInt64 v = true) : ∃ a b, toBytes v = a :: b ∧ a ≠ 0 := by
  obtain ⟨h1, h10⟩ := putVarint_len v h
  exact ⟨_, _, rfl, lenByte_ne_zero _ h1 h10⟩

theorem decodeSizedBuf_array (C : Ctx) (cfL arrL mapL) (rb p : Bytes) :
    (decodeSizedBuf C cfL arrL mapL binArrayV1 rb p).res =
      (unmarshalArray arrL (binArrayV1 :: rb ++ p)).res >>= fun xs => .ok (.array xs) := by
  unfold decodeSizedBuf
  simp [binArrayV1, binCompiledFunctionV1]

theorem decodeSizedBuf_map (C : Ctx) (cfL arrL mapL) (rb p : Bytes) :
    (decodeSizedBuf C cfL arrL mapL binMapV1 rb p).res =
      (unmarshalMap mapL (binMapV1 :: rb ++ p)).res >>= fun m => .ok (.map m) := by
  unfold decodeSizedBuf
  simp [binMapV1, binStringV1, binBytesV1, binArrayV1, binCompiledFunctionV1]

theorem decodeSizedBuf_syncMap (C : Ctx) (cfL arrL mapL) (a : UInt8) (b p : Bytes) (ha : a ≠ 0) :
    (decodeSizedBuf C cfL arrL mapL binSyncMapV1 (a :: b) p).res =
      (unmarshalMap mapL (binMapV1 :: (a :: b) ++ p)).res >>= fun m => .ok (.syncMap false m) := by
  unfold decodeSizedBuf
  simp [binSyncMapV1, binMapV1, binStringV1, binBytesV1, binArrayV1, binCompiledFunctionV1, ha]

/-! ### the round trip of objects -/

theorem encodeKVs_nil_of_length (C : Ctx) (kvs : List (Bytes × Obj)) (h : (encodeKVs C kvs).length = 0) : kvs = [] := by
  cases kvs with
  | nil => rfl
  | cons kv rest =>
    obtain ⟨k, v⟩ := kv
    have := encodeObject_length_pos C v
    simp only [encodeKVs, List.length_append] at h
    omega

mutual
theorem rt_obj (C : Ctx) : ∀ (o : Obj) (fuel : Nat) (rest : Bytes), Encodable C o → need o ≤ fuel →
    (encodeObject C o).length < 2 ^ 63 →
    (decodeObjectF C fuel (encodeObject C o ++ rest)).res = .ok (norm o, rest)
  | .nil, _, _, hE, _, _ => by simp [Encodable] at hE
  | .undefined, fuel, rest, _, hf, _ => by
    obtain ⟨n, rfl⟩ := succ_of_pos (show 1 ≤ fuel by simp [need] at hf; omega)
    simp [encodeObject, decodeObjectF, readByte, norm]
  | .bool true, fuel, rest, _, hf, _ => by
    obtain ⟨n, rfl⟩ := succ_of_pos (show 1 ≤ fuel by simp [need] at hf; omega)
    simp [encodeObject, decodeObjectF, readByte, norm, binTrueV1, binUndefinedV1]
  | .bool false, fuel, rest, _, hf, _ => by
    obtain ⟨n, rfl⟩ := succ_of_pos (show 1 ≤ fuel by simp [need] at hf; omega)
    simp [encodeObject, decodeObjectF, readByte, norm, binTrueV1, binUndefinedV1, binFalseV1]
  | .int v, fuel, rest, _, hf, _ => by
    obtain ⟨n, rfl⟩ := succ_of_pos (show 1 ≤ fuel by simp [need] at hf; omega)
    simp only [encodeObject, norm]
    rw [encodeInt_cons, List.cons_append, dispatch_num C n _ _ (by simp), decodeNum_int]
  | .uint v, fuel, rest, _, hf, _ => by
    obtain ⟨n, rfl⟩ := succ_of_pos (show 1 ≤ fuel by simp [need] at hf; omega)
    simp only [encodeObject, norm]
    rw [encodeUint_cons, List.cons_append, dispatch_num C n _ _ (by simp), decodeNum_uint]
  | .float v, fuel, rest, _, hf, _ => by
    obtain ⟨n, rfl⟩ := succ_of_pos (show 1 ≤ fuel by simp [need] at hf; omega)
    simp only [encodeObject, norm]
    rw [encodeFloat_cons, List.cons_append, dispatch_num C n _ _ (by simp), decodeNum_float]
  | .char v, fuel, rest, _, hf, _ => by
    obtain ⟨n, rfl⟩ := succ_of_pos (show 1 ≤ fuel by simp [need] at hf; omega)
    simp only [encodeObject, norm]
    rw [encodeChar_cons, List.cons_append, dispatch_num C n _ _ (by simp), decodeNum_char]
  | .str s, fuel, rest, _, hf, hs => by
    obtain ⟨n, rfl⟩ := succ_of_pos (show 1 ≤ fuel by simp [need] at hf; omega)
    simp only [encodeObject, norm] at hs ⊢
    have := (encodeSized_length binStringV1 s)
    have hlen : s.length < 2 ^ 63 := by
      have : s.length ≤ (encodeSized binStringV1 s).length := by unfold encodeSized; split <;> simp <;> omega
      omega
    exact rt_str C n s rest hlen
  | .bytes s, fuel, rest, _, hf, hs => by
    obtain ⟨n, rfl⟩ := succ_of_pos (show 1 ≤ fuel by simp [need] at hf; omega)
    simp only [encodeObject, norm] at hs ⊢
    have hlen : s.length < 2 ^ 63 := by
      have : s.length ≤ (encodeSized binBytesV1 s).length := by unfold encodeSized; split <;> simp <;> omega
      omega
    exact rt_bytes C n s rest hlen
  | .function name, fuel, rest, _, hf, hs => by
    obtain ⟨n, rfl⟩ := succ_of_pos (show 1 ≤ fuel by simp [need] at hf; omega)
    simp only [encodeObject, norm] at hs ⊢
    exact rt_function C n name rest hs
  | .builtinFunction name, fuel, rest, hE, hf, hs => by
    obtain ⟨n, rfl⟩ := succ_of_pos (show 1 ≤ fuel by simp [need] at hf; omega)
    simp only [encodeObject, norm, Encodable] at hs hE ⊢
    exact rt_builtin C n name rest hE hs
  | .gob tn id, fuel, rest, hE, hf, _ => by
    obtain ⟨n, rfl⟩ := succ_of_pos (show 1 ≤ fuel by simp [need] at hf; omega)
    simp only [encodeObject, norm, Encodable] at hE ⊢
    rw [List.cons_append, dispatch_gob]
    unfold decodeGob
    rw [hE rest]
  | .compiledFunction f, fuel, rest, _, hf, hs => by
    simp only [need] at hf
    obtain ⟨n, rfl⟩ := succ_of_pos (show 1 ≤ fuel by omega)
    simp only [encodeObject, norm] at hs ⊢
    exact rt_cf C f n (by omega) rest hs
  | .array xs, fuel, rest, hE, hf, hs => by
    simp only [need] at hf
    obtain ⟨n, rfl⟩ := succ_of_pos (show 1 ≤ fuel by omega)
    simp only [encodeObject, norm, Encodable] at hs hE ⊢
    by_cases h0 : xs.length = 0
    · have : xs = [] := List.eq_nil_of_length_eq_zero h0
      subst this
      rw [if_pos h0]
      simp only [List.cons_append, List.nil_append]
      rw [dispatch_sized C n _ _ (by simp), decodeSized_zero]
      unfold decodeSizedBuf unmarshalArray
      simp only [binArrayV1, binCompiledFunctionV1]
      have := sizedPayload_zero 9 "ugo.Array"
      simp [this, normList]
    · rw [if_neg h0] at hs ⊢
      have htmp : (toBytes xs.length ++ encodeList C xs).length < 2 ^ 63 := by
        simp only [List.length_cons, List.length_append] at hs ⊢; omega
      have hl : (encodeList C xs).length < 2 ^ 63 := by
        simp only [List.length_append] at htmp; omega
      have hloop := rt_list C xs n hE (by omega) hl
      have hu := unmarshalArray_enc C (arrayLoopF C n) xs _ h0 htmp hloop
      simp only [List.cons_append]
      rw [dispatch_sized C n _ _ (by simp), decodeSized_enc _ _ _ _ _ _ _ htmp, decodeSizedBuf_array, hu]
      rfl
  | .map kvs, fuel, rest, hE, hf, hs => by
    simp only [need] at hf
    obtain ⟨n, rfl⟩ := succ_of_pos (show 1 ≤ fuel by omega)
    simp only [encodeObject, norm, Encodable] at hs hE ⊢
    have htmp : (encodeKVs C kvs).length < 2 ^ 63 := by
      simp only [List.length_cons, List.length_append] at hs; omega
    have hloop := rt_kvs C kvs n hE (by omega) htmp
    have hu := unmarshalMap_enc C (mapLoopF C n) kvs _ htmp hloop
      (fun h => by rw [encodeKVs_nil_of_length C kvs h]; rfl)
    simp only [List.cons_append]
    rw [dispatch_sized C n _ _ (by simp), decodeSized_enc _ _ _ _ _ _ _ htmp, decodeSizedBuf_map, hu]
    rfl
  | .syncMap true kvs, fuel, rest, _, hf, _ => by
    simp only [need] at hf
    obtain ⟨n, rfl⟩ := succ_of_pos (show 1 ≤ fuel by omega)
    simp only [encodeObject, norm]
    simp only [List.cons_append, List.nil_append]
    rw [dispatch_sized C n _ _ (by simp), decodeSized_zero]
    unfold decodeSizedBuf
    simp [binSyncMapV1, binMapV1, binStringV1, binBytesV1, binArrayV1, binCompiledFunctionV1]
  | .syncMap false kvs, fuel, rest, hE, hf, hs => by
    simp only [need] at hf
    obtain ⟨n, rfl⟩ := succ_of_pos (show 1 ≤ fuel by omega)
    simp only [encodeObject, norm, Encodable] at hs hE ⊢
    have htmp : (encodeKVs C kvs).length < 2 ^ 63 := by
      simp only [List.length_cons, List.length_append] at hs; omega
    have hloop := rt_kvs C kvs n hE (by omega) htmp
    have hu := unmarshalMap_enc C (mapLoopF C n) kvs _ htmp hloop
      (fun h => by rw [encodeKVs_nil_of_length C kvs h]; rfl)
    obtain ⟨a, b, hab, hane⟩ := toBytes_head_ne_zero ((encodeKVs C kvs).length : Int) (inInt64_ofNat _ htmp)
    simp only [List.cons_append]
    rw [dispatch_sized C n _ _ (by simp), decodeSized_enc _ _ _ _ _ _ _ htmp]
    rw [hab] at hu ⊢
    rw [decodeSizedBuf_syncMap _ _ _ _ _ _ _ hane, hu]
    rfl
theorem rt_list (C : Ctx) : ∀ (xs : List Obj) (fuel : Nat), EncodableL C xs → needL xs + 1 ≤ fuel →
    (encodeList C xs).length < 2 ^ 63 →
    (arrayLoopF C fuel (encodeList C xs)).res = .ok (normList xs)
  | [], fuel, _, hf, _ => by
    obtain ⟨n, rfl⟩ := succ_of_pos (show 1 ≤ fuel by omega)
    simp [encodeList, arrayLoopF, normList]
  | x :: xs, fuel, hE, hf, hs => by
    simp only [needL] at hf
    obtain ⟨n, rfl⟩ := succ_of_pos (show 1 ≤ fuel by omega)
    simp only [encodeList, EncodableL, List.length_append] at hs hE ⊢
    have hpos := encodeObject_length_pos C x
    rw [arrayLoopF]
    have hne : (encodeObject C x ++ encodeList C xs).isEmpty = false := by
      cases h : encodeObject C x with
      | nil => rw [h] at hpos; simp at hpos
      | cons a b => rfl
    rw [hne]
    simp only [Bool.false_eq_true, if_false, res_bind]
    rw [rt_obj C x n (encodeList C xs) hE.1 (by omega) (by omega)]
    simp only [ok_bind, res_bind]
    rw [rt_list C xs n hE.2 (by omega) (by omega)]
    simp [normList]
theorem rt_kvs (C : Ctx) : ∀ (kvs : List (Bytes × Obj)) (fuel : Nat), EncodableKV C kvs → needKV kvs + 1 ≤ fuel →
    (encodeKVs C kvs).length < 2 ^ 63 →
    (mapLoopF C fuel (encodeKVs C kvs)).res = .ok (normKVs kvs)
  | [], fuel, _, hf, _ => by
    obtain ⟨n, rfl⟩ := succ_of_pos (show 1 ≤ fuel by omega)
    simp [encodeKVs, mapLoopF, normKVs]
  | (k, v) :: kvs, fuel, hE, hf, hs => by
    simp only [needKV] at hf
    obtain ⟨n, rfl⟩ := succ_of_pos (show 1 ≤ fuel by omega)
    simp only [encodeKVs, EncodableKV, List.length_append] at hs hE ⊢
    have hk : k.length < 2 ^ 63 := by omega
    have hin := inInt64_ofNat _ hk
    obtain ⟨hl2, _⟩ := toBytes_length _ hin
    rw [mapLoopF]
    have hne : (toBytes ↑k.length ++ k ++ encodeObject C v ++ encodeKVs C kvs).isEmpty = false := by
      cases h : toBytes (k.length : Int) with
      | nil => rw [h] at hl2; simp at hl2
      | cons a b => rfl
    rw [hne]
    simp only [Bool.false_eq_true, if_false, res_bind, res_liftM, List.append_assoc,
      viRead_toBytes _ _ hin, ok_bind, res_tick]
    have hrf : (if (k.length : Int) > 0 then readFull (k.length : Int).toNat (k ++ (encodeObject C v ++ encodeKVs C kvs))
        else Res.ok ([], k ++ (encodeObject C v ++ encodeKVs C kvs))) =
        Res.ok (k, encodeObject C v ++ encodeKVs C kvs) := by
      by_cases h0 : k.length = 0
      · have : k = [] := List.eq_nil_of_length_eq_zero h0
        subst this; simp
      · rw [if_pos (by omega)]
        have : ((k.length : Int)).toNat = k.length := by omega
        rw [this, readFull_append]
    rw [hrf]
    simp only [ok_bind]
    rw [rt_obj C v n (encodeKVs C kvs) hE.1 (by omega) (by omega)]
    simp only [ok_bind, res_bind]
    rw [rt_kvs C kvs n hE.2 (by omega) (by omega)]
    simp [normKVs]
end

end UgoVerif.Proofs.Enc
