import UgoVerif.Model.V1
/-
  `Reloc` (DESIGN.md section 5), abstract form used by C11: a machine that treats code
  offsets parametrically runs a relocated program to the same result.

  The VM model is not part of this file.  A machine is given by what one
  instruction does to the rest of the state `δ` (operand stack, frames with their
  saved instruction pointers, handler lists with catch/finally/returnTo offsets,
  heap, globals …) and where control goes next; `mapD φ` renames the code offsets
  stored inside `δ`.  Instructions are fetched only at instruction offsets (a
  jump into the middle of an instruction is a `fault`), `next` continues at the
  following instruction, `goto t` at offset `t`.
-/
namespace UgoVerif.Spec.Reloc
open UgoVerif.Model.Bytecode UgoVerif.Model.V1

inductive Effect (δ ρ : Type) where
  | next (d : δ)
  | goto (target : Nat) (d : δ)
  | halt (result : ρ)

def Effect.map {δ ρ} (φ : Nat → Nat) (f : δ → δ) : Effect δ ρ → Effect δ ρ
  | .next d => .next (f d)
  | .goto t d => .goto (φ t) (f d)
  | .halt r => .halt r

structure Machine (δ ρ : Type) where
  /-- one instruction; `posOf` is the source-map lookup (`CompiledFunction.SourcePos`) -/
  exec : (posOf : Nat → Option Nat) → Instr → δ → Effect δ ρ
  /-- rename the code offsets held in the state -/
  mapD : (Nat → Nat) → δ → δ
  /-- outcome of fetching at an offset that is not an instruction offset -/
  fault : ρ

/-- the machine does not look at the numeric value of code offsets: executing the relocated
    instruction in the renamed state (with a source map re-keyed accordingly) is the renamed
    effect.  This is what a VM model has to establish opcode by opcode (JUMP* continue at their
    operand; SETUPTRY stores its operands, `0` meaning absent; CALL saves an offset derived
    from `x.off`; errors report `posOf` of such offsets). -/
def Machine.Equivariant {δ ρ} (M : Machine δ ρ) (φ : Nat → Nat) : Prop :=
  ∀ (posOf posOf' : Nat → Option Nat), (∀ o, posOf' (φ o) = posOf o) →
    ∀ (x : Instr) (d : δ),
      M.exec posOf' (relocInstr φ x) (M.mapD φ d) = (M.exec posOf x d).map φ (M.mapD φ)

/-- instruction at offset `ip` and the offset of the one behind it (`endOff` after the last) -/
def fetch (endOff : Nat) : List Instr → Nat → Option (Instr × Nat)
  | [], _ => none
  | x :: xs, ip =>
    if x.off = ip then some (x, match xs with | y :: _ => y.off | [] => endOff)
    else fetch endOff xs ip

/-- run from `ip`; `none` = out of fuel -/
def run {δ ρ} (M : Machine δ ρ) (posOf : Nat → Option Nat) (endOff : Nat) (is : List Instr) :
    Nat → Nat → δ → Option ρ
  | 0, _, _ => none
  | fuel+1, ip, d =>
    match fetch endOff is ip with
    | none => some M.fault
    | some (x, nx) =>
      match M.exec posOf x d with
      | .next d' => run M posOf endOff is fuel nx d'
      | .goto t d' => run M posOf endOff is fuel t d'
      | .halt r => some r

/-- `CompiledFunction.SourcePos`: the entry at `ip`, else at the nearest smaller key -/
def srcPos (sm : SrcMap) : Nat → Option Nat
  | 0 => sm.lookup 0
  | ip+1 => match sm.lookup (ip+1) with
    | some p => some p
    | none => srcPos sm ip

end UgoVerif.Spec.Reloc
