import UgoVerif.Spec.EncNorm
import UgoVerif.VM.Run
/-
  C04, behavioural half: the injection of a serializer-model bytecode (`Model/Enc.BC`, what
  `DecodeBytecodeFrom` returns) into the VM model (`VM.State`, what `NewVM(bc)` holds), and
  `run` = `VM.runFrom` on that state.  Core Lean only.

  `loadRaw` builds the Go objects the constants denote on a fresh heap, in the order
  `Model/Eval.setBytecode` uses for compiler output (constants by index, then Main):
  scalars directly, arrays / maps as heap cells holding their loaded elements, a
  `*CompiledFunction` as a `Code` entry plus an `.fn code none` cell (`Free = nil`: function
  constants never carry free variables — closures are made at run time by OpClosure; the
  encoder does not write `Free`), builtin functions as `BuiltinObjects[i]`, everything the VM
  model treats as an opaque Go object (`*Function`, `*SyncMap`, gob-encoded types) as `.host`.
  The VM state has no place for source maps and file sets: positions are the subject of
  `Spec/EncPos.lean`.

  `load` is `loadRaw` of the normal form: a value of the serializer model that lists a map key
  twice, or has a negative count, denotes the Go value its normal form denotes (`mapOfList`,
  a count that the Nat-typed VM fields cannot even hold).  On well-formed bytecode — in
  particular on everything the compile model produces — `load = loadRaw` (`load_of_WF`).
-/
namespace UgoVerif.Spec.EncVM
open UgoVerif UgoVerif.Go UgoVerif.Model.Enc UgoVerif.Spec.Enc UgoVerif.VM

/-- how the embedder's opaque objects and the builtin table are named in the VM model -/
structure Host where
  /-- index in `BuiltinObjects` of the builtin function with this name -/
  builtinIdx : Bytes → Nat
  /-- identity of a `*ugo.Function` (by name: the decoder re-binds it by name) -/
  fnId : Bytes → Nat
  /-- identity of a `*ugo.SyncMap` / gob-encoded object -/
  objId : Obj → Nat

/-- `Code` of a compiled function: the Nat-typed fields of the VM model hold the non-negative
    part of Go's `int` -/
def codeOfCF (f : CF) : Code :=
  { insts := (f.instructions.getD []).toArray
    numParams := f.numParams.toInt.toNat
    numLocals := f.numLocals.toInt.toNat
    variadic := f.variadic }

/-- loader state: the code table and the heap under construction -/
structure L where
  codes : Array Code := #[]
  heap : Array Cell := #[]
  deriving Inhabited

/-- a `*CompiledFunction` object on the heap (`Model/Eval.allocFn`) -/
def allocCF (f : CF) (l : L) : V × L :=
  (.cfun l.heap.size, { codes := l.codes.push (codeOfCF f), heap := l.heap.push (.fn l.codes.size none) })

mutual
def loadObj (H : Host) : Obj → L → V × L
  | .nil, l => (.nil, l)
  | .undefined, l => (.undefined, l)
  | .bool b, l => (.bool b, l)
  | .int v, l => (.int v, l)
  | .uint v, l => (.uint v, l)
  | .char v, l => (.char v, l)
  | .float v, l => (.float v, l)
  | .str s, l => (.str s, l)
  | .bytes s, l => (.bytes s, l)
  | .array xs, l =>
    let r := loadList H xs l
    (.arr r.2.heap.size 0 r.1.length, { r.2 with heap := r.2.heap.push (.arr r.1.toArray) })
  | .map kvs, l =>
    let r := loadKVs H kvs l
    (.map r.2.heap.size, { r.2 with heap := r.2.heap.push (.map r.1) })
  | .syncMap n kvs, l => (.host (H.objId (.syncMap n kvs)), l)
  | .compiledFunction f, l => allocCF f l
  | .function n, l => (.host (H.fnId n), l)
  | .builtinFunction n, l => (.builtin (H.builtinIdx n), l)
  | .gob tn id, l => (.host (H.objId (.gob tn id)), l)
def loadList (H : Host) : List Obj → L → List V × L
  | [], l => ([], l)
  | x :: xs, l =>
    let r1 := loadObj H x l
    let r2 := loadList H xs r1.2
    (r1.1 :: r2.1, r2.2)
def loadKVs (H : Host) : List (Bytes × Obj) → L → List (Bytes × V) × L
  | [], l => ([], l)
  | (k, v) :: rest, l =>
    let r1 := loadObj H v l
    let r2 := loadKVs H rest r1.2
    ((k, r1.1) :: r2.1, r2.2)
end

/-- `NewVM(bc)` for the bytecode as it is written down -/
def loadRaw (H : Host) (bc : BC) : State :=
  let cs := loadList H (bc.constants.getD []) {}
  let m := allocCF (bc.main.getD {}) cs.2
  newState m.2.codes m.2.heap cs.1.toArray cs.2.heap.size bc.numModules.toInt.toNat

/-- `NewVM(bc)`: the VM state a bytecode value denotes -/
def load (H : Host) (bc : BC) : State := loadRaw H (normBC bc)

/-- inputs of one run -/
structure Inputs where
  fuel : Nat
  globals : V
  args : List V

/-- `VM.Run(globals, args…)` on a new VM for `bc`: the outcome the embedder sees, together with
    the final VM state (heap, globals, module cache: what the returned value points into) -/
def run (F : FloatOps) (H : Host) (bc : BC) (i : Inputs) : Outcome × State :=
  runFrom F i.fuel i.globals i.args (load H bc)

end UgoVerif.Spec.EncVM
