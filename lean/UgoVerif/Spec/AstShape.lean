import UgoVerif.Spec.Ast
/-
  C05: the one shape property of parser output that the compiler relies on without checking it:
  an assignment statement has at least one expression on its left-hand side
  (`compileAssignStmt` indexes `lhs[0]`).  The parser builds `AssignStmt.LHS` from
  `parseExprList`, which returns at least one expression; the stream checks it on every AST.
-/
namespace UgoVerif.Ast

mutual
def okE : Expr → Bool
  | .array _ es => okEs es
  | .map _ ms => okMs ms
  | .unary _ _ e => okE e
  | .binary _ _ l r => okE l && okE r
  | .cond _ c t f => okE c && okE t && okE f
  | .paren _ e => okE e
  | .index _ e i => okE e && okE i
  | .selector _ e s => okE e && okE s
  | .slice _ e lo hi =>
    okE e && (match lo with | some x => okE x | none => true) && (match hi with | some x => okE x | none => true)
  | .call _ _ f args => okE f && okEs args
  | .func _ _ _ _ body => okSs body
  | _ => true

def okEs : List Expr → Bool
  | [] => true
  | e :: r => okE e && okEs r

def okMs : List (String × Expr) → Bool
  | [] => true
  | (_, v) :: r => okE v && okMs r

def okVals : List (Option Expr) → Bool
  | [] => true
  | v :: r => (match v with | some x => okE x | none => true) && okVals r

def okSpecs : List (Option Nat × List (Pos × String) × List (Option Expr)) → Bool
  | [] => true
  | (_, _, vals) :: r => okVals vals && okSpecs r

def okSs : List Stmt → Bool
  | [] => true
  | s :: r => okS s && okSs r

def okS : Stmt → Bool
  | .expr _ e => okE e
  | .assign _ _ lhs rhs => !lhs.isEmpty && okEs lhs && okEs rhs
  | .incdec _ _ _ e => okE e
  | .block _ body => okSs body
  | .if_ _ init c _ body els =>
    (match init with | some i => okS i | none => true) && okE c && okSs body &&
    (match els with | some e => okS e | none => true)
  | .for_ _ init c post _ body =>
    (match init with | some i => okS i | none => true) && (match c with | some x => okE x | none => true) &&
    (match post with | some p => okS p | none => true) && okSs body
  | .forin _ _ _ it _ body => okE it && okSs body
  | .return_ _ e => (match e with | some x => okE x | none => true)
  | .try_ _ _ body c f =>
    okSs body && (match c with | some (_, _, _, cb) => okSs cb | none => true) &&
    (match f with | some (_, _, fb) => okSs fb | none => true)
  | .throw _ e => (match e with | some x => okE x | none => true)
  | .declValue _ _ specs => okSpecs specs
  | _ => true
end

end UgoVerif.Ast
