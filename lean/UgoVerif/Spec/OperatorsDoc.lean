import UgoVerif.Go.Val
/-
  docs/operators.md, section "Binary Arithmetic Operators", written down independently of
  numeric.go / objects.go: which operand kinds an arithmetic, bitwise or shift operator accepts,
  to which common kind the operands are converted, and which Go operation is then applied.

  Rules of the document (quoted):
    * `bool` values are treated as untyped 1 or 0 before arithmetic operation
    * if LHS or RHS is of `char` type, other operand is converted to `char` value
    * `char` values only support `+`, `-` operators with `char`, `int`, `uint` values
    * `char` values support `*`, `/`, `%`, `|`, `^`, `&^`, `<<`, `>>` operators if both operands
      are of `char` type          (`&` is missing from that list in the document; Go has it and the
                                   table of supported types does not single it out: accepted here)
    * if LHS or RHS is of `float` type, other operand is converted to `float` value
      (float with char: TypeError — conversion table of the relational operators, and `+ - * /`
       on float are listed for int, uint, float only)
    * if LHS or RHS is unsigned integer, signed integer is converted to unsigned integer
    * `%  &  |  ^  &^  <<  >>` : int, uint (and char, above) only — not float
    * A runtime error `TypeError` is thrown if operand is not of expected type
  Division or remainder by zero is ZeroDivisionError (docs/error-handling: ZeroDivisionError);
  a negative shift count — a Go run-time panic — is a TypeError.

  "Untyped 1 or 0": the bool operand takes the kind of the other operand; two bools are ints.
-/
namespace UgoVerif.Spec.OperatorsDoc
open UgoVerif UgoVerif.Go

inductive Kind where
  | int | uint | float | char
  deriving DecidableEq, Repr, Inhabited

/-- the documented operand kinds; `some none` is bool (untyped 1 or 0); `none`: not a numeric operand -/
def kindOf : Val → Option (Option Kind)
  | .int _ => some (some .int)
  | .uint _ => some (some .uint)
  | .float _ => some (some .float)
  | .char _ => some (some .char)
  | .bool _ => some none
  | _ => none

inductive Doc where
  | value (v : Val)
  | zeroDivision
  | typeError
  | panic
  deriving Inhabited

def isArith : Tok → Bool
  | .Add | .Sub | .Mul | .Quo | .Rem | .And | .Or | .Xor | .Shl | .Shr | .AndNot => true
  | _ => false

/-- the common kind of the two operands, or `none` for a documented TypeError -/
def common : Option Kind → Option Kind → Option Kind
  | none, none => some .int
  | some k, none => some k
  | none, some k => some k
  | some .char, some .float => none
  | some .float, some .char => none
  | some .char, some _ => some .char
  | some _, some .char => some .char
  | some .float, some _ => some .float
  | some _, some .float => some .float
  | some .uint, some _ => some .uint
  | some _, some .uint => some .uint
  | some .int, some .int => some .int

/-- "both operands are of char type" (an untyped bool takes the other operand's kind) -/
def bothChar : Option Kind → Option Kind → Bool
  | some .char, some .char => true
  | some .char, none => true
  | none, some .char => true
  | _, _ => false

/-! conversions `int64(x)`, `uint64(x)`, `float64(x)`, `rune(x)` of Go -/

def toInt : Val → BitVec 64
  | .int v => v | .uint v => v | .bool b => if b then 1#64 else 0#64
  | .char c => BitVec.signExtend 64 c | _ => 0#64
def toUint : Val → BitVec 64
  | .int v => v | .uint v => v | .bool b => if b then 1#64 else 0#64
  | .char c => BitVec.signExtend 64 c | _ => 0#64
def toFloat (F : FloatOps) : Val → F64
  | .int v => F.ofInt v | .uint v => F.ofUint v | .float f => f
  | .bool b => if b then 0x3FF0000000000000#64 else 0x0000000000000000#64
  | _ => 0#64
def toChar : Val → BitVec 32
  | .int v => BitVec.setWidth 32 v | .uint v => BitVec.setWidth 32 v | .char c => c
  | .bool b => if b then 1#32 else 0#32 | _ => 0#32

/-! the Go operations -/

def signedOp {w : Nat} (mk : BitVec w → Val) (tok : Tok) (x y : BitVec w) : Doc :=
  match tok with
  | .Add => .value (mk (x + y))
  | .Sub => .value (mk (x - y))
  | .Mul => .value (mk (x * y))
  | .Quo => if y == 0#w then .zeroDivision else .value (mk (BitVec.sdiv x y))
  | .Rem => if y == 0#w then .zeroDivision else .value (mk (BitVec.srem x y))
  | .And => .value (mk (x &&& y))
  | .Or => .value (mk (x ||| y))
  | .Xor => .value (mk (x ^^^ y))
  | .AndNot => .value (mk (x &&& ~~~y))
  | .Shl => if y.msb then .typeError else .value (mk (shlN x y.toNat))
  | .Shr => if y.msb then .typeError else .value (mk (sshrN x y.toNat))
  | _ => .typeError

def unsignedOp (tok : Tok) (x y : BitVec 64) : Doc :=
  match tok with
  | .Add => .value (.uint (x + y))
  | .Sub => .value (.uint (x - y))
  | .Mul => .value (.uint (x * y))
  | .Quo => if y == 0#64 then .zeroDivision else .value (.uint (BitVec.udiv x y))
  | .Rem => if y == 0#64 then .zeroDivision else .value (.uint (BitVec.umod x y))
  | .And => .value (.uint (x &&& y))
  | .Or => .value (.uint (x ||| y))
  | .Xor => .value (.uint (x ^^^ y))
  | .AndNot => .value (.uint (x &&& ~~~y))
  | .Shl => .value (.uint (shlN x y.toNat))
  | .Shr => .value (.uint (shrN x y.toNat))
  | _ => .typeError

def floatOp (F : FloatOps) (tok : Tok) (x y : F64) : Doc :=
  match tok with
  | .Add => .value (.float (F.add x y))
  | .Sub => .value (.float (F.sub x y))
  | .Mul => .value (.float (F.mul x y))
  | .Quo => if feq y 0x0000000000000000#64 then .zeroDivision else .value (.float (F.div x y))
  | _ => .typeError

/-- the documented result of `a <tok> b` for an arithmetic, bitwise or shift operator on
    int / uint / float / char / bool operands; `none`: outside this part of the document -/
def docArith (F : FloatOps) (tok : Tok) (a b : Val) : Option Doc :=
  if !isArith tok then none else
  match kindOf a, kindOf b with
  | some ka, some kb =>
    match common ka kb with
    | none => some .typeError
    | some .int => some (signedOp Val.int tok (toInt a) (toInt b))
    | some .uint => some (unsignedOp tok (toUint a) (toUint b))
    | some .float => some (floatOp F tok (toFloat F a) (toFloat F b))
    | some .char =>
      if bothChar ka kb then some (signedOp Val.char tok (toChar a) (toChar b))
      else
        match tok with
        | .Add | .Sub => some (signedOp Val.char tok (toChar a) (toChar b))
        | _ => some .typeError
  | _, _ => none

/-- how an implementation result is read against the document -/
def classify : Res Val → Doc
  | .ok v => .value v
  | .err .zeroDivision => .zeroDivision
  | .err (.operandType ..) => .typeError
  | .err (.typeErr _) => .typeError
  | .err _ => .panic            -- any other error kind is not what the document promises
  | .panic _ => .panic

/-! ### unary operators (docs/operators.md "Unary Operators")

    `+x` is `0 + x`, `-x` is `0 - x`, `^x` is `m ^ x` with m = all bits set for unsigned x and
    m = -1 for signed x; bool values are converted to int 1 or 0; `^` is not defined on float.
    The document does not fix the result type for a char operand of `-` and `^`: the
    implementation widens to int, which is what is written here.  `-x` on a float is Go's unary
    minus (sign flip), the "corresponding Go operation". -/

def docUnary (F : FloatOps) (tok : Tok) (v : Val) : Option Doc :=
  match tok with
  | .Add =>
    match v with
    | .int x => some (.value (.int (0#64 + x)))
    | .uint x => some (.value (.uint (0#64 + x)))
    | .float x => some (.value (.float x))
    | .char c => some (.value (.char (0#32 + c)))
    | .bool b => some (.value (.int (0#64 + (if b then 1#64 else 0#64))))
    | _ => some .typeError
  | .Sub =>
    match v with
    | .int x => some (.value (.int (0#64 - x)))
    | .uint x => some (.value (.uint (0#64 - x)))
    | .float x => some (.value (.float (F.neg x)))
    | .char c => some (.value (.int (BitVec.signExtend 64 (0#32 - c))))
    | .bool b => some (.value (.int (0#64 - (if b then 1#64 else 0#64))))
    | _ => some .typeError
  | .Xor =>
    match v with
    | .int x => some (.value (.int ((-1#64) ^^^ x)))
    | .uint x => some (.value (.uint (BitVec.allOnes 64 ^^^ x)))
    | .char c => some (.value (.int ((-1#64) ^^^ BitVec.signExtend 64 c)))
    | .bool b => some (.value (.int ((-1#64) ^^^ (if b then 1#64 else 0#64))))
    | _ => some .typeError
  | _ => none

def showDoc (showVal : Val → String) : Option Doc → String
  | none => "-"
  | some (.value v) => "ok " ++ showVal v
  | some .zeroDivision => "err ZeroDivisionError"
  | some .typeError => "err TypeError"
  | some .panic => "panic"

end UgoVerif.Spec.OperatorsDoc
