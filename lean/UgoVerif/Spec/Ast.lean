import UgoVerif.Go.Basic
import UgoVerif.Gen.Tokens
/-
  The uGO abstract syntax tree as produced by /repo/parser (shipped by the harness,
  package astenc, with every node's `Pos()`).  Shared by the reference semantics
  (Spec/Sem), the compiler model (Model/Compile) and the optimizer model.
-/
namespace UgoVerif.Ast
open UgoVerif.Go

abbrev Pos := Nat

mutual
inductive Expr where
  | int (pos : Pos) (v : BitVec 64)
  | uint (pos : Pos) (v : BitVec 64)
  | float (pos : Pos) (v : F64)
  | char (pos : Pos) (v : BitVec 32)
  | bool (pos : Pos) (b : Bool)
  | str (pos : Pos) (s : Bytes)
  | undef (pos : Pos)
  | ident (pos : Pos) (name : String)
  | array (pos : Pos) (elems : List Expr)
  | map (pos : Pos) (elems : List (String × Expr))
  | unary (pos : Pos) (tok : Nat) (e : Expr)
  | binary (pos : Pos) (tok : Nat) (l r : Expr)
  | cond (pos : Pos) (c t f : Expr)
  | paren (pos : Pos) (e : Expr)
  | index (pos : Pos) (e i : Expr)
  | selector (pos : Pos) (e sel : Expr)
  | slice (pos : Pos) (e : Expr) (lo hi : Option Expr)
  | call (pos : Pos) (ellipsis : Bool) (f : Expr) (args : List Expr)
  | func (pos : Pos) (variadic : Bool) (params : List String) (bodyPos : Pos) (body : List Stmt)
  | import_ (pos : Pos) (name : String)

inductive Stmt where
  | expr (pos : Pos) (e : Expr)
  | assign (pos : Pos) (tok : Nat) (lhs rhs : List Expr)
  | incdec (pos : Pos) (tok : Nat) (tokPos : Pos) (e : Expr)
  | block (pos : Pos) (body : List Stmt)
  | if_ (pos : Pos) (init : Option Stmt) (cond : Expr) (bodyPos : Pos) (body : List Stmt) (else_ : Option Stmt)
  | for_ (pos : Pos) (init : Option Stmt) (cond : Option Expr) (post : Option Stmt) (bodyPos : Pos) (body : List Stmt)
  | forin (pos : Pos) (key value : String) (iter : Expr) (bodyPos : Pos) (body : List Stmt)
  | branch (pos : Pos) (tok : Nat)
  | return_ (pos : Pos) (e : Option Expr)
  | try_ (pos : Pos) (bodyPos : Pos) (body : List Stmt)
      (catch_ : Option (Pos × Option String × Pos × List Stmt))
      (finally_ : Option (Pos × Pos × List Stmt))
  | throw (pos : Pos) (e : Option Expr)
  | declParam (pos : Pos) (specs : List (Pos × String × Bool))
  | declGlobal (pos : Pos) (specs : List (Pos × String × Bool))
  | declValue (pos : Pos) (tok : Nat) (specs : List (Option Nat × List (Pos × String) × List (Option Expr)))
  | empty (pos : Pos)
end

instance : Inhabited Expr := ⟨.undef 0⟩
instance : Inhabited Stmt := ⟨.empty 0⟩

def Expr.pos : Expr → Pos
  | .int p _ | .uint p _ | .float p _ | .char p _ | .bool p _ | .str p _ | .undef p
  | .ident p _ | .array p _ | .map p _ | .unary p _ _ | .binary p _ _ _ | .cond p _ _ _
  | .paren p _ | .index p _ _ | .selector p _ _ | .slice p _ _ _ | .call p _ _ _
  | .func p _ _ _ _ | .import_ p _ => p

def Stmt.pos : Stmt → Pos
  | .expr p _ | .assign p _ _ _ | .incdec p _ _ _ | .block p _ | .if_ p _ _ _ _ _
  | .for_ p _ _ _ _ _ | .forin p _ _ _ _ _ | .branch p _ | .return_ p _ | .try_ p _ _ _ _
  | .throw p _ | .declParam p _ | .declGlobal p _ | .declValue p _ _ | .empty p => p

/-! token numbers of package token (regenerated: Gen/Tokens.lean) -/
abbrev tAdd : Nat := Gen.tok_Add
abbrev tSub : Nat := Gen.tok_Sub
abbrev tMul : Nat := Gen.tok_Mul
abbrev tQuo : Nat := Gen.tok_Quo
abbrev tRem : Nat := Gen.tok_Rem
abbrev tAnd : Nat := Gen.tok_And
abbrev tOr : Nat := Gen.tok_Or
abbrev tXor : Nat := Gen.tok_Xor
abbrev tShl : Nat := Gen.tok_Shl
abbrev tShr : Nat := Gen.tok_Shr
abbrev tAndNot : Nat := Gen.tok_AndNot
abbrev tAddAssign : Nat := Gen.tok_AddAssign
abbrev tSubAssign : Nat := Gen.tok_SubAssign
abbrev tMulAssign : Nat := Gen.tok_MulAssign
abbrev tQuoAssign : Nat := Gen.tok_QuoAssign
abbrev tRemAssign : Nat := Gen.tok_RemAssign
abbrev tAndAssign : Nat := Gen.tok_AndAssign
abbrev tOrAssign : Nat := Gen.tok_OrAssign
abbrev tXorAssign : Nat := Gen.tok_XorAssign
abbrev tShlAssign : Nat := Gen.tok_ShlAssign
abbrev tShrAssign : Nat := Gen.tok_ShrAssign
abbrev tAndNotAssign : Nat := Gen.tok_AndNotAssign
abbrev tLAnd : Nat := Gen.tok_LAnd
abbrev tLOr : Nat := Gen.tok_LOr
abbrev tInc : Nat := Gen.tok_Inc
abbrev tDec : Nat := Gen.tok_Dec
abbrev tEqual : Nat := Gen.tok_Equal
abbrev tLess : Nat := Gen.tok_Less
abbrev tGreater : Nat := Gen.tok_Greater
abbrev tAssign : Nat := Gen.tok_Assign
abbrev tNot : Nat := Gen.tok_Not
abbrev tNotEqual : Nat := Gen.tok_NotEqual
abbrev tLessEq : Nat := Gen.tok_LessEq
abbrev tGreaterEq : Nat := Gen.tok_GreaterEq
abbrev tDefine : Nat := Gen.tok_Define
abbrev tBreak : Nat := Gen.tok_Break
abbrev tContinue : Nat := Gen.tok_Continue
abbrev tParam : Nat := Gen.tok_Param
abbrev tGlobal : Nat := Gen.tok_Global
abbrev tVar : Nat := Gen.tok_Var
abbrev tConst : Nat := Gen.tok_Const

end UgoVerif.Ast
