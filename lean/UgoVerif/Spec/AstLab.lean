import UgoVerif.Spec.Ast
/-
  C16: "one statement per line" as a property of an AST, for an arbitrary labelling `lab` of
  source positions (`lab` = line of the position in the file set; any other function works).

  `labE lab l e`: every position the compiler records while compiling the expression `e` into the
  CURRENT function carries the label `l` (function literals inside `e`: their own position does,
  their bodies are statements of their own).
  `labS lab st`: every expression that belongs directly to the statement `st` is labelled like
  `st` itself; nested statements (blocks, branches, loop bodies, init/post statements, function
  bodies) are labelled on their own.  Nothing is asked of the positions of `try`/`catch`/`finally`,
  of blocks, of declared identifiers, or of a statement relative to its neighbours.
-/
namespace UgoVerif.Ast

mutual
def labE (lab : Nat → Nat) (l : Nat) : Expr → Bool
  | .int p _ | .uint p _ | .float p _ | .char p _ | .bool p _ | .str p _ | .undef p | .ident p _ => lab p == l
  | .array p es => lab p == l && labEs lab l es
  | .map p ms => lab p == l && labMs lab l ms
  | .unary p _ e => lab p == l && labE lab l e
  | .binary p _ x y => lab p == l && labE lab l x && labE lab l y
  | .cond p c t f => lab p == l && labE lab l c && labE lab l t && labE lab l f
  | .paren _ e => labE lab l e
  | .index p e i => lab p == l && labE lab l e && labE lab l i
  | .selector p e s => lab p == l && labE lab l e && labE lab l s
  | .slice p e lo hi =>
    lab p == l && labE lab l e && (match lo with | some x => labE lab l x | none => true) &&
      (match hi with | some x => labE lab l x | none => true)
  | .call p _ f args => lab p == l && labE lab l f && labEs lab l args
  | .func p _ _ _ body => lab p == l && labSs lab body
  | .import_ _ _ => true

def labEs (lab : Nat → Nat) (l : Nat) : List Expr → Bool
  | [] => true
  | e :: r => labE lab l e && labEs lab l r

def labMs (lab : Nat → Nat) (l : Nat) : List (String × Expr) → Bool
  | [] => true
  | (_, v) :: r => labE lab l v && labMs lab l r

def labVals (lab : Nat → Nat) (l : Nat) : List (Option Expr) → Bool
  | [] => true
  | v :: r => (match v with | some x => labE lab l x | none => true) && labVals lab l r

def labSpecs (lab : Nat → Nat) (l : Nat) : List (Option Nat × List (Pos × String) × List (Option Expr)) → Bool
  | [] => true
  | (_, _, vals) :: r => labVals lab l vals && labSpecs lab l r

def labSs (lab : Nat → Nat) : List Stmt → Bool
  | [] => true
  | s :: r => labS lab s && labSs lab r

def labS (lab : Nat → Nat) : Stmt → Bool
  | .expr p e => labE lab (lab p) e
  | .assign p _ lhs rhs => labEs lab (lab p) lhs && labEs lab (lab p) rhs
  | .incdec p _ tp e => lab tp == lab p && labE lab (lab p) e
  | .block _ body => labSs lab body
  | .if_ p init c _ body els =>
    (match init with | some i => labS lab i | none => true) && labE lab (lab p) c && labSs lab body &&
    (match els with | some e => labS lab e | none => true)
  | .for_ p init c post _ body =>
    (match init with | some i => labS lab i | none => true) && (match c with | some x => labE lab (lab p) x | none => true) &&
    (match post with | some q => labS lab q | none => true) && labSs lab body
  | .forin p _ _ it _ body => labE lab (lab p) it && labSs lab body
  | .return_ p e => (match e with | some x => labE lab (lab p) x | none => true)
  | .try_ _ _ body c f =>
    labSs lab body && (match c with | some (_, _, _, cb) => labSs lab cb | none => true) &&
    (match f with | some (_, _, fb) => labSs lab fb | none => true)
  | .throw p e => (match e with | some x => labE lab (lab p) x | none => true)
  | .declValue p _ specs => labSpecs lab (lab p) specs
  | _ => true
end

end UgoVerif.Ast
