import UgoVerif.Spec.EncNorm
import UgoVerif.Model.Trace
/-
  C04 / C16: positions.  The serializer model's source maps and file sets as the values the
  position model (`Model/SourceFile.lean`, `Model/Trace.lean`, property C16) computes with.
  Core Lean only.
-/
namespace UgoVerif.Spec.EncPos
open UgoVerif UgoVerif.Go UgoVerif.Model.Enc UgoVerif.Spec.Enc

/-- a file name as the `string` of the position model (bytes ↦ code points, injective) -/
def nameOf (b : Bytes) : String := String.mk (b.map fun x => Char.ofNat x.toNat)

def srcFileOf (f : SrcFile) : Model.SrcFile :=
  { name := nameOf f.name, base := f.base.toInt, size := f.size.toInt, lines := f.lines.map (·.toInt) }

/-- `*parser.SourceFileSet` (the `LastFile` cache is not encoded: nil) -/
def fileSetOf (fs : FileSet) : Model.FileSet :=
  { base := fs.base.toInt, files := fs.files.map srcFileOf, last := none }

/-- `CompiledFunction.SourceMap` (a nil map looks up like an empty one) -/
def sourceMapOf (f : CF) : Model.SourceMap :=
  (f.sourceMap.getD []).map fun kv => (kv.1.toInt, kv.2.toInt)

/-- one frame of a call stack, as far as positions are concerned: the function (nil for none),
    the saved ip, whether the frame has an error handler -/
structure PFrame where
  fn : Option CF
  ip : Int
  hasHandler : Bool

def tframeOf (fr : PFrame) : Model.TFrame :=
  { fn := fr.fn.map sourceMapOf, ip := fr.ip, hasHandler := fr.hasHandler }

/-- the same call stack over the decoded bytecode: every function replaced by its decoded image -/
def decodedFrame (fr : PFrame) : PFrame := { fr with fn := fr.fn.map normCF }

end UgoVerif.Spec.EncPos
