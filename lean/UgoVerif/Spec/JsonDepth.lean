import UgoVerif.Spec.Json
/-
  RFC 8259 recogniser with a nesting budget.  `valueD f d`, `arrTailD`, `memberD`,
  `objTailD` are `value`, `arrTail`, `member`, `objTail` of `Spec/Json.lean` with one more
  argument `d`: an array or object may only be opened while `d > 0`, and what it contains is
  read with `d - 1`.  `isJsonD d bs` therefore says "`bs` is a JSON text whose arrays and
  objects are nested at most `d` deep" (`[]` has depth 1, a scalar depth 0).

  `Proofs/JsonSpecD.lean` proves `isJsonD d bs → isJson bs`, `isJson bs → isJsonD bs.length bs`
  and monotonicity in `d`; `Props/C17.lean` proves that the scanner automaton accepts exactly
  `isJsonD maxNestingDepth`.  Core Lean only (evaluated by the driver on the nesting-limit
  documents of the `json` stream).
-/
namespace UgoVerif.Spec.Json
open UgoVerif.Go

mutual
def valueD : Nat → Nat → Bytes → Option Bytes
  | 0, _, _ => none
  | f + 1, d, bs =>
    match bs with
    | [] => none
    | c :: r =>
      if c == 0x22 then strRest r
      else if c == 0x5B then                      -- [
        match d with
        | 0 => none
        | d + 1 =>
          match skipWs r with
          | [] => none
          | c' :: r' =>
            if c' == 0x5D then some r'
            else (valueD f d (c' :: r')).bind (arrTailD f d)
      else if c == 0x7B then                      -- {
        match d with
        | 0 => none
        | d + 1 =>
          match skipWs r with
          | [] => none
          | c' :: r' =>
            if c' == 0x7D then some r'
            else (memberD f d (c' :: r')).bind (objTailD f d)
      else if c == 0x74 then lit [0x72, 0x75, 0x65] r             -- true
      else if c == 0x66 then lit [0x61, 0x6C, 0x73, 0x65] r       -- false
      else if c == 0x6E then lit [0x75, 0x6C, 0x6C] r             -- null
      else if c == 0x2D || isDigit c then number (c :: r)
      else none
/-- after a value inside an array: ws ( "]" / "," ws value arrTail ) -/
def arrTailD : Nat → Nat → Bytes → Option Bytes
  | 0, _, _ => none
  | f + 1, d, bs =>
    match skipWs bs with
    | [] => none
    | c :: r =>
      if c == 0x5D then some r
      else if c == 0x2C then (valueD f d (skipWs r)).bind (arrTailD f d)
      else none
/-- string ws ":" ws value -/
def memberD : Nat → Nat → Bytes → Option Bytes
  | 0, _, _ => none
  | f + 1, d, bs =>
    (string bs).bind fun r1 =>
      match skipWs r1 with
      | [] => none
      | c :: r2 => if c == 0x3A then valueD f d (skipWs r2) else none
/-- after a member inside an object: ws ( "}" / "," ws member objTail ) -/
def objTailD : Nat → Nat → Bytes → Option Bytes
  | 0, _, _ => none
  | f + 1, d, bs =>
    match skipWs bs with
    | [] => none
    | c :: r =>
      if c == 0x7D then some r
      else if c == 0x2C then (memberD f d (skipWs r)).bind (objTailD f d)
      else none
end

/-- JSON-text = ws value ws, nesting depth at most `d` -/
def isJsonD (d : Nat) (bs : Bytes) : Bool :=
  match valueD (bs.length + 1) d (skipWs bs) with
  | none => false
  | some r => (skipWs r).isEmpty

end UgoVerif.Spec.Json
