import UgoVerif.Model.Enc
/-
  Specification side of C04: what an encode/decode round trip is allowed to change
  (`norm`), which values have an encoding at all (`Encodable`), and how much fuel the
  decoder model needs for them (`need`).  Core Lean only.
-/
namespace UgoVerif.Spec.Enc
open UgoVerif.Go UgoVerif.Model.Enc

/-- The only things a round trip may change in a compiled function: a non-positive
    `NumParams`/`NumLocals` (the compiler never produces a negative one) reads back as 0,
    the free variables are dropped (deliberately not encoded), and a source map listed with
    a repeated key collapses to the Go map it denotes. -/
def normCF (f : CF) : CF :=
  { numParams := if 0 < f.numParams.toInt then f.numParams else 0
    numLocals := if 0 < f.numLocals.toInt then f.numLocals else 0
    instructions := f.instructions
    variadic := f.variadic
    numFree := 0
    sourceMap := f.sourceMap.map mapOfList }

mutual
/-- value-level normal form: recursion into containers; an association list that lists a
    key twice collapses to the Go map it denotes (`mapOfList`); a nil SyncMap has no entries -/
def norm : Obj → Obj
  | .array xs => .array (normList xs)
  | .map kvs => .map (mapOfList (normKVs kvs))
  | .syncMap true _ => .syncMap true []
  | .syncMap false kvs => .syncMap false (mapOfList (normKVs kvs))
  | .compiledFunction f => .compiledFunction (normCF f)
  | .nil => .nil
  | .undefined => .undefined
  | .bool b => .bool b
  | .int v => .int v
  | .uint v => .uint v
  | .char v => .char v
  | .float v => .float v
  | .str s => .str s
  | .bytes s => .bytes s
  | .function n => .function n
  | .builtinFunction n => .builtinFunction n
  | .gob tn id => .gob tn id
def normList : List Obj → List Obj
  | [] => []
  | x :: xs => norm x :: normList xs
def normKVs : List (Bytes × Obj) → List (Bytes × Obj)
  | [] => []
  | (k, v) :: rest => (k, norm v) :: normKVs rest
end

def normBC (bc : BC) : BC :=
  { fileSet := bc.fileSet
    main := bc.main.map normCF
    constants := bc.constants.map normList
    numModules := if 0 < bc.numModules.toInt then bc.numModules else 0 }

mutual
/-- values that have an encoding: no nil interface anywhere, builtin functions are known by
    name, gob-encoded objects round-trip through the gob parameter -/
def Encodable (C : Ctx) : Obj → Prop
  | .nil => False
  | .array xs => EncodableL C xs
  | .map kvs => EncodableKV C kvs
  | .syncMap _ kvs => EncodableKV C kvs
  | .builtinFunction n => C.isBuiltinFn n = true
  | .gob tn id => ∀ rest, C.gobDec (C.gobEnc tn id ++ rest) = some (.gob tn id, rest)
  | _ => True
def EncodableL (C : Ctx) : List Obj → Prop
  | [] => True
  | x :: xs => Encodable C x ∧ EncodableL C xs
def EncodableKV (C : Ctx) : List (Bytes × Obj) → Prop
  | [] => True
  | (_, v) :: rest => Encodable C v ∧ EncodableKV C rest
end

mutual
/-- fuel the decoder model needs for the encoding of a value -/
def need : Obj → Nat
  | .array xs => 2 + needL xs
  | .map kvs => 2 + needKV kvs
  | .syncMap true _ => 1
  | .syncMap false kvs => 2 + needKV kvs
  | .compiledFunction _ => 8
  | _ => 1
def needL : List Obj → Nat
  | [] => 0
  | x :: xs => 1 + need x + needL xs
def needKV : List (Bytes × Obj) → Nat
  | [] => 0
  | (_, v) :: rest => 1 + need v + needKV rest
end

end UgoVerif.Spec.Enc
