import UgoVerif.Spec.Ast
import UgoVerif.VM.Step
/-
  Reference semantics of the uGO source language (docs/tutorial.md,
  docs/destructuring.md): a fuelled definitional interpreter over the AST.

  Independent of compiler.go / vm.go in everything the properties C01–C03 and C10
  are about: variables are *named boxes* in lexically nested scopes (one fresh box
  per executed declaration, closures capture boxes), evaluation is left to right
  with the right-hand side of an assignment before its target, control flow is by
  completion records (normal | break | continue | return v | throw e), `finally`
  is the textbook rule (runs once on every exit; the pending completion resumes
  unless the finally body completes abruptly), calls bind arguments by the three
  line rule of `bindArgs`.  It shares with the VM model only the *object* layer of
  objects.go / numeric.go / builtins.go (operators, indexing, equality, truthiness,
  the modelled builtins) — `VM/Base.lean`.
-/
namespace UgoVerif.Sem
open UgoVerif UgoVerif.Go UgoVerif.Ast UgoVerif.VM

/-- a function literal evaluated to a closure: code + captured environment -/
structure Closure where
  params : List String
  variadic : Bool
  body : List Stmt
  env : List (List (String × Addr))      -- captured scopes, innermost first
  deriving Inhabited

structure SemSt where
  funcs : Array Closure := #[]            -- closure table; a function value is `.cfun a` with heap[a] = .fn idx none
  globalsDeclared : List String := []     -- names declared `global`
  depth : Nat := 0                        -- active calls (the VM allows 1022 nested non-tail calls)
  deriving Inhabited

abbrev SM := StateT SemSt VM.M

/-- completion of a statement -/
inductive Comp where
  | normal
  | brk
  | cont
  | ret (v : V)
  | thr (e : Addr)                        -- a *RuntimeError being propagated
  deriving Inhabited

/-- result of an expression: a value or a propagating error -/
inductive ER where
  | val (v : V)
  | thr (e : Addr)
  deriving Inhabited

abbrev Env := List (List (String × Addr))

def lookupEnv (n : String) : Env → Option Addr
  | [] => none
  | sc :: rest =>
    match sc.find? (·.1 == n) with
    | some (_, a) => some a
    | none => lookupEnv n rest

def liftM {α} (m : VM.M α) : SM α := fun s => do let a ← m; pure (a, s)

/-- a uGO-level error produced by an operation becomes a thrown *RuntimeError -/
def raise (e : OpErr) : SM ER := do
  let a ← liftM (rtErrOfOpErr e)
  pure (.thr a)

def declare (env : Env) (n : String) (v : V) : SM Env := do
  let a ← liftM (alloc (.box v))
  match env with
  | sc :: rest => pure (((n, a) :: sc.filter (·.1 != n)) :: rest)
  | [] => pure [[(n, a)]]

/-- the catch identifier: a variable of that name already declared in the try statement's scope is
    assigned, otherwise a new variable is declared there -/
def bindCatch (env : Env) (n : String) (v : V) : SM Env := do
  match env with
  | sc :: _ =>
    match sc.find? (·.1 == n) with
    | some (_, a) => do liftM (heapSet a (.box v)); pure env
    | none => declare env n v
  | [] => declare env n v

def readBox (a : Addr) : SM V := do
  match (← liftM (heapGet a)) with
  | .box v => pure v
  | _ => liftM (unsupported "sem: not a box")

/-- the three-line argument binding rule (tutorial: functions, variadic, spread) -/
def bindArgs (params : List String) (variadic : Bool) (args : List V) : Except OpErr (List (String × Sum V (List V))) :=
  let np := params.length
  if !variadic then
    if args.length != np then .error (.named "WrongNumberOfArgumentsError" s!"want={np} got={args.length}")
    else .ok (params.zip (args.map Sum.inl))
  else
    if args.length < np - 1 then .error (.named "WrongNumberOfArgumentsError" s!"want>={np - 1} got={args.length}")
    else .ok ((params.take (np - 1)).zip ((args.take (np - 1)).map Sum.inl) ++
              [(params.getLast!, Sum.inr (args.drop (np - 1)))])

def isBuiltinTok (t : Nat) : Bool := t != tLAnd && t != tLOr && t != tEqual && t != tNotEqual

def builtinIndex : String → Option Nat
  | "append" => some Gen.builtinAppend
  | "len" => some Gen.builtinLen
  | "typeName" => some Gen.builtinTypeName
  | ":makeArray" => some Gen.builtinMakeArray
  | _ => none

/-- names of every builtin (any builtin the interpreter does not model ends the run as unsupported) -/
def otherBuiltins : List String := ["delete", "copy", "repeat", "contains", "sort", "sortReverse", "error",
  "bool", "int", "uint", "float", "char", "string", "bytes", "chars", "printf", "println", "sprintf", "globals",
  "isError", "isInt", "isUint", "isFloat", "isChar", "isBool", "isString", "isBytes", "isMap", "isSyncMap",
  "isArray", "isUndefined", "isFunction", "isCallable", "isIterable", "WrongNumArgumentsError",
  "InvalidOperatorError", "IndexOutOfBoundsError", "NotIterableError", "NotIndexableError",
  "NotIndexAssignableError", "NotCallableError", "NotImplementedError", "ZeroDivisionError", "TypeError", "cap"]

def maxDepth : Nat := 1022

/-- `x op= y` means `x = x op y` -/
def compoundBase (tok : Nat) : Option Nat :=
  if tok == tAddAssign then some tAdd else if tok == tSubAssign then some tSub
  else if tok == tMulAssign then some tMul else if tok == tQuoAssign then some tQuo
  else if tok == tRemAssign then some tRem else if tok == tAndAssign then some tAnd
  else if tok == tOrAssign then some tOr else if tok == tAndNotAssign then some tAndNot
  else if tok == tXorAssign then some tXor else if tok == tShlAssign then some tShl
  else if tok == tShrAssign then some tShr else none

/-- decorate the bare index errors like vm.go OpGetIndex / OpSetIndex do -/
def decorateIndexErr (get : Bool) (target index : V) (e : OpErr) : SM OpErr := do
  match e with
  | .named "NotIndexableError" "" => pure (.named "NotIndexableError" (typeName target))
  | .named "NotIndexAssignableError" "" => pure (.named "NotIndexAssignableError" (typeName target))
  | .named "IndexOutOfBoundsError" "" => do
    let s ← liftM (vString index)
    pure (.named "IndexOutOfBoundsError" (String.fromUTF8! (ByteArray.mk s.toArray)))
  | e => let _ := get; pure e

mutual
/-- expressions: left to right -/
def evalExpr (F : FloatOps) : Nat → Env → Expr → SM ER
  | 0, _, _ => liftM (unsupported "sem: fuel")
  | fuel+1, env, e => do
    match e with
    | .int _ v => pure (.val (.int v))
    | .uint _ v => pure (.val (.uint v))
    | .float _ v => pure (.val (.float v))
    | .char _ v => pure (.val (.char v))
    | .bool _ b => pure (.val (.bool b))
    | .str _ s => pure (.val (.str s))
    | .undef _ => pure (.val .undefined)
    | .paren _ e => evalExpr F fuel env e
    | .ident _ name =>
      match lookupEnv name env with
      | some a => do pure (.val (← readBox a))
      | none =>
        if (← get).globalsDeclared.contains name then
          match (← liftM (do vIndexGet (← getS).globals (.str name.toUTF8.toList))) with
          | .ok v => pure (.val v)
          | .error e => raise e
        else
          match builtinIndex name with
          | some i => pure (.val (.builtin i))
          | none =>
            if otherBuiltins.contains name then liftM (unsupported s!"sem: builtin {name}")
            else liftM (unsupported s!"sem: unresolved {name}")
    | .array _ es => do
      match (← evalList F fuel env es) with
      | .inl vs => do pure (.val (← liftM (newArray vs)))
      | .inr e => pure (.thr e)
    | .map _ kvs => do
      match (← evalList F fuel env (kvs.map Prod.snd)) with
      | .inl vs =>
        let entries := (kvs.map Prod.fst).zip vs
        let m := entries.foldl (fun acc (k, v) => insertKV k.toUTF8.toList v acc) []
        let a ← liftM (alloc (.map m))
        pure (.val (.map a))
      | .inr e => pure (.thr e)
    | .unary _ tok x => do
      match (← evalExpr F fuel env x) with
      | .thr e => pure (.thr e)
      | .val v =>
        -- `!x`, `+x` (0 + x), `-x` (0 - x), `^x` (m ^ x), bools as 0/1: vm.go xOpUnary (regenerated)
        match (← liftM (vUnary F (tokOfNat tok) v)) with
        | .ok v' => pure (.val v')
        | .error e => raise e
    | .binary _ tok l r => do
      match (← evalExpr F fuel env l) with
      | .thr e => pure (.thr e)
      | .val lv =>
        if tok == tLAnd then
          if (← liftM (isFalsy lv)) then pure (.val lv) else evalExpr F fuel env r
        else if tok == tLOr then
          if (← liftM (isFalsy lv)) then evalExpr F fuel env r else pure (.val lv)
        else
          match (← evalExpr F fuel env r) with
          | .thr e => pure (.thr e)
          | .val rv =>
            if tok == tEqual then pure (.val (.bool (← liftM (vEqual F lv rv))))
            else if tok == tNotEqual then pure (.val (.bool (!(← liftM (vEqual F lv rv)))))
            else
              match (← liftM (vBinaryOp F (tokOfNat tok) lv rv)) with
              | .ok v => pure (.val v)
              | .error e => raise e
    | .cond _ c t f => do
      match (← evalExpr F fuel env c) with
      | .thr e => pure (.thr e)
      | .val cv => if (← liftM (isFalsy cv)) then evalExpr F fuel env f else evalExpr F fuel env t
    | .index _ b i => do
      match (← evalExpr F fuel env b) with
      | .thr e => pure (.thr e)
      | .val bv =>
        match (← evalExpr F fuel env i) with
        | .thr e => pure (.thr e)
        | .val iv =>
          match (← liftM (vIndexGet bv iv)) with
          | .ok v => pure (.val v)
          | .error e => do raise (← decorateIndexErr true bv iv e)
    | .selector _ b sel => do
      match (← evalExpr F fuel env b) with
      | .thr e => pure (.thr e)
      | .val bv =>
        match (← evalExpr F fuel env sel) with
        | .thr e => pure (.thr e)
        | .val iv =>
          match (← liftM (vIndexGet bv iv)) with
          | .ok v => pure (.val v)
          | .error e => do raise (← decorateIndexErr true bv iv e)
    | .slice _ b lo hi => do
      match (← evalExpr F fuel env b) with
      | .thr e => pure (.thr e)
      | .val bv =>
        let lo? ← (match lo with
          | some x => evalExpr F fuel env x
          | none => pure (.val .undefined))
        match lo? with
        | .thr e => pure (.thr e)
        | .val lv =>
          let hi? ← (match hi with
            | some x => evalExpr F fuel env x
            | none => pure (.val .undefined))
          match hi? with
          | .thr e => pure (.thr e)
          | .val hv => sliceOf bv lv hv
    | .func _ variadic params _ body => do
      let st ← get
      let idx := st.funcs.size
      set { st with funcs := st.funcs.push { params := params, variadic := variadic, body := body, env := env } }
      let a ← liftM (alloc (.fn idx none))
      pure (.val (.cfun a))
    | .call _ ellipsis f args => do
      -- callee first (for `obj.name(args)`: obj, then the arguments, then the name lookup), then arguments left to right
      match f with
      | .selector _ obj sel =>
        match (← evalExpr F fuel env obj) with
        | .thr e => pure (.thr e)
        | .val ov =>
          match (← evalList F fuel env args) with
          | .inr e => pure (.thr e)
          | .inl avs =>
            match (← evalExpr F fuel env sel) with
            | .thr e => pure (.thr e)
            | .val sv =>
              match (← liftM (vIndexGet ov sv)) with
              | .error e => raise e
              | .ok fv => callValue F fuel fv avs ellipsis
      | f =>
        match (← evalExpr F fuel env f) with
        | .thr e => pure (.thr e)
        | .val fv =>
          match (← evalList F fuel env args) with
          | .inr e => pure (.thr e)
          | .inl avs => callValue F fuel fv avs ellipsis
    | .import_ _ _ => liftM (unsupported "sem: import")
termination_by structural fuel => fuel

def evalList (F : FloatOps) : Nat → Env → List Expr → SM (Sum (List V) Addr)
  | 0, _, _ => liftM (unsupported "sem: fuel")
  | _, _, [] => pure (.inl [])
  | fuel+1, env, e :: es => do
    match (← evalExpr F fuel env e) with
    | .thr a => pure (.inr a)
    | .val v =>
      match (← evalList F fuel env es) with
      | .inl vs => pure (.inl (v :: vs))
      | .inr a => pure (.inr a)
termination_by structural fuel => fuel

/-- `obj[lo:hi]` -/
def sliceOf (obj lo hi : V) : SM ER := do
  let objlen? : Option Int := match obj with
    | .arr _ _ l => some l | .str s => some s.length | .bytes s => some s.length | _ => none
  match objlen? with
  | none => raise (.named "TypeError" s!"{typeName obj} cannot be sliced")
  | some objlen =>
    let conv (v : V) (d : Int) : Option Int := match v with
      | .undefined => some d | .int x => some x.toInt | .uint x => some (BitVec.toInt x)
      | .char x => some x.toInt | _ => none
    match conv lo 0 with
    | none => raise (.named "TypeError" s!"invalid first index type {typeName lo}")
    | some low =>
    match conv hi objlen with
    | none => raise (.named "TypeError" s!"invalid second index type {typeName hi}")
    | some high =>
      if low > high then raise (.named "InvalidIndexError" s!"[{low}:{high}]")
      else match obj with
        | .bytes _ => liftM (unsupported "sem: slice of bytes")
        | _ =>
          if low < 0 || high < 0 || high > objlen then raise (.named "IndexOutOfBoundsError" s!"[{low}:{high}]")
          else match obj with
            | .arr a off _ => pure (.val (.arr a (off + low.toNat) (high - low).toNat))
            | .str s => pure (.val (.str ((s.drop low.toNat).take (high - low).toNat)))
            | v => pure (.val v)

/-- call a value with evaluated arguments; `spread` = the last argument is `...arr` -/
def callValue (F : FloatOps) : Nat → V → List V → Bool → SM ER
  | 0, _, _, _ => liftM (unsupported "sem: fuel")
  | fuel+1, fv, avs, spread => do
    -- effective argument list
    let eff? : Except OpErr (List V) ← (if spread then
        match avs.getLast? with
        | some (.arr a o l) => do pure (.ok (avs.dropLast ++ (← liftM (arrElems a o l))))
        | some v => pure (.error (.named "TypeError" s!"invalid type for argument 'last': expected array, found {typeName v}"))
        | none => pure (.ok [])
      else pure (.ok avs))
    match fv with
    | .cfun a =>
      match (← liftM (heapGet a)) with
      | .fn idx _ =>
        let st ← get
        match st.funcs[idx]? with
        | none => liftM (unsupported "sem: unknown closure")
        | some cl =>
          match eff? with
          | .error e => raise e
          | .ok eff =>
            match bindArgs cl.params cl.variadic eff with
            | .error e => raise e
            | .ok binds =>
              if st.depth ≥ maxDepth then raise .stackOverflow
              else
                -- one fresh box per parameter, in a new scope on top of the captured environment
                let mut scope : List (String × Addr) := []
                for (n, v) in binds do
                  let v' ← (match v with
                    | .inl v => pure v
                    | .inr vs => liftM (newArray vs))
                  let b ← liftM (alloc (.box v'))
                  scope := (n, b) :: scope.filter (·.1 != n)
                modify fun s => { s with depth := s.depth + 1 }
                let c ← execBlock F fuel (scope :: cl.env) cl.body
                modify fun s => { s with depth := s.depth - 1 }
                match c.1 with
                | .ret v => pure (.val v)
                | .thr e => pure (.thr e)
                | _ => pure (.val .undefined)
      | _ => liftM (unsupported "sem: not a closure")
    | .builtin i =>
      match eff? with
      | .error e => raise e
      | .ok eff =>
        match (← liftM (callBuiltin i eff)) with
        | .ok v => pure (.val v)
        | .error e => raise e
    | .host _ => liftM (unsupported "sem: host call")
    | v => raise (.named "NotCallableError" (typeName v))
termination_by structural fuel => fuel

/-- a statement list in the *current* scope: returns the completion and the extended environment -/
def execList (F : FloatOps) : Nat → Env → List Stmt → SM (Comp × Env)
  | 0, _, _ => liftM (unsupported "sem: fuel")
  | _, env, [] => pure (.normal, env)
  | fuel+1, env, s :: ss => do
    let (c, env') ← execStmt F fuel env s
    match c with
    | .normal => execList F fuel env' ss
    | c => pure (c, env')
termination_by structural fuel => fuel

/-- a block `{ … }`: a new scope; declarations do not escape -/
def execBlock (F : FloatOps) : Nat → Env → List Stmt → SM (Comp × Env)
  | 0, _, _ => liftM (unsupported "sem: fuel")
  | fuel+1, env, ss => do
    let (c, _) ← execList F fuel ([] :: env) ss
    pure (c, env)
termination_by structural fuel => fuel

/-- assignment to a target expression (`x`, `a[i]`, `a.b[i].c`): the value is already evaluated -/
def assignTo (F : FloatOps) : Nat → Env → Expr → V → Bool → Nat → SM (Comp × Env)
  | 0, _, _, _, _, _ => liftM (unsupported "sem: fuel")
  | fuel+1, env, target, v, define, keyword => do
    match target with
    | .ident _ name =>
      if define then
        -- a declaration: one fresh variable per execution (`_` discards)
        let env' ← declare env name v
        let _ := keyword
        pure (.normal, env')
      else
        match lookupEnv name env with
        | some a => liftM (heapSet a (.box v)); pure (.normal, env)
        | none =>
          if (← get).globalsDeclared.contains name then
            match (← liftM (do vIndexSet (← getS).globals (.str name.toUTF8.toList) v)) with
            | .ok () => pure (.normal, env)
            | .error e => do match (← raise e) with | .thr a => pure (.thr a, env) | _ => pure (.normal, env)
          else liftM (unsupported s!"sem: unresolved assignment target {name}")
    | .index _ b i | .selector _ b i =>
      match (← evalExpr F fuel env b) with
      | .thr e => pure (.thr e, env)
      | .val bv =>
        match (← evalExpr F fuel env i) with
        | .thr e => pure (.thr e, env)
        | .val iv =>
          match (← liftM (vIndexSet bv iv v)) with
          | .ok () => pure (.normal, env)
          | .error e => do
            match (← raise (← decorateIndexErr false bv iv e)) with
            | .thr a => pure (.thr a, env)
            | _ => pure (.normal, env)
    | .paren _ x => assignTo F fuel env x v define keyword
    | _ => liftM (unsupported "sem: assignment target")
termination_by structural fuel => fuel

def execStmt (F : FloatOps) : Nat → Env → Stmt → SM (Comp × Env)
  | 0, _, _ => liftM (unsupported "sem: fuel")
  | fuel+1, env, st => do
    match st with
    | .empty _ => pure (.normal, env)
    | .expr _ e =>
      match (← evalExpr F fuel env e) with
      | .thr a => pure (.thr a, env)
      | .val _ => pure (.normal, env)
    | .block _ body => execBlock F fuel env body
    | .incdec _ tok _ e =>
      -- x++ is x += 1
      match (← evalExpr F fuel env e) with
      | .thr a => pure (.thr a, env)
      | .val cur =>
        match (← liftM (vBinaryOp F (if tok == tDec then .Sub else .Add) cur (.int 1#64))) with
        | .error er => do match (← raise er) with | .thr a => pure (.thr a, env) | _ => pure (.normal, env)
        | .ok nv => assignTo F fuel env e nv false tVar
    | .assign _ tok lhs rhs =>
      match lhs, rhs with
      | [target], [r] =>
        if tok == tAssign || tok == tDefine then
          -- the right-hand side is evaluated before the target
          match (← evalExpr F fuel env r) with
          | .thr a => pure (.thr a, env)
          | .val v => assignTo F fuel env target v (tok == tDefine) tVar
        else
          -- compound: load the target, then the right-hand side, operate, store
          match (← evalExpr F fuel env target) with
          | .thr a => pure (.thr a, env)
          | .val cur =>
            match (← evalExpr F fuel env r) with
            | .thr a => pure (.thr a, env)
            | .val rv =>
              let op := (compoundBase tok).getD tAdd
              match (← liftM (vBinaryOp F (tokOfNat op) cur rv)) with
              | .error er => do match (← raise er) with | .thr a => pure (.thr a, env) | _ => pure (.normal, env)
              | .ok nv => assignTo F fuel env target nv false tVar
      | targets, [r] =>
        -- array destructuring: x, y := expr
        match (← evalExpr F fuel env r) with
        | .thr a => pure (.thr a, env)
        | .val v => do
          let n := targets.length
          let elems : List V ← (match v with
            | .arr a o l => do
              let xs ← liftM (arrElems a o l)
              pure ((xs.take n) ++ List.replicate (n - xs.length) V.undefined)
            | v => pure (v :: List.replicate (n - 1) V.undefined))
          destructure F fuel env targets elems (tok == tDefine) tVar
      | _, _ => liftM (unsupported "sem: assignment shape")
    | .declParam _ _ => pure (.normal, env)     -- bound by `runProgram`
    | .declGlobal _ specs =>
      modify fun s => { s with globalsDeclared := s.globalsDeclared ++ specs.map (fun (_, n, _) => n) }
      pure (.normal, env)
    | .declValue _ tok specs => execValueSpecs F fuel env tok specs none
    | .if_ _ init cond _ body else_ =>
      -- the if statement has its own scope for `init`
      let (c0, env1) ← (match init with
        | some i => execStmt F fuel ([] :: env) i
        | none => pure (Comp.normal, [] :: env))
      match c0 with
      | .normal =>
        match (← evalExpr F fuel env1 cond) with
        | .thr a => pure (.thr a, env)
        | .val cv =>
          if !(← liftM (isFalsy cv)) then
            let (c, _) ← execBlock F fuel env1 body
            pure (c, env)
          else
            match else_ with
            | some e => do let (c, _) ← execStmt F fuel env1 e; pure (c, env)
            | none => pure (.normal, env)
      | c => pure (c, env)
    | .for_ _ init cond post _ body =>
      let (c0, env1) ← (match init with
        | some i => execStmt F fuel ([] :: env) i
        | none => pure (Comp.normal, [] :: env))
      match c0 with
      | .normal => do
        let c ← forLoop F fuel env1 cond post body
        pure (c, env)
      | c => pure (c, env)
    | .forin _ key value iter _ body =>
      match (← evalExpr F fuel env iter) with
      | .thr a => pure (.thr a, env)
      | .val iv =>
        match iv with
        | .arr a o l => do
          let xs ← liftM (arrElems a o l)
          let pairs := (List.range xs.length).zip xs |>.map fun (i, x) => (V.int (BitVec.ofNat 64 i), x)
          let c ← forInLoop F fuel env key value pairs body
          pure (c, env)
        | .bytes s => do
          let pairs := (List.range s.length).zip s |>.map fun (i, b) => (V.int (BitVec.ofNat 64 i), V.int (BitVec.ofNat 64 b.toNat))
          let c ← forInLoop F fuel env key value pairs body
          pure (c, env)
        | .map a => do
          let kvs ← liftM (mapEntries a)
          if kvs.length > 1 then liftM (unsupported "sem: for-in over a map with several keys")
          else
            let c ← forInLoop F fuel env key value (kvs.map fun (k, v) => (V.str k, v)) body
            pure (c, env)
        | .str _ => liftM (unsupported "sem: string iteration")
        | .host _ | .box _ | .nil => liftM (unsupported "sem: iterate host")
        | v => do match (← raise (.named "NotIterableError" (typeName v))) with | .thr a => pure (.thr a, env) | _ => pure (.normal, env)
    | .branch _ tok => pure ((if tok == tBreak then .brk else .cont), env)
    | .return_ _ e =>
      match e with
      | none => pure (.ret .undefined, env)
      | some x =>
        match (← evalExpr F fuel env x) with
        | .thr a => pure (.thr a, env)
        | .val v => pure (.ret v, env)
    | .throw _ e =>
      match e with
      | none => liftM (unsupported "sem: bare throw")
      | some x =>
        match (← evalExpr F fuel env x) with
        | .thr a => pure (.thr a, env)
        | .val v => do
          -- newErrorFromObject: runtime errors are re-thrown as they are, error objects are wrapped,
          -- anything else becomes the message of a new error
          let ra ← (match v with
            | .rterr a => pure a
            | .err a => liftM (alloc (.rterr (some a)))
            | v => do
              let msg ← liftM (vString v)
              let ea ← liftM (alloc (.err [] msg none))
              liftM (alloc (.rterr (some ea))))
          pure (.thr ra, env)
    | .try_ _ _ body catch_ finally_ => do
      -- the try statement has ONE scope shared by its three blocks (docs/error-handling.md: a variable
      -- of the try block "is accessible from catch block" and "from finally block", the catch
      -- identifier "is accessible from finally block")
      -- 1. the try body
      let (c1, env1) ← execList F fuel ([] :: env) body
      -- 2. a thrown error is caught by the catch clause, if there is one: "thrown error is assigned to
      --    err variable" — a variable of that name declared by the body is assigned, otherwise the
      --    identifier is a new variable of this execution of the statement; when the body completes
      --    normally the identifier is undefined
      let (c2, env2) ← (match c1, catch_ with
        | .thr e, some (_, ident, _, cbody) => do
          let envc ← (match ident with
            | some n => bindCatch env1 n (.rterr e)
            | none => pure env1)
          execList F fuel envc cbody
        | .normal, some (_, some n, _, _) => do
          let envc ← bindCatch env1 n .undefined
          pure (Comp.normal, envc)
        | c, _ => pure (c, env1))
      -- 3. finally runs exactly once, whatever c2 is; it overrides c2 only when it completes abruptly
      match finally_ with
      | none => pure (c2, env)
      | some (_, _, fbody) =>
        let (c3, _) ← execList F fuel env2 fbody
        match c3 with
        | .normal => pure (c2, env)
        | c => pure (c, env)
termination_by structural fuel => fuel

def destructure (F : FloatOps) : Nat → Env → List Expr → List V → Bool → Nat → SM (Comp × Env)
  | 0, _, _, _, _, _ => liftM (unsupported "sem: fuel")
  | _, env, [], _, _, _ => pure (.normal, env)
  | fuel+1, env, t :: ts, vs, define, kw => do
    let v := vs.headD .undefined
    -- in `x, y := …` a name that already exists in this scope is assigned, not redeclared
    let isNew := match t, env with
      | .ident _ n, sc :: _ => !(sc.any (·.1 == n))
      | _, _ => true
    let (c, env') ← assignTo F fuel env t v (define && isNew) kw
    match c with
    | .normal => destructure F fuel env' ts vs.tail define kw
    | c => pure (c, env')
termination_by structural fuel => fuel

/-- the identifiers of one `var`/`const` spec; `last` is the expression repeated by a const
    spec without a value -/
def execIdents (F : FloatOps) : Nat → Env → Nat → Option Nat → List (Pos × String) → List (Option Expr) →
    Option Expr → SM (Comp × Env × Option Expr)
  | 0, _, _, _, _, _, _ => liftM (unsupported "sem: fuel")
  | _, env, _, _, [], _, last => pure (.normal, env, last)
  | fuel+1, env, tok, iota, (ipos, name) :: ids', vals, last => do
    let v? : Option Expr := (vals.head?).bind id
    let (e, last') := match v? with
      | some e => (e, some e)
      | none => match tok == tConst, last with
        | true, some le => (le, last)
        | _, _ => (Expr.undef ipos, last)
    -- `iota` inside a const spec is the index of the spec
    let envI ← (match tok == tConst, iota with
      | true, some k => declare ([] :: env) "iota" (.int (BitVec.ofNat 64 k))
      | _, _ => pure ([] :: env))
    match (← evalExpr F fuel envI e) with
    | .thr a => pure (.thr a, env, last')
    | .val v =>
      let env' ← declare env name v
      execIdents F fuel env' tok iota ids' vals.tail last'
termination_by structural fuel => fuel

/-- `var` / `const` groups -/
def execValueSpecs (F : FloatOps) : Nat → Env → Nat →
    List (Option Nat × List (Pos × String) × List (Option Expr)) → Option Expr → SM (Comp × Env)
  | 0, _, _, _, _ => liftM (unsupported "sem: fuel")
  | _, env, _, [], _ => pure (.normal, env)
  | fuel+1, env, tok, (iota, idents, values) :: rest, last => do
    let (c, env', last') ← execIdents F fuel env tok iota idents values last
    match c with
    | .normal => execValueSpecs F fuel env' tok rest last'
    | c => pure (c, env')
termination_by structural fuel => fuel

/-- `for init; cond; post { body }`: body declarations are fresh in every iteration -/
def forLoop (F : FloatOps) : Nat → Env → Option Expr → Option Stmt → List Stmt → SM Comp
  | 0, _, _, _, _ => liftM (unsupported "sem: fuel")
  | fuel+1, env, cond, post, body => do
    let go? ← (match cond with
      | none => pure (ER.val (.bool true))
      | some c => evalExpr F fuel env c)
    match go? with
    | .thr a => pure (.thr a)
    | .val cv =>
      if (← liftM (isFalsy cv)) then pure .normal
      else
        let (c, _) ← execBlock F fuel env body
        match c with
        | .brk => pure .normal
        | .normal | .cont =>
          let (cp, _) ← (match post with
            | some p => execStmt F fuel env p
            | none => pure (Comp.normal, env))
          match cp with
          | .normal => forLoop F fuel env cond post body
          | c => pure c
        | c => pure c
termination_by structural fuel => fuel

def forInLoop (F : FloatOps) : Nat → Env → String → String → List (V × V) → List Stmt → SM Comp
  | 0, _, _, _, _, _ => liftM (unsupported "sem: fuel")
  | _, _, _, _, [], _ => pure .normal
  | fuel+1, env, key, value, (k, v) :: rest, body => do
    -- key and value are fresh variables in every iteration
    let mut env' : Env := [] :: env
    if key != "_" then env' ← declare env' key k
    if value != "_" then env' ← declare env' value v
    let (c, _) ← execBlock F fuel env' body
    match c with
    | .brk => pure .normal
    | .normal | .cont => forInLoop F fuel env key value rest body
    | c => pure c
termination_by structural fuel => fuel

end

/-- names declared by `param` statements of the main script, in order, with the variadic flag -/
def mainParams : List Stmt → List String × Bool
  | [] => ([], false)
  | .declParam _ specs :: rest =>
    let (ns, va) := mainParams rest
    (specs.map (fun (_, n, _) => n) ++ ns, va || specs.any (fun (_, _, v) => v))
  | _ :: rest => mainParams rest

/-- outcome of running a whole script -/
inductive Result where
  | value (v : V)
  | error (e : Addr)
  deriving Inhabited

/-- run a script: parameters are bound leniently like `VM.initLocals` (missing → undefined, extra ignored) -/
def runProgram (F : FloatOps) (fuel : Nat) (file : List Stmt) (args : List V) : SM Result := do
  let (ps, variadic) := mainParams file
  let np := ps.length
  let mut scope : List (String × Addr) := []
  let mut i := 0
  for p in ps do
    let v ← (if variadic && i == np - 1 then
        liftM (newArray (args.drop (np - 1)))
      else pure (args.getD i .undefined))
    let b ← liftM (alloc (.box v))
    scope := (p, b) :: scope
    i := i + 1
  let (c, _) ← execList F fuel [scope] file
  match c with
  | .ret v => pure (.value v)
  | .thr e => pure (.error e)
  | _ => pure (.value .undefined)

end UgoVerif.Sem
