import UgoVerif.VM.Run
/-
  C11, behavioural half on the real VM model: the VM that runs an instruction stream in the
  *version-1 layout* (`wide = false`: the operands of JUMP, JUMPFALSY, ANDJUMP, ORJUMP are 2 bytes,
  those of SETUPTRY 2+2 bytes) and, with `wide = true`, the current layout.

  Nothing of `VM/*.lean` is changed: the five re-encoded opcodes get a second reader for their
  operands, every other opcode is `VM.dispatch` itself; `stepW true = VM.step` and
  `runFromG (step F) = VM.runFrom F` (`Proofs/RelocRun.lean`).  Core Lean only.
-/
namespace UgoVerif.VM
open UgoVerif UgoVerif.Go

/-- width of a jump-class operand -/
def jw (wide : Bool) : Nat := if wide then 4 else 2

/-- the operand at `ip+k` of a jump-class instruction -/
def opndJ (wide : Bool) (k : Int) : M Nat := if wide then opnd4 k else opnd2 k

def jumpTargetW (wide : Bool) : M Int := do pure ((← opndJ wide 1 : Nat) : Int)

def execJumpW (wide : Bool) : M Ctl := do
  setIp ((← jumpTargetW wide) - 1); return .next

def execJumpFalsyW (wide : Bool) : M Ctl := do
  let sp ← getSp
  setSp (sp - 1)
  let obj ← stackGet (sp - 1)
  stackSet (sp - 1) .nil
  if (← isFalsy obj) then
    setIp ((← jumpTargetW wide) - 1); return .next
  bumpIp (jw wide); return .next

def execAndJumpW (wide : Bool) : M Ctl := do
  let sp ← getSp
  if (← isFalsy (← stackGet (sp - 1))) then
    setIp ((← jumpTargetW wide) - 1); return .next
  stackSet (sp - 1) .nil; setSp (sp - 1); bumpIp (jw wide); return .next

def execOrJumpW (wide : Bool) : M Ctl := do
  let sp ← getSp
  if (← isFalsy (← stackGet (sp - 1))) then
    stackSet (sp - 1) .nil; setSp (sp - 1); bumpIp (jw wide); return .next
  setIp ((← jumpTargetW wide) - 1); return .next

def execSetupTryW (wide : Bool) : M Ctl := do
  let catch_ ← opndJ wide 1
  let finally_ ← opndJ wide (1 + jw wide)
  let sp ← getSp
  let h : Handler := { sp := sp, catch_ := catch_, finally_ := finally_, returnTo := 0, err := none }
  setCurFrame fun f => { f with handlers := some (h :: (f.handlers.getD [])) }
  bumpIp (2 * jw wide); return .next

/-- `VM.dispatch` with the five re-encoded opcodes reading operands of width `jw wide` -/
def dispatchW (wide : Bool) (F : FloatOps) (op : Nat) : M Ctl :=
  if op == OpJump then execJumpW wide
  else if op == OpJumpFalsy then execJumpFalsyW wide
  else if op == OpAndJump then execAndJumpW wide
  else if op == OpOrJump then execOrJumpW wide
  else if op == OpSetupTry then execSetupTryW wide
  else dispatch F op

def stepW (wide : Bool) (F : FloatOps) : M Ctl := do
  bumpIp 1
  let op ← instAt (← getIp)
  noteTrace op
  dispatchW wide F op

/-- `VM.loopF` over an arbitrary one-instruction function -/
def loopG (stp : M Ctl) : Nat → M (Option Unit)
  | 0 => pure none
  | fuel+1 => do
    if (← getS).abort then
      modS fun s => { s with err := some .aborted }
      return some ()
    match (← stp) with
    | .ret => return some ()
    | .next => loopG stp fuel

/-- `VM.runFrom` over an arbitrary one-instruction function -/
def runFromG (stp : M Ctl) (fuel : Nat) (globals : V) (args : List V) (s0 : State) : Outcome × State :=
  match (prologue globals args).run.run s0 with
  | (.error (.panic m), s) => (.goPanic m, s)
  | (.error (.unsupported m), s) => (.unsupported m, s)
  | (.ok (), s) => go fuel fuel s
where
  go (reruns fuel : Nat) (s : State) : Outcome × State :=
    match reruns with
    | 0 => (.outOfFuel, s)
    | reruns+1 =>
      match (loopG stp fuel).run.run s with
      | (.ok none, s) => (.outOfFuel, s)
      | (.ok (some ()), s) =>
        match clearCurrentFrame.run.run s with
        | (_, s) => runFrom.finish s
      | (.error (.unsupported m), s) => (.unsupported m, s)
      | (.error (.panic m), s) =>
        if s.noPanic then
          match (handlePanic m).run.run s with
          | (.error (.panic m'), s) => (.goPanic m', s)
          | (.error (.unsupported m'), s) => (.unsupported m', s)
          | (.ok (), s) =>
            if s.err.isNone then go reruns (fuel - s.steps) s else runFrom.finish s
        else (.goPanic m, s)

/-- `Run` of a program in the version-1 layout (`wide = false`) / the current layout -/
def runFromW (wide : Bool) (F : FloatOps) := runFromG (stepW wide F)

end UgoVerif.VM
