import UgoVerif.VM.Run
/-
  VM model — `Invoker`, `vmPool._acquire/_release`, `vmSyncPool` (vm.go ≈1535-1706).

  One `State` is one `VM` struct.  Two groups of `State` fields are NOT fields of the Go
  struct but ambient Go memory shared by every VM of the process: the object heap
  (`heap`, `codes`) and the model's H1 trace mirror (`trace`, `steps`, `traceOn`).  They are
  threaded from the calling VM into the child and back.

  The module cache: `_acquire` copies the SLICE HEADER `vm.modulesCache = v.root.modulesCache`.
  `Run`'s prologue appends only while `len < NumModules`.  Hence
    * root cache already has `NumModules` entries (the root ran its prologue: always the case
      for an invocation made from a callback during the root's run): the child appends nothing,
      both headers denote the same backing array, every STOREMODULE of the child is visible to
      the parent and vice versa                                        → `mergeBack` copies it back;
    * root cache empty (root never ran): the child's appends allocate a private array, nothing
      the child stores is visible to the parent                        → parent keeps its cache;
    * 0 < len < NumModules: visibility of writes to the common prefix depends on the slice's
      spare capacity, which the model does not track                   → `unsupported`.
-/
namespace UgoVerif.VM
open UgoVerif UgoVerif.Go

/-- `VM{bytecode: bc}` with `*bc = Bytecode{}`: what `_release` leaves behind, what
    `vmSyncPool.New` and `acquire(usePool = false)` create.  `amb` supplies the ambient fields. -/
def zeroVM (amb : State) : State :=
  { stack := Array.replicate stackSize .nil, sp := 0, ip := 0, frames := emptyFrames, curFrame := 0,
    frameIndex := 0, heap := amb.heap, codes := amb.codes, consts := #[], mainFn := 0,
    numModules := 0, globals := .nil, modules := #[], err := none, abort := false,
    steps := amb.steps, trace := amb.trace, traceOn := amb.traceOn, noPanic := false }

/-- vm.go `_acquire(vm, cf)`: the assignments, in order.
      vm.bytecode.FileSet = root.bytecode.FileSet        (not modelled: positions)
      vm.bytecode.Constants = root.bytecode.Constants ; vm.constants = root.bytecode.Constants
      vm.bytecode.NumModules = root.bytecode.NumModules
      vm.bytecode.Main = cf
      vm.modulesCache = root.modulesCache                 (slice header)
      vm.pool = vmPool{root: root}                        (the pool is `World.idle`)
      vm.noPanic = root.noPanic
    `caller` is the VM that runs the host function: it supplies the ambient memory. -/
def acquireFrom (root caller child : State) (callee : Addr) : State :=
  { child with
    consts := root.consts, numModules := root.numModules, mainFn := callee,
    modules := root.modules, noPanic := root.noPanic,
    heap := caller.heap, codes := caller.codes, steps := caller.steps, trace := caller.trace,
    traceOn := caller.traceOn }

/-- vm.go `_release(vm)`: `*bc = Bytecode{}; *vm = VM{bytecode: bc}` -/
def releaseVM (child : State) : State := zeroVM child

/-- everything outside a single VM: `vmSyncPool` (idle children, last released first) -/
structure World where
  idle : List State := []
  deriving Inhabited

/-- `vmPool.acquire(cf, usePool)`: `vmSyncPool.Get()` or a new VM, then `_acquire` -/
def poolAcquire (w : World) (root caller : State) (callee : Addr) (usePool : Bool) : State × World :=
  if usePool then
    match w.idle with
    | c :: rest => (acquireFrom root caller c callee, { w with idle := rest })
    | [] => (acquireFrom root caller (zeroVM caller) callee, w)
  else (acquireFrom root caller (zeroVM caller) callee, w)

/-- `vmPool.release(vm)`: `_release` then `vmSyncPool.Put` -/
def poolRelease (w : World) (child : State) : World :=
  { w with idle := releaseVM child :: w.idle }

/-- how the Go memory a finished child shares with its caller flows back into the caller's `State` -/
def mergeBack (caller child : State) : State :=
  { caller with
    heap := child.heap, steps := child.steps, trace := child.trace,
    modules := if caller.modules.size ≥ caller.numModules then child.modules else caller.modules }

/-- configuration of the Go host functions of the `invoke` stream -/
structure HostCfg where
  pooled : Bool
  reuse : Bool
  deriving Inhabited

/-- what `child.Run` hands back to `Invoke`'s caller -/
inductive InvRes where
  | value (v : V)
  | error (e : OpErr)           -- returned `error`, as `throwGenErr` in the caller will see it
  | goPanic (msg : String)      -- the panic escapes `Invoke`
  | stop (o : Outcome)          -- unsupported / out of fuel: the whole run is not compared
  deriving Inhabited

def invResOf : Outcome → InvRes
  | .value v => .value v
  | .error (.rt a) => .error (.rt a)
  | .error .stackOverflow => .error .stackOverflow
  | .error .aborted => .error (.named "VMAbortedError" "")
  | .error .invalidBytecode => .error (.named "" "invalid Bytecode")
  | .error (.goerr m) => .error (.named "" m)
  | .goPanic m => .goPanic m
  | .unsupported m => .stop (.unsupported m)
  | .outOfFuel => .stop .outOfFuel

/-- `child.Run(globals, args…)` one invocation level further down: fuel, world, globals, args, child -/
abbrev ChildRun := Nat → World → V → List V → State → Outcome × World × State

/-- `n` invocations of the compiled function `fa` with `args` by `ugo.NewInvoker(callerVM, f)`
    (harness/cmd/corr/invoke.go): a fresh Invoker per invocation, or one Invoker for all (`reuse`);
    pooled: `Acquire()` … `defer Release()`; unpooled: `Invoke` acquires a new VM that is never
    released.  `child?` is `inv.child`; `s` is the calling VM. -/
def iterInvoke (runChild : ChildRun) (cfg : HostCfg) (rootNow : State) (fa : Addr) (args : List V) (fuel : Nat)
    (asArray : Bool) : Nat → World → State → Option State → List V → InvRes × World × State
  | 0, w, s, child?, acc =>
    let w := match child? with
      | some c => if cfg.pooled then poolRelease w c else w
      | none => w
    if asArray then
      (.value (.arr s.heap.size 0 acc.length), w, { s with heap := s.heap.push (.arr acc.toArray) })
    else (.value (acc.getLastD .undefined), w, s)
  | k+1, w, s, child?, acc =>
    -- Acquire() / the acquire(false) inside Invoke, unless this Invoker already holds a child
    let (child, w) := match child? with
      | some c => ({ c with heap := s.heap, steps := s.steps, trace := s.trace }, w)
      | none =>
        -- the root's fields as `_acquire` reads them now: its module cache is the array shared with the caller
        poolAcquire w { rootNow with modules := if s.modules.size ≥ s.numModules then s.modules else #[] } s fa cfg.pooled
    if child.abort then
      -- Invoke: `if inv.child.Aborted() { return Undefined, ErrVMAborted }`
      let w := if cfg.pooled then poolRelease w child else w
      (.error (.named "VMAbortedError" ""), w, s)
    else
      -- child.Run(inv.vm.globals, args...)
      let (out, w, child) := runChild fuel w s.globals args child
      let s := mergeBack s child
      match invResOf out with
      | .value v =>
        if cfg.reuse then iterInvoke runChild cfg rootNow fa args fuel asArray k w s (some child) (acc ++ [v])
        else
          let w := if cfg.pooled then poolRelease w child else w
          iterInvoke runChild cfg rootNow fa args fuel asArray k w s none (acc ++ [v])
      | r =>
        let w := if cfg.pooled then poolRelease w child else w
        (r, w, s)

def invokeN (runChild : ChildRun) (cfg : HostCfg) (root : State) (fuel : Nat) (w : World) (s : State) (f : V) (args : List V)
    (n : Nat) (asArray : Bool) : InvRes × World × State :=
  match f with
  | .cfun fa =>
    -- the root's fields as `_acquire` reads them; its module cache is the array shared with the caller
    let shared := decide (s.modules.size ≥ s.numModules)
    if !shared && s.modules.size != 0 then
      (.stop (.unsupported "module cache shorter than NumModules: sharing depends on slice capacity"), w, s)
    else
      let rootNow : State := { root with modules := if shared then s.modules else #[] }
      iterInvoke runChild cfg rootNow fa args fuel asArray n w s none []
  | _ => (.stop (.unsupported "Invoker on a non-compiled callee"), w, s)

/-- the Go host functions of the harness (harness/cmd/corr/invoke.go `invHost`):
    0 = `call(f, args…)`, 1 = `calln(n, f, args…)`, 2 = a Go function that panics -/
def hostFn (runChild : ChildRun) (cfg : HostCfg) (root : State) (fuel : Nat) (w : World) (s : State) (k : Nat) (args : List V) :
    InvRes × World × State :=
  match k, args with
  | 0, [] => (.error (.named "WrongNumberOfArgumentsError" "want>=1 got=0"), w, s)
  | 0, f :: rest => invokeN runChild cfg root fuel w s f rest 1 false
  | 1, n :: f :: rest =>
    match n with
    | .int n => invokeN runChild cfg root fuel w s f rest n.toInt.toNat true
    | _ => invokeN runChild cfg root fuel w s f rest 0 true
  | 1, as => (.error (.named "WrongNumberOfArgumentsError" s!"want>=2 got={as.length}"), w, s)
  | 2, _ => (.goPanic "gopanic", w, s)
  | _, _ => (.stop (.unsupported "unknown host function"), w, s)

/-- fetch + trace of `step`, telling whether the instruction is a CALL of a host function -/
def fetch : M (Nat × Option (Nat × Int × Int)) := do
  bumpIp 1
  let op ← instAt (← getIp)
  noteTrace op
  if op == OpCall then
    let numArgs ← opnd1 1
    let flags ← opnd1 2
    let callee ← stackGet ((← getSp) - numArgs - 1)
    match callee with
    | .host k => pure (op, some (k, (numArgs : Int), (flags : Int)))
    | _ => pure (op, none)
  else pure (op, none)

/-- xOpCallExCaller after `CallEx` returned: pop the arguments, store the result or throw -/
def finishHostCall (numArgs : Int) (r : Except OpErr V) : M Ctl := do
  for _ in [0:numArgs.toNat] do
    let sp ← getSp
    setSp (sp - 1)
    stackSet (sp - 1) .nil
  match r with
  | .error e => failWith e
  | .ok v =>
    stackSet ((← getSp) - 1) v
    bumpIp 2
    return .next

/-- `loop()` of a VM whose globals may hold host functions -/
def loopI (F : FloatOps) (cfg : HostCfg) (root : State) (runChild : ChildRun) :
    Nat → World → State → (Except Exc (Option Unit) × World × State)
  | 0, w, s => (.ok none, w, s)
  | fuel+1, w, s =>
    if s.abort then (.ok (some ()), w, { s with err := some .aborted })
    else
      match fetch.run.run s with
      | (.error e, s) => (.error e, w, s)
      | (.ok (op, none), s) =>
        match (dispatch F op).run.run s with
        | (.error e, s) => (.error e, w, s)
        | (.ok .ret, s) => (.ok (some ()), w, s)
        | (.ok .next, s) => loopI F cfg root runChild fuel w s
      | (.ok (_, some (k, numArgs, flags)), s) =>
        if flags != 0 then (.error (.unsupported "spread call of a host function"), w, s)
        else
          match (stackSlice (s.sp - numArgs) s.sp).run.run s with
          | (.error e, s) => (.error e, w, s)
          | (.ok args, s) =>
            match hostFn runChild cfg root fuel w s k args with
            | (.goPanic m, w, s) => (.error (.panic m), w, s)
            | (.stop (.unsupported m), w, s) => (.error (.unsupported m), w, s)
            | (.stop _, w, s) => (.ok none, w, s)
            | (.value v, w, s) =>
              match (finishHostCall numArgs (.ok v)).run.run s with
              | (.error e, s) => (.error e, w, s)
              | (.ok .ret, s) => (.ok (some ()), w, s)
              | (.ok .next, s) => loopI F cfg root runChild fuel w s
            | (.error e, w, s) =>
              match (finishHostCall numArgs (.error e)).run.run s with
              | (.error e, s) => (.error e, w, s)
              | (.ok .ret, s) => (.ok (some ()), w, s)
              | (.ok .next, s) => loopI F cfg root runChild fuel w s

/-- `for run := true; run; { run = vm.run() }` with the host-aware loop -/
def goW (F : FloatOps) (cfg : HostCfg) (root : State) (runChild : ChildRun) :
    Nat → Nat → World → State → Outcome × World × State
  | 0, _, w, s => (.outOfFuel, w, s)
  | reruns+1, fuel, w, s =>
    match loopI F cfg root runChild fuel w s with
    | (.ok none, w, s) => (.outOfFuel, w, s)
    | (.ok (some ()), w, s) =>
      match clearCurrentFrame.run.run s with
      | (_, s) => let r := runFrom.finish s; (r.1, w, r.2)
    | (.error (.unsupported m), w, s) => (.unsupported m, w, s)
    | (.error (.panic m), w, s) =>
      if s.noPanic then
        match (handlePanic m).run.run s with
        | (.error (.panic m'), s) => (.goPanic m', w, s)
        | (.error (.unsupported m'), s) => (.unsupported m', w, s)
        | (.ok (), s) =>
          if s.err.isNone then goW F cfg root runChild reruns (fuel - s.steps) w s
          else let r := runFrom.finish s; (r.1, w, r.2)
      else (.goPanic m, w, s)

/-- `Run` of a VM with the host-aware loop -/
def runWithW (F : FloatOps) (cfg : HostCfg) (root : State) (runChild : ChildRun) (fuel : Nat) (w : World) (globals : V)
    (args : List V) (s0 : State) : Outcome × World × State :=
  match (prologue globals args).run.run s0 with
  | (.error (.panic m), s) => (.goPanic m, w, s)
  | (.error (.unsupported m), s) => (.unsupported m, w, s)
  | (.ok (), s) => goW F cfg root runChild fuel fuel w s

/-- `Run` at invocation depth ≤ `d` (a child's `Run` may itself invoke: depth d-1, …) -/
def runAt (F : FloatOps) (cfg : HostCfg) (root : State) : Nat → ChildRun
  | 0 => fun _ w _ _ s => (.unsupported "invocation nesting deeper than the model's bound", w, s)
  | d+1 => fun fuel w g args s0 => runWithW F cfg root (runAt F cfg root d) fuel w g args s0

end UgoVerif.VM
