import UgoVerif.VM.Base
import UgoVerif.VM.Copy
/-
  VM model — one instruction (`step`), error throwing, calls.  Written in Go
  statement order; every comment `-- vm.go:<what>` names the mirrored code.
-/
namespace UgoVerif.VM
open UgoVerif UgoVerif.Go

/-! ### opcode numbers (opcodes.go; re-checked against Gen/Opcodes by `Props/VMFacts`) -/
def OpNoOp := 0
def OpConstant := 1
def OpCall := 2
def OpGetGlobal := 3
def OpSetGlobal := 4
def OpGetLocal := 5
def OpSetLocal := 6
def OpGetBuiltin := 7
def OpBinaryOp := 8
def OpUnary := 9
def OpEqual := 10
def OpNotEqual := 11
def OpJump := 12
def OpJumpFalsy := 13
def OpAndJump := 14
def OpOrJump := 15
def OpMap := 16
def OpArray := 17
def OpSliceIndex := 18
def OpGetIndex := 19
def OpSetIndex := 20
def OpNull := 21
def OpPop := 22
def OpGetFree := 23
def OpSetFree := 24
def OpGetLocalPtr := 25
def OpGetFreePtr := 26
def OpClosure := 27
def OpIterInit := 28
def OpIterNext := 29
def OpIterKey := 30
def OpIterValue := 31
def OpLoadModule := 32
def OpStoreModule := 33
def OpSetupTry := 34
def OpSetupCatch := 35
def OpSetupFinally := 36
def OpThrow := 37
def OpFinalizer := 38
def OpReturn := 39
def OpDefineLocal := 40
def OpTrue := 41
def OpFalse := 42
def OpCallName := 43

/-- token numbers of package token as they appear in BINARYOP/UNARY operands -/
def tokOfNat : Nat → Tok
  | 12 => .Add | 13 => .Sub | 14 => .Mul | 15 => .Quo | 16 => .Rem
  | 17 => .And | 18 => .Or | 19 => .Xor | 20 => .Shl | 21 => .Shr | 22 => .AndNot
  | 38 => .Equal | 39 => .Less | 40 => .Greater | 42 => .Not | 43 => .NotEqual
  | 44 => .LessEq | 45 => .GreaterEq | 34 => .LAnd | 35 => .LOr
  | n => .Other n

/-! ### errors -/

def mkErr (name msg : String) (cause : Option Addr := none) : M Addr :=
  alloc (.err (strBytes name) (strBytes msg) cause)

/-- `vm.newError(e)` / `newErrorFromObject` -/
def rtErrOfOpErr (e : OpErr) : M Addr := do
  match e with
  | .rt a => pure a
  | .errObj a => alloc (.rterr (some a))
  | .named n m => do let ea ← mkErr n m; alloc (.rterr (some ea))
  | .stackOverflow => do let ea ← mkErr "StackOverflowError" ""; alloc (.rterr (some ea))

def hasHandler (f : Frame) : Bool :=
  match f.handlers with
  | some (_ :: _) => true
  | _ => false

/-- handlers are kept innermost-first (head = `last()`) -/
def lastHandler (f : Frame) : Option Handler :=
  match f.handlers with
  | some (h :: _) => some h
  | _ => none

def popHandler (f : Frame) : Frame :=
  match f.handlers with
  | some (_ :: r) => { f with handlers := some r }
  | _ => f

def setLast (f : Frame) (g : Handler → Handler) : Frame :=
  match f.handlers with
  | some (h :: r) => { f with handlers := some (g h :: r) }
  | _ => f

/-- the Go loop `for i := vm.sp; i >= lo; i-- { vm.stack[i] = nil }` -/
def clearDown (hi lo : Int) : M Unit := do
  let n := (hi - lo + 1).toNat
  for k in [0:n] do
    stackSet (hi - k) .nil

/-- the frame search of `throw`: `for index >= 0 { f := &frames[index]; if f.hasHandler() {break};
    f.freeVars = nil; f.fn = nil; index-- }`, with `n = index + 1` -/
def searchFrames : Nat → M (Option Nat)
  | 0 => pure none
  | n+1 => do
    if n ≥ frameSize then
      panic s!"runtime error: index out of range [{n}] with length {frameSize}"
    let s ← getS
    let f := s.frames[n]!
    if hasHandler f then pure (some n)
    else
      modS fun s => { s with frames := s.frames.modify n fun f => { f with free := none, fn := none } }
      searchFrames n

/-- vm.go `throw` + `handleThrownError` (mutually recursive in Go; fuel bounds the
    number of handlers/frames visited).  Returns `some err` when no handler takes it. -/
def throwF : Nat → Addr → M (Option Addr)
  | 0, _ => unsupported "model: throw fuel exhausted"
  | fuel+1, err => do
    let cf ← curFrame
    if hasHandler cf then
      handle fuel err
    else
      -- find previous frames having error handler
      let s ← getS
      let found? ← searchFrames (s.frameIndex - 1).toNat
      let index : Int ← (match found? with
        | some i => pure (i : Int)
        | none => pure (-1))
      if found?.isNone then
        return some err
      -- make the handling frame current
      modS fun s => { s with frameIndex := index + 1, curFrame := index.toNat }
      let f ← curFrame
      match f.fn with
      | none => panic "runtime error: invalid memory address or nil pointer dereference"
      | some _ => pure ()
      setIp f.ip
      handle fuel err
where
  handle (fuel : Nat) (err : Addr) : M (Option Addr) := do
    -- handleThrownError(frame = curFrame, err)
    setCurFrame fun f => setLast f fun h => { h with err := some err }
    let f ← curFrame
    match lastHandler f with
    | none => panic "runtime error: invalid memory address or nil pointer dereference"
    | some h =>
      if h.catch_ > 0 then
        setIp (h.catch_ - 1)
      else if h.finally_ > 0 then
        setIp (h.finally_ - 1)
      else
        setCurFrame popHandler
        return (← throwF fuel err)
      let sp ← getSp
      if sp ≥ h.sp then clearDown sp h.sp
      setSp h.sp
      return none

def throwFuel : M Nat := do
  let s ← getS
  pure (s.frames.foldl (fun n f => n + (match f.handlers with | some hs => hs.length | none => 0) + 1) 4)

/-- `vm.throwGenErr(err)`: returns the error to store in `vm.err` when unhandled -/
def throwGenErr (e : OpErr) : M (Option VmErr) := do
  let ra ← rtErrOfOpErr e
  match (← throwF (← throwFuel) ra) with
  | none => pure none
  | some a => pure (some (.rt a))

/-- outcome of one loop iteration -/
inductive Ctl where
  | next                -- `continue` / fall out of the switch
  | ret                 -- `return` from loop (vm.err may be set)
  deriving Repr, Inhabited

def failWith (e : OpErr) : M Ctl := do
  match (← throwGenErr e) with
  | none => pure .next
  | some ve => modS (fun s => { s with err := some ve }); pure .ret

def pushV (v : V) : M Unit := do
  let sp ← getSp
  stackSet sp v
  setSp (sp + 1)

def bumpIp (n : Int) : M Unit := do setIp ((← getIp) + n)

def jumpTarget : M Int := do pure ((← opnd4 1 : Nat) : Int)

def clearCurrentFrame : M Unit :=
  setCurFrame fun f => { f with free := none, fn := none, handlers := none }

/-! ### calls -/

def wantEq (x y : Int) : String := s!"want={x} got={y}"
def wantGE (x y : Int) : String := s!"want>={x} got={y}"

def fnCell (a : Addr) : M (Code × Option (List Addr)) := do
  match (← heapGet a) with
  | .fn c free => pure ((← getS).codes[c]!, free)
  | _ => unsupported "model: not a function cell"

/-- `stack[lo:hi]` as a list (Go slice expression on the fixed array: bounds panic) -/
def stackSlice (lo hi : Int) : M (List V) := do
  if lo < 0 || hi > (stackSize : Int) || lo > hi then
    panic s!"runtime error: slice bounds out of range [{lo}:{hi}]"
  else
    let s ← getS
    pure ((s.stack.toList.drop lo.toNat).take (hi - lo).toNat)

def newArray (xs : List V) : M V := do
  let a ← alloc (.arr xs.toArray)
  pure (.arr a 0 xs.length)

/-- `copy(vm.stack[at:], xs)` -/
def copyToStack (at_ : Int) (xs : List V) : M Unit := do
  if at_ < 0 || at_ > (stackSize : Int) then
    panic s!"runtime error: slice bounds out of range [{at_}:{stackSize}]"
  let room := (stackSize : Int) - at_
  let mut i : Int := 0
  for x in xs do
    if i < room then stackSet (at_ + i) x
    i := i + 1

/-- `for i := 0; i < n; i++ { vm.stack[lo+i] = Undefined }` -/
def fillUndefined (lo : Int) (n : Nat) : M Unit := do
  for k in [0:n] do
    stackSet (lo + k) .undefined

/-- `copy(vm.stack[dst:…], src)` slot by slot -/
def copySlots (dst : Int) (src : List V) : M Unit := do
  let mut i : Int := 0
  for x in src do
    stackSet (dst + i) x
    i := i + 1

/-- `frame := &vm.frames[fi]; frame.fn = cfunc; …; vm.curFrame = frame` -/
def enterFrame (fi : Nat) (fa : Addr) (free : Option (List Addr)) (basePointer : Int) : M Unit :=
  modS fun s => { s with
    frames := s.frames.modify fi fun f =>
      { f with fn := some fa, free := free, handlers := none, bp := basePointer, discard := false },
    curFrame := fi }

/-- `for i := 0; i < numArgs; i++ { vm.sp--; vm.stack[vm.sp] = nil }` -/
def popArgs (n : Nat) : M Unit := do
  for _ in [0:n] do
    let sp ← getSp
    setSp (sp - 1)
    stackSet (sp - 1) .nil

/-- the argument-binding part of xOpCallCompiled (fixed / variadic / spread): an error return
    leaves the VM before any frame is touched -/
def bindArgs (code : Code) (basePointer numArgs flags : Int) : M (Except OpErr Unit) := do
  let numParams : Int := code.numParams
  if flags == 0 then
    if !code.variadic then
      if numArgs != numParams then
        return .error (.named "WrongNumberOfArgumentsError" (wantEq numParams numArgs))
    else
      if numArgs < numParams - 1 then
        return .error (.named "WrongNumberOfArgumentsError" (wantGE (numParams - 1) numArgs))
      if numArgs == numParams - 1 then
        stackSet (basePointer + numArgs) (← newArray [])
      else
        let arr ← stackSlice (basePointer + numParams - 1) (basePointer + numArgs)
        stackSet (basePointer + numParams - 1) (← newArray arr)
  else
    let last ← stackGet (basePointer + numArgs - 1)
    let lastElems? : Option (List V) ← (match last with
      | .arr a o l => do pure (some (← arrElems a o l))
      | .nil => panic "runtime error: invalid memory address or nil pointer dereference"
      | _ => pure none)
    let lastElems ← (match lastElems? with
      | some xs => pure xs
      | none => pure [])
    if lastElems?.isNone then
      return .error (.named "TypeError" s!"invalid type for argument 'last': expected array, found {typeName last}")
    let arrSize : Int := lastElems.length
    if code.variadic then
      if numArgs < numParams then
        if arrSize + numArgs < numParams then
          return .error (.named "WrongNumberOfArgumentsError" (wantGE (numParams - 1) (arrSize + numArgs - 1)))
        let head ← stackSlice basePointer (basePointer + numArgs - 1)
        let tempBuf := head ++ lastElems
        -- copy(vm.stack[basePointer:], tempBuf[:numParams-1])
        if numParams - 1 < 0 || numParams - 1 > tempBuf.length then
          panic "runtime error: slice bounds out of range"
        copyToStack basePointer (tempBuf.take (numParams - 1).toNat)
        stackSet (basePointer + numParams - 1) (← newArray (tempBuf.drop (numParams - 1).toNat))
      else if numArgs > numParams then
        let mid ← stackSlice (basePointer + numParams - 1) (basePointer + numArgs - 1)
        stackSet (basePointer + numParams - 1) (← newArray (mid ++ lastElems))
      else pure ()
    else
      if arrSize + numArgs - 1 != numParams then
        return .error (.named "WrongNumberOfArgumentsError" (wantEq numParams (arrSize + numArgs - 1)))
      copyToStack (basePointer + numArgs - 1) lastElems
  return .ok ()

/-- vm.go xOpCallCompiled -/
def callCompiled (fa : Addr) (numArgs flags : Int) : M (Except OpErr Unit) := do
  let (code, free) ← fnCell fa
  let sp ← getSp
  let basePointer := sp - numArgs
  let numLocals : Int := code.numLocals
  let numParams : Int := code.numParams
  match (← bindArgs code basePointer numArgs flags) with
  | .error e => return .error e
  | .ok () => pure ()
  -- for i := numParams; i < numLocals; i++ { vm.stack[basePointer+i] = Undefined }
  fillUndefined (basePointer + numParams) (numLocals - numParams).toNat
  -- tail call?
  let cf ← curFrame
  let ip ← getIp
  if cf.fn == some fa then
    let nextOp ← instAt (ip + 2 + 1)
    let discard ← (if nextOp == OpPop then do pure ((← instAt (ip + 2 + 2)) == OpReturn) else pure false)
    if nextOp == OpReturn || discard then
      if discard then setCurFrame fun f => { f with discard := true }
      let curBp := cf.bp
      -- copy(vm.stack[curBp:curBp+numLocals], vm.stack[basePointer:])
      if curBp < 0 || curBp + numLocals > (stackSize : Int) || curBp > curBp + numLocals then
        panic "runtime error: slice bounds out of range"
      if basePointer < 0 || basePointer > (stackSize : Int) then
        panic "runtime error: slice bounds out of range"
      let src ← stackSlice basePointer (min (stackSize : Int) (basePointer + numLocals))
      copySlots curBp src
      let newSp := sp - numArgs - 1
      clearDown sp newSp
      setSp newSp
      setIp (-1)
      setCurFrame fun f => { f with handlers := none }
      return .ok ()
  let s ← getS
  let fi := s.frameIndex
  -- (repaired code: the overflow test precedes `frame := &vm.frames[vm.frameIndex]; vm.frameIndex++`)
  if fi + 1 > (frameSize : Int) - 1 then
    return .error .stackOverflow
  -- frame := &(vm.frames[vm.frameIndex])
  if fi < 0 || fi ≥ (frameSize : Int) then
    panic s!"runtime error: index out of range [{fi}] with length {frameSize}"
  modS fun s => { s with frameIndex := fi + 1 }
  setCurFrame fun f => { f with ip := ip + 2 }
  enterFrame fi.toNat fa free basePointer
  setSp (basePointer + numLocals)
  setIp (-1)
  return .ok ()

/-- the modelled builtins; everything else is outside the model -/
def callBuiltin (i : Nat) (args : List V) : M (Except OpErr V) := do
  match i with
  | 5 => -- len
    match args with
    | [x] =>
      match x with
      | .str s => pure (.ok (.int (BitVec.ofNat 64 s.length)))
      | .bytes s => pure (.ok (.int (BitVec.ofNat 64 s.length)))
      | .arr _ _ l => pure (.ok (.int (BitVec.ofNat 64 l)))
      | .map a => do pure (.ok (.int (BitVec.ofNat 64 (← mapEntries a).length)))
      | .nil => panic "runtime error: invalid memory address or nil pointer dereference"
      | _ => pure (.ok (.int 0#64))
    | _ => pure (.error (.named "WrongNumberOfArgumentsError" s!"want=1 got={args.length}"))
  | 9 => -- typeName
    match args with
    | [x] => pure (.ok (.str (strBytes (typeName x))))
    | _ => pure (.error (.named "WrongNumberOfArgumentsError" s!"want=1 got={args.length}"))
  | 0 => -- append
    match args with
    | [] => pure (.error (.named "WrongNumberOfArgumentsError" "want>=1 got=0"))
    | t :: rest =>
      match t with
      | .arr a off len => do
        let xs ← arrElems a off len
        -- (model: append always allocates; aliasing with spare capacity is not modelled)
        pure (.ok (← newArray (xs ++ rest)))
      | .undefined => do pure (.ok (← newArray rest))
      | .bytes _ => unsupported "append on bytes"
      | .nil => panic "runtime error: invalid memory address or nil pointer dereference"
      | t => pure (.error (.named "TypeError" s!"invalid type for argument '1st': expected array, found {typeName t}"))
  | 47 => -- :makeArray(n, arg)
    match args with
    | [.int n, arg] =>
      let n := n.toInt
      if n ≤ 0 then pure (.ok arg)
      else match arg with
        | .arr a off len =>
          if n ≤ len then pure (.ok (.arr a off n.toNat))
          else do
            let xs ← arrElems a off len
            pure (.ok (← newArray (xs ++ List.replicate (n.toNat - len) .undefined)))
        | arg => do pure (.ok (← newArray (arg :: List.replicate (n.toNat - 1) .undefined)))
    | _ => unsupported ":makeArray argument shape"
  | n => unsupported s!"builtin {n}"

/-- vm.go xOpCallObject / xOpCallExCaller for the callables in the model -/
def callObject (callee : V) (numArgs flags : Int) : M (Except OpErr Unit) := do
  match callee with
  | .nil => panic "runtime error: invalid memory address or nil pointer dereference"
  | .builtin i =>
    let sp ← getSp
    let mut args ← stackSlice (sp - numArgs) (sp - flags)
    if flags > 0 then
      match (← stackGet (sp - 1)) with
      | .arr a o l => args := args ++ (← arrElems a o l)
      | .nil => panic "runtime error: invalid memory address or nil pointer dereference"
      | v => return .error (.named "TypeError" s!"invalid type for argument 'last': expected array, found {typeName v}")
    let r ← callBuiltin i args
    -- for i := 0; i < numArgs; i++ { vm.sp--; vm.stack[vm.sp] = nil }
    popArgs numArgs.toNat
    match r with
    | .error e => return .error e
    | .ok v =>
      stackSet ((← getSp) - 1) v
      bumpIp 2
      return .ok ()
  | .host _ => unsupported "call of a host object"
  | .cfun _ => unsupported "model: compiled function in callObject"
  | v => return .error (.named "NotCallableError" (typeName v))

def callAny (callee : V) (numArgs flags : Int) : M (Except OpErr Unit) := do
  match callee with
  | .cfun a => callCompiled a numArgs flags
  | v => callObject v numArgs flags

/-! ### one instruction -/

def noteTrace (op : Nat) : M Unit := do
  let s ← getS
  if s.traceOn then
    let f := s.frames[s.curFrame]!
    let nh := match f.handlers with | some hs => hs.length | none => 0
    set { s with trace := s.trace.push (s.frameIndex, s.ip, s.sp, nh, op), steps := s.steps + 1 }
  else
    set { s with steps := s.steps + 1 }

def findFinally : Nat → Int → M Int
  | 0, _ => unsupported "model: findFinally fuel"
  | fuel+1, upto => do
    let f ← curFrame
    match f.handlers with
    | none => pure 0
    | some hs =>
      let index : Int := (hs.length : Int) - 1
      if index < upto || index < 0 then pure 0
      else
        match hs with
        | h :: _ =>
          if h.finally_ == 0 then
            setCurFrame popHandler
            findFinally fuel upto
          else pure h.finally_
        | [] => pure 0

def execConstant : M Ctl := do
  let v ← constAt (← opnd2 1)
  pushV v; bumpIp 2; return .next

def execGetLocal : M Ctl := do
  let idx ← opnd1 1
  let f ← curFrame
  let value ← stackGet (f.bp + idx)
  let value ← (match value with
    | .box a => do match (← heapGet a) with | .box v => pure v | _ => unsupported "model: bad box"
    | v => pure v)
  pushV value; bumpIp 1; return .next

def execSetLocal : M Ctl := do
  let idx ← opnd1 1
  let sp ← getSp
  let value ← stackGet (sp - 1)
  let f ← curFrame
  let index := f.bp + idx
  match (← stackGet index) with
  | .box a => boxSet a value
  | _ => stackSet index value
  setSp (sp - 1); stackSet (sp - 1) .nil; bumpIp 1; return .next

def execBinaryOp (F : FloatOps) : M Ctl := do
  let tok := tokOfNat (← opnd1 1)
  let sp ← getSp
  let left ← stackGet (sp - 2)
  let right ← stackGet (sp - 1)
  match (← vBinaryOp F tok left right) with
  | .ok v =>
    stackSet (sp - 2) v; setSp (sp - 1); stackSet (sp - 1) .nil; bumpIp 1; return .next
  | .error e => failWith e

def execAndJump : M Ctl := do
  let sp ← getSp
  if (← isFalsy (← stackGet (sp - 1))) then
    setIp ((← jumpTarget) - 1); return .next
  stackSet (sp - 1) .nil; setSp (sp - 1); bumpIp 4; return .next

def execOrJump : M Ctl := do
  let sp ← getSp
  if (← isFalsy (← stackGet (sp - 1))) then
    stackSet (sp - 1) .nil; setSp (sp - 1); bumpIp 4; return .next
  setIp ((← jumpTarget) - 1); return .next

def execEqual (F : FloatOps) (op : Nat) : M Ctl := do
  let sp ← getSp
  let left ← stackGet (sp - 2)
  let right ← stackGet (sp - 1)
  let eq ← vEqual F left right
  stackSet (sp - 2) (.bool (if op == OpEqual then eq else !eq))
  setSp (sp - 1); stackSet (sp - 1) .nil; return .next

def execTrue : M Ctl := do
  pushV (.bool true); return .next

def execFalse : M Ctl := do
  pushV (.bool false); return .next

def execCall : M Ctl := do
  let numArgs ← opnd1 1
  let flags ← opnd1 2
  let callee ← stackGet ((← getSp) - numArgs - 1)
  match (← callAny callee numArgs flags) with
  | .ok () => return .next
  | .error e => failWith e

def execCallName : M Ctl := do
  let numArgs : Int := (← opnd1 1)
  let flags : Int := (← opnd1 2)
  let sp ← getSp
  let obj ← stackGet (sp - numArgs - 2)
  let name ← stackGet (sp - 1)
  setSp (sp - 1); stackSet (sp - 1) .nil
  -- none of the modelled objects is a NameCallerObject
  match obj with
  | .host _ => unsupported "CallName on a host object"
  | _ => pure ()
  match (← vIndexGet obj name) with
  | .error e => failWith e
  | .ok v =>
    stackSet ((← getSp) - numArgs - 1) v
    match (← callAny v numArgs flags) with
    | .ok () => return .next
    | .error e => failWith e

def execReturn : M Ctl := do
  let numRet ← opnd1 1
  let f ← curFrame
  let mut bp := f.bp
  if bp == 0 then
    match f.fn with
    | none => panic "runtime error: invalid memory address or nil pointer dereference"
    | some fa => bp := ((← fnCell fa).1.numLocals : Int) + 1
  let sp ← getSp
  if numRet == 1 && !f.discard then
    stackSet (bp - 1) (← stackGet (sp - 1))
  else
    stackSet (bp - 1) .undefined
  -- for i := vm.sp - 1; i >= bp; i-- { vm.stack[i] = nil }
  clearDown (sp - 1) bp
  setSp bp
  let s ← getS
  if s.frameIndex == 1 then return .ret
  clearCurrentFrame
  let pi := s.frameIndex - 2
  if pi < 0 || pi ≥ (frameSize : Int) then
    panic s!"runtime error: index out of range [{pi}] with length {frameSize}"
  modS fun s => { s with frameIndex := s.frameIndex - 1, curFrame := pi.toNat }
  let parent ← curFrame
  setIp parent.ip
  -- vm.curInsts = vm.curFrame.fn.Instructions
  match parent.fn with
  | none => panic "runtime error: invalid memory address or nil pointer dereference"
  | some _ => return .next

def execGetBuiltin : M Ctl := do
  pushV (.builtin (← opnd1 1)); bumpIp 1; return .next

def execClosure : M Ctl := do
  let cidx ← opnd2 1
  let fa ← (match (← constAt cidx) with
    | .cfun a => pure a
    | _ => panic "interface conversion: ugo.Object is not *ugo.CompiledFunction")
  let numFree : Int := (← opnd1 3)
  let sp ← getSp
  let mut free : List Addr := []
  for k in [0:numFree.toNat] do
    let slot := sp - numFree + k
    match (← stackGet slot) with
    | .box a => free := free ++ [a]
    | v => do let a ← alloc (.box v); free := free ++ [a]
    stackSet slot .nil
  setSp (sp - numFree)
  let code ← (match (← heapGet fa) with | .fn c _ => pure c | _ => unsupported "model: bad fn")
  let na ← alloc (.fn code (some free))
  pushV (.cfun na); bumpIp 3; return .next

def execJump : M Ctl := do
  setIp ((← jumpTarget) - 1); return .next

def execJumpFalsy : M Ctl := do
  let sp ← getSp
  setSp (sp - 1)
  let obj ← stackGet (sp - 1)
  stackSet (sp - 1) .nil
  if (← isFalsy obj) then
    setIp ((← jumpTarget) - 1); return .next
  bumpIp 4; return .next

def execGetGlobal : M Ctl := do
  let index ← constAt (← opnd2 1)
  match (← vIndexGet (← getS).globals index) with
  | .error e => failWith e
  | .ok v =>
    pushV v; bumpIp 2
    -- (Go: ip += 2 then sp++; pushV wrote at the old sp)
    return .next

def execSetGlobal : M Ctl := do
  let index ← constAt (← opnd2 1)
  let sp ← getSp
  let value ← stackGet (sp - 1)
  let value ← (match value with
    | .box a => do match (← heapGet a) with | .box v => pure v | _ => unsupported "model: bad box"
    | v => pure v)
  match (← vIndexSet (← getS).globals index value) with
  | .error e => failWith e
  | .ok () =>
    bumpIp 2; setSp (sp - 1); stackSet (sp - 1) .nil; return .next

def execArray : M Ctl := do
  let n : Int := (← opnd2 1)
  let sp ← getSp
  let xs ← stackSlice (sp - n) sp
  let arr ← newArray xs
  setSp (sp - n)
  stackSet (sp - n) arr
  -- for i := vm.sp + 1; i < vm.sp+numItems+1; i++ { vm.stack[i] = nil }
  for k in [0:n.toNat] do
    stackSet (sp - n + 1 + k) .nil
  setSp (sp - n + 1); bumpIp 2; return .next

def execMap : M Ctl := do
  let n : Int := (← opnd2 1)
  let sp ← getSp
  let mut kvs : List (Bytes × V) := []
  -- for i := vm.sp - numItems; i < vm.sp; i += 2
  for k in [0:((n + 1) / 2).toNat] do
    let i := sp - n + 2 * (k : Int)
    let key ← stackGet i
    let value ← stackGet (i + 1)
    kvs := insertKV (← vString key) value kvs
    stackSet i .nil
    stackSet (i + 1) .nil
  let a ← alloc (.map kvs)
  setSp (sp - n)
  stackSet (sp - n) (.map a)
  setSp (sp - n + 1); bumpIp 2; return .next

def execGetIndex : M Ctl := do
  let numSel0 : Int := (← opnd1 1)
  let sp ← getSp
  let tp := sp - 1 - numSel0
  let mut target ← stackGet tp
  let mut value := V.undefined
  -- for ; numSel > 0; numSel--
  for k in [0:numSel0.toNat] do
    let numSel := numSel0 - (k : Int)
    let ptr := sp - numSel
    let index ← stackGet ptr
    stackSet ptr .nil
    match (← vIndexGet target index) with
    | .error e =>
      let e' ← (match e with
        | .named "NotIndexableError" "" => pure (OpErr.named "NotIndexableError" (typeName target))
        | .named "IndexOutOfBoundsError" "" => do pure (OpErr.named "IndexOutOfBoundsError" (String.fromUTF8! (ByteArray.mk (← vString index).toArray)))
        | e => pure e)
      return (← failWith e')
    | .ok v => target := v; value := v
  stackSet tp value
  setSp (tp + 1); bumpIp 1; return .next

def execSetIndex : M Ctl := do
  let sp ← getSp
  let value ← stackGet (sp - 3)
  let target ← stackGet (sp - 2)
  let index ← stackGet (sp - 1)
  match (← vIndexSet target index value) with
  | .error e =>
    let e' ← (match e with
      | .named "NotIndexAssignableError" "" => pure (OpErr.named "NotIndexAssignableError" (typeName target))
      | .named "IndexOutOfBoundsError" "" => do pure (OpErr.named "IndexOutOfBoundsError" (String.fromUTF8! (ByteArray.mk (← vString index).toArray)))
      | e => pure e)
    failWith e'
  | .ok () =>
    stackSet (sp - 3) .nil; stackSet (sp - 2) .nil; stackSet (sp - 1) .nil
    setSp (sp - 3); return .next

def execSliceIndex : M Ctl := do
  let sp ← getSp
  let obj ← stackGet (sp - 3)
  let left ← stackGet (sp - 2)
  let right ← stackGet (sp - 1)
  stackSet (sp - 3) .nil; stackSet (sp - 2) .nil; stackSet (sp - 1) .nil
  setSp (sp - 3)
  let objlen? : Option Int := match obj with
    | .arr _ _ l => some l
    | .str s => some s.length
    | .bytes s => some s.length
    | _ => none
  match obj with
  | .nil => panic "runtime error: invalid memory address or nil pointer dereference"
  | _ => pure ()
  match objlen? with
  | none => failWith (.named "TypeError" s!"{typeName obj} cannot be sliced")
  | some objlen =>
    let conv (v : V) (dflt : Int) : Option Int := match v with
      | .undefined => some dflt
      | .int x => some x.toInt
      | .uint x => some (BitVec.toInt x)
      | .char x => some x.toInt
      | _ => none
    match conv left 0 with
    | none => failWith (.named "TypeError" s!"invalid first index type {typeName left}")
    | some low =>
    match conv right objlen with
    | none => failWith (.named "TypeError" s!"invalid second index type {typeName right}")
    | some high =>
      if low > high then failWith (.named "InvalidIndexError" s!"[{low}:{high}]")
      else
        match obj with
        | .bytes _ => unsupported "slice of bytes (capacity-dependent)"
        | _ =>
        if low < 0 || high < 0 || high > objlen then
          failWith (.named "IndexOutOfBoundsError" s!"[{low}:{high}]")
        else
          let r : V := match obj with
            | .arr a off _ => .arr a (off + low.toNat) (high - low).toNat
            | .str s => .str ((s.drop low.toNat).take (high - low).toNat)
            | v => v
          let sp ← getSp
          stackSet sp r; setSp (sp + 1); return .next

def execGetFree : M Ctl := do
  let idx ← opnd1 1
  let f ← curFrame
  match f.free with
  | none => panic s!"runtime error: index out of range [{idx}] with length 0"
  | some fr =>
    match fr[idx]? with
    | none => panic s!"runtime error: index out of range [{idx}] with length {fr.length}"
    | some a =>
      match (← heapGet a) with
      | .box v => pushV v; bumpIp 1; return .next
      | _ => unsupported "model: bad box"

def execSetFree : M Ctl := do
  let idx ← opnd1 1
  let f ← curFrame
  let sp ← getSp
  match f.free with
  | none => panic s!"runtime error: index out of range [{idx}] with length 0"
  | some fr =>
    match fr[idx]? with
    | none => panic s!"runtime error: index out of range [{idx}] with length {fr.length}"
    | some a =>
      boxSet a (← stackGet (sp - 1))
      setSp (sp - 1); stackSet (sp - 1) .nil; bumpIp 1; return .next

def execGetLocalPtr : M Ctl := do
  let idx ← opnd1 1
  let f ← curFrame
  let value ← stackGet (f.bp + idx)
  let fv ← (match value with
    | .box a => pure (V.box a)
    | v => do
      let a ← alloc (.box v)
      stackSet (f.bp + idx) (.box a)
      pure (V.box a))
  pushV fv; bumpIp 1; return .next

def execGetFreePtr : M Ctl := do
  let idx ← opnd1 1
  let f ← curFrame
  match f.free with
  | none => panic s!"runtime error: index out of range [{idx}] with length 0"
  | some fr =>
    match fr[idx]? with
    | none => panic s!"runtime error: index out of range [{idx}] with length {fr.length}"
    | some a => pushV (.box a); bumpIp 1; return .next

def execDefineLocal : M Ctl := do
  let idx ← opnd1 1
  let f ← curFrame
  let sp ← getSp
  stackSet (f.bp + idx) (← stackGet (sp - 1))
  setSp (sp - 1); stackSet (sp - 1) .nil; bumpIp 1; return .next

def execNull : M Ctl := do
  pushV .undefined; return .next

def execPop : M Ctl := do
  let sp ← getSp
  setSp (sp - 1); stackSet (sp - 1) .nil; return .next

def execIterInit : M Ctl := do
  let sp ← getSp
  let dst ← stackGet (sp - 1)
  let k? : Option IterK ← (match dst with
    | .arr a o l => pure (some (IterK.arr a o l))
    | .str s => pure (some (IterK.str s 0 0#32))
    | .bytes s => pure (some (IterK.bytes s))
    | .map a => do
      let kvs ← mapEntries a
      -- Go collects the keys in map iteration order: only maps with ≤ 1 key are deterministic
      if kvs.length > 1 then unsupported "for-in over a map with several keys (iteration order)"
      else pure (some (IterK.map a (kvs.map Prod.fst)))
    | .nil => panic "runtime error: invalid memory address or nil pointer dereference"
    | .host _ | .box _ => unsupported "iterate host"
    | _ => pure none)
  match k? with
  | some k =>
    let a ← alloc (.iter k 0)
    stackSet (sp - 1) (.iter a); return .next
  | none => failWith (.named "NotIterableError" (typeName dst))

def execIterNext (op : Nat) : M Ctl := do
  let sp ← getSp
  let it ← stackGet (sp - 1)
  match it with
  | .iter a =>
    match (← heapGet a) with
    | .iter k i =>
      if op == OpIterNext then
        match k with
        | .arr _ _ l =>
          heapUpd a (.iter k (i + 1)); stackSet (sp - 1) (.bool (decide (i < (l : Int)))); return .next
        | .bytes s =>
          heapUpd a (.iter k (i + 1)); stackSet (sp - 1) (.bool (decide (i < (s.length : Int)))); return .next
        | .map _ keys =>
          heapUpd a (.iter k (i + 1)); stackSet (sp - 1) (.bool (decide (i < (keys.length : Int)))); return .next
        | .str _ _ _ => unsupported "string iteration (utf8 decoding)"
      else if op == OpIterKey then
        match k with
        | .arr .. | .bytes _ => stackSet (sp - 1) (.int (BitVec.ofInt 64 (i - 1))); return .next
        | .map _ keys =>
          match (if i - 1 < 0 then none else keys[(i - 1).toNat]?) with
          | some key => stackSet (sp - 1) (.str key); return .next
          | none => panic s!"runtime error: index out of range [{i - 1}] with length {keys.length}"
        | .str .. => unsupported "string iteration"
      else
        match k with
        | .arr aa o l =>
          let j := i - 1
          if j > -1 && j < l then
            let xs ← arrElems aa o l
            stackSet (sp - 1) (xs[j.toNat]!); return .next
          else stackSet (sp - 1) .undefined; return .next
        | .bytes s =>
          let j := i - 1
          if j > -1 && j < s.length then
            stackSet (sp - 1) (.int (BitVec.ofNat 64 (s[j.toNat]!).toNat)); return .next
          else stackSet (sp - 1) .undefined; return .next
        | .map ma keys =>
          match (if i - 1 < 0 then none else keys[(i - 1).toNat]?) with
          | some key =>
            match lookupKV key (← mapEntries ma) with
            | some v => stackSet (sp - 1) v; return .next
            | none => stackSet (sp - 1) .undefined; return .next
          | none => panic s!"runtime error: index out of range [{i - 1}] with length {keys.length}"
        | .str .. => unsupported "string iteration"
    | _ => unsupported "model: bad iterator cell"
  | .nil => panic "interface conversion: interface is nil, not ugo.Iterator"
  | _ => panic "interface conversion: ugo.Object is not ugo.Iterator"

def execLoadModule : M Ctl := do
  let cidx ← opnd2 1
  let midx ← opnd2 3
  let s ← getS
  match s.modules[midx]? with
  | none => panic s!"runtime error: index out of range [{midx}] with length {s.modules.size}"
  | some .nil =>
    pushV (← constAt cidx); pushV (.bool true); bumpIp 4; return .next
  | some v =>
    pushV v; pushV (.bool false); bumpIp 4; return .next

def execStoreModule : M Ctl := do
  let midx ← opnd2 1
  let sp ← getSp
  let value ← stackGet (sp - 1)
  -- if v, ok := value.(Copier); ok { value = v.Copy(); vm.stack[vm.sp-1] = value }   (VM/Copy.lean;
  -- the comma-ok assertion on a nil interface is false, not a panic)
  let value ← copyV value
  stackSet (sp - 1) value
  let s ← getS
  if midx ≥ s.modules.size then
    panic s!"runtime error: index out of range [{midx}] with length {s.modules.size}"
  modS fun s => { s with modules := s.modules.set! midx value }
  bumpIp 2; return .next

def execSetupTry : M Ctl := do
  let catch_ ← opnd4 1
  let finally_ ← opnd4 5
  let sp ← getSp
  let h : Handler := { sp := sp, catch_ := catch_, finally_ := finally_, returnTo := 0, err := none }
  setCurFrame fun f => { f with handlers := some (h :: (f.handlers.getD [])) }
  bumpIp 8; return .next

def execSetupCatch : M Ctl := do
  let f ← curFrame
  let mut value := V.undefined
  if hasHandler f then
    setCurFrame fun f => setLast f fun h => { h with catch_ := 0 }
    match lastHandler f with
    | some h =>
      match h.err with
      | some e =>
        value := .rterr e
        setCurFrame fun f => setLast f fun h => { h with err := none }
      | none => pure ()
    | none => pure ()
  pushV value; return .next

def execSetupFinally : M Ctl := do
  let f ← curFrame
  if hasHandler f then
    setCurFrame fun f => setLast f fun h => { h with catch_ := 0, finally_ := 0 }
  return .next

def execThrow : M Ctl := do
  let o ← opnd1 1
  bumpIp 1
  if o == 0 then
    let f ← curFrame
    match lastHandler f with
    | some h =>
      match h.err with
      | some e =>
        -- errHandlers.hasError(): re-throw after finally
        setCurFrame popHandler
        match (← throwF (← throwFuel) e) with
        | none => return .next
        | some a => modS (fun s => { s with err := some (.rt a) }); return .ret
      | none =>
        if h.returnTo > 0 then
          setCurFrame popHandler
          let sp ← getSp
          if sp ≥ h.sp then clearDown sp h.sp
          setSp h.sp
          setIp (h.returnTo - 1)
          return .next
        else
          -- try statement completed normally, its handler is not needed anymore
          setCurFrame popHandler
          return .next
    | none => return .next
  else if o == 1 then
    let sp ← getSp
    let obj ← stackGet (sp - 1)
    stackSet (sp - 1) .nil
    setSp (sp - 1)
    let ra ← (match obj with
      | .rterr a => pure a
      | .err a => alloc (.rterr (some a))
      | .nil => panic "runtime error: invalid memory address or nil pointer dereference"
      | v => do
        let msg ← vString v
        let ea ← alloc (.err [] msg none)
        alloc (.rterr (some ea)))
    match (← throwF (← throwFuel) ra) with
    | none => return .next
    | some a => modS (fun s => { s with err := some (.rt a) }); return .ret
  else
    modS (fun s => { s with err := some (.goerr s!"wrong operand for OpThrow:{o}") }); return .ret

def execFinalizer : M Ctl := do
  let upto ← opnd1 1
  let nh := (match (← curFrame).handlers with | some hs => hs.length | none => 0)
  let pos ← findFinally (nh + 2) upto
  if pos ≤ 0 then
    bumpIp 1; return .next
  let ip ← getIp
  let sp ← getSp
  setCurFrame fun f => setLast f fun h => { h with returnTo := ip, sp := sp, err := none }
  setIp (pos - 1); return .next

def execUnary (F : FloatOps) : M Ctl := do
  let tok := tokOfNat (← opnd1 1)
  let sp ← getSp
  let right ← stackGet (sp - 1)
  match (← vUnary F tok right) with
  | .ok v => stackSet (sp - 1) v; bumpIp 1; return .next
  | .error e => failWith e

def execNoOp : M Ctl := do
  return .next

def execUnknown (op : Nat) : M Ctl := do
  modS (fun s => { s with err := some (.goerr s!"unknown opcode {op}") }); return .ret

/-- instruction dispatch of the `switch vm.curInsts[vm.ip]` in `loop` -/
def dispatch (F : FloatOps) (op : Nat) : M Ctl :=
  if op == OpConstant then execConstant
  else if op == OpGetLocal then execGetLocal
  else if op == OpSetLocal then execSetLocal
  else if op == OpBinaryOp then execBinaryOp F
  else if op == OpAndJump then execAndJump
  else if op == OpOrJump then execOrJump
  else if op == OpEqual || op == OpNotEqual then execEqual F op
  else if op == OpTrue then execTrue
  else if op == OpFalse then execFalse
  else if op == OpCall then execCall
  else if op == OpCallName then execCallName
  else if op == OpReturn then execReturn
  else if op == OpGetBuiltin then execGetBuiltin
  else if op == OpClosure then execClosure
  else if op == OpJump then execJump
  else if op == OpJumpFalsy then execJumpFalsy
  else if op == OpGetGlobal then execGetGlobal
  else if op == OpSetGlobal then execSetGlobal
  else if op == OpArray then execArray
  else if op == OpMap then execMap
  else if op == OpGetIndex then execGetIndex
  else if op == OpSetIndex then execSetIndex
  else if op == OpSliceIndex then execSliceIndex
  else if op == OpGetFree then execGetFree
  else if op == OpSetFree then execSetFree
  else if op == OpGetLocalPtr then execGetLocalPtr
  else if op == OpGetFreePtr then execGetFreePtr
  else if op == OpDefineLocal then execDefineLocal
  else if op == OpNull then execNull
  else if op == OpPop then execPop
  else if op == OpIterInit then execIterInit
  else if op == OpIterNext || op == OpIterKey || op == OpIterValue then execIterNext op
  else if op == OpLoadModule then execLoadModule
  else if op == OpStoreModule then execStoreModule
  else if op == OpSetupTry then execSetupTry
  else if op == OpSetupCatch then execSetupCatch
  else if op == OpSetupFinally then execSetupFinally
  else if op == OpThrow then execThrow
  else if op == OpFinalizer then execFinalizer
  else if op == OpUnary then execUnary F
  else if op == OpNoOp then execNoOp
  else execUnknown op

def step (F : FloatOps) : M Ctl := do
  bumpIp 1
  let op ← instAt (← getIp)
  noteTrace op
  dispatch F op

end UgoVerif.VM
