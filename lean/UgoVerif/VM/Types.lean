import UgoVerif.Model.Ops
/-
  VM model — state and values.  Hand-written, core Lean only; tied to vm.go by
  the lock-step `vmtrace` correspondence stream (hook H1 records
  (frameIndex, ip, sp, #handlers, opcode) before every instruction of the real VM).

  Reference kinds (array, map, box, compiled function, error, iterator) are
  addresses into an explicit heap because aliasing is observable in uGO.
-/
namespace UgoVerif.VM
open UgoVerif UgoVerif.Go

abbrev Addr := Nat

/-- a runtime object in a stack slot / container -/
inductive V where
  | nil                                   -- Go nil interface (a cleared stack slot)
  | undefined
  | int (v : BitVec 64)
  | uint (v : BitVec 64)
  | float (v : F64)
  | char (v : BitVec 32)
  | bool (b : Bool)
  | str (s : Bytes)
  | bytes (s : Bytes)                     -- modelled as immutable (IndexSet on bytes: unsupported)
  | arr (a : Addr) (off len : Nat)        -- Go slice header over a backing array in the heap
  | map (a : Addr)
  | box (a : Addr)                        -- *ObjectPtr
  | cfun (a : Addr)                       -- *CompiledFunction (identity = address)
  | builtin (i : Nat)                     -- BuiltinObjects[i]
  | err (a : Addr)                        -- *Error
  | rterr (a : Addr)                      -- *RuntimeError
  | iter (a : Addr)                       -- *iteratorObject
  | host (id : Nat)                       -- any other Go object handed in by the embedder
  deriving Repr, Inhabited, BEq

structure Code where
  insts : Array UInt8
  numParams : Nat
  numLocals : Nat
  variadic : Bool
  deriving Repr, Inhabited

inductive IterK where
  | arr (a : Addr) (off len : Nat)        -- ArrayIterator{V, i}
  | str (s : Bytes) (k : Nat) (r : BitVec 32)   -- StringIterator{V, i, k, r}
  | bytes (s : Bytes)
  | map (a : Addr) (keys : List Bytes)    -- MapIterator{V, keys, i}
  deriving Repr, Inhabited

inductive Cell where
  | arr (xs : Array V)
  | map (kvs : List (Bytes × V))
  | box (v : V)
  | fn (code : Nat) (free : Option (List Addr))     -- CompiledFunction{…, Free}
  | err (name msg : Bytes) (cause : Option Addr)
  | rterr (err : Option Addr)
  | iter (k : IterK) (i : Int)
  deriving Repr, Inhabited

structure Handler where
  sp : Int
  catch_ : Int
  finally_ : Int
  returnTo : Int
  err : Option Addr          -- pending *RuntimeError of this try statement
  deriving Repr, Inhabited

structure Frame where
  fn : Option Addr := none
  free : Option (List Addr) := none
  ip : Int := 0
  bp : Int := 0
  handlers : Option (List Handler) := none     -- *errHandlers (nil or a handler stack)
  discard : Bool := false
  deriving Repr, Inhabited

def stackSize : Nat := 2048
def frameSize : Nat := 1024

/-- result of `vm.err` -/
inductive VmErr where
  | rt (a : Addr)                 -- a *RuntimeError (uncaught script error)
  | stackOverflow                 -- ErrStackOverflow returned bare
  | aborted
  | invalidBytecode
  | goerr (msg : String)          -- fmt.Errorf errors (unknown opcode, wrapped panics)
  deriving Repr, Inhabited

structure State where
  stack : Array V
  sp : Int
  ip : Int
  frames : Array Frame
  curFrame : Nat                  -- index of *vm.curFrame in frames
  frameIndex : Int
  heap : Array Cell
  codes : Array Code
  consts : Array V
  mainFn : Addr
  numModules : Nat
  globals : V
  modules : Array V               -- modulesCache (nil = not loaded)
  err : Option VmErr
  abort : Bool
  steps : Nat                     -- executed instructions (for the abort/step bound)
  trace : Array (Int × Int × Int × Nat × Nat)   -- (frameIndex, ip, sp, #handlers, opcode): mirror of hook H1
  traceOn : Bool
  noPanic : Bool
  deriving Inhabited

/-- abnormal ends of a Go statement sequence -/
inductive Exc where
  | panic (msg : String)          -- Go run-time panic: the state at the panic site is kept
  | unsupported (msg : String)    -- outside the modelled subset: the run is not compared further
  deriving Repr, Inhabited

abbrev M := ExceptT Exc (StateM State)

def panic {α} (msg : String) : M α := throw (.panic msg)
def unsupported {α} (msg : String) : M α := throw (.unsupported msg)

/-- a uGO error value produced by an operation, before the VM wraps/throws it -/
inductive OpErr where
  | named (name : String) (msg : String)      -- Err<Name>.NewError(msg) / global Err<Name> when msg = ""
  | rt (a : Addr)                             -- an existing *RuntimeError
  | errObj (a : Addr)                         -- an existing *Error object
  | stackOverflow                             -- the global ErrStackOverflow returned by xOpCallCompiled
  deriving Repr, Inhabited

end UgoVerif.VM
