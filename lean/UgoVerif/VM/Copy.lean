import UgoVerif.VM.Base
/-
  VM model — `Copier.Copy()` (objects.go / bytecode.go), used by OpStoreModule.

  Which kinds are Copiers and what a copy shares (objects.go):
    Array.Copy, Map.Copy        new container; every element that is a Copier is copied recursively
    Bytes.Copy                  new byte slice (bytes are values in the model: nothing can be shared)
    (*CompiledFunction).Copy    new function object; instructions copied; `Free` is a NEW slice holding the
                                SAME *ObjectPtr pointers ("DO NOT Copy() elements; these are variable pointers")
    (*ObjectPtr).Copy           returns the receiver itself
    (*Error).Copy               new Error with the same Name, Message and (shared) Cause
    (*RuntimeError).Copy        new RuntimeError; Err copied with (*Error).Copy
    (*BuiltinFunction).Copy     new object with the same Go function (no identity in the model)
    Int, Uint, Float, Char, Bool, String, Undefined, iterators   not Copiers: stored as they are
  The copy is written as a pure heap transformer so that `Props/C12.copy_fresh` can be
  proved by induction; `copyV` is its monadic wrapper.
-/
namespace UgoVerif.VM
open UgoVerif UgoVerif.Go

/-- left-to-right map with a threaded heap -/
def mapHeap (f : Array Cell → V → Option (V × Array Cell)) : Array Cell → List V → Option (List V × Array Cell)
  | h, [] => some ([], h)
  | h, x :: xs =>
    match f h x with
    | none => none
    | some (y, h1) =>
      match mapHeap f h1 xs with
      | none => none
      | some (ys, h2) => some (y :: ys, h2)

def mapHeapKV (f : Array Cell → V → Option (V × Array Cell)) :
    Array Cell → List (Bytes × V) → Option (List (Bytes × V) × Array Cell)
  | h, [] => some ([], h)
  | h, (k, x) :: xs =>
    match f h x with
    | none => none
    | some (y, h1) =>
      match mapHeapKV f h1 xs with
      | none => none
      | some (ys, h2) => some ((k, y) :: ys, h2)

/-- `v.Copy()` when `v` is a Copier, `v` itself otherwise.  `none`: outside the modelled
    subset (dangling address, host object, or a cyclic value — on which Go overflows its stack). -/
def copyVal : Nat → Array Cell → V → Option (V × Array Cell)
  | 0, _, _ => none
  | fuel+1, h, v =>
    match v with
    | .arr a off len =>
      match h[a]? with
      | some (.arr xs) =>
        match mapHeap (copyVal fuel) h ((xs.toList.drop off).take len) with
        | some (ys, h1) => some (.arr h1.size 0 ys.length, h1.push (.arr ys.toArray))
        | none => none
      | _ => none
    | .map a =>
      match h[a]? with
      | some (.map kvs) =>
        match mapHeapKV (copyVal fuel) h kvs with
        | some (kvs', h1) => some (.map h1.size, h1.push (.map kvs'))
        | none => none
      | _ => none
    | .cfun a =>
      match h[a]? with
      | some (.fn c free) => some (.cfun h.size, h.push (.fn c free))
      | _ => none
    | .err a =>
      match h[a]? with
      | some (.err name msg cause) => some (.err h.size, h.push (.err name msg cause))
      | _ => none
    | .rterr a =>
      match h[a]? with
      | some (.rterr none) => some (.rterr h.size, h.push (.rterr none))
      | some (.rterr (some e)) =>
        match h[e]? with
        | some (.err name msg cause) =>
          let h1 := h.push (.err name msg cause)
          some (.rterr h1.size, h1.push (.rterr (some h.size)))
        | _ => none
      | _ => none
    | .host _ => none
    | v => some (v, h)      -- nil, scalars, strings, bytes (values), boxes (Copy returns the receiver), builtins, iterators

/-- monadic wrapper: the `if v, ok := value.(Copier); ok { value = v.Copy() }` of OpStoreModule -/
def copyV (v : V) : M V := do
  let s ← getS
  match copyVal (s.heap.size + 2) s.heap v with
  | some (v', h') =>
    set { s with heap := h' }
    pure v'
  | none => unsupported "Copy() of a value outside the modelled subset (host object, dangling or cyclic value)"

end UgoVerif.VM
