import UgoVerif.VM.Run
/-
  VM model — `Clear` and `SetBytecode` (vm.go:68-89), the two operations after which
  property C07 promises that a run does not depend on the VM's past.

  The compiled code of ALL functions lives in `State.codes` (the model's code memory:
  a `CompiledFunction` value carries its own `Instructions` in Go, a function cell carries
  an index into `codes` here), so a `Bytecode` is the triple (Constants, Main, NumModules);
  `SetBytecode` replaces exactly these and never `codes` or the heap.

  `steps` and `trace` are not VM fields: they mirror what the observer's H1 hook has
  recorded.  The observer starts a new recording when it resets the VM, so both functions
  zero them (`runFrom` uses `steps` for its fuel accounting).
-/
namespace UgoVerif.VM

/-- vm.go `Clear`: `for i := range vm.stack { vm.stack[i] = nil }; vm.pool.clear();
    vm.modulesCache = nil; vm.globals = nil`.  (`frames`, `curFrame`, `frameIndex`, `sp`,
    `ip`, `err`, the abort flag, `noPanic` and the bytecode are NOT touched.) -/
def clear (s : State) : State :=
  { s with stack := Array.replicate stackSize .nil, modules := #[], globals := .nil,
           steps := 0, trace := #[] }

/-- vm.go `SetBytecode` (repaired code): `vm.bytecode = bc; vm.constants = bc.Constants;
    vm.modulesCache = nil; for i := range vm.stack { vm.stack[i] = nil }`.
    (The frames and the globals are NOT touched.) -/
def setBytecode (consts : Array V) (mainFn : Addr) (numModules : Nat) (s : State) : State :=
  { s with consts := consts, mainFn := mainFn, numModules := numModules, modules := #[],
           stack := Array.replicate stackSize .nil, steps := 0, trace := #[] }

/-- the observer starts a new H1 recording without resetting the VM (`Run` called again) -/
def resetRecording (s : State) : State := { s with steps := 0, trace := #[] }

/-- `SetRecover(v)` -/
def setRecover (v : Bool) (s : State) : State := { s with noPanic := v }

end UgoVerif.VM
