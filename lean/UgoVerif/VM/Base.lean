import UgoVerif.VM.Types
import UgoVerif.Gen.Unary
/-
  VM model — primitive accessors (every Go index expression is a panic site),
  heap, stringification, value-level operations (IsFalsy, Equal, BinaryOp,
  IndexGet, IndexSet, iterators).
-/
namespace UgoVerif.VM
open UgoVerif UgoVerif.Go

/-! ### state accessors -/

def getS : M State := get
def modS (f : State → State) : M Unit := modify f

/-- `vm.stack[i]` (read) -/
def stackGet (i : Int) : M V := do
  let s ← getS
  if i < 0 || i ≥ (stackSize : Int) then
    panic s!"runtime error: index out of range [{i}] with length {stackSize}"
  else pure (s.stack[i.toNat]!)

/-- `vm.stack[i] = v` -/
def stackSet (i : Int) (v : V) : M Unit := do
  if i < 0 || i ≥ (stackSize : Int) then
    panic s!"runtime error: index out of range [{i}] with length {stackSize}"
  else modS fun s => { s with stack := s.stack.set! i.toNat v }

def getSp : M Int := do return (← getS).sp
def setSp (v : Int) : M Unit := modS fun s => { s with sp := v }
def getIp : M Int := do return (← getS).ip
def setIp (v : Int) : M Unit := modS fun s => { s with ip := v }

def curFrame : M Frame := do
  let s ← getS
  pure (s.frames[s.curFrame]!)

def setCurFrame (f : Frame → Frame) : M Unit :=
  modS fun s => { s with frames := s.frames.modify s.curFrame f }

def heapGet (a : Addr) : M Cell := do
  let s ← getS
  match s.heap[a]? with
  | some c => pure c
  | none => unsupported "model: dangling address"

def heapSet (a : Addr) (c : Cell) : M Unit :=
  modS fun s => { s with heap := s.heap.set! a c }

/-- the constructor of a cell: Go writes through typed pointers, a write never changes it -/
def Cell.kind : Cell → Nat
  | .arr _ => 0 | .map _ => 1 | .box _ => 2 | .fn .. => 3 | .err .. => 4 | .rterr _ => 5 | .iter .. => 6

/-- overwrite the cell at `a` with a cell of the same kind (array element / map entry / iterator
    position update).  A cell of another kind at `a` is an ill-typed model heap: the run leaves
    the modelled subset and nothing is overwritten. -/
def heapUpd (a : Addr) (c : Cell) : M Unit := do
  let old ← heapGet a
  if old.kind == c.kind then heapSet a c
  else unsupported "model: a write would change the kind of a heap cell"

/-- `*p.Value = v` through an `*ObjectPtr` whose cell is `a`.  A cell of another kind at `a`
    is an ill-typed model heap (no VM state has it): the run leaves the modelled subset, the
    cell is not overwritten. -/
def boxSet (a : Addr) (v : V) : M Unit := do
  match (← heapGet a) with
  | .box _ => heapSet a (.box v)
  | _ => unsupported "model: bad box"

def alloc (c : Cell) : M Addr := do
  let s ← getS
  let a := s.heap.size
  set { s with heap := s.heap.push c }
  pure a

/-- instructions of `vm.curInsts` (the function of the current frame) -/
def curCode : M Code := do
  let f ← curFrame
  match f.fn with
  | none => panic "runtime error: invalid memory address or nil pointer dereference"
  | some a =>
    match (← heapGet a) with
    | .fn c _ => pure ((← getS).codes[c]!)
    | _ => unsupported "model: frame function is not a function"

/-- `vm.curInsts[i]` -/
def instAt (i : Int) : M Nat := do
  let c ← curCode
  if i < 0 || i ≥ (c.insts.size : Int) then
    panic s!"runtime error: index out of range [{i}] with length {c.insts.size}"
  else pure (c.insts[i.toNat]!).toNat

def opnd1 (k : Int) : M Nat := do instAt ((← getIp) + k)
def opnd2 (k : Int) : M Nat := do
  let ip ← getIp
  -- Go evaluates `int(ins[ip+k+1]) | int(ins[ip+k])<<8` left to right
  let lo ← instAt (ip + k + 1)
  let hi ← instAt (ip + k)
  pure (lo ||| (hi <<< 8))
def opnd4 (k : Int) : M Nat := do
  let ip ← getIp
  let b3 ← instAt (ip + k + 3)
  let b2 ← instAt (ip + k + 2)
  let b1 ← instAt (ip + k + 1)
  let b0 ← instAt (ip + k)
  pure (b3 ||| (b2 <<< 8) ||| (b1 <<< 16) ||| (b0 <<< 24))

def constAt (i : Nat) : M V := do
  let s ← getS
  match s.consts[i]? with
  | some v => pure v
  | none => panic s!"runtime error: index out of range [{i}] with length {s.consts.size}"

/-! ### values -/

def lookupKV (k : Bytes) : List (Bytes × V) → Option V
  | [] => none
  | (k', v) :: rest => if k == k' then some v else lookupKV k rest

def insertKV (k : Bytes) (v : V) : List (Bytes × V) → List (Bytes × V)
  | [] => [(k, v)]
  | (k', v') :: rest => if k == k' then (k, v) :: rest else (k', v') :: insertKV k v rest

def typeName : V → String
  | .nil => "<nil>"
  | .undefined => "undefined"
  | .int _ => "int" | .uint _ => "uint" | .float _ => "float" | .char _ => "char"
  | .bool _ => "bool" | .str _ => "string" | .bytes _ => "bytes"
  | .arr .. => "array" | .map _ => "map" | .box _ => "objectPtr"
  | .cfun _ => "compiledFunction" | .builtin _ => "builtinFunction"
  | .err _ => "error" | .rterr _ => "error" | .iter _ => "" | .host _ => "host"

def strBytes (s : String) : Bytes := s.toUTF8.toList

def arrElems (a : Addr) (off len : Nat) : M (List V) := do
  match (← heapGet a) with
  | .arr xs => pure ((xs.toList.drop off).take len)
  | _ => unsupported "model: array address does not hold an array"

def mapEntries (a : Addr) : M (List (Bytes × V)) := do
  match (← heapGet a) with
  | .map kvs => pure kvs
  | _ => unsupported "model: map address does not hold a map"

/-- `Object.String()` for the kinds whose text does not depend on Go library float
    formatting or on map iteration order -/
def vString (v : V) : M Bytes := do
  match v with
  | .undefined => pure (strBytes "undefined")
  | .int x => pure (strBytes (toString x.toInt))
  | .uint x => pure (strBytes (toString x.toNat))
  | .bool b => pure (strBytes (if b then "true" else "false"))
  | .str s => pure s
  | .bytes s => pure s
  | .char c => pure (utf8EncodeRune c)
  | .cfun _ => pure (strBytes "<compiledFunction>")
  | .err a =>
    match (← heapGet a) with
    | .err name msg _ =>
      let n := if name.isEmpty then strBytes "error" else name
      pure (n ++ strBytes ": " ++ msg)
    | _ => unsupported "model: bad error cell"
  | .nil => panic "runtime error: invalid memory address or nil pointer dereference"
  | v => unsupported s!"String() of {typeName v}"

def isFalsy (v : V) : M Bool := do
  match v with
  | .nil => panic "runtime error: invalid memory address or nil pointer dereference"
  | .undefined => pure true
  | .int x => pure (x == 0#64)
  | .uint x => pure (x == 0#64)
  | .float x => pure x.isNaN
  | .char x => pure (x == 0#32)
  | .bool b => pure (!b)
  | .str s => pure s.isEmpty
  | .bytes s => pure s.isEmpty
  | .arr _ _ len => pure (len == 0)
  | .map a => do pure (← mapEntries a).isEmpty
  | .cfun _ => pure false
  | .builtin _ => pure false
  | .err _ => pure true
  | .rterr _ => pure true
  | .iter _ => pure true
  | v => unsupported s!"IsFalsy of {typeName v}"

/-- deep structural image of a value for `Equal` (pointer kinds become opaque identities) -/
def toValDeep (heap : Array Cell) : Nat → V → Option Val
  | 0, _ => none
  | fuel+1, v =>
    match v with
    | .nil => none
    | .undefined => some .undefined
    | .int x => some (.int x) | .uint x => some (.uint x) | .float x => some (.float x)
    | .char x => some (.char x) | .bool b => some (.bool b)
    | .str s => some (.str s) | .bytes s => some (.bytes s)
    | .arr a off len =>
      match heap[a]? with
      | some (.arr xs) => do
        let es ← ((xs.toList.drop off).take len).mapM (toValDeep heap fuel)
        pure (.array es)
      | _ => none
    | .map a =>
      match heap[a]? with
      | some (.map kvs) => do
        let es ← kvs.mapM (fun (k, x) => do let y ← toValDeep heap fuel x; pure (k, y))
        pure (.map es)
      | _ => none
    | .box a => some (.opaque "objectPtr" a)
    | .cfun a => some (.opaque "compiledFunction" a)
    | .builtin i => some (.opaque "builtinFunction" i)
    | .err a => some (.opaque "error" a)
    | .rterr a => some (.opaque "rterror" a)
    | .iter a => some (.opaque "iter" a)
    | .host i => some (.opaque "host" i)

/-- shallow image for the scalar operator cells (they never look inside containers) -/
def toValShallow : V → Option Val
  | .nil => none
  | .undefined => some .undefined
  | .int x => some (.int x) | .uint x => some (.uint x) | .float x => some (.float x)
  | .char x => some (.char x) | .bool b => some (.bool b)
  | .str s => some (.str s) | .bytes s => some (.bytes s)
  | .arr .. => some (.array [])
  | .map _ => some (.map [])
  | .box a => some (.opaque "objectPtr" a)
  | .cfun a => some (.opaque "compiledFunction" a)
  | .builtin i => some (.opaque "builtinFunction" i)
  | .err a => some (.opaque "error" a)
  | .rterr a => some (.opaque "error" a)
  | .iter a => some (.opaque "iter" a)
  | .host i => some (.opaque "host" i)

def ofScalarVal : Val → Option V
  | .undefined => some .undefined
  | .int x => some (.int x) | .uint x => some (.uint x) | .float x => some (.float x)
  | .char x => some (.char x) | .bool b => some (.bool b)
  | .str s => some (.str s) | .bytes s => some (.bytes s)
  | _ => none

/-- `left.Equal(right)`; rterr.Equal delegates to its *Error (pointer comparison with right) -/
def vEqual (F : FloatOps) (l r : V) : M Bool := do
  let s ← getS
  match l, r with
  | .nil, _ => panic "runtime error: invalid memory address or nil pointer dereference"
  | .rterr a, r =>
    match (← heapGet a) with
    | .rterr (some e) => pure (match r with | .err e' => e == e' | _ => false)
    | _ => pure false
  | .err a, r => pure (match r with | .err b => a == b | _ => false)
  | .iter _, _ => pure false      -- ObjectImpl.Equal
  | l, r =>
    match toValDeep s.heap (s.heap.size + 2) l, toValDeep s.heap (s.heap.size + 2) r with
    | some a, some b =>
      -- a right operand that is a runtime error / error / iterator is just "some other object"
      pure (Model.valEqual F a b)
    | _, _ => unsupported "Equal on cyclic or nil value"

def opErrOfErr : Err → OpErr
  | .zeroDivision => .named "ZeroDivisionError" ""
  | .operandType t l r => .named "TypeError" s!"unsupported operand types for '{t}': '{l}' and '{r}'"
  | .typeErr m => .named "TypeError" m
  | .invalidOperator m => .named "InvalidOperatorError" m
  | .other n m => .named n m

/-- String.BinaryOp(+) stringifies a right operand that is neither String nor Bytes -/
def needStr (l : V) (tok : Tok) (r : V) : Bool :=
  match l, tok, r with
  | .str _, .Add, .str _ => false
  | .str _, .Add, .bytes _ => false
  | .str _, .Add, .undefined => true
  | .str _, .Add, _ => true
  | _, _, _ => false

/-- `left.BinaryOp(tok, right)` as dispatched by OpBinaryOp -/
def vBinaryOp (F : FloatOps) (tok : Tok) (l r : V) : M (Except OpErr V) := do
  match l with
  | .nil => panic "runtime error: invalid memory address or nil pointer dereference"
  | .arr a off len =>
    -- objects.go Array.BinaryOp
    match tok with
    | .Add =>
      let xs ← arrElems a off len
      match r with
      | .arr b off' len' =>
        let ys ← arrElems b off' len'
        let na ← alloc (.arr (xs ++ ys).toArray)
        pure (.ok (.arr na 0 (len + len')))
      | r =>
        let na ← alloc (.arr (xs ++ [r]).toArray)
        pure (.ok (.arr na 0 (len + 1)))
    | .Less | .LessEq =>
      match r with
      | .undefined => pure (.ok (.bool false))
      | r => pure (.error (.named "TypeError" s!"unsupported operand types for '{tok.str}': 'array' and '{typeName r}'"))
    | .Greater | .GreaterEq =>
      match r with
      | .undefined => pure (.ok (.bool true))
      | r => pure (.error (.named "TypeError" s!"unsupported operand types for '{tok.str}': 'array' and '{typeName r}'"))
    | _ => pure (.error (.named "TypeError" s!"unsupported operand types for '{tok.str}': 'array' and '{typeName r}'"))
  | .cfun _ | .builtin _ | .err _ | .rterr _ | .iter _ =>
    -- ErrInvalidOperator, rewritten by the VM to InvalidOperatorError(tok)
    pure (.error (.named "InvalidOperatorError" tok.str))
  | .box _ | .host _ => unsupported "BinaryOp on box/host"
  | l =>
    match toValShallow l, toValShallow r with
    | some a, some b =>
      let rs ← if needStr l tok r then vString r else pure []
      let S : ObjOps := { toStr := fun _ => rs }
      match Model.binaryOp F S tok a b with
      | .ok v =>
        match ofScalarVal v with
        | some v => pure (.ok v)
        | none => unsupported "BinaryOp result kind"
      | .err e => pure (.error (opErrOfErr e))
      | .panic m => panic m
    | _, _ => panic "runtime error: invalid memory address or nil pointer dereference"

/-- vm.go xOpUnary through the regenerated `Gen.xOpUnary` -/
def vUnary (F : FloatOps) (tok : Tok) (right : V) : M (Except OpErr V) := do
  match right with
  | .nil => panic "runtime error: invalid memory address or nil pointer dereference"
  | _ => pure ()
  let falsy ← (if tok == .Not then isFalsy right else pure false)
  match toValShallow right with
  | none => panic "runtime error: invalid memory address or nil pointer dereference"
  | some rv =>
    match Gen.xOpUnary F (fun _ => falsy) tok rv with
    | .ok v =>
      -- unary + returns its operand unchanged
      match v, rv with
      | .array _, _ | .map _, _ | .opaque _ _, _ => pure (.ok right)
      | v, _ =>
        match ofScalarVal v with
        | some v' => pure (.ok v')
        | none => unsupported "unary result kind"
    | .err e => pure (.error (opErrOfErr e))
    | .panic m => panic m

/-- index conversion used by Array/String/Bytes IndexGet: `int(v)` of an Int/Uint -/
def idxOf (i : V) : Option Int :=
  match i with
  | .int v => some v.toInt
  | .uint v => some (BitVec.toInt v)     -- int(uint64) reinterprets
  | _ => none

/-- `target.IndexGet(index)`; errors are the bare package errors (the VM decorates them) -/
def vIndexGet (t i : V) : M (Except OpErr V) := do
  match t with
  | .nil => panic "runtime error: invalid memory address or nil pointer dereference"
  | .undefined => pure (.ok .undefined)
  | .arr a off len =>
    match idxOf i with
    | some n =>
      if n ≥ 0 && n < len then
        let xs ← arrElems a off len
        pure (.ok (xs[n.toNat]!))
      else pure (.error (.named "IndexOutOfBoundsError" ""))
    | none => pure (.error (.named "TypeError" s!"index type expected int|uint, found {typeName i}"))
  | .map a =>
    let k ← vString i
    let kvs ← mapEntries a
    match lookupKV k kvs with
    | some v => pure (.ok v)
    | none => pure (.ok .undefined)
  | .str s =>
    let n? := match i with
      | .int v => some v.toInt
      | .uint v => some (BitVec.toInt v)
      | .char v => some v.toInt
      | _ => none
    match n? with
    | some n =>
      if n ≥ 0 && n < s.length then pure (.ok (.int (BitVec.ofNat 64 (s[n.toNat]!).toNat)))
      else pure (.error (.named "IndexOutOfBoundsError" ""))
    | none => pure (.error (.named "TypeError" s!"index type expected int|uint|char, found {typeName i}"))
  | .bytes s =>
    match idxOf i with
    | some n =>
      if n ≥ 0 && n < s.length then pure (.ok (.int (BitVec.ofNat 64 (s[n.toNat]!).toNat)))
      else pure (.error (.named "IndexOutOfBoundsError" ""))
    | none => pure (.error (.named "TypeError" s!"index type expected int|uint|char, found {typeName i}"))
  | .err a | .rterr a =>
    let ea ← (match t with
      | .rterr _ => do
        match (← heapGet a) with
        | .rterr (some e) => pure (some e)
        | _ => pure none
      | _ => pure (some a))
    match ea with
    | none => pure (.ok .undefined)
    | some ea =>
      let k ← vString i
      match (← heapGet ea) with
      | .err name msg _ =>
        if k == strBytes "Name" then pure (.ok (.str name))
        else if k == strBytes "Message" then pure (.ok (.str msg))
        else if k == strBytes "New" then unsupported "error.New"
        else pure (.ok .undefined)
      | _ => unsupported "model: bad error cell"
  | .int _ | .uint _ | .float _ | .char _ | .bool _ | .cfun _ | .builtin _ | .iter _ =>
    pure (.error (.named "NotIndexableError" ""))
  | t => unsupported s!"IndexGet on {typeName t}"

def vIndexSet (t i v : V) : M (Except OpErr Unit) := do
  match t with
  | .nil => panic "runtime error: invalid memory address or nil pointer dereference"
  | .arr a off len =>
    match idxOf i with
    | some n =>
      if n ≥ 0 && n < len then
        match (← heapGet a) with
        | .arr xs => heapUpd a (.arr (xs.set! (off + n.toNat) v)); pure (.ok ())
        | _ => unsupported "model: array address does not hold an array"
      else pure (.error (.named "IndexOutOfBoundsError" ""))
    | none => pure (.error (.named "TypeError" s!"index type expected int|uint, found {typeName i}"))
  | .map a =>
    let k ← vString i
    let kvs ← mapEntries a
    heapUpd a (.map (insertKV k v kvs))
    pure (.ok ())
  | .undefined | .int _ | .uint _ | .float _ | .char _ | .bool _ | .str _ | .cfun _ | .builtin _
  | .err _ | .rterr _ | .iter _ =>
    pure (.error (.named "NotIndexAssignableError" ""))
  | t => unsupported s!"IndexSet on {typeName t}"

end UgoVerif.VM
