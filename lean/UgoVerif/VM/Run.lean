import UgoVerif.VM.Step
/-
  VM model — `Run`: prologue, the `run()`/`recover` wrapper, `handlePanic`, epilogue.
-/
namespace UgoVerif.VM
open UgoVerif UgoVerif.Go

/-- result of `VM.Run` as seen by the embedder -/
inductive Outcome where
  | value (v : V)
  | error (e : VmErr)
  | goPanic (msg : String)          -- a panic escaped from Run
  | unsupported (msg : String)      -- the run left the modelled subset (not compared)
  | outOfFuel                       -- step budget of the model run exhausted (not compared)
  deriving Repr, Inhabited

def emptyFrames : Array Frame := Array.replicate frameSize {}

/-- a new VM (`NewVM(bc)`) -/
def newState (codes : Array Code) (heap : Array Cell) (consts : Array V) (mainFn : Addr) (numModules : Nat) : State :=
  { stack := Array.replicate stackSize .nil, sp := 0, ip := 0, frames := emptyFrames, curFrame := 0,
    frameIndex := 0, heap := heap, codes := codes, consts := consts, mainFn := mainFn,
    numModules := numModules, globals := .nil, modules := #[], err := none, abort := false,
    steps := 0, trace := #[], traceOn := true, noPanic := false }

/-- `locals[i] = v` on the slice `locals := vm.stack[:numLocals]` -/
def setLocal (numLocals : Nat) (i : Int) (v : V) : M Unit := do
  if i < 0 || i ≥ (numLocals : Int) then
    panic s!"runtime error: index out of range [{i}] with length {numLocals}"
  else stackSet i v

/-- `copy(locals, xs)` -/
def copyLocals (numLocals : Nat) (xs : List V) : M Unit := do
  let mut i := 0
  for x in xs do
    if i < numLocals then stackSet i x
    i := i + 1

/-- vm.go initLocals -/
def initLocals (args : List V) : M Unit := do
  let s ← getS
  let (code, _) ← fnCell s.mainFn
  let numParams : Int := code.numParams
  let numLocals := code.numLocals
  if numLocals > stackSize then
    panic s!"runtime error: slice bounds out of range [:{numLocals}] with capacity {stackSize}"
  fillUndefined 0 numLocals
  if numParams ≤ 0 then return
  if (args.length : Int) < numParams then
    if code.variadic then setLocal numLocals (numParams - 1) (← newArray [])
    copyLocals numLocals args
    return
  if code.variadic then
    let vargs := args.drop (numParams - 1).toNat
    setLocal numLocals (numParams - 1) (← newArray vargs)
  else
    setLocal numLocals (numParams - 1) (args[(numParams - 1).toNat]!)
  copyLocals numLocals (args.take (numParams - 1).toNat)

/-- vm.go initCurrentFrame -/
def initCurrentFrame : M Unit := do
  let s ← getS
  let (_, free) ← fnCell s.mainFn
  modS fun s =>
    { s with
      curFrame := 0
      frames := s.frames.modify 0 fun f =>
        { f with fn := some s.mainFn, free := free, handlers := none, bp := 0, discard := false } }

def prologue (globals : V) (args : List V) : M Unit := do
  modS fun s => { s with err := none, abort := false }
  -- initGlobals: nil globals become a new Map
  let g ← (match globals with
    | .nil => do let a ← alloc (.map []); pure (V.map a)
    | g => pure g)
  modS fun s => { s with globals := g }
  initLocals args
  initCurrentFrame
  let s ← getS
  let (code, _) ← fnCell s.mainFn
  modS fun s => { s with frameIndex := 1, ip := -1, sp := code.numLocals }
  -- grow the module cache
  modS fun s =>
    let diff := s.numModules - s.modules.size
    { s with modules := s.modules ++ Array.replicate diff .nil }

/-- `loop()`: at most `fuel` instructions.  `none` = fuel exhausted. -/
def loopF (F : FloatOps) : Nat → M (Option Unit)
  | 0 => pure none
  | fuel+1 => do
    if (← getS).abort then
      modS fun s => { s with err := some .aborted }
      return some ()
    match (← step F) with
    | .ret => return some ()
    | .next => loopF F fuel

/-- the epilogue of `Run` (outside `recover`): `vm.stack[vm.sp-1]`, dereferenced if it is an *ObjectPtr -/
def resultValue : M V := do
  let v ← stackGet ((← getSp) - 1)
  match v with
  | .box a => do match (← heapGet a) with | .box v => pure v | _ => unsupported "model: bad box"
  | v => pure v

/-- vm.go handlePanic -/
def handlePanic (msg : String) : M Unit := do
  let s ← getS
  if s.sp < (stackSize : Int) && s.frameIndex ≤ (frameSize : Int) && s.err.isNone then
    -- throwGenErr(fmt.Errorf("%v", r)): a plain Go error becomes &Error{Message: err.Error(), Cause: err}
    let ea ← alloc (.err [] (strBytes msg) none)
    let ra ← alloc (.rterr (some ea))
    match (← throwF (← throwFuel) ra) with
    | none => pure ()
    | some _ => modS fun s => { s with err := some (.goerr ("panic: " ++ msg)) }
  else
    modS fun s => { s with err := some (.goerr ("panic: " ++ msg)) }

/-- `Run` on an arbitrary prior state (a new VM, or one that ran before). `fuel` bounds
    the instructions of the whole run (model budget, not a VM feature). -/
def runFrom (F : FloatOps) (fuel : Nat) (globals : V) (args : List V) (s0 : State) : Outcome × State :=
  match (prologue globals args).run.run s0 with
  | (.error (.panic m), s) => (.goPanic m, s)
  | (.error (.unsupported m), s) => (.unsupported m, s)
  | (.ok (), s) => go fuel fuel s
where
  /-- `for run := true; run; { run = vm.run() }` — each rerun consumes a handler, `reruns` bounds them -/
  go (reruns fuel : Nat) (s : State) : Outcome × State :=
    match reruns with
    | 0 => (.outOfFuel, s)
    | reruns+1 =>
      match (loopF F fuel).run.run s with
      | (.ok none, s) => (.outOfFuel, s)
      | (.ok (some ()), s) =>
        -- normal return of loop: deferred clearCurrentFrame, no rerun
        match clearCurrentFrame.run.run s with
        | (_, s) => finish s
      | (.error (.unsupported m), s) => (.unsupported m, s)
      | (.error (.panic m), s) =>
        if s.noPanic then
          match (handlePanic m).run.run s with
          | (.error (.panic m'), s) => (.goPanic m', s)
          | (.error (.unsupported m'), s) => (.unsupported m', s)
          | (.ok (), s) =>
            if s.err.isNone then go reruns (fuel - s.steps) s else finish s
        else (.goPanic m, s)
  finish (s : State) : Outcome × State :=
    match s.err with
    | some e => (.error e, s)
    | none =>
      if s.sp < (stackSize : Int) then
        match resultValue.run.run s with
        | (.ok v, s) => (.value v, s)
        | (.error (.panic m), s) => (.goPanic m, s)
        | (.error (.unsupported m), s) => (.unsupported m, s)
      else (.error .stackOverflow, s)

end UgoVerif.VM
