-- root of the library: every property module (kept in sync with bin/props.py)
import UgoVerif.Props.C15
import UgoVerif.Props.C06
