-- root of the library: every property module (kept in sync with bin/props.py)
import UgoVerif.Props.C15
import UgoVerif.Props.C17
import UgoVerif.Props.C13
import UgoVerif.Props.C20
import UgoVerif.Props.C01
import UgoVerif.Props.C16
import UgoVerif.Props.C02
import UgoVerif.Props.C03
import UgoVerif.Props.C11
import UgoVerif.Props.C09
import UgoVerif.Props.C12
import UgoVerif.Props.C14
import UgoVerif.Props.C05
import UgoVerif.Props.C19
import UgoVerif.Props.C04
import UgoVerif.Props.C18
import UgoVerif.Props.C10
