import Driver.AstParse
import Driver.VMDrv
import UgoVerif.Model.Optim
/-
  `optast <limit> <line starts, comma separated Pos values> <ast>`: run the optimizer model
  (Model/Optim) on the parser's AST.  Answer:
  `ast=<optimized AST in the astenc format>\ttotal=<n>\terrs=<pos>:<name hex>:<message hex>;…`
  or `out=unsupported …` when the program is outside the modelled fragment.
-/
namespace Driver
open UgoVerif UgoVerif.Go UgoVerif.Ast UgoVerif.VM UgoVerif.Model

def hxS (b : Bytes) : String := if b.isEmpty then "-" else hexOfBytes b

partial def showExpr : Expr → String
  | .int p v => s!"(int {p} {hexOfNat 16 v.toNat})"
  | .uint p v => s!"(uint {p} {hexOfNat 16 v.toNat})"
  | .float p v => s!"(float {p} {hexOfNat 16 (canonNaN v).toNat})"
  | .char p v => s!"(char {p} {hexOfNat 8 v.toNat})"
  | .bool p b => s!"(bool {p} {if b then 1 else 0})"
  | .str p s => s!"(str {p} {hxS s})"
  | .undef p => s!"(undef {p})"
  | .ident p n => s!"(id {p} {hxS n.toUTF8.toList})"
  | .unary p t e => s!"(un {p} {t} {showExpr e})"
  | .binary p t l r => s!"(bin {p} {t} {showExpr l} {showExpr r})"
  | .cond p c t f => s!"(cond {p} {showExpr c} {showExpr t} {showExpr f})"
  | .paren p e => s!"(paren {p} {showExpr e})"
  | _ => "(?)"

def showStmt : Stmt → String
  | .expr p e => s!"(expr {p} {showExpr e})"
  | .empty p => s!"(empty {p})"
  | .return_ p none => s!"(return {p} nil)"
  | .return_ p (some e) => s!"(return {p} {showExpr e})"
  | .declParam p specs =>
    s!"(decl {p} {tParam}" ++ String.join (specs.map fun (sp, n, va) => s!" (param {sp} {hxS n.toUTF8.toList} {if va then 1 else 0})") ++ ")"
  | .declGlobal p specs =>
    s!"(decl {p} {tGlobal}" ++ String.join (specs.map fun (sp, n, va) => s!" (param {sp} {hxS n.toUTF8.toList} {if va then 1 else 0})") ++ ")"
  | _ => "(?)"

def showOpErr : OpErr → String
  | .named n m => s!"{hxS (strBytes n)}:{hxS (strBytes m)}"
  | _ => "?"

/-- `SourceFile.Position(p).Line`: the number of line starts (as Pos values) ≤ p -/
def lineOfTable (starts : List Nat) (p : Pos) : Nat :=
  (starts.filter (fun s => s ≤ p)).length

def handleOptAst (args : List String) : String :=
  match args with
  | [limS, linesS, astS] =>
    match parseFile astS, limS.toInt? with
    | some file, some lim =>
      let starts := (linesS.splitOn ",").filterMap (·.toNat?)
      match Optim.optimize nativeFloat (lineOfTable starts) lim file with
      | none => "out=unsupported fragment"
      | some o =>
        let astOut := "(file" ++ String.join (o.file.map (fun s => " " ++ showStmt s)) ++ ")"
        let errs := ";".intercalate (o.st.errors.map (fun (p, e) => s!"{p}:{showOpErr e}"))
        s!"ast={astOut}\ttotal={o.total}\terrs={errs}"
    | _, _ => "bad-ast"
  | _ => "bad-op"

end Driver
