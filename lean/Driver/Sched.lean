import UgoVerif.Model.Conc
/-
  Driver for the `sched` correspondence stream (C09).

  request : sched <TAB> scenario <TAB> family <TAB> prog <TAB> k <TAB> directives
     family      run | eval
     prog        runs separated by '/', each a comma list of  p | t | c:<a|i|r>*
     k           a child function executes k plain instructions and a return
     directives  space separated:  R3  C1  E2  Rx  Cx  Ex  X  P   (x = to the end of the
                 current call; X = cancel the context; leading P = probing schedule)
  response: per directive  T:hook,hook,…  (‘!blocked’ / ‘fin’ markers) joined by '|',
            then ;res=<a|c per finished Run>;eval=<ok|err|->;extra=<max further instructions>
-/
namespace Driver
open UgoVerif.Model.Conc

def parseInstr (t : String) : Instr :=
  if t == "p" then .plain
  else if t.startsWith "c:" then
    .cb ((t.toList.drop 2).filterMap fun ch =>
      if ch == 'a' then some CbOp.acquire else if ch == 'i' then some CbOp.invoke
      else if ch == 'r' then some CbOp.release else none)
  else .ret

def mkCfg (runs : List (List Instr)) (k : Nat) : Cfg :=
  { prog := fun r ip => (runs.getD r []).getD ip .ret,
    cprog := fun _ j => if j < k then .plain else .ret }

structure Sim where
  es : EState
  nruns : Nat
  eval : Bool
  maxExtra : Nat
  /-- probing schedule: a thread whose next operation is a Lock held by the other thread is
      released all the same; it stays `pending` and performs its step as soon as the lock is
      free (its arrival is reported at its next directive) -/
  probe : Bool := false
  pending : List Char := []
  arrived : List (Char × String) := []

inductive StepRes where
  | ok (sim : Sim) (name : String)
  | blocked
  | fin

def isBodyPc : RPc → Bool
  | .body _ | .kBody .. => true
  | _ => false

/-- `maxExtra` counts the instructions executed (steps of R that leave a loop.body sync
    point) while an Abort that completed during the current Run is in effect -/
def note (sim : Sim) (es : EState) : Sim :=
  let inc := sim.es.s.armedAny && isBodyPc sim.es.s.rpc && (es.s.rpc != sim.es.s.rpc)
  { sim with es := es, maxExtra := if inc then sim.maxExtra + 1 else sim.maxExtra }

def stepThread (cfg : Cfg) (sim : Sim) (t : Char) : StepRes :=
  let es := sim.es
  if t == 'R' then
    if es.s.rpc == .idle && es.s.run ≥ sim.nruns then .fin
    else if sim.eval then
      match stepE cfg es .r with
      | some es' => .ok (note sim es') (rHook es'.s.rpc)
      | none => .blocked
    else
      match stepR cfg es.s with
      | some s' => .ok (note sim { es with s := s' }) (rHook s'.rpc)
      | none => .blocked
  else if t == 'C' then
    match stepC es.s es.s.pool with
    | some s' => .ok (note sim { es with s := s' }) (cHook s'.cpc)
    | none => .blocked
  else if t == 'E' then
    match es.epc with
    | .done _ => .fin
    | _ =>
      match stepE cfg es (.e es.s.pool) with
      | some es' =>
        let name := match es'.epc with
          | .abort1 | .abort2 => cHook es'.s.cpc
          | p => eHook p
        .ok (note sim es') name
      | none => .blocked
  else .blocked

/-- pending (released, blocked on pool.mu) threads proceed as soon as their step is enabled -/
def autoAdvance (cfg : Cfg) (sim : Sim) : Sim :=
  sim.pending.foldl (fun sim t =>
    match stepThread cfg sim t with
    | .ok sim' name => { sim' with pending := sim'.pending.filter (· != t), arrived := (t, name) :: sim'.arrived }
    | _ => sim) sim

/-- run one directive; returns the new state and the observation text -/
def runDir (cfg : Cfg) (sim : Sim) (d : String) : Sim × String :=
  if d == "X" then ({ sim with es := { sim.es with cancelled := true } }, "X")
  else
    let t := d.toList.headD ' '
    let arg := String.ofList (d.toList.drop 1)
    let toEnd := arg == "x"
    let n := if toEnd then 100000 else arg.toNat!
    let rec go (fuel : Nat) (sim : Sim) (acc : List String) : Sim × List String :=
      match fuel with
      | 0 => (sim, acc)
      | fuel + 1 =>
        match sim.arrived.lookup t with
        | some name =>
          let sim' := { sim with arrived := sim.arrived.filter (·.1 != t) }
          if toEnd && name == "end" then (sim', name :: acc) else go fuel sim' (name :: acc)
        | none =>
        match stepThread cfg sim t with
        | .fin => (sim, "fin" :: acc)
        | .blocked =>
          let sim' := if sim.probe && !sim.pending.contains t then { sim with pending := t :: sim.pending } else sim
          (sim', "!blocked" :: acc)
        | .ok sim' name =>
          let sim' := autoAdvance cfg sim'
          if toEnd && name == "end" then (sim', name :: acc) else go fuel sim' (name :: acc)
    let (sim', acc) := go n sim []
    (sim', s!"{t}:" ++ ",".intercalate acc.reverse)

def outcomeChar : Outcome → String
  | .completed => "c"
  | .aborted => "a"

def handleSched (args : List String) : String :=
  match args with
  | [_scn, fam, progS, kS, dirsS] =>
    let runs := (progS.splitOn "/").map fun r => ((r.splitOn ",").filter (· ≠ "")).map parseInstr
    let cfg := mkCfg runs kS.toNat!
    let sim0 : Sim := { es := einit, nruns := runs.length, eval := fam == "eval", maxExtra := 0 }
    let dirs0 := (dirsS.splitOn " ").filter (· ≠ "")
    let sim0 := { sim0 with probe := dirs0.head? == some "P" }
    let dirs := dirs0.filter (· ≠ "P")
    let (sim, obs) := dirs.foldl (fun (acc : Sim × List String) d =>
      let (s', o) := runDir cfg acc.1 d
      (s', o :: acc.2)) (sim0, [])
    let res := "".intercalate (sim.es.s.results.reverse.map outcomeChar)
    let ev := match sim.es.epc with
      | .done true => "err"
      | .done false => (match sim.es.s.results with | .aborted :: _ => "err" | _ => "ok")
      | _ => "-"
    "|".intercalate obs.reverse ++ s!";res={res};eval={if sim.eval then ev else "-"};extra={sim.maxExtra}"
  | _ => "bad-op"

end Driver
