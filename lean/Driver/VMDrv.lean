import Driver.Codec
import UgoVerif.VM.Run
/-
  Driver for the VM model: `vm <opts> <fuel> <numModules> <main> <consts> <globals> <args>`.
  The bytecode comes from the real compiler (the harness ships it); the model runs it and
  answers with the outcome, the executed-instruction count, a hash of the H1 trace
  (frameIndex, ip, sp, #handlers, opcode per instruction) and the final globals.
-/
namespace Driver
open UgoVerif UgoVerif.Go UgoVerif.VM

structure Build where
  heap : Array Cell := #[]
  codes : Array Code := #[]

abbrev B := StateM Build

def bAlloc (c : Cell) : B Addr := do
  let b ← get
  set { b with heap := b.heap.push c }
  pure b.heap.size

partial def ofVal (v : Val) : B V := do
  match v with
  | .undefined => pure .undefined
  | .int x => pure (.int x) | .uint x => pure (.uint x) | .float x => pure (.float x)
  | .char x => pure (.char x) | .bool b => pure (.bool b)
  | .str s => pure (.str s) | .bytes s => pure (.bytes s)
  | .array xs => do
    let ys ← xs.mapM ofVal
    let a ← bAlloc (.arr ys.toArray)
    pure (.arr a 0 ys.length)
  | .map kvs => do
    let es ← kvs.mapM (fun (k, x) => do let y ← ofVal x; pure (k, y))
    let a ← bAlloc (.map es)
    pure (.map a)
  | .opaque tn i =>
    if tn == "builtinFunction" then pure (.builtin i) else pure (.host i)

/-- `F<np>,<nl>,<variadic>,<hex>` -/
def parseFn (s : String) : Option Code :=
  match (String.ofList (s.toList.drop 1)).splitOn "," with
  | [np, nl, va, hx] => do
    let bs ← bytesOfHex hx.toList
    pure { insts := bs.toArray, numParams := np.toNat!, numLocals := nl.toNat!, variadic := va == "1" }
  | _ => none

def addFn (c : Code) : B V := do
  let b ← get
  let ci := b.codes.size
  set { b with codes := b.codes.push c }
  let a ← bAlloc (.fn ci none)
  pure (.cfun a)

def parseConst (s : String) : B (Option V) := do
  if s.startsWith "F" then
    match parseFn s with
    | some c => do pure (some (← addFn c))
    | none => pure none
  else
    match parseValStr s with
    | some v => do pure (some (← ofVal v))
    | none => pure none

def words (s : String) : List String := (s.splitOn ";").filter (· ≠ "")

/-- printable image of a runtime value (pointer identities dropped) -/
def imageOf (heap : Array Cell) : Nat → V → Val
  | 0, _ => .opaque "deep" 0
  | fuel+1, v =>
    match v with
    | .nil => .opaque "nil" 0
    | .undefined => .undefined
    | .int x => .int x | .uint x => .uint x | .float x => .float x
    | .char x => .char x | .bool b => .bool b
    | .str s => .str s | .bytes s => .bytes s
    | .arr a off len =>
      match heap[a]? with
      | some (.arr xs) => .array (((xs.toList.drop off).take len).map (imageOf heap fuel))
      | _ => .opaque "badarr" 0
    | .map a =>
      match heap[a]? with
      | some (.map kvs) => .map (kvs.map fun (k, x) => (k, imageOf heap fuel x))
      | _ => .opaque "badmap" 0
    | .box _ => .opaque "objectPtr" 0
    | .cfun _ => .opaque "compiledFunction" 0
    | .builtin _ => .opaque "builtinFunction" 0
    | .err _ => .opaque "error" 0
    | .rterr _ => .opaque "error" 0
    | .iter _ => .opaque "" 0
    | .host _ => .opaque "host" 0

def bytesToString (b : Bytes) : String := hexOfBytes b

def showVmErr (s : State) (e : VmErr) : String :=
  match e with
  | .rt a =>
    match s.heap[a]? with
    | some (.rterr (some ea)) =>
      match s.heap[ea]? with
      | some (.err name msg _) => s!"err {hexOfBytes name} {hexOfBytes msg}"
      | _ => "err ?"
    | _ => "err nil"
  | .stackOverflow => s!"err {hexOfBytes (strBytes "StackOverflowError")} "
  | .aborted => s!"err {hexOfBytes (strBytes "VMAbortedError")} "
  | .invalidBytecode => "goerr invalid"
  | .goerr m => if m.startsWith "panic:" then "goerr panic" else "goerr " ++ m

def traceHash (tr : Array (Int × Int × Int × Nat × Nat)) : Nat :=
  tr.foldl (fun h (fi, ip, sp, nh, op) =>
    let step (h x : Nat) : Nat := (h * 1000003 + x + 1) % 2147483647
    step (step (step (step (step h fi.toNat) (ip + 2).toNat) (sp + 2).toNat) nh) op) 7

def showTrace (tr : Array (Int × Int × Int × Nat × Nat)) : String :=
  " ".intercalate (tr.toList.map fun (fi, ip, sp, nh, op) => s!"{fi},{ip},{sp},{nh},{op}")

def handleVM (args : List String) : String :=
  -- an optional trailing field starting with '#' carries the source text for humans
  let args := match args.reverse with
    | c :: rest => if c.startsWith "#" then rest.reverse else args
    | [] => args
  match args with
  | [opts, fuelS, nmS, mainS, constsS, globalsS, argsS] =>
    let build : B (Option (V × Array V × V × List V)) := do
      match parseFn mainS with
      | none => pure none
      | some mc =>
        let mainV ← addFn mc
        let mut consts : Array V := #[]
        for w in words constsS do
          match (← parseConst w) with
          | some v => consts := consts.push v
          | none => return none
        let g ← (if globalsS == "-" then pure V.nil else
          match parseValStr globalsS with
          | some v => ofVal v
          | none => pure V.nil)
        let mut as : List V := []
        for w in words argsS do
          match parseValStr w with
          | some v => as := as ++ [← ofVal v]
          | none => return none
        pure (some (mainV, consts, g, as))
    match build.run {} with
    | (none, _) => "bad-op"
    | (some (mainV, consts, g, as), b) =>
      match mainV with
      | .cfun ma =>
        let s0 := newState b.codes b.heap consts ma nmS.toNat!
        let s0 := { s0 with noPanic := opts.contains 'R' }
        let (out, s) := runFrom nativeFloat fuelS.toNat! g as s0
        let outS := match out with
          | .value v => "val " ++ showVal (imageOf s.heap 64 v)
          | .error e => showVmErr s e
          | .goPanic _ => "panic"
          | .unsupported m => "unsupported " ++ m
          | .outOfFuel => "fuel"
        let gS := showVal (imageOf s.heap 64 s.globals)
        let tr := if opts.contains 'T' then " trace=" ++ showTrace s.trace else ""
        s!"out={outS}\tsteps={s.steps}\tth={traceHash s.trace}\tglobals={gS}{tr}"
      | _ => "bad-op"
  | _ => "bad-op"

end Driver
