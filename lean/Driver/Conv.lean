import Driver.Codec
import UgoVerif.Model.Conv
/-
  Driver for stream `conv` (C20).  Request: `conv <op> <value>` with
    op = toobj | toalt   (value: a Go value)      -> `ok <obj>` | `err error <msg>` | `panic <msg>`
    op = toiface         (value: an Object)       -> `ok <go value>` | `panic <msg>`
    op = rtobj | rtalt   (value: an Object)       -> result of ToObject/ToObjectAlt(ToInterface(o))
    op = rtgo | rtgoalt  (value: a Go value)      -> result of ToInterface(ToObject/ToObjectAlt(g))
  Value syntax: `tag[:payload[:payload]]` or `tag(items)`; see harness/cmd/corr/conv.go.
-/
namespace Driver
open UgoVerif UgoVerif.Go UgoVerif.Gen.Conv UgoVerif.Model.Conv

def strOfHex (s : String) : Option String := do
  let b ← bytesOfHex s.toList
  pure (String.ofList (b.map (fun x => Char.ofNat x.toNat)))

def hexOfStr (s : String) : String := hexOfBytes (s.toList.map (fun c => UInt8.ofNat c.toNat))

def takeTag (cs : List Char) : List Char × List Char :=
  cs.span (fun c => c != ' ' && c != '(' && c != ')' && c != '=')

def bvOfHex (w : Nat) (s : String) : Option (BitVec w) := do
  let n ← natOfHex s.toList
  pure (BitVec.ofNat w n)

mutual
partial def parseObjs (cs : List Char) (acc : List Obj) : Option (List Obj × List Char) :=
  match cs with
  | ')' :: r => some (acc.reverse, r)
  | ' ' :: r => parseObjs r acc
  | cs => do let (v, r) ← parseObj cs; parseObjs r (v :: acc)
partial def parseObjKvs (cs : List Char) (acc : List (Bytes × Obj)) : Option (List (Bytes × Obj) × List Char) :=
  match cs with
  | ')' :: r => some (acc.reverse, r)
  | ' ' :: r => parseObjKvs r acc
  | cs =>
    let (h, r) := spanHex cs
    match r with
    | '=' :: r => do
      let k ← bytesOfHex h
      let (v, r) ← parseObj r
      parseObjKvs r ((k, v) :: acc)
    | _ => none
partial def parseObj (cs : List Char) : Option (Obj × List Char) :=
  let (tag, rest) := takeTag cs
  let parts := (String.ofList tag).splitOn ":"
  match rest with
  | '(' :: r =>
    match parts with
    | ["a"] => do let (xs, r) ← parseObjs r []; pure (.array xs, r)
    | ["m"] => do let (kvs, r) ← parseObjKvs r []; pure (.map kvs, r)
    | ["sm"] => do let (kvs, r) ← parseObjKvs r []; pure (.syncMap kvs, r)
    | _ => none
  | _ =>
    (show Option Obj from match parts with
    | ["gonil"] => some .goNil
    | ["u"] => some .undefined
    | ["i", h] => (bvOfHex 64 h).map .int
    | ["n", h] => (bvOfHex 64 h).map .uint
    | ["f", h] => (bvOfHex 64 h).map .float
    | ["c", h] => (bvOfHex 32 h).map .char
    | ["b", "0"] => some (.bool false)
    | ["b", "1"] => some (.bool true)
    | ["s", h] => (bytesOfHex h.toList).map .str
    | ["yN"] => some .bytesNil
    | ["y", h] => (bytesOfHex h.toList).map .bytes
    | ["smN"] => some .syncMapNil
    | ["fn", d] => some (.func d.toNat!)
    | ["er", h, d] => (bytesOfHex h.toList).map (fun m => .error m d.toNat!)
    | ["tmN"] => some .timeNil
    | ["tm", d] => some (.time d.toNat!)
    | ["locN"] => some .locationNil
    | ["loc", "N"] => some (.location none)
    | ["loc", d] => some (.location (some d.toNat!))
    | ["rawN"] => some .rawMessageNil
    | ["raw", "N"] => some (.rawMessage none)
    | ["raw", h] => (bytesOfHex h.toList).map (fun b => .rawMessage (some b))
    | ["saN"] => some .scanArgNil
    | ["sa", "N"] => some (.scanArg none)
    | ["sa", h, d] => (strOfHex h).map (fun tn => .scanArg (some (tn, d.toNat!)))
    | ["ot", h, d] => (strOfHex h).map (fun tn => .other tn d.toNat!)
    | _ => none).map (fun o => (o, rest))
end

mutual
partial def parseGos (cs : List Char) (acc : List GoVal) : Option (List GoVal × List Char) :=
  match cs with
  | ')' :: r => some (acc.reverse, r)
  | ' ' :: r => parseGos r acc
  | cs => do let (v, r) ← parseGo cs; parseGos r (v :: acc)
partial def parseGoKvs (cs : List Char) (acc : List (Bytes × GoVal)) : Option (List (Bytes × GoVal) × List Char) :=
  match cs with
  | ')' :: r => some (acc.reverse, r)
  | ' ' :: r => parseGoKvs r acc
  | cs =>
    let (h, r) := spanHex cs
    match r with
    | '=' :: r => do
      let k ← bytesOfHex h
      let (v, r) ← parseGo r
      parseGoKvs r ((k, v) :: acc)
    | _ => none
partial def parseGo (cs : List Char) : Option (GoVal × List Char) :=
  let (tag, rest) := takeTag cs
  let parts := (String.ofList tag).splitOn ":"
  match rest with
  | '(' :: r =>
    match parts with
    | ["A"] => do let (xs, r) ← parseGos r []; pure (.slice xs, r)
    | ["M"] => do let (kvs, r) ← parseGoKvs r []; pure (.map kvs, r)
    | ["OA"] => do let (xs, r) ← parseObjs r []; pure (.objSlice xs, r)
    | ["OM"] => do let (kvs, r) ← parseObjKvs r []; pure (.objMap kvs, r)
    | ["O"] => do
      let (xs, r) ← parseObjs r []
      match xs with
      | [o] => pure (.object o, r)
      | _ => none
    | _ => none
  | _ =>
    (show Option GoVal from match parts with
    | ["N"] => some .nil
    | ["i64", h] => (bvOfHex 64 h).map .int64
    | ["i", h] => (bvOfHex 64 h).map .int
    | ["i32", h] => (bvOfHex 32 h).map .int32
    | ["i16", h] => (bvOfHex 16 h).map .int16
    | ["i8", h] => (bvOfHex 8 h).map .int8
    | ["u64", h] => (bvOfHex 64 h).map .uint64
    | ["u", h] => (bvOfHex 64 h).map .uint
    | ["up", h] => (bvOfHex 64 h).map .uintptr
    | ["u32", h] => (bvOfHex 32 h).map .uint32
    | ["u16", h] => (bvOfHex 16 h).map .uint16
    | ["u8", h] => (bvOfHex 8 h).map .uint8
    | ["f64", h] => (bvOfHex 64 h).map .float64
    | ["f32", h] => (bvOfHex 32 h).map .float32
    | ["b", "0"] => some (.bool false)
    | ["b", "1"] => some (.bool true)
    | ["s", h] => (bytesOfHex h.toList).map .string
    | ["yN"] => some .bytesNil
    | ["y", h] => (bytesOfHex h.toList).map .bytes
    | ["AN"] => some .sliceNil
    | ["MN"] => some .mapNil
    | ["OAN"] => some .objSliceNil
    | ["OMN"] => some .objMapNil
    | ["cN"] => some .callableNil
    | ["c", d] => some (.callable d.toNat!)
    | ["eN", h] => (strOfHex h).map .errorNilPtr
    | ["e", h, d] => (bytesOfHex h.toList).map (fun m => .error m d.toNat!)
    | ["d", h] => (bvOfHex 64 h).map .duration
    | ["t", d] => some (.time d.toNat!)
    | ["tpN"] => some .timePtrNil
    | ["tp", d] => some (.timePtr d.toNat!)
    | ["lN"] => some .locPtrNil
    | ["l", d] => some (.locPtr d.toNat!)
    | ["rN"] => some .rawNil
    | ["r", h] => (bytesOfHex h.toList).map .raw
    | ["p", h, d] => (strOfHex h).map (fun tn => .ptr tn d.toNat!)
    | ["x", h] => (strOfHex h).map .unsupported
    | _ => none).map (fun g => (g, rest))
end

def insertK {α} (p : Bytes × α) : List (Bytes × α) → List (Bytes × α)
  | [] => [p]
  | q :: r => if bytesCompare p.1 q.1 == -1 then p :: q :: r else q :: insertK p r

def hx (w : Nat) {n} (v : BitVec n) : String := hexOfNat w v.toNat

partial def showObj : Obj → String
  | .goNil => "gonil"
  | .undefined => "u"
  | .int v => "i:" ++ hx 16 v
  | .uint v => "n:" ++ hx 16 v
  | .float v => "f:" ++ hx 16 (canonNaN v)
  | .char v => "c:" ++ hx 8 v
  | .bool b => if b then "b:1" else "b:0"
  | .str s => "s:" ++ hexOfBytes s
  | .bytesNil => "yN"
  | .bytes s => "y:" ++ hexOfBytes s
  | .array xs => "a(" ++ " ".intercalate (xs.map showObj) ++ ")"
  | .map kvs => "m(" ++ " ".intercalate ((kvs.foldr insertK []).map fun (k, v) => hexOfBytes k ++ "=" ++ showObj v) ++ ")"
  | .syncMapNil => "smN"
  | .syncMap kvs => "sm(" ++ " ".intercalate ((kvs.foldr insertK []).map fun (k, v) => hexOfBytes k ++ "=" ++ showObj v) ++ ")"
  | .func id => s!"fn:{id}"
  | .error m id => s!"er:{hexOfBytes m}:{id}"
  | .timeNil => "tmN"
  | .time t => s!"tm:{t}"
  | .locationNil => "locN"
  | .location none => "loc:N"
  | .location (some l) => s!"loc:{l}"
  | .rawMessageNil => "rawN"
  | .rawMessage none => "raw:N"
  | .rawMessage (some b) => "raw:" ++ hexOfBytes b
  | .scanArgNil => "saN"
  | .scanArg none => "sa:N"
  | .scanArg (some (tn, id)) => s!"sa:{hexOfStr tn}:{id}"
  | .other tn id => s!"ot:{hexOfStr tn}:{id}"

partial def showGo : GoVal → String
  | .nil => "N"
  | .int64 v => "i64:" ++ hx 16 v
  | .int v => "i:" ++ hx 16 v
  | .int32 v => "i32:" ++ hx 8 v
  | .int16 v => "i16:" ++ hx 4 v
  | .int8 v => "i8:" ++ hx 2 v
  | .uint64 v => "u64:" ++ hx 16 v
  | .uint v => "u:" ++ hx 16 v
  | .uintptr v => "up:" ++ hx 16 v
  | .uint32 v => "u32:" ++ hx 8 v
  | .uint16 v => "u16:" ++ hx 4 v
  | .uint8 v => "u8:" ++ hx 2 v
  | .float64 v => "f64:" ++ hx 16 (canonNaN v)
  | .float32 v => "f32:" ++ hx 8 v
  | .bool b => if b then "b:1" else "b:0"
  | .string s => "s:" ++ hexOfBytes s
  | .bytesNil => "yN"
  | .bytes s => "y:" ++ hexOfBytes s
  | .sliceNil => "AN"
  | .slice xs => "A(" ++ " ".intercalate (xs.map showGo) ++ ")"
  | .mapNil => "MN"
  | .map kvs => "M(" ++ " ".intercalate ((kvs.foldr insertK []).map fun (k, v) => hexOfBytes k ++ "=" ++ showGo v) ++ ")"
  | .objSliceNil => "OAN"
  | .objSlice xs => "OA(" ++ " ".intercalate (xs.map showObj) ++ ")"
  | .objMapNil => "OMN"
  | .objMap kvs => "OM(" ++ " ".intercalate ((kvs.foldr insertK []).map fun (k, v) => hexOfBytes k ++ "=" ++ showObj v) ++ ")"
  | .object o => "O(" ++ showObj o ++ ")"
  | .callableNil => "cN"
  | .callable id => s!"c:{id}"
  | .errorNilPtr tn => "eN:" ++ hexOfStr tn
  | .error m id => s!"e:{hexOfBytes m}:{id}"
  | .duration v => "d:" ++ hx 16 v
  | .time t => s!"t:{t}"
  | .timePtrNil => "tpN"
  | .timePtr t => s!"tp:{t}"
  | .locPtrNil => "lN"
  | .locPtr l => s!"l:{l}"
  | .rawNil => "rN"
  | .raw s => "r:" ++ hexOfBytes s
  | .ptr tn id => s!"p:{hexOfStr tn}:{id}"
  | .unsupported tn => "x:" ++ hexOfStr tn

def showResObj : Res Obj → String
  | .ok v => "ok " ++ showObj v
  | .err e => showErr e
  | .panic m => "panic " ++ m

def showResGo : Res GoVal → String
  | .ok v => "ok " ++ showGo v
  | .err e => showErr e
  | .panic m => "panic " ++ m

/-- hardware float32 → float64 (the conversion Go performs) -/
def nativeConv : ConvOps where
  f32to64 x := fToBits (Float32.ofBits (UInt32.ofBitVec x)).toFloat

def parseGoStr (s : String) : Option GoVal :=
  match parseGo s.toList with
  | some (v, []) => some v
  | _ => none

def parseObjStr (s : String) : Option Obj :=
  match parseObj s.toList with
  | some (v, []) => some v
  | _ => none

def handleConv (args : List String) : String :=
  let C := nativeConv
  match args with
  | [op, vs] =>
    match op with
    | "toobj" => match parseGoStr vs with
      | some g => showResObj (toObject C g)
      | none => "bad-value"
    | "toalt" => match parseGoStr vs with
      | some g => showResObj (toObjectAlt C g)
      | none => "bad-value"
    | "toiface" => match parseObjStr vs with
      | some o => showResGo (toInterface o)
      | none => "bad-value"
    | "rtobj" => match parseObjStr vs with
      | some o => showResObj (toInterface o >>= toObject C)
      | none => "bad-value"
    | "rtalt" => match parseObjStr vs with
      | some o => showResObj (toInterface o >>= toObjectAlt C)
      | none => "bad-value"
    | "rtgo" => match parseGoStr vs with
      | some g => showResGo (toObject C g >>= toInterface)
      | none => "bad-value"
    | "rtgoalt" => match parseGoStr vs with
      | some g => showResGo (toObjectAlt C g >>= toInterface)
      | none => "bad-value"
    | _ => "bad-op"
  | _ => "bad-op"

end Driver
