import Driver.VMDrv
import Driver.CompileDrv
import UgoVerif.Model.Eval
/-
  `eval <fuel> <args;…> <ast of fragment 1> <ast of fragment 2> …`
  The Eval session model (`Model/Eval`) runs the fragments one after another; one record per
  fragment, joined by " ;; ":
    run <main fn after fixOpPop, NumParams = NumLocals, source map> consts=<new constants>
        out=<val image | err name msg> locals=[images] globals=<image>
    cerr <pos>         the compile failed (nothing ran)
    panic              a Go panic escapes Eval.Run
    unsupported <why>  outside the modelled subset: the rest of the session is not compared
  The session stops after the first fragment that does not return a value (as the property does).
-/
namespace Driver
open UgoVerif UgoVerif.Go UgoVerif.Ast UgoVerif.Compile UgoVerif.VM UgoVerif.Eval

def insertSorted (p : Bytes × String) : List (Bytes × String) → List (Bytes × String)
  | [] => [p]
  | q :: r => if decide (p.1 < q.1) then p :: q :: r else q :: insertSorted p r

/-- image of a runtime value: boxes are shown (`p(…)`), addresses are not -/
def evalImg (heap : Array Cell) : Nat → V → String
  | 0, _ => "deep"
  | fuel+1, v =>
    match v with
    | .nil => "nil"
    | .undefined => "u"
    | .int x => "i" ++ hexOfNat 16 x.toNat
    | .uint x => "n" ++ hexOfNat 16 x.toNat
    | .float x => "f" ++ hexOfNat 16 (canonNaN x).toNat
    | .char x => "c" ++ hexOfNat 8 x.toNat
    | .bool b => if b then "b1" else "b0"
    | .str s => "s" ++ hexOfBytes s
    | .bytes s => "y" ++ hexOfBytes s
    | .arr a off len =>
      match heap[a]? with
      | some (.arr xs) => "a(" ++ " ".intercalate (((xs.toList.drop off).take len).map (evalImg heap fuel)) ++ ")"
      | _ => "badarr"
    | .map a =>
      match heap[a]? with
      | some (.map kvs) =>
        let es := kvs.foldl (fun acc (k, x) => insertSorted (k, evalImg heap fuel x) acc) []
        "m(" ++ " ".intercalate (es.map fun (k, s) => hexOfBytes k ++ "=" ++ s) ++ ")"
      | _ => "badmap"
    | .box a =>
      match heap[a]? with
      | some (.box x) => "p(" ++ evalImg heap fuel x ++ ")"
      | _ => "badbox"
    | .cfun a =>
      match heap[a]? with
      | some (.fn _ free) => s!"F{(free.getD []).length}"
      | _ => "badfn"
    | .builtin _ => "B"
    | .err a =>
      match heap[a]? with
      | some (.err name msg _) => "E(" ++ hexOfBytes name ++ "," ++ hexOfBytes msg ++ ")"
      | _ => "baderr"
    | .rterr a =>
      match heap[a]? with
      | some (.rterr (some ea)) =>
        match heap[ea]? with
        | some (.err name msg _) => "E(" ++ hexOfBytes name ++ "," ++ hexOfBytes msg ++ ")"
        | _ => "baderr"
      | _ => "E()"
    | .iter _ => "o*ugo.iteratorObject"
    | .host _ => "G"

def evalImgs (heap : Array Cell) (vs : List V) : String :=
  "[" ++ " ".intercalate (vs.map (evalImg heap 25)) ++ "]"

def showRun (o : RunOut) (oldN : Nat) : String :=
  let s := o.session
  match o.result, o.bytecode with
  | .compileError (.err pos _), _ => s!"cerr {pos}"
  | .compileError (.bare _), _ => "cerr -"
  | .compileError (.panic _), _ => "cerr -"
  | .compileError (.unsupported m), _ => "unsupported " ++ m
  | .crash _, _ => "panic"
  | .unsupported m, _ => "unsupported " ++ m
  | .outOfFuel, _ => "unsupported fuel"
  | res, some bc =>
    let outS := match res with
      | .value v => "val " ++ evalImg s.vm.heap 25 v
      | .error e => showVmErr s.vm e
      | _ => "?"
    let cs := " ".intercalate ((bc.constants.toList.drop oldN).map showConst)
    s!"run {showFn bc.main} consts={cs} out={outS} locals={evalImgs s.vm.heap s.locals} globals={evalImg s.vm.heap 25 s.globals}"
  | _, none => "bad"

def handleEval (args : List String) : String :=
  match args with
  | fuelS :: argsS :: asts =>
    let build : B (Option (V × List V)) := do
      let ga ← bAlloc (.map [])
      let mut as : List V := []
      for w in words argsS do
        match parseValStr w with
        | some v => as := as ++ [← ofVal v]
        | none => return none
      pure (some (V.map ga, as))
    match build.run {} with
    | (none, _) => "bad-op"
    | (some (g, as), b) =>
      let s0 := newSession builtinsMap [] b.heap g as
      let rec go (s : Session) (asts : List String) (acc : List String) (n : Nat) : List String :=
        match n, asts with
        | 0, _ => acc
        | _, [] => acc
        | n+1, a :: rest =>
          match parseFile a with
          | none => acc ++ ["bad-ast"]
          | some file =>
            let oldN := s.constants.size
            let o := evalRun nativeFloat fuelS.toNat! s file
            let r := showRun o oldN
            let failed := match o.result with | .value _ => false | _ => true
            if failed || r.startsWith "unsupported" || r == "panic" || r == "bad" then acc ++ [r]
            else go o.session rest (acc ++ [r]) n
      " ;; ".intercalate (go s0 asts [] (asts.length + 1))
  | _ => "bad-op"

end Driver
