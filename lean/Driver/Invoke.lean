import Driver.VMDrv
import UgoVerif.VM.Invoke
/-
  Driver for the Invoker model (stream `invoke`, property C14):
    inv <opts> <fuel> <numModules> <main> <consts> <globals (ignored)> <args>
  opts: R = recovery on; A = in-script variant (globals hold only the panicking Go function),
  B = Go-side variant (globals hold call / calln / gopanic); u p U P = unpooled, pooled,
  one Invoker reused unpooled / pooled.  The answer has the layout of the `vm` handler's.
-/
namespace Driver
open UgoVerif UgoVerif.Go UgoVerif.VM

def hostKeys : List Bytes := [strBytes "call", strBytes "calln", strBytes "gopanic"]

def handleInv (args : List String) : String :=
  let args := match args.reverse with
    | c :: rest => if c.startsWith "#" then rest.reverse else args
    | [] => args
  match args with
  | [opts, fuelS, nmS, mainS, constsS, _globalsS, argsS] =>
    let build : B (Option (V × Array V × V × List V)) := do
      match parseFn mainS with
      | none => pure none
      | some mc =>
        let mainV ← addFn mc
        let mut consts : Array V := #[]
        for w in words constsS do
          match (← parseConst w) with
          | some v => consts := consts.push v
          | none => return none
        let ents : List (Bytes × V) :=
          if opts.contains 'B' then [(strBytes "call", .host 0), (strBytes "calln", .host 1), (strBytes "gopanic", .host 2)]
          else [(strBytes "gopanic", .host 2)]
        let ga ← bAlloc (.map ents)
        let mut as : List V := []
        for w in words argsS do
          match parseValStr w with
          | some v => as := as ++ [← ofVal v]
          | none => return none
        pure (some (mainV, consts, V.map ga, as))
    match build.run {} with
    | (none, _) => "bad-op"
    | (some (mainV, consts, g, as), b) =>
      match mainV with
      | .cfun ma =>
        let s0 := newState b.codes b.heap consts ma nmS.toNat!
        let s0 := { s0 with noPanic := opts.contains 'R' }
        let cfg : HostCfg := { pooled := opts.contains 'p' || opts.contains 'P', reuse := opts.contains 'U' || opts.contains 'P' }
        let (out, _, s) := runAt nativeFloat cfg s0 64 fuelS.toNat! {} g as s0
        let outS := match out with
          | .value v => "val " ++ showVal (imageOf s.heap 64 v)
          | .error e => showVmErr s e
          | .goPanic _ => "panic"
          | .unsupported m => "unsupported " ++ m
          | .outOfFuel => "fuel"
        let gimg := match s.globals with
          | .map a =>
            match s.heap[a]? with
            | some (.map kvs) => Val.map ((kvs.filter fun (k, _) => !hostKeys.contains k).map fun (k, x) => (k, imageOf s.heap 64 x))
            | _ => .opaque "badmap" 0
          | v => imageOf s.heap 64 v
        s!"out={outS}\tsteps={s.steps}\tth={traceHash s.trace}\tglobals={showVal gimg}"
      | _ => "bad-op"
  | _ => "bad-op"

end Driver
